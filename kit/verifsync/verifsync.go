// Package verifsync is a lock-order monitor (in the spirit of the kernel's lockdep) used by the C34 check.
//
// The driver rewrites, in the build overlay only, every `sync.Mutex` / `sync.RWMutex` declared in the package under test
// into `verifsync.Mutex[<class marker>]` / `verifsync.RWMutex[<class marker>]`, one class per declaring struct field.
// Every acquisition attempt records, for the acquiring goroutine, an edge (class already held -> class being acquired)
// with the stack of its first occurrence. A cycle in the class graph is a lock-order inversion: two goroutines taking
// those paths at the same moment deadlock, whether or not the run happened to interleave them that way.
// Also recorded: a goroutine read-locking an RWMutex instance it already holds for reading (deadlocks as soon as a
// writer queues in between).
package verifsync

import (
	"fmt"
	"runtime"
	"sort"
	"strings"
	"sync"
	"sync/atomic"
	"unsafe"
)

// Marker names a lock class.
type Marker interface{ VerifLockClass() string }

var (
	regMu     sync.Mutex
	classIDs  = map[string]int32{}
	className = []string{""}
)

func register(name string) int32 {
	regMu.Lock()
	defer regMu.Unlock()
	if id, ok := classIDs[name]; ok {
		return id
	}
	id := int32(len(className))
	classIDs[name] = id
	className = append(className, name)
	return id
}

type held struct {
	cls  int32
	inst uintptr
	read bool
}

type gstate struct{ held []held }

// Edge is one observed "acquired To while holding From".
type Edge struct {
	From, To         string
	FromRead, ToRead bool
	Stack            string
	Count            int64
}

type edgeRec struct {
	e Edge
	n atomic.Int64
}

var (
	gmap      sync.Map // goid -> *gstate
	edges     sync.Map // uint64(from)<<32|to -> *edgeRec
	recursive sync.Map // class id -> stack of the first recursive read lock
	acquires  atomic.Int64
	nested    atomic.Int64
	foreign   atomic.Int64 // unlocks by a goroutine that does not hold the lock (hand-off): not tracked further
)

func goid() uint64 {
	var buf [40]byte
	n := runtime.Stack(buf[:], false)
	// "goroutine 123 [running]:"
	var id uint64
	for i := len("goroutine "); i < n; i++ {
		c := buf[i]
		if c < '0' || c > '9' {
			break
		}
		id = id*10 + uint64(c-'0')
	}
	return id
}

func stack() string {
	buf := make([]byte, 16<<10)
	n := runtime.Stack(buf, false)
	lines := strings.Split(string(buf[:n]), "\n")
	var out []string
	for i := 0; i+1 < len(lines); i++ {
		if strings.Contains(lines[i], "verifsync.") {
			i++
			continue
		}
		out = append(out, lines[i])
	}
	if len(out) > 40 {
		out = out[:40]
	}
	return strings.Join(out, "\n")
}

func attempt(cls int32, inst uintptr, read bool) {
	acquires.Add(1)
	g := goid()
	var gs *gstate
	if v, ok := gmap.Load(g); ok {
		gs = v.(*gstate)
	} else {
		gs = &gstate{}
		gmap.Store(g, gs)
	}
	for _, h := range gs.held {
		if h.inst == inst {
			if read && h.read {
				if _, ok := recursive.Load(cls); !ok {
					recursive.LoadOrStore(cls, stack())
				}
			}
			continue
		}
		nested.Add(1)
		key := uint64(uint32(h.cls))<<32 | uint64(uint32(cls))
		if v, ok := edges.Load(key); ok {
			v.(*edgeRec).n.Add(1)
			continue
		}
		rec := &edgeRec{e: Edge{From: classNameOf(h.cls), To: classNameOf(cls), FromRead: h.read, ToRead: read, Stack: stack()}}
		if v, loaded := edges.LoadOrStore(key, rec); loaded {
			v.(*edgeRec).n.Add(1)
		} else {
			rec.n.Add(1)
		}
	}
	gs.held = append(gs.held, held{cls, inst, read})
}

func classNameOf(id int32) string {
	regMu.Lock()
	defer regMu.Unlock()
	return className[id]
}

func release(inst uintptr, read bool) {
	g := goid()
	v, ok := gmap.Load(g)
	if !ok {
		foreign.Add(1)
		return
	}
	gs := v.(*gstate)
	for i := len(gs.held) - 1; i >= 0; i-- {
		if gs.held[i].inst == inst && gs.held[i].read == read {
			gs.held = append(gs.held[:i], gs.held[i+1:]...)
			if len(gs.held) == 0 {
				gmap.Delete(g)
			}
			return
		}
	}
	foreign.Add(1)
}

// failed undoes the bookkeeping of a TryLock that did not get the lock.
func failed(inst uintptr, read bool) { release(inst, read) }

// RWMutex is a sync.RWMutex whose acquisitions are recorded under the class M.
type RWMutex[M Marker] struct {
	mu  sync.RWMutex
	cls atomic.Int32
}

func (m *RWMutex[M]) class() int32 {
	if c := m.cls.Load(); c != 0 {
		return c
	}
	var z M
	c := register(z.VerifLockClass())
	m.cls.Store(c)
	return c
}
func (m *RWMutex[M]) Lock()    { attempt(m.class(), uintptr(unsafe.Pointer(m)), false); m.mu.Lock() }
func (m *RWMutex[M]) Unlock()  { m.mu.Unlock(); release(uintptr(unsafe.Pointer(m)), false) }
func (m *RWMutex[M]) RLock()   { attempt(m.class(), uintptr(unsafe.Pointer(m)), true); m.mu.RLock() }
func (m *RWMutex[M]) RUnlock() { m.mu.RUnlock(); release(uintptr(unsafe.Pointer(m)), true) }
func (m *RWMutex[M]) TryLock() bool {
	if m.mu.TryLock() {
		gsPush(m.class(), uintptr(unsafe.Pointer(m)), false)
		return true
	}
	return false
}
func (m *RWMutex[M]) TryRLock() bool {
	if m.mu.TryRLock() {
		gsPush(m.class(), uintptr(unsafe.Pointer(m)), true)
		return true
	}
	return false
}

type rlocker[M Marker] struct{ m *RWMutex[M] }

func (r rlocker[M]) Lock()   { r.m.RLock() }
func (r rlocker[M]) Unlock() { r.m.RUnlock() }

func (m *RWMutex[M]) RLocker() sync.Locker { return rlocker[M]{m} }

// gsPush records a lock obtained without blocking (no ordering edge: a try-lock cannot deadlock).
func gsPush(cls int32, inst uintptr, read bool) {
	g := goid()
	var gs *gstate
	if v, ok := gmap.Load(g); ok {
		gs = v.(*gstate)
	} else {
		gs = &gstate{}
		gmap.Store(g, gs)
	}
	gs.held = append(gs.held, held{cls, inst, read})
}

// Mutex is a sync.Mutex whose acquisitions are recorded under the class M.
type Mutex[M Marker] struct {
	mu  sync.Mutex
	cls atomic.Int32
}

func (m *Mutex[M]) class() int32 {
	if c := m.cls.Load(); c != 0 {
		return c
	}
	var z M
	c := register(z.VerifLockClass())
	m.cls.Store(c)
	return c
}
func (m *Mutex[M]) Lock()   { attempt(m.class(), uintptr(unsafe.Pointer(m)), false); m.mu.Lock() }
func (m *Mutex[M]) Unlock() { m.mu.Unlock(); release(uintptr(unsafe.Pointer(m)), false) }
func (m *Mutex[M]) TryLock() bool {
	if m.mu.TryLock() {
		gsPush(m.class(), uintptr(unsafe.Pointer(m)), false)
		return true
	}
	return false
}

// Stats reports how much was observed.
func Stats() (acq, nest, foreignUnlocks int64, classes []string) {
	regMu.Lock()
	classes = append(classes, className[1:]...)
	regMu.Unlock()
	sort.Strings(classes)
	return acquires.Load(), nested.Load(), foreign.Load(), classes
}

// Edges returns every observed ordering edge.
func Edges() []Edge {
	var out []Edge
	edges.Range(func(_, v any) bool {
		r := v.(*edgeRec)
		e := r.e
		e.Count = r.n.Load()
		out = append(out, e)
		return true
	})
	sort.Slice(out, func(i, j int) bool {
		if out[i].From != out[j].From {
			return out[i].From < out[j].From
		}
		return out[i].To < out[j].To
	})
	return out
}

// Cycle is a lock-order inversion: Edges[i].To == Edges[i+1].From, and the last edge leads back to the first class.
type Cycle struct {
	Key   string
	Edges []Edge
}

// Cycles returns the elementary cycles of the class graph (each reported once, rotated to start at its smallest class).
// Edges from a class to itself (two instances of one class nested) are reported separately by SelfEdges.
func Cycles() []Cycle {
	es := Edges()
	adj := map[string][]Edge{}
	for _, e := range es {
		if e.From != e.To {
			adj[e.From] = append(adj[e.From], e)
		}
	}
	seen := map[string]bool{}
	var out []Cycle
	var path []Edge
	var dfs func(start, cur string, depth int)
	dfs = func(start, cur string, depth int) {
		if depth > 6 {
			return
		}
		for _, e := range adj[cur] {
			if e.To == start {
				cyc := append(append([]Edge(nil), path...), e)
				names := make([]string, len(cyc))
				for i, x := range cyc {
					names[i] = x.From
				}
				mi := 0
				for i := range names {
					if names[i] < names[mi] {
						mi = i
					}
				}
				rot := append(append([]Edge(nil), cyc[mi:]...), cyc[:mi]...)
				var ks []string
				for _, x := range rot {
					ks = append(ks, x.From)
				}
				key := strings.Join(ks, "->") + "->" + rot[0].From
				if !seen[key] {
					seen[key] = true
					out = append(out, Cycle{Key: key, Edges: rot})
				}
				continue
			}
			if e.To < start {
				continue // that cycle is found from its smallest class
			}
			onPath := false
			for _, p := range path {
				if p.From == e.To {
					onPath = true
				}
			}
			if onPath || e.To == cur {
				continue
			}
			path = append(path, e)
			dfs(start, e.To, depth+1)
			path = path[:len(path)-1]
		}
	}
	var starts []string
	for k := range adj {
		starts = append(starts, k)
	}
	sort.Strings(starts)
	for _, s := range starts {
		path = path[:0]
		dfs(s, s, 0)
	}
	sort.Slice(out, func(i, j int) bool { return out[i].Key < out[j].Key })
	return out
}

// SelfEdges returns nestings of two instances of the same class (an ordering between instances must exist for those to be safe).
func SelfEdges() []Edge {
	var out []Edge
	for _, e := range Edges() {
		if e.From == e.To {
			out = append(out, e)
		}
	}
	return out
}

// RecursiveReadLocks returns, per class, the stack of the first read lock taken on an instance the goroutine already held for reading.
func RecursiveReadLocks() map[string]string {
	out := map[string]string{}
	recursive.Range(func(k, v any) bool {
		out[classNameOf(k.(int32))] = v.(string)
		return true
	})
	return out
}

func (c Cycle) String() string {
	var sb strings.Builder
	for _, e := range c.Edges {
		fmt.Fprintf(&sb, "holding %s%s, acquires %s%s (seen %d times), first at:\n%s\n\n", e.From, rw(e.FromRead), e.To, rw(e.ToRead), e.Count, e.Stack)
	}
	return sb.String()
}

func rw(read bool) string {
	if read {
		return " (read)"
	}
	return " (write)"
}
