// Package verifkit is the shared runtime for the verification monitors in /verif.
// It is injected into the repository build through `go test -overlay` (never written into /repo).
//
// A monitor is an ordinary Go test (TestVerif<ID>...) that creates a Reporter, drives the real code,
// counts what it observed and records violations; Done() writes one JSON result file that the
// /verif/bin/check driver merges into /verif/evidence/<ID>.json.
package verifkit

import (
	"encoding/binary"
	"encoding/hex"
	"encoding/json"
	"fmt"
	"hash/fnv"
	"math/rand/v2"
	"os"
	"path/filepath"
	"runtime/debug"
	"sort"
	"strconv"
	"sync"
	"testing"
	"time"
)

// Seed returns VERIF_SEED (default 1).
func Seed() uint64 {
	if s := os.Getenv("VERIF_SEED"); s != "" {
		if v, err := strconv.ParseInt(s, 10, 64); err == nil {
			return uint64(v)
		}
	}
	return 1
}

// Tier returns "quick" or "thorough" (VERIF_TIER, default quick).
func Tier() string {
	if os.Getenv("VERIF_TIER") == "thorough" {
		return "thorough"
	}
	return "quick"
}

func Thorough() bool { return Tier() == "thorough" }

// Scale picks the case budget for the current tier. Budgets are case counts, never wall time.
func Scale(quick, thorough int) int {
	if Thorough() {
		return thorough
	}
	return quick
}

// NewRand returns a deterministic PRNG determined by (VERIF_SEED, stream).
func NewRand(stream string) *rand.Rand {
	h := fnv.New64a()
	h.Write([]byte(stream))
	return rand.New(rand.NewPCG(Seed(), h.Sum64()))
}

// SubRand derives an independent deterministic PRNG for case i of a stream (for parallel workers).
func SubRand(stream string, i int) *rand.Rand {
	h := fnv.New64a()
	h.Write([]byte(stream))
	return rand.New(rand.NewPCG(Seed()^(uint64(i)*0x9e3779b97f4a7c15), h.Sum64()+uint64(i)))
}

// Shard returns (i, n): this process is shard i of n (VERIF_SHARD / VERIF_SHARDS). Monitors with
// large case lists run case c only when c % n == i.
func Shard() (int, int) {
	n, _ := strconv.Atoi(os.Getenv("VERIF_SHARDS"))
	i, _ := strconv.Atoi(os.Getenv("VERIF_SHARD"))
	if n < 1 {
		n = 1
	}
	if i < 0 || i >= n {
		i = 0
	}
	return i, n
}

// Mine reports whether case index c belongs to this shard.
func Mine(c int) bool {
	i, n := Shard()
	return c%n == i
}

func shardSuffix() string {
	i, _ := Shard()
	return ".s" + strconv.Itoa(i)
}

// Hex is a helper for replay/sample records.
func Hex(b []byte) string { return hex.EncodeToString(b) }

type violation struct {
	Key    string `json:"key"`
	What   string `json:"what"`
	Count  int    `json:"count"`
	Replay string `json:"replay"`
}

type result struct {
	Property     string            `json:"property"`
	Unit         string            `json:"unit"`
	Seed         uint64            `json:"seed"`
	Tier         string            `json:"tier"`
	Rule         string            `json:"rule"`
	Evaluations  int64             `json:"evaluations"`
	Distinct     int               `json:"distinct_nontrivial"`
	DistinctKeys []string          `json:"distinct_keys,omitempty"`
	Samples      []any             `json:"samples"`
	Counters     map[string]int64  `json:"counters"`
	Info         map[string]any    `json:"info"`
	Exhaustive   []string          `json:"exhaustive"`
	Violations   []*violation      `json:"violations"`
	Inconclusive []string          `json:"inconclusive"`
	WallS        float64           `json:"wall_s"`
	Notes        map[string]string `json:"notes,omitempty"`
}

// Reporter collects what one monitor unit observed. All methods are safe for concurrent use.
type Reporter struct {
	mu       sync.Mutex
	t        testing.TB
	res      result
	distinct map[uint64]struct{}
	dkeys    map[string]struct{}
	viol     map[string]*violation
	start    time.Time
	outDir   string
	preFile  *os.File
	done     bool
	maxSamp  int
}

// NewReporter starts a unit. prop is the property id ("C11"), unit a short name unique within the
// property, rule the human description of how cases are generated and what counts as distinct and
// non-trivial.
func NewReporter(t testing.TB, prop, unit, rule string) *Reporter {
	r := &Reporter{t: t, distinct: map[uint64]struct{}{}, dkeys: map[string]struct{}{}, viol: map[string]*violation{}, start: time.Now(), maxSamp: 4}
	r.res = result{Property: prop, Unit: unit, Seed: Seed(), Tier: Tier(), Rule: rule,
		Counters: map[string]int64{}, Info: map[string]any{}, Samples: []any{}, Exhaustive: []string{},
		Violations: []*violation{}, Inconclusive: []string{}}
	r.outDir = os.Getenv("VERIF_OUT")
	if r.outDir == "" {
		r.outDir = os.TempDir()
	}
	os.MkdirAll(r.outDir, 0o755)
	if f, err := os.Create(filepath.Join(r.outDir, prop+"."+unit+shardSuffix()+".pre")); err == nil {
		r.preFile = f
	}
	return r
}

// Eval counts n executed cases.
func (r *Reporter) Eval(n int) {
	r.mu.Lock()
	r.res.Evaluations += int64(n)
	r.mu.Unlock()
}

// Distinct records the signature of a non-trivial case; the evidence reports the number of distinct
// signatures seen. Signatures are hashed (64-bit) so that millions can be held.
func (r *Reporter) Distinct(sig string) {
	h := fnv.New64a()
	h.Write([]byte(sig))
	k := h.Sum64()
	r.mu.Lock()
	r.distinct[k] = struct{}{}
	r.mu.Unlock()
}

// DistinctU64 records an already-hashed signature (cheap path for hot loops).
func (r *Reporter) DistinctU64(k uint64) {
	r.mu.Lock()
	r.distinct[k] = struct{}{}
	r.mu.Unlock()
}

// DistinctClass is like Distinct but also keeps the (short, low-cardinality) signature text in the
// evidence, e.g. the truth vector of the conjuncts of a rule. At most 400 are kept verbatim.
func (r *Reporter) DistinctClass(sig string) {
	r.Distinct(sig)
	r.mu.Lock()
	if len(r.dkeys) < 400 {
		r.dkeys[sig] = struct{}{}
	}
	r.mu.Unlock()
}

// NDistinct returns the number of distinct signatures so far.
func (r *Reporter) NDistinct() int {
	r.mu.Lock()
	defer r.mu.Unlock()
	return len(r.distinct)
}

// Sample keeps the first few cases verbatim for the evidence file.
func (r *Reporter) Sample(v any) {
	r.mu.Lock()
	if len(r.res.Samples) < r.maxSamp {
		r.res.Samples = append(r.res.Samples, v)
	}
	r.mu.Unlock()
}

// WantSample says whether Sample would still keep a case (avoid building expensive records).
func (r *Reporter) WantSample() bool {
	r.mu.Lock()
	defer r.mu.Unlock()
	return len(r.res.Samples) < r.maxSamp
}

// Count adds to a named event counter shown in the evidence.
func (r *Reporter) Count(name string, n int) {
	r.mu.Lock()
	r.res.Counters[name] += int64(n)
	r.mu.Unlock()
}

// Counter reads a named counter.
func (r *Reporter) Counter(name string) int64 {
	r.mu.Lock()
	defer r.mu.Unlock()
	return r.res.Counters[name]
}

// Info attaches a named value to the evidence.
func (r *Reporter) Info(name string, v any) {
	r.mu.Lock()
	r.res.Info[name] = v
	r.mu.Unlock()
}

// Exhaustive declares that the named finite sub-space was enumerated completely.
func (r *Reporter) Exhaustive(name string) {
	r.mu.Lock()
	r.res.Exhaustive = append(r.res.Exhaustive, name)
	r.mu.Unlock()
}

// Pre logs the case that is about to run, so a process-fatal report still has its input.
func (r *Reporter) Pre(format string, args ...any) {
	if r.preFile == nil {
		return
	}
	r.mu.Lock()
	r.preFile.Truncate(0)
	r.preFile.Seek(0, 0)
	fmt.Fprintf(r.preFile, format, args...)
	r.mu.Unlock()
}

// Violation records a witness. key names the witness class (used to match known findings:
// "<prop>/<class>"); what is a one-line human description; replay is the concrete case.
// Only the first witness per key is written out, the rest are counted.
func (r *Reporter) Violation(key, what string, replay any) {
	r.mu.Lock()
	defer r.mu.Unlock()
	if v, ok := r.viol[key]; ok {
		v.Count++
		return
	}
	v := &violation{Key: key, What: what, Count: 1}
	dir := os.Getenv("VERIF_REPLAY_DIR")
	if dir == "" {
		dir = r.outDir
	}
	os.MkdirAll(dir, 0o755)
	name := fmt.Sprintf("%s-%s-seed%d-s%s-%d.json", r.res.Property, r.res.Unit, r.res.Seed, os.Getenv("VERIF_SHARD"), len(r.viol))
	p := filepath.Join(dir, name)
	rec := map[string]any{"property": r.res.Property, "unit": r.res.Unit, "seed": r.res.Seed, "tier": r.res.Tier,
		"key": key, "what": what, "case": replay}
	if b, err := json.MarshalIndent(rec, "", " "); err == nil {
		os.WriteFile(p, b, 0o644)
	} else {
		os.WriteFile(p, []byte(fmt.Sprintf("%q", fmt.Sprint(rec))), 0o644)
	}
	v.Replay = p
	r.viol[key] = v
	r.res.Violations = append(r.res.Violations, v)
	r.t.Logf("VERIF-VIOLATION %s key=%s %s", r.res.Property, key, what)
}

// NViolations returns the number of distinct violation keys.
func (r *Reporter) NViolations() int {
	r.mu.Lock()
	defer r.mu.Unlock()
	return len(r.viol)
}

// Inconclusive records that (part of) the unit could not decide (hook not reached, too few events).
func (r *Reporter) Inconclusive(why string) {
	r.mu.Lock()
	r.res.Inconclusive = append(r.res.Inconclusive, why)
	r.mu.Unlock()
	r.t.Logf("VERIF-INCONCLUSIVE %s %s", r.res.Property, why)
}

// Guard runs f and turns a panic into a violation with key "<keyprefix>/panic".
// It returns true when f panicked.
func (r *Reporter) Guard(key string, replay func() any, f func()) (panicked bool) {
	defer func() {
		if e := recover(); e != nil {
			panicked = true
			var rp any
			if replay != nil {
				rp = replay()
			}
			r.Violation(key, fmt.Sprintf("panic: %v", e), map[string]any{"input": rp, "panic": fmt.Sprint(e), "stack": string(debug.Stack())})
		}
	}()
	f()
	return false
}

// Done writes the unit's result file. Call it exactly once (defer it right after NewReporter).
func (r *Reporter) Done() {
	r.mu.Lock()
	defer r.mu.Unlock()
	if r.done {
		return
	}
	r.done = true
	r.res.Distinct = len(r.distinct)
	for k := range r.dkeys {
		r.res.DistinctKeys = append(r.res.DistinctKeys, k)
	}
	sort.Strings(r.res.DistinctKeys)
	r.res.WallS = time.Since(r.start).Seconds()
	b, err := json.Marshal(&r.res)
	if err != nil {
		// samples that do not marshal must not lose the verdict
		r.res.Samples = []any{fmt.Sprintf("unmarshalable samples: %v", err)}
		b, _ = json.Marshal(&r.res)
	}
	base := filepath.Join(r.outDir, r.res.Property+"."+r.res.Unit+shardSuffix())
	p := base + ".json"
	if err := os.WriteFile(p, b, 0o644); err != nil {
		r.t.Errorf("verifkit: cannot write %s: %v", p, err)
	}
	if _, n := Shard(); n > 1 && len(r.distinct) <= 4_000_000 {
		dk := make([]byte, 0, 8*len(r.distinct))
		for k := range r.distinct {
			dk = binary.LittleEndian.AppendUint64(dk, k)
		}
		os.WriteFile(base+".dk", dk, 0o644)
	}
	if r.preFile != nil {
		r.preFile.Close()
		os.Remove(r.preFile.Name())
	}
}
