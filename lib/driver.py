#!/usr/bin/env python3
"""verif driver: build the monitors of one property into /repo's packages through a go overlay,
run them in child processes, merge what they observed into evidence/<ID>.json and print the verdict.

usage: check <ID> [--tier quick|thorough] [--replay FILE] [--keep] [--unit NAME]
exit 0 held / known findings only, 1 violation (prints VIOLATION line), 2 inconclusive.
"""
import array, glob, hashlib, json, os, re, shutil, signal, subprocess, sys, time
from concurrent.futures import ThreadPoolExecutor

VERIF = os.path.dirname(os.path.dirname(os.path.abspath(__file__)))
REPO = os.environ.get("VERIF_REPO", "/repo")
MODULE = "github.com/slackhq/nebula"


def log(*a):
    print(*a, flush=True)


def go_env():
    env = dict(os.environ)
    env["GOFLAGS"] = "-mod=mod"
    env["GOPROXY"] = "off"
    env.pop("GOSUMDB", None)
    env["GONOSUMDB"] = "github.com/anishathalye/*,go.etcd.io/*"
    env["GONOSUMCHECK"] = "1"
    env["GOTOOLCHAIN"] = "auto"
    env.setdefault("GOCACHE", os.path.expanduser("~/.cache/go-build"))
    return env


_go = None


def go_cmd():
    """`go` auto-switches to the cached go1.26.0 the baseline used; fall back to go1.26.8."""
    global _go
    if _go:
        return _go
    env = go_env()
    try:
        out = subprocess.run(["go", "version"], cwd=REPO, env=env, capture_output=True, text=True, timeout=60)
        if out.returncode == 0 and "go1.26" in out.stdout:
            _go = (["go"], env)
            return _go
    except Exception:
        pass
    env = dict(env)
    env["GOTOOLCHAIN"] = "local"
    _go = (["go1.26.8"], env)
    return _go


def load_known():
    known, fixed = [], []
    p = os.path.join(VERIF, "known_findings.txt")
    if os.path.exists(p):
        for line in open(p):
            line = line.strip()
            if not line or line.startswith("#"):
                continue
            m = re.match(r"known:\s+property=(\S+)\s+key=(\S+)\s+(.*)", line)
            if m:
                known.append({"property": m.group(1), "key": m.group(2), "what": m.group(3)})
                continue
            m = re.match(r"fixed:\s+property=(\S+)\s+(\S+)\s+(.*)", line)
            if m:
                fixed.append({"property": m.group(1), "commit": m.group(2), "what": m.group(3)})
    return known, fixed


def pkg_dir(pkg):
    return REPO if pkg in (".", "") else os.path.join(REPO, pkg)


def mon_dir(pkg):
    return os.path.join(VERIF, "monitors", "_root" if pkg in (".", "") else pkg)


def make_overlay(cfg, unit, bdir):
    """hide the package's own *_test.go, add kit + monitor files"""
    rep = {}
    pkg = unit.get("pkg", ".")
    pd = pkg_dir(pkg)
    for f in glob.glob(os.path.join(pd, "*_test.go")):
        rep[f] = ""
    md = mon_dir(pkg)
    pats = ["verif_common*_test.go"] + unit.get("files", ["verif_%s*_test.go" % cfg["property_id"].lower()])
    n = 0
    for pat in pats:
        for f in sorted(glob.glob(os.path.join(md, pat))):
            rep[os.path.join(pd, os.path.basename(f))] = f
            n += 1
    # extra non-test overlay files (e.g. hook implementations) : {"repo/relative/path": "verif/relative/path"}
    for dst, src in unit.get("overlay", {}).items():
        rep[os.path.join(REPO, dst)] = os.path.join(VERIF, src)
    for f in glob.glob(os.path.join(VERIF, "kit", "*.go")):
        rep[os.path.join(REPO, "verifkit", os.path.basename(f))] = f
    for f in glob.glob(os.path.join(VERIF, "kit", "*", "*.go")):
        rep[os.path.join(REPO, "verifkit", os.path.basename(os.path.dirname(f)), os.path.basename(f))] = f
    if unit.get("lock_order"):
        rep.update(instrument_locks(pd, os.path.join(bdir, "lockinst." + unit["name"])))
    p = os.path.join(bdir, "overlay.%s.json" % unit["name"])
    json.dump({"Replace": rep}, open(p, "w"), indent=1)
    return p, n


LOCK_RE = re.compile(r"\bsync\.(RW)?Mutex\b")


def instrument_locks(pd, outdir):
    """lock-order instrumentation (kit/verifsync): in copies of the package's non-test sources, every sync.Mutex / sync.RWMutex
    becomes verifsync.Mutex[class] / verifsync.RWMutex[class], one class per declaring struct field. Returns overlay entries."""
    os.makedirs(outdir, exist_ok=True)
    files = [f for f in sorted(glob.glob(os.path.join(pd, "*.go"))) if not f.endswith("_test.go")]
    by_field = {}
    plans = {}
    n = 0
    for f in files:
        lines = open(f).read().split("\n")
        cur = None
        plan = []
        for i, l in enumerate(lines):
            m = re.match(r"^type (\w+)(\[[^\]]*\])? struct \{", l)
            if m:
                cur = m.group(1)
            elif l.startswith("}"):
                cur = None
            code = l.split("//")[0]
            if not LOCK_RE.search(code):
                continue
            st = code.strip()
            if cur and not re.search(r"[:=]", code):
                field = st.split()[0]
                if field.startswith("sync.") or field.startswith("*sync."):
                    field = field.split(".")[-1]
                cls = "%s.%s" % (cur, field)
                by_field.setdefault(field, cls)
            else:
                cls = None
            plan.append((i, cls))
        if plan:
            plans[f] = (lines, plan)
    rep = {}
    markers = {}
    for f, (lines, plan) in plans.items():
        decl = []
        for i, cls in plan:
            if cls is None:
                m = re.search(r"(\w+):\s*&?sync\.", lines[i])
                cls = by_field.get(m.group(1)) if m else None
                if cls is None:
                    cls = "%s:%d" % (os.path.basename(f), i + 1)
            if cls not in markers:
                n += 1
                markers[cls] = "verifLk%d" % n
                decl.append('type %s struct{}\n\nfunc (%s) VerifLockClass() string { return "%s" }\n' % (markers[cls], markers[cls], cls))
            mk = markers[cls]
            code, sep, com = lines[i].partition("//")
            code = LOCK_RE.sub(lambda m: "verifsync.%sMutex[%s]" % (m.group(1) or "", mk), code)
            lines[i] = code + sep + com
        for j, l in enumerate(lines):
            if l.startswith("package "):
                lines.insert(j + 1, 'import verifsync "github.com/slackhq/nebula/verifkit/verifsync"')
                break
        lines.append("var _ sync.Mutex\n")
        lines.extend(decl)
        out = os.path.join(outdir, os.path.basename(f))
        open(out, "w").write("\n".join(lines))
        rep[f] = out
    json.dump({"classes": markers}, open(os.path.join(outdir, "classes.json"), "w"), indent=1)
    return rep


def make_modfile(bdir, extra_requires):
    src = open(os.path.join(REPO, "go.mod")).read()
    if extra_requires:
        src += "\nrequire (\n" + "\n".join("\t" + r for r in extra_requires) + "\n)\n"
    open(os.path.join(bdir, "go.mod"), "w").write(src)
    s = open(os.path.join(REPO, "go.sum")).read()
    ex = os.path.join(VERIF, "lib", "extra.go.sum")
    if os.path.exists(ex):
        s += open(ex).read()
    open(os.path.join(bdir, "go.sum"), "w").write(s)
    return os.path.join(bdir, "go.mod")


EXTRA = {
    "porcupine": "github.com/anishathalye/porcupine v1.3.0",
    "gofail": "go.etcd.io/gofail v0.2.0",
}


def build_unit(cfg, unit, bdir):
    ov, n = make_overlay(cfg, unit, bdir)
    if n == 0:
        return None, "no monitor files for unit %s" % unit["name"]
    reqs = [EXTRA[x] for x in unit.get("requires", [])]
    udir = os.path.join(bdir, "mod." + unit["name"])
    os.makedirs(udir, exist_ok=True)
    modfile = make_modfile(udir, reqs)
    go, env = go_cmd()
    out = os.path.join(bdir, unit["name"] + ".test")
    pkg = unit.get("pkg", ".")
    cmd = go + ["test", "-c", "-vet=off", "-overlay=" + ov, "-modfile=" + modfile, "-o", out]
    tags = unit.get("tags", "verif")
    if tags:
        cmd += ["-tags", tags]
    if unit.get("race"):
        cmd += ["-race"]
    if unit.get("asan"):
        cmd += ["-asan"]
    if unit.get("gcflags"):
        cmd += ["-gcflags=" + unit["gcflags"]]
    cmd += ["./" + pkg if pkg not in (".", "") else "."]
    t0 = time.time()
    p = subprocess.run(cmd, cwd=REPO, env=env, capture_output=True, text=True)
    if p.returncode != 0 or not os.path.exists(out):
        return None, "build failed (%s): %s" % (" ".join(cmd), (p.stdout + p.stderr)[-3000:])
    return out, "built in %.1fs" % (time.time() - t0)


def run_child(binary, unit, cfg, bdir, tier, seed, shard, shards):
    outdir = os.path.join(bdir, "out")
    name = unit["name"]
    tmo = unit.get("timeout_thorough", 3000) if tier == "thorough" else unit.get("timeout_quick", 420)
    env = dict(os.environ)
    env.update({
        "VERIF_OUT": outdir, "VERIF_SEED": str(seed), "VERIF_TIER": tier,
        "VERIF_REPLAY_DIR": os.path.join(VERIF, "replays", cfg["property_id"] if REPO == "/repo" else cfg["property_id"] + "-alt"),
        "VERIF_SHARD": str(shard), "VERIF_SHARDS": str(shards), "VERIF_REPO": REPO, "VERIF_DIR": VERIF,
        "VERIF_BUILD": bdir,
    })
    racelog = os.path.join(bdir, "race.%s.%d" % (name, shard))
    if unit.get("race"):
        env["GORACE"] = "halt_on_error=0 log_path=%s history_size=3" % racelog
    if unit.get("asan"):
        env["ASAN_OPTIONS"] = "halt_on_error=1:abort_on_error=1:detect_leaks=0"
    for k, v in unit.get("env", {}).items():
        env[k] = str(v)
    args = [binary, "-test.run", unit.get("run", "^TestVerif" + cfg["property_id"]), "-test.timeout", "%ds" % tmo,
            "-test.count", "1", "-test.v"]
    if unit.get("cpu"):
        args += ["-test.cpu", str(unit["cpu"])]
    logp = os.path.join(bdir, "%s.%d.log" % (name, shard))
    t0 = time.time()
    with open(logp, "w") as lf:
        proc = subprocess.Popen(args, cwd=pkg_dir(unit.get("pkg", ".")), env=env, stdout=lf, stderr=subprocess.STDOUT,
                                start_new_session=True)
        watchdog = False
        try:
            proc.wait(timeout=tmo + 60)
        except subprocess.TimeoutExpired:
            watchdog = True
            try:
                os.killpg(proc.pid, signal.SIGQUIT)
                proc.wait(timeout=20)
            except Exception:
                try:
                    os.killpg(proc.pid, signal.SIGKILL)
                except Exception:
                    pass
                proc.wait()
    return {"unit": name, "shard": shard, "rc": proc.returncode, "log": logp, "watchdog": watchdog,
            "wall": time.time() - t0, "racelog": racelog}


RACE_HDR = "WARNING: DATA RACE"


def parse_races(prefix, classes=()):
    """return list of (key, text) de-duplicated by the pair of first nebula frames of both stacks,
    then by the full function-name stack pair (line numbers stripped).
    classes (checks/<ID>.json race_classes): [{key, stack_has}] - a report in which one of the two
    racing stacks contains a frame matching the regex stack_has gets the stable key race:<key> instead;
    this names one root cause whose first-frame pairs vary from run to run."""
    out = {}
    raw = 0
    for f in glob.glob(prefix + "*"):
        txt = open(f, errors="replace").read()
        for blk in txt.split("==================")[0:]:
            if RACE_HDR not in blk:
                continue
            raw += 1
            stacks = re.split(r"\n\s*\n", blk)
            tops = []
            for st in stacks[:2]:
                fn = None
                for m in re.finditer(r"^\s+(\S+)\(.*\)\s*$|^\s+(\S+)\(\)\s*$", st, re.M):
                    name = m.group(1) or m.group(2)
                    if name and "slackhq/nebula" in name and "verifkit" not in name:
                        fn = name
                        break
                tops.append(fn or "?")
            key = "race:" + "|".join(sorted(t.replace("github.com/slackhq/nebula", "nebula") for t in tops))
            for c in classes:
                if any(re.search(c["stack_has"], st) for st in stacks[:2]):
                    key = "race:" + c["key"]
                    break
            if key not in out:
                out[key] = blk.strip()
    return raw, out


def classify_log(path):
    try:
        txt = open(path, errors="replace").read()
    except Exception:
        return "nolog", ""
    tail = txt[-6000:]
    if "panic: test timed out" in txt:
        return "timeout", tail
    if "SIGQUIT" in txt:
        return "timeout", tail
    for pat in ("fatal error:", "panic:", "AddressSanitizer", "checkptr", "SIGSEGV", "unexpected fault address"):
        if pat in txt:
            i = txt.find(pat)
            return "crash", txt[max(0, i - 500):i + 5000]
    return "unknown", tail


def merge_distinct(files):
    s = set()
    total = 0
    for f in files:
        a = array.array("Q")
        n = os.path.getsize(f) // 8
        total += n
        if total > 8_000_000:
            return None
        with open(f, "rb") as fh:
            a.fromfile(fh, n)
        s.update(a)
    return len(s)


def main():
    args = sys.argv[1:]
    if not args:
        log(__doc__)
        return 2
    pid = args[0]
    tier = os.environ.get("VERIF_TIER", "quick")
    replay = None
    keep = False
    only_unit = None
    i = 1
    while i < len(args):
        if args[i] == "--tier":
            tier = args[i + 1]; i += 2
        elif args[i] == "--replay":
            replay = args[i + 1]; i += 2
        elif args[i] == "--keep":
            keep = True; i += 1
        elif args[i] == "--unit":
            only_unit = args[i + 1]; i += 2
        else:
            log("unknown arg", args[i]); return 2
    if tier not in ("quick", "thorough"):
        tier = "quick"
    seed = int(os.environ.get("VERIF_SEED", "1") or "1")
    cfgp = os.path.join(VERIF, "checks", pid + ".json")
    if not os.path.exists(cfgp):
        log("INCONCLUSIVE property=%s no check config" % pid)
        return 2
    cfg = json.load(open(cfgp))
    write_evidence = not os.environ.get("VERIF_NO_EVIDENCE")
    if replay:
        rp = json.load(open(replay))
        seed = int(rp.get("seed", seed))
        tier = rp.get("tier", tier)
        only_unit = rp.get("unit", only_unit)
        write_evidence = False
    if only_unit:
        write_evidence = write_evidence and False
    t_start = time.time()
    bdir = os.path.join(VERIF, "build", pid + ("" if REPO == "/repo" else "-alt%d" % os.getpid()))
    shutil.rmtree(bdir, ignore_errors=True)
    os.makedirs(os.path.join(bdir, "out"), exist_ok=True)
    rdir = os.path.join(VERIF, "replays", pid if REPO == "/repo" else pid + "-alt")
    os.makedirs(rdir, exist_ok=True)
    if not replay:
        for f in glob.glob(os.path.join(rdir, "*-seed%d-*" % seed)):
            os.remove(f)

    units = [u for u in cfg["units"] if (not only_unit or u["name"] == only_unit or u["name"] + "." in (only_unit + "."))]
    units = [u for u in units if tier in u.get("tiers", ["quick", "thorough"])]
    inconclusive = []
    wallclock_cases = {}
    notes = []
    violations = []  # dicts key, what, replay, unit
    built = {}
    buildlog = {}

    def _b(u):
        return u["name"], build_unit(cfg, u, bdir)
    with ThreadPoolExecutor(max_workers=4) as ex:
        for name, (binary, msg) in ex.map(_b, units):
            buildlog[name] = msg
            if binary is None:
                inconclusive.append("unit %s: %s" % (name, msg))
            else:
                built[name] = binary

    jobs = []
    for u in units:
        if u["name"] not in built:
            continue
        shards = u.get("shards_thorough", u.get("shards", 1)) if tier == "thorough" else u.get("shards", 1)
        for s in range(shards):
            jobs.append((u, s, shards))
    par = int(cfg.get("parallel", 8))
    results = []
    with ThreadPoolExecutor(max_workers=max(1, par)) as ex:
        futs = [ex.submit(run_child, built[u["name"]], u, cfg, bdir, tier, seed, s, n) for (u, s, n) in jobs]
        for f in futs:
            results.append(f.result())

    # collect unit result files
    merged = {"evaluations": 0, "distinct": 0, "samples": [], "counters": {}, "info": {}, "exhaustive": [],
              "rules": [], "distinct_keys": {}, "units": []}
    unitmap = {u["name"]: u for u in units}
    race_raw = 0
    race_distinct = {}
    # kit writes <prop>.<kitunit>.s<shard>.json ; several kit units may come from one driver unit (one binary)
    files = sorted(glob.glob(os.path.join(bdir, "out", pid + ".*.json")))
    per_kitunit = {}
    for f in files:
        try:
            d = json.load(open(f))
        except Exception as e:
            inconclusive.append("unreadable result %s: %s" % (f, e))
            continue
        per_kitunit.setdefault(d["unit"], []).append((f, d))
    for ku, lst in sorted(per_kitunit.items()):
        ev = sum(d["evaluations"] for _, d in lst)
        dkfiles = [f[:-5] + ".dk" for f, _ in lst if os.path.exists(f[:-5] + ".dk")]
        dn = None
        if len(lst) > 1 and len(dkfiles) == len(lst):
            dn = merge_distinct(dkfiles)
        if dn is None:
            dn = max(d["distinct_nontrivial"] for _, d in lst) if len(lst) > 1 else lst[0][1]["distinct_nontrivial"]
        merged["evaluations"] += ev
        merged["distinct"] += dn
        d0 = lst[0][1]
        merged["rules"].append("[%s] %s" % (ku, d0.get("rule", "")))
        for _, d in lst:
            for s in d.get("samples", [])[:2]:
                if len(merged["samples"]) < 12:
                    merged["samples"].append({"unit": ku, "case": s})
            for k, v in d.get("counters", {}).items():
                merged["counters"][ku + "." + k] = merged["counters"].get(ku + "." + k, 0) + v
            for k, v in d.get("info", {}).items():
                merged["info"][ku + "." + k] = v
            for e in d.get("exhaustive", []):
                if ku + ": " + e not in merged["exhaustive"]:
                    merged["exhaustive"].append(ku + ": " + e)
            if d.get("distinct_keys"):
                merged["distinct_keys"].setdefault(ku, set()).update(d["distinct_keys"])
            for v in d.get("violations", []):
                violations.append({"key": v["key"], "what": v["what"], "replay": v["replay"], "unit": ku, "count": v.get("count", 1)})
            for w in d.get("inconclusive", []):
                if ku in cfg.get("wallclock_units", []):
                    # real sockets / real time: a single case that did not settle within its polling bound on a loaded
                    # machine is reported, kept in the evidence, and only makes the run inconclusive when it is not rare
                    wallclock_cases.setdefault(ku, []).append(w)
                else:
                    inconclusive.append("unit %s: %s" % (ku, w))
        merged["units"].append({"unit": ku, "evaluations": ev, "distinct_nontrivial": dn, "shards": len(lst),
                                "wall_s": round(max(d.get("wall_s", 0) for _, d in lst), 2)})

    for ku, ws in wallclock_cases.items():
        evs = sum(u["evaluations"] for u in merged["units"] if u["unit"] == ku)
        if len(ws) > max(1, evs // 20):
            for w in ws:
                inconclusive.append("unit %s: %s" % (ku, w))
        else:
            for w in ws:
                notes.append("unit %s (wall-clock unit, %d of %d cases): %s" % (ku, len(ws), evs, w))

    # children that died / never wrote results; race logs
    for r in results:
        u = unitmap[r["unit"]]
        if u.get("race"):
            raw, dd = parse_races(r["racelog"], cfg.get("race_classes", ()))
            race_raw += raw
            for k, blk in dd.items():
                race_distinct.setdefault(k, (blk, r))
        expected = u.get("kit_units")  # optional list of kit unit names this binary must report
        kind, excerpt = classify_log(r["log"])
        txt = ""
        try:
            txt = open(r["log"], errors="replace").read()
        except Exception:
            pass
        ok_line = re.search(r"^(ok|PASS)\b", txt, re.M) is not None
        if r["watchdog"] or kind == "timeout":
            dump = os.path.join(rdir, "watchdog-%s-seed%d-s%d.log" % (r["unit"], seed, r["shard"]))
            shutil.copy(r["log"], dump)
            if u.get("deadlock_classifier") and looks_deadlocked(txt):
                violations.append({"key": "deadlock", "what": "watchdog fired and the goroutine dump shows a lock cycle / all goroutines parked on mutexes",
                                   "replay": dump, "unit": r["unit"], "count": 1})
            else:
                inconclusive.append("unit %s shard %d: watchdog/timeout fired (dump %s)" % (r["unit"], r["shard"], dump))
        elif kind == "crash":
            pre = ""
            for pf in glob.glob(os.path.join(bdir, "out", pid + ".*.s%d.pre" % r["shard"])):
                pre += open(pf, errors="replace").read()[:20000]
            m = re.search(r"(fatal error: [^\n]*|panic: [^\n]*|AddressSanitizer[^\n]*)", excerpt)
            what = m.group(1) if m else "process-fatal error"
            if "race detected during execution of test" in txt and "panic:" not in txt and "fatal error:" not in txt:
                pass
            else:
                rp = os.path.join(rdir, "crash-%s-seed%d-s%d.json" % (r["unit"], seed, r["shard"]))
                json.dump({"property": pid, "unit": r["unit"], "seed": seed, "tier": tier, "key": "crash",
                           "what": what, "case": {"last_case_before_crash": pre, "log_excerpt": excerpt}}, open(rp, "w"), indent=1)
                ck = "crash:" + re.sub(r"0x[0-9a-f]+|\d+", "N", what)[:120].replace(" ", "_")
                violations.append({"key": ck, "what": what, "replay": rp, "unit": r["unit"], "count": 1})
        elif r["rc"] != 0 and not any(True for ku in per_kitunit):
            inconclusive.append("unit %s shard %d: exit %s without results (log %s)" % (r["unit"], r["shard"], r["rc"], r["log"]))
        if expected:
            for ku in expected:
                if ku not in per_kitunit:
                    inconclusive.append("unit %s: expected monitor result %s missing" % (r["unit"], ku))
    for u in units:
        if u.get("race") and u.get("race_is_violation", True):
            for k, (blk, r) in race_distinct.items():
                rp = os.path.join(rdir, "race-seed%d-%s.txt" % (seed, hashlib.sha1(k.encode()).hexdigest()[:10]))
                open(rp, "w").write(json.dumps({"property": pid, "unit": r["unit"], "seed": seed, "tier": tier, "key": k}) + "\n" + blk + "\n")
                violations.append({"key": k, "what": "data race " + k[5:], "replay": rp, "unit": r["unit"], "count": 1})
            break

    if merged["evaluations"] == 0 and not violations:
        inconclusive.append("no monitor reported any evaluation")
    for m in ([] if only_unit else cfg.get("min_counters", [])):  # e.g. {"name":"unit.counter","min":1}
        if tier in m.get("tiers", ["quick", "thorough"]) and merged["counters"].get(m["name"], 0) < m["min"]:
            inconclusive.append("counter %s=%s below required %s (monitor did not observe what it relies on)" % (
                m["name"], merged["counters"].get(m["name"], 0), m["min"]))

    known, fixed = load_known()
    kmap = {(k["property"], k["key"]): k for k in known}
    real, kf = [], []
    seen = set()
    for v in violations:
        if (v["key"], v["unit"]) in seen:
            continue
        seen.add((v["key"], v["unit"]))
        k = kmap.get((pid, v["key"]))
        if k:
            kf.append((k, v))
        else:
            real.append(v)

    wall = time.time() - t_start
    level = cfg.get("level", "exploration")
    cov = {
        "evaluations": int(merged["evaluations"]),
        "distinct_nontrivial": int(merged["distinct"]),
        "rule": cfg.get("rule", "") + " || per unit: " + " ; ".join(merged["rules"]),
        "samples": merged["samples"] if merged["samples"] else ["(no sample recorded)"],
        "exhaustive": bool(cfg.get("exhaustive_all")) and bool(merged["exhaustive"]),
        "exhaustive_subspaces": merged["exhaustive"],
        "units": merged["units"],
        "events": merged["counters"],
        "info": merged["info"],
        "distinct_classes": {k: sorted(v)[:400] for k, v in merged["distinct_keys"].items()},
        "race_reports_raw": race_raw,
        "race_reports_distinct": sorted(race_distinct.keys()),
        "sanitizers": sorted(set(x for u in units for x in ((["race+checkptr"] if u.get("race") else []) + (["asan"] if u.get("asan") else [])))),
        "build": buildlog,
        "inconclusive": inconclusive,
        "inconclusive_cases_in_wallclock_units": notes,
        "known_findings_observed": [k["key"] for k, _ in kf],
        "violation_keys": [v["key"] for v in real],
        "repo": REPO,
    }
    ev = {"property_id": pid, "tier": tier, "seed": seed, "level": level, "coverage": cov,
          "assumptions": cfg.get("assumptions", []), "wall_s": round(wall, 2), "violations": len(real)}
    if write_evidence:
        os.makedirs(os.path.join(VERIF, "evidence"), exist_ok=True)
        tmp = os.path.join(VERIF, "evidence", pid + ".json.tmp")
        json.dump(ev, open(tmp, "w"), indent=1, default=str)
        os.replace(tmp, os.path.join(VERIF, "evidence", pid + ".json"))

    printed = set()
    for k, v in kf:
        if k["key"] in printed:
            continue
        printed.add(k["key"])
        log("KNOWN-FINDING: property=%s %s [key=%s witness=%s]" % (pid, k["what"], k["key"], v["replay"]))
    for v in real:
        log("VIOLATION property=%s replay=%s" % (pid, v["replay"]))
        log("  key=%s unit=%s count=%s: %s" % (v["key"], v["unit"], v["count"], v["what"]))
    for w in inconclusive:
        log("INCONCLUSIVE property=%s %s" % (pid, w))
    for w in notes:
        log("NOTE property=%s inconclusive case, not counted: %s" % (pid, w))
    log("%s property=%s tier=%s seed=%d evaluations=%d distinct=%d units=%d wall=%.1fs" % (
        "VIOLATED" if real else ("INCONCLUSIVE-RUN" if inconclusive else "HELD"), pid, tier, seed,
        merged["evaluations"], merged["distinct"], len(merged["units"]), wall))
    if not keep and not real and not inconclusive:
        for f in glob.glob(os.path.join(bdir, "*.test")):
            os.remove(f)
    if REPO != "/repo" and not keep:
        shutil.rmtree(bdir, ignore_errors=True)
    if real:
        return 1
    if inconclusive:
        return 2
    return 0


def looks_deadlocked(txt):
    """goroutine dump classifier: a deadlock witness is a dump in which at least two nebula goroutines are
    parked in sync.(*Mutex).Lock / sync.(*RWMutex).Lock|RLock and no nebula goroutine is running/runnable."""
    gs = re.split(r"\n(?=goroutine \d+ )", txt)
    blocked = 0
    runnable = 0
    for g in gs:
        m = re.match(r"goroutine \d+ (?:gp=\S+ m=\S+ (?:mp=\S+ )?)?\[([^\]]+)\]", g)
        if not m or "slackhq/nebula" not in g:
            continue
        st = m.group(1)
        if st.startswith("sync.Mutex.Lock") or st.startswith("sync.RWMutex") or "semacquire" in st:
            if re.search(r"sync\.\(\*(RW)?Mutex\)\.(R?Lock)", g):
                blocked += 1
        elif st.startswith("running") or st.startswith("runnable"):
            if "verifkit" not in g and "testing.(*M)" not in g:
                runnable += 1
    return blocked >= 2 and runnable == 0


if __name__ == "__main__":
    sys.exit(main())
