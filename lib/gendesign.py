#!/usr/bin/env python3
"""gendesign.py: regenerate the machine-derived tables of DESIGN.md (between <!-- GEN:name --> and <!-- /GEN:name -->)
from known_findings.txt, seeded/*/{meta,verify}.json, mutants/, checks/*.json and evidence/*.json."""
import glob, json, os, re
V = '/verif'


def findings():
    fixed, known = [], []
    for l in open(os.path.join(V, 'known_findings.txt')):
        l = l.strip()
        m = re.match(r'fixed: property=(\S+) (\S+) (.*)', l)
        if m:
            fixed.append(m.groups())
        m = re.match(r'known: property=(\S+) key=(\S+) (.*)', l)
        if m:
            known.append(m.groups())
    out = ['| property | /repo commit | what failed on the pinned tree (witness) |', '|---|---|---|']
    for p, c, w in fixed:
        out.append('| %s | `%s` | %s |' % (p, c, w.replace('|', '\\|')))
    out2 = ['| property | key (witness class the check prints as KNOWN-FINDING) | what fails and why it is not repaired |', '|---|---|---|']
    for p, k, w in known:
        out2.append('| %s | `%s` | %s |' % (p, k, w.replace('|', '\\|')))
    return '\n'.join(out), '\n'.join(out2)


STRENGTHENED = {
    'C12': 'missed at first (only the barrier/free phases existed); the stream / edge-replay phase was added. Also caught by C11.',
    'C13': 'missed at first; the short-buffer relay send path was added to the unit workload.',
    'C05': 'missed by the handshake-package units; the node-level unit (`node`) was added.',
    'C06': 'missed at first; header rewrites of genuine messages were added to the tamper families.',
    'C08': 'missed at first; the slice-sharing forms (aliased / capacity-sharing inputs) were added.',
    'C18': 'missed at first; idle-then-reload histories were added (also caught by C19).',
    'C19': 'missed at first; idle-then-reload histories were added.',
    'C22': 'missed at first; boundary port ranges were added to the generator.',
    'C25': 'missed at first; the saturation family (long runs of 0xffff words) was added.',
    'C27': 'missed by the pure parser units; a unit that drives the real `ListenOut` on loopback sockets was added.',
    'C31': 'missed at first; the late-completion family (stage 2 arriving after the other side completed) was added.',
    'C32': 'missed at first; a hook-forced late queueing variant was added.',
    'C15': 'missed at first (the tester tun cannot carry GSO metadata, so no superpacket ever went through a relay); the harness now drives `consumeInsidePacket` with USO superpackets (`TunSendSuper`) and the wire tap checks that no two inner packets share an end-to-end (index, counter). C13 node unit got the same workload and an inner-counter check.',
    'C34': 'missed at first (an ABBA lock inversion that the stress run did not happen to interleave); the lock-order monitor `kit/verifsync` was added: every mutex of package nebula is instrumented in the build overlay and a cycle in the observed lock-class graph is a violation whether or not the run deadlocked.',
    'C09-2': 'missed by C09 at first (caught by C28); C09 got dual-certificate peers whose v1/v2 certificates list different address sets, IPv6 traffic to secondary addresses, connection-manager style promotions and local closes, each followed by the audit.',
    'C05-2': 'missed at first; a trust-reload unit was added (target initiates to a puppet that delays its genuine reply while pki.blocklist / pki.ca are reloaded through the real reload path).',
    'C30-2': 'missed at first (every certificate in the workload was v1); a third of the peers now present a v2 certificate to the v1-only node.',
    'C22-2': 'missed by C22 at first (caught by C16); the configuration generator now emits related rule pairs (several selectors + narrow local_cidr, followed by a rule repeating one selector with another local_cidr).',
    'C32-2': 'missed at first (single-address peer); the peer is now certified for two addresses and half of the cases dial the second one.',
    'C29': 'missed at first (the window between the pending-handshake lookup and its lock is too narrow for free scheduling); a yield point was added there (hook commit 429c36f) and a directed script forces time-out + re-allocation inside it.',
    'C44-2': 'missed at first (every generated handshake was accepted); a third of the generated handshakes are now built to be refused (index collision, older than the held tunnel, replayed packet).',
    'C04-2': 'missed at first (random high-S values almost never fall in the band (n/2, 2^255)); a boundary unit drives SignWith with callbacks returning chosen s values around n/2, every power of two, 2^255 and n.',
    'C02-2': 'missed at first; field tampers now include moving the boundary between the adjacent public-key and signature fields (same concatenation, different fields).',
    'C49': 'missed at first (the lighthouse phases only covered frames arriving after the cancel); a family of stop points "stop while routines are already parked on the full query queue" was added (underlay made slow, parked state verified from the goroutine profile).',
    'C34-2': 'missed at first (relays were almost never used because every pair had a direct path); one pair of peers is now reachable only through the relay.',
    'C23-2': 'missed at first (no run ever reached the byte limit); byte-cap runs were added (a quiet flow whose run adds up to just below / at / above 65535 bytes, IPv4 and IPv6).',
    'C46-3': 'missed at first (every generated machine had fully readable core topology, so the unknown-core sentinel never met a candidate CPU 0); a sixth of the direct cases and a quarter of the generated sysfs trees now hide the core topology of CPU 0 and/or other CPUs (missing directory, one id file only, unparsable id).',
    'C41-2': 'not caught, deliberately: the change only moves behaviour inside a cell the statement leaves open (an unsafe route that strictly covers an overlay network). The unchanged tree itself loads 0.0.0.0/0 or 8.0.0.0/5 over an overlay 10.0.0.0/24 and refuses 10.0.0.0/8 only because the written address happens to lie inside the network; the monitor generates, counts and does not judge that cell, and a check demanding either outcome would be stricter than the property.',
    'C49-2': 'missed at first (no node with a DNS responder or sshd was ever stopped); a real-socket services unit was added (lighthouse with serve_dns, sshd), with stop requests inside the responder bind window (reached by a blocking log sink and by free scheduling) and the clock-free witness "the stopped node still answers a query".',
    'C09-3': 'missed at first (the answering certificate that lists the dialled address first and the victim own address after it was reached too rarely); a third of the poison steps now construct exactly that dial.',
    'C39-3': 'missed at first; hostile peers now also answer in place of the target: a CreateRelayResponse from a third peer carrying the initiator index of a request the relay sent to another peer.',
    'C32-3': 'missed by C32 at first (caught by C33: the defect is in the timer wheel); a stall unit was added to C32: the handshake manager routine is delayed at a yield point for 0.3x..6x the wheel span and the lower bounds of the back-off are judged.',
    'C34-3': 'missed at first (the alias-repair branch of the lighthouse cache was too rare in the node stress); a component-level lighthouse cache stress unit under the race detector was added.',
    'C36-3': 'missed at first (the component-level unit never runs the handshake paths); a node-level unit was added: initiator stage-2 source, responder stage-1 source and roaming packets from allowed / globally denied / range-denied underlay addresses, then every datagram the node writes and every address it keeps for the peer is judged.',
    'C15-3': 'missed by C15 at first (caught by C17); half of the C15 sessions now run with the routine-local conntrack cache enabled.',
    'C02-3': 'missed at first (needs a P-256 signature whose low-S value has two or more leading zero bytes, about 1 in 32768); two seed certificates with such signatures are now searched for (over certificate names, signatures being deterministic) and presented in low-S and high-S form.',
    'C15-4': 'missed at first (no endpoint ever rejected anything); sessions where B answers denied packets with a reject were added, the reject must travel end to end (recognised in the wire tap and at the tun), and any data packet an endpoint seals for the relay itself in the honest phase must be addressed to the relay.',
    'C34-4': 'caught only in one run out of three by the node stress at first; a component-level HostMap stress unit under the race detector was added (peers with several tunnels, relay lookups against add / promote / add-relay / delete), and the node stress keeps re-making the tunnels to the relay.',
    'C47': 'missed at first (short inputs were only presented as len==cap slices); short inputs at the front of a larger stale buffer were added.',
}


def seeds():
    out = ['| seed | file(s) changed | what the seeded change does (from its author) | caught by | note |', '|---|---|---|---|---|']
    for d in sorted(glob.glob(os.path.join(V, 'seeded', '*'))):
        sid = os.path.basename(d)
        try:
            m = json.load(open(os.path.join(d, 'meta.json')))
        except Exception:
            continue
        v = {}
        if os.path.exists(os.path.join(d, 'verify.json')):
            v = json.load(open(os.path.join(d, 'verify.json')))
        caught = [c for c, x in v.get('checks', {}).items() if x.get('rc') == 1]
        missed = [c for c, x in v.get('checks', {}).items() if x.get('rc') != 1]
        summ = m.get('summary', '').replace('\n', ' ').replace('|', '\\|')
        if len(summ) > 330:
            summ = summ[:327] + '...'
        keys = []
        for c, x in v.get('checks', {}).items():
            for l in x.get('lines', []):
                mm = re.search(r'key=(\S+)', l)
                if mm and not l.startswith('KNOWN') and mm.group(1) not in keys:
                    keys.append(mm.group(1))
        cb = ', '.join(caught) + ((' (' + ', '.join('`%s`' % k for k in keys[:2]) + ')') if keys else '')
        if missed:
            cb += ' — NOT caught by ' + ', '.join(missed)
        out.append('| %s | %s | %s | %s | %s |' % (sid, ', '.join('`%s`' % f for f in m.get('files_changed', [])), summ, cb or '—', STRENGTHENED.get(sid, '')))
    return '\n'.join(out)


def mutants():
    by = {}
    for f in sorted(glob.glob(os.path.join(V, 'mutants', '*.patch'))):
        n = os.path.basename(f)[:-6]
        by.setdefault(n.split('-')[0], []).append(n.split('-', 1)[1] if '-' in n else n)
    out = ['| property | hand-written mutants kept under `mutants/` (each caught by the property\'s check) |', '|---|---|']
    for p in sorted(by):
        out.append('| %s | %s |' % (p, ', '.join(by[p])))
    return '\n'.join(out)


def asbuilt():
    en = open(os.path.join(V, 'lib', 'enabled.txt')).read().split()
    out = ['| id | level | units (package, sanitizer) | quick: evaluations / distinct / wall | min-counters guarding against vacuity |', '|---|---|---|---|---|']
    for f in sorted(glob.glob(os.path.join(V, 'checks', '*.json'))):
        c = json.load(open(f))
        pid = c['property_id']
        if pid not in en:
            continue
        units = []
        for u in c['units']:
            s = []
            if u.get('race'):
                s.append('race')
            if u.get('asan'):
                s.append('asan')
            units.append('%s (%s%s)' % (u['name'], u['pkg'], (', ' + '+'.join(s)) if s else ''))
        ev = {}
        try:
            ev = json.load(open(os.path.join(V, 'evidence', pid + '.json')))
        except Exception:
            pass
        q = ''
        if ev:
            cov = ev.get('coverage', {})
            q = '%s / %s / %ss' % (cov.get('evaluations', '?'), cov.get('distinct_nontrivial', '?'), int(ev.get('wall_s', 0)))
        mc = ', '.join('%s≥%d' % (x['name'], x['min']) for x in c.get('min_counters', []))
        out.append('| %s | %s | %s | %s | %s |' % (pid, c['level'], '; '.join(units), q, mc))
    return '\n'.join(out)


def main():
    p = os.path.join(V, 'DESIGN.md')
    s = open(p).read()
    fx, kn = findings()
    gen = {'fixed': fx, 'known': kn, 'seeds': seeds(), 'mutants': mutants(), 'asbuilt': asbuilt()}
    for k, v in gen.items():
        pat = re.compile(r'(<!-- GEN:%s -->\n).*?(<!-- /GEN:%s -->)' % (k, k), re.S)
        if not pat.search(s):
            print('marker missing:', k)
            continue
        s = pat.sub(lambda m: m.group(1) + v + '\n' + m.group(2), s)
    open(p, 'w').write(s)
    print('DESIGN.md tables regenerated')


if __name__ == '__main__':
    main()
