#!/usr/bin/env python3
"""mkseedtask.py <ID>...: create a scratch worktree /tmp/seed-<ID> of /repo HEAD and write TASK.md (property text only)"""
import json, os, subprocess, sys
props = {json.loads(l)["id"]: json.loads(l) for l in open('/verif/properties.jsonl') if l.strip()}
for sid in sys.argv[1:]:
    pid = sid.split('-')[0]
    second = '-' in sid
    d = '/tmp/seed-' + sid
    if not os.path.exists(d):
        subprocess.run(['git', '-C', '/repo', 'worktree', 'add', '--detach', d, 'HEAD'], check=True, capture_output=True)
    os.makedirs(d + '/out', exist_ok=True)
    p = props[pid]
    extra = "5. Do not take the first idea that comes to mind: list three candidate defects in different mechanisms / files that bear on this property, and implement the one that is hardest to notice from the outside (deep in a rarely taken branch, a state left behind after an error path, a second site that must agree with a first)." if second else ""
    open(d + '/TASK.md', 'w').write(f"""# Task: seed a realistic defect that breaks one semantic property of slackhq/nebula

You have your own scratch git worktree of slackhq/nebula (Go, an overlay VPN) at `{d}`. Work ONLY inside that directory.
Do not read or write `/repo`, `/verif` or any other `/tmp/seed-*` directory. There is no network.
Go commands need `GOFLAGS=-mod=mod GOPROXY=off` in the environment (do NOT set GOSUMDB=off).

## The property ({pid})

**{p['title']}**

{p['statement']}

Quantified over: {p['quantifier']['text']}

(Relevant files, for orientation only: {', '.join(p['anchors']['files'])})

## What to produce

A change to nebula's (non-test) source that **breaks this property** while
1. still compiling (`go build ./...`), and
2. still passing the existing test suite unedited (run at least `go test -vet=off -count=1` for every package you touched plus the
   top-level package `.`; `./cmd/nebula-cert` is slow, only run it if you touched it or `cert/`), and
3. looking like a plausible mistake a maintainer could make and a reviewer could miss (a refactor, an "optimisation", a
   dropped condition, a reordered pair of statements, a boundary off by one, a lock released too early...), and
4. **needing something specific to manifest**: a particular interleaving of goroutines, a crash or fault at a particular point, a
   multi-step sequence of operations, an unusual input or boundary value, or two cooperating sites that each look fine alone.
   It must NOT be something ordinary use (a plain handshake and a few packets, a normal config load) exposes at once.
{extra}

Also write a **demonstration**: a Go test (new `_test.go` file(s), or a small program) that FAILS with your change and PASSES on the
unchanged tree, showing the property being violated at the level of observable behaviour.

## Deliverables (all under `{d}/out/`)
- `patch.diff`: `git diff` of your source change only (no test files), applicable with `git apply` to a clean checkout of this commit.
- the demonstration file(s), plus
- `meta.json`: {{"property": "{pid}", "summary": "...what the change does...", "needs_to_manifest": "...the specific input /
  interleaving / sequence...", "files_changed": [...], "demo_files": [{{"file": "out/<name>", "place_at": "<repo-relative path>"}}],
  "demo_cmd": "<go test command run from the repo root>", "existing_tests_run": ["<commands you ran and their result>"]}}

Verify all of it yourself before finishing: demo passes on the clean tree (use `git diff > out/patch.diff && git apply -R out/patch.diff` to get the clean tree and `git apply out/patch.diff` to come back — NEVER use `git stash`: the stash is shared between all worktrees of this repository and other people are using it), demo fails with the patch,
the existing tests you ran pass with the patch. Leave the worktree with your change applied. Your final message: a 10-line summary.
""")
    print(d)
