#!/usr/bin/env python3
"""regenerate MANIFEST.json from checks/*.json (+ lib/not_applicable.json, lib/manifest_base.json)"""
import glob, json, os
V = os.path.dirname(os.path.dirname(os.path.abspath(__file__)))
base = json.load(open(os.path.join(V, "lib", "manifest_base.json")))
props = [json.loads(l)["id"] for l in open(os.path.join(V, "properties.jsonl")) if l.strip()]
checks = []
claimed = set()
enabled = set(l.strip() for l in open(os.path.join(V, "lib", "enabled.txt")) if l.strip() and not l.startswith("#"))
for f in sorted(glob.glob(os.path.join(V, "checks", "C*.json"))):
    c = json.load(open(f))
    if c.get("disabled"):
        continue
    pid = c["property_id"]
    if pid not in enabled:
        continue
    claimed.add(pid)
    checks.append({
        "property_id": pid,
        "quick_cmd": "bin/check %s --tier quick" % pid,
        "thorough_cmd": "bin/check %s --tier thorough" % pid,
        "evidence_file": "evidence/%s.json" % pid,
        "replay_cmd_template": "bin/check %s --replay {path}" % pid,
        "engine": c.get("engine", ""),
        "level_claimed": {"category": c.get("level", "exploration"), "text": c["level_text"], "design_ref": c.get("design_ref", "DESIGN.md §3 " + pid)},
        "level_note": c["level_note"],
        "technique": c["technique"],
    })
na_src = json.load(open(os.path.join(V, "lib", "not_applicable.json")))
na = []
for p in props:
    if p in claimed:
        continue
    na.append({"property_id": p, "reason": na_src.get(p, na_src["_default"])})
m = dict(base)
m["checks"] = checks
m["not_applicable"] = na
json.dump(m, open(os.path.join(V, "MANIFEST.json"), "w"), indent=1)
print("MANIFEST: %d checks, %d not_applicable" % (len(checks), len(na)))
