#!/usr/bin/env python3
"""mkmut.py <name> <repo-relative-file> <old> <new>  -> mutants/<name>.patch (unified diff against /repo)"""
import subprocess, sys, os
name, path, old, new = sys.argv[1:5]
s = open(os.path.join('/repo', path)).read()
assert s.count(old) >= 1, "old text not found"
open('/tmp/mkmut.tmp', 'w').write(s.replace(old, new, 1))
d = subprocess.run(['diff', '-u', os.path.join('/repo', path), '/tmp/mkmut.tmp'], capture_output=True, text=True).stdout
d = d.replace('--- /repo/' + path, '--- a/' + path).replace('+++ /tmp/mkmut.tmp', '+++ b/' + path)
open('/verif/mutants/' + name + '.patch', 'w').write(d)
os.remove('/tmp/mkmut.tmp')
print("wrote mutants/%s.patch" % name)
