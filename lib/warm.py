#!/usr/bin/env python3
"""pre-build every unit's test binary once so that the first check does not pay the cold -race build"""
import glob, json, os, shutil, sys
sys.path.insert(0, os.path.dirname(os.path.abspath(__file__)))
import driver
from concurrent.futures import ThreadPoolExecutor
jobs = []
for f in sorted(glob.glob(os.path.join(driver.VERIF, "checks", "C*.json"))):
    cfg = json.load(open(f))
    for u in cfg["units"]:
        jobs.append((cfg, u))
def b(j):
    cfg, u = j
    bdir = os.path.join(driver.VERIF, "build", "warm-" + cfg["property_id"])
    os.makedirs(bdir, exist_ok=True)
    out, msg = driver.build_unit(cfg, u, bdir)
    shutil.rmtree(bdir, ignore_errors=True)
    return cfg["property_id"], u["name"], msg if out else "FAILED " + msg
with ThreadPoolExecutor(max_workers=4) as ex:
    for pid, un, msg in ex.map(b, jobs):
        print("warm", pid, un, msg[:200], flush=True)
