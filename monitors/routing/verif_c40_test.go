package routing

// C40 — multipath routing is deterministic and weight-proportional.
//
// Oracle (from the property statement; arithmetic in math/big, nothing shared with the code):
//   The flow hash space is H = [0, 2^31-1]. After CalculateBucketsForGateways(g[0..n-1]) gateway i owns
//   (ub[i-1], ub[i]] with ub[-1] = -1. Required:
//     cover, no gap/overlap : -1 <= ub[0] <= ub[1] <= ... <= ub[n-1] = 2^31-1
//     proportional          : | (ub[i]-ub[i-1]) * W  -  2^31 * w[i] | <= W      (W = sum of weights; i.e. within 1 slot)
//     weights/addresses unchanged, recomputation idempotent.
//   BalancePacket(p, g) returns (addr of the owner of hash(p), true); hash(p) is in H, is the same for
//   packets that differ only outside the port pair, and the same on every call.

import (
	"fmt"
	"math/big"
	"math/rand/v2"
	"net/netip"
	"slices"
	"testing"

	"github.com/slackhq/nebula/firewall"
	"github.com/slackhq/nebula/verifkit"
)

const c40MaxWeight = 1<<31 - 1
const c40HashMax = 1<<31 - 1

// c40OverflowKey: witness class "the sum of the weights is >= 2^33-1" (each weight is individually legal).
const c40OverflowKey = "C40/total-weight-ge-2^33-1"

func c40Sum(ws []int) *big.Int {
	s := new(big.Int)
	for _, w := range ws {
		s.Add(s, big.NewInt(int64(w)))
	}
	return s
}

var c40OverflowLimit = new(big.Int).Sub(new(big.Int).Lsh(big.NewInt(1), 33), big.NewInt(1))

func c40IsOverflowClass(ws []int) bool { return c40Sum(ws).Cmp(c40OverflowLimit) >= 0 }

func c40Addr(i int) netip.Addr {
	return netip.AddrFrom4([4]byte{10, 200, byte(i >> 8), byte(i + 1)})
}

func c40Build(ws []int) []Gateway {
	g := make([]Gateway, len(ws))
	for i, w := range ws {
		g[i] = NewGateway(c40Addr(i), w)
	}
	return g
}

// c40CheckBuckets runs the real calculation on ws and judges the bounds. Returns the gateways and whether all held.
func c40CheckBuckets(r *verifkit.Reporter, ws []int) ([]Gateway, bool) {
	g := c40Build(ws)
	rec := func() any {
		ub := make([]int, len(g))
		for i := range g {
			ub[i] = g[i].BucketUpperBound()
		}
		return map[string]any{"weights": ws, "total_weight": c40Sum(ws).String(), "bucket_upper_bounds": ub}
	}
	keyOf := func(k string) string {
		if c40IsOverflowClass(ws) {
			return c40OverflowKey
		}
		return k
	}
	for i := range g {
		if g[i].BucketUpperBound() != BucketNotCalculated {
			r.Violation("C40/new-gateway-not-sentinel", "NewGateway did not start at BucketNotCalculated", rec())
		}
	}
	if r.Guard(keyOf("C40/calculate-panic"), rec, func() { CalculateBucketsForGateways(g) }) {
		return g, false
	}
	r.Eval(1)
	ok := true
	bad := func(k, what string) {
		ok = false
		r.Violation(keyOf(k), what, rec())
	}
	for i := range g {
		if g[i].weight != ws[i] || g[i].Addr() != c40Addr(i) {
			bad("C40/calculate-changes-gateway", fmt.Sprintf("gateway %d weight/address changed", i))
		}
	}
	total := c40Sum(ws)
	prev := -1
	for i := range g {
		ub := g[i].BucketUpperBound()
		if ub < prev {
			bad("C40/bounds-overlap", fmt.Sprintf("gateway %d upper bound %d below its predecessor's %d (negative share / overlap)", i, ub, prev))
		}
		if ub > c40HashMax {
			bad("C40/bound-above-space", fmt.Sprintf("gateway %d upper bound %d above 2^31-1", i, ub))
		}
		// | share*W - 2^31*w | <= W
		share := big.NewInt(int64(ub) - int64(prev))
		lhs := new(big.Int).Mul(share, total)
		lhs.Sub(lhs, new(big.Int).Lsh(big.NewInt(int64(ws[i])), 31))
		lhs.Abs(lhs)
		if lhs.Cmp(total) > 0 {
			exact := new(big.Rat).SetFrac(new(big.Int).Lsh(big.NewInt(int64(ws[i])), 31), total)
			bad("C40/share-not-proportional", fmt.Sprintf("gateway %d (weight %d of %s) owns %d hash values, exact share %s", i, ws[i], total, int64(ub)-int64(prev), exact.FloatString(3)))
		}
		prev = ub
	}
	if len(g) > 0 && g[len(g)-1].BucketUpperBound() != c40HashMax {
		bad("C40/gap-at-top", fmt.Sprintf("last upper bound is %d, hash values up to 2^31-1 = %d are owned by nobody", g[len(g)-1].BucketUpperBound(), c40HashMax))
	}
	// idempotent
	before := make([]int, len(g))
	for i := range g {
		before[i] = g[i].BucketUpperBound()
	}
	CalculateBucketsForGateways(g)
	for i := range g {
		if g[i].BucketUpperBound() != before[i] {
			bad("C40/recalculation-differs", fmt.Sprintf("second calculation moved bound %d from %d to %d", i, before[i], g[i].BucketUpperBound()))
			break
		}
	}
	return g, ok
}

func c40SigWeights(ws []int) uint64 {
	h := uint64(1469598103934665603) ^ uint64(len(ws))
	for _, w := range ws {
		h = (h ^ uint64(w)) * 1099511628211
		h ^= h >> 29
	}
	return h
}

func c40RandWeight(rng *rand.Rand) int {
	switch rng.IntN(9) {
	case 0:
		return 1
	case 1:
		return 1 + rng.IntN(3)
	case 2:
		return 1 + rng.IntN(10)
	case 3:
		return 1000
	case 4:
		return c40MaxWeight
	case 5:
		return c40MaxWeight - rng.IntN(3)
	case 6:
		return 1 << rng.IntN(31)
	case 7:
		return 1 + rng.IntN(100000)
	default:
		return 1 + rng.IntN(c40MaxWeight)
	}
}

func c40RandList(rng *rand.Rand, maxN int) []int {
	n := 1 + rng.IntN(maxN)
	ws := make([]int, n)
	mode := rng.IntN(4)
	for i := range ws {
		switch mode {
		case 0: // all equal
			if i == 0 {
				ws[i] = c40RandWeight(rng)
			} else {
				ws[i] = ws[0]
			}
		case 1: // small
			ws[i] = 1 + rng.IntN(20)
		default:
			ws[i] = c40RandWeight(rng)
		}
	}
	return ws
}

func TestVerifC40Buckets(t *testing.T) {
	r := verifkit.NewReporter(t, "C40", "buckets",
		"CalculateBucketsForGateways on every weight list of length 1..6 over {1,2,3,1000,2^31-1}, on lists around the 2^33 total-weight line, and on PRNG lists of 1..16 gateways (weights 1, small, 1000, powers of two, near and at 2^31-1, uniform); oracle in math/big; distinct = distinct weight vectors")
	defer r.Done()
	alpha := []int{1, 2, 3, 1000, c40MaxWeight}
	maxLen := verifkit.Scale(6, 7)
	shard, _ := verifkit.Shard()
	for n := 1; n <= maxLen && shard == 0; n++ {
		idx := make([]int, n)
		for {
			ws := make([]int, n)
			for i, a := range idx {
				ws[i] = alpha[a]
			}
			r.DistinctU64(c40SigWeights(ws))
			if c40IsOverflowClass(ws) {
				r.Count("lists_total_weight_ge_2^33-1", 1)
			} else {
				r.Count("lists_total_weight_below_2^33-1", 1)
			}
			c40CheckBuckets(r, ws)
			if n == 3 && idx[0] == 1 && idx[1] == 3 {
				r.Sample(map[string]any{"weights": ws})
			}
			k := n - 1
			for k >= 0 {
				idx[k]++
				if idx[k] < len(alpha) {
					break
				}
				idx[k] = 0
				k--
			}
			if k < 0 {
				break
			}
		}
	}
	r.Exhaustive(fmt.Sprintf("all weight lists of length 1..%d over {1,2,3,1000,2^31-1}", maxLen))
	// the line where the total weight reaches 2^33-1: 4 maximal weights (sum 2^33-4) plus one more of 1..6
	for extra := 1; extra <= 6 && shard == 0; extra++ {
		for pos := 0; pos <= 4; pos++ {
			ws := []int{c40MaxWeight, c40MaxWeight, c40MaxWeight, c40MaxWeight}
			ws = slices.Insert(ws, pos, extra)
			r.DistinctU64(c40SigWeights(ws))
			if c40IsOverflowClass(ws) {
				r.Count("lists_total_weight_ge_2^33-1", 1)
			} else {
				r.Count("lists_total_weight_below_2^33-1", 1)
			}
			c40CheckBuckets(r, ws)
		}
	}
	rng := verifkit.NewRand("C40buckets")
	cases := verifkit.Scale(150_000, 6_000_000)
	for i := 0; i < cases; i++ {
		ws := c40RandList(rng, 16)
		if !verifkit.Mine(i) {
			continue
		}
		r.DistinctU64(c40SigWeights(ws))
		if c40IsOverflowClass(ws) {
			r.Count("lists_total_weight_ge_2^33-1", 1)
		} else {
			r.Count("lists_total_weight_below_2^33-1", 1)
		}
		if i < 2 {
			r.Sample(map[string]any{"weights": ws})
		}
		c40CheckBuckets(r, ws)
	}
}

// ---- BalancePacket ----

func c40MulInv(a uint32) uint32 { // inverse of odd a modulo 2^32 (Newton)
	x := a
	for i := 0; i < 6; i++ {
		x *= 2 - a*x
	}
	return x
}

// c40Preimage proposes a (localPort, remotePort) whose flow hash should be h. It is only a case generator for hitting
// bucket boundaries exactly; every proposal is validated by running the real hashPacket.
func c40Preimage(h uint32, top bool) (uint16, uint16) {
	x := h
	if top {
		x |= 1 << 31
	}
	x = x ^ x>>15 ^ x>>30
	x *= c40MulInv(0xd35a2d97)
	x = x ^ x>>15 ^ x>>30
	x *= c40MulInv(0x21f0aaad)
	x ^= x >> 16
	return uint16(x >> 16), uint16(x)
}

var c40Addrs = []netip.Addr{
	netip.MustParseAddr("192.168.1.1"), netip.MustParseAddr("10.0.0.1"), netip.MustParseAddr("0.0.0.0"), netip.MustParseAddr("255.255.255.255"),
	netip.MustParseAddr("fd00::1"), netip.MustParseAddr("::"), netip.MustParseAddr("ffff:ffff:ffff:ffff:ffff:ffff:ffff:ffff"), netip.MustParseAddr("::ffff:10.1.2.3"), {},
}

// c40Variant returns a packet with the given port pair and the k-th combination of the unrelated fields.
func c40Variant(lp, rp uint16, k int) firewall.Packet {
	return firewall.Packet{
		LocalAddr:  c40Addrs[k%len(c40Addrs)],
		RemoteAddr: c40Addrs[(k/len(c40Addrs)+k)%len(c40Addrs)],
		LocalPort:  lp,
		RemotePort: rp,
		Protocol:   []uint8{6, 17, 1, 58, 0, 255, 47, 132}[(k/3)%8],
		Fragment:   (k/2)%2 == 1,
	}
}

// c40Owner is the reference owner of hash value h for observed bounds ub (first-fit == interval membership
// when the bounds are non-decreasing, which the caller has already judged).
func c40Owner(ub []int, h int) int {
	prev := -1
	for i, u := range ub {
		if h > prev && h <= u {
			return i
		}
		if u > prev {
			prev = u
		}
	}
	return -1
}

type c40List struct {
	ws  []int
	g   []Gateway
	ub  []int
	ovf bool
}

func c40Probe(r *verifkit.Reporter, l *c40List, lp, rp uint16, variants int, kbase int, perGw []int) {
	p0 := c40Variant(lp, rp, kbase)
	rec := func() any {
		return map[string]any{"weights": l.ws, "bucket_upper_bounds": l.ub, "local_port": lp, "remote_port": rp}
	}
	key := func(k string) string {
		if l.ovf {
			return c40OverflowKey
		}
		return k
	}
	before := p0
	h := hashPacket(&p0)
	if p0 != before {
		r.Violation("C40/hash-mutates-packet", "hashPacket modified the packet", rec())
	}
	if h < 0 || h > c40HashMax {
		r.Violation("C40/hash-outside-space", fmt.Sprintf("flow hash %d outside [0,2^31-1]", h), rec())
	}
	addr, ok := BalancePacket(&p0, l.g)
	r.Eval(1)
	want := c40Owner(l.ub, h)
	if want < 0 {
		// hash value owned by nobody: the statement's "cover the whole space" is what fails
		if ok {
			r.Violation(key("C40/ok-without-owner"), fmt.Sprintf("hash %d has no owner but BalancePacket reported ok", h), rec())
		} else {
			r.Violation(key("C40/flow-has-no-bucket"), fmt.Sprintf("flow hash %d is above every bucket bound; BalancePacket fell back to modulo routing", h), rec())
		}
		r.Count("flows_without_owner", 1)
	} else {
		if !ok {
			r.Violation(key("C40/balance-not-ok"), fmt.Sprintf("hash %d is owned by gateway %d but BalancePacket returned ok=false", h, want), rec())
		}
		if addr != c40Addr(want) {
			r.Violation(key("C40/wrong-gateway"), fmt.Sprintf("hash %d belongs to gateway %d (%s) but BalancePacket chose %s", h, want, c40Addr(want), addr), rec())
		}
		if perGw != nil {
			perGw[want]++
		}
	}
	for k := 1; k <= variants; k++ {
		pv := c40Variant(lp, rp, kbase+k*7)
		hv := hashPacket(&pv)
		av, okv := BalancePacket(&pv, l.g)
		r.Eval(1)
		if hv != h {
			r.Violation("C40/hash-depends-on-unrelated-field", fmt.Sprintf("same ports, hash %d vs %d", h, hv), map[string]any{"a": fmt.Sprintf("%+v", p0), "b": fmt.Sprintf("%+v", pv)})
		}
		if av != addr || okv != ok {
			r.Violation("C40/choice-depends-on-unrelated-field", fmt.Sprintf("same ports, gateway %s/%v vs %s/%v", addr, ok, av, okv), map[string]any{"a": fmt.Sprintf("%+v", p0), "b": fmt.Sprintf("%+v", pv), "weights": l.ws})
		}
	}
	// stability: the very same packet again
	if a2, ok2 := BalancePacket(&p0, l.g); a2 != addr || ok2 != ok {
		r.Violation("C40/unstable", fmt.Sprintf("second call gave %s/%v after %s/%v", a2, ok2, addr, ok), rec())
	}
}

func c40MakeList(r *verifkit.Reporter, ws []int) *c40List {
	g, _ := c40CheckBuckets(r, ws)
	l := &c40List{ws: ws, g: g, ovf: c40IsOverflowClass(ws)}
	for i := range g {
		l.ub = append(l.ub, g[i].BucketUpperBound())
	}
	return l
}

func TestVerifC40Balance(t *testing.T) {
	r := verifkit.NewReporter(t, "C40", "balance",
		"BalancePacket against the owner of the observed flow hash: for fixed gateway lists all 2^16 remote ports x several local ports and all 2^16 local ports x several remote ports, each with variants of addresses/protocol/fragment flag; exact probes of every bucket boundary (hash = bound and bound+1, 0, 2^31-1) through validated hash preimages; PRNG lists x PRNG ports; distinct = distinct (gateway list, port pair)")
	defer r.Done()
	fixed := [][]int{
		{1, 1},
		{1, 1, 1},
		{10, 5},
		{1, 2, 3, 1000},
		{c40MaxWeight, 1},
		{1, c40MaxWeight, 1},
		{7},
		{1, 1, 1, 1, 1, 1, 1, 1, 1, 1, 1, 1, 1, 1, 1, 1},
		{c40MaxWeight, c40MaxWeight, c40MaxWeight, c40MaxWeight},
		{3, 1000, c40MaxWeight, 2, 1, 1 << 30, 12345},
		// the witness class of the overflow finding, to show what it does to routing
		{c40MaxWeight, c40MaxWeight, c40MaxWeight, c40MaxWeight, c40MaxWeight},
	}
	sides := []uint16{0, 1, 53, 443, 32768, 65535}
	nSides := verifkit.Scale(2, len(sides))
	for li, ws := range fixed {
		if !verifkit.Mine(li) {
			continue
		}
		l := c40MakeList(r, ws)
		perGw := make([]int, len(ws))
		n := 0
		for si := 0; si < nSides; si++ {
			fixedPort := sides[(si+li)%len(sides)]
			for v := 0; v < 65536; v++ {
				c40Probe(r, l, fixedPort, uint16(v), 1, v+si, perGw)
				c40Probe(r, l, uint16(v), fixedPort, 1, v+si+3, perGw)
				r.DistinctU64(uint64(li)<<40 | uint64(fixedPort)<<16 | uint64(v))
				r.DistinctU64(uint64(li)<<40 | 1<<39 | uint64(v)<<16 | uint64(fixedPort))
				n += 2
			}
			r.Exhaustive(fmt.Sprintf("weights %v: all 65,536 remote ports with local port %d and all 65,536 local ports with remote port %d", ws, fixedPort, fixedPort))
		}
		// measured (not judged) share of flows per gateway
		shares := make([]string, len(ws))
		for i := range ws {
			shares[i] = fmt.Sprintf("%.4f", float64(perGw[i])/float64(n))
		}
		r.Info(fmt.Sprintf("flow_share_list_%d", li), map[string]any{"weights": ws, "observed_share_of_port_pairs": shares})
		if li < 2 {
			r.Sample(map[string]any{"weights": ws, "bucket_upper_bounds": l.ub, "observed_share_of_port_pairs": shares})
		}
	}

	// boundary probes
	rng := verifkit.NewRand("C40balance")
	lists := verifkit.Scale(3000, 200_000)
	for i := 0; i < lists+len(fixed); i++ {
		var ws []int
		if i < len(fixed) {
			ws = fixed[i]
		} else {
			ws = c40RandList(rng, 16)
			if rng.IntN(8) != 0 {
				// keep most lists out of the overflow class so that the boundary logic is exercised
				for c40IsOverflowClass(ws) {
					ws = ws[:len(ws)-1]
				}
			}
		}
		if !verifkit.Mine(i) {
			continue
		}
		sub := verifkit.SubRand("C40balanceports", i)
		l := c40MakeList(r, ws)
		targets := []int{0, 1, c40HashMax, c40HashMax - 1}
		for _, u := range l.ub {
			targets = append(targets, u, u+1, u-1)
		}
		for _, h := range targets {
			if h < 0 || h > c40HashMax {
				continue
			}
			for _, top := range []bool{false, true} {
				lp, rp := c40Preimage(uint32(h), top)
				p := c40Variant(lp, rp, 0)
				if hashPacket(&p) != h {
					r.Count("boundary_preimage_invalid", 1)
					continue
				}
				r.Count("boundary_probes", 1)
				r.DistinctU64(c40SigWeights(ws) ^ uint64(lp)<<16 ^ uint64(rp) ^ 0xb0b0)
				c40Probe(r, l, lp, rp, 2, h, nil)
			}
		}
		// PRNG port pairs with more variants of the unrelated fields
		for j := 0; j < 16; j++ {
			lp, rp := uint16(sub.UintN(65536)), uint16(sub.UintN(65536))
			r.DistinctU64(c40SigWeights(ws) ^ uint64(lp)<<16 ^ uint64(rp))
			c40Probe(r, l, lp, rp, 6, int(sub.UintN(1000)), nil)
		}
	}
	if r.Counter("boundary_probes") == 0 {
		r.Inconclusive("no hash preimage validated: bucket boundaries were never probed exactly")
	}
}
