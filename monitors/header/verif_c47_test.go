package header

// C47 — the packet header encoding is exact.
//
// Reference (written from the property statement and the layout picture at the top of header.go):
//   byte 0      = version (upper 4 bits) | type (lower 4 bits)
//   byte 1      = subtype
//   bytes 2..3  = reserved, always written as zero
//   bytes 4..7  = remote index, big endian
//   bytes 8..15 = message counter, big endian
// Parse accepts exactly inputs of >= 16 bytes and depends on the first 16 only.
// Valid (type, subtype) combinations, from the documented constants:
//   handshake(0): ix_psk0(0)        message(1): none(0), relay(1)   recvError(2): 0
//   lightHouse(3): 0                test(4): request(0), reply(1)   closeTunnel(5): 0   control(6): 0
// everything else is invalid.

import (
	"bytes"
	"errors"
	"fmt"
	"testing"

	"github.com/slackhq/nebula/verifkit"
)

// c47RefEncode is the independent reference encoder (no encoding/binary, explicit shifts).
func c47RefEncode(v uint8, t uint8, st uint8, ri uint32, c uint64) [16]byte {
	var b [16]byte
	b[0] = (v&0x0f)*16 + (t & 0x0f)
	b[1] = st
	b[2], b[3] = 0, 0
	for i := 0; i < 4; i++ {
		b[4+i] = byte(ri >> (8 * (3 - i)))
	}
	for i := 0; i < 8; i++ {
		b[8+i] = byte(c >> (8 * (7 - i)))
	}
	return b
}

type c47Fields struct {
	V, T, ST uint8
	Res      uint16
	RI       uint32
	C        uint64
}

func c47RefDecode(b []byte) c47Fields {
	var f c47Fields
	f.V = b[0] / 16
	f.T = b[0] % 16
	f.ST = b[1]
	f.Res = uint16(b[2])*256 + uint16(b[3])
	for i := 0; i < 4; i++ {
		f.RI = f.RI*256 + uint32(b[4+i])
	}
	for i := 0; i < 8; i++ {
		f.C = f.C*256 + uint64(b[8+i])
	}
	return f
}

func c47Got(h *H) c47Fields {
	return c47Fields{V: h.Version, T: uint8(h.Type), ST: uint8(h.Subtype), Res: h.Reserved, RI: h.RemoteIndex, C: h.MessageCounter}
}

// c47RefValid is the documented table.
func c47RefValid(t, st uint8) bool {
	switch t {
	case 0: // handshake
		return st == 0
	case 1: // message
		return st == 0 || st == 1
	case 2, 3, 5, 6: // recvError, lightHouse, closeTunnel, control
		return st == 0
	case 4: // test
		return st == 0 || st == 1
	}
	return false
}

var c47U32 = []uint32{0, 1, 2, 0x7f, 0x80, 0xff, 0x100, 0xffff, 0x10000, 0x00ff00ff, 0x01020304, 0x7fffffff, 0x80000000, 0xfffffffe, 0xffffffff}
var c47U64 = []uint64{0, 1, 0xff, 0x100, 0xffffffff, 0x100000000, 0x0102030405060708, 0x7fffffffffffffff, 0x8000000000000000, 0xfffffffffffffffe, 0xffffffffffffffff, 0x00ff00ff00ff00ff}

// c47RoundTrip encodes (v,t,st,ri,c) with the real encoder into a dirty buffer with slack, checks the
// bytes against the reference, that nothing outside the 16 bytes was written, and that parsing gives the fields back.
func c47RoundTrip(r *verifkit.Reporter, v, t, st uint8, ri uint32, c uint64, viaMethod bool, fill byte) {
	rec := func() any {
		return map[string]any{"version": v, "type": t, "subtype": st, "remote_index": ri, "counter": c, "via_H_Encode": viaMethod, "fill": fill}
	}
	inRange := v <= 15 && t <= 15
	keyp := "C47/"
	if !inRange {
		// The statement quantifies over the representable (4-bit) versions and types. Larger values cannot round trip;
		// what is still required of them is that they do not disturb the neighbouring field.
		keyp = "C47/out-of-range-"
	}
	const slack = 8
	backing := bytes.Repeat([]byte{fill}, Len+slack)
	var out []byte
	var err error
	panicked := r.Guard(keyp+"encode-panic", rec, func() {
		if viaMethod {
			h := &H{Version: v, Type: MessageType(t), Subtype: MessageSubType(st), Reserved: 0xa5a5, RemoteIndex: ri, MessageCounter: c}
			out, err = h.Encode(backing[:0])
		} else {
			out = Encode(backing[:0], v, MessageType(t), MessageSubType(st), ri, c)
		}
	})
	r.Eval(1)
	if panicked {
		return
	}
	if err != nil {
		r.Violation(keyp+"encode-error", fmt.Sprintf("H.Encode returned %v", err), rec())
		return
	}
	if len(out) != Len {
		r.Violation(keyp+"encode-length", fmt.Sprintf("encoded length %d, want 16", len(out)), rec())
		return
	}
	if &out[0] != &backing[0] {
		r.Violation(keyp+"encode-not-in-place", "Encode did not use the provided buffer", rec())
	}
	want := c47RefEncode(v, t, st, ri, c)
	if !bytes.Equal(out, want[:]) {
		r.Violation(keyp+"encode-bytes", fmt.Sprintf("encoded %x, reference %x", out, want[:]), rec())
	}
	if out[2] != 0 || out[3] != 0 {
		r.Violation(keyp+"reserved-not-zero", fmt.Sprintf("reserved bytes %x after encode", out[2:4]), rec())
	}
	for i := Len; i < len(backing); i++ {
		if backing[i] != fill {
			r.Violation(keyp+"encode-writes-past-16", fmt.Sprintf("byte %d of the caller's buffer was modified", i), rec())
			break
		}
	}
	// parse back from an exact-size copy: any read past 16 bytes panics
	exact := make([]byte, Len)
	copy(exact, out)
	exact = exact[:Len:Len]
	var h H
	h.Reserved = 0x5a5a // must be overwritten by the parsed zero
	var perr error
	if r.Guard(keyp+"parse-panic", rec, func() { perr = h.Parse(exact) }) {
		return
	}
	if perr != nil {
		r.Violation(keyp+"parse-rejects-encoded", fmt.Sprintf("Parse of an encoded header: %v", perr), rec())
		return
	}
	got := c47Got(&h)
	exp := c47Fields{V: v & 0x0f, T: t & 0x0f, ST: st, Res: 0, RI: ri, C: c}
	if got != exp {
		r.Violation(keyp+"roundtrip-mismatch", fmt.Sprintf("parsed %+v, want %+v", got, exp), rec())
	}
}

func TestVerifC47RoundTrip(t *testing.T) {
	r := verifkit.NewReporter(t, "C47", "roundtrip",
		"encode->bytes vs reference layout->parse back: all 16x16x256 (version,type,subtype) triples x boundary index/counter pairs, boundary index x counter grid, PRNG fields, and out-of-range version/type values (checked for not disturbing the neighbouring field); distinct = distinct encoded 16-byte strings")
	defer r.Done()
	sig := func(v, ty, st uint8, ri uint32, c uint64) uint64 {
		h := uint64(1469598103934665603)
		for _, x := range []uint64{uint64(v), uint64(ty), uint64(st), uint64(ri), c} {
			h ^= x
			h *= 1099511628211
			h ^= h >> 31
		}
		return h
	}
	// 1. every representable (version, type, subtype) with rotating boundary index/counter
	n := 0
	for v := 0; v < 16; v++ {
		for ty := 0; ty < 16; ty++ {
			for st := 0; st < 256; st++ {
				ri := c47U32[n%len(c47U32)]
				c := c47U64[(n/3)%len(c47U64)]
				r.DistinctU64(sig(uint8(v), uint8(ty), uint8(st), ri, c))
				c47RoundTrip(r, uint8(v), uint8(ty), uint8(st), ri, c, n%2 == 1, byte(0xaa+n))
				n++
			}
		}
	}
	r.Exhaustive("all 16 x 16 x 256 (version, type, subtype) triples")
	// 2. boundary grid for index x counter on the production version and each defined type
	for _, ri := range c47U32 {
		for _, c := range c47U64 {
			for ty := uint8(0); ty <= 7; ty++ {
				for st := uint8(0); st < 2; st++ {
					r.DistinctU64(sig(Version, ty, st, ri, c))
					c47RoundTrip(r, Version, ty, st, ri, c, (ri^uint32(c))&1 == 1, 0xee)
				}
			}
		}
	}
	r.Exhaustive(fmt.Sprintf("boundary grid: %d index values x %d counter values x types 0..7 x subtypes 0..1", len(c47U32), len(c47U64)))
	// 3. single-bit walks: each bit of index and counter alone, and all but that bit
	for b := 0; b < 32; b++ {
		for _, ri := range []uint32{1 << b, ^(uint32(1) << b)} {
			r.DistinctU64(sig(1, 1, 0, ri, 0))
			c47RoundTrip(r, 1, 1, 0, ri, 0, false, 0)
		}
	}
	for b := 0; b < 64; b++ {
		for _, c := range []uint64{1 << b, ^(uint64(1) << b)} {
			r.DistinctU64(sig(1, 1, 0, 0, c))
			c47RoundTrip(r, 1, 1, 0, 0, c, true, 0xff)
		}
	}
	// 4. PRNG fields
	rng := verifkit.NewRand("C47roundtrip")
	cases := verifkit.Scale(200_000, 5_000_000)
	for i := 0; i < cases; i++ {
		v, ty, st := uint8(rng.UintN(16)), uint8(rng.UintN(16)), uint8(rng.UintN(256))
		ri, c := rng.Uint32(), rng.Uint64()
		if i < 3 {
			r.Sample(map[string]any{"version": v, "type": ty, "subtype": st, "remote_index": ri, "counter": c})
		}
		r.DistinctU64(sig(v, ty, st, ri, c))
		c47RoundTrip(r, v, ty, st, ri, c, i%2 == 0, byte(i))
	}
	// 5. out-of-range version / type: all 256 x 256 raw values with one subtype/index/counter each
	for v := 0; v < 256; v++ {
		for ty := 0; ty < 256; ty++ {
			if v < 16 && ty < 16 {
				continue
			}
			r.DistinctU64(sig(uint8(v), uint8(ty), uint8(v^ty), 0x01020304, 0x0102030405060708) ^ 0x55)
			c47RoundTrip(r, uint8(v), uint8(ty), uint8(v^ty), 0x01020304, 0x0102030405060708, (v+ty)%2 == 0, 0x11)
			r.Count("out_of_range_field_cases", 1)
		}
	}
}

func TestVerifC47Parse(t *testing.T) {
	r := verifkit.NewReporter(t, "C47", "parse",
		"Parse/NewHeader on len==cap slices (short ones also as the front of a larger stale buffer) of every length 0..20 (all 65,536 values of the first two bytes at each length >= 2, PRNG rest): shorter than 16 must be refused, 16..20 must decode per the reference and not depend on bytes past 16; parse->encode reproduces the input with reserved zeroed; distinct = distinct (length, first 16 bytes) inputs")
	defer r.Done()
	rng := verifkit.NewRand("C47parse")
	reps := verifkit.Scale(1, 8)
	for length := 0; length <= 20; length++ {
		first2 := 65536
		if length == 0 {
			first2 = 1
		} else if length == 1 {
			first2 = 256
		}
		for rep := 0; rep < reps; rep++ {
			for fb := 0; fb < first2; fb++ {
				buf := make([]byte, length)
				for i := range buf {
					buf[i] = byte(rng.UintN(256))
				}
				// bias: reserved non-zero / zero, extreme index+counter
				switch rng.UintN(6) {
				case 0:
					for i := 2; i < length; i++ {
						buf[i] = 0xff
					}
				case 1:
					for i := 2; i < length; i++ {
						buf[i] = 0
					}
				}
				if length >= 1 {
					buf[0] = byte(fb)
				}
				if length >= 2 {
					buf[0] = byte(fb >> 8)
					buf[1] = byte(fb)
				}
				buf = buf[:length:length]
				orig := bytes.Clone(buf)
				rec := func() any { return map[string]any{"length": length, "input": verifkit.Hex(orig)} }
				if length == 17 && fb < 2 && rep == 0 {
					r.Sample(rec())
				}
				sentinel := H{Version: 0xEE, Type: 0xEE, Subtype: 0xEE, Reserved: 0xEEEE, RemoteIndex: 0xEEEEEEEE, MessageCounter: 0xEEEEEEEEEEEEEEEE}
				h := sentinel
				var err error
				var nh *H
				var nerr error
				if r.Guard("C47/parse-panic", rec, func() {
					err = h.Parse(buf)
					nh, nerr = NewHeader(buf)
				}) {
					continue
				}
				r.Eval(1)
				hs := uint64(length) * 0x9e3779b97f4a7c15
				for _, x := range buf[:min(length, 16)] {
					hs = (hs ^ uint64(x)) * 1099511628211
				}
				r.DistinctU64(hs)
				if !bytes.Equal(buf, orig) {
					r.Violation("C47/parse-mutates-input", "Parse modified its input", rec())
				}
				if length < Len {
					r.Count("short_inputs", 1)
					// the same short input as the front of a larger receive buffer (len < 16 <= cap) whose tail holds a
					// complete stale header: length, not capacity, decides
					big := make([]byte, 64)
					for i := range big {
						big[i] = byte(rng.UintN(256))
					}
					copy(big, orig)
					hb := sentinel
					var berr, bnerr error
					var bnh *H
					if r.Guard("C47/parse-panic", rec, func() {
						berr = hb.Parse(big[:length])
						bnh, bnerr = NewHeader(big[:length])
					}) {
						continue
					}
					r.Count("short_inputs_in_large_buffer", 1)
					if berr == nil || bnerr == nil || bnh != nil {
						r.Violation("C47/short-input-accepted", fmt.Sprintf("input of %d bytes at the front of a 64-byte buffer accepted (Parse err=%v, NewHeader err=%v hdr=%v)", length, berr, bnerr, bnh), rec())
						continue
					}
					if err == nil || nerr == nil || nh != nil {
						r.Violation("C47/short-input-accepted", fmt.Sprintf("input of %d bytes accepted (Parse err=%v, NewHeader err=%v hdr=%v)", length, err, nerr, nh), rec())
						continue
					}
					if !errors.Is(err, ErrHeaderTooShort) || !errors.Is(nerr, ErrHeaderTooShort) {
						r.Violation("C47/short-input-wrong-error", fmt.Sprintf("errors %v / %v are not ErrHeaderTooShort", err, nerr), rec())
					}
					continue
				}
				r.Count("full_inputs", 1)
				if err != nil || nerr != nil || nh == nil {
					r.Violation("C47/full-input-rejected", fmt.Sprintf("input of %d bytes rejected: %v / %v", length, err, nerr), rec())
					continue
				}
				want := c47RefDecode(orig)
				if got := c47Got(&h); got != want {
					r.Violation("C47/parse-mismatch", fmt.Sprintf("Parse gave %+v, reference %+v", got, want), rec())
					continue
				}
				if got := c47Got(nh); got != want {
					r.Violation("C47/newheader-mismatch", fmt.Sprintf("NewHeader gave %+v, reference %+v", got, want), rec())
					continue
				}
				// independence from bytes past 16: flip them all, result must be identical
				if length > Len {
					alt := bytes.Clone(orig)
					for i := Len; i < length; i++ {
						alt[i] ^= byte(1 + rng.UintN(255))
					}
					alt = alt[:length:length]
					var h2 H
					if e := h2.Parse(alt); e != nil || h2 != h {
						r.Violation("C47/depends-on-bytes-past-16", fmt.Sprintf("Parse result changed with trailing bytes: %+v vs %+v err=%v", h2, h, e), map[string]any{"a": verifkit.Hex(orig), "b": verifkit.Hex(alt)})
					}
					r.Count("trailing_byte_variants", 1)
				}
				// parse -> encode gives the first 16 bytes back with the reserved field zeroed
				out := make([]byte, Len)
				enc, eerr := h.Encode(out[:0:Len])
				exp := bytes.Clone(orig[:Len])
				exp[2], exp[3] = 0, 0
				if eerr != nil || !bytes.Equal(enc, exp) {
					r.Violation("C47/parse-encode-mismatch", fmt.Sprintf("re-encoded %x, want %x (err %v)", enc, exp, eerr), rec())
				}
				// validity of the parsed header agrees with the documented table
				if h.IsValidSubType() != c47RefValid(want.T, want.ST) {
					r.Violation("C47/valid-subtype-table", fmt.Sprintf("H.IsValidSubType()=%v for type=%d subtype=%d, documented table says %v", h.IsValidSubType(), want.T, want.ST, !h.IsValidSubType()), rec())
				}
			}
		}
	}
	r.Exhaustive("every input length 0..20 x every value of the first two bytes (version/type/subtype)")
	// nil receiver forms documented by the code: (*H)(nil).Encode errors instead of panicking
	var nilh *H
	r.Guard("C47/nil-header-panic", nil, func() {
		if _, err := nilh.Encode(make([]byte, Len)); err == nil {
			r.Violation("C47/nil-header-encoded", "nil header encoded without error", nil)
		}
		_ = nilh.String()
	})
}

func TestVerifC47ValidSubType(t *testing.T) {
	r := verifkit.NewReporter(t, "C47", "subtype",
		"IsValidSubType and H.IsValidSubType over all 256 x 256 (type, subtype) values against the documented table; also the human-readable subtype name table must name exactly the valid combinations; distinct = distinct (type, subtype, verdict) triples")
	defer r.Done()
	valid := 0
	for ty := 0; ty < 256; ty++ {
		for st := 0; st < 256; st++ {
			want := c47RefValid(uint8(ty), uint8(st))
			got := IsValidSubType(MessageType(ty), MessageSubType(st))
			h := &H{Version: Version, Type: MessageType(ty), Subtype: MessageSubType(st)}
			gotm := h.IsValidSubType()
			r.Eval(1)
			r.DistinctU64(uint64(ty)<<16 | uint64(st)<<1 | map[bool]uint64{false: 0, true: 1}[want])
			rec := map[string]any{"type": ty, "subtype": st, "documented_valid": want, "IsValidSubType": got, "H.IsValidSubType": gotm}
			if want {
				valid++
				r.Sample(rec)
				r.DistinctClass(fmt.Sprintf("valid type=%d(%s) subtype=%d(%s)", ty, TypeName(MessageType(ty)), st, SubTypeName(MessageType(ty), MessageSubType(st))))
			}
			if got != want {
				k := "C47/undocumented-combination-valid"
				if want {
					k = "C47/documented-combination-invalid"
				}
				r.Violation(k, fmt.Sprintf("IsValidSubType(%d,%d)=%v, documented table says %v", ty, st, got, want), rec)
			}
			if gotm != got {
				r.Violation("C47/method-function-disagree", fmt.Sprintf("H.IsValidSubType()=%v but IsValidSubType(%d,%d)=%v", gotm, ty, st, got), rec)
			}
			// the name tables are the second piece of documentation in the package: a combination has a name iff it is valid
			named := SubTypeName(MessageType(ty), MessageSubType(st)) != "unknown"
			if named != want {
				r.Violation("C47/name-table-disagrees", fmt.Sprintf("SubTypeName(%d,%d)=%q but documented validity is %v", ty, st, SubTypeName(MessageType(ty), MessageSubType(st)), want), rec)
			}
			if (TypeName(MessageType(ty)) != "unknown") != (ty <= 6) {
				r.Violation("C47/type-name-table", fmt.Sprintf("TypeName(%d)=%q", ty, TypeName(MessageType(ty))), rec)
			}
		}
	}
	r.Info("valid_combinations", valid)
	r.Count("valid_combinations", valid)
	r.Exhaustive("all 65,536 (type, subtype) pairs")
}
