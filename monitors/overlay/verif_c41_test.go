package overlay

// C41 — route configuration parses exactly.
//
// Statement: routes and unsafe routes load only if every entry is well formed, with routes inside
// and unsafe routes outside the node's overlay networks, and numeric fields (MTU, metric, gateway
// weight) given as integers or as decimal strings take exactly the stated value. Out-of-range
// values are refused rather than replaced.
//
// The monitor generates a list of route entries as *descriptions* (for every field: how it is
// written — integer, decimal string, malformed string, float, bool, list, nil, map — and what it
// means), builds the configuration tree from them, runs the real parseRoutes / parseUnsafeRoutes
// and judges the outcome against the description only:
//
//   - a field of the wrong type, a malformed string, an out-of-range number, a route on the wrong
//     side of the overlay networks, a missing required key, a non-map entry, a non-list value
//     => the whole list must be refused (never a panic);
//   - integers and plain decimal strings in range => must load, with exactly that value;
//   - forms whose acceptance the statement does not settle ("+5", "007", " 5", 5.0, null for an
//     optional key, an MTU above 65535, `mtu: 0` on an unsafe route, an unsafe route that covers
//     an overlay network, `via: []`, 0/1/"t" for install) may be refused or loaded, but when loaded
//     the value must be the stated one.
//
// Ranges (the ones the error messages of the loader document): route MTU >= 500; unsafe-route MTU
// unset or >= 500; metric 0..2^31-1; gateway weight 1..2^31-1.

import (
	"fmt"
	"hash/fnv"
	"io"
	"log/slog"
	"math"
	"math/rand/v2"
	"net/netip"
	"sort"
	"strconv"
	"strings"
	"testing"

	"github.com/slackhq/nebula/config"
	"github.com/slackhq/nebula/verifkit"
	"go.yaml.in/yaml/v3"
)

// ---------------------------------------------------------------------------------------------
// descriptions

// c41Num describes how a numeric field is written.
type c41Num struct {
	role    string // "mtu" | "metric" | "weight"
	present bool
	v       any
	repr    string // int decstr signstr zerostr padstr badstr float intfloat bool list nil map uint64
	n       int64  // meaning, when interp
	interp  bool
}

func (f c41Num) isString() bool {
	_, ok := f.v.(string)
	return f.present && ok
}

// c41NumVerdict: "ok" (must load, value n), "lenient" (may load; value n when valueKnown), "refuse".
func c41NumVerdict(f c41Num, unsafe bool) (verdict, reason string, n int64, valueKnown bool) {
	def := int64(0)
	if f.role == "weight" {
		def = 1
	}
	if !f.present {
		if f.role == "mtu" && !unsafe {
			return "refuse", "missing-mtu", 0, false
		}
		return "ok", "", def, true
	}
	reprVerdict := "refuse"
	switch f.repr {
	case "int", "decstr":
		reprVerdict = "ok"
	case "signstr", "zerostr", "padstr", "intfloat":
		reprVerdict = "lenient"
	case "nil":
		if f.role == "mtu" && !unsafe {
			return "refuse", "nil-mtu", 0, false
		}
		return "lenient", "", def, true
	}
	if reprVerdict == "refuse" {
		return "refuse", f.repr + "-" + f.role, 0, false
	}
	n = f.n
	rangeVerdict := "ok"
	switch f.role {
	case "mtu":
		switch {
		case n == 0 && unsafe:
			rangeVerdict = "lenient"
		case n < 500:
			rangeVerdict = "refuse"
		case n > 65535:
			rangeVerdict = "lenient"
		}
	case "metric":
		if n < 0 || n > math.MaxInt32 {
			rangeVerdict = "refuse"
		}
	case "weight":
		if n < 1 || n > math.MaxInt32 {
			rangeVerdict = "refuse"
		}
	}
	if rangeVerdict == "refuse" {
		return "refuse", "out-of-range-" + f.role, n, false
	}
	if reprVerdict == "lenient" || rangeVerdict == "lenient" {
		return "lenient", "", n, true
	}
	return "ok", "", n, true
}

type c41Prefix struct {
	present bool
	v       any
	refuse  string // reason when the text / type is malformed
	bytes   []byte // address as written (host bits may be set)
	bits    int
	rel     string // inside | covers | disjoint (vs the overlay networks)
	kind    string
}

type c41Gw struct {
	raw       any // non-map entry when rawSet
	rawSet    bool
	gwPresent bool
	gw        any
	gwRefuse  string
	gwBytes   []byte
	weight    c41Num
}

type c41Via struct {
	kind   string // absent | string | list | other
	v      any    // string / other
	refuse string
	bytes  []byte
	gws    []c41Gw
}

type c41Install struct {
	present bool
	v       any
	verdict string // ok | lenient | refuse
	val     bool
	kind    string
}

type c41Entry struct {
	raw     any
	rawSet  bool
	mtu     c41Num
	metric  c41Num
	route   c41Prefix
	via     c41Via
	install c41Install
}

type c41Case struct {
	unsafe   bool
	networks [][2]any // {bytes []byte, bits int}
	top      string   // list | absent | nil | notlist
	topV     any
	entries  []c41Entry
	faults   []string
}

func (c *c41Case) nets() []netip.Prefix {
	out := make([]netip.Prefix, len(c.networks))
	for i, n := range c.networks {
		out[i] = netip.PrefixFrom(c41Addr(n[0].([]byte)), n[1].(int))
	}
	return out
}

func c41Addr(b []byte) netip.Addr {
	if len(b) == 4 {
		return netip.AddrFrom4([4]byte(b))
	}
	return netip.AddrFrom16([16]byte(b))
}

// c41SamePrefixBits reports whether a and b agree on their first n bits (reference containment test).
func c41SamePrefixBits(a, b []byte, n int) bool {
	if len(a) != len(b) {
		return false
	}
	for i := 0; i < n; i++ {
		if (a[i/8]>>(7-i%8))&1 != (b[i/8]>>(7-i%8))&1 {
			return false
		}
	}
	return true
}

func (c *c41Case) relation(addr []byte, bits int) string {
	rel := "disjoint"
	for _, n := range c.networks {
		nb, nbits := n[0].([]byte), n[1].(int)
		if len(nb) != len(addr) {
			continue
		}
		if bits >= nbits && c41SamePrefixBits(nb, addr, nbits) {
			return "inside"
		}
		if bits < nbits && c41SamePrefixBits(nb, addr, bits) {
			rel = "covers"
		}
	}
	return rel
}

// build produces the configuration tree for the case.
func (c *c41Case) build() map[string]any {
	key := "routes"
	if c.unsafe {
		key = "unsafe_routes"
	}
	tun := map[string]any{}
	switch c.top {
	case "absent":
	case "nil":
		tun[key] = nil
	case "notlist":
		tun[key] = c.topV
	default:
		list := make([]any, 0, len(c.entries))
		for i := range c.entries {
			list = append(list, c.entries[i].build(c.unsafe))
		}
		tun[key] = list
	}
	return map[string]any{"tun": tun}
}

func (e *c41Entry) build(unsafe bool) any {
	if e.rawSet {
		return e.raw
	}
	m := map[string]any{}
	if e.mtu.present {
		m["mtu"] = e.mtu.v
	}
	if e.route.present {
		m["route"] = e.route.v
	}
	if !unsafe {
		return m
	}
	if e.metric.present {
		m["metric"] = e.metric.v
	}
	if e.install.present {
		m["install"] = e.install.v
	}
	switch e.via.kind {
	case "string", "other":
		m["via"] = e.via.v
	case "list":
		l := make([]any, 0, len(e.via.gws))
		for _, g := range e.via.gws {
			if g.rawSet {
				l = append(l, g.raw)
				continue
			}
			gm := map[string]any{}
			if g.gwPresent {
				gm["gateway"] = g.gw
			}
			if g.weight.present {
				gm["weight"] = g.weight.v
			}
			l = append(l, gm)
		}
		m["via"] = l
	}
	return m
}

// ---------------------------------------------------------------------------------------------
// expectation

type c41ExpGw struct {
	addr        netip.Addr
	weight      int64
	weightKnown bool
	w           *c41Num
}

type c41ExpRoute struct {
	mtu, metric           int64
	mtuKnown, metricKnown bool
	cidr                  netip.Prefix
	install               bool
	installKnown          bool
	via                   []c41ExpGw
	viaKnown              bool
}

type c41Expect struct {
	verdict string   // accept | lenient | refuse
	reasons []string // refuse reasons (each one alone demands refusal)
	routes  []c41ExpRoute
}

func (c *c41Case) expect() c41Expect {
	ex := c41Expect{verdict: "accept"}
	lenient := false
	refuse := func(r string) { ex.reasons = append(ex.reasons, r) }
	switch c.top {
	case "absent", "nil":
		return ex
	case "notlist":
		refuse("not-a-list")
		ex.verdict = "refuse"
		return ex
	}
	for i := range c.entries {
		e := &c.entries[i]
		er := c41ExpRoute{}
		if e.rawSet {
			refuse("entry-not-a-map")
			ex.routes = append(ex.routes, er)
			continue
		}
		num := func(f c41Num) (int64, bool) {
			v, reason, n, known := c41NumVerdict(f, c.unsafe)
			switch v {
			case "refuse":
				refuse(reason)
			case "lenient":
				lenient = true
			}
			return n, known
		}
		er.mtu, er.mtuKnown = num(e.mtu)
		// route
		switch {
		case !e.route.present:
			refuse("missing-route")
		case e.route.refuse != "":
			refuse(e.route.refuse)
		default:
			er.cidr = netip.PrefixFrom(c41Addr(e.route.bytes), e.route.bits)
			switch {
			case !c.unsafe && e.route.rel != "inside":
				refuse("route-not-inside-networks")
			case c.unsafe && e.route.rel == "inside":
				refuse("unsafe-route-inside-networks")
			case c.unsafe && e.route.rel == "covers":
				lenient = true
			}
		}
		if c.unsafe {
			er.metric, er.metricKnown = num(e.metric)
			switch e.via.kind {
			case "absent":
				refuse("missing-via")
			case "string", "other":
				if e.via.refuse != "" {
					refuse(e.via.refuse)
				} else {
					er.via, er.viaKnown = []c41ExpGw{{addr: c41Addr(e.via.bytes), weight: 1, weightKnown: true}}, true
				}
			case "list":
				er.viaKnown = true
				if len(e.via.gws) == 0 {
					lenient = true
				}
				for gi := range e.via.gws {
					g := &e.via.gws[gi]
					switch {
					case g.rawSet:
						refuse("gateway-not-a-map")
						er.viaKnown = false
					case !g.gwPresent:
						refuse("missing-gateway")
						er.viaKnown = false
					case g.gwRefuse != "":
						refuse(g.gwRefuse)
						er.viaKnown = false
					default:
						w, known := num(g.weight)
						er.via = append(er.via, c41ExpGw{addr: c41Addr(g.gwBytes), weight: w, weightKnown: known, w: &g.weight})
					}
				}
			}
			switch {
			case !e.install.present:
				er.install, er.installKnown = true, true
			case e.install.verdict == "refuse":
				refuse("bad-install")
			default:
				if e.install.verdict == "lenient" {
					lenient = true
				}
				er.install, er.installKnown = e.install.val, true
			}
		}
		ex.routes = append(ex.routes, er)
	}
	switch {
	case len(ex.reasons) > 0:
		ex.verdict = "refuse"
	case lenient:
		ex.verdict = "lenient"
	}
	return ex
}

// ---------------------------------------------------------------------------------------------
// running the real code

type c41Result struct {
	panicked bool
	panicMsg string
	err      error
	routes   []Route
}

var c41Logger = slog.New(slog.NewTextHandler(io.Discard, nil))

func c41Run(settings map[string]any, nets []netip.Prefix, unsafe bool) (res c41Result) {
	c := config.NewC(c41Logger)
	c.Settings = settings
	defer func() {
		if e := recover(); e != nil {
			res.panicked, res.panicMsg = true, fmt.Sprint(e)
		}
	}()
	if unsafe {
		res.routes, res.err = parseUnsafeRoutes(c, nets)
	} else {
		res.routes, res.err = parseRoutes(c, nets)
	}
	return res
}

func c41GatewayWeight(s string) (int64, bool) {
	i := strings.LastIndex(s, "weight: ")
	if i < 0 {
		return 0, false
	}
	v, err := strconv.ParseInt(strings.TrimSuffix(s[i+len("weight: "):], "}"), 10, 64)
	return v, err == nil
}

// c41Clone deep-copies a case so that variants can be derived for attribution.
func (c *c41Case) clone() *c41Case {
	n := *c
	n.entries = make([]c41Entry, len(c.entries))
	for i, e := range c.entries {
		ne := e
		ne.via.gws = append([]c41Gw(nil), e.via.gws...)
		n.entries[i] = ne
	}
	return &n
}

// nums visits every numeric field of the case.
func (c *c41Case) nums(f func(*c41Num)) {
	for i := range c.entries {
		e := &c.entries[i]
		if e.rawSet {
			continue
		}
		f(&e.mtu)
		if c.unsafe {
			f(&e.metric)
			for gi := range e.via.gws {
				if !e.via.gws[gi].rawSet {
					f(&e.via.gws[gi].weight)
				}
			}
		}
	}
}

func c41TypeName(repr string) string {
	switch repr {
	case "float", "intfloat":
		return "float"
	}
	return repr
}

func (c *c41Case) record(res c41Result, ex c41Expect) map[string]any {
	rec := map[string]any{"function": map[bool]string{false: "parseRoutes", true: "parseUnsafeRoutes"}[c.unsafe],
		"overlay_networks": fmt.Sprint(c.nets()), "config": fmt.Sprintf("%#v", c.build()), "faults": c.faults,
		"expected": ex.verdict, "refuse_reasons": ex.reasons, "panicked": res.panicked, "panic": res.panicMsg, "error": fmt.Sprint(res.err), "loaded": fmt.Sprintf("%+v", res.routes)}
	if b, err := yaml.Marshal(c.build()); err == nil {
		rec["yaml"] = string(b)
	}
	return rec
}

// c41Judge runs and judges one case; mode is "direct" or "yaml".
func c41Judge(r *verifkit.Reporter, c *c41Case, mode string) {
	ex := c.expect()
	settings := c.build()
	if mode == "yaml" {
		b, err := yaml.Marshal(settings)
		if err != nil {
			r.Count("yaml_marshal_failed", 1)
			return
		}
		cc := config.NewC(c41Logger)
		if err := cc.LoadString(string(b)); err != nil {
			r.Count("yaml_load_failed", 1)
			return
		}
		settings = cc.Settings
	}
	nets := c.nets()
	r.Pre("%s %s nets=%v config=%#v", mode, map[bool]string{false: "parseRoutes", true: "parseUnsafeRoutes"}[c.unsafe], nets, settings)
	res := c41Run(settings, nets, c.unsafe)
	r.Eval(1)
	outcome := "refused"
	switch {
	case res.panicked:
		outcome = "panicked"
	case res.err == nil:
		outcome = "loaded"
	}
	fl := append([]string(nil), c.faults...)
	sort.Strings(fl)
	r.DistinctClass(fmt.Sprintf("%s unsafe=%v expect=%s real=%s faults=%s", mode, c.unsafe, ex.verdict, outcome, strings.Join(fl, ",")))
	h := fnv.New64a()
	fmt.Fprintf(h, "%s|%v|%v|%v", mode, c.unsafe, nets, settings)
	r.DistinctU64(h.Sum64())
	r.Count("expect_"+ex.verdict+"_real_"+outcome, 1)
	rerun := func(v *c41Case) c41Result { return c41Run(v.build(), nets, c.unsafe) }

	switch {
	case res.panicked:
		// attribute to a numeric field whose value is neither an integer nor a string
		key := "C41/panic"
		var cands []*c41Num
		c.nums(func(f *c41Num) {
			if f.present && f.repr != "int" && !f.isString() {
				cands = append(cands, f)
			}
		})
		for ci := range cands {
			v := c.clone()
			k := 0
			var only c41Num
			v.nums(func(f *c41Num) {
				if f.present && f.repr != "int" && !f.isString() {
					if k != ci {
						*f = c41Num{role: f.role} // absent
					} else {
						only = *f
					}
					k++
				}
			})
			if rerun(v).panicked {
				if only.role == "metric" && c41TypeName(only.repr) == "float" {
					key = "C41/float-metric-panics"
				} else {
					key = "C41/nonstring-" + only.role + "-panics"
				}
				break
			}
		}
		r.Violation(key, fmt.Sprintf("%s panicked: %s", map[bool]string{false: "parseRoutes", true: "parseUnsafeRoutes"}[c.unsafe], res.panicMsg), c.record(res, ex))
		return
	case res.err != nil:
		if ex.verdict != "accept" {
			return
		}
		// a list of well-formed entries was refused: find out whether the decimal-string form is the cause
		key := "C41/valid-refused"
		for _, role := range []string{"mtu", "metric", "weight"} {
			v := c.clone()
			changed := false
			v.nums(func(f *c41Num) {
				if f.role == role && f.present && f.repr == "decstr" {
					f.v, f.repr, changed = int(f.n), "int", true
				}
			})
			if changed && rerun(v).err == nil {
				key = "C41/string-" + role + "-refused"
				break
			}
		}
		r.Violation(key, fmt.Sprintf("a well-formed list was refused: %v", res.err), c.record(res, ex))
		return
	}
	// loaded
	if ex.verdict == "refuse" {
		for _, reason := range ex.reasons {
			key := "C41/accepts-" + reason
			if strings.HasSuffix(reason, "-metric") {
				// was the offending metric written as a string?
				c.nums(func(f *c41Num) {
					if f.role == "metric" && f.isString() {
						if v, _, _, _ := c41NumVerdict(*f, true); v == "refuse" {
							key = "C41/string-metric-ignored"
						}
					}
				})
			}
			r.Violation(key, fmt.Sprintf("list loaded although it must be refused (%s)", reason), c.record(res, ex))
		}
		return
	}
	if len(res.routes) != len(ex.routes) {
		r.Violation("C41/route-count", fmt.Sprintf("%d entries configured, %d routes loaded", len(ex.routes), len(res.routes)), c.record(res, ex))
		return
	}
	for i, want := range ex.routes {
		got := res.routes[i]
		e := &c.entries[i]
		bad := func(key, what string) {
			r.Violation(key, fmt.Sprintf("entry %d: %s", i+1, what), c.record(res, ex))
		}
		if want.mtuKnown && int64(got.MTU) != want.mtu {
			bad("C41/mtu-wrong-value", fmt.Sprintf("mtu written as %#v loaded as %d", e.mtu.v, got.MTU))
		}
		if got.Cidr != want.cidr {
			bad("C41/route-wrong-value", fmt.Sprintf("route written as %#v loaded as %v", e.route.v, got.Cidr))
		}
		if !c.unsafe {
			if !got.Install {
				bad("C41/install-wrong-value", "a tun.routes entry loaded with Install=false")
			}
			continue
		}
		if want.metricKnown && int64(got.Metric) != want.metric {
			key := "C41/metric-wrong-value"
			if e.metric.isString() {
				key = "C41/string-metric-ignored"
			}
			bad(key, fmt.Sprintf("metric written as %#v loaded as %d", e.metric.v, got.Metric))
		}
		if want.installKnown && got.Install != want.install {
			bad("C41/install-wrong-value", fmt.Sprintf("install written as %#v loaded as %v", e.install.v, got.Install))
		}
		if want.viaKnown {
			if len(got.Via) != len(want.via) {
				bad("C41/via-wrong-value", fmt.Sprintf("%d gateways written, %d loaded", len(want.via), len(got.Via)))
				continue
			}
			for gi := range want.via {
				g := got.Via[gi]
				if g.Addr() != want.via[gi].addr {
					bad("C41/via-wrong-value", fmt.Sprintf("gateway %d: written %v loaded %v", gi+1, want.via[gi].addr, g.Addr()))
				}
				w, ok := c41GatewayWeight(g.String())
				if !ok {
					r.Inconclusive("cannot read the weight of a loaded gateway from " + g.String())
				} else if want.via[gi].weightKnown && w != want.via[gi].weight {
					var written any = "(default)"
					if want.via[gi].w != nil && want.via[gi].w.present {
						written = want.via[gi].w.v
					}
					bad("C41/weight-wrong-value", fmt.Sprintf("gateway %d: weight written as %#v loaded as %d", gi+1, written, w))
				}
			}
		}
	}
	r.Count("loaded_lists_value_checked", 1)
}

// ---------------------------------------------------------------------------------------------
// generator

func c41GenNum(rng *rand.Rand, role string, unsafe bool, fault string) c41Num {
	f := c41Num{role: role, present: true}
	valid := func() int64 {
		switch role {
		case "mtu":
			return []int64{500, 501, 1300, 1500, 9000, 65535, int64(500 + rng.IntN(65036))}[rng.IntN(7)]
		case "metric":
			return []int64{0, 1, 100, 1024, math.MaxInt32, int64(rng.IntN(math.MaxInt32))}[rng.IntN(6)]
		}
		return []int64{1, 2, 5, 100, math.MaxInt32, int64(1 + rng.IntN(1000))}[rng.IntN(6)]
	}
	outOfRange := func() int64 {
		switch role {
		case "mtu":
			if unsafe {
				return []int64{499, 1, -1, -1300, math.MinInt32, int64(1 + rng.IntN(499))}[rng.IntN(6)]
			}
			return []int64{499, 1, 0, -1, -1300, math.MinInt32, int64(rng.IntN(500))}[rng.IntN(7)]
		case "metric":
			return []int64{-1, -100, math.MaxInt32 + 1, 1 << 40, math.MaxInt64, math.MinInt64, -int64(1 + rng.IntN(1000))}[rng.IntN(7)]
		}
		return []int64{0, -1, -5, math.MaxInt32 + 1, 1 << 40, math.MaxInt64}[rng.IntN(6)]
	}
	setInt := func(n int64) { f.v, f.repr, f.n, f.interp = int(n), "int", n, true }
	setStr := func(n int64) { f.v, f.repr, f.n, f.interp = strconv.FormatInt(n, 10), "decstr", n, true }
	switch fault {
	case "":
		if rng.IntN(2) == 0 {
			setInt(valid())
		} else {
			setStr(valid())
		}
	case "int":
		setInt(valid())
	case "decstr":
		setStr(valid())
	case "absent":
		f.present = false
	case "range-int":
		setInt(outOfRange())
	case "range-str":
		setStr(outOfRange())
	case "big":
		n := []int64{65536, 1 << 31, 1 << 40}[rng.IntN(3)]
		if role != "mtu" {
			n = outOfRange()
		}
		if rng.IntN(2) == 0 {
			setInt(n)
		} else {
			setStr(n)
		}
	case "zero-mtu":
		if rng.IntN(2) == 0 {
			setInt(0)
		} else {
			setStr(0)
		}
	case "signstr":
		n := valid()
		f.v, f.repr, f.n, f.interp = "+"+strconv.FormatInt(n, 10), "signstr", n, true
	case "zerostr":
		n := valid()
		f.v, f.repr, f.n, f.interp = []string{"0", "00", "000"}[rng.IntN(3)]+strconv.FormatInt(n, 10), "zerostr", n, true
	case "padstr":
		n := valid()
		s := strconv.FormatInt(n, 10)
		f.v, f.repr, f.n, f.interp = []string{" " + s, s + " ", s + "\n", "\t" + s}[rng.IntN(4)], "padstr", n, true
	case "badstr":
		s := strconv.FormatInt(valid(), 10)
		f.v, f.repr = []string{"", "abc", "1e3", "0x1F4", s + ".0", "1 300", "1_300", "１３００", s + "mtu", "--5", "+-5", "0b11", "٣", "1,300", "true", s + "-", "0x" + s, s + "f"}[rng.IntN(18)], "badstr"
	case "float":
		f.v, f.repr = []float64{1.5, 1300.5, -0.5, 1e100, 0.1, math.Inf(1), float64(valid()) + 0.25}[rng.IntN(7)], "float"
	case "intfloat":
		n := valid()
		f.v, f.repr, f.n, f.interp = float64(n), "intfloat", n, true
	case "bool":
		f.v, f.repr = rng.IntN(2) == 0, "bool"
	case "list":
		f.v, f.repr = []any{[]any{int(valid())}, []any{}, []any{"1300"}}[rng.IntN(3)], "list"
	case "nil":
		f.v, f.repr = nil, "nil"
	case "map":
		f.v, f.repr = map[string]any{"value": int(valid())}, "map"
	case "uint64":
		f.v, f.repr = uint64(math.MaxInt64)+1+uint64(rng.IntN(1000)), "uint64"
	default:
		panic("c41GenNum: unknown fault " + fault)
	}
	return f
}

var c41NumFaults = []string{"absent", "range-int", "range-str", "big", "signstr", "zerostr", "padstr", "badstr", "badstr", "float", "float", "intfloat", "bool", "list", "nil", "map", "uint64", "int", "decstr", "decstr"}

func c41GenNetworks(rng *rand.Rand) [][2]any {
	n := 1 + rng.IntN(3)
	var out [][2]any
	for i := 0; i < n; i++ {
		if rng.IntN(3) == 0 {
			b := make([]byte, 16)
			b[0], b[1] = 0xfd, byte(rng.IntN(256))
			for j := 2; j < 16; j++ {
				b[j] = byte(rng.IntN(256))
			}
			bits := []int{48, 64, 56, 96, 112, 120}[rng.IntN(6)]
			out = append(out, [2]any{c41Mask(b, bits), bits})
		} else {
			b := []byte{[]byte{10, 192, 172, 100}[rng.IntN(4)], byte(rng.IntN(256)), byte(rng.IntN(256)), byte(rng.IntN(256))}
			bits := []int{8, 12, 16, 20, 24, 28, 30}[rng.IntN(7)]
			out = append(out, [2]any{c41Mask(b, bits), bits})
		}
	}
	return out
}

func c41Mask(b []byte, bits int) []byte {
	o := append([]byte(nil), b...)
	for i := bits; i < len(o)*8; i++ {
		o[i/8] &^= 1 << (7 - i%8)
	}
	return o
}

func c41RandAddr(rng *rand.Rand, v6 bool) []byte {
	n := 4
	if v6 {
		n = 16
	}
	b := make([]byte, n)
	for i := range b {
		b[i] = byte(rng.IntN(256))
	}
	if v6 {
		b[0] = 0x20 // keep clear of the 4-in-6 range, which the statement does not discuss
	}
	return b
}

// c41GenPrefix generates the route of an entry; want is the relation to aim for.
func c41GenPrefix(rng *rand.Rand, c *c41Case, want, fault string) c41Prefix {
	p := c41Prefix{present: true, kind: want}
	net := c.networks[rng.IntN(len(c.networks))]
	nb, nbits := net[0].([]byte), net[1].(int)
	maxBits := len(nb) * 8
	switch want {
	case "inside":
		p.bits = nbits + rng.IntN(maxBits-nbits+1)
		if rng.IntN(6) == 0 {
			p.bits = nbits
		}
		a := c41RandAddr(rng, len(nb) == 16)
		for i := 0; i < nbits; i++ {
			a[i/8] = a[i/8]&^(1<<(7-i%8)) | nb[i/8]&(1<<(7-i%8))
		}
		p.bytes = a
	case "covers":
		p.bits = rng.IntN(nbits)
		p.bytes = append([]byte(nil), nb...)
		if rng.IntN(3) == 0 {
			p.bits = 0
			p.bytes = make([]byte, len(nb))
		}
	default: // disjoint, usually
		p.bytes = c41RandAddr(rng, rng.IntN(3) == 0)
		p.bits = rng.IntN(len(p.bytes)*8 + 1)
		if rng.IntN(2) == 0 { // a neighbour of the network: differs in the last network bit
			p.bytes = append([]byte(nil), nb...)
			p.bytes[(nbits-1)/8] ^= 1 << (7 - (nbits-1)%8)
			p.bits = nbits + rng.IntN(maxBits-nbits+1)
		}
	}
	if rng.IntN(3) != 0 { // canonical form mostly; otherwise host bits stay set
		p.bytes = c41Mask(p.bytes, p.bits)
	}
	p.rel = c.relation(p.bytes, p.bits)
	text := netip.PrefixFrom(c41Addr(p.bytes), p.bits).String()
	p.v = text
	addr, _, _ := strings.Cut(text, "/")
	switch fault {
	case "":
	case "absent":
		p.present = false
	case "badstr":
		p.v = []string{addr, addr + "/", addr + "/" + strconv.Itoa(len(p.bytes)*8+1), addr + "/-1", text + "x", " " + text, text + " ", "", "abc", text + "/8",
			"256.0.0.0/8", "10.0.0/8", "010.0.0.0/8", "10.0.0.0.0/8", "gggg::/16", "fe80::1%eth0/64", addr + "/1e1", "/" + strconv.Itoa(p.bits), addr + "//" + strconv.Itoa(p.bits)}[rng.IntN(19)]
		p.refuse = "malformed-route"
	case "type":
		p.v = []any{10, 1.5, true, []any{text}, nil, map[string]any{"cidr": text}, []any{}}[rng.IntN(7)]
		p.refuse = "nonstring-route"
	}
	return p
}

func c41GenGatewayAddr(rng *rand.Rand, c *c41Case) []byte {
	net := c.networks[rng.IntN(len(c.networks))]
	nb, nbits := net[0].([]byte), net[1].(int)
	a := c41RandAddr(rng, len(nb) == 16)
	if rng.IntN(4) != 0 {
		for i := 0; i < nbits; i++ {
			a[i/8] = a[i/8]&^(1<<(7-i%8)) | nb[i/8]&(1<<(7-i%8))
		}
	}
	return a
}

var c41BadAddrs = []string{"", "abc", "10.0.0", "10.0.0.1/24", " 10.0.0.1", "10.0.0.256", "10.0.0.1.", "::g", "1.2.3.4.5", "010.0.0.1", "10.0.0.1 "}

func c41GenEntry(rng *rand.Rand, c *c41Case) c41Entry {
	e := c41Entry{mtu: c41GenNum(rng, "mtu", c.unsafe, ""), metric: c41Num{role: "metric"}}
	if c.unsafe {
		if rng.IntN(3) == 0 {
			e.mtu = c41Num{role: "mtu"}
		}
		if rng.IntN(3) != 0 {
			e.metric = c41GenNum(rng, "metric", true, "")
		}
		e.route = c41GenPrefix(rng, c, "disjoint", "")
		if rng.IntN(2) == 0 {
			e.via = c41Via{kind: "string", bytes: c41GenGatewayAddr(rng, c)}
			e.via.v = c41Addr(e.via.bytes).String()
		} else {
			e.via = c41Via{kind: "list"}
			for k := 1 + rng.IntN(3); k > 0; k-- {
				g := c41Gw{gwPresent: true, gwBytes: c41GenGatewayAddr(rng, c), weight: c41Num{role: "weight"}}
				g.gw = c41Addr(g.gwBytes).String()
				if rng.IntN(4) != 0 {
					g.weight = c41GenNum(rng, "weight", true, "")
				}
				e.via.gws = append(e.via.gws, g)
			}
		}
		switch rng.IntN(6) {
		case 0:
			e.install = c41Install{present: true, v: true, verdict: "ok", val: true, kind: "bool"}
		case 1:
			e.install = c41Install{present: true, v: false, verdict: "ok", val: false, kind: "bool"}
		case 2:
			b := rng.IntN(2) == 0
			e.install = c41Install{present: true, v: strconv.FormatBool(b), verdict: "ok", val: b, kind: "boolstr"}
		}
	} else {
		e.route = c41GenPrefix(rng, c, "inside", "")
	}
	return e
}

// c41ApplyFault damages one randomly chosen spot of the case and returns the fault label.
func c41ApplyFault(rng *rand.Rand, c *c41Case) string {
	if len(c.entries) == 0 {
		return ""
	}
	e := &c.entries[rng.IntN(len(c.entries))]
	numFault := func(role string) (c41Num, string) {
		f := c41NumFaults[rng.IntN(len(c41NumFaults))]
		return c41GenNum(rng, role, c.unsafe, f), role + ":" + f
	}
	spots := 4
	if c.unsafe {
		spots = 12
	}
	switch s := rng.IntN(spots); {
	case s == 0:
		e.rawSet, e.raw = true, []any{"asdf", 5, nil, []any{}, true, 1.5}[rng.IntN(6)]
		return "entry:not-a-map"
	case s == 1:
		var l string
		e.mtu, l = numFault("mtu")
		if c.unsafe && rng.IntN(6) == 0 {
			e.mtu, l = c41GenNum(rng, "mtu", true, "zero-mtu"), "mtu:zero"
		}
		return l
	case s == 2:
		f := []string{"absent", "badstr", "badstr", "type"}[rng.IntN(4)]
		e.route = c41GenPrefix(rng, c, map[bool]string{false: "inside", true: "disjoint"}[c.unsafe], f)
		return "route:" + f
	case s == 3:
		want := []string{"inside", "covers", "disjoint"}[rng.IntN(3)]
		e.route = c41GenPrefix(rng, c, want, "")
		return "route:" + e.route.rel
	case s <= 6:
		var l string
		e.metric, l = numFault("metric")
		return l
	case s <= 9:
		if e.via.kind != "list" || len(e.via.gws) == 0 {
			e.via = c41Via{kind: "list", gws: []c41Gw{{gwPresent: true, gwBytes: c41GenGatewayAddr(rng, c)}}}
			e.via.gws[0].gw = c41Addr(e.via.gws[0].gwBytes).String()
		}
		g := &e.via.gws[rng.IntN(len(e.via.gws))]
		var l string
		g.weight, l = numFault("weight")
		return l
	case s == 10:
		switch rng.IntN(9) {
		case 0:
			e.via = c41Via{kind: "absent"}
			return "via:absent"
		case 1:
			e.via = c41Via{kind: "string", v: c41BadAddrs[rng.IntN(len(c41BadAddrs))], refuse: "malformed-via"}
			return "via:badstr"
		case 2:
			e.via = c41Via{kind: "other", v: []any{5, true, nil, 1.5, map[string]any{"gateway": "10.0.0.1"}}[rng.IntN(5)], refuse: "via-wrong-type"}
			return "via:type"
		case 3:
			e.via = c41Via{kind: "list"}
			return "via:empty-list"
		}
		if e.via.kind != "list" || len(e.via.gws) == 0 {
			e.via = c41Via{kind: "list", gws: []c41Gw{{gwPresent: true, gwBytes: c41GenGatewayAddr(rng, c), weight: c41Num{role: "weight"}}}}
			e.via.gws[0].gw = c41Addr(e.via.gws[0].gwBytes).String()
		}
		g := &e.via.gws[rng.IntN(len(e.via.gws))]
		switch rng.IntN(4) {
		case 0:
			g.rawSet, g.raw = true, []any{"10.0.0.1", 5, nil, []any{}}[rng.IntN(4)]
			return "gateway:not-a-map"
		case 1:
			g.gwPresent = false
			return "gateway:absent"
		case 2:
			g.gw, g.gwRefuse = c41BadAddrs[rng.IntN(len(c41BadAddrs))], "malformed-gateway"
			return "gateway:badstr"
		}
		g.gw, g.gwRefuse = []any{5, true, nil, 1.5, []any{"10.0.0.1"}}[rng.IntN(5)], "nonstring-gateway"
		return "gateway:type"
	default:
		switch rng.IntN(4) {
		case 0:
			v := []any{1, 0, "1", "t", "T", "TRUE", "True", "0", "f", "F", "FALSE", "False", 1.0, 0.0}[rng.IntN(14)]
			val := map[string]bool{"1": true, "t": true, "T": true, "TRUE": true, "True": true}[fmt.Sprint(v)]
			e.install = c41Install{present: true, v: v, verdict: "lenient", val: val, kind: "lenient"}
			return "install:lenient"
		case 1:
			e.install = c41Install{present: true, v: []string{"maybe", "", "yes", "no", "on", "2", "tru", " true"}[rng.IntN(8)], verdict: "refuse", kind: "badstr"}
			return "install:badstr"
		case 2:
			e.install = c41Install{present: true, v: []any{1.5, 2, -1, nil, []any{true}, map[string]any{"a": true}}[rng.IntN(6)], verdict: "refuse", kind: "type"}
			return "install:type"
		}
		b := rng.IntN(2) == 0
		e.install = c41Install{present: true, v: b, verdict: "ok", val: b, kind: "bool"}
		return "install:bool"
	}
}

func c41GenCase(rng *rand.Rand) *c41Case {
	c := &c41Case{unsafe: rng.IntN(3) != 0, networks: c41GenNetworks(rng), top: "list"}
	switch rng.IntN(40) {
	case 0:
		c.top = "absent"
		c.faults = []string{"top:absent"}
		return c
	case 1:
		c.top = "nil"
		c.faults = []string{"top:nil"}
		return c
	case 2:
		c.top, c.topV = "notlist", []any{"hi", 5, map[string]any{"route": "10.0.0.0/8"}, true, 1.5}[rng.IntN(5)]
		c.faults = []string{"top:notlist"}
		return c
	case 3:
		c.faults = []string{"top:empty-list"}
		return c
	}
	for k := 1 + rng.IntN(3); k > 0; k-- {
		c.entries = append(c.entries, c41GenEntry(rng, c))
	}
	nf := 0
	switch k := rng.IntN(20); {
	case k < 6:
	case k < 17:
		nf = 1
	case k < 19:
		nf = 2
	default:
		nf = 3
	}
	for ; nf > 0; nf-- {
		if l := c41ApplyFault(rng, c); l != "" {
			c.faults = append(c.faults, l)
		}
	}
	return c
}

// ---------------------------------------------------------------------------------------------
// tests

// c41Named builds the hand-written witnesses of the classes the design names.
func c41Named() []*c41Case {
	nets := [][2]any{{[]byte{10, 42, 0, 0}, 16}}
	base := func() *c41Case {
		c := &c41Case{unsafe: true, networks: nets, top: "list"}
		e := c41Entry{mtu: c41Num{role: "mtu"}, metric: c41Num{role: "metric"}}
		e.route = c41Prefix{present: true, v: "192.168.50.0/24", bytes: []byte{192, 168, 50, 0}, bits: 24, rel: "disjoint"}
		e.via = c41Via{kind: "string", v: "10.42.0.7", bytes: []byte{10, 42, 0, 7}}
		c.entries = []c41Entry{e}
		return c
	}
	var out []*c41Case
	a := base()
	a.entries[0].metric = c41Num{role: "metric", present: true, v: "100", repr: "decstr", n: 100, interp: true}
	a.faults = []string{"named:metric-decstr"}
	out = append(out, a)
	b := base()
	b.entries[0].via = c41Via{kind: "list", gws: []c41Gw{{gwPresent: true, gw: "10.42.0.7", gwBytes: []byte{10, 42, 0, 7},
		weight: c41Num{role: "weight", present: true, v: "5", repr: "decstr", n: 5, interp: true}}}}
	b.faults = []string{"named:weight-decstr"}
	out = append(out, b)
	d := base()
	d.entries[0].metric = c41Num{role: "metric", present: true, v: 1.5, repr: "float"}
	d.faults = []string{"named:metric-float"}
	out = append(out, d)
	f := base()
	f.entries[0].metric = c41Num{role: "metric", present: true, v: []any{100}, repr: "list"}
	f.faults = []string{"named:metric-list"}
	out = append(out, f)
	g := base()
	g.entries[0].via = c41Via{kind: "list", gws: []c41Gw{{gwPresent: true, gw: "10.42.0.7", gwBytes: []byte{10, 42, 0, 7},
		weight: c41Num{role: "weight", present: true, v: 2.5, repr: "float"}}}}
	g.faults = []string{"named:weight-float"}
	out = append(out, g)
	h := &c41Case{networks: nets, top: "list", faults: []string{"named:route-mtu-float"}}
	h.entries = []c41Entry{{mtu: c41Num{role: "mtu", present: true, v: 1300.5, repr: "float"}, metric: c41Num{role: "metric"},
		route: c41Prefix{present: true, v: "10.42.7.0/24", bytes: []byte{10, 42, 7, 0}, bits: 24, rel: "inside"}}}
	out = append(out, h)
	e := base()
	e.entries[0].metric = c41Num{role: "metric", present: true, v: 100, repr: "int", n: 100, interp: true}
	e.entries[0].mtu = c41Num{role: "mtu", present: true, v: "1300", repr: "decstr", n: 1300, interp: true}
	e.faults = []string{"named:all-valid"}
	out = append(out, e)
	return out
}

func TestVerifC41Routes(t *testing.T) {
	r := verifkit.NewReporter(t, "C41", "routes",
		"generated tun.routes / tun.unsafe_routes lists of 1-3 entries for 1-3 generated overlay networks (IPv4 and IPv6): a well-formed list (numeric fields as integers or decimal strings) with 0-3 faults applied — every numeric field as absent / out-of-range integer or string / '+n' / zero-padded / white-space padded / malformed string / float / integral float / bool / list / nil / map / uint64; route missing, malformed, of another type, inside / covering / disjoint from the networks, with host bits set; via missing / malformed / wrong type / gateway lists with bad entries; install variants; top-level value absent / nil / not a list. Every 8th case is additionally serialised to YAML and loaded through config.LoadString. distinct = distinct (networks, configuration tree) pairs plus (mode, function, expected, real outcome, fault set) classes")
	defer r.Done()
	for _, c := range c41Named() {
		c41Judge(r, c, "direct")
		c41Judge(r, c, "yaml")
	}
	n := verifkit.Scale(50_000, 5_000_000)
	for i := 0; i < n; i++ {
		if !verifkit.Mine(i) {
			continue
		}
		rng := verifkit.SubRand("C41routes", i)
		c := c41GenCase(rng)
		c41Judge(r, c, "direct")
		if i%8 == 0 {
			c41Judge(r, c, "yaml")
		}
		if r.WantSample() && i%13 == 0 {
			r.Sample(map[string]any{"function": map[bool]string{false: "parseRoutes", true: "parseUnsafeRoutes"}[c.unsafe], "networks": fmt.Sprint(c.nets()), "config": fmt.Sprintf("%#v", c.build()), "faults": c.faults, "expected": c.expect().verdict})
		}
		if r.NViolations() > 40 {
			break
		}
	}
}
