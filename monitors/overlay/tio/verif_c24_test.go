//go:build linux && !android

package tio

// C24 (reader half) — superpackets travel the real read path: virtio_net_hdr + body are written as one
// datagram into a unix socketpair that stands in for the tun fd, the real Offload.Read (readv, decodeRead,
// CheckValid, CorrectHdrLen, drain loop) returns tio.Packets borrowed from rxBuf, and SegmentSuperpacket
// splits each of them. Every segment is judged by verifpkt.SegJudge exactly as in the virtio unit. Also
// checked: a packet handed out by Read is the body that was written (apart from a finished checksum for
// NEEDS_CSUM non-GSO packets), segmenting packet k of a Read never touches packets k+1.. of the same
// Read, and non-GSO packets come out valid.

import (
	"bytes"
	"encoding/binary"
	"fmt"
	"hash/fnv"
	"os"
	"testing"

	"golang.org/x/sys/unix"

	"github.com/slackhq/nebula/overlay/tio/virtio"
	"github.com/slackhq/nebula/verifkit"
	"github.com/slackhq/nebula/verifpkt"
)

func c24tLight() bool { return os.Getenv("VERIF_C24_LIGHT") != "" }

// c24tUnit names the kit unit; sanitizer builds (VERIF_C24_LIGHT=asan) report under their own name.
func c24tUnit(name string) string {
	if v := os.Getenv("VERIF_C24_LIGHT"); v != "" {
		return name + "-" + v
	}
	return name
}

type c24tItem struct {
	sc      *verifpkt.SuperCase // nil for non-GSO items
	body    []byte              // pristine body as written
	vhdr    [virtio.Size]byte
	plain   bool // GSO_NONE
	needCs  bool // GSO_NONE with NEEDS_CSUM
	csStart int
	csOff   int
	class   string
}

func c24tReplay(it *c24tItem, extra map[string]any) map[string]any {
	m := map[string]any{"class": it.class, "virtio_net_hdr_hex": verifkit.Hex(it.vhdr[:]), "body_len": len(it.body)}
	if len(it.body) > 4096 {
		m["body_prefix_hex"] = verifkit.Hex(it.body[:4096])
		m["note"] = "payload is a function of (VERIF_SEED, group index); re-run the unit with the same seed"
	} else {
		m["body_hex"] = verifkit.Hex(it.body)
	}
	if it.sc != nil {
		m["gso_size"], m["true_header_len"], m["payload_len"], m["non_kernel_input_fields"] = it.sc.GSO, it.sc.Built.HdrLen, len(it.sc.Spec.Payload), it.sc.NonKernel
	}
	for k, v := range extra {
		m[k] = v
	}
	return m
}

func TestVerifC24Reader(t *testing.T) {
	r := verifkit.NewReporter(t, "C24", c24tUnit("tio-reader"),
		"case = one packet (TSO/USO superpacket from the shared generator, or a non-GSO packet with/without NEEDS_CSUM) written with its virtio_net_hdr into a datagram socketpair and returned by the real Offload.Read, then split by SegmentSuperpacket; groups of 1..6 packets per Read; distinct = distinct (geometry class, gso, payload length, header length, position in the Read)")
	defer r.Done()

	sp, err := unix.Socketpair(unix.AF_UNIX, unix.SOCK_DGRAM|unix.SOCK_CLOEXEC, 0)
	if err != nil {
		r.Inconclusive("cannot create socketpair standing in for the tun fd: " + err.Error())
		return
	}
	defer unix.Close(sp[0])
	efd, err := unix.Eventfd(0, unix.EFD_CLOEXEC|unix.EFD_NONBLOCK)
	if err != nil {
		r.Inconclusive("eventfd: " + err.Error())
		return
	}
	defer unix.Close(efd)
	_ = unix.SetsockoptInt(sp[0], unix.SOL_SOCKET, unix.SO_SNDBUFFORCE, 4<<20)
	_ = unix.SetsockoptInt(sp[1], unix.SOL_SOCKET, unix.SO_RCVBUFFORCE, 4<<20)
	off, err := newOffload(sp[1], efd, true, nil)
	if err != nil {
		r.Inconclusive("newOffload: " + err.Error())
		return
	}
	defer off.Close()

	groups := verifkit.Scale(12_000, 800_000)
	if c24tLight() {
		groups = verifkit.Scale(1_500, 40_000)
	}
	wbuf := make([]byte, 0, 70000)
	for g := 0; g < groups; g++ {
		if !verifkit.Mine(g) {
			continue
		}
		rng := verifkit.SubRand("C24reader", g)
		k := 1 + rng.IntN(6)
		var items []*c24tItem
		budget := 160 << 10
		for len(items) < k {
			it := &c24tItem{}
			if rng.IntN(5) == 0 {
				// non-GSO packet: a single segment from the generator's header shapes
				sc := verifpkt.GenSuper(rng, 1)
				sc.Spec.TotalLenDelta, sc.Spec.UDPLenDelta, sc.Spec.BadIPCsum = 0, 0, false
				it.plain = true
				it.needCs = rng.IntN(2) == 0
				if it.needCs {
					sc.Spec.L4Csum = 3
				} else {
					sc.Spec.L4Csum = 0
				}
				b := sc.Spec.Bytes()
				if len(b.Pkt) > maxSuperpacketLen {
					r.Count("skipped_over_65535", 1)
					continue
				}
				it.body = b.Pkt
				it.csStart, it.csOff = b.L4Off, int(sc.CsumOffset)
				fl := uint8(0)
				if it.needCs {
					fl = unix.VIRTIO_NET_HDR_F_NEEDS_CSUM
				} else if rng.IntN(2) == 0 {
					fl = unix.VIRTIO_NET_HDR_F_DATA_VALID
				}
				virtio.EncodeHeader(it.vhdr[:], fl, unix.VIRTIO_NET_HDR_GSO_NONE, uint16(b.HdrLen), 0, uint16(b.L4Off), sc.CsumOffset)
				it.class = fmt.Sprintf("plain needs_csum=%v %s", it.needCs, sc.Class)
			} else {
				maxSegs := 80
				if g%40 == 0 {
					maxSegs = 70000
				}
				sc := verifpkt.GenSuper(rng, maxSegs)
				if len(sc.Built.Pkt) > maxSuperpacketLen {
					r.Count("skipped_over_65535", 1)
					continue
				}
				it.sc = sc
				it.body = sc.Built.Pkt
				virtio.EncodeHeader(it.vhdr[:], unix.VIRTIO_NET_HDR_F_NEEDS_CSUM, sc.GSOType, sc.VHdrLen, uint16(sc.GSO), sc.CsumStart, sc.CsumOffset)
				it.class = sc.Class
			}
			if budget -= len(it.body) + 1024; budget < 0 && len(items) > 0 {
				break
			}
			items = append(items, it)
		}
		r.Pre("C24 reader group=%d items=%d first=%v", g, len(items), c24tReplay(items[0], nil))
		for _, it := range items {
			wbuf = append(append(wbuf[:0], it.vhdr[:]...), it.body...)
			if _, err := unix.Write(sp[0], wbuf); err != nil {
				r.Inconclusive(fmt.Sprintf("write to the stand-in tun fd failed: %v (group %d)", err, g))
				return
			}
		}
		// read everything back through the real reader
		next := 0
	reads:
		for next < len(items) {
			pfd := []unix.PollFd{{Fd: int32(sp[1]), Events: unix.POLLIN}}
			if n, _ := unix.Poll(pfd, 0); n == 0 {
				// nothing left to read although packets are outstanding: the reader dropped them
				for ; next < len(items); next++ {
					r.Violation("C24/packet-dropped-by-reader", "a well-formed packet written to the fd was never returned by Read", c24tReplay(items[next], map[string]any{"group": g}))
				}
				break
			}
			var pkts []Packet
			var rerr error
			if r.Guard("C24/panic-in-read", func() any { return c24tReplay(items[next], map[string]any{"group": g}) }, func() { pkts, rerr = off.Read() }) {
				return
			}
			if rerr != nil {
				r.Violation("C24/read-error", "Offload.Read failed on well-formed input: "+rerr.Error(), c24tReplay(items[next], map[string]any{"group": g}))
				return
			}
			r.Count("reads", 1)
			// snapshot what Read handed out, then segment in order
			snaps := make([][]byte, len(pkts))
			for i, p := range pkts {
				snaps[i] = bytes.Clone(p.Bytes)
			}
			for i, p := range pkts {
				for next < len(items) && !c24tSame(items[next], snaps[i]) {
					r.Violation("C24/packet-dropped-by-reader", "a well-formed packet written to the fd was never returned by Read", c24tReplay(items[next], map[string]any{"group": g}))
					next++
				}
				if next == len(items) {
					r.Violation("C24/read-unknown-packet", "Read returned a packet that matches nothing that was written", map[string]any{"group": g, "got_hex": verifkit.Hex(snaps[i][:min(len(snaps[i]), 2048)])})
					break reads
				}
				it := items[next]
				next++
				c24tJudge(r, it, p, snaps[i], g, i)
				// later packets of this Read must be untouched
				for jn := i + 1; jn < len(pkts); jn++ {
					if !bytes.Equal(pkts[jn].Bytes, snaps[jn]) {
						r.Violation("C24/segmenting-clobbers-next-packet", fmt.Sprintf("segmenting packet %d of a Read modified packet %d of the same Read", i, jn), c24tReplay(it, map[string]any{"group": g}))
						snaps[jn] = bytes.Clone(pkts[jn].Bytes)
					}
				}
			}
		}
	}
}

// c24tSame reports whether snap is the body of it (a NEEDS_CSUM non-GSO packet may differ in its checksum field).
func c24tSame(it *c24tItem, snap []byte) bool {
	if len(snap) != len(it.body) {
		return false
	}
	if !it.needCs {
		return bytes.Equal(snap, it.body)
	}
	at := it.csStart + it.csOff
	return bytes.Equal(snap[:at], it.body[:at]) && bytes.Equal(snap[at+2:], it.body[at+2:])
}

func c24tHash(parts ...any) uint64 {
	h := fnv.New64a()
	fmt.Fprint(h, parts...)
	return h.Sum64()
}

// c24tJudge checks one Packet returned by Read against the item that was written.
func c24tJudge(r *verifkit.Reporter, it *c24tItem, p Packet, snap []byte, g, pos int) {
	r.Eval(1)
	r.DistinctClass(it.class)
	if it.plain {
		r.DistinctU64(c24tHash(it.class, len(it.body), pos))
		if p.GSO.IsSuperpacket() {
			r.Violation("C24/plain-packet-marked-gso", "a GSO_NONE packet came back with GSO metadata", c24tReplay(it, map[string]any{"group": g}))
			return
		}
		n := 0
		err := SegmentSuperpacket(p, func(seg []byte) error {
			n++
			want := it.body
			if it.needCs {
				// everything but the checksum field must be as written; the checksum must now verify
				want = bytes.Clone(it.body)
				at := it.csStart + it.csOff
				copy(want[at:at+2], seg[at:at+2])
				d, derr := verifpkt.Decode(seg)
				if derr != nil {
					r.Violation("C24/needs-csum-packet-undecodable", derr.Error(), c24tReplay(it, map[string]any{"group": g}))
					return nil
				}
				for _, pr := range verifpkt.ChecksumProblems(seg, d) {
					r.Violation("C24/needs-csum-not-finished", "non-GSO NEEDS_CSUM packet: "+pr, c24tReplay(it, map[string]any{"group": g, "got_hex": verifkit.Hex(seg[:min(len(seg), 2048)])}))
				}
				if d.IsUDP && binary.BigEndian.Uint16(seg[at:at+2]) == 0 {
					r.Violation("C24/needs-csum-udp-zero", "finished UDP checksum is transmitted as zero (means: no checksum)", c24tReplay(it, map[string]any{"group": g}))
				}
			}
			if !bytes.Equal(seg, want) {
				r.Violation("C24/plain-packet-altered", "a non-GSO packet was altered on the way through Read/SegmentSuperpacket", c24tReplay(it, map[string]any{"group": g, "got_hex": verifkit.Hex(seg[:min(len(seg), 2048)])}))
			}
			return nil
		})
		if err != nil || n != 1 {
			r.Violation("C24/plain-packet-lost", fmt.Sprintf("non-GSO packet: callback ran %d times, err=%v", n, err), c24tReplay(it, map[string]any{"group": g}))
		}
		return
	}
	sc := it.sc
	suffix := ""
	if sc.NonKernel {
		suffix = "-nonkernel-input"
	}
	r.DistinctU64(c24tHash(sc.Class, sc.GSO, len(sc.Spec.Payload), sc.Built.HdrLen, pos))
	if !bytes.Equal(snap, it.body) {
		r.Violation("C24/read-altered-superpacket", "the superpacket returned by Read differs from the bytes written", c24tReplay(it, map[string]any{"group": g}))
		return
	}
	wantProto := GSOProtoTCP
	if sc.Spec.Proto == verifpkt.ProtoUDP {
		wantProto = GSOProtoUDP
	}
	if int(p.GSO.Size) != sc.GSO || int(p.GSO.HdrLen) != sc.Built.HdrLen || int(p.GSO.CsumStart) != sc.Built.L4Off || p.GSO.Proto != wantProto {
		r.Violation("C24/gso-info"+suffix, fmt.Sprintf("GSOInfo %+v, want size=%d hdrlen=%d csumstart=%d proto=%d", p.GSO, sc.GSO, sc.Built.HdrLen, sc.Built.L4Off, wantProto), c24tReplay(it, map[string]any{"group": g}))
		return
	}
	j, err := verifpkt.NewSegJudge(it.body, sc.Built.HdrLen, sc.GSO)
	if err != nil {
		r.Inconclusive("monitor bug: generated superpacket header does not decode: " + err.Error())
		return
	}
	var serr error
	if r.Guard("C24/panic"+suffix, func() any { return c24tReplay(it, map[string]any{"group": g}) }, func() {
		serr = SegmentSuperpacket(p, func(seg []byte) error { j.Segment(seg); return nil })
	}) {
		return
	}
	if serr != nil {
		r.Violation("C24/valid-superpacket-rejected"+suffix, "SegmentSuperpacket returns an error for a well-formed superpacket: "+serr.Error(), c24tReplay(it, map[string]any{"group": g}))
		return
	}
	r.Count("segments", j.Segs)
	for _, pr := range j.End() {
		r.Violation("C24/"+pr.Key+suffix, pr.What+" ["+sc.Class+"]", c24tReplay(it, map[string]any{"group": g, "problem": pr.What}))
	}
}
