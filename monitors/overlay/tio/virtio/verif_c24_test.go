//go:build linux && !android

package virtio

// C24 — splitting a TCP/UDP offload superpacket yields valid original segments.
//
// Every case is a superpacket as the tun hands it over (virtio_net_hdr + IP packet). It goes through the
// same three steps the reader uses — CheckValid, CorrectHdrLen, SegmentTCP/SegmentUDP — and every segment
// given to the callback is judged on the spot (the segmenter reuses its input) by verifpkt.SegJudge:
// decoded with gopacket, IP and transport checksums verified with plain RFC 1071 arithmetic, lengths,
// payload concatenation, payload <= gso, TCP sequence advance, CWR first only, FIN/PSH last only,
// IPv4 ID = first + i, all other header bytes untouched. The buffer sits between canaries with cap == len.

import (
	"bytes"
	"fmt"
	"hash/fnv"
	"math/rand/v2"
	"os"
	"testing"
	"unsafe"

	"golang.org/x/sys/unix"

	"github.com/slackhq/nebula/verifkit"
	"github.com/slackhq/nebula/verifpkt"
)

const c24Canary = 64

func c24Light() bool { return os.Getenv("VERIF_C24_LIGHT") != "" }

// c24Unit names the kit unit; sanitizer builds (VERIF_C24_LIGHT=asan) report under their own name.
func c24Unit(name string) string {
	if v := os.Getenv("VERIF_C24_LIGHT"); v != "" {
		return name + "-" + v
	}
	return name
}

func c24Hash(parts ...any) uint64 {
	h := fnv.New64a()
	fmt.Fprint(h, parts...)
	return h.Sum64()
}

func c24Replay(c *verifpkt.SuperCase, extra map[string]any) map[string]any {
	m := map[string]any{
		"class": c.Class, "gso_size": c.GSO, "gso_type": c.GSOType, "virtio_hdr_len": c.VHdrLen, "csum_start": c.CsumStart,
		"csum_offset": c.CsumOffset, "true_header_len": c.Built.HdrLen, "payload_len": len(c.Spec.Payload), "non_kernel_input_fields": c.NonKernel,
		"tcp_flags": c.Spec.Flags, "seq": c.Spec.Seq, "ipv4_id": c.Spec.ID,
	}
	p := c.Built.Pkt
	if len(p) > 4096 {
		m["superpacket_prefix_hex"] = verifkit.Hex(p[:4096])
		m["superpacket_len"] = len(p)
		m["note"] = "payload is a function of (VERIF_SEED, case index); re-run the unit with the same seed"
	} else {
		m["superpacket_hex"] = verifkit.Hex(p)
	}
	for k, v := range extra {
		m[k] = v
	}
	return m
}

// c24RunCase drives one superpacket through CheckValid / CorrectHdrLen / Segment* and judges the result.
func c24RunCase(r *verifkit.Reporter, c *verifpkt.SuperCase, idx int) {
	n := len(c.Built.Pkt)
	buf := make([]byte, n+2*c24Canary)
	for i := range buf {
		buf[i] = 0xa5
	}
	work := buf[c24Canary : c24Canary+n : c24Canary+n]
	copy(work, c.Built.Pkt)
	orig := c.Built.Pkt // never handed to the code under test
	suffix := ""
	if c.NonKernel {
		suffix = "-nonkernel-input"
	}
	r.Eval(1)
	r.DistinctClass(c.Class)
	r.DistinctU64(c24Hash(c.Class, c.GSO, len(c.Spec.Payload), c.Built.HdrLen, c.Spec.Flags))

	hdr := NewHeader(unix.VIRTIO_NET_HDR_F_NEEDS_CSUM, c.GSOType, c.VHdrLen, uint16(c.GSO), c.CsumStart, c.CsumOffset)
	if err := CheckValid(work, hdr); err != nil {
		r.Violation("C24/valid-superpacket-rejected"+suffix, "CheckValid refuses a well-formed superpacket: "+err.Error(), c24Replay(c, map[string]any{"case": idx}))
		return
	}
	if err := CorrectHdrLen(work, &hdr); err != nil {
		r.Violation("C24/valid-superpacket-rejected"+suffix, "CorrectHdrLen refuses a well-formed superpacket: "+err.Error(), c24Replay(c, map[string]any{"case": idx}))
		return
	}
	if int(hdr.HdrLen) != c.Built.HdrLen {
		r.Violation("C24/header-length"+suffix, fmt.Sprintf("CorrectHdrLen says %d, the L3+L4 header is %d bytes", hdr.HdrLen, c.Built.HdrLen), c24Replay(c, map[string]any{"case": idx}))
		return
	}
	j, err := verifpkt.NewSegJudge(orig, c.Built.HdrLen, c.GSO)
	if err != nil {
		r.Inconclusive("monitor bug: generated superpacket header does not decode: " + err.Error())
		return
	}
	outside := false
	yield := func(seg []byte) error {
		if len(seg) > 0 && (len(seg) > n || !c24Within(seg, work)) {
			outside = true
		}
		j.Segment(seg)
		return nil
	}
	var serr error
	panicked := r.Guard("C24/panic"+suffix, func() any { return c24Replay(c, map[string]any{"case": idx}) }, func() {
		if c.Spec.Proto == verifpkt.ProtoTCP {
			serr = SegmentTCP(work, hdr.HdrLen, hdr.CsumStart, hdr.GSOSize, yield)
		} else {
			serr = SegmentUDP(work, hdr.HdrLen, hdr.CsumStart, hdr.GSOSize, yield)
		}
	})
	if panicked {
		return
	}
	if serr != nil {
		r.Violation("C24/valid-superpacket-rejected"+suffix, "segmenter returns an error for a well-formed superpacket: "+serr.Error(), c24Replay(c, map[string]any{"case": idx}))
		return
	}
	r.Count("segments", j.Segs)
	for _, p := range j.End() {
		r.Violation("C24/"+p.Key+suffix, p.What+" ["+c.Class+"]", c24Replay(c, map[string]any{"case": idx, "problem": p.What}))
	}
	if outside {
		r.Violation("C24/segment-outside-buffer", "a yielded segment is not a sub-slice of the superpacket buffer", c24Replay(c, map[string]any{"case": idx}))
	}
	for i := 0; i < c24Canary; i++ {
		if buf[i] != 0xa5 || buf[c24Canary+n+i] != 0xa5 {
			r.Violation("C24/write-outside-buffer", "bytes outside the superpacket buffer were modified", c24Replay(c, map[string]any{"case": idx}))
			break
		}
	}
}

// c24Within reports whether seg lies inside the memory of work.
func c24Within(seg, work []byte) bool {
	if len(work) == 0 || len(seg) == 0 {
		return len(seg) == 0
	}
	ws := uintptr(unsafe.Pointer(unsafe.SliceData(work)))
	ss := uintptr(unsafe.Pointer(unsafe.SliceData(seg)))
	return ss >= ws && ss+uintptr(len(seg)) <= ws+uintptr(len(work))
}

func TestVerifC24Sweep(t *testing.T) {
	r := verifkit.NewReporter(t, "C24", c24Unit("virtio-sweep"),
		"case = one superpacket (family, IPv4 options / IPv6 extension headers, TCP options or UDP, segment size, payload length, flags, ID/seq near wrap, checksum-field contents) through CheckValid+CorrectHdrLen+SegmentTCP/UDP; distinct = distinct (geometry class, gso, payload length, header length, flags)")
	defer r.Done()
	// 1. exhaustive block: payload 0..130 x gso 1..70 for eight header shapes
	type shape struct {
		v6     bool
		proto  uint8
		ipOpt  int
		tcpOpt int
		ext    int
	}
	shapes := []shape{
		{false, verifpkt.ProtoTCP, 0, 0, 0}, {false, verifpkt.ProtoTCP, 40, 40, 0}, {true, verifpkt.ProtoTCP, 0, 0, 0}, {true, verifpkt.ProtoTCP, 0, 12, 24},
		{false, verifpkt.ProtoUDP, 0, 0, 0}, {false, verifpkt.ProtoUDP, 40, 0, 0}, {true, verifpkt.ProtoUDP, 0, 0, 0}, {true, verifpkt.ProtoUDP, 0, 0, 64},
	}
	maxPay, maxGSO := 130, 70
	if c24Light() {
		maxPay, maxGSO = 45, 24
	}
	ci := 0
	for si, sh := range shapes {
		for pay := 0; pay <= maxPay; pay++ {
			for gso := 1; gso <= maxGSO; gso++ {
				idx := ci
				ci++
				if !verifkit.Mine(idx) {
					continue
				}
				rng := verifkit.SubRand("C24exh", idx)
				c := &verifpkt.SuperCase{GSO: gso}
				s := &c.Spec
				s.V6, s.Proto = sh.v6, sh.proto
				verifpkt.RandAddrs(s, rng)
				s.TTL, s.TOS = 64, byte(rng.Uint32())
				s.ID = uint16(0xffff - rng.IntN(3))
				s.DF = pay%2 == 0
				s.SPort, s.DPort = uint16(rng.Uint32()), uint16(rng.Uint32())
				s.Seq = uint32(0) - uint32(rng.IntN(pay+2))
				s.AckNo, s.Window = rng.Uint32(), uint16(rng.Uint32())
				s.Flags = []uint8{verifpkt.ACK, verifpkt.ACK | verifpkt.PSH, verifpkt.ACK | verifpkt.FIN | verifpkt.PSH | verifpkt.CWR, 0xff}[(pay+gso)%4]
				if sh.ipOpt > 0 {
					s.IPOptions = verifpkt.IPv4Options(sh.ipOpt, rng)
				}
				if sh.tcpOpt > 0 {
					s.TCPOptions = verifpkt.TCPOptions(sh.tcpOpt, rng)
				}
				if sh.ext > 0 {
					s.Exts = verifpkt.IPv6Exts(sh.ext, rng)
				}
				s.Payload = make([]byte, pay)
				verifpkt.FillPayload(s.Payload, rng)
				s.L4Csum = 3
				c.Built = s.Bytes()
				c.CsumStart = uint16(c.Built.L4Off)
				c.VHdrLen = uint16(c.Built.HdrLen)
				switch {
				case s.Proto == verifpkt.ProtoUDP:
					c.GSOType, c.CsumOffset = unix.VIRTIO_NET_HDR_GSO_UDP_L4, 6
				case s.V6:
					c.GSOType, c.CsumOffset = unix.VIRTIO_NET_HDR_GSO_TCPV6, 16
				default:
					c.GSOType, c.CsumOffset = unix.VIRTIO_NET_HDR_GSO_TCPV4, 16
				}
				if s.Proto == verifpkt.ProtoTCP && s.Flags&verifpkt.CWR != 0 {
					c.GSOType |= unix.VIRTIO_NET_HDR_GSO_ECN
				}
				c.Class = fmt.Sprintf("exhaustive shape=%d hdr=%d", si, c.Built.HdrLen)
				r.Pre("C24 exhaustive shape=%d pay=%d gso=%d idx=%d", si, pay, gso, idx)
				c24RunCase(r, c, idx)
			}
		}
	}
	r.Exhaustive(fmt.Sprintf("payload length 0..%d x segment size 1..%d for 8 header shapes (TCP/UDP x IPv4/IPv6 x minimal/maximal options or extension headers)", maxPay, maxGSO))

	// 2. PRNG geometry sweep
	n := verifkit.Scale(40_000, 3_000_000)
	if c24Light() {
		n = verifkit.Scale(4_000, 150_000)
	}
	for i := 0; i < n; i++ {
		if !verifkit.Mine(i) {
			continue
		}
		rng := verifkit.SubRand("C24sweep", i)
		maxSegs := 80
		if i%50 == 0 {
			maxSegs = 70000 // the occasional gso=1..3 superpacket with tens of thousands of segments
		}
		c := verifpkt.GenSuper(rng, maxSegs)
		r.Pre("C24 sweep case=%d class=%s gso=%d pay=%d hdr=%d", i, c.Class, c.GSO, len(c.Spec.Payload), c.Built.HdrLen)
		c24RunCase(r, c, i)
		if r.WantSample() {
			r.Sample(map[string]any{"case": i, "class": c.Class, "gso": c.GSO, "payload_len": len(c.Spec.Payload), "header_len": c.Built.HdrLen, "header_hex": verifkit.Hex(c.Built.Pkt[:c.Built.HdrLen])})
		}
	}
}

// TestVerifC24Hostile feeds virtio headers the kernel would not write. The statement of C24 is about
// superpackets from the tun, so the only thing judged here is memory safety of the three functions:
// no panic, every yielded segment inside the buffer, nothing written outside it.
func TestVerifC24Hostile(t *testing.T) {
	r := verifkit.NewReporter(t, "C24", c24Unit("virtio-hostile"),
		"case = a well-formed or random IP packet with a PRNG virtio_net_hdr (flags, gso type, hdr_len, gso_size, csum_start, csum_offset from boundary tables); judged only for panics and writes/segments outside the buffer; distinct = distinct (gso type, accepted/rejected stage, csum_start class, gso class)")
	defer r.Done()
	n := verifkit.Scale(60_000, 2_000_000)
	if c24Light() {
		n = verifkit.Scale(6_000, 100_000)
	}
	pickOff := func(rng *rand.Rand, l int) uint16 {
		switch rng.IntN(8) {
		case 0:
			return 0
		case 1:
			return uint16(l)
		case 2:
			return uint16(max(0, l-1-rng.IntN(24)))
		case 3:
			return uint16(0xffff - rng.IntN(24))
		case 4:
			return []uint16{20, 40, 60, 80, 100, 120, 121}[rng.IntN(7)]
		}
		return uint16(rng.IntN(160))
	}
	for i := 0; i < n; i++ {
		if !verifkit.Mine(i) {
			continue
		}
		rng := verifkit.SubRand("C24hostile", i)
		c := verifpkt.GenSuper(rng, 40)
		pkt := c.Built.Pkt
		switch rng.IntN(5) {
		case 0:
			pkt = pkt[:rng.IntN(len(pkt)+1)]
		case 1:
			pkt = make([]byte, rng.IntN(200))
			verifpkt.FillPayload(pkt, rng)
			if len(pkt) > 0 {
				pkt[0] = []byte{0x45, 0x4f, 0x60, 0x46}[rng.IntN(4)]
			}
		}
		nn := len(pkt)
		buf := make([]byte, nn+2*c24Canary)
		for k := range buf {
			buf[k] = 0xa5
		}
		work := buf[c24Canary : c24Canary+nn : c24Canary+nn]
		copy(work, pkt)
		gt := []uint8{c.GSOType, 0, 1, 3, 4, 5, 0x81, 0x85, 2, 0x80, byte(rng.Uint32())}[rng.IntN(11)]
		fl := []uint8{1, 0, 2, 4, 5, byte(rng.Uint32())}[rng.IntN(6)]
		gs := []uint16{uint16(c.GSO), 0, 1, 0xffff, uint16(rng.Uint32())}[rng.IntN(5)]
		hdr := NewHeader(fl, gt, pickOff(rng, nn), gs, pickOff(rng, nn), []uint16{16, 6, 0, 0xffff, uint16(rng.IntN(80))}[rng.IntN(5)])
		if rng.IntN(3) == 0 {
			hdr.CsumStart = c.CsumStart
		}
		rec := func() any {
			return map[string]any{"case": i, "packet_hex": verifkit.Hex(pkt[:min(len(pkt), 2048)]), "packet_len": len(pkt), "flags": hdr.Flags, "gso_type": gt,
				"hdr_len": hdr.HdrLen, "gso_size": hdr.GSOSize, "csum_start": hdr.CsumStart, "csum_offset": hdr.CsumOffset}
		}
		r.Pre("C24 hostile case=%d %v", i, rec())
		stage := "checkvalid"
		outside := false
		r.Eval(1)
		r.Guard("C24/panic-hostile-virtio-header", rec, func() {
			if err := CheckValid(work, hdr); err != nil {
				return
			}
			stage = "correcthdrlen"
			if hdr.GSOType() == unix.VIRTIO_NET_HDR_GSO_NONE {
				stage = "finishchecksum"
				if hdr.Flags&unix.VIRTIO_NET_HDR_F_NEEDS_CSUM != 0 {
					_ = FinishChecksum(work, hdr)
				}
				return
			}
			if err := CorrectHdrLen(work, &hdr); err != nil {
				return
			}
			stage = "segment"
			yield := func(seg []byte) error {
				if len(seg) > 0 && (len(seg) > nn || !c24Within(seg, work)) {
					outside = true
				}
				return nil
			}
			var err error
			switch hdr.GSOType() {
			case unix.VIRTIO_NET_HDR_GSO_TCPV4, unix.VIRTIO_NET_HDR_GSO_TCPV6:
				err = SegmentTCP(work, hdr.HdrLen, hdr.CsumStart, hdr.GSOSize, yield)
			case unix.VIRTIO_NET_HDR_GSO_UDP_L4:
				err = SegmentUDP(work, hdr.HdrLen, hdr.CsumStart, hdr.GSOSize, yield)
			default:
				stage = "unsupported-type"
				return
			}
			if err == nil {
				stage = "segmented"
			}
		})
		cs := "other"
		switch {
		case hdr.CsumStart == 0:
			cs = "zero"
		case int(hdr.CsumStart) >= nn:
			cs = "beyond"
		case hdr.CsumStart == c.CsumStart:
			cs = "true"
		}
		ty := fmt.Sprintf("%#x", hdr.GSOType())
		if t := hdr.GSOType(); t > 5 {
			ty = "unknown"
		}
		r.DistinctClass(fmt.Sprintf("type=%s ecn=%v stage=%s csum_start=%s gso0=%v", ty, hdr.HasECNFlag(), stage, cs, hdr.GSOSize == 0))
		if outside {
			r.Violation("C24/segment-outside-buffer-hostile-virtio-header", "a yielded segment is not a sub-slice of the input buffer", rec())
		}
		if !bytes.Equal(buf[:c24Canary], bytes.Repeat([]byte{0xa5}, c24Canary)) || !bytes.Equal(buf[c24Canary+nn:], bytes.Repeat([]byte{0xa5}, c24Canary)) {
			r.Violation("C24/write-outside-buffer-hostile-virtio-header", "bytes outside the input buffer were modified", rec())
		}
	}
}
