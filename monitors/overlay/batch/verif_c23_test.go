package batch

// C23 — receive coalescing is transparent to the tun device.
//
// A recording tio.GSOWriter captures every Write / WriteGSO the real MultiCoalescer issues for a batch of
// generated packets. A reference segmenter written from the virtio-net / Linux GSO rules
// (verifpkt.RefSegment) expands each WriteGSO into the packets the kernel would make of it. The oracle
// (from the statement):
//   - multiset: every packet of the batch comes out exactly once — byte-identical when it went through
//     plain Write, equal after normalisation (verifpkt.Normalise: lengths, checksums and the IPv4 ID of
//     DF packets removed; payload bounded by the transport length) when it came out of a superpacket;
//     nothing else comes out;
//   - order: per (epoch, flow) the emission order is the (epoch, counter) order, except that a pure TCP
//     ACK may be emitted after data that was transmitted later;
//   - geometry of every WriteGSO: fragments of equal size except a shorter last one, none empty, at most
//     64 segments and 65535 bytes, plain 20/40 byte IP header, transport header of the right size, IP
//     lengths / IPv4 header checksum / UDP length describing the whole superpacket, L4 checksum field =
//     folded pseudo-header sum (not inverted), protocol enabled in the writer's capabilities.

import (
	"bytes"
	"encoding/binary"
	"fmt"
	"hash/fnv"
	"log/slog"
	"math/rand/v2"
	"sort"
	"strings"
	"testing"

	"github.com/slackhq/nebula/firewall"
	"github.com/slackhq/nebula/iputil"
	"github.com/slackhq/nebula/overlay/tio"
	"github.com/slackhq/nebula/verifkit"
	"github.com/slackhq/nebula/verifpkt"
)

// ---------------------------------------------------------------------------------------------
// recording writer

type c23Out struct {
	gso   bool
	pkt   []byte // Write
	hdr   []byte // WriteGSO
	thdr  []byte
	pays  [][]byte
	proto tio.GSOProto
}

type c23Writer struct {
	caps tio.Capabilities
	out  []c23Out
}

func (w *c23Writer) Write(p []byte) (int, error) {
	w.out = append(w.out, c23Out{pkt: bytes.Clone(p)})
	return len(p), nil
}

func (w *c23Writer) Capabilities() tio.Capabilities { return w.caps }

func (w *c23Writer) WriteGSO(hdr, thdr []byte, pays [][]byte, proto tio.GSOProto) error {
	o := c23Out{gso: true, hdr: bytes.Clone(hdr), thdr: bytes.Clone(thdr), proto: proto}
	for _, p := range pays {
		o.pays = append(o.pays, bytes.Clone(p))
	}
	w.out = append(w.out, o)
	return nil
}

// ---------------------------------------------------------------------------------------------
// what the receive path derives for each packet before Commit (outside.go newPacket): L4 protocol,
// L4 offset, "any fragmentation". Packets newPacket refuses never reach the coalescer.

func c23Parse(pkt []byte) (proto uint8, ipHdrLen int, fragAny bool, ok bool) {
	if len(pkt) < 1 {
		return
	}
	switch pkt[0] >> 4 {
	case 4:
		if len(pkt) < 20 {
			return
		}
		ihl := int(pkt[0]&0x0f) * 4
		if ihl < 20 {
			return
		}
		ff := binary.BigEndian.Uint16(pkt[6:8])
		frag := ff&0x1fff != 0
		proto = pkt[9]
		min := ihl
		if !frag {
			min += 4
			if proto == 1 {
				min += 2
			}
		}
		if len(pkt) < min {
			return
		}
		return proto, ihl, ff&0x3fff != 0, true
	case 6:
		p, off, isFrag, anyFrag, err := iputil.IPv6FindUpperProtocol(pkt)
		if err != nil {
			return
		}
		if !isFrag {
			switch p {
			case 58:
				if len(pkt) < off+4 {
					return
				}
				if (pkt[off] == 128 || pkt[off] == 129) && len(pkt) < off+6 {
					return
				}
			case 6, 17:
				if len(pkt) < off+4 {
					return
				}
			}
		}
		return p, off, anyFrag, true
	}
	return
}

// ---------------------------------------------------------------------------------------------
// generator

type c23In struct {
	pkt  []byte // pristine
	key  SortKey
	rank int // index in transmission order == (epoch, counter) order
	norm verifpkt.Norm
	desc string
	// parse byproducts handed to Commit
	proto    uint8
	ipHdrLen int
	fragAny  bool
	// filled by the oracle
	matched  bool
	outIdx   int
	segIdx   int
	viaGSO   bool
	flowPrev int // previous input of the same flow in transmission order (-1: none)
}

type c23Flow struct {
	t      verifpkt.Spec // template: addresses, ports, tos, ttl, DF, flow label, window, ack, options
	mss    int
	seq    uint32
	idMode int // 0 sequential, 1 random, 2 constant, 3 sequential with occasional skips
	id     uint16
	noise  int // per-mille probability scale of anomalies
	ece    bool
	sent   int
	// byte-cap runs: no spontaneous events, and one packet (number tailAt, 1-based) carries tailLen payload bytes
	plain   bool
	tailAt  int
	tailLen int
}

var c23MSS = []int{1, 2, 7, 100, 536, 1200, 1400, 1448, 1460, 4000, 8948}

func c23NewFlow(rng *rand.Rand) *c23Flow {
	f := &c23Flow{}
	t := &f.t
	t.V6 = rng.IntN(2) == 0
	switch k := rng.IntN(20); {
	case k < 12:
		t.Proto = verifpkt.ProtoTCP
	case k < 18:
		t.Proto = verifpkt.ProtoUDP
	case k == 18:
		t.Proto = 1
		if t.V6 {
			t.Proto = 58
		}
	default:
		t.Proto = []uint8{47, 50, 132, 99}[rng.IntN(4)]
	}
	// a small address/port pool makes distinct flows share addresses or ports (and sometimes everything)
	pool := byte(rng.IntN(3))
	for i := range t.Src {
		t.Src[i] = 0x20 + pool
		t.Dst[i] = 0x30 + pool
	}
	t.Src[3], t.Dst[3] = byte(rng.IntN(3)), byte(rng.IntN(3))
	t.Src[15], t.Dst[15] = byte(rng.IntN(3)), byte(rng.IntN(3))
	t.SPort, t.DPort = uint16(1000+rng.IntN(3)), uint16(2000+rng.IntN(3))
	t.TOS = []uint8{0, 0, 0, 2, 1, 3, 0xb8, 0x28}[rng.IntN(8)]
	t.TTL = 64
	t.DF = rng.IntN(4) != 0
	t.FlowLabel = uint32(rng.IntN(4)) * 0x11111
	t.Window = uint16(rng.Uint32())
	t.AckNo = rng.Uint32()
	t.Flags = verifpkt.ACK
	if rng.IntN(3) == 0 {
		t.TCPOptions = verifpkt.TCPOptions([]int{12, 12, 4, 20, 40}[rng.IntN(5)], rng)
	}
	f.mss = c23MSS[rng.IntN(len(c23MSS))]
	if rng.IntN(6) == 0 {
		f.mss = 1 + rng.IntN(3000)
	}
	switch rng.IntN(5) {
	case 0:
		f.seq = uint32(0) - uint32(rng.IntN(20*f.mss+2))
	case 1:
		f.seq = 0
	default:
		f.seq = rng.Uint32()
	}
	f.idMode = []int{0, 0, 0, 1, 2, 3}[rng.IntN(6)]
	f.id = []uint16{0, 0xfff0, 0xffff, uint16(rng.Uint32()), uint16(rng.Uint32())}[rng.IntN(5)]
	f.noise = []int{0, 0, 10, 30, 100, 300}[rng.IntN(6)]
	f.ece = rng.IntN(8) == 0
	return f
}

// next renders the flow's next packet and a short description of what is special about it.
func (f *c23Flow) next(rng *rand.Rand) ([]byte, string) {
	s := f.t // copy
	hit := func(permille int) bool { return rng.IntN(1000) < permille*f.noise/100 }
	var what []string
	note := func(w string) { what = append(what, w) }
	f.sent++
	// IPv4 ID pattern
	if !s.V6 {
		switch f.idMode {
		case 0:
			f.id++
		case 1:
			f.id = uint16(rng.Uint32())
		case 3:
			f.id++
			if rng.IntN(8) == 0 {
				f.id += uint16(1 + rng.IntN(3))
			}
		}
		s.ID = f.id
	}
	plen := f.mss
	if f.plain && f.sent == f.tailAt {
		plen = f.tailLen
		note("cap-tail")
	}
	switch s.Proto {
	case verifpkt.ProtoTCP:
		if f.ece {
			s.Flags |= verifpkt.ECE
		}
		switch {
		case hit(80):
			plen = 1 + rng.IntN(f.mss)
			note("short")
		case hit(30):
			plen = f.mss + 1 + rng.IntN(f.mss+8)
			note("long")
		case hit(90) || (!f.plain && rng.IntN(25) == 0):
			plen = 0
			note("pure-ack")
		}
		if hit(80) || (!f.plain && rng.IntN(40) == 0) {
			s.Flags |= verifpkt.PSH
			note("psh")
		}
		if hit(25) {
			fl := []uint8{verifpkt.SYN, verifpkt.FIN, verifpkt.RST, verifpkt.URG, verifpkt.CWR, verifpkt.FIN | verifpkt.PSH, verifpkt.SYN | verifpkt.ECE | verifpkt.CWR}[rng.IntN(7)]
			s.Flags |= fl
			if fl == verifpkt.URG {
				s.Urgent = uint16(1 + rng.IntN(100))
			}
			if rng.IntN(4) == 0 {
				s.Flags &^= verifpkt.ACK
			}
			if rng.IntN(3) == 0 {
				plen = 0
			}
			note(fmt.Sprintf("flags=%#02x", s.Flags))
		}
		if hit(20) {
			f.ece = !f.ece
			s.Flags ^= verifpkt.ECE
			note("ece-toggle")
		}
		if hit(5) {
			s.NS = true
			note("ns")
		}
		if hit(100) {
			f.t.AckNo += uint32(1 + rng.IntN(3000))
			s.AckNo = f.t.AckNo
			note("ack-advance")
		}
		if hit(40) {
			f.t.Window = uint16(rng.Uint32())
			s.Window = f.t.Window
			note("window")
		}
		if hit(40) && len(s.TCPOptions) > 0 {
			f.t.TCPOptions = verifpkt.TCPOptions(len(s.TCPOptions), rng)
			s.TCPOptions = f.t.TCPOptions
			note("tcpopt-change")
		}
		if hit(10) {
			s.TCPOptions = verifpkt.TCPOptions(4*(1+rng.IntN(10)), rng)
			note("tcpopt-len")
		}
		if hit(10) {
			s.Urgent = uint16(rng.Uint32()) // urgent pointer without URG: still a header difference
			note("urgptr")
		}
		switch {
		case hit(30):
			f.seq += uint32(1 + rng.IntN(3*f.mss+1))
			note("seq-gap")
		case hit(25) && f.sent > 1:
			f.seq -= uint32(1 + rng.IntN(2*f.mss+1))
			note("seq-back")
		}
		s.Seq = f.seq
		f.seq += uint32(plen)
		if s.Flags&(verifpkt.SYN|verifpkt.FIN) != 0 {
			f.seq++
		}
	case verifpkt.ProtoUDP:
		switch {
		case hit(100):
			plen = 1 + rng.IntN(f.mss)
			note("short")
		case hit(30):
			plen = f.mss + 1 + rng.IntN(f.mss+8)
			note("long")
		case hit(30):
			plen = 0
			note("empty")
		}
		if !s.V6 && (hit(30) || f.noise == 0 && !f.plain && rng.IntN(30) == 0) {
			s.L4Csum = 1
			note("udp-nocsum")
		}
		if hit(20) {
			s.UDPLenDelta = -(1 + rng.IntN(max(1, min(plen, 20))))
			if rng.IntN(3) == 0 {
				s.UDPLenDelta = 1 + rng.IntN(20)
			}
			if rng.IntN(6) == 0 {
				s.UDPLenDelta = -(plen + 1 + rng.IntN(8)) // length below the header size
			}
			note(fmt.Sprintf("udplen%+d", s.UDPLenDelta))
		}
	default:
		plen = 8 + rng.IntN(64)
		if s.Proto == 1 || s.Proto == 58 {
			note("icmp")
		} else {
			note("other-proto")
		}
	}
	if s.V6 && s.Proto != verifpkt.ProtoUDP && hit(4) {
		plen = 65535 - (20 + len(s.TCPOptions)) - rng.IntN(40) // 40 + header + payload > 65535
		note("oversize")
	}
	// IP level anomalies
	if hit(15) {
		s.TTL = byte(1 + rng.IntN(255))
		note("ttl")
	}
	if hit(25) {
		s.TOS ^= []uint8{1, 2, 3, 4, 0xfc}[rng.IntN(5)]
		note("tos")
	}
	if hit(10) {
		s.FlowLabel ^= uint32(1 + rng.IntN(0xfffff))
		s.DF = !s.DF
		note("flowlabel/df")
	}
	if hit(5) {
		s.Evil = true
		note("evil-bit")
	}
	if hit(15) {
		if s.V6 {
			s.Exts = verifpkt.IPv6Exts(8*(1+rng.IntN(3)), rng)
			note("v6ext")
		} else {
			s.IPOptions = verifpkt.IPv4Options(4*(1+rng.IntN(10)), rng)
			note("v4opt")
		}
	}
	if hit(20) {
		if s.V6 {
			fb := make([]byte, 6)
			if rng.IntN(2) == 0 {
				binary.BigEndian.PutUint16(fb[0:2], uint16(rng.IntN(100))<<3|uint16(rng.IntN(2)))
			} else {
				fb[1] = 1 // first fragment, M=1
			}
			binary.BigEndian.PutUint32(fb[2:6], rng.Uint32())
			s.Exts = append(s.Exts, verifpkt.Ext{Type: 44, Body: fb})
		} else {
			s.MF = rng.IntN(2) == 0
			if !s.MF || rng.IntN(2) == 0 {
				s.FragOff = uint16(1 + rng.IntN(500))
			}
		}
		note("fragment")
	}
	if hit(10) {
		s.L4Csum = 2
		note("bad-l4-csum")
	}
	if hit(5) {
		s.BadIPCsum = true
		note("bad-ip-csum")
	}
	if hit(25) {
		switch rng.IntN(4) {
		case 0:
			s.Trailing = make([]byte, 1+rng.IntN(40))
			verifpkt.FillPayload(s.Trailing, rng)
			note("trailing-bytes")
		case 1:
			s.TotalLenDelta = -(1 + rng.IntN(max(1, min(plen, 30))))
			note("iplen-short")
		case 2:
			s.TotalLenDelta = 1 + rng.IntN(30)
			note("iplen-long")
		default:
			s.Truncate = 1 + rng.IntN(30)
			note("truncated")
		}
	}
	if hit(5) && s.Proto == verifpkt.ProtoTCP {
		s.DataOffDelta = []int{-1, 1, 5, -5}[rng.IntN(4)]
		note("doff")
	}
	s.Payload = make([]byte, plen)
	verifpkt.FillPayload(s.Payload, rng)
	b := s.Bytes()
	return b.Pkt, strings.Join(what, ",")
}

// c23GenBatch produces one batch in transmission order plus the arrival permutation.
func c23GenBatch(rng *rand.Rand) (ins []*c23In, arrival []int, shape string) {
	nFlows := []int{1, 1, 2, 2, 3, 4, 6, 8, 12}[rng.IntN(9)]
	var n int
	switch k := rng.IntN(10); {
	case k < 3:
		n = 1 + rng.IntN(10)
	case k < 8:
		n = 10 + rng.IntN(70)
	default:
		n = 80 + rng.IntN(221)
	}
	flows := make([]*c23Flow, nFlows)
	for i := range flows {
		flows[i] = c23NewFlow(rng)
	}
	capRun := rng.IntN(8) == 0
	if capRun {
		// byte-cap run: one quiet TCP or UDP flow whose in-order run of full segments plus one shorter packet adds up to
		// just below, exactly at, or just above the 65535-byte superpacket limit (IPv4 and IPv6), followed by more segments
		nFlows = 1
		f := c23NewFlow(rng)
		for f.t.Proto != verifpkt.ProtoTCP && f.t.Proto != verifpkt.ProtoUDP {
			f = c23NewFlow(rng)
		}
		f.noise, f.ece, f.idMode, f.plain = 0, false, 0, true
		f.mss = []int{1191, 1240, 1310, 1400, 1424, 1448}[rng.IntN(6)]
		hdr := 20
		if f.t.V6 {
			hdr = 40
		}
		if f.t.Proto == verifpkt.ProtoTCP {
			hdr += 20 + len(f.t.TCPOptions)
		} else {
			hdr += 8
		}
		full := (65535 - hdr) / f.mss // full segments that fit under the limit
		k := full - rng.IntN(2)       // full segments before the tail
		target := 65535 + []int{-41, -40, -1, 0, 1, 20, 39, 40, 41, 60}[rng.IntN(10)]
		f.tailAt, f.tailLen = k+1, target-hdr-k*f.mss
		if f.tailLen < 1 || f.tailLen > f.mss {
			f.tailAt = 0
		}
		flows = []*c23Flow{f}
		n = k + 1 + rng.IntN(12)
	}
	burst := []int{0, 50, 70, 90, 97}[rng.IntN(5)] // percent chance to stay on the same flow
	epochBase := uint64(rng.IntN(5))
	cut := -1
	if rng.IntN(3) == 0 {
		cut = rng.IntN(n + 1)
	}
	ctr := []uint64{0, 1, 1 << 32, 1<<63 - 5, ^uint64(0) - 10_000_000}[rng.IntN(5)]
	cur := 0
	budget := 6 << 20 // bytes per batch (oversize packets are rare but heavy)
	for len(ins) < n && budget > 0 {
		if rng.IntN(100) >= burst {
			cur = rng.IntN(nFlows)
		}
		pkt, desc := flows[cur].next(rng)
		budget -= len(pkt)
		proto, ihl, frag, ok := c23Parse(pkt)
		if !ok {
			continue // newPacket would refuse it; it never reaches the coalescer
		}
		in := &c23In{pkt: pkt, desc: desc, proto: proto, ipHdrLen: ihl, fragAny: frag, flowPrev: -1}
		idx := len(ins)
		if idx == cut {
			epochBase++
			ctr = uint64(rng.IntN(3))
		}
		ctr += 1 + uint64(rng.IntN(8)/7*rng.IntN(1000))
		in.key = SortKey{Epoch: epochBase, Counter: ctr}
		in.rank = idx
		in.norm = verifpkt.Normalise(pkt)
		ins = append(ins, in)
	}
	arrival = make([]int, len(ins))
	for i := range arrival {
		arrival[i] = i
	}
	mode := rng.IntN(20)
	if capRun && mode >= 2 {
		mode = 0
	}
	switch {
	case mode < 9:
		shape = "in-order"
	case mode < 15:
		shape = "local-reorder"
		d := 1 + rng.IntN(6)
		for i := range arrival {
			if rng.IntN(4) == 0 {
				j := min(len(arrival)-1, i+1+rng.IntN(d))
				arrival[i], arrival[j] = arrival[j], arrival[i]
			}
		}
	case mode < 18:
		shape = "shuffled"
		rng.Shuffle(len(arrival), func(i, j int) { arrival[i], arrival[j] = arrival[j], arrival[i] })
	default:
		shape = "reversed"
		for i, j := 0, len(arrival)-1; i < j; i, j = i+1, j-1 {
			arrival[i], arrival[j] = arrival[j], arrival[i]
		}
	}
	return
}

// ---------------------------------------------------------------------------------------------
// oracle

// c23Fields names the header fields in which two packets of one flow differ (normalised view).
func c23Fields(a, b []byte) []string {
	var out []string
	add := func(s string) { out = append(out, s) }
	if len(a) < 20 || len(b) < 20 || a[0]>>4 != b[0]>>4 {
		return []string{"shape"}
	}
	var la, lb []byte
	var proto uint8
	if a[0]>>4 == 4 {
		ia, ib := int(a[0]&0xf)*4, int(b[0]&0xf)*4
		if ia != ib || ia > len(a) || ib > len(b) || ia < 20 {
			return []string{"ihl"}
		}
		if a[1] != b[1] {
			add("tos")
		}
		if (a[6]^b[6])&0xe0 != 0 || a[7] != b[7] || (a[6]^b[6])&0x1f != 0 {
			add("ipflags")
		}
		if a[6]&0x40 == 0 && !bytes.Equal(a[4:6], b[4:6]) {
			add("ipid")
		}
		if a[8] != b[8] {
			add("ttl")
		}
		if a[9] != b[9] || !bytes.Equal(a[12:20], b[12:20]) {
			add("addr/proto")
		}
		if !bytes.Equal(a[20:ia], b[20:ib]) {
			add("ipopt")
		}
		proto = a[9]
		la, lb = a[ia:], b[ib:]
	} else {
		if len(a) < 40 || len(b) < 40 {
			return []string{"shape"}
		}
		if a[0] != b[0] || a[1]&0xf0 != b[1]&0xf0 {
			add("tos")
		}
		if a[1]&0x0f != b[1]&0x0f || a[2] != b[2] || a[3] != b[3] {
			add("flowlabel")
		}
		if a[6] != b[6] {
			add("nexthdr")
		}
		if a[7] != b[7] {
			add("ttl")
		}
		if !bytes.Equal(a[8:40], b[8:40]) {
			add("addr")
		}
		proto = a[6]
		la, lb = a[40:], b[40:]
	}
	switch proto {
	case verifpkt.ProtoTCP:
		if len(la) < 20 || len(lb) < 20 {
			return append(out, "tcp-short")
		}
		if !bytes.Equal(la[0:4], lb[0:4]) {
			add("ports")
		}
		if !bytes.Equal(la[4:8], lb[4:8]) {
			add("seq")
		}
		if !bytes.Equal(la[8:12], lb[8:12]) {
			add("ack")
		}
		if la[12] != lb[12] {
			add("doff/ns")
		}
		if la[13] != lb[13] {
			add(fmt.Sprintf("tcpflags^%#02x", la[13]^lb[13]))
		}
		if !bytes.Equal(la[14:16], lb[14:16]) {
			add("window")
		}
		if !bytes.Equal(la[18:20], lb[18:20]) {
			add("urgptr")
		}
		da, db := int(la[12]>>4)*4, int(lb[12]>>4)*4
		if da == db && da >= 20 && da <= len(la) && db <= len(lb) {
			if !bytes.Equal(la[20:da], lb[20:db]) {
				add("tcpopt")
			}
			if !bytes.Equal(la[da:], lb[db:]) {
				add("payload")
			}
		}
	case verifpkt.ProtoUDP:
		if len(la) < 8 || len(lb) < 8 {
			return append(out, "udp-short")
		}
		if !bytes.Equal(la[0:4], lb[0:4]) {
			add("ports")
		}
		if !bytes.Equal(la[8:], lb[8:]) {
			add("payload")
		}
	}
	return out
}

func c23Hex(b []byte) string {
	if len(b) > 600 {
		return verifkit.Hex(b[:600]) + fmt.Sprintf("...(%d bytes)", len(b))
	}
	return verifkit.Hex(b)
}

type c23Expanded struct {
	pkt    []byte
	outIdx int
	segIdx int
	gso    bool
}

// c23Geometry checks one WriteGSO against what the kernel accepts and what the statement demands.
func c23Geometry(o *c23Out, caps tio.Capabilities) []string {
	var bad []string
	f := func(format string, a ...any) { bad = append(bad, fmt.Sprintf(format, a...)) }
	if len(o.pays) == 0 {
		f("no-fragments: WriteGSO without payload fragments")
		return bad
	}
	if len(o.pays) > 64 {
		f("too-many-segments: %d fragments", len(o.pays))
	}
	total := len(o.hdr) + len(o.thdr)
	for i, p := range o.pays {
		total += len(p)
		if len(p) == 0 {
			f("empty-fragment: fragment %d of %d is empty", i, len(o.pays))
		} else if len(p) > len(o.pays[0]) || (len(p) < len(o.pays[0]) && i != len(o.pays)-1) {
			f("unequal-fragments: fragment %d is %d bytes, first is %d (only the last may be shorter)", i, len(p), len(o.pays[0]))
		}
	}
	if total > 65535 {
		f("too-long: superpacket of %d bytes", total)
	}
	var wantProto uint8
	switch o.proto {
	case tio.GSOProtoTCP:
		wantProto = verifpkt.ProtoTCP
		if !caps.TSO {
			f("capability: TCP superpacket although the writer did not negotiate TSO")
		}
		if len(o.thdr) < 20 || int(o.thdr[12]>>4)*4 != len(o.thdr) {
			f("transport-header: TCP header slice of %d bytes does not match its data offset", len(o.thdr))
			return bad
		}
	case tio.GSOProtoUDP:
		wantProto = verifpkt.ProtoUDP
		if !caps.USO {
			f("capability: UDP superpacket although the writer did not negotiate USO")
		}
		if len(o.thdr) != 8 {
			f("transport-header: UDP header slice of %d bytes", len(o.thdr))
			return bad
		}
	default:
		f("proto: unknown GSO protocol %d", o.proto)
		return bad
	}
	l4len := total - len(o.hdr)
	switch {
	case len(o.hdr) == 20 && o.hdr[0] == 0x45:
		if o.hdr[9] != wantProto {
			f("ip-header: IPv4 protocol %d in a %d superpacket", o.hdr[9], wantProto)
		}
		if int(binary.BigEndian.Uint16(o.hdr[2:4])) != total {
			f("ip-length: IPv4 total length %d, superpacket is %d bytes", binary.BigEndian.Uint16(o.hdr[2:4]), total)
		}
		if verifpkt.Sum16(o.hdr, 0) != 0xffff {
			f("ip-checksum: IPv4 header checksum of the superpacket header does not verify")
		}
		if binary.BigEndian.Uint16(o.hdr[6:8])&0x3fff != 0 {
			f("ip-header: fragmented IPv4 header in a superpacket")
		}
	case len(o.hdr) == 40 && o.hdr[0]>>4 == 6:
		if o.hdr[6] != wantProto {
			f("ip-header: IPv6 next header %d in a %d superpacket", o.hdr[6], wantProto)
		}
		if int(binary.BigEndian.Uint16(o.hdr[4:6])) != l4len {
			f("ip-length: IPv6 payload length %d, superpacket carries %d", binary.BigEndian.Uint16(o.hdr[4:6]), l4len)
		}
	default:
		f("ip-header: %d byte IP header starting %#02x is not a plain IPv4/IPv6 header", len(o.hdr), o.hdr[:min(1, len(o.hdr))])
		return bad
	}
	csOff := 16
	if o.proto == tio.GSOProtoUDP {
		csOff = 6
		if int(binary.BigEndian.Uint16(o.thdr[4:6])) != l4len {
			f("udp-length: UDP length %d, superpacket carries %d", binary.BigEndian.Uint16(o.thdr[4:6]), l4len)
		}
	}
	if want := verifpkt.Fold(verifpkt.PseudoAcc(o.hdr, wantProto, l4len)); binary.BigEndian.Uint16(o.thdr[csOff:csOff+2]) != want {
		f("pseudo-checksum: L4 checksum field %#04x, folded pseudo-header sum is %#04x", binary.BigEndian.Uint16(o.thdr[csOff:csOff+2]), want)
	}
	return bad
}

type c23Result struct {
	gsoWrites, gsoSegs, writes int
	shapeHash                   uint64
}

// c23Judge decides one flushed batch.
func c23Judge(r *verifkit.Reporter, ins []*c23In, outs []c23Out, caps tio.Capabilities, ctx func(extra map[string]any) map[string]any) c23Result {
	var res c23Result
	sh := fnv.New64a()
	// 1. geometry + expansion
	var exp []c23Expanded
	for oi := range outs {
		o := &outs[oi]
		if !o.gso {
			res.writes++
			fmt.Fprintf(sh, "w%d/", len(o.pkt)>>8)
			exp = append(exp, c23Expanded{pkt: o.pkt, outIdx: oi})
			continue
		}
		res.gsoWrites++
		fmt.Fprintf(sh, "g%d:%d:%d/", o.proto, len(o.pays), len(o.hdr))
		bad := c23Geometry(o, caps)
		for _, b := range bad {
			cls, _, _ := strings.Cut(b, ":")
			r.Violation("C23/gso-geometry-"+cls, "WriteGSO "+b, ctx(map[string]any{"ip_header": verifkit.Hex(o.hdr), "transport_header": verifkit.Hex(o.thdr), "fragment_sizes": c23Sizes(o.pays), "write_index": oi}))
		}
		if len(bad) > 0 && (len(o.pays) == 0 || len(o.hdr) < 20 || len(o.thdr) < 8 || (o.proto == tio.GSOProtoTCP && len(o.thdr) < 20)) {
			continue // cannot be expanded
		}
		var pay []byte
		for _, p := range o.pays {
			pay = append(pay, p...)
		}
		gso := 0
		if len(o.pays) > 1 {
			gso = len(o.pays[0])
		}
		proto := uint8(verifpkt.ProtoTCP)
		if o.proto == tio.GSOProtoUDP {
			proto = verifpkt.ProtoUDP
		}
		segs := verifpkt.RefSegment(o.hdr, o.thdr, pay, gso, proto)
		res.gsoSegs += len(segs)
		for si, sg := range segs {
			exp = append(exp, c23Expanded{pkt: sg, outIdx: oi, segIdx: si, gso: true})
		}
	}
	res.shapeHash = sh.Sum64()
	// 2. multiset matching
	byRaw := map[string][]int{}
	byNorm := map[string][]int{}
	byFlow := map[string][]int{}
	for i, in := range ins {
		byRaw[string(in.pkt)] = append(byRaw[string(in.pkt)], i)
		byNorm[in.norm.Key] = append(byNorm[in.norm.Key], i)
		if l := byFlow[in.norm.Flow]; len(l) > 0 {
			in.flowPrev = l[len(l)-1]
		}
		byFlow[in.norm.Flow] = append(byFlow[in.norm.Flow], i)
	}
	take := func(l []int) int {
		for _, i := range l {
			if !ins[i].matched {
				return i
			}
		}
		return -1
	}
	type emitted struct {
		in int
	}
	var order []emitted
	for _, e := range exp {
		var i int
		if !e.gso {
			i = take(byRaw[string(e.pkt)])
			if i < 0 {
				n := verifpkt.Normalise(e.pkt)
				if c := take(byNorm[n.Key]); c >= 0 {
					ins[c].matched = true
					r.Violation("C23/plain-write-not-byte-identical", "a packet written with plain Write equals an input only after normalisation ("+strings.Join(c23Fields(ins[c].pkt, e.pkt), ",")+")",
						ctx(map[string]any{"input": c23Hex(ins[c].pkt), "written": c23Hex(e.pkt), "input_desc": ins[c].desc}))
					order = append(order, emitted{c})
					continue
				}
				key, what := c23Unmatched(ins, byFlow, n, e.pkt)
				r.Violation(key, "plain Write: "+what, ctx(map[string]any{"written": c23Hex(e.pkt), "write_index": e.outIdx}))
				continue
			}
		} else {
			n := verifpkt.Normalise(e.pkt)
			i = take(byNorm[n.Key])
			if i < 0 {
				key, what := c23Unmatched(ins, byFlow, n, e.pkt)
				o := &outs[e.outIdx]
				r.Violation(key, fmt.Sprintf("segment %d of a %d-fragment WriteGSO: %s", e.segIdx, len(o.pays), what),
					ctx(map[string]any{"segment_after_reference_segmentation": c23Hex(e.pkt), "ip_header": verifkit.Hex(o.hdr), "transport_header": verifkit.Hex(o.thdr), "fragment_sizes": c23Sizes(o.pays), "write_index": e.outIdx}))
				continue
			}
		}
		ins[i].matched, ins[i].outIdx, ins[i].segIdx, ins[i].viaGSO = true, e.outIdx, e.segIdx, e.gso
		order = append(order, emitted{i})
	}
	// observation (not judged — the statement lets the kernel rewrite checksums): packets whose own L4
	// checksum did not verify and that were folded into a superpacket come out with a valid one
	for _, in := range ins {
		if in.matched && in.viaGSO && !c23L4ChecksumOK(in.pkt) {
			r.Count("merged_inputs_with_invalid_l4_checksum", 1)
		}
	}
	for _, in := range ins {
		if !in.matched {
			r.Violation("C23/packet-lost", "an input packet never reached the tun ("+in.desc+")", ctx(map[string]any{"input": c23Hex(in.pkt), "rank": in.rank, "input_desc": in.desc}))
		}
	}
	// 3. order per (epoch, flow)
	type st struct {
		maxAll, maxNonData int
		maxAllIn           int
	}
	seen := map[string]*st{}
	for _, e := range order {
		in := ins[e.in]
		k := fmt.Sprintf("%d|%s", in.key.Epoch, in.norm.Flow)
		s := seen[k]
		if s == nil {
			s = &st{maxAll: -1, maxNonData: -1}
			seen[k] = s
		}
		viol := false
		if in.norm.PureACK {
			viol = s.maxNonData > in.rank
		} else {
			viol = s.maxAll > in.rank
		}
		if viol {
			prev := ins[s.maxAllIn]
			r.Violation("C23/order-within-flow", fmt.Sprintf("flow %s epoch %d: packet with counter %d (%s) is emitted after the packet with counter %d (%s)", in.norm.Flow, in.key.Epoch, in.key.Counter, in.desc, prev.key.Counter, prev.desc),
				ctx(map[string]any{"late_packet": c23Hex(in.pkt), "early_packet": c23Hex(prev.pkt)}))
		}
		if in.rank > s.maxAll {
			s.maxAll, s.maxAllIn = in.rank, e.in
		}
		if in.norm.PayLen <= 0 && in.rank > s.maxNonData {
			s.maxNonData = in.rank
		}
	}
	return res
}

// c23L4ChecksumOK verifies the TCP/UDP checksum of a plain (no options / extension headers) packet.
func c23L4ChecksumOK(pkt []byte) bool {
	off, end := 20, int(binary.BigEndian.Uint16(pkt[2:4]))
	proto := pkt[9]
	if pkt[0]>>4 == 6 {
		off, end, proto = 40, 40+int(binary.BigEndian.Uint16(pkt[4:6])), pkt[6]
	}
	if end > len(pkt) || end < off+8 {
		return true
	}
	if proto == verifpkt.ProtoUDP && pkt[off+6] == 0 && pkt[off+7] == 0 {
		return true
	}
	l4 := pkt[off:end]
	return verifpkt.Fold(verifpkt.Acc(l4, verifpkt.PseudoAcc(pkt, proto, len(l4)))) == 0xffff
}

func c23Sizes(p [][]byte) []int {
	o := make([]int, len(p))
	for i := range p {
		o[i] = len(p[i])
	}
	return o
}

// c23Unmatched classifies an emitted packet that equals no outstanding input: if an outstanding input of
// the same flow exists the differing fields name the witness class, otherwise the packet was fabricated
// or duplicated.
func c23Unmatched(ins []*c23In, byFlow map[string][]int, n verifpkt.Norm, pkt []byte) (string, string) {
	best := -1
	var bestF []string
	for _, i := range byFlow[n.Flow] {
		if ins[i].matched {
			continue
		}
		f := c23Fields(ins[i].pkt, pkt)
		if best < 0 || len(f) < len(bestF) {
			best, bestF = i, f
		}
	}
	if best < 0 {
		return "C23/fabricated-or-duplicated-packet", "equals no outstanding packet of the batch and no packet of its flow is outstanding"
	}
	sort.Strings(bestF)
	cls := "unknown"
	if len(bestF) > 0 {
		cls = bestF[0]
		if strings.HasPrefix(cls, "tcpflags") {
			cls = "tcpflags"
		}
	}
	return "C23/altered-" + cls, fmt.Sprintf("differs from the closest outstanding packet of its flow (counter %d, %s) in %s; input %s", ins[best].key.Counter, ins[best].desc, strings.Join(bestF, ","), c23Hex(ins[best].pkt))
}

// ---------------------------------------------------------------------------------------------

func c23Caps(rng *rand.Rand) tio.Capabilities {
	switch k := rng.IntN(20); {
	case k < 14:
		return tio.Capabilities{TSO: true, USO: true}
	case k < 16:
		return tio.Capabilities{TSO: true}
	case k < 17:
		return tio.Capabilities{USO: true}
	}
	return tio.Capabilities{}
}

func TestVerifC23Batches(t *testing.T) {
	r := verifkit.NewReporter(t, "C23", "batches",
		"case = one batch (1..300 packets, 1..12 TCP/UDP/other flows over IPv4/IPv6, optional epoch cutover, arrival order in-order/locally reordered/shuffled/reversed) committed to a real MultiCoalescer over a recording GSO writer and flushed; several batches per coalescer instance; distinct = distinct output shapes (sequence of Write / WriteGSO(proto, fragments)) plus distinct per-flow transition classes (what changed between consecutive packets of a flow -> merged into the same superpacket or not)")
	defer r.Done()
	l := slog.New(slog.DiscardHandler)
	nInst := verifkit.Scale(2500, 400_000)
	bi := 0
	for inst := 0; inst < nInst; inst++ {
		if !verifkit.Mine(inst) {
			continue
		}
		rng := verifkit.SubRand("C23inst", inst)
		w := &c23Writer{caps: c23Caps(rng)}
		m := NewMultiCoalescer(w, l)
		nb := 1 + rng.IntN(4)
		for b := 0; b < nb; b++ {
			bi++
			ins, arrival, shape := c23GenBatch(rng)
			if len(ins) == 0 {
				continue
			}
			w.out = w.out[:0]
			ctx := func(extra map[string]any) map[string]any {
				m := map[string]any{"instance": inst, "batch_in_instance": b, "caps_tso": w.caps.TSO, "caps_uso": w.caps.USO, "arrival": shape, "batch_size": len(ins),
					"note": "the batch is a function of (VERIF_SEED, instance); re-run the unit with the same seed"}
				for k, v := range extra {
					m[k] = v
				}
				return m
			}
			r.Pre("C23 instance=%d batch=%d size=%d caps=%+v arrival=%s", inst, b, len(ins), w.caps, shape)
			var pp firewall.ParsedPacket
			var cerr, ferr error
			panicked := r.Guard("C23/panic", func() any { return ctx(nil) }, func() {
				for _, ai := range arrival {
					in := ins[ai]
					work := make([]byte, len(in.pkt))
					copy(work, in.pkt)
					pp.Protocol, pp.IPHdrLen, pp.FragAny = in.proto, in.ipHdrLen, in.fragAny
					if err := m.Commit(work[:len(work):len(work)], in.key, &pp); err != nil && cerr == nil {
						cerr = err
					}
				}
				ferr = m.Flush()
			})
			if panicked {
				break // the coalescer's state is unknown now
			}
			if cerr != nil || ferr != nil {
				r.Violation("C23/unexpected-error", fmt.Sprintf("Commit/Flush returned an error although the writer accepts everything: commit=%v flush=%v", cerr, ferr), ctx(nil))
			}
			res := c23Judge(r, ins, w.out, w.caps, ctx)
			r.Eval(1)
			r.Count("packets_in", len(ins))
			r.Count("plain_writes", res.writes)
			r.Count("gso_writes", res.gsoWrites)
			r.Count("gso_segments", res.gsoSegs)
			r.DistinctU64(res.shapeHash)
			c23Transitions(r, ins, w.out)
			if r.WantSample() && len(ins) > 4 && res.gsoWrites > 0 {
				descs := []string{}
				for _, in := range ins[:min(len(ins), 12)] {
					descs = append(descs, fmt.Sprintf("%d/%d %s %s", in.key.Epoch, in.key.Counter, in.norm.Flow, in.desc))
				}
				r.Sample(map[string]any{"instance": inst, "batch_size": len(ins), "arrival": shape, "plain_writes": res.writes, "gso_writes": res.gsoWrites, "gso_segments": res.gsoSegs, "first_packets": descs})
			}
		}
	}
	r.Info("batches", bi)
}

// c23Transitions records, for consecutive packets of one flow, what changed and whether they were merged.
func c23Transitions(r *verifkit.Reporter, ins []*c23In, outs []c23Out) {
	for _, in := range ins {
		if in.flowPrev < 0 || !in.matched || in.norm.Kind == verifpkt.NormOpaque {
			continue
		}
		p := ins[in.flowPrev]
		if !p.matched || p.norm.Kind == verifpkt.NormOpaque {
			continue
		}
		f := c23Fields(p.pkt, in.pkt)
		// sequence adjacency is the interesting part of "seq"
		var keep []string
		for _, x := range f {
			switch x {
			case "payload":
			case "seq":
				if len(p.pkt) > 0 && p.norm.Kind == verifpkt.NormTCP {
					ps := c23Seq(p.pkt)
					if c23Seq(in.pkt) == ps+uint32(p.norm.PayLen) {
						continue
					}
				}
				keep = append(keep, "seq-not-adjacent")
			case "ipid":
				if binary.BigEndian.Uint16(in.pkt[4:6]) == binary.BigEndian.Uint16(p.pkt[4:6])+1 {
					continue
				}
				keep = append(keep, "ipid-not-next")
			default:
				keep = append(keep, x)
			}
		}
		size := "="
		switch {
		case in.norm.PayLen == 0:
			size = "0"
		case in.norm.PayLen < p.norm.PayLen:
			size = "<"
		case in.norm.PayLen > p.norm.PayLen:
			size = ">"
		}
		merged := in.viaGSO && p.viaGSO && in.outIdx == p.outIdx && in.segIdx == p.segIdx+1
		kind := "tcp"
		if in.norm.Kind == verifpkt.NormUDP {
			kind = "udp"
		}
		fam := "v4"
		if in.pkt[0]>>4 == 6 {
			fam = "v6"
		}
		ep := ""
		if in.key.Epoch != p.key.Epoch {
			ep = " epoch-change"
		}
		// keep the class space small: full detail when nothing changed, otherwise the first changed field
		if len(keep) == 0 {
			r.DistinctClass(fmt.Sprintf("%s %s size%s unchanged-headers%s -> merged=%v", kind, fam, size, ep, merged))
		} else {
			more := ""
			if len(keep) > 1 {
				more = "+"
			}
			r.DistinctClass(fmt.Sprintf("%s changed=%s%s -> merged=%v", kind, keep[0], more, merged))
		}
	}
}

func c23Seq(pkt []byte) uint32 {
	off := 40
	if pkt[0]>>4 == 4 {
		off = int(pkt[0]&0xf) * 4
	} else {
		// extension headers: find the TCP header the same way the normaliser does
		next := pkt[6]
		for n := 0; n < 8 && (next == 0 || next == 43 || next == 60) && off+2 <= len(pkt); n++ {
			next, off = pkt[off], off+(int(pkt[off+1])+1)*8
		}
	}
	if off+8 > len(pkt) {
		return 0
	}
	return binary.BigEndian.Uint32(pkt[off+4 : off+8])
}
