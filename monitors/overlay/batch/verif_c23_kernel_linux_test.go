//go:build linux && !android

package batch

// C23, kernel-in-the-loop sub-step: the writes the coalescer issues for generated batches are forwarded
// to a real IFF_VNET_HDR tun device (TSO4/6, USO4/6 negotiated) that lives in a private network
// namespace, through the real tio.Offload queue. The Linux tun driver validates the virtio_net_hdr and
// the superpacket geometry on write (virtio_net_hdr_to_skb); any WriteGSO it refuses is a witness. When the
// namespace or the device cannot be created the unit reports itself skipped.

import (
	"fmt"
	"log/slog"
	"runtime"
	"testing"

	"golang.org/x/sys/unix"

	"github.com/slackhq/nebula/firewall"
	"github.com/slackhq/nebula/overlay/tio"
	"github.com/slackhq/nebula/verifkit"
)

type c23KernelWriter struct {
	rec     *c23Writer
	k       tio.GSOWriter
	gsoErr  []string
	plainOK int
	plainEr map[string]int
	gsoOK   int
}

func (w *c23KernelWriter) Capabilities() tio.Capabilities { return w.rec.caps }

func (w *c23KernelWriter) Write(p []byte) (int, error) {
	w.rec.Write(p)
	if _, err := w.k.Write(p); err != nil {
		w.plainEr[err.Error()]++
	} else {
		w.plainOK++
	}
	return len(p), nil
}

func (w *c23KernelWriter) WriteGSO(hdr, thdr []byte, pays [][]byte, proto tio.GSOProto) error {
	w.rec.WriteGSO(hdr, thdr, pays, proto)
	if err := w.k.WriteGSO(hdr, thdr, pays, proto); err != nil {
		w.gsoErr = append(w.gsoErr, fmt.Sprintf("write %d: %v", len(w.rec.out)-1, err))
	} else {
		w.gsoOK++
	}
	return nil
}

// c23OpenTun creates a private netns on the (locked) calling thread and an up, offload-enabled vnet_hdr tun in it.
func c23OpenTun() (tio.QueueSet, bool, error) {
	if err := unix.Unshare(unix.CLONE_NEWNET); err != nil {
		return nil, false, fmt.Errorf("unshare(CLONE_NEWNET): %w", err)
	}
	fd, err := unix.Open("/dev/net/tun", unix.O_RDWR|unix.O_CLOEXEC, 0)
	if err != nil {
		return nil, false, fmt.Errorf("open /dev/net/tun: %w", err)
	}
	ifr, err := unix.NewIfreq("verifc23")
	if err != nil {
		unix.Close(fd)
		return nil, false, err
	}
	ifr.SetUint16(unix.IFF_TUN | unix.IFF_NO_PI | unix.IFF_VNET_HDR)
	if err := unix.IoctlIfreq(fd, unix.TUNSETIFF, ifr); err != nil {
		unix.Close(fd)
		return nil, false, fmt.Errorf("TUNSETIFF(IFF_VNET_HDR): %w", err)
	}
	const tso = unix.TUN_F_CSUM | unix.TUN_F_TSO4 | unix.TUN_F_TSO6 | unix.TUN_F_TSO_ECN
	uso := true
	if err := unix.IoctlSetInt(fd, unix.TUNSETOFFLOAD, tso|unix.TUN_F_USO4|unix.TUN_F_USO6); err != nil {
		uso = false
		if err := unix.IoctlSetInt(fd, unix.TUNSETOFFLOAD, tso); err != nil {
			unix.Close(fd)
			return nil, false, fmt.Errorf("TUNSETOFFLOAD: %w", err)
		}
	}
	s, err := unix.Socket(unix.AF_INET, unix.SOCK_DGRAM|unix.SOCK_CLOEXEC, 0)
	if err != nil {
		unix.Close(fd)
		return nil, false, err
	}
	defer unix.Close(s)
	fl, _ := unix.NewIfreq("verifc23")
	if err := unix.IoctlIfreq(s, unix.SIOCGIFFLAGS, fl); err != nil {
		unix.Close(fd)
		return nil, false, fmt.Errorf("SIOCGIFFLAGS: %w", err)
	}
	fl.SetUint16(fl.Uint16() | unix.IFF_UP | unix.IFF_RUNNING)
	if err := unix.IoctlIfreq(s, unix.SIOCSIFFLAGS, fl); err != nil {
		unix.Close(fd)
		return nil, false, fmt.Errorf("SIOCSIFFLAGS(IFF_UP): %w", err)
	}
	qs, err := tio.NewOffloadQueueSet(uso, nil)
	if err != nil {
		unix.Close(fd)
		return nil, false, err
	}
	if err := qs.Add(fd); err != nil {
		unix.Close(fd)
		qs.Close()
		return nil, false, err
	}
	return qs, uso, nil
}

func TestVerifC23Kernel(t *testing.T) {
	r := verifkit.NewReporter(t, "C23", "kernel",
		"case = one generated batch whose Write/WriteGSO calls are forwarded through the real tio.Offload queue to an IFF_VNET_HDR tun in a private netns; the kernel must accept every WriteGSO (the batch is also judged by the same multiset/order/geometry oracle); distinct = distinct (protocol, family, fragments, segment size class) of superpackets the kernel accepted")
	defer r.Done()
	if i, _ := verifkit.Shard(); i != 0 {
		r.Info("other_shards", "the kernel sub-step runs on shard 0 only")
		return
	}
	// the namespace change is per thread: stay on this thread and never hand it back to the scheduler pool
	runtime.LockOSThread()
	qs, uso, err := c23OpenTun()
	if err != nil {
		r.Info("skipped", "no vnet_hdr tun in a private netns available: "+err.Error())
		r.Count("skipped", 1)
		t.Logf("C23 kernel sub-step skipped: %v", err)
		return
	}
	defer qs.Close()
	kq, ok := qs.Queues()[0].(tio.GSOWriter)
	if !ok {
		r.Info("skipped", "tun queue does not implement GSOWriter")
		r.Count("skipped", 1)
		return
	}
	r.Info("kernel_uso", uso)
	var uts unix.Utsname
	if unix.Uname(&uts) == nil {
		r.Info("kernel_release", unix.ByteSliceToString(uts.Release[:]))
	}
	l := slog.New(slog.DiscardHandler)
	n := verifkit.Scale(300, 60_000)
	for inst := 0; inst < n; inst++ {
		rng := verifkit.SubRand("C23kernel", inst)
		w := &c23KernelWriter{rec: &c23Writer{caps: tio.Capabilities{TSO: true, USO: uso}}, k: kq, plainEr: map[string]int{}}
		m := NewMultiCoalescer(w, l)
		ins, arrival, shape := c23GenBatch(rng)
		if len(ins) == 0 {
			continue
		}
		ctx := func(extra map[string]any) map[string]any {
			m := map[string]any{"instance": inst, "arrival": shape, "batch_size": len(ins), "kernel_uso": uso,
				"note": "the batch is a function of (VERIF_SEED, instance); re-run the unit with the same seed"}
			for k, v := range extra {
				m[k] = v
			}
			return m
		}
		r.Pre("C23 kernel instance=%d size=%d", inst, len(ins))
		var pp firewall.ParsedPacket
		if r.Guard("C23/panic", func() any { return ctx(nil) }, func() {
			for _, ai := range arrival {
				in := ins[ai]
				work := make([]byte, len(in.pkt))
				copy(work, in.pkt)
				pp.Protocol, pp.IPHdrLen, pp.FragAny = in.proto, in.ipHdrLen, in.fragAny
				m.Commit(work, in.key, &pp)
			}
			m.Flush()
		}) {
			continue
		}
		r.Eval(1)
		for _, e := range w.gsoErr {
			r.Violation("C23/kernel-rejected-gso-write", "the tun driver refused a WriteGSO: "+e, ctx(map[string]any{"errors": w.gsoErr}))
		}
		r.Count("kernel_accepted_gso_writes", w.gsoOK)
		r.Count("kernel_accepted_plain_writes", w.plainOK)
		for e, c := range w.plainEr {
			r.Count("kernel_refused_plain_writes["+e+"]", c)
		}
		for _, o := range w.rec.out {
			if o.gso {
				sz := "small"
				if len(o.pays[0]) >= 1000 {
					sz = "mtu"
				}
				if len(o.pays[0]) >= 4000 {
					sz = "jumbo"
				}
				r.DistinctClass(fmt.Sprintf("proto=%d v%d fragments=%d seg=%s", o.proto, o.hdr[0]>>4, len(o.pays), sz))
			}
		}
		c23Judge(r, ins, w.rec.out, w.rec.caps, ctx)
	}
}
