//go:build !amd64

package checksum

func c25ArchImpls() []c25Impl { return nil }

func c25ForceFallback() func() { return func() {} }

const c25HasAsm = false
