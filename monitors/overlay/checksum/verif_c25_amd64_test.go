package checksum

// c25ArchImpls lists the hand-written implementations of this architecture so the monitor drives the
// assembly directly, whatever the public dispatcher would choose on this CPU.
func c25ArchImpls() []c25Impl {
	if !hasAVX2 {
		return nil
	}
	return []c25Impl{{name: "avx2", fn: checksumAVX2}}
}

// c25ForceFallback makes the public Checksum take the non-accelerated branch and returns the undo.
func c25ForceFallback() func() {
	old := hasAVX2
	hasAVX2 = false
	return func() { hasAVX2 = old }
}

const c25HasAsm = true
