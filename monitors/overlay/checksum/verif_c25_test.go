//go:build linux

package checksum

// C25 — the accelerated Internet checksum equals a straightforward RFC 1071 one's-complement sum for
// every buffer content, length, alignment and initial value.
//
// Reference (written from RFC 1071 §1, not from the code): the buffer is a sequence of 16-bit
// big-endian words, an odd trailing byte is padded on the right with a zero byte, the words and the
// initial value are added in a wide accumulator and the carries are folded back end-around until the
// value fits in 16 bits.
//
// Electric fence: every buffer handed to the real code lives in an anonymous mapping whose first and
// last page are PROT_NONE. The buffer starts d bytes after the leading guard page or ends d bytes
// before the trailing one, d = 0..63, so every start alignment modulo 64 occurs in both positions and a
// load that reaches more than d bytes outside the slice faults. Faults are turned into panics
// (debug.SetPanicOnFault) and recorded with the exact case; should the process die anyway the case
// group logged with r.Pre just before is attached to the crash report by the driver.

import (
	"fmt"
	"math/rand/v2"
	"runtime/debug"
	"syscall"
	"testing"

	"github.com/slackhq/nebula/verifkit"
)

type c25Impl struct {
	name string
	fn   func([]byte, uint16) uint16
}

// c25Ref is the oracle: plain RFC 1071 arithmetic.
func c25Ref(b []byte, initial uint16) uint16 {
	sum := uint64(initial)
	i := 0
	for ; i+1 < len(b); i += 2 {
		sum += uint64(b[i])<<8 | uint64(b[i+1])
	}
	if i < len(b) {
		sum += uint64(b[i]) << 8
	}
	for sum>>16 != 0 {
		sum = sum&0xffff + sum>>16
	}
	return uint16(sum)
}

// c25Fence is a read/write window surrounded by two inaccessible pages.
type c25Fence struct {
	all  []byte
	data []byte // the accessible part; data[0] is the first byte after the leading guard page
	page int
}

func c25NewFence(dataBytes int) (*c25Fence, error) {
	page := syscall.Getpagesize()
	pages := (dataBytes + page - 1) / page
	all, err := syscall.Mmap(-1, 0, (pages+2)*page, syscall.PROT_READ|syscall.PROT_WRITE, syscall.MAP_ANON|syscall.MAP_PRIVATE)
	if err != nil {
		return nil, err
	}
	if err := syscall.Mprotect(all[:page], syscall.PROT_NONE); err != nil {
		return nil, err
	}
	if err := syscall.Mprotect(all[(pages+1)*page:], syscall.PROT_NONE); err != nil {
		return nil, err
	}
	return &c25Fence{all: all, data: all[page : (pages+1)*page : (pages+1)*page], page: page}, nil
}

func (f *c25Fence) close() { syscall.Munmap(f.all) }

// front returns the n-byte slice that starts d bytes after the leading guard page.
func (f *c25Fence) front(n, d int) []byte { return f.data[d : d+n : d+n] }

// back returns the n-byte slice that ends d bytes before the trailing guard page.
func (f *c25Fence) back(n, d int) []byte {
	e := len(f.data) - d
	return f.data[e-n : e : e]
}

// c25Touch reads one byte; used to prove that the guard pages are live.
//
//go:noinline
func c25Touch(b []byte, i int) byte { return b[i] }

func c25GuardIsLive(f *c25Fence) (before, after bool) {
	probe := func(i int) (faulted bool) {
		defer func() {
			if recover() != nil {
				faulted = true
			}
		}()
		c25Touch(f.all, i)
		return false
	}
	return probe(f.page - 1), probe(len(f.all) - f.page)
}

var c25FixedSeeds = []uint16{0, 1, 0x7fff, 0x8000, 0xfffe, 0xffff}

type c25Pattern struct {
	name  string
	fixed bool // content is a function of the length alone (part of the exhaustive block)
	fill  func(b []byte, rng *rand.Rand)
}

var c25Patterns = []c25Pattern{
	{"zero", true, func(b []byte, _ *rand.Rand) { clear(b) }},
	{"ff", true, func(b []byte, _ *rand.Rand) {
		for i := range b {
			b[i] = 0xff
		}
	}},
	{"ff00", true, func(b []byte, _ *rand.Rand) {
		for i := range b {
			b[i] = byte(0xff * (1 - i&1))
		}
	}},
	{"00ff", true, func(b []byte, _ *rand.Rand) {
		for i := range b {
			b[i] = byte(0xff * (i & 1))
		}
	}},
	{"random", false, func(b []byte, rng *rand.Rand) {
		for i := range b {
			b[i] = byte(rng.Uint32())
		}
	}},
	{"carry-heavy", false, func(b []byte, rng *rand.Rand) {
		tab := [8]byte{0xff, 0xff, 0xff, 0xfe, 0x00, 0x01, 0x80, 0x7f}
		for i := range b {
			b[i] = tab[rng.IntN(8)]
		}
	}},
	{"single-bit", false, func(b []byte, rng *rand.Rand) {
		clear(b)
		if len(b) > 0 {
			// bias to the last bytes: that is where the tail paths differ
			p := rng.IntN(len(b))
			if rng.IntN(2) == 0 {
				p = len(b) - 1 - rng.IntN(min(len(b), 9))
			}
			b[p] = 1 << rng.IntN(8)
		}
	}},
	{"ff-single-clear", false, func(b []byte, rng *rand.Rand) {
		for i := range b {
			b[i] = 0xff
		}
		if len(b) > 0 {
			b[rng.IntN(len(b))] &^= 1 << rng.IntN(8)
		}
	}},
}

type c25Case struct {
	Impl      string `json:"impl"`
	Pattern   string `json:"pattern"`
	Length    int    `json:"length"`
	Placement string `json:"placement"`
	Distance  int    `json:"distance_from_guard_page"`
	Align     int    `json:"start_alignment_mod_64"`
	Initial   uint16 `json:"initial"`
	Want      uint16 `json:"want_rfc1071"`
	Got       uint16 `json:"got"`
	Content   string `json:"content_hex"`
}

func c25Impls() []c25Impl {
	return append([]c25Impl{{name: "dispatch", fn: Checksum}}, c25ArchImpls()...)
}

func c25Judge(r *verifkit.Reporter, c *c25Case, content []byte) {
	if c.Got == c.Want {
		return
	}
	key := "C25/mismatch-" + c.Impl
	if (c.Got == 0 || c.Got == 0xffff) && (c.Want == 0 || c.Want == 0xffff) {
		key = "C25/zero-representation-" + c.Impl
	}
	cc := *c
	cc.Content = verifkit.Hex(content)
	r.Violation(key, fmt.Sprintf("%s: len=%d pattern=%s %s+%d (align %d) initial=%#04x: got %#04x, RFC 1071 reference %#04x",
		c.Impl, c.Length, c.Pattern, c.Placement, c.Distance, c.Align, c.Initial, c.Got, c.Want), cc)
}

// c25RunGroup runs one content over all 128 placements, all implementations and all initial values.
func c25RunGroup(r *verifkit.Reporter, f *c25Fence, impls []c25Impl, pat string, content []byte, seeds []uint16, dists []int, exhaustiveSig bool) {
	n := len(content)
	want := make([]uint16, len(seeds))
	for i, s := range seeds {
		want[i] = c25Ref(content, s)
	}
	r.Pre("C25 group pattern=%s length=%d seeds=%v distances=%v placements=front,back impls=%d content=%x", pat, n, seeds, dists, len(impls), content)
	cur := c25Case{Pattern: pat, Length: n}
	evals := 0
	r.Guard("C25/guard-page-fault", func() any {
		cc := cur
		cc.Got = 0 // the call did not return
		cc.Content = verifkit.Hex(content)
		return cc
	}, func() {
		for _, d := range dists {
			for pl := 0; pl < 2; pl++ {
				var buf []byte
				if pl == 0 {
					buf = f.front(n, d)
					cur.Placement, cur.Align = "after-leading-guard", d&63
				} else {
					buf = f.back(n, d)
					cur.Placement, cur.Align = "before-trailing-guard", (len(f.data)-d-n)&63
				}
				cur.Distance = d
				copy(buf, content)
				for _, im := range impls {
					cur.Impl = im.name
					for si, s := range seeds {
						cur.Initial, cur.Want = s, want[si]
						cur.Got = im.fn(buf, s)
						evals++
						if cur.Got != cur.Want {
							c25Judge(r, &cur, content)
						}
					}
				}
				if exhaustiveSig {
					for si := range c25FixedSeeds {
						r.DistinctU64(uint64(n)<<32 | uint64(cur.Align)<<24 | uint64(pl)<<20 | uint64(c25PatIndex(pat))<<8 | uint64(si))
					}
				} else {
					r.DistinctU64(uint64(n)<<32 | uint64(cur.Align)<<24 | uint64(pl)<<20 | uint64(c25PatIndex(pat))<<8 | 0xff)
				}
			}
		}
	})
	r.Eval(evals)
}

func c25PatIndex(name string) int {
	for i, p := range c25Patterns {
		if p.name == name {
			return i
		}
	}
	return 200
}

func c25AllDists() []int {
	d := make([]int, 64)
	for i := range d {
		d[i] = i
	}
	return d
}

const c25ExhaustiveMaxLen = 600

func TestVerifC25Fence(t *testing.T) {
	r := verifkit.NewReporter(t, "C25", "fence",
		"case = (implementation, content pattern, length, placement next to a PROT_NONE page, distance 0..63 from it, initial value); every length 0..4200 (PRNG contents: 1 fresh content per length at quick, 8 at thorough), both placements, every distance, 6 fixed + 2 PRNG initial values, 8 content patterns; distinct = distinct (length, start alignment mod 64, placement, pattern[, initial value for lengths <= 600]) tuples")
	defer r.Done()
	defer debug.SetPanicOnFault(debug.SetPanicOnFault(true))

	impls := c25Impls()
	names := []string{}
	for _, im := range impls {
		names = append(names, im.name)
	}
	r.Info("implementations", names)
	r.Info("has_asm_for_arch", c25HasAsm)
	if len(impls) < 2 {
		r.Inconclusive("no accelerated implementation can run on this CPU; only the portable path was executed")
	}

	const maxLen = 4200
	f, err := c25NewFence(maxLen + 64)
	if err != nil {
		r.Inconclusive("cannot create guard-page mapping: " + err.Error())
		return
	}
	defer f.close()
	gb, ga := c25GuardIsLive(f)
	r.Info("guard_page_before_faults", gb)
	r.Info("guard_page_after_faults", ga)
	if !gb || !ga {
		r.Inconclusive("guard pages do not fault on this system")
		return
	}
	r.Count("guard_selftest_faults", 2)

	// the portable branch of the dispatcher (what a CPU without the vector extension runs)
	fb := []c25Impl{{name: "dispatch-portable", fn: func(b []byte, s uint16) uint16 {
		defer c25ForceFallback()()
		return Checksum(b, s)
	}}}

	dists := c25AllDists()
	// every length 0..maxLen; PRNG-content patterns are repeated with fresh contents (1x quick, 8x thorough)
	content := make([]byte, maxLen)
	ci := 0
	for pi, p := range c25Patterns {
		reps := 1
		if !p.fixed {
			reps = verifkit.Scale(1, 8)
		}
		for n := 0; n <= maxLen; n++ {
			idx := ci
			ci++
			if !verifkit.Mine(idx) {
				continue
			}
			for rep := 0; rep < reps; rep++ {
				sub := verifkit.SubRand("C25content", (rep*len(c25Patterns)+pi)*(maxLen+1)+n)
				buf := content[:n]
				p.fill(buf, sub)
				seeds := append(append([]uint16{}, c25FixedSeeds...), uint16(sub.Uint32()), uint16(sub.Uint32()))
				c25RunGroup(r, f, impls, p.name, buf, seeds, dists, n <= c25ExhaustiveMaxLen && p.fixed)
				// the portable branch: all placements for short buffers, the two flush placements beyond
				if n <= 128 {
					c25RunGroup(r, f, fb, p.name, buf, seeds, dists, false)
				} else {
					c25RunGroup(r, f, fb, p.name, buf, seeds, []int{0, 1 + n%63}, false)
				}
				r.Count("groups", 1)
				if r.WantSample() && n > 40 && n < 80 {
					r.Sample(map[string]any{"pattern": p.name, "length": n, "content": verifkit.Hex(buf), "initial": seeds[6], "rfc1071": c25Ref(buf, seeds[6])})
				}
			}
		}
	}
	r.Exhaustive(fmt.Sprintf("lengths 0..%d x both guard placements x distances 0..63 (all start alignments mod 64) x patterns {zero,ff,ff00,00ff} x initial {0,1,0x7fff,0x8000,0xfffe,0xffff} x {avx2, dispatcher}", c25ExhaustiveMaxLen))
}

func TestVerifC25Large(t *testing.T) {
	r := verifkit.NewReporter(t, "C25", "large",
		"buffers of 4 KiB..1 MiB (+-1, +-31, +-33 around powers of two and 65535) ending flush against a PROT_NONE page or starting flush after one, contents all-0xff / random / carry-heavy; distinct = distinct (length, placement, pattern) tuples")
	defer r.Done()
	defer debug.SetPanicOnFault(debug.SetPanicOnFault(true))
	if i, _ := verifkit.Shard(); i != 0 {
		r.Info("other_shards", "large buffers run on shard 0 only")
		return
	}
	impls := c25Impls()
	const top = 1<<20 + 64
	f, err := c25NewFence(top)
	if err != nil {
		r.Inconclusive("cannot create guard-page mapping: " + err.Error())
		return
	}
	defer f.close()
	// reference self test against the worked example of RFC 1071 §3
	if got := c25Ref([]byte{0x00, 0x01, 0xf2, 0x03, 0xf4, 0xf5, 0xf6, 0xf7}, 0); got != 0xddf2 {
		r.Violation("C25/reference-selftest", fmt.Sprintf("reference gives %#04x on the RFC 1071 example, want 0xddf2", got), nil)
	}
	var lens []int
	for _, base := range []int{4096, 8192, 9000, 16384, 32768, 65535, 65536, 131072, 1 << 20} {
		for _, d := range []int{-33, -31, -1, 0, 1, 31, 33} {
			lens = append(lens, base+d)
		}
	}
	rng := verifkit.NewRand("C25large")
	for i := 0; i < verifkit.Scale(20, 400); i++ {
		lens = append(lens, 4201+rng.IntN(top-64-4201))
	}
	content := make([]byte, top)
	for _, p := range c25Patterns {
		if p.name != "ff" && p.name != "random" && p.name != "carry-heavy" && p.name != "ff-single-clear" {
			continue
		}
		for li, n := range lens {
			sub := verifkit.SubRand("C25large-"+p.name, li)
			buf := content[:n]
			p.fill(buf, sub)
			seeds := []uint16{0, 0xffff, uint16(sub.Uint32())}
			c25RunGroup(r, f, impls, p.name, buf, seeds, []int{0, 1 + sub.IntN(63)}, false)
		}
	}
	r.Sample(map[string]any{"lengths": lens[:min(len(lens), 70)]})
}
