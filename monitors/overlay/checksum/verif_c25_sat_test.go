//go:build linux

package checksum

// C25, accumulator-saturation family. An implementation that sums in a wide register and feeds carries
// back can be wrong only when an intermediate sum lands on the register's wrap — inputs that random or
// "boundary" initial values reach with negligible probability. This unit aims there on purpose:
//
//	(a) ALL 65536 initial values x every length 0..160 x {all-0xff, all-0x00, 0xff with one cleared bit}
//	    flush against both guard pages and at a few other alignments;
//	(b) constructed near-wrap buffers: [body of 0/32/64/128 zero or 0xff bytes] + k-1 words of 0xff +
//	    one solved 8-byte word [+ 4-, 2-, 1-byte steps], where the solved word makes the running 64-bit
//	    little-endian end-around sum reach 2^64+d, d=-8..8, exactly at the chosen step (last 8-byte word,
//	    4-byte, 2-byte or 1-byte step), for every initial value; the prefix sum is modelled both as 64-bit
//	    words and as zero-extended 32-bit lanes so that either accumulation style is driven to its wrap;
//	(c) chained use Checksum(b, Checksum(a, 0)) == reference(a||b) for even len(a).
//
// The oracle is unchanged: c25Ref (plain RFC 1071). The construction only chooses inputs.

import (
	"encoding/binary"
	"fmt"
	"math/bits"
	"runtime/debug"
	"testing"

	"github.com/slackhq/nebula/verifkit"
)

// c25RefFromAcc is c25Ref with the buffer part of the accumulation done once: acc = sum of the big-endian
// words of the buffer, the initial value is added and the carries folded exactly as in c25Ref.
func c25WordAcc(b []byte) uint64 {
	var sum uint64
	i := 0
	for ; i+1 < len(b); i += 2 {
		sum += uint64(b[i])<<8 | uint64(b[i+1])
	}
	if i < len(b) {
		sum += uint64(b[i]) << 8
	}
	return sum
}

func c25FoldAcc(sum uint64) uint16 {
	for sum>>16 != 0 {
		sum = sum&0xffff + sum>>16
	}
	return uint16(sum)
}

// c25Add64 is a 64-bit one's-complement add (end-around carry) — used by the generator only.
func c25Add64(a, b uint64) uint64 {
	s, c := bits.Add64(a, b, 0)
	return s + c
}

// c25LEPrefix models the running little-endian sum an implementation holds after the initial value and
// the body: lanes32=false sums the body as 64-bit words, lanes32=true as zero-extended 32-bit words.
func c25LEPrefix(initial uint16, body []byte, lanes32 bool) uint64 {
	acc := uint64(bits.ReverseBytes16(initial))
	if lanes32 {
		for i := 0; i+4 <= len(body); i += 4 {
			acc = c25Add64(acc, uint64(binary.LittleEndian.Uint32(body[i:])))
		}
	} else {
		for i := 0; i+8 <= len(body); i += 8 {
			acc = c25Add64(acc, binary.LittleEndian.Uint64(body[i:]))
		}
	}
	return acc
}

type c25SatRun struct {
	r     *verifkit.Reporter
	f     *c25Fence
	impls []c25Impl
	evals int
	cur   c25Case
	buf   []byte // content of the current case (for the witness)
}

// check runs content (already in c.buf) at the two flush placements for all implementations.
func (c *c25SatRun) check(pattern string, content []byte, initial, want uint16, dists []int) {
	n := len(content)
	for _, d := range dists {
		for pl := 0; pl < 2; pl++ {
			var b []byte
			if pl == 0 {
				b = c.f.front(n, d)
			} else {
				b = c.f.back(n, d)
			}
			copy(b, content)
			for _, im := range c.impls {
				got := im.fn(b, initial)
				c.evals++
				if got != want {
					c.cur = c25Case{Impl: im.name, Pattern: pattern, Length: n, Distance: d, Initial: initial, Want: want, Got: got,
						Placement: []string{"after-leading-guard", "before-trailing-guard"}[pl]}
					c25Judge(c.r, &c.cur, content)
				}
			}
		}
	}
}

func TestVerifC25Saturation(t *testing.T) {
	r := verifkit.NewReporter(t, "C25", "saturation",
		"case = one checksum call; (a) all 65536 initial values x lengths 0..160 x {ff, zero, ff with one cleared bit (last byte / PRNG position)} x both guard placements at distance 0 (+ distances 1,7,33 for every 8th initial value); (b) constructed buffers whose running 64-bit little-endian sum reaches 2^64+d (d=-8..8) at the last 8-byte word or at the 4/2/1-byte tail step, tails of 8/16/24 bytes alone (every initial value) and after 32/64/128 byte bodies of zero / 0xff (every 16th initial value at quick, every one at thorough); (c) chained Checksum(b, Checksum(a,0)); distinct = distinct (family, geometry, d, accumulation model, high byte of the initial value) tuples")
	defer r.Done()
	defer debug.SetPanicOnFault(debug.SetPanicOnFault(true))
	impls := c25Impls()
	if len(impls) < 2 {
		r.Inconclusive("no accelerated implementation can run on this CPU")
	}
	f, err := c25NewFence(4096)
	if err != nil {
		r.Inconclusive("cannot create guard-page mapping: " + err.Error())
		return
	}
	defer f.close()
	run := &c25SatRun{r: r, f: f, impls: impls}
	portable := &c25SatRun{r: r, f: f, impls: []c25Impl{{name: "dispatch-portable", fn: func(b []byte, s uint16) uint16 {
		defer c25ForceFallback()()
		return Checksum(b, s)
	}}}}
	guard := func(what string, fn func()) {
		r.Pre("C25 saturation %s", what)
		r.Guard("C25/guard-page-fault", func() any {
			cc := run.cur
			cc.Content = verifkit.Hex(run.buf)
			return map[string]any{"group": what, "last_mismatch_case": cc, "content": verifkit.Hex(run.buf)}
		}, fn)
	}
	flush := []int{0}
	extra := []int{1, 7, 33}

	// (a) every initial value on short saturated buffers
	const maxLenA = 160
	type patA struct {
		name string
		fill func(b []byte, n int)
	}
	pats := []patA{
		{"ff", func(b []byte, n int) {
			for i := range b {
				b[i] = 0xff
			}
		}},
		{"zero", func(b []byte, n int) { clear(b) }},
		{"ff-clear-last", func(b []byte, n int) {
			for i := range b {
				b[i] = 0xff
			}
			if n > 0 {
				b[n-1] = 0xfe
			}
		}},
		{"ff-clear-prng", func(b []byte, n int) {
			for i := range b {
				b[i] = 0xff
			}
			if n > 0 {
				rng := verifkit.SubRand("C25satA", n)
				b[rng.IntN(n)] &^= 1 << rng.IntN(8)
			}
		}},
	}
	content := make([]byte, 512)
	gi := 0
	for pi, p := range pats {
		for n := 0; n <= maxLenA; n++ {
			idx := gi
			gi++
			if !verifkit.Mine(idx) {
				continue
			}
			buf := content[:n]
			p.fill(buf, n)
			run.buf = buf
			acc := c25WordAcc(buf)
			guard(fmt.Sprintf("(a) pattern=%s length=%d all initial values", p.name, n), func() {
				for s := 0; s < 1<<16; s++ {
					want := c25FoldAcc(acc + uint64(s))
					run.check(p.name, buf, uint16(s), want, flush)
					if s&7 == 0 {
						run.check(p.name, buf, uint16(s), want, extra)
					}
					if n <= 48 || s&15 == 0 {
						portable.check(p.name, buf, uint16(s), want, flush)
					}
				}
			})
			for hb := 0; hb < 256; hb++ {
				r.DistinctU64(uint64(1)<<56 | uint64(pi)<<48 | uint64(n)<<32 | uint64(hb))
			}
			// the reference shortcut (accumulate once, add the initial value) is c25Ref itself
			if s := uint16(n*257 + pi); c25Ref(buf, s) != c25FoldAcc(acc+uint64(s)) {
				r.Violation("C25/reference-selftest", "accumulate-once reference disagrees with c25Ref", nil)
			}
		}
	}
	r.Exhaustive(fmt.Sprintf("all 65536 initial values x lengths 0..%d x {ff, zero, ff with last bit cleared, ff with one PRNG bit cleared} x both guard placements at distance 0 x {avx2, dispatcher}", maxLenA))

	// (b) constructed near-wrap buffers
	type body struct {
		n    int
		fill byte
	}
	bodies := []body{{0, 0}, {32, 0}, {64, 0}, {128, 0}, {32, 0xff}, {64, 0xff}, {128, 0xff}}
	// tail steps after the 8-byte words: which sub-word steps exist and which one is driven to the wrap
	type tailShape struct {
		name   string
		steps  []int // sizes of the sub-word steps present, in order (subset of 4,2,1)
		target int   // index into steps of the step that must wrap; -1: the last 8-byte word
	}
	shapes := []tailShape{
		{"word", nil, -1}, {"word+7", []int{4, 2, 1}, -1},
		{"4", []int{4}, 0}, {"4of7", []int{4, 2, 1}, 0},
		{"2", []int{2}, 0}, {"2of6", []int{4, 2}, 1}, {"2of3", []int{2, 1}, 0},
		{"1", []int{1}, 0}, {"1of7", []int{4, 2, 1}, 2}, {"1of5", []int{4, 1}, 1},
	}
	ci := 0
	for bi, bd := range bodies {
		for k := 1; k <= 3; k++ {
			for si, sh := range shapes {
				for model := 0; model < 2; model++ {
					if model == 1 && bd.fill == 0 {
						continue // both accumulation models agree on zero bodies
					}
					idx := ci
					ci++
					if !verifkit.Mine(idx) {
						continue
					}
					sub := 0
					for _, st := range sh.steps {
						sub += st
					}
					n := bd.n + 8*k + sub
					buf := content[:n]
					run.buf = buf
					what := fmt.Sprintf("(b) body=%dx%#02x words=%d tail=%s model=%d", bd.n, bd.fill, k, sh.name, model)
					guard(what, func() {
						rng := verifkit.SubRand("C25satB", idx)
						// every initial value for the bare tails; with a body every 16th at quick (all at thorough)
						s0, step := 0, 1
						if bd.n > 0 && !verifkit.Thorough() {
							s0, step = idx%16, 16
						}
						for s := s0; s < 1<<16; s += step {
							for i := 0; i < bd.n; i++ {
								buf[i] = bd.fill
							}
							acc := c25LEPrefix(uint16(s), buf[:bd.n], model == 1)
							for w := 0; w < k-1; w++ {
								binary.LittleEndian.PutUint64(buf[bd.n+8*w:], ^uint64(0))
								acc = c25Add64(acc, ^uint64(0))
							}
							// operands of the sub-word steps
							off := bd.n + 8*k
							var pre uint64 // what the steps before the target step add
							var tgt uint64 // operand of the target step
							for i, st := range sh.steps {
								var v uint64
								switch st {
								case 4:
									v = uint64(^uint32(0))
									if s&1 == 1 {
										v = uint64(rng.Uint32() | 1<<31)
									}
									binary.LittleEndian.PutUint32(buf[off:], uint32(v))
								case 2:
									v = 0xffff
									if s&2 == 2 {
										v = uint64(rng.Uint32()&0xffff | 1<<15)
									}
									binary.LittleEndian.PutUint16(buf[off:], uint16(v))
								case 1:
									v = 0xff
									if s&4 == 4 {
										v = uint64(rng.Uint32()&0xff | 1<<7)
									}
									buf[off] = byte(v)
								}
								off += st
								if i < sh.target {
									pre += v
								} else if i == sh.target {
									tgt = v
								}
							}
							for d := -8; d <= 8; d++ {
								// solve the last 8-byte word: acc + W + pre + tgt == 2^64 + d
								w := uint64(d) - acc - pre - tgt
								binary.LittleEndian.PutUint64(buf[bd.n+8*(k-1):], w)
								want := c25Ref(buf, uint16(s))
								run.check("near-wrap "+what, buf, uint16(s), want, flush)
							}
						}
					})
					for hb := 0; hb < 256; hb++ {
						r.DistinctU64(uint64(2)<<56 | uint64(bi)<<48 | uint64(k)<<44 | uint64(si)<<36 | uint64(model)<<32 | uint64(hb))
					}
					r.Count("near_wrap_geometries", 1)
				}
			}
		}
	}

	// (c) chained use: the checksum of a||b is the checksum of b seeded with the checksum of a (len(a) even)
	nC := verifkit.Scale(60_000, 3_000_000)
	for i := 0; i < nC; i++ {
		if !verifkit.Mine(i) {
			continue
		}
		rng := verifkit.SubRand("C25chain", i)
		la := 2 * rng.IntN(120)
		lb := rng.IntN(240)
		ab := content[:la+lb]
		pat := c25Patterns[[]int{1, 4, 5, 7}[rng.IntN(4)]]
		pat.fill(ab, rng)
		if rng.IntN(4) == 0 && la >= 8 {
			// make the first part sum to (almost) nothing so that the chained initial value is 0xffff / 0 / 1
			for j := range ab[:la] {
				ab[j] = 0xff
			}
		}
		want := c25Ref(ab, 0)
		run.buf = ab
		guard(fmt.Sprintf("(c) chain la=%d lb=%d", la, lb), func() {
			for _, im := range impls {
				a := f.back(la, 0)
				copy(a, ab[:la])
				mid := im.fn(a, 0)
				b := f.back(lb, 0)
				copy(b, ab[la:])
				got := im.fn(b, mid)
				run.evals += 2
				if got != want {
					cc := c25Case{Impl: im.name, Pattern: "chained " + pat.name, Length: la + lb, Placement: "before-trailing-guard", Initial: mid, Want: want, Got: got}
					key := "C25/chained-mismatch-" + im.name
					if (got == 0 || got == 0xffff) && (want == 0 || want == 0xffff) {
						key = "C25/chained-zero-representation-" + im.name
					}
					cc.Content = verifkit.Hex(ab)
					r.Violation(key, fmt.Sprintf("%s: Checksum(b, Checksum(a,0)) = %#04x with len(a)=%d len(b)=%d, reference over a||b = %#04x", im.name, got, la, lb, want), cc)
				}
			}
		})
		r.DistinctU64(uint64(3)<<56 | uint64(la)<<32 | uint64(lb)<<16 | uint64(c25PatIndex(pat.name)))
	}
	r.Eval(run.evals + portable.evals)
}
