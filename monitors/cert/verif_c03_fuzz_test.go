package cert

// C03 (decoder half) — decoding arbitrary bytes never panics, and whatever a decoder accepts obeys the structural
// rules that signing enforces.
//
// Inputs: random bytes; mutated valid encodings (standard and handshake form, both versions and curves); grammar-aware
// ASN.1 (v2) and protobuf (v1) certificates assembled field by field by an independent writer with deviations
// (missing / reordered / duplicated fields, wrong tags, non-minimal or wrong lengths, forbidden networks, empty
// strings, odd key and signature sizes, trailing bytes). Every input goes to every decoder entry point.

import (
	"encoding/binary"
	"encoding/pem"
	"errors"
	"fmt"
	"hash/fnv"
	mrand "math/rand/v2"
	"net/netip"
	"slices"
	"testing"

	"github.com/slackhq/nebula/verifkit"
)

// --- independent structural rule list (from the documentation / error texts of the signing API) -------------------

func c03StructuralViolation(v Version, isCA bool, pub []byte, nets, unsafe []netip.Prefix) string {
	if len(pub) == 0 {
		return "empty public key"
	}
	if !isCA && len(nets) == 0 {
		return "host certificate without a network"
	}
	has4, has6 := false, false
	seen := map[netip.Prefix]bool{}
	for _, n := range nets {
		switch {
		case !n.IsValid():
			return "invalid network"
		case n.Addr().IsUnspecified():
			return "zero address as network"
		case n.Addr().Zone() != "":
			return "zoned network"
		case v == Version1 && !n.Addr().Is4():
			return "v1 certificate with a non-IPv4 network"
		case v == Version2 && n.Addr().Is4In6():
			return "4in6 network"
		case v == Version2 && seen[n]:
			return "duplicate network"
		}
		seen[n] = true
		has4 = has4 || n.Addr().Is4()
		has6 = has6 || n.Addr().Is6()
	}
	seen = map[netip.Prefix]bool{}
	for _, n := range unsafe {
		switch {
		case !n.IsValid():
			return "invalid unsafe network"
		case n.Addr().Zone() != "":
			return "zoned unsafe network"
		case v == Version1 && !n.Addr().Is4():
			return "v1 certificate with a non-IPv4 unsafe network"
		case v == Version2 && seen[n]:
			return "duplicate unsafe network"
		case v == Version2 && !isCA && n.Addr().Is4() && !has4:
			return "IPv4 unsafe network without an IPv4 assignment"
		case v == Version2 && !isCA && n.Addr().Is6() && !has6:
			return "IPv6 unsafe network without an IPv6 assignment"
		}
		seen[n] = true
	}
	return ""
}

// c03JudgeAccepted applies oracle (b) to a certificate some decoder accepted.
func c03JudgeAccepted(r *verifkit.Reporter, c Certificate, how string, rec func() any) {
	r.Count("decoder_accepted", 1)
	r.Count("accepted_via_"+how, 1)
	if c.Curve() != Curve_CURVE25519 && c.Curve() != Curve_P256 {
		r.Count("accepted_with_unknown_curve(not judged)", 1)
	}
	// (b1) the signer's own validation of the same fields
	t := &TBSCertificate{Version: c.Version(), Name: c.Name(), Networks: slices.Clone(c.Networks()), UnsafeNetworks: slices.Clone(c.UnsafeNetworks()),
		Groups: slices.Clone(c.Groups()), IsCA: c.IsCA(), NotBefore: c.NotBefore(), NotAfter: c.NotAfter(), PublicKey: slices.Clone(c.PublicKey()),
		Curve: c.Curve(), issuer: c.Issuer()}
	var verr error
	r.Guard("C03/signer-validation-panic", rec, func() {
		switch c.Version() {
		case Version1:
			verr = (&certificateV1{}).fromTBSCertificate(t)
		case Version2:
			verr = (&certificateV2{}).fromTBSCertificate(t)
		default:
			verr = fmt.Errorf("decoder produced version %d", c.Version())
		}
	})
	if verr != nil {
		r.Violation("C03/decoder-accepts-what-signer-rejects", fmt.Sprintf("decoder (%s) accepted a certificate whose fields the signer's validation refuses: %v", how, verr), rec())
	}
	// (b2) independent rule list
	if why := c03StructuralViolation(c.Version(), c.IsCA(), c.PublicKey(), c.Networks(), c.UnsafeNetworks()); why != "" {
		r.Violation("C03/decoder-accepts-structurally-invalid", fmt.Sprintf("decoder (%s) accepted a certificate with: %s", how, why), rec())
	}
	// an accepted certificate must be usable: none of the pure accessors / encoders may panic
	r.Guard("C03/accepted-certificate-method-panic", rec, func() {
		_, _ = c.Fingerprint()
		_, _ = c.Marshal()
		_, _ = c.MarshalPEM()
		_, _ = c.MarshalForHandshakes()
		_, _ = c.MarshalJSON()
		_ = c.String()
		_ = c.Copy()
		_ = c.CheckSignature(c.PublicKey())
		_ = c.MarshalPublicKeyPEM()
	})
}

func c03ErrClass(err error) string {
	var ip *ErrInvalidCertificateProperties
	switch {
	case err == nil:
		return "accepted"
	case errors.As(err, &ip):
		return "invalid-properties"
	case errors.Is(err, ErrBadFormat):
		return "bad-format"
	case errors.Is(err, ErrCertPubkeyPresent):
		return "pubkey-present"
	case errors.Is(err, ErrInvalidPublicKey):
		return "invalid-public-key"
	default:
		return "other-error"
	}
}

// c03Feed gives one input to every decoder entry point.
func c03Feed(r *verifkit.Reporter, kind string, in []byte, pub []byte, idx int) {
	rec := func() any {
		return map[string]any{"case_index": idx, "generator": kind, "input_hex": verifkit.Hex(in), "detached_public_key_hex": verifkit.Hex(pub)}
	}
	reached := false
	note := func(how string, c Certificate, err error) {
		r.Eval(1)
		cls := c03ErrClass(err)
		r.DistinctClass(kind + " " + how + " -> " + cls)
		if cls == "accepted" || cls == "invalid-properties" || cls == "invalid-public-key" {
			reached = true // got through the wire grammar to the structural validation
		}
		if err == nil {
			c03JudgeAccepted(r, c, how, rec)
		}
	}
	guard := func(f func()) { r.Guard("C03/decoder-panic", rec, f) }
	guard(func() {
		c, err := unmarshalCertificateV1(in, nil)
		if err == nil {
			note("v1", c, nil)
		} else {
			note("v1", nil, err)
		}
	})
	guard(func() {
		c, err := unmarshalCertificateV1(in, pub)
		if err == nil {
			note("v1+pub", c, nil)
		} else {
			note("v1+pub", nil, err)
		}
	})
	for cu := Curve(0); cu < 2; cu++ {
		guard(func() {
			c, err := unmarshalCertificateV2(in, nil, cu)
			if err == nil {
				note("v2", c, nil)
			} else {
				note("v2", nil, err)
			}
		})
		guard(func() {
			c, err := unmarshalCertificateV2(in, pub, cu)
			if err == nil {
				note("v2+pub", c, nil)
			} else {
				note("v2+pub", nil, err)
			}
		})
	}
	for _, v := range []Version{VersionPre1, Version1, Version2, Version(3)} {
		for cu := Curve(0); cu < 2; cu++ {
			guard(func() {
				c, err := Recombine(v, in, pub, cu)
				note(fmt.Sprintf("recombine(v%d)", v), c, err)
			})
		}
	}
	for _, banner := range []string{CertificateBanner, CertificateV2Banner} {
		guard(func() {
			c, _, err := UnmarshalCertificateFromPEM(pem.EncodeToMemory(&pem.Block{Type: banner, Bytes: in}))
			note("pem("+banner+")", c, err)
		})
	}
	guard(func() { // the input taken as PEM text itself
		c, _, err := UnmarshalCertificateFromPEM(in)
		note("pem(raw)", c, err)
	})
	if reached {
		h := fnv.New64a()
		h.Write(in)
		h.Write(pub)
		r.DistinctU64(h.Sum64())
		r.Count("inputs_reaching_structural_validation", 1)
	}
}

// --- independent DER writer ---------------------------------------------------------------------------------------

func c03Len(n int, mode int) []byte {
	switch mode {
	case 1: // non-minimal long form
		return []byte{0x82, byte(n >> 8), byte(n)}
	case 2: // one too many
		n++
	case 3: // one too few
		if n > 0 {
			n--
		}
	case 4: // indefinite
		return []byte{0x80}
	}
	switch {
	case n < 128:
		return []byte{byte(n)}
	case n < 256:
		return []byte{0x81, byte(n)}
	case n < 65536:
		return []byte{0x82, byte(n >> 8), byte(n)}
	default:
		return []byte{0x83, byte(n >> 16), byte(n >> 8), byte(n)}
	}
}

func c03TLV(tag byte, content []byte, mode int) []byte {
	out := []byte{tag}
	out = append(out, c03Len(len(content), mode)...)
	return append(out, content...)
}

func c03DERInt(v int64, style int) []byte {
	var b [8]byte
	binary.BigEndian.PutUint64(b[:], uint64(v))
	i := 0
	for i < 7 && ((b[i] == 0 && b[i+1]&0x80 == 0) || (b[i] == 0xff && b[i+1]&0x80 != 0)) {
		i++
	}
	out := slices.Clone(b[i:])
	switch style {
	case 1: // non-minimal
		if v >= 0 {
			out = append([]byte{0}, out...)
		} else {
			out = append([]byte{0xff}, out...)
		}
	case 2: // nine bytes
		out = append([]byte{0x01}, b[:]...)
	case 3:
		out = nil
	}
	return out
}

type c03Dev struct {
	rng *mrand.Rand
	p   float64 // probability of each individual deviation
	n   int     // deviations taken
}

func (d *c03Dev) dev() bool {
	if d.rng.Float64() < d.p {
		d.n++
		return true
	}
	return false
}

func (d *c03Dev) lenMode() int {
	if d.dev() {
		return 1 + d.rng.IntN(4)
	}
	return 0
}

func c03GenNetBytes(d *c03Dev) []byte {
	rng := d.rng
	var b []byte
	if rng.IntN(2) == 0 {
		a := c03RandV4(rng).As4()
		b = append(a[:], byte(rng.IntN(33)))
	} else {
		a := c03RandV6(rng).As16()
		b = append(a[:], byte(rng.IntN(129)))
	}
	if d.dev() {
		switch rng.IntN(9) {
		case 0:
			b = nil
		case 1:
			b = []byte{byte(rng.IntN(256))}
		case 2:
			b = append(b, 0)
		case 3:
			b = b[:len(b)-2]
		case 4:
			b[len(b)-1] = c03Pick(rng, byte(33), 129, 200, 255)
		case 5: // zero address
			for i := 0; i < len(b)-1; i++ {
				b[i] = 0
			}
		case 6: // 4in6
			a := c03RandV4(rng).As4()
			b = append([]byte{0, 0, 0, 0, 0, 0, 0, 0, 0, 0, 0xff, 0xff, a[0], a[1], a[2], a[3]}, byte(96+rng.IntN(33)))
		case 7: // 6 bytes: neither family
			b = []byte{1, 2, 3, 4, 5, 24}
		case 8: // longer than MaxNetworkLength: address with a zone
			a := c03RandV6(rng).As16()
			b = append(append(a[:], []byte("eth0")...), 64)
		}
	}
	return b
}

// c03GenV2 assembles a v2 certificate; withKey=false gives the handshake form. Returns the bytes and the detached key.
func c03GenV2(rng *mrand.Rand, p float64) ([]byte, []byte, int) {
	d := &c03Dev{rng: rng, p: p}
	var fields [][]byte
	isCA := rng.IntN(3) == 0
	// name
	nameLen := 1 + rng.IntN(20)
	if d.dev() {
		nameLen = c03Pick(rng, 0, 253, 254, 255, 300)
	}
	name := c03TLV(0x80, []byte(c03Fill(rng, nameLen, c03Pick(rng, "ascii", "ascii", "badutf8", "nul"))), d.lenMode())
	if d.dev() {
		name[0] = c03Pick(rng, byte(0x0c), 0x81, 0xa0)
	}
	if !d.dev() {
		fields = append(fields, name)
	}
	list := func(tag byte, n int, elemTag byte, gen func() []byte) []byte {
		var body []byte
		var elems [][]byte
		for i := 0; i < n; i++ {
			et := elemTag
			if d.dev() {
				et = c03Pick(rng, byte(0x04), 0x0c, 0x02, 0x30)
			}
			elems = append(elems, c03TLV(et, gen(), d.lenMode()))
		}
		if d.dev() && len(elems) > 0 {
			elems = append(elems, elems[rng.IntN(len(elems))]) // duplicate
		}
		for _, e := range elems {
			body = append(body, e...)
		}
		if d.dev() {
			body = append(body, byte(rng.IntN(256)))
		}
		return c03TLV(tag, body, d.lenMode())
	}
	nn := rng.IntN(4)
	if !isCA && nn == 0 {
		nn = 1
	}
	if d.dev() {
		nn = c03Pick(rng, 0, 0, 40)
	}
	if nn > 0 || d.dev() {
		fields = append(fields, list(0xa1, nn, 0x04, func() []byte { return c03GenNetBytes(d) }))
	}
	if un := rng.IntN(3); un > 0 || d.dev() {
		fields = append(fields, list(0xa2, un, 0x04, func() []byte { return c03GenNetBytes(d) }))
	}
	if gn := rng.IntN(4); gn > 0 || d.dev() {
		fields = append(fields, list(0xa3, gn, 0x0c, func() []byte {
			l := 1 + rng.IntN(8)
			if d.dev() {
				l = c03Pick(rng, 0, 0, 300)
			}
			return []byte(c03Fill(rng, l, c03Pick(rng, "ascii", "utf8", "badutf8")))
		}))
	}
	if isCA || d.dev() {
		v := []byte{0xff}
		if d.dev() {
			v = c03Pick(rng, []byte{0}, []byte{1}, []byte{}, []byte{0xff, 0xff})
		}
		fields = append(fields, c03TLV(0x84, v, d.lenMode()))
	}
	tm := func(tag byte) {
		v := c03Pick(rng, c03Times...)
		if rng.IntN(2) == 0 {
			v = rng.Int64N(1 << 33)
		}
		if d.dev() {
			v = c03Pick(rng, int64(-1<<63), 1<<63-1, -1)
		}
		st := 0
		if d.dev() {
			st = 1 + rng.IntN(3)
		}
		f := c03TLV(tag, c03DERInt(v, st), d.lenMode())
		if !d.dev() {
			fields = append(fields, f)
		}
	}
	tm(0x85)
	tm(0x86)
	if !isCA || d.dev() {
		il := 32
		if d.dev() {
			il = c03Pick(rng, 0, 1, 31, 33, 64)
		}
		iss := make([]byte, il)
		for i := range iss {
			iss[i] = byte(rng.IntN(256))
		}
		fields = append(fields, c03TLV(0x87, iss, d.lenMode()))
	}
	if d.dev() {
		rng.Shuffle(len(fields), func(i, j int) { fields[i], fields[j] = fields[j], fields[i] })
	}
	if d.dev() && len(fields) > 0 {
		fields = append(fields, fields[rng.IntN(len(fields))])
	}
	if d.dev() {
		fields = append(fields, c03TLV(c03Pick(rng, byte(0x88), 0x04, 0xbf), []byte{1, 2, 3}, 0))
	}
	var det []byte
	for _, f := range fields {
		det = append(det, f...)
	}
	dtag := byte(0xa0)
	if d.dev() {
		dtag = c03Pick(rng, byte(0x30), 0x80, 0xa1)
	}
	body := c03TLV(dtag, det, d.lenMode())
	if d.dev() {
		body = nil
	}
	curve := Curve(rng.IntN(2))
	handshake := rng.IntN(2) == 0
	if (curve != Curve_CURVE25519 && !handshake) || d.dev() {
		cv := []byte{byte(curve)}
		if d.dev() {
			cv = c03Pick(rng, []byte{0}, []byte{2}, []byte{255}, []byte{}, []byte{1, 0})
		}
		body = append(body, c03TLV(0x81, cv, d.lenMode())...)
	}
	kl := 32
	if curve == Curve_P256 {
		kl = 65
	}
	if d.dev() {
		kl = c03Pick(rng, 0, 1, 31, 33, 64, 66)
	}
	key := make([]byte, kl)
	for i := range key {
		key[i] = byte(rng.IntN(256))
	}
	var detached []byte
	if handshake {
		detached = key
		if d.dev() { // key on the wire although one is supplied
			body = append(body, c03TLV(0x82, key, 0)...)
		}
	} else if !d.dev() {
		body = append(body, c03TLV(0x82, key, d.lenMode())...)
	}
	sl := 64
	if d.dev() {
		sl = c03Pick(rng, 0, 1, 63, 72, 200)
	}
	sig := make([]byte, sl)
	for i := range sig {
		sig[i] = byte(rng.IntN(256))
	}
	if !d.dev() {
		body = append(body, c03TLV(0x83, sig, d.lenMode())...)
	}
	if d.dev() {
		body = append(body, byte(rng.IntN(256)), byte(rng.IntN(256)))
	}
	otag := byte(0x30)
	if d.dev() {
		otag = c03Pick(rng, byte(0x31), 0xa0, 0x10)
	}
	out := c03TLV(otag, body, d.lenMode())
	if d.dev() {
		out = append(out, 0, 0)
	}
	return out, detached, d.n
}

// --- independent protobuf writer ----------------------------------------------------------------------------------

func c03Varint(v uint64) []byte {
	var b []byte
	for v >= 0x80 {
		b = append(b, byte(v)|0x80)
		v >>= 7
	}
	return append(b, byte(v))
}

func c03PBKey(field int, wt int) []byte { return c03Varint(uint64(field)<<3 | uint64(wt)) }

func c03PBBytes(field int, b []byte) []byte {
	return append(append(c03PBKey(field, 2), c03Varint(uint64(len(b)))...), b...)
}

func c03PBVar(field int, v uint64) []byte { return append(c03PBKey(field, 0), c03Varint(v)...) }

func c03GenV1(rng *mrand.Rand, p float64) ([]byte, []byte, int) {
	d := &c03Dev{rng: rng, p: p}
	isCA := rng.IntN(3) == 0
	var det []byte
	nl := rng.IntN(20)
	if d.dev() {
		nl = c03Pick(rng, 0, 254, 1000)
	}
	nameKind := "ascii"
	if d.dev() {
		nameKind = c03Pick(rng, "badutf8", "nul", "utf8")
	}
	det = append(det, c03PBBytes(1, []byte(c03Fill(rng, nl, nameKind)))...)
	pairs := func(field int, n int) {
		var vals []uint64
		for i := 0; i < n; i++ {
			a := c03RandV4(rng).As4()
			ip := uint64(binary.BigEndian.Uint32(a[:]))
			bits := rng.IntN(33)
			mask := uint64(0xffffffff) << (32 - bits) & 0xffffffff
			if d.dev() {
				switch rng.IntN(5) {
				case 0:
					ip = 0
				case 1:
					mask = uint64(rng.Uint32()) // non-contiguous
				case 2:
					ip = 1 << 33 // does not fit uint32
				case 3:
					mask = 0
				case 4:
					ip = 0xffffffff
				}
			}
			vals = append(vals, ip, mask)
		}
		if d.dev() && len(vals) > 0 {
			vals = vals[:len(vals)-1] // odd count
		}
		if d.dev() { // unpacked encoding
			for _, v := range vals {
				det = append(det, c03PBVar(field, v)...)
			}
			return
		}
		var packed []byte
		for _, v := range vals {
			packed = append(packed, c03Varint(v)...)
		}
		if len(vals) > 0 || d.dev() {
			det = append(det, c03PBBytes(field, packed)...)
		}
	}
	nn := rng.IntN(3)
	if !isCA && nn == 0 {
		nn = 1
	}
	if d.dev() {
		nn = c03Pick(rng, 0, 0, 40)
	}
	pairs(2, nn)
	pairs(3, rng.IntN(3))
	for i := rng.IntN(4); i > 0; i-- {
		gl := 1 + rng.IntN(8)
		if d.dev() {
			gl = 0
		}
		det = append(det, c03PBBytes(4, []byte(c03Fill(rng, gl, "ascii")))...)
	}
	tmv := func() uint64 {
		v := c03Pick(rng, c03Times...)
		if d.dev() {
			v = c03Pick(rng, int64(-1<<63), 1<<63-1)
		}
		return uint64(v)
	}
	det = append(det, c03PBVar(5, tmv())...)
	det = append(det, c03PBVar(6, tmv())...)
	curve := rng.IntN(2)
	kl := 32
	if curve == 1 {
		kl = 65
	}
	if d.dev() {
		kl = c03Pick(rng, 0, 1, 33, 64)
	}
	key := make([]byte, kl)
	for i := range key {
		key[i] = byte(rng.IntN(256))
	}
	handshake := rng.IntN(2) == 0
	var detached []byte
	if handshake {
		detached = key
		if d.dev() {
			det = append(det, c03PBBytes(7, key)...)
		}
	} else if !d.dev() {
		det = append(det, c03PBBytes(7, key)...)
	}
	if isCA {
		v := uint64(1)
		if d.dev() {
			v = c03Pick(rng, uint64(0), 2, 1<<40)
		}
		det = append(det, c03PBVar(8, v)...)
	}
	if !isCA || d.dev() {
		il := 32
		if d.dev() {
			il = c03Pick(rng, 0, 1, 64)
		}
		iss := make([]byte, il)
		for i := range iss {
			iss[i] = byte(rng.IntN(256))
		}
		det = append(det, c03PBBytes(9, iss)...)
	}
	if curve != 0 || d.dev() {
		cv := uint64(curve)
		if d.dev() {
			cv = c03Pick(rng, uint64(2), 100, 1<<31, 1<<63)
		}
		det = append(det, c03PBVar(100, cv)...)
	}
	if d.dev() { // unknown field / wrong wire type
		det = append(det, c03Pick(rng, c03PBVar(50, 7), c03PBBytes(5, []byte{1, 2}), c03PBKey(1, 5), []byte{0xff, 0xff, 0xff, 0xff, 0xff, 0xff, 0xff, 0xff, 0xff, 0xff, 0x01})...)
	}
	if d.dev() && len(det) > 2 {
		det = det[:rng.IntN(len(det))]
	}
	var out []byte
	if !d.dev() {
		out = append(out, c03PBBytes(1, det)...)
	}
	if d.dev() { // details given twice: protobuf merges
		out = append(out, c03PBBytes(1, det)...)
	}
	sl := 64
	if d.dev() {
		sl = c03Pick(rng, 0, 1, 200)
	}
	sig := make([]byte, sl)
	for i := range sig {
		sig[i] = byte(rng.IntN(256))
	}
	out = append(out, c03PBBytes(2, sig)...)
	if d.dev() {
		out = append(out, byte(rng.IntN(256)))
	}
	return out, detached, d.n
}

// --- byte-level mutation of valid encodings -----------------------------------------------------------------------

func c03Mutate(rng *mrand.Rand, in []byte, pool [][]byte) []byte {
	b := slices.Clone(in)
	for k := 1 + rng.IntN(3); k > 0; k-- {
		if len(b) == 0 {
			b = append(b, byte(rng.IntN(256)))
			continue
		}
		i := rng.IntN(len(b))
		switch rng.IntN(9) {
		case 0:
			b[i] ^= 1 << rng.IntN(8)
		case 1:
			b[i] = byte(rng.IntN(256))
		case 2:
			j := min(len(b), i+1+rng.IntN(8))
			b = slices.Delete(b, i, j)
		case 3:
			ins := make([]byte, 1+rng.IntN(6))
			for x := range ins {
				ins[x] = byte(rng.IntN(256))
			}
			b = slices.Insert(b, i, ins...)
		case 4:
			b = b[:i]
		case 5:
			j := min(len(b), i+1+rng.IntN(24))
			b = slices.Insert(b, i, slices.Clone(b[i:j])...)
		case 6:
			o := pool[rng.IntN(len(pool))]
			if len(o) > 0 {
				x := rng.IntN(len(o))
				b = append(b[:i:i], o[x:]...)
			}
		case 7:
			b[i] = c03Pick(rng, byte(0), 0x7f, 0x80, 0x81, 0xff, 0x30, 0xa0)
		case 8:
			b[i]++
		}
	}
	return b
}

type c03Seed struct{ std, hs, pub []byte }

func c03SeedCorpus(r *verifkit.Reporter) []c03Seed {
	k := c03NewKeys()
	cas, err := c03PermissiveCAs(k)
	if err != nil {
		r.Inconclusive("cannot create signing CAs for the fuzz corpus: " + err.Error())
		return nil
	}
	var out []c03Seed
	for i := 0; len(out) < 64 && i < 4000; i++ {
		q := c03GenReq(verifkit.SubRand("C03corpus", i), k)
		if len(q.Name) > 300 || len(q.Groups) > 20 {
			continue
		}
		c, err := c03Sign(q, k, &cas)
		if err != nil {
			continue
		}
		std, e1 := c.Marshal()
		hs, e2 := c.MarshalForHandshakes()
		if e1 != nil || e2 != nil || len(std) > 2000 {
			continue
		}
		if _, err := Recombine(c.Version(), hs, c.PublicKey(), c.Curve()); err != nil {
			continue
		}
		out = append(out, c03Seed{std, hs, slices.Clone(c.PublicKey())})
	}
	return out
}

func TestVerifC03DecoderFuzz(t *testing.T) {
	r := verifkit.NewReporter(t, "C03", "fuzz",
		"decoder inputs: random bytes, byte-level mutants of valid standard/handshake encodings, and grammar-aware v2 ASN.1 / v1 protobuf certificates written by an independent encoder with per-field deviations; each input goes to unmarshalCertificateV1/V2 (with and without a detached key), Recombine (versions 0..3, both curves) and the PEM decoder under both banners. evaluations = decoder calls; distinct = distinct inputs that got through the wire grammar to structural validation (accepted or refused there); classes = generator x decoder x outcome")
	defer r.Done()
	corpus := c03SeedCorpus(r)
	if len(corpus) < 16 {
		r.Inconclusive(fmt.Sprintf("fuzz corpus too small: %d", len(corpus)))
		return
	}
	var pool [][]byte
	for _, s := range corpus {
		pool = append(pool, s.std, s.hs)
	}
	r.Info("corpus_certificates", len(corpus))
	n := verifkit.Scale(680_000, 20_400_000) / 17 // 17 decoder calls per input
	for i := 0; i < n; i++ {
		if !verifkit.Mine(i) {
			continue
		}
		rng := verifkit.SubRand("C03fuzz", i)
		var in, pub []byte
		var kind string
		switch x := rng.IntN(20); {
		case x < 2:
			kind = "random"
			in = make([]byte, rng.IntN(200))
			for j := range in {
				in[j] = byte(rng.IntN(256))
			}
			pub = make([]byte, c03Pick(rng, 0, 32, 65))
		case x < 8:
			s := corpus[rng.IntN(len(corpus))]
			if rng.IntN(2) == 0 {
				kind, in, pub = "mutant-standard", c03Mutate(rng, s.std, pool), nil
				if rng.IntN(4) == 0 {
					pub = s.pub
				}
			} else {
				kind, in, pub = "mutant-handshake", c03Mutate(rng, s.hs, pool), s.pub
			}
		case x < 15:
			p := c03Pick(rng, 0.0, 0.01, 0.03, 0.1, 0.3)
			var nd int
			in, pub, nd = c03GenV2(rng, p)
			kind = fmt.Sprintf("asn1/dev=%d", min(nd, 3))
		default:
			p := c03Pick(rng, 0.0, 0.01, 0.03, 0.1, 0.3)
			var nd int
			in, pub, nd = c03GenV1(rng, p)
			kind = fmt.Sprintf("protobuf/dev=%d", min(nd, 3))
		}
		r.Pre("C03 fuzz case %d kind=%s in=%x pub=%x", i, kind, in, pub)
		if r.WantSample() && i%97 == 0 {
			r.Sample(map[string]any{"case_index": i, "generator": kind, "input_hex": verifkit.Hex(in), "detached_public_key_len": len(pub)})
		}
		c03Feed(r, kind, in, pub, i)
	}
	if r.Counter("decoder_accepted") == 0 {
		r.Inconclusive("no decoder ever accepted an input: oracle (b) was never exercised")
	}
}
