package cert

// C04 — issuance never exceeds the signing CA.
//
// Reference predicate (written from the property statement; containment is computed on raw address bytes, not with
// net/netip's Contains):
//   signer == nil :  Sign succeeds  <=>  request.IsCA
//   signer != nil :  Sign succeeds  <=>  !request.IsCA
//                                    and request.Curve == signer.Curve
//                                    and signer.NotBefore <= request.NotBefore and request.NotAfter <= signer.NotAfter
//                                    and (signer has no groups   or every requested group is one of the signer's)
//                                    and (signer has no networks or every requested network lies inside one of the signer's)
//                                    and (signer has no unsafe networks or every requested unsafe network lies inside one of them)
// Requests are structurally valid by construction (C03 looks at structure), so the equivalence is judged in both
// directions. After a successful Sign the wire form of the issued certificate must verify against a pool holding the
// wire form of its signer at the start, middle and end of its validity, must again satisfy the predicate on wire
// values, and every P-256 signature must satisfy s <= n/2 (checked with encoding/asn1 + math/big).

import (
	"bytes"
	"crypto/ecdsa"
	"crypto/ed25519"
	"crypto/elliptic"
	"crypto/rand"
	"crypto/sha256"
	"encoding/asn1"
	"errors"
	"fmt"
	"math/big"
	mrand "math/rand/v2"
	"net/netip"
	"slices"
	"strings"
	"testing"
	"time"

	"github.com/slackhq/nebula/verifkit"
	"golang.org/x/crypto/curve25519"
)

// --- independent helpers -------------------------------------------------------------------------------------------

// c04Range returns the first and last address of a prefix as raw bytes (4 or 16 of them).
func c04Range(p netip.Prefix) (lo, hi []byte) {
	a := p.Addr().AsSlice()
	lo, hi = slices.Clone(a), slices.Clone(a)
	for i := range a {
		for b := 0; b < 8; b++ {
			if i*8+b >= p.Bits() {
				lo[i] &^= 0x80 >> b
				hi[i] |= 0x80 >> b
			}
		}
	}
	return
}

// c04Inside: the address set of p is a subset of the address set of one of qs (same family).
func c04Inside(p netip.Prefix, qs []netip.Prefix) bool {
	plo, phi := c04Range(p)
	for _, q := range qs {
		qlo, qhi := c04Range(q)
		if len(qlo) == len(plo) && bytes.Compare(qlo, plo) <= 0 && bytes.Compare(phi, qhi) <= 0 {
			return true
		}
	}
	return false
}

var c04HalfN = new(big.Int).Rsh(elliptic.P256().Params().N, 1)

// c04LowS parses an ECDSA signature with encoding/asn1 and reports s <= n/2.
func c04LowS(sig []byte) (bool, error) {
	var rs struct{ R, S *big.Int }
	rest, err := asn1.Unmarshal(sig, &rs)
	if err != nil {
		return false, err
	}
	if len(rest) != 0 || rs.R == nil || rs.S == nil || rs.S.Sign() <= 0 {
		return false, fmt.Errorf("malformed ECDSA signature")
	}
	return rs.S.Cmp(c04HalfN) <= 0, nil
}

// c04ForceHighS rewrites an ECDSA signature to its high-S twin (r, max(s, n-s)).
func c04ForceHighS(sig []byte) ([]byte, error) {
	var rs struct{ R, S *big.Int }
	if _, err := asn1.Unmarshal(sig, &rs); err != nil {
		return nil, err
	}
	if rs.S.Cmp(c04HalfN) <= 0 {
		rs.S = new(big.Int).Sub(elliptic.P256().Params().N, rs.S)
	}
	return asn1.Marshal(rs)
}

type c04Vec struct {
	selfSigned                                              bool
	notCA, curve, notBefore, notAfter, groups, nets, unsafe bool
}

func (v c04Vec) allowed() bool {
	return v.notCA && v.curve && v.notBefore && v.notAfter && v.groups && v.nets && v.unsafe
}

func (v c04Vec) String() string {
	b := func(x bool) byte {
		if x {
			return '1'
		}
		return '0'
	}
	if v.selfSigned {
		return fmt.Sprintf("self-signed isCA=%c", b(v.notCA))
	}
	return fmt.Sprintf("notCA=%c curve=%c nb=%c na=%c groups=%c nets=%c unsafe=%c", b(v.notCA), b(v.curve), b(v.notBefore), b(v.notAfter), b(v.groups), b(v.nets), b(v.unsafe))
}

// firstFalse names the witness class of an over-permissive signature.
func (v c04Vec) firstFalse() string {
	switch {
	case v.selfSigned:
		return "self-signed-non-ca"
	case !v.notCA:
		return "ca-issued-by-ca"
	case !v.curve:
		return "curve-differs-from-ca"
	case !v.notBefore:
		return "valid-before-ca"
	case !v.notAfter:
		return "valid-after-ca"
	case !v.groups:
		return "group-not-in-ca"
	case !v.nets:
		return "network-outside-ca"
	case !v.unsafe:
		return "unsafe-network-outside-ca"
	}
	return "none"
}

// c04Predicate evaluates the reference on plain values.
func c04Predicate(signer Certificate, isCA bool, curve Curve, nb, na time.Time, groups []string, nets, unsafe []netip.Prefix) c04Vec {
	if signer == nil {
		v := c04Vec{selfSigned: true, notCA: isCA, curve: true, notBefore: true, notAfter: true, groups: true, nets: true, unsafe: true}
		return v
	}
	v := c04Vec{notCA: !isCA, curve: curve == signer.Curve()}
	v.notBefore = !nb.Before(signer.NotBefore())
	v.notAfter = !na.After(signer.NotAfter())
	v.groups = true
	if sg := signer.Groups(); len(sg) > 0 {
		for _, g := range groups {
			found := false
			for _, s := range sg {
				if s == g {
					found = true
				}
			}
			v.groups = v.groups && found
		}
	}
	v.nets = true
	if sn := signer.Networks(); len(sn) > 0 {
		for _, n := range nets {
			v.nets = v.nets && c04Inside(n, sn)
		}
	}
	v.unsafe = true
	if su := signer.UnsafeNetworks(); len(su) > 0 {
		for _, n := range unsafe {
			v.unsafe = v.unsafe && c04Inside(n, su)
		}
	}
	return v
}

// --- universe -------------------------------------------------------------------------------------------------------

type c04CA struct {
	mem, wire Certificate // as returned by Sign / as decoded from its PEM
	priv      []byte
	pub       []byte
	desc      string
}

var c04GroupVocab = []string{"ops", "dev", "admin", "Admin", "web", "db", "edge", "ops "}

func c04Pick[T any](rng *mrand.Rand, xs ...T) T { return xs[rng.IntN(len(xs))] }

func c04RandIn(rng *mrand.Rand, q netip.Prefix) netip.Addr {
	lo, _ := c04Range(q)
	a := slices.Clone(lo)
	for i := range a {
		for b := 0; b < 8; b++ {
			if i*8+b >= q.Bits() && rng.IntN(2) == 0 {
				a[i] |= 0x80 >> b
			}
		}
	}
	ad, _ := netip.AddrFromSlice(a)
	if ad.IsUnspecified() {
		a[len(a)-1] = 1
		ad, _ = netip.AddrFromSlice(a)
	}
	return ad
}

func c04CAPrefix(rng *mrand.Rand, v6 bool) netip.Prefix {
	if v6 {
		return netip.PrefixFrom(netip.AddrFrom16([16]byte{0xfd, byte(rng.IntN(4)), 0, byte(rng.IntN(3)), 0, 0, 0, byte(rng.IntN(2))}), c04Pick(rng, 16, 32, 48, 56, 64, 120))
	}
	switch rng.IntN(4) {
	case 0:
		return netip.PrefixFrom(netip.AddrFrom4([4]byte{10, byte(rng.IntN(4)), 0, 0}), c04Pick(rng, 8, 15, 16, 17))
	case 1:
		return netip.PrefixFrom(netip.AddrFrom4([4]byte{192, 168, byte(rng.IntN(4)), c04Pick(rng, byte(0), 1, 128)}), c04Pick(rng, 24, 25, 30))
	case 2:
		return netip.PrefixFrom(netip.AddrFrom4([4]byte{172, 16, 0, 0}), 12)
	default:
		return netip.PrefixFrom(netip.AddrFrom4([4]byte{100, 64, byte(rng.IntN(2)), 7}), c04Pick(rng, 10, 31, 32))
	}
}

func c04Dedup(ps []netip.Prefix) []netip.Prefix {
	var out []netip.Prefix
	for _, p := range ps {
		if !slices.Contains(out, p) {
			out = append(out, p)
		}
	}
	return out
}

const c04Epoch = int64(1_600_000_000)

func c04GenCA(rng *mrand.Rand, i int) (*c04CA, error) {
	ver := Version(1 + rng.IntN(2))
	cu := Curve(rng.IntN(2))
	pub, priv := c04NewCAKey(cu)
	nb := c04Epoch + rng.Int64N(100_000)
	width := c04Pick(rng, int64(20), 3600, 86400, 10_000_000)
	var nbn, nan int64
	if rng.IntN(8) == 0 {
		nbn, nan = rng.Int64N(1_000_000_000), rng.Int64N(1_000_000_000)
	}
	t := &TBSCertificate{Version: ver, Name: fmt.Sprintf("c04-ca-%d", i), IsCA: true, NotBefore: time.Unix(nb, nbn), NotAfter: time.Unix(nb+width, nan), PublicKey: pub, Curve: cu}
	var d []string
	if rng.IntN(5) >= 2 {
		for n := 1 + rng.IntN(4); n > 0; n-- {
			t.Groups = append(t.Groups, c04Pick(rng, c04GroupVocab...))
		}
		d = append(d, "groups")
	}
	if rng.IntN(5) >= 2 {
		fam := "4"
		if ver == Version2 {
			fam = c04Pick(rng, "4", "6", "46")
		}
		for n := 1 + rng.IntN(3); n > 0; n-- {
			t.Networks = append(t.Networks, c04CAPrefix(rng, fam == "6" || (fam == "46" && rng.IntN(2) == 0)))
		}
		t.Networks = c04Dedup(t.Networks)
		d = append(d, "networks"+fam)
	}
	if rng.IntN(5) >= 2 {
		fam := "4"
		if ver == Version2 {
			fam = c04Pick(rng, "4", "6", "46")
		}
		for n := 1 + rng.IntN(3); n > 0; n-- {
			t.UnsafeNetworks = append(t.UnsafeNetworks, c04CAPrefix(rng, fam == "6" || (fam == "46" && rng.IntN(2) == 0)))
		}
		if rng.IntN(6) == 0 {
			t.UnsafeNetworks = append(t.UnsafeNetworks, netip.PrefixFrom(netip.IPv4Unspecified(), 0))
		}
		t.UnsafeNetworks = c04Dedup(t.UnsafeNetworks)
		d = append(d, "unsafe"+fam)
	}
	if len(d) == 0 {
		d = append(d, "unconstrained")
	}
	c, err := t.Sign(nil, cu, priv)
	if err != nil {
		return nil, fmt.Errorf("self-signing CA %d: %w", i, err)
	}
	p, err := c.MarshalPEM()
	if err != nil {
		return nil, err
	}
	w, _, err := UnmarshalCertificateFromPEM(p)
	if err != nil {
		return nil, fmt.Errorf("decoding CA %d: %w", i, err)
	}
	return &c04CA{mem: c, wire: w, priv: priv, pub: pub, desc: fmt.Sprintf("v%d/%s/%s/width=%d/subsec=%v", ver, cu, strings.Join(d, "+"), width, nbn != 0)}, nil
}

func c04NewCAKey(cu Curve) (pub, priv []byte) {
	if cu == Curve_CURVE25519 {
		pub, priv, err := ed25519.GenerateKey(rand.Reader)
		if err != nil {
			panic(err)
		}
		return pub, priv
	}
	pk, err := ecdsa.GenerateKey(elliptic.P256(), rand.Reader)
	if err != nil {
		panic(err)
	}
	ek, err := pk.ECDH()
	if err != nil {
		panic(err)
	}
	return ek.PublicKey().Bytes(), ek.Bytes()
}

// --- requests ---------------------------------------------------------------------------------------------------------

type c04Req struct {
	t       *TBSCertificate
	classes string
}

func c04Record(ca *c04CA, signer Certificate, t *TBSCertificate, extra map[string]any) map[string]any {
	nets := func(ps []netip.Prefix) []string {
		o := make([]string, len(ps))
		for i, p := range ps {
			o[i] = p.String()
		}
		return o
	}
	m := map[string]any{"request": map[string]any{"version": int(t.Version), "curve": t.Curve.String(), "is_ca": t.IsCA, "name": t.Name, "groups": t.Groups,
		"networks": nets(t.Networks), "unsafe_networks": nets(t.UnsafeNetworks), "not_before_unixnano": t.NotBefore.UnixNano(), "not_after_unixnano": t.NotAfter.UnixNano()}}
	if signer != nil {
		p, _ := ca.wire.MarshalPEM()
		m["signer"] = map[string]any{"desc": ca.desc, "version": int(signer.Version()), "curve": signer.Curve().String(), "groups": signer.Groups(), "networks": nets(signer.Networks()),
			"unsafe_networks": nets(signer.UnsafeNetworks()), "not_before_unixnano": signer.NotBefore().UnixNano(), "not_after_unixnano": signer.NotAfter().UnixNano(), "pem": string(p)}
	} else {
		m["signer"] = nil
	}
	for k, v := range extra {
		m[k] = v
	}
	return m
}

// c04GenNets builds host networks (or unsafe networks) relative to the signer's list. fams = allowed families.
func c04GenNets(rng *mrand.Rand, caNets []netip.Prefix, fams string, n int, class string, isUnsafe bool) []netip.Prefix {
	var usable []netip.Prefix // signer prefixes of an allowed family
	for _, q := range caNets {
		if (q.Addr().Is4() && strings.Contains(fams, "4")) || (q.Addr().Is6() && strings.Contains(fams, "6")) {
			usable = append(usable, q)
		}
	}
	randFam := func() bool { return fams == "6" || (fams == "46" && rng.IntN(2) == 0) }
	free := func() netip.Prefix { // unrelated to the signer (when the signer leaves room: a 0.0.0.0/0 entry does not)
		for try := 0; ; try++ {
			var p netip.Prefix
			if randFam() {
				p = netip.PrefixFrom(netip.AddrFrom16([16]byte{0x20, 0x01, 0x0d, 0xb8, byte(rng.IntN(256)), byte(rng.IntN(256)), 14: byte(rng.IntN(256)), 15: byte(1 + rng.IntN(255))}), c04Pick(rng, 48, 64, 128))
			} else {
				p = netip.PrefixFrom(netip.AddrFrom4([4]byte{byte(11 + rng.IntN(80)), byte(rng.IntN(256)), byte(rng.IntN(256)), byte(1 + rng.IntN(254))}), c04Pick(rng, 8, 24, 32))
			}
			if len(caNets) == 0 || !c04Inside(p, caNets) || try > 50 {
				return p
			}
		}
	}
	inside := func(boundary bool) netip.Prefix {
		q := usable[rng.IntN(len(usable))]
		max := q.Addr().BitLen()
		bits := q.Bits() + rng.IntN(max-q.Bits()+1)
		if boundary {
			switch rng.IntN(3) {
			case 0:
				bits = q.Bits()
			case 1: // last address of the signer's prefix, as a host route
				_, hi := c04Range(q)
				a, _ := netip.AddrFromSlice(hi)
				return netip.PrefixFrom(a, max)
			default: // first address
				lo, _ := c04Range(q)
				a, _ := netip.AddrFromSlice(lo)
				if !a.IsUnspecified() || isUnsafe {
					return netip.PrefixFrom(a, max)
				}
				bits = q.Bits()
			}
		}
		a := c04RandIn(rng, q)
		if isUnsafe && q.Bits() == 0 && rng.IntN(2) == 0 {
			return q // the default route itself
		}
		return netip.PrefixFrom(a, bits)
	}
	outside := func() netip.Prefix {
		if len(usable) > 0 && rng.IntN(2) == 0 {
			q := usable[rng.IntN(len(usable))]
			if q.Bits() > 0 { // right address, mask shorter than the signer's
				p := netip.PrefixFrom(c04RandIn(rng, q), q.Bits()-1-rng.IntN(q.Bits()))
				if !c04Inside(p, caNets) {
					return p
				}
			}
		}
		return free()
	}
	var out []netip.Prefix
	for i := 0; i < n; i++ {
		switch {
		case len(caNets) == 0:
			out = append(out, free())
		case class == "outside" && (i == 0 || rng.IntN(3) == 0), len(usable) == 0:
			out = append(out, outside())
		case class == "boundary":
			out = append(out, inside(true))
		default:
			out = append(out, inside(false))
		}
	}
	return c04Dedup(out)
}

func c04GenReq(rng *mrand.Rand, ca *c04CA, signer Certificate, k *c04KeySet, i int) (*c04Req, Curve) {
	cls := func() string {
		switch x := rng.IntN(100); {
		case x < 12:
			return "outside"
		case x < 40:
			return "boundary"
		default:
			return "inside"
		}
	}
	t := &TBSCertificate{Version: Version(1 + rng.IntN(2)), Name: fmt.Sprintf("c04-host-%d", i)}
	var cl []string
	signCurve := Curve(rng.IntN(2))
	if signer != nil {
		signCurve = signer.Curve()
	}
	t.Curve = signCurve
	if signer != nil && rng.IntN(12) == 0 {
		t.Curve = 1 - signCurve
		cl = append(cl, "curve=other")
	}
	t.PublicKey = slices.Clone(k.hostPub[int(t.Curve)])
	switch {
	case signer == nil:
		t.IsCA = rng.IntN(10) < 7
		cl = append(cl, fmt.Sprintf("signer=nil/isCA=%v", t.IsCA))
	case rng.IntN(12) == 0:
		t.IsCA = true
		cl = append(cl, "isCA")
	}
	// window
	sNB, sNA := time.Unix(c04Epoch, 0), time.Unix(c04Epoch+1_000_000, 0)
	if signer != nil {
		sNB, sNA = signer.NotBefore(), signer.NotAfter()
	}
	wc := cls()
	span := sNA.Sub(sNB)
	switch wc {
	case "inside":
		a := time.Duration(1+rng.Int64N(int64(span/time.Second)/3)) * time.Second
		b := time.Duration(1+rng.Int64N(int64(span/time.Second)/3)) * time.Second
		t.NotBefore, t.NotAfter = sNB.Add(a), sNA.Add(-b)
		if rng.IntN(6) == 0 {
			t.NotBefore, t.NotAfter = sNB.Add(1), sNA.Add(-1) // one nanosecond inside
			wc = "inside-by-1ns"
		}
	case "boundary":
		t.NotBefore, t.NotAfter = sNB, sNA
		switch rng.IntN(3) {
		case 0:
			t.NotAfter = sNA.Add(-time.Second)
		case 1:
			t.NotBefore = sNB.Add(time.Second)
		}
	case "outside":
		t.NotBefore, t.NotAfter = sNB.Add(time.Second), sNA.Add(-time.Second)
		switch x := rng.IntN(7); x {
		case 0:
			t.NotBefore = sNB.Add(-time.Second)
			wc = "outside-nb-1s"
		case 1:
			t.NotBefore = sNB.Add(-1)
			wc = "outside-nb-1ns"
		case 2:
			t.NotAfter = sNA.Add(time.Second)
			wc = "outside-na+1s"
		case 3:
			t.NotAfter = sNA.Add(1)
			wc = "outside-na+1ns"
		case 4:
			t.NotBefore, t.NotAfter = sNB.Add(-time.Second), sNA.Add(time.Second)
			wc = "outside-both"
		case 5:
			t.NotBefore, t.NotAfter = sNB.Add(-100*time.Hour), sNB.Add(-50*time.Hour)
			wc = "outside-entirely-before"
		case 6:
			t.NotBefore, t.NotAfter = sNA.Add(50*time.Hour), sNA.Add(100*time.Hour)
			wc = "outside-entirely-after"
		}
	}
	cl = append(cl, "window="+wc)
	// groups
	var sg []string
	var sn, su []netip.Prefix
	if signer != nil {
		sg, sn, su = signer.Groups(), signer.Networks(), signer.UnsafeNetworks()
	}
	gc := cls()
	switch {
	case len(sg) == 0:
		for n := rng.IntN(4); n > 0; n-- {
			t.Groups = append(t.Groups, c04Pick(rng, c04GroupVocab...))
		}
		gc = "unconstrained"
	case gc == "inside":
		for _, g := range sg {
			if rng.IntN(2) == 0 {
				t.Groups = append(t.Groups, g)
			}
		}
	case gc == "boundary":
		t.Groups = slices.Clone(sg)
		rng.Shuffle(len(t.Groups), func(a, b int) { t.Groups[a], t.Groups[b] = t.Groups[b], t.Groups[a] })
		if rng.IntN(3) == 0 {
			t.Groups = append(t.Groups, t.Groups[0])
		}
	default:
		t.Groups = slices.Clone(sg[:rng.IntN(len(sg)+1)])
		g := sg[rng.IntN(len(sg))]
		var foreign string
		for _, cand := range []string{c04Pick(rng, "root", strings.ToUpper(g), g+" ", " "+g, g[:len(g)-1]+"_", g+g), "root", "zz-foreign"} {
			if cand != "" && !slices.Contains(sg, cand) {
				foreign = cand
				break
			}
		}
		t.Groups = slices.Insert(t.Groups, rng.IntN(len(t.Groups)+1), foreign)
	}
	cl = append(cl, "groups="+gc)
	// networks
	fams := "4"
	if t.Version == Version2 {
		fams = c04Pick(rng, "4", "6", "46")
	}
	nc := cls()
	if len(sn) == 0 {
		nc = "unconstrained"
	}
	nn := 1 + rng.IntN(2)
	if t.IsCA && signer == nil {
		nn = rng.IntN(2)
	}
	t.Networks = c04GenNets(rng, sn, fams, nn, nc, false)
	cl = append(cl, "nets="+nc)
	// unsafe networks: only of families the host has an address in (structural rule of v2 hosts)
	ufams := ""
	for _, n := range t.Networks {
		if n.Addr().Is4() && !strings.Contains(ufams, "4") {
			ufams += "4"
		}
		if n.Addr().Is6() && !strings.Contains(ufams, "6") {
			ufams += "6"
		}
	}
	if ufams == "64" {
		ufams = "46"
	}
	if t.IsCA && signer == nil && ufams == "" {
		ufams = fams
	}
	uc := cls()
	if len(su) == 0 {
		uc = "unconstrained"
	}
	if un := rng.IntN(3); un > 0 && ufams != "" {
		t.UnsafeNetworks = c04GenNets(rng, su, ufams, un, uc, true)
	} else {
		uc = "none"
	}
	cl = append(cl, "unsafe="+uc)
	return &c04Req{t: t, classes: strings.Join(cl, " ")}, signCurve
}

func c04CloneTBS(t *TBSCertificate) *TBSCertificate {
	n := *t
	n.Networks, n.UnsafeNetworks, n.Groups, n.PublicKey = slices.Clone(t.Networks), slices.Clone(t.UnsafeNetworks), slices.Clone(t.Groups), slices.Clone(t.PublicKey)
	return &n
}

// c04KeySet: CA keys for self-signed requests and host (key agreement) public keys, index = Curve.
type c04KeySet struct {
	caPub, caPriv, hostPub [2][]byte
}

func c04NewKeys() *c04KeySet {
	k := &c04KeySet{}
	for cu := 0; cu < 2; cu++ {
		k.caPub[cu], k.caPriv[cu] = c04NewCAKey(Curve(cu))
	}
	sc := make([]byte, 32)
	rand.Read(sc)
	hp, err := curve25519.X25519(sc, curve25519.Basepoint)
	if err != nil {
		panic(err)
	}
	k.hostPub[0] = hp
	k.hostPub[1], _ = c04NewCAKey(Curve_P256) // an uncompressed P-256 point serves as ECDH public key too
	return k
}

// ---------------------------------------------------------------------------------------------------------------

func TestVerifC04Issuance(t *testing.T) {
	r := verifkit.NewReporter(t, "C04", "sign",
		"PRNG (request, signer CA) pairs over the constraint lattice: validity window, groups, networks and unsafe networks each inside / on the boundary / outside the signer's (1 s and 1 ns steps, shorter masks, other family, case variants of groups), IsCA on/off, curve match/mismatch, signer nil/non-nil, signer used as returned by Sign or as decoded from PEM, v1/v2 x Ed25519/P-256 on both sides; P-256 requests alternate Sign and SignWith with a lambda that returns the high-S twin. distinct = distinct (conjunct truth vector, versions, curves) classes plus distinct requests")
	defer r.Done()
	k := c04NewKeys()
	nCA := 32
	cas := make([]*c04CA, 0, nCA)
	for i := 0; i < nCA; i++ {
		ca, err := c04GenCA(verifkit.SubRand("C04ca", i), i)
		if err != nil {
			r.Violation("C04/ca-self-sign-or-decode-failed", err.Error(), map[string]any{"ca_index": i})
			continue
		}
		cas = append(cas, ca)
		c04CheckIssued(r, nil, ca, ca.mem, ca.wire, func(extra map[string]any) map[string]any {
			extra["ca_index"] = i
			extra["ca"] = ca.desc
			return extra
		})
	}
	if len(cas) < 8 {
		r.Inconclusive("could not build the CA universe")
		return
	}
	// Observation only, outside the property's quantifier (the key handed to Sign is not an Ed25519 key of the signer):
	// recorded in the evidence, never a violation.
	func() {
		defer func() {
			if e := recover(); e != nil {
				r.Info("observation_Sign_panics_when_a_32_byte_key_is_labelled_CURVE25519", fmt.Sprint(e))
			}
		}()
		tb := &TBSCertificate{Version: Version2, Name: "c04-observation", IsCA: true, NotBefore: time.Unix(c04Epoch, 0), NotAfter: time.Unix(c04Epoch+10, 0), PublicKey: k.caPub[0], Curve: Curve_CURVE25519}
		_, err := tb.Sign(nil, Curve_CURVE25519, make([]byte, 32))
		r.Info("observation_Sign_with_a_32_byte_key_labelled_CURVE25519", fmt.Sprint("returned: ", err))
	}()
	n := verifkit.Scale(20_000, 1_000_000)
	for i := 0; i < n; i++ {
		if !verifkit.Mine(i) {
			continue
		}
		rng := verifkit.SubRand("C04pair", i)
		ca := cas[rng.IntN(len(cas))]
		var signer Certificate
		signerForm := "nil"
		if rng.IntN(10) != 0 {
			signer, signerForm = ca.mem, "as-signed"
			if rng.IntN(2) == 0 {
				signer, signerForm = ca.wire, "decoded"
			}
		}
		q, signCurve := c04GenReq(rng, ca, signer, k, i)
		key := ca.priv
		if signer == nil {
			key = k.caPriv[int(signCurve)]
			q.t.PublicKey = slices.Clone(k.caPub[int(q.t.Curve)])
		}
		in := c04CloneTBS(q.t)
		vec := c04Predicate(signer, in.IsCA, in.Curve, in.NotBefore, in.NotAfter, in.Groups, in.Networks, in.UnsafeNetworks)
		rec := func(extra map[string]any) map[string]any {
			extra["case_index"] = i
			extra["signer_form"] = signerForm
			extra["reference"] = vec.String()
			extra["generator_classes"] = q.classes
			return c04Record(ca, signer, in, extra)
		}
		r.Pre("C04 pair %d (stream C04pair) %s", i, q.classes)
		var c Certificate
		var err error
		how := "Sign"
		fedHighS := false
		if r.Guard("C04/sign-panic", func() any { return rec(map[string]any{}) }, func() {
			if signCurve == Curve_P256 && rng.IntN(2) == 0 {
				how = "SignWith(high-S lambda)"
				pk, perr := ecdsa.ParseRawPrivateKey(elliptic.P256(), key)
				if perr != nil {
					err = perr
					return
				}
				c, err = q.t.SignWith(signer, signCurve, func(b []byte) ([]byte, error) {
					h := sha256.Sum256(b)
					sig, e := ecdsa.SignASN1(rand.Reader, pk, h[:])
					if e != nil {
						return nil, e
					}
					fedHighS = true
					return c04ForceHighS(sig)
				})
				return
			}
			c, err = q.t.Sign(signer, signCurve, key)
		}) {
			continue
		}
		r.Eval(1)
		ok := err == nil && c != nil
		r.DistinctClass(fmt.Sprintf("%s | req v%d %s | signer %s | accepted=%v", vec, in.Version, in.Curve, c04SignerClass(signer), ok))
		r.Distinct(fmt.Sprintf("%v|%v|%v|%v|%v|%d|%d|%d|%v|%s", in.Groups, in.Networks, in.UnsafeNetworks, in.IsCA, in.Curve, in.Version, in.NotBefore.UnixNano(), in.NotAfter.UnixNano(), ca.desc, signerForm))
		if r.WantSample() && i%11 == 0 {
			r.Sample(rec(map[string]any{"accepted": ok, "via": how}))
		}
		if fedHighS {
			r.Count("signer_lambda_returned_high_S", 1)
		}
		switch {
		case ok && !vec.allowed():
			r.Count("accepted", 1)
			r.Violation("C04/issued-"+vec.firstFalse(), fmt.Sprintf("%s succeeded although the request exceeds its signer: %s", how, vec), rec(map[string]any{"via": how}))
		case !ok && vec.allowed():
			r.Count("refused", 1)
			r.Violation("C04/sign-refuses-conforming-request", fmt.Sprintf("%s refused a request that satisfies every constraint of its signer: %v", how, err), rec(map[string]any{"via": how, "error": fmt.Sprint(err)}))
		case !ok:
			r.Count("refused", 1)
			r.Count("refused_"+vec.firstFalse(), 1)
		default:
			r.Count("accepted", 1)
		}
		if !ok {
			continue
		}
		p, perr := c.MarshalPEM()
		var w Certificate
		if perr == nil {
			w, _, perr = UnmarshalCertificateFromPEM(p)
		}
		if perr != nil {
			r.Violation("C04/issued-certificate-does-not-decode", perr.Error(), rec(map[string]any{"via": how}))
			continue
		}
		var sca *c04CA
		if signer != nil {
			sca = ca
		}
		c04CheckIssued(r, sca, nil, c, w, func(extra map[string]any) map[string]any {
			extra["via"] = how
			extra["issued_pem"] = string(p)
			return rec(extra)
		})
	}
	if r.Counter("accepted") == 0 || r.Counter("refused") == 0 {
		r.Inconclusive(fmt.Sprintf("one-sided run: accepted=%d refused=%d", r.Counter("accepted"), r.Counter("refused")))
	}
}

func c04SignerClass(s Certificate) string {
	if s == nil {
		return "nil"
	}
	c := fmt.Sprintf("v%d %s", s.Version(), s.Curve())
	if len(s.Groups()) > 0 {
		c += " G"
	}
	if len(s.Networks()) > 0 {
		c += " N"
	}
	if len(s.UnsafeNetworks()) > 0 {
		c += " U"
	}
	return c
}

// c04CheckIssued judges a certificate that was just issued. signer == nil means self-signed (self is then its CA record,
// may be nil for self-signed request certificates). mem is the object returned by Sign, wire its decoded PEM.
func c04CheckIssued(r *verifkit.Reporter, signer *c04CA, self *c04CA, mem, wire Certificate, rec func(map[string]any) map[string]any) {
	// P-256 signatures are low-S
	if mem.Curve() == Curve_P256 {
		r.Count("p256_signatures_checked", 1)
		low, err := c04LowS(mem.Signature())
		if err != nil {
			r.Violation("C04/p256-signature-malformed", err.Error(), rec(map[string]any{"signature_hex": verifkit.Hex(mem.Signature())}))
		} else if !low {
			r.Violation("C04/p256-signature-high-s", "issued P-256 certificate carries a signature with s > n/2", rec(map[string]any{"signature_hex": verifkit.Hex(mem.Signature())}))
		}
		if !bytes.Equal(mem.Signature(), wire.Signature()) {
			r.Violation("C04/signature-changes-on-the-wire", "signature differs after PEM round trip", rec(map[string]any{}))
		}
	}
	if signer == nil {
		// self-signed: must be a CA that a pool admits (AddCA checks IsCA and the self-signature)
		if !wire.IsCA() {
			r.Violation("C04/issued-self-signed-non-ca", "a self-signed certificate that is not a CA was issued", rec(map[string]any{}))
			return
		}
		if wire.Issuer() != "" {
			r.Violation("C04/self-signed-with-issuer", "self-signed certificate names an issuer", rec(map[string]any{}))
		}
		pool := NewCAPool()
		if err := pool.AddCA(wire); err != nil && !errors.Is(err, ErrExpired) {
			r.Violation("C04/self-signed-ca-not-admitted-by-pool", err.Error(), rec(map[string]any{}))
		}
		r.Count("self_signed_checked", 1)
		return
	}
	sw := signer.wire
	// the predicate again, on wire values of both certificates
	vec := c04Predicate(sw, wire.IsCA(), wire.Curve(), wire.NotBefore(), wire.NotAfter(), wire.Groups(), wire.Networks(), wire.UnsafeNetworks())
	if !vec.allowed() {
		r.Violation("C04/issued-"+vec.firstFalse(), "the issued certificate (wire form) exceeds its signer (wire form): "+vec.String(), rec(map[string]any{"judged": "wire"}))
	}
	fp, _ := sw.Fingerprint()
	if wire.Issuer() != fp {
		r.Violation("C04/issuer-is-not-the-signer", fmt.Sprintf("issuer %s, signer fingerprint %s", wire.Issuer(), fp), rec(map[string]any{}))
	}
	if wire.NotAfter().Before(wire.NotBefore()) {
		r.Count("issued_with_empty_validity(not verified)", 1)
		return
	}
	pool := NewCAPool()
	if err := pool.AddCA(sw); err != nil && !errors.Is(err, ErrExpired) {
		r.Violation("C04/signer-not-admitted-by-pool", err.Error(), rec(map[string]any{}))
		return
	}
	nb, na := wire.NotBefore(), wire.NotAfter()
	for _, at := range []time.Time{nb, nb.Add(na.Sub(nb) / 2), na} {
		r.Count("pool_verifications", 1)
		if _, err := pool.VerifyCertificate(at, wire); err != nil {
			r.Violation("C04/issued-certificate-fails-verification", fmt.Sprintf("pool{signer}.VerifyCertificate at %d: %v", at.Unix(), err), rec(map[string]any{"verify_at_unix": at.Unix(), "error": err.Error()}))
			break
		}
	}
}
