package cert

// C04 (low-S boundary) — every P-256 signature that SignWith seals into a certificate is low-S, whatever (r, s) the
// external signer (HSM / PKCS#11 callback) hands back.
//
// The random high-S lambda of the issuance unit almost never produces an s just above n/2 (that band is 2^-33 of the
// range). Here the signer callback returns chosen s values around every power of two, around n/2, 2^255 and n, with every
// DER length of s, for v1 / v2, host / CA requests. SignWith does not verify the callback's signature, so arbitrary (r, s)
// reach the normalisation. Oracle (math/big and encoding/asn1 only): the sealed signature has the same r, and its s' is
// min(s, n-s), i.e. s' <= n/2 and s' in {s, n-s}.

import (
	"crypto/elliptic"
	"encoding/asn1"
	"fmt"
	"math/big"
	"net/netip"
	"testing"
	"time"

	"github.com/slackhq/nebula/verifkit"
)

func TestVerifC04LowSBoundary(t *testing.T) {
	r := verifkit.NewReporter(t, "C04", "lows",
		"SignWith on P-256 requests (v1/v2 x host/CA, signer CA or self-signed) with a signer callback that returns chosen (r, s): s = n/2 + d, 2^k + d, 2^255 + d, n - d for small |d| and every k, plus PRNG values inside (n/2, 2^255); distinct = distinct s values")
	defer r.Done()
	if i, _ := verifkit.Shard(); i != 0 {
		return
	}
	n := elliptic.P256().Params().N
	half := new(big.Int).Rsh(n, 1)
	one := big.NewInt(1)
	var ss []*big.Int
	add := func(x *big.Int) {
		if x.Sign() > 0 && x.Cmp(n) < 0 {
			ss = append(ss, x)
		}
	}
	for d := int64(-3); d <= 3; d++ {
		add(new(big.Int).Add(half, big.NewInt(d)))
		add(new(big.Int).Add(n, big.NewInt(d)))
		add(new(big.Int).Add(new(big.Int).Lsh(one, 255), big.NewInt(d)))
	}
	for k := uint(0); k < 256; k++ {
		p := new(big.Int).Lsh(one, k)
		add(p)
		add(new(big.Int).Sub(p, one))
		add(new(big.Int).Add(half, p))
		add(new(big.Int).Sub(n, p))
	}
	rng := verifkit.NewRand("C04lows")
	band := new(big.Int).Sub(new(big.Int).Lsh(one, 255), half) // width of (n/2, 2^255)
	for i := 0; i < verifkit.Scale(300, 20000); i++ {
		x := new(big.Int)
		b := make([]byte, 32)
		for j := range b {
			b[j] = byte(rng.UintN(256))
		}
		x.SetBytes(b)
		x.Mod(x, band)
		add(new(big.Int).Add(half, x.Add(x, one)))
	}
	k := c04NewKeys()
	ca, err := c04GenCA(verifkit.SubRand("C04lowsCA", 0), 1)
	for i := 1; err != nil || ca.mem.Curve() != Curve_P256; i++ {
		if i > 200 {
			r.Inconclusive("no P-256 CA could be generated")
			return
		}
		ca, err = c04GenCA(verifkit.SubRand("C04lowsCA", i), i)
	}
	for i, s := range ss {
		rr := new(big.Int).Add(big.NewInt(int64(1000+i)), new(big.Int).Lsh(one, uint(8*(1+i%31))))
		ver := []Version{Version1, Version2}[i%2]
		isCA := i%4 >= 2
		tbs := &TBSCertificate{Version: ver, Name: fmt.Sprintf("lows-%d", i), Curve: Curve_P256, IsCA: isCA,
			NotBefore: ca.mem.NotBefore().Add(time.Second), NotAfter: ca.mem.NotAfter().Add(-time.Second), PublicKey: k.caPub[int(Curve_P256)]}
		var signer Certificate = ca.mem
		if !isCA {
			// inside whatever the CA allows: one of its own networks as a host address, or any address for an unconstrained CA
			tbs.Networks = []netip.Prefix{netip.MustParsePrefix("10.4.0.1/24")}
			if nn := ca.mem.Networks(); len(nn) > 0 {
				tbs.Networks = []netip.Prefix{netip.PrefixFrom(nn[0].Addr(), nn[0].Addr().BitLen())}
				for _, x := range nn {
					if ver == Version1 && x.Addr().Is4() {
						tbs.Networks = []netip.Prefix{netip.PrefixFrom(x.Addr(), 32)}
					}
				}
			}
			tbs.Groups = nil
		}
		if isCA {
			signer = nil // self-signed CA request
		}
		sigIn, _ := asn1.Marshal(struct{ R, S *big.Int }{rr, s})
		var c Certificate
		var serr error
		rec := func() any {
			return map[string]any{"s_hex": fmt.Sprintf("%x", s), "r_hex": fmt.Sprintf("%x", rr), "version": int(ver), "is_ca": isCA}
		}
		if r.Guard("C04/sign-panic", rec, func() {
			c, serr = tbs.SignWith(signer, Curve_P256, func([]byte) ([]byte, error) { return sigIn, nil })
		}) {
			continue
		}
		r.Eval(1)
		r.Distinct(fmt.Sprintf("%x", s))
		if serr != nil || c == nil {
			r.Count("signwith_refused", 1)
			r.DistinctClass(fmt.Sprintf("refused v%d ca=%v: %v", ver, isCA, serr))
			continue
		}
		r.Count("signatures_sealed", 1)
		if s.Cmp(half) > 0 {
			r.Count("callback_returned_high_S", 1)
			if s.Cmp(new(big.Int).Lsh(one, 255)) < 0 {
				r.Count("callback_returned_high_S_below_2^255", 1)
			}
		}
		var out struct{ R, S *big.Int }
		rest, perr := asn1.Unmarshal(c.Signature(), &out)
		if perr != nil || len(rest) != 0 || out.R == nil || out.S == nil {
			r.Violation("C04/p256-signature-malformed", fmt.Sprintf("sealed signature does not parse: %v", perr), rec())
			continue
		}
		want := new(big.Int).Set(s)
		if want.Cmp(half) > 0 {
			want.Sub(n, s)
		}
		if out.S.Cmp(half) > 0 {
			r.Violation("C04/p256-signature-high-s", fmt.Sprintf("the signer callback returned s=%x and the issued certificate carries s=%x, which is above n/2", s, out.S), rec())
		} else if out.S.Cmp(want) != 0 || out.R.Cmp(rr) != 0 {
			r.Violation("C04/p256-signature-altered", fmt.Sprintf("callback returned (r=%x, s=%x), certificate carries (r=%x, s=%x); want s=%x", rr, s, out.R, out.S, want), rec())
		}
	}
}
