package cert

// C43 — encrypted private keys open only with the right passphrase; key PEM encodings round-trip and are refused under
// the wrong banner.
//
// Oracle (from the property statement):
//   decrypt(encrypt(key, pass, params), pass) == (curve, key, rest)                     for every key/curve/pass/params
//   decrypt(encrypt(key, pass, params), pass') is refused                                for every pass' != pass
//   decrypt(m, pass) is refused for every alteration m of the encrypted data. "Alteration of the encrypted data" is
//   decided on decoded fields: if the mutated bytes still decode (real protobuf decoder) to exactly the same
//   algorithm / Argon2 parameters / salt / nonce||ciphertext||tag, only unauthenticated framing changed and the key must
//   then still come out identical; any difference in a decoded field must be refused.
//   Every key PEM marshal/unmarshal pair round-trips for both curves; every unmarshaler refuses every banner that is
//   not its own (and its own banner with a body of the wrong length).
// Argon2 parameters are taken from the small end of the accepted range so one KDF call costs ~0.1-1 ms. Mutants whose
// KDF parameters would cost more than ~1 GiB-pass are counted and skipped (none arises from single-bit flips).

import (
	"bytes"
	"crypto/ecdsa"
	"crypto/ed25519"
	"crypto/elliptic"
	"crypto/rand"
	"encoding/pem"
	"errors"
	"fmt"
	mrand "math/rand/v2"
	"slices"
	"strings"
	"testing"

	"github.com/slackhq/nebula/verifkit"
	"google.golang.org/protobuf/proto"
)

var c43EncBanner = map[Curve]string{Curve_CURVE25519: EncryptedEd25519PrivateKeyBanner, Curve_P256: EncryptedECDSAP256PrivateKeyBanner}

var c43AllBanners = []string{CertificateBanner, CertificateV2Banner, X25519PrivateKeyBanner, X25519PublicKeyBanner, P256PrivateKeyBanner, P256PublicKeyBanner,
	EncryptedECDSAP256PrivateKeyBanner, ECDSAP256PrivateKeyBanner, ECDSAP256PublicKeyBanner, EncryptedEd25519PrivateKeyBanner, Ed25519PrivateKeyBanner, Ed25519PublicKeyBanner}

func c43Pick[T any](rng *mrand.Rand, xs ...T) T { return xs[rng.IntN(len(xs))] }

func c43NewSigningKey(cu Curve) []byte {
	if cu == Curve_CURVE25519 {
		_, priv, err := ed25519.GenerateKey(rand.Reader)
		if err != nil {
			panic(err)
		}
		return priv
	}
	pk, err := ecdsa.GenerateKey(elliptic.P256(), rand.Reader)
	if err != nil {
		panic(err)
	}
	ek, err := pk.ECDH()
	if err != nil {
		panic(err)
	}
	return ek.Bytes()
}

// c43Passphrase returns a passphrase of class cls (0..6); cls < 0 picks a class at random.
func c43Passphrase(rng *mrand.Rand, cls int) ([]byte, string) {
	if cls < 0 {
		cls = rng.IntN(7)
	}
	switch cls {
	case 0:
		return []byte{}, "empty"
	case 1:
		return []byte{byte(1 + rng.IntN(255))}, "1byte"
	case 2:
		return []byte("pässwörd ✓ 日本"), "unicode"
	case 3:
		b := make([]byte, 1024)
		for i := range b {
			b[i] = byte(rng.IntN(256))
		}
		return b, "1KiB-binary"
	case 4:
		return []byte("with\x00nul"), "nul"
	case 5:
		return []byte("correct horse battery staple"), "phrase"
	default:
		b := make([]byte, 1+rng.IntN(40))
		for i := range b {
			b[i] = byte(32 + rng.IntN(95))
		}
		return b, "ascii"
	}
}

// c43WrongPassphrases: neighbours of p that are not p.
func c43WrongPassphrases(rng *mrand.Rand, p []byte) [][]byte {
	var out [][]byte
	add := func(b []byte) {
		if !bytes.Equal(b, p) {
			out = append(out, b)
		}
	}
	add([]byte{})
	add(append(slices.Clone(p), 0))
	add(append(slices.Clone(p), ' '))
	add(append(slices.Clone(p), '\n'))
	add(append([]byte{' '}, p...))
	if len(p) > 0 {
		add(slices.Clone(p[:len(p)-1]))
		add(slices.Clone(p[1:]))
		q := slices.Clone(p)
		q[rng.IntN(len(q))] ^= 1 << rng.IntN(8)
		add(q)
		q = slices.Clone(p)
		q[0] ^= 0x20
		add(q)
		add(append(slices.Clone(p), p...))
		add([]byte(strings.ToUpper(string(p))))
	}
	add([]byte("x"))
	add([]byte("\x00"))
	return out
}

type c43Fields struct {
	ok                              bool
	alg                             string
	version                         int32
	memory, parallelism, iterations uint32
	salt, ciphertext                []byte
	hasMeta, hasArgon               bool
}

// c43Decode decodes the PEM body with the real protobuf decoder.
func c43Decode(body []byte) (f c43Fields) {
	var m RawNebulaEncryptedData
	if err := proto.Unmarshal(body, &m); err != nil {
		return
	}
	f.ok = true
	f.ciphertext = m.Ciphertext
	if m.EncryptionMetadata != nil {
		f.hasMeta = true
		f.alg = m.EncryptionMetadata.EncryptionAlgorithm
		if a := m.EncryptionMetadata.Argon2Parameters; a != nil {
			f.hasArgon = true
			f.version, f.memory, f.parallelism, f.iterations, f.salt = a.Version, a.Memory, a.Parallelism, a.Iterations, a.Salt
		}
	}
	return
}

func (f c43Fields) same(g c43Fields) bool {
	return f.ok && g.ok && f.hasMeta == g.hasMeta && f.hasArgon == g.hasArgon && f.alg == g.alg && f.version == g.version && f.memory == g.memory &&
		f.parallelism == g.parallelism && f.iterations == g.iterations && bytes.Equal(f.salt, g.salt) && bytes.Equal(f.ciphertext, g.ciphertext)
}

func (f c43Fields) diff(g c43Fields) string {
	var d []string
	if !g.ok {
		return "does not decode"
	}
	if f.alg != g.alg || f.hasMeta != g.hasMeta {
		d = append(d, "algorithm")
	}
	if f.version != g.version || f.hasArgon != g.hasArgon {
		d = append(d, "argon2.version")
	}
	if f.memory != g.memory {
		d = append(d, "argon2.memory")
	}
	if f.parallelism != g.parallelism {
		d = append(d, "argon2.parallelism")
	}
	if f.iterations != g.iterations {
		d = append(d, "argon2.iterations")
	}
	if !bytes.Equal(f.salt, g.salt) {
		d = append(d, "salt")
	}
	if !bytes.Equal(f.ciphertext, g.ciphertext) {
		d = append(d, "nonce/ciphertext/tag")
	}
	return strings.Join(d, ",")
}

// tooExpensive: harness safety only — never run a KDF of more than ~1 GiB-pass (or an allocation above 256 MiB).
func (f c43Fields) tooExpensive() bool {
	if !f.ok || !f.hasArgon {
		return false
	}
	mem := uint64(f.memory)
	if p := uint64(f.parallelism&0xff) * 8; mem < p {
		mem = p
	}
	return mem > 1<<18 || mem*uint64(f.iterations) > 1<<20
}

// c43Regions labels every byte of a well-formed encrypted-key body (independent walk of the protobuf framing).
func c43Regions(body []byte) []string {
	lab := make([]string, len(body))
	for i := range lab {
		lab[i] = "framing"
	}
	varint := func(b []byte, at int) (uint64, int) {
		var v uint64
		for s, i := uint(0), at; i < len(b); i, s = i+1, s+7 {
			v |= uint64(b[i]&0x7f) << s
			if b[i]&0x80 == 0 {
				return v, i + 1
			}
		}
		return 0, -1
	}
	var walk func(lo, hi int, path string)
	walk = func(lo, hi int, path string) {
		for at := lo; at < hi; {
			key, n := varint(body, at)
			if n < 0 {
				return
			}
			field, wt := int(key>>3), int(key&7)
			name := fmt.Sprintf("%s.%d", path, field)
			switch wt {
			case 0:
				_, e := varint(body, n)
				if e < 0 {
					return
				}
				for i := n; i < e; i++ {
					lab[i] = name
				}
				at = e
			case 2:
				l, e := varint(body, n)
				if e < 0 || e+int(l) > hi {
					return
				}
				switch name {
				case ".1", ".1.2":
					walk(e, e+int(l), name)
				default:
					for i := e; i < e+int(l); i++ {
						lab[i] = name
					}
				}
				at = e + int(l)
			default:
				return
			}
		}
	}
	walk(0, len(body), "")
	names := map[string]string{".1.1": "algorithm", ".1.2.1": "argon2.version", ".1.2.2": "argon2.memory", ".1.2.3": "argon2.iterations", ".1.2.4": "argon2.parallelism", ".1.2.5": "salt", ".2": "ciphertext"}
	first, last := -1, -1
	for i, l := range lab {
		if n, ok := names[l]; ok {
			lab[i] = n
		}
		if lab[i] == "ciphertext" {
			if first < 0 {
				first = i
			}
			last = i
		}
	}
	for i := first; first >= 0 && i <= last; i++ {
		switch {
		case i < first+12:
			lab[i] = "nonce"
		case i > last-16:
			lab[i] = "gcm-tag"
		}
	}
	return lab
}

type c43Case struct {
	idx       int
	curve     Curve
	key, pass []byte
	passClass string
	mem, iter uint32
	par       uint8
	pemBytes  []byte
	body      []byte
	orig      c43Fields
}

func (c *c43Case) record(extra map[string]any) map[string]any {
	m := map[string]any{"case_index": c.idx, "curve": c.curve.String(), "key_hex": verifkit.Hex(c.key), "passphrase_hex": verifkit.Hex(c.pass), "argon2": map[string]any{"memory_kib": c.mem, "iterations": c.iter, "parallelism": c.par},
		"encrypted_pem": string(c.pemBytes)}
	for k, v := range extra {
		m[k] = v
	}
	return m
}

func c43ErrClass(err error) string {
	switch {
	case err == nil:
		return "accepted"
	case strings.Contains(err.Error(), "invalid passphrase or corrupt"):
		return "authentication-failure"
	case strings.Contains(err.Error(), "PEM") || strings.Contains(err.Error(), "banner"):
		return "pem/banner"
	case strings.Contains(err.Error(), "Argon2") || strings.Contains(err.Error(), "argon") || strings.Contains(err.Error(), "salt"):
		return "kdf-parameters"
	case strings.Contains(err.Error(), "proto"):
		return "protobuf"
	case strings.Contains(err.Error(), "unsupported encryption algorithm"):
		return "algorithm"
	default:
		return "other-refusal"
	}
}

// c43Try feeds one (possibly altered) PEM to the real decryptor and judges the outcome. altered body == nil means the PEM
// text itself was altered and the body is whatever pem.Decode makes of it.
func c43Try(r *verifkit.Reporter, c *c43Case, kind, where string, pemText []byte) {
	blk, _ := pem.Decode(pemText)
	var mf c43Fields
	if blk != nil {
		mf = c43Decode(blk.Bytes)
		if mf.tooExpensive() {
			r.Count("skipped_kdf_too_expensive", 1)
			r.Count("skipped_kdf_too_expensive_"+kind, 1)
			return
		}
	}
	rec := func() any {
		return c.record(map[string]any{"mutation": kind, "where": where, "mutated_pem": string(pemText)})
	}
	var cu Curve
	var got, rest []byte
	var err error
	if r.Guard("C43/decrypt-panic", rec, func() { cu, got, rest, err = DecryptAndUnmarshalSigningPrivateKey(c.pass, pemText) }) {
		return
	}
	r.Eval(1)
	r.Count("attempts_"+kind, 1)
	cls := c43ErrClass(err)
	r.DistinctClass(kind + " " + strings.SplitN(where, "@", 2)[0] + " -> " + cls)
	h := uint64(1469598103934665603)
	for _, b := range pemText {
		h = (h ^ uint64(b)) * 1099511628211
	}
	r.DistinctU64(h ^ uint64(c.idx)<<48)
	if err != nil {
		return
	}
	sameBanner := blk != nil && blk.Type == c43EncBanner[c.curve]
	if blk != nil && c.orig.same(mf) && sameBanner {
		// nothing that is part of the encrypted data changed: must still give the original key
		r.Count("framing_only_change_accepted", 1)
		if !bytes.Equal(got, c.key) || cu != c.curve {
			r.Violation("C43/decrypts-to-different-key", fmt.Sprintf("%s at %s: same decoded fields but a different key came out", kind, where), rec())
		}
		_ = rest
		return
	}
	d := "banner"
	if blk != nil && !c.orig.same(mf) {
		d = c.orig.diff(mf)
	}
	r.Violation("C43/altered-data-accepted", fmt.Sprintf("%s at %s: altered encrypted data (%s) was decrypted", kind, where, d), rec())
}

func c43PEM(banner string, body []byte) []byte {
	return pem.EncodeToMemory(&pem.Block{Type: banner, Bytes: body})
}

func TestVerifC43Encrypted(t *testing.T) {
	r := verifkit.NewReporter(t, "C43", "encrypted",
		"signing keys of both curves encrypted with PRNG passphrases (empty, 1 byte, unicode, NUL, 1 KiB binary) and small Argon2id parameters (memory 8..64 KiB, 1..2 iterations, parallelism 1..4); for each: right passphrase, neighbouring wrong passphrases, EVERY single-bit flip and EVERY truncation of the PEM body, 1..3 byte extensions, field-level edits re-encoded with protobuf, cross-key splices, all 12 banners, and every single-bit flip of the PEM text. evaluations = decrypt attempts; distinct = distinct mutated PEMs tried; classes = mutation kind x region x outcome")
	defer r.Done()
	nCases := verifkit.Scale(10, 240)
	allFlipsRun := true
	mine := 0
	for k := 0; k < nCases; k++ {
		if !verifkit.Mine(k) {
			continue
		}
		mine++
		rng := verifkit.SubRand("C43enc", k)
		c := &c43Case{idx: k, curve: Curve(k % 2)}
		c.key = c43NewSigningKey(c.curve)
		cls := -1
		if k < 7 {
			cls = k // the first seven cases walk through every passphrase class
		}
		c.pass, c.passClass = c43Passphrase(rng, cls)
		c.mem, c.iter, c.par = c43Pick(rng, uint32(8), 16, 32, 64), uint32(1+rng.IntN(2)), c43Pick(rng, uint8(1), 2, 4)
		var err error
		r.Pre("C43 case %d curve=%s pass=%s argon=%d/%d/%d", k, c.curve, c.passClass, c.mem, c.iter, c.par)
		c.pemBytes, err = EncryptAndMarshalSigningPrivateKey(c.curve, c.key, c.pass, NewArgon2Parameters(c.mem, c.par, c.iter))
		if err != nil {
			r.Violation("C43/encrypt-refuses-valid-input", err.Error(), c.record(nil))
			continue
		}
		blk, rest := pem.Decode(c.pemBytes)
		if blk == nil || len(rest) != 0 || blk.Type != c43EncBanner[c.curve] {
			r.Violation("C43/encrypted-pem-wrong-banner", "encrypted key PEM does not carry the encrypted banner of its curve", c.record(nil))
			continue
		}
		c.body = blk.Bytes
		c.orig = c43Decode(c.body)
		if !c.orig.ok || c.orig.memory != c.mem || c.orig.iterations != c.iter || c.orig.parallelism != uint32(c.par) || len(c.orig.salt) < 16 || len(c.orig.ciphertext) != 12+len(c.key)+16 {
			r.Violation("C43/encrypted-body-unexpected", "the encrypted body does not carry the parameters that were asked for", c.record(nil))
			continue
		}
		if r.WantSample() {
			r.Sample(c.record(map[string]any{"passphrase_class": c.passClass}))
		}
		r.DistinctClass(fmt.Sprintf("case %s pass=%s mem=%d iter=%d par=%d", c.curve, c.passClass, c.mem, c.iter, c.par))

		// 1. the right passphrase gives back exactly the key, the curve and the trailing bytes
		for _, trailing := range [][]byte{nil, []byte("trailing bytes\n"), c.pemBytes} {
			in := append(slices.Clone(c.pemBytes), trailing...)
			var cu Curve
			var got, rest []byte
			var err error
			r.Guard("C43/decrypt-panic", func() any { return c.record(nil) }, func() { cu, got, rest, err = DecryptAndUnmarshalSigningPrivateKey(c.pass, in) })
			r.Eval(1)
			r.Count("right_passphrase", 1)
			if err != nil || cu != c.curve || !bytes.Equal(got, c.key) || !bytes.Equal(rest, trailing) {
				r.Violation("C43/right-passphrase-does-not-restore-key", fmt.Sprintf("err=%v curve=%v key-equal=%v rest-equal=%v", err, cu, bytes.Equal(got, c.key), bytes.Equal(rest, trailing)), c.record(map[string]any{"trailing_len": len(trailing)}))
			}
		}
		// the unencrypted reader must say "encrypted", never hand out bytes
		if kb, _, cu, err := UnmarshalSigningPrivateKeyFromPEM(c.pemBytes); !errors.Is(err, ErrPrivateKeyEncrypted) || kb != nil || cu != c.curve {
			r.Violation("C43/encrypted-key-read-as-plain", fmt.Sprintf("UnmarshalSigningPrivateKeyFromPEM on an encrypted key: err=%v curve=%v", err, cu), c.record(nil))
		}

		// 2. wrong passphrases
		for _, wp := range c43WrongPassphrases(rng, c.pass) {
			var got []byte
			var err error
			r.Guard("C43/decrypt-panic", func() any { return c.record(map[string]any{"wrong_passphrase_hex": verifkit.Hex(wp)}) }, func() { _, got, _, err = DecryptAndUnmarshalSigningPrivateKey(wp, c.pemBytes) })
			r.Eval(1)
			r.Count("wrong_passphrase", 1)
			if err == nil {
				r.Violation("C43/wrong-passphrase-accepted", fmt.Sprintf("a passphrase different from the one used to encrypt opened the key (same key out: %v)", bytes.Equal(got, c.key)), c.record(map[string]any{"wrong_passphrase_hex": verifkit.Hex(wp)}))
			}
		}

		// 3. every single-bit flip of the body
		regions := c43Regions(c.body)
		before := r.Counter("skipped_kdf_too_expensive")
		for i := range c.body {
			for b := 0; b < 8; b++ {
				m := slices.Clone(c.body)
				m[i] ^= 1 << b
				r.Count("bitflip_in_"+regions[i], 1)
				c43Try(r, c, "bitflip", fmt.Sprintf("%s@byte %d bit %d", regions[i], i, b), c43PEM(blk.Type, m))
			}
		}
		if r.Counter("skipped_kdf_too_expensive") != before {
			allFlipsRun = false
		}
		// 4. every truncation, short extensions
		for l := 0; l < len(c.body); l++ {
			c43Try(r, c, "truncate", fmt.Sprintf("%s@length %d", regions[l], l), c43PEM(blk.Type, c.body[:l]))
		}
		for _, ext := range [][]byte{{0}, {0xff}, {0x18, 0x01}, {0x12, 0x00}, {0x0a, 0x00}, {0x12, 0x01, 0x00}, {0x1a, 0x01, 0x41}} {
			c43Try(r, c, "extend", fmt.Sprintf("append@%x", ext), c43PEM(blk.Type, append(slices.Clone(c.body), ext...)))
		}
		// 5. field-level edits, re-encoded by protobuf
		edit := func(where string, f func(m *RawNebulaEncryptedData)) {
			var m RawNebulaEncryptedData
			if err := proto.Unmarshal(c.body, &m); err != nil {
				return
			}
			f(&m)
			b, err := proto.Marshal(&m)
			if err != nil {
				return
			}
			c43Try(r, c, "field-edit", where, c43PEM(blk.Type, b))
		}
		a2 := func(m *RawNebulaEncryptedData) *RawNebulaArgon2Parameters {
			return m.EncryptionMetadata.Argon2Parameters
		}
		edit("argon2.memory@+1", func(m *RawNebulaEncryptedData) { a2(m).Memory++ })
		edit("argon2.memory@-1", func(m *RawNebulaEncryptedData) { a2(m).Memory-- })
		edit("argon2.memory@x2", func(m *RawNebulaEncryptedData) { a2(m).Memory *= 2 })
		edit("argon2.memory@0", func(m *RawNebulaEncryptedData) { a2(m).Memory = 0 })
		edit("argon2.iterations@+1", func(m *RawNebulaEncryptedData) { a2(m).Iterations++ })
		edit("argon2.iterations@0", func(m *RawNebulaEncryptedData) { a2(m).Iterations = 0 })
		edit("argon2.parallelism@+1", func(m *RawNebulaEncryptedData) { a2(m).Parallelism++ })
		edit("argon2.parallelism@0", func(m *RawNebulaEncryptedData) { a2(m).Parallelism = 0 })
		edit("argon2.parallelism@256+p", func(m *RawNebulaEncryptedData) { a2(m).Parallelism += 256 })
		edit("argon2.version@0x10", func(m *RawNebulaEncryptedData) { a2(m).Version = 0x10 })
		edit("argon2.version@0", func(m *RawNebulaEncryptedData) { a2(m).Version = 0 })
		edit("salt@truncated-to-16", func(m *RawNebulaEncryptedData) { a2(m).Salt = a2(m).Salt[:16] })
		edit("salt@truncated-to-15", func(m *RawNebulaEncryptedData) { a2(m).Salt = a2(m).Salt[:15] })
		edit("salt@empty", func(m *RawNebulaEncryptedData) { a2(m).Salt = nil })
		edit("salt@extended", func(m *RawNebulaEncryptedData) { a2(m).Salt = append(a2(m).Salt, 0) })
		edit("algorithm@lowercase", func(m *RawNebulaEncryptedData) { m.EncryptionMetadata.EncryptionAlgorithm = "aes-256-gcm" })
		edit("algorithm@empty", func(m *RawNebulaEncryptedData) { m.EncryptionMetadata.EncryptionAlgorithm = "" })
		edit("algorithm@AES-128-GCM", func(m *RawNebulaEncryptedData) { m.EncryptionMetadata.EncryptionAlgorithm = "AES-128-GCM" })
		edit("ciphertext@empty", func(m *RawNebulaEncryptedData) { m.Ciphertext = nil })
		edit("ciphertext@nonce-only", func(m *RawNebulaEncryptedData) { m.Ciphertext = m.Ciphertext[:12] })
		edit("ciphertext@drop-last-byte", func(m *RawNebulaEncryptedData) { m.Ciphertext = m.Ciphertext[:len(m.Ciphertext)-1] })
		edit("ciphertext@append-byte", func(m *RawNebulaEncryptedData) { m.Ciphertext = append(m.Ciphertext, 0) })
		edit("ciphertext@swap-nonce-halves", func(m *RawNebulaEncryptedData) {
			ct := slices.Clone(m.Ciphertext)
			copy(ct[0:6], m.Ciphertext[6:12])
			copy(ct[6:12], m.Ciphertext[0:6])
			m.Ciphertext = ct
		})
		edit("metadata@argon-missing", func(m *RawNebulaEncryptedData) { m.EncryptionMetadata.Argon2Parameters = nil })
		edit("metadata@missing", func(m *RawNebulaEncryptedData) { m.EncryptionMetadata = nil })
		// 6. splice with another encryption of the same key under the same passphrase and parameters
		if other, err := EncryptAndMarshalSigningPrivateKey(c.curve, c.key, c.pass, NewArgon2Parameters(c.mem, c.par, c.iter)); err == nil {
			ob, _ := pem.Decode(other)
			var mo RawNebulaEncryptedData
			if ob != nil && proto.Unmarshal(ob.Bytes, &mo) == nil {
				edit("splice@salt-of-twin", func(m *RawNebulaEncryptedData) { a2(m).Salt = mo.EncryptionMetadata.Argon2Parameters.Salt })
				edit("splice@ciphertext-of-twin", func(m *RawNebulaEncryptedData) { m.Ciphertext = mo.Ciphertext })
				edit("splice@nonce-of-twin", func(m *RawNebulaEncryptedData) {
					m.Ciphertext = append(slices.Clone(mo.Ciphertext[:12]), m.Ciphertext[12:]...)
				})
			}
		}
		// 7. the same body under every banner
		for _, bn := range c43AllBanners {
			if bn != blk.Type {
				c43Try(r, c, "banner", "banner@"+bn, c43PEM(bn, c.body))
			}
		}
		c43Try(r, c, "banner", "banner@lowercase", c43PEM(strings.ToLower(blk.Type), c.body))
		c43Try(r, c, "banner", "banner@trailing-space", c43PEM(blk.Type+" ", c.body))
		// 8. every single-bit flip of the PEM text
		if k < verifkit.Scale(4, 24) {
			for i := range c.pemBytes {
				for b := 0; b < 8; b++ {
					m := slices.Clone(c.pemBytes)
					m[i] ^= 1 << b
					where := "pem-base64"
					if i < bytes.IndexByte(c.pemBytes, '\n') {
						where = "pem-begin-line"
					} else if i >= bytes.LastIndex(c.pemBytes, []byte("-----END")) {
						where = "pem-end-line"
					}
					c43Try(r, c, "pemtext-bitflip", fmt.Sprintf("%s@byte %d bit %d", where, i, b), m)
				}
			}
			r.Count("cases_with_pem_text_flips", 1)
		}
		r.Count("encrypted_keys", 1)
	}
	if allFlipsRun && r.Counter("encrypted_keys") > 0 {
		r.Exhaustive(fmt.Sprintf("every single-bit flip and every truncation length of the decoded PEM body of %d encrypted keys of this shard; every single-bit flip of the PEM text of %d of them", r.Counter("encrypted_keys"), r.Counter("cases_with_pem_text_flips")))
	}
	if mine > 0 && r.Counter("encrypted_keys") == 0 {
		r.Inconclusive("no key could be encrypted")
	}
}

// ---------------------------------------------------------------------------------------------------------------
// key PEM encodings

type c43Unmarshaler struct {
	name   string
	f      func([]byte) ([]byte, []byte, Curve, error)
	accept map[string]struct {
		n  int
		cu Curve
	}
}

func c43Unmarshalers() []c43Unmarshaler {
	type a = struct {
		n  int
		cu Curve
	}
	return []c43Unmarshaler{
		{"UnmarshalPublicKeyFromPEM", UnmarshalPublicKeyFromPEM, map[string]a{X25519PublicKeyBanner: {32, Curve_CURVE25519}, P256PublicKeyBanner: {65, Curve_P256}}},
		{"UnmarshalSigningPublicKeyFromPEM", UnmarshalSigningPublicKeyFromPEM, map[string]a{Ed25519PublicKeyBanner: {32, Curve_CURVE25519}, ECDSAP256PublicKeyBanner: {65, Curve_P256}}},
		{"UnmarshalPrivateKeyFromPEM", UnmarshalPrivateKeyFromPEM, map[string]a{X25519PrivateKeyBanner: {32, Curve_CURVE25519}, P256PrivateKeyBanner: {32, Curve_P256}}},
		{"UnmarshalSigningPrivateKeyFromPEM", UnmarshalSigningPrivateKeyFromPEM, map[string]a{Ed25519PrivateKeyBanner: {64, Curve_CURVE25519}, ECDSAP256PrivateKeyBanner: {32, Curve_P256}}},
		{"DecryptAndUnmarshalSigningPrivateKey", func(b []byte) ([]byte, []byte, Curve, error) {
			if blk, _ := pem.Decode(b); blk != nil && c43Decode(blk.Bytes).tooExpensive() {
				return nil, nil, 0, errors.New("harness: KDF parameters too expensive to run")
			}
			cu, k, rest, err := DecryptAndUnmarshalSigningPrivateKey([]byte("passphrase"), b)
			return k, rest, cu, err
		}, map[string]a{}},
		{"UnmarshalCertificateFromPEM", func(b []byte) ([]byte, []byte, Curve, error) {
			c, rest, err := UnmarshalCertificateFromPEM(b)
			if err != nil {
				return nil, rest, 0, err
			}
			return c.PublicKey(), rest, c.Curve(), nil
		}, map[string]a{}},
	}
}

func TestVerifC43KeyPEM(t *testing.T) {
	r := verifkit.NewReporter(t, "C43", "keypem",
		"(a) the complete matrix {12 nebula banners + 4 near-miss banners} x {body length 0,1,16,31,32,33,63,64,65,66,100} x {6 PEM readers}: a reader accepts exactly its own banners with a body of the documented length and returns body and curve; (b) PRNG keys through every Marshal*ToPEM / Unmarshal*FromPEM pair for both curves, with and without trailing data, and through every other reader (must refuse). distinct = distinct (banner, length, reader, outcome) cells plus distinct keys")
	defer r.Done()
	us := c43Unmarshalers()
	rng := verifkit.NewRand("C43keypem")
	banners := append(slices.Clone(c43AllBanners), "NEBULA KEY", strings.ToLower(X25519PrivateKeyBanner), Ed25519PrivateKeyBanner+" ", "NEBULA ED25519 PRIVATE KEY V2")
	lengths := []int{0, 1, 16, 31, 32, 33, 63, 64, 65, 66, 100}
	if i, _ := verifkit.Shard(); i == 0 {
		for _, bn := range banners {
			for _, n := range lengths {
				body := make([]byte, n)
				for i := range body {
					body[i] = byte(rng.IntN(256))
				}
				in := c43PEM(bn, body)
				for _, u := range us {
					rec := func() any {
						return map[string]any{"reader": u.name, "banner": bn, "body_len": n, "pem": string(in)}
					}
					var k, rest []byte
					var cu Curve
					var err error
					if r.Guard("C43/keypem-panic", rec, func() { k, rest, cu, err = u.f(in) }) {
						continue
					}
					r.Eval(1)
					want, own := u.accept[bn]
					shouldAccept := own && want.n == n
					r.DistinctClass(fmt.Sprintf("%s | %q | len %d | accepted=%v", u.name, bn, n, err == nil))
					switch {
					case err == nil && !own:
						r.Violation("C43/key-accepted-under-wrong-banner", fmt.Sprintf("%s accepted banner %q", u.name, bn), rec())
					case err == nil && !shouldAccept:
						r.Violation("C43/key-accepted-with-wrong-length", fmt.Sprintf("%s accepted a %d-byte body under %q", u.name, n, bn), rec())
					case err != nil && shouldAccept:
						r.Violation("C43/key-refused-under-own-banner", fmt.Sprintf("%s refused a well-formed %q: %v", u.name, bn, err), rec())
					case err == nil:
						if !bytes.Equal(k, body) || cu != want.cu || len(rest) != 0 {
							r.Violation("C43/key-pem-roundtrip-mismatch", fmt.Sprintf("%s returned different bytes/curve for %q", u.name, bn), rec())
						}
					}
				}
			}
		}
		r.Exhaustive(fmt.Sprintf("%d banners x %d body lengths x %d PEM readers", len(banners), len(lengths), len(us)))
	}
	// (b) marshal / unmarshal pairs
	type pair struct {
		name    string
		marshal func(Curve, []byte) []byte
		reader  int
		n       [2]int
		banner  [2]string
	}
	pairs := []pair{
		{"MarshalPublicKeyToPEM", MarshalPublicKeyToPEM, 0, [2]int{32, 65}, [2]string{X25519PublicKeyBanner, P256PublicKeyBanner}},
		{"MarshalSigningPublicKeyToPEM", MarshalSigningPublicKeyToPEM, 1, [2]int{32, 65}, [2]string{Ed25519PublicKeyBanner, ECDSAP256PublicKeyBanner}},
		{"MarshalPrivateKeyToPEM", MarshalPrivateKeyToPEM, 2, [2]int{32, 32}, [2]string{X25519PrivateKeyBanner, P256PrivateKeyBanner}},
		{"MarshalSigningPrivateKeyToPEM", MarshalSigningPrivateKeyToPEM, 3, [2]int{64, 32}, [2]string{Ed25519PrivateKeyBanner, ECDSAP256PrivateKeyBanner}},
	}
	n := verifkit.Scale(3000, 200_000)
	for i := 0; i < n; i++ {
		if !verifkit.Mine(i) {
			continue
		}
		sub := verifkit.SubRand("C43pair", i)
		p := pairs[sub.IntN(len(pairs))]
		cu := Curve(sub.IntN(2))
		key := make([]byte, p.n[cu])
		for j := range key {
			key[j] = byte(sub.IntN(256))
		}
		switch sub.IntN(8) {
		case 0:
			clear(key)
		case 1:
			for j := range key {
				key[j] = 0xff
			}
		}
		out := p.marshal(cu, key)
		rec := func() any {
			return map[string]any{"case_index": i, "marshaler": p.name, "curve": cu.String(), "key_hex": verifkit.Hex(key), "pem": string(out)}
		}
		blk, rest := pem.Decode(out)
		if blk == nil || len(rest) != 0 || blk.Type != p.banner[cu] || !bytes.Equal(blk.Bytes, key) {
			r.Violation("C43/key-marshaled-under-wrong-banner", fmt.Sprintf("%s(%s) did not produce a %q block holding the key", p.name, cu, p.banner[cu]), rec())
			continue
		}
		trailing := c43Pick(sub, []byte(nil), []byte("tail"), out)
		in := append(slices.Clone(out), trailing...)
		for ui, u := range us {
			var k, rst []byte
			var gcu Curve
			var err error
			if r.Guard("C43/keypem-panic", rec, func() { k, rst, gcu, err = u.f(in) }) {
				continue
			}
			r.Eval(1)
			if ui == p.reader {
				r.Count("pair_roundtrips", 1)
				if err != nil || !bytes.Equal(k, key) || gcu != cu || !bytes.Equal(rst, trailing) {
					r.Violation("C43/key-pem-roundtrip-mismatch", fmt.Sprintf("%s -> %s: err=%v key-equal=%v curve=%v rest-equal=%v", p.name, u.name, err, bytes.Equal(k, key), gcu, bytes.Equal(rst, trailing)), rec())
				}
			} else {
				r.Count("cross_reader_refusals", 1)
				if err == nil {
					r.Violation("C43/key-accepted-under-wrong-banner", fmt.Sprintf("%s accepted the output of %s (%q)", u.name, p.name, blk.Type), rec())
				}
			}
		}
		r.Distinct(fmt.Sprintf("%s|%d|%x", p.name, cu, key))
		if r.WantSample() {
			r.Sample(rec())
		}
		// an unknown curve has no PEM form
		if i%64 == 0 {
			if b := p.marshal(Curve(2+sub.IntN(3)), key); b != nil {
				r.Violation("C43/unknown-curve-marshaled", p.name+" produced PEM for an unknown curve", rec())
			}
		}
	}
}
