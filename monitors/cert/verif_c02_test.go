package cert

// C02 — tampered certificates are rejected.
//
// Oracle (from the property statement): let S be a certificate issued by the real SignWith and trusted by a pool
// (host certificates: CAPool.VerifyCertificate inside the validity window; CA certificates: CAPool.AddCA puts it
// into the pool). For every altered encoding M of S (standard form through UnmarshalCertificateFromPEM, handshake
// form through Recombine with the detached public key) that still decodes to a certificate D:
//     D verifies  =>  identity(D) == identity(S)                                  [identity = name, networks, unsafe
//                     and signature(D) is signature(S) or its P-256 (r, n-s) twin   networks, groups, CA flag, validity,
//                     and blocklisting fingerprint(S) rejects D                     issuer, curve, public key]
//                     and blocklisting fingerprint(twin of S) rejects D
// and blocklisting either twin's fingerprint rejects S and its twin. Any panic is a witness.
// The twin is computed independently (encoding/asn1 + math/big); fingerprints are those of the decoded certificates.

import (
	"bytes"
	"crypto"
	"crypto/ecdsa"
	"crypto/ed25519"
	"crypto/elliptic"
	"crypto/sha256"
	"encoding/asn1"
	"encoding/hex"
	"encoding/pem"
	"errors"
	"fmt"
	"hash/fnv"
	"math/big"
	"math/rand/v2"
	"net/netip"
	"slices"
	"strings"
	"testing"
	"time"

	"golang.org/x/crypto/cryptobyte"
	cbasn1 "golang.org/x/crypto/cryptobyte/asn1"
	"google.golang.org/protobuf/encoding/protowire"

	"github.com/slackhq/nebula/verifkit"
)

// ---------------------------------------------------------------------------------------------------------------
// keys / signatures

type c02Key struct {
	curve Curve
	ed    ed25519.PrivateKey
	ec    *ecdsa.PrivateKey
	pub   []byte
}

func c02Bytes(rng *rand.Rand, n int) []byte {
	b := make([]byte, n)
	for i := range b {
		b[i] = byte(rng.Uint32())
	}
	return b
}

func c02NewKey(rng *rand.Rand, curve Curve) *c02Key {
	if curve == Curve_CURVE25519 {
		k := ed25519.NewKeyFromSeed(c02Bytes(rng, 32))
		return &c02Key{curve: curve, ed: k, pub: slices.Clone([]byte(k.Public().(ed25519.PublicKey)))}
	}
	for {
		k, err := ecdsa.ParseRawPrivateKey(elliptic.P256(), c02Bytes(rng, 32))
		if err != nil {
			continue
		}
		pub, err := k.PublicKey.Bytes()
		if err != nil {
			continue
		}
		return &c02Key{curve: curve, ec: k, pub: pub}
	}
}

func (k *c02Key) sign(msg []byte) ([]byte, error) {
	if k.curve == Curve_CURVE25519 {
		return ed25519.Sign(k.ed, msg), nil
	}
	h := sha256.Sum256(msg)
	return k.ec.Sign(nil, h[:], crypto.SHA256) // deterministic nonces: the case list is a function of the seed only
}

func c02DHPub(rng *rand.Rand, curve Curve) []byte {
	if curve == Curve_CURVE25519 {
		return c02Bytes(rng, 32)
	}
	return c02NewKey(rng, Curve_P256).pub
}

type c02RS struct{ R, S *big.Int }

func c02ParseRS(sig []byte) (*big.Int, *big.Int, bool) {
	var rs c02RS
	rest, err := asn1.Unmarshal(sig, &rs)
	if err != nil || len(rest) != 0 || rs.R == nil || rs.S == nil {
		return nil, nil, false
	}
	return rs.R, rs.S, true
}

// c02Twin: (r,s) -> (r, n-s), independent of cert/p256.
func c02Twin(sig []byte) ([]byte, bool) {
	r, s, ok := c02ParseRS(sig)
	n := elliptic.P256().Params().N
	if !ok || s.Sign() <= 0 || s.Cmp(n) >= 0 {
		return nil, false
	}
	out, err := asn1.Marshal(c02RS{r, new(big.Int).Sub(n, s)})
	return out, err == nil
}

// ---------------------------------------------------------------------------------------------------------------
// a neutral view of a certificate, used to rebuild encodings with chosen parts

type c02Fields struct {
	ver          Version
	name         string
	nets, unsafe []netip.Prefix
	groups       []string
	isCA         bool
	nb, na       time.Time
	issuer       string
	curve        Curve
	pub          []byte
	sig          []byte
}

func c02FieldsOf(c Certificate) c02Fields {
	return c02Fields{ver: c.Version(), name: c.Name(), nets: slices.Clone(c.Networks()), unsafe: slices.Clone(c.UnsafeNetworks()), groups: slices.Clone(c.Groups()),
		isCA: c.IsCA(), nb: c.NotBefore(), na: c.NotAfter(), issuer: c.Issuer(), curve: c.Curve(), pub: slices.Clone(c.PublicKey()), sig: slices.Clone(c.Signature())}
}

// c02Encode builds both encodings from the fields without any validation and without signing.
func c02Encode(f c02Fields) (std, hs []byte, err error) {
	var c Certificate
	switch f.ver {
	case Version1:
		c = &certificateV1{details: detailsV1{name: f.name, networks: f.nets, unsafeNetworks: f.unsafe, groups: f.groups, notBefore: f.nb, notAfter: f.na,
			publicKey: f.pub, isCA: f.isCA, issuer: f.issuer, curve: f.curve}, signature: f.sig}
	case Version2:
		d := detailsV2{name: f.name, networks: f.nets, unsafeNetworks: f.unsafe, groups: f.groups, isCA: f.isCA, notBefore: f.nb, notAfter: f.na, issuer: f.issuer}
		raw, err := d.Marshal()
		if err != nil {
			return nil, nil, err
		}
		c = &certificateV2{details: d, rawDetails: raw, curve: f.curve, publicKey: f.pub, signature: f.sig}
	default:
		return nil, nil, fmt.Errorf("version")
	}
	if std, err = c.Marshal(); err != nil {
		return nil, nil, err
	}
	if hs, err = c.MarshalForHandshakes(); err != nil {
		return nil, nil, err
	}
	return std, hs, nil
}

// identity tuple of the statement
func c02Diff(a, b Certificate) string {
	switch {
	case a.Name() != b.Name():
		return "name"
	case !slices.Equal(a.Networks(), b.Networks()):
		return "networks"
	case !slices.Equal(a.UnsafeNetworks(), b.UnsafeNetworks()):
		return "unsafe-networks"
	case !slices.Equal(a.Groups(), b.Groups()):
		return "groups"
	case a.IsCA() != b.IsCA():
		return "ca-flag"
	case !a.NotBefore().Equal(b.NotBefore()):
		return "not-before"
	case !a.NotAfter().Equal(b.NotAfter()):
		return "not-after"
	case a.Issuer() != b.Issuer():
		return "issuer"
	case a.Curve() != b.Curve():
		return "curve"
	case !bytes.Equal(a.PublicKey(), b.PublicKey()):
		return "public-key"
	}
	return ""
}

// ---------------------------------------------------------------------------------------------------------------
// seeds

type c02Seed struct {
	idx     int
	desc    string
	ver     Version
	curve   Curve
	isCA    bool
	cert    Certificate // as decoded from its PEM
	fields  c02Fields
	std, hs []byte
	banner  string
	pk      []byte
	sig     []byte
	twinSig []byte
	fp      string
	twinFP  string
	caCert  Certificate
	caPEM   []byte
	pool    *CAPool
	at      time.Time
}

func c02Banner(v Version) string {
	if v == Version2 {
		return CertificateV2Banner
	}
	return CertificateBanner
}

func c02DecodeStd(banner string, b []byte) (Certificate, error) {
	c, _, err := UnmarshalCertificateFromPEM(pem.EncodeToMemory(&pem.Block{Type: banner, Bytes: b}))
	return c, err
}

func c02MakeSeeds(r *verifkit.Reporter) []*c02Seed {
	rng := verifkit.NewRand("C02seeds")
	t0 := time.Unix(946684800+rng.Int64N(40*365*86400), 0)
	var seeds []*c02Seed
	fail := func(why string, err error) {
		r.Inconclusive(fmt.Sprintf("harness: %s: %v", why, err))
	}
	type shape struct {
		name                    string
		ca, rich, highS, v2only bool
		v1only, shortS          bool
	}
	shapes := []shape{
		{name: "ca-plain", ca: true}, {name: "ca-rich", ca: true, rich: true},
		{name: "host-plain"}, {name: "host-rich", rich: true}, {name: "host-highS", highS: true, rich: true},
		{name: "host-longname-v6only", v2only: true}, {name: "host-emptyname", v1only: true},
		// P-256 signatures whose low-S value has two or more leading zero bytes (about one signature in 32768): the shapes on
		// which a re-encoding of s or n-s can go wrong; issued in low-S form and presented as the high-S twin
		{name: "host-shortS", shortS: true}, {name: "host-shortS-highS", shortS: true, highS: true},
	}
	if verifkit.Thorough() {
		shapes = append(shapes, shape{name: "host-rich-b", rich: true}, shape{name: "host-plain-b"}, shape{name: "ca-rich-b", ca: true, rich: true})
	}
	p := netip.MustParsePrefix
	for _, ver := range []Version{Version1, Version2} {
		for _, curve := range []Curve{Curve_CURVE25519, Curve_P256} {
			for _, sh := range shapes {
				if ((sh.highS || sh.shortS) && curve != Curve_P256) || (sh.v2only && ver != Version2) || (sh.v1only && ver != Version1) {
					continue
				}
				caKey := c02NewKey(rng, curve)
				signer := func(b []byte) ([]byte, error) { return caKey.sign(b) }
				caTBS := &TBSCertificate{Version: ver, Name: fmt.Sprintf("seed-ca-%x", rng.Uint32()), IsCA: true, NotBefore: t0.Add(-time.Hour * 24 * 30), NotAfter: t0.Add(time.Hour * 24 * 365),
					PublicKey: slices.Clone(caKey.pub), Curve: curve}
				if sh.ca && sh.rich {
					caTBS.Groups = []string{"ops", "db", "ünï code"}
					caTBS.Networks = []netip.Prefix{p("10.0.0.0/8"), p("172.16.0.0/12")}
					caTBS.UnsafeNetworks = []netip.Prefix{p("192.168.0.0/16")}
					if ver == Version2 {
						caTBS.Networks = append(caTBS.Networks, p("fd00:1234::/32"))
						caTBS.UnsafeNetworks = append(caTBS.UnsafeNetworks, p("fc00::/7"))
					}
				}
				caMem, err := caTBS.SignWith(nil, curve, signer)
				if err != nil {
					fail("sign seed CA", err)
					continue
				}
				caPEM, _ := caMem.MarshalPEM()
				caCert, _, err := UnmarshalCertificateFromPEM(caPEM)
				if err != nil {
					fail("decode seed CA", err)
					continue
				}
				s := &c02Seed{idx: len(seeds), ver: ver, curve: curve, isCA: sh.ca, caCert: caCert, caPEM: caPEM, banner: c02Banner(ver), at: t0}
				s.desc = fmt.Sprintf("v%d/%s/%s", ver, curve, sh.name)
				mem := caMem
				if !sh.ca {
					tbs := &TBSCertificate{Version: ver, Name: fmt.Sprintf("host-%x.example", rng.Uint32()), NotBefore: t0.Add(-time.Hour * 24), NotAfter: t0.Add(time.Hour * 24 * 90),
						PublicKey: c02DHPub(rng, curve), Curve: curve, Networks: []netip.Prefix{p("10.1.2.3/16")}}
					if sh.rich {
						tbs.Groups = []string{"ops", "db", "laptop", "ünï"}
						tbs.Networks = []netip.Prefix{p("10.1.2.3/16"), p("172.20.0.9/24")}
						tbs.UnsafeNetworks = []netip.Prefix{p("192.168.7.0/24"), p("0.0.0.0/0")}
						if ver == Version2 {
							tbs.Networks = append(tbs.Networks, p("fd00:1234::9/64"))
							tbs.UnsafeNetworks = append(tbs.UnsafeNetworks, p("fc00:7::/48"))
						}
					}
					if sh.v2only {
						tbs.Name = strings.Repeat("n", 253)
						tbs.Networks = []netip.Prefix{p("fd00::1/64")}
					}
					if sh.v1only {
						tbs.Name = ""
					}
					if sh.shortS {
						// signatures are deterministic here: search over the certificate name instead
						n := elliptic.P256().Params().N
						found := false
						for try := 0; try < 2_000_000 && !found; try++ {
							tbs.Name = fmt.Sprintf("short-%d.example", try)
							cand, err := tbs.SignWith(caCert, curve, signer)
							if err != nil {
								break
							}
							if _, sv, ok := c02ParseRS(cand.Signature()); ok {
								low := new(big.Int).Set(sv)
								if alt := new(big.Int).Sub(n, sv); alt.Cmp(low) < 0 {
									low = alt
								}
								found = low.BitLen() <= 240
							}
						}
						if !found {
							fail("no certificate with a short-s signature found", nil)
							continue
						}
						r.Count("seed_signatures_with_short_s", 1)
					}
					mem, err = tbs.SignWith(caCert, curve, signer)
					if err != nil {
						fail("sign seed host", err)
						continue
					}
				}
				if sh.highS {
					tw, ok := c02Twin(mem.Signature())
					if !ok {
						fail("twin of seed", nil)
						continue
					}
					f := c02FieldsOf(mem)
					f.sig = tw
					std, _, err := c02Encode(f)
					if err != nil {
						fail("encode high-S seed", err)
						continue
					}
					if mem, err = c02DecodeStd(s.banner, std); err != nil {
						fail("decode high-S seed", err)
						continue
					}
				}
				if s.std, err = mem.Marshal(); err != nil {
					fail("marshal seed", err)
					continue
				}
				if s.cert, err = c02DecodeStd(s.banner, s.std); err != nil {
					fail("decode seed", err)
					continue
				}
				if s.hs, err = s.cert.MarshalForHandshakes(); err != nil {
					fail("handshake form of seed", err)
					continue
				}
				s.fields = c02FieldsOf(s.cert)
				s.pk, s.sig = slices.Clone(s.cert.PublicKey()), slices.Clone(s.cert.Signature())
				s.fp, _ = s.cert.Fingerprint()
				if curve == Curve_P256 {
					tw, ok := c02Twin(s.sig)
					if !ok {
						fail("twin of seed", nil)
						continue
					}
					s.twinSig = tw
					f := s.fields
					f.sig = tw
					tstd, _, err := c02Encode(f)
					if err != nil {
						fail("encode twin", err)
						continue
					}
					tc, err := c02DecodeStd(s.banner, tstd)
					if err != nil {
						fail("decode twin", err)
						continue
					}
					s.twinFP, _ = tc.Fingerprint()
					if s.twinFP == s.fp || s.twinFP == "" {
						fail("twin fingerprint equals original", nil)
						continue
					}
				}
				s.pool = NewCAPool()
				if err := s.pool.AddCA(caCert); err != nil && !errors.Is(err, ErrExpired) {
					fail("AddCA seed CA", err)
					continue
				}
				// the seed itself must be trusted, in both encodings
				d2, err := Recombine(ver, s.hs, s.pk, curve)
				if err != nil || !s.verify(s.cert) || !s.verify(d2) || c02Diff(s.cert, d2) != "" {
					fail("seed "+s.desc+" is not trusted by its own pool", err)
					continue
				}
				seeds = append(seeds, s)
			}
		}
	}
	return seeds
}

// verify: is this decoded certificate trusted?  (wall clock never decides: AddCA's ErrExpired is ignored, presence in the pool counts)
func (s *c02Seed) verify(d Certificate) bool {
	if s.isCA {
		p := NewCAPool()
		_ = p.AddCA(d)
		return len(p.CAs) > 0
	}
	_, err := s.pool.VerifyCertificate(s.at, d)
	return err == nil
}

// ---------------------------------------------------------------------------------------------------------------
// the oracle

type c02Mon struct {
	r     *verifkit.Reporter
	seeds []*c02Seed
}

const (
	c02Std = "std"
	c02HS  = "handshake"
)

func c02Hash(form string, ver Version, curve Curve, b, pk []byte) uint64 {
	h := fnv.New64a()
	h.Write([]byte(form))
	h.Write([]byte{byte(ver), byte(curve), 0xfe})
	h.Write(b)
	h.Write([]byte{0xfe, 0xfd})
	h.Write(pk)
	return h.Sum64()
}

// try judges one altered encoding. hsVer/hsCurve are what the handshake layer would pass to Recombine.
func (m *c02Mon) try(s *c02Seed, form, kind string, mut, pk []byte, hsVer Version, hsCurve Curve) (outcome string) {
	r := m.r
	if form == c02Std && bytes.Equal(mut, s.std) {
		return "unchanged"
	}
	if form == c02HS && bytes.Equal(mut, s.hs) && bytes.Equal(pk, s.pk) && hsVer == s.ver && hsCurve == s.curve {
		return "unchanged"
	}
	rep := func() any {
		return map[string]any{"seed_cert": s.desc, "form": form, "edit": kind, "original": verifkit.Hex(map[bool][]byte{true: s.std, false: s.hs}[form == c02Std]),
			"mutant": verifkit.Hex(mut), "detached_public_key": verifkit.Hex(pk), "original_public_key": verifkit.Hex(s.pk), "recombine_version": hsVer, "recombine_curve": hsCurve.String(),
			"ca_pem": string(s.caPEM), "verify_time": s.at.UTC().Format(time.RFC3339), "seed_fingerprint": s.fp, "seed_twin_fingerprint": s.twinFP}
	}
	r.Eval(1)
	var d Certificate
	var err error
	outcome = "panic"
	defer func() {
		group := kind
		if i := strings.IndexByte(kind, ':'); i > 0 {
			group = kind[:i]
		} else if strings.HasPrefix(kind, "recombine-as") {
			group = "recombine-version-curve"
		}
		r.DistinctClass(fmt.Sprintf("%s %s %s -> %s", s.desc[:strings.LastIndex(s.desc, "/")]+map[bool]string{true: "/ca", false: "/host"}[s.isCA], form, group, outcome))
		r.Count("outcome."+outcome, 1)
		if group != kind {
			r.Count("by_edit."+kind+" -> "+outcome, 1)
		}
	}()
	if r.Guard("C02/panic", rep, func() {
		if form == c02Std {
			d, err = c02DecodeStd(s.banner, mut)
		} else {
			d, err = Recombine(hsVer, mut, pk, hsCurve)
		}
	}) {
		return
	}
	if err != nil || d == nil {
		outcome = "no-decode"
		return
	}
	r.DistinctU64(c02Hash(form, hsVer, hsCurve, mut, pk))
	var ok bool
	if r.Guard("C02/panic", rep, func() { ok = s.verify(d) }) {
		return
	}
	if !ok {
		outcome = "rejected"
		return
	}
	outcome = "accepted-same-identity"
	if f := c02Diff(s.cert, d); f != "" {
		// A multi-edit splice can turn the encoding into (an encoding of) another genuine seed certificate, e.g. another
		// self-signed CA: nothing was forged, no verification could refuse it, and the statement does not ask for that.
		for _, o := range m.seeds {
			if o != s && c02Diff(o.cert, d) == "" && (bytes.Equal(d.Signature(), o.sig) || (o.twinSig != nil && bytes.Equal(d.Signature(), o.twinSig))) {
				outcome = "is-another-genuine-certificate"
				return
			}
		}
		outcome = "ACCEPTED-CHANGED"
		rp := rep().(map[string]any)
		rp["changed_field"] = f
		rp["decoded"] = d.String()
		r.Violation("C02/accepted-changed-"+f, fmt.Sprintf("%s %s edit %q decodes, verifies and has a different %s", s.desc, form, kind, f), rp)
		return
	}
	if !bytes.Equal(d.Signature(), s.sig) {
		if s.twinSig != nil && bytes.Equal(d.Signature(), s.twinSig) {
			outcome = "accepted-twin-signature"
		} else {
			outcome = "ACCEPTED-THIRD-SIGNATURE"
			rp := rep().(map[string]any)
			rp["signature"] = verifkit.Hex(d.Signature())
			rp["original_signature"] = verifkit.Hex(s.sig)
			rp["twin_signature"] = verifkit.Hex(s.twinSig)
			r.Violation("C02/accepted-third-signature", fmt.Sprintf("%s %s edit %q verifies with a signature that is neither the original nor its P-256 twin", s.desc, form, kind), rp)
			return
		}
	}
	if r.WantSample() && (kind == "bitflip" || kind == "insert-byte" || kind == "extend") {
		orig := s.std
		if form == c02HS {
			orig = s.hs
		}
		at := 0
		for at < len(orig) && at < len(mut) && orig[at] == mut[at] {
			at++
		}
		r.Sample(map[string]any{"seed_cert": s.desc, "form": form, "edit": kind, "first_difference_at": at, "original": verifkit.Hex(orig), "mutant": verifkit.Hex(mut), "outcome": "decodes, verifies, identity and signature unchanged"})
	}
	// an accepted alteration must still be caught by a blocklist entry for either twin
	if !s.isCA {
		for _, fp := range []string{s.fp, s.twinFP} {
			if fp == "" {
				continue
			}
			s.pool.BlocklistFingerprint(fp)
			still := false
			pan := r.Guard("C02/panic", rep, func() { still = s.verify(d) })
			s.pool.ResetCertBlocklist()
			if pan {
				return
			}
			r.Count("blocklist_rechecks", 1)
			if still {
				outcome = "ACCEPTED-EVADES-BLOCKLIST"
				rp := rep().(map[string]any)
				rp["blocklisted"] = fp
				dfp, _ := d.Fingerprint()
				rp["mutant_fingerprint"] = dfp
				r.Violation("C02/accepted-alteration-evades-blocklist", fmt.Sprintf("%s %s edit %q is accepted although the fingerprint of %s is blocklisted", s.desc, form, kind,
					map[bool]string{true: "the original", false: "its twin"}[fp == s.fp]), rp)
				return
			}
		}
	}
	return
}

func (m *c02Mon) tryStd(s *c02Seed, kind string, mut []byte) string {
	return m.try(s, c02Std, kind, mut, nil, s.ver, s.curve)
}

func (m *c02Mon) tryHS(s *c02Seed, kind string, mut, pk []byte) string {
	return m.try(s, c02HS, kind, mut, pk, s.ver, s.curve)
}

// ---------------------------------------------------------------------------------------------------------------
// edits

var c02InsBytes = []byte{0x00, 0x01, 0x7f, 0x80, 0xff}

// c02SingleEdits enumerates the complete single-edit neighbourhood of b.
func c02SingleEdits(b []byte, rng *rand.Rand, each func(kind string, m []byte)) int {
	n := 0
	for i := range b {
		for bit := 0; bit < 8; bit++ {
			m := slices.Clone(b)
			m[i] ^= 1 << uint(bit)
			each("bitflip", m)
			n++
		}
	}
	for i := range b {
		m := append(slices.Clone(b[:i]), b[i+1:]...)
		each("delete-byte", m)
		n++
	}
	for i := 0; i <= len(b); i++ {
		vals := c02InsBytes
		if i < len(b) {
			vals = append(slices.Clone(vals), b[i]) // duplicate the next byte
		}
		for _, v := range vals {
			m := make([]byte, 0, len(b)+1)
			m = append(append(append(m, b[:i]...), v), b[i:]...)
			each("insert-byte", m)
			n++
		}
	}
	for l := 0; l < len(b); l++ {
		each("truncate", slices.Clone(b[:l]))
		n++
	}
	for k := 1; k <= 8; k++ {
		each("extend", append(slices.Clone(b), make([]byte, k)...))
		each("extend", append(slices.Clone(b), bytes.Repeat([]byte{0xff}, k)...))
		each("extend", append(slices.Clone(b), c02Bytes(rng, k)...))
		each("extend", append(slices.Clone(b), b[:min(k, len(b))]...))
		n += 4
	}
	return n
}

func c02RandomEdit(rng *rand.Rand, b []byte, donor []byte) []byte {
	if len(b) == 0 {
		return append(b, byte(rng.Uint32()))
	}
	i := rng.IntN(len(b))
	switch rng.IntN(10) {
	case 0, 1:
		m := slices.Clone(b)
		m[i] ^= 1 << uint(rng.IntN(8))
		return m
	case 2:
		m := slices.Clone(b)
		m[i] = byte(rng.Uint32())
		return m
	case 3:
		return append(slices.Clone(b[:i]), b[i+1:]...)
	case 4:
		m := append(slices.Clone(b[:i]), byte(rng.Uint32()))
		return append(m, b[i:]...)
	case 5: // delete a range
		j := min(len(b), i+1+rng.IntN(8))
		return append(slices.Clone(b[:i]), b[j:]...)
	case 6: // duplicate a range
		j := min(len(b), i+1+rng.IntN(8))
		m := append(slices.Clone(b[:j]), b[i:j]...)
		return append(m, b[j:]...)
	case 7: // truncate / extend
		if rng.IntN(2) == 0 {
			return slices.Clone(b[:i])
		}
		return append(slices.Clone(b), c02Bytes(rng, 1+rng.IntN(8))...)
	case 8: // splice: our head, the donor's tail
		if len(donor) > 0 {
			return append(slices.Clone(b[:i]), donor[rng.IntN(len(donor)):]...)
		}
		return slices.Clone(b[:i])
	default: // overwrite a window with the donor's bytes at the same offset
		m := slices.Clone(b)
		for j := i; j < len(m) && j < len(donor) && j < i+1+rng.IntN(16); j++ {
			m[j] = donor[j]
		}
		return m
	}
}

// c02FieldTampers lists single-field changes of the identity, with the original signature kept.
func c02FieldTampers(s *c02Seed, rng *rand.Rand) (names []string, out []c02Fields) {
	add := func(name string, mod func(f *c02Fields)) {
		f := s.fields
		f.nets, f.unsafe, f.groups, f.pub, f.sig = slices.Clone(f.nets), slices.Clone(f.unsafe), slices.Clone(f.groups), slices.Clone(f.pub), slices.Clone(f.sig)
		mod(&f)
		names = append(names, name)
		out = append(out, f)
	}
	sec := time.Second
	bump := func(p netip.Prefix) netip.Prefix { return netip.PrefixFrom(p.Addr().Next(), p.Bits()) }
	add("name-append", func(f *c02Fields) { f.name += "x" })
	add("name-first-char", func(f *c02Fields) {
		if f.name != "" {
			f.name = "X" + f.name[1:]
		} else {
			f.name = "X"
		}
	})
	add("name-drop-last", func(f *c02Fields) {
		if f.name != "" {
			f.name = f.name[:len(f.name)-1]
		}
	})
	for _, which := range []string{"net", "unsafe"} {
		get := func(f *c02Fields) *[]netip.Prefix {
			if which == "net" {
				return &f.nets
			}
			return &f.unsafe
		}
		add(which+"-addr+1", func(f *c02Fields) {
			if l := get(f); len(*l) > 0 {
				(*l)[0] = bump((*l)[0])
			}
		})
		add(which+"-last-addr+1", func(f *c02Fields) {
			if l := get(f); len(*l) > 0 {
				(*l)[len(*l)-1] = bump((*l)[len(*l)-1])
			}
		})
		add(which+"-bits-1", func(f *c02Fields) {
			if l := get(f); len(*l) > 0 && (*l)[0].Bits() > 0 {
				(*l)[0] = netip.PrefixFrom((*l)[0].Addr(), (*l)[0].Bits()-1)
			}
		})
		add(which+"-bits+1", func(f *c02Fields) {
			if l := get(f); len(*l) > 0 && (*l)[0].Bits() < (*l)[0].Addr().BitLen() {
				(*l)[0] = netip.PrefixFrom((*l)[0].Addr(), (*l)[0].Bits()+1)
			}
		})
		add(which+"-append", func(f *c02Fields) { l := get(f); *l = append(*l, netip.MustParsePrefix("10.99.0.1/24")) })
		add(which+"-append-everything", func(f *c02Fields) { l := get(f); *l = append(*l, netip.MustParsePrefix("0.0.0.0/1")) })
		add(which+"-drop-last", func(f *c02Fields) {
			if l := get(f); len(*l) > 0 {
				*l = (*l)[:len(*l)-1]
			}
		})
		add(which+"-drop-all", func(f *c02Fields) { *get(f) = nil })
		add(which+"-swap", func(f *c02Fields) {
			if l := get(f); len(*l) > 1 {
				(*l)[0], (*l)[1] = (*l)[1], (*l)[0]
			}
		})
	}
	add("nets-become-unsafe", func(f *c02Fields) { f.nets, f.unsafe = f.unsafe, f.nets })
	add("group-change", func(f *c02Fields) {
		if len(f.groups) > 0 {
			f.groups[0] += "s"
		}
	})
	add("group-append", func(f *c02Fields) { f.groups = append(f.groups, "admin") })
	add("group-drop-last", func(f *c02Fields) {
		if len(f.groups) > 0 {
			f.groups = f.groups[:len(f.groups)-1]
		}
	})
	add("group-drop-all", func(f *c02Fields) { f.groups = nil })
	add("group-swap", func(f *c02Fields) {
		if len(f.groups) > 1 {
			f.groups[0], f.groups[1] = f.groups[1], f.groups[0]
		}
	})
	add("group-merge", func(f *c02Fields) {
		if len(f.groups) > 1 {
			f.groups = append([]string{f.groups[0] + f.groups[1]}, f.groups[2:]...)
		}
	})
	add("ca-flag", func(f *c02Fields) { f.isCA = !f.isCA })
	add("not-before-1s", func(f *c02Fields) { f.nb = f.nb.Add(-sec) })
	add("not-before+1s", func(f *c02Fields) { f.nb = f.nb.Add(sec) })
	add("not-after-1s", func(f *c02Fields) { f.na = f.na.Add(-sec) })
	add("not-after+1s", func(f *c02Fields) { f.na = f.na.Add(sec) })
	add("not-after+10y", func(f *c02Fields) { f.na = f.na.Add(87600 * time.Hour) })
	add("issuer-nibble", func(f *c02Fields) {
		if f.issuer != "" {
			b := []byte(f.issuer)
			b[5] = "0123456789abcdef"[(strings.IndexByte("0123456789abcdef", b[5])+1)%16]
			f.issuer = string(b)
		} else {
			f.issuer = hex.EncodeToString(c02Bytes(rng, 32))
		}
	})
	add("issuer-empty", func(f *c02Fields) { f.issuer = "" })
	add("issuer-truncated", func(f *c02Fields) {
		if len(f.issuer) > 2 {
			f.issuer = f.issuer[:len(f.issuer)-2]
		}
	})
	add("curve-other", func(f *c02Fields) { f.curve = 1 - f.curve })
	add("curve-unknown", func(f *c02Fields) { f.curve = 2 })
	add("pub-bitflip", func(f *c02Fields) { f.pub[rng.IntN(len(f.pub))] ^= 1 << uint(rng.IntN(8)) })
	add("pub-replaced", func(f *c02Fields) { f.pub = c02DHPub(rng, s.curve) })
	add("pub-extended", func(f *c02Fields) { f.pub = append(f.pub, 0) })
	add("pub-shortened", func(f *c02Fields) { f.pub = f.pub[:len(f.pub)-1] })
	// the boundary between two adjacent byte fields moved: the concatenation of their contents is unchanged, the fields are not
	for _, n := range []int{1, 2, 8, 31} {
		add(fmt.Sprintf("pub-sig-boundary-moved-right-%d", n), func(f *c02Fields) {
			if n < len(f.sig) {
				f.pub = append(f.pub, f.sig[:n]...)
				f.sig = f.sig[n:]
			}
		})
		add(fmt.Sprintf("pub-sig-boundary-moved-left-%d", n), func(f *c02Fields) {
			if n < len(f.pub) {
				f.sig = append(slices.Clone(f.pub[len(f.pub)-n:]), f.sig...)
				f.pub = f.pub[:len(f.pub)-n]
			}
		})
	}
	return
}

// c02SigForms lists other encodings / relatives of the signature; only the P-256 twin may be accepted.
func c02SigForms(s *c02Seed) (names []string, sigs [][]byte) {
	add := func(n string, b []byte) { names = append(names, n); sigs = append(sigs, b) }
	sig := s.sig
	add("appended-zero", append(slices.Clone(sig), 0))
	add("doubled", append(slices.Clone(sig), sig...))
	add("truncated-1", slices.Clone(sig[:len(sig)-1]))
	add("all-zero", make([]byte, len(sig)))
	if s.curve == Curve_P256 {
		r, sv, ok := c02ParseRS(sig)
		if !ok {
			return
		}
		n := elliptic.P256().Params().N
		add("twin", s.twinSig)
		m := func(a, b *big.Int) []byte { o, _ := asn1.Marshal(c02RS{a, b}); return o }
		add("s+n", m(r, new(big.Int).Add(sv, n)))
		add("r+n", m(new(big.Int).Add(r, n), sv))
		add("minus-s", m(r, new(big.Int).Neg(sv)))
		add("r-s-swapped", m(sv, r))
		add("s-zero", m(r, big.NewInt(0)))
		rb, sb := r.Bytes(), sv.Bytes()
		der := func(seqHdr func(n int) []byte, rpad, spad int, trailIn, trailOut []byte) []byte {
			enc := func(v []byte, pad int) []byte {
				if v[0]&0x80 != 0 {
					pad++
				}
				v = append(make([]byte, pad), v...)
				return append([]byte{0x02, byte(len(v))}, v...)
			}
			body := append(append(enc(rb, rpad), enc(sb, spad)...), trailIn...)
			return append(append(seqHdr(len(body)), body...), trailOut...)
		}
		short := func(n int) []byte { return []byte{0x30, byte(n)} }
		long := func(n int) []byte { return []byte{0x30, 0x81, byte(n)} }
		if !bytes.Equal(der(short, 0, 0, nil, nil), sig) {
			return // our DER writer disagrees with the original; skip the hand-made forms
		}
		add("r-padded", der(short, 1, 0, nil, nil))
		add("s-padded", der(short, 0, 1, nil, nil))
		add("long-form-length", der(long, 0, 0, nil, nil))
		add("trailing-inside-sequence", der(short, 0, 0, []byte{0x05, 0x00}, nil))
		add("trailing-after-sequence", der(short, 0, 0, nil, []byte{0x00}))
	} else {
		// S + L (group order), little endian
		l, _ := new(big.Int).SetString("7237005577332262213973186563042994240857116359379907606001950938285454250989", 10)
		sLE := slices.Clone(sig[32:])
		slices.Reverse(sLE)
		sum := new(big.Int).Add(new(big.Int).SetBytes(sLE), l)
		if sum.BitLen() <= 256 {
			be := sum.FillBytes(make([]byte, 32))
			slices.Reverse(be)
			add("S+L", append(slices.Clone(sig[:32]), be...))
		}
		m := slices.Clone(sig)
		m[31] ^= 0x80
		add("R-sign-bit", m)
		m = slices.Clone(sig)
		m[63] ^= 0x80
		add("S-top-bit", m)
	}
	return
}

// c02Reencodings: the same (or a chosen different) content in another wire shape.
func c02Reencodings(s *c02Seed, form string) (names []string, outs [][]byte) {
	add := func(n string, b []byte) { names = append(names, n); outs = append(outs, b) }
	orig := s.std
	if form == c02HS {
		orig = s.hs
	}
	if s.ver == Version1 {
		// outer message: field 1 = details (bytes), field 2 = signature (bytes)
		var details, sig []byte
		b := orig
		for len(b) > 0 {
			num, typ, n := protowire.ConsumeTag(b)
			if n < 0 || typ != protowire.BytesType {
				return
			}
			b = b[n:]
			v, n := protowire.ConsumeBytes(b)
			if n < 0 {
				return
			}
			b = b[n:]
			if num == 1 {
				details = v
			} else if num == 2 {
				sig = v
			}
		}
		outer := func(d, sg []byte, sigFirst bool) []byte {
			var o []byte
			if sigFirst {
				o = protowire.AppendBytes(protowire.AppendTag(o, 2, protowire.BytesType), sg)
			}
			o = protowire.AppendBytes(protowire.AppendTag(o, 1, protowire.BytesType), d)
			if !sigFirst {
				o = protowire.AppendBytes(protowire.AppendTag(o, 2, protowire.BytesType), sg)
			}
			return o
		}
		vf := func(d []byte, num protowire.Number, v uint64) []byte {
			return protowire.AppendVarint(protowire.AppendTag(slices.Clone(d), num, protowire.VarintType), v)
		}
		bf := func(d []byte, num protowire.Number, v []byte) []byte {
			return protowire.AppendBytes(protowire.AppendTag(slices.Clone(d), num, protowire.BytesType), v)
		}
		add("v1-unknown-field-outer", vf(orig, 15, 1))
		add("v1-unknown-bytes-field-outer", bf(orig, 3, []byte("extra")))
		add("v1-signature-first", outer(details, sig, true))
		add("v1-unknown-field-in-details", outer(vf(details, 15, 1), sig, false))
		add("v1-unknown-high-field-in-details", outer(bf(details, 1000, []byte{1, 2, 3}), sig, false))
		add("v1-explicit-isca-false", outer(vf(details, 8, 0), sig, false))
		add("v1-explicit-isca-true", outer(vf(details, 8, 1), sig, false))
		add("v1-explicit-curve-0", outer(vf(details, 100, 0), sig, false))
		add("v1-explicit-curve-1", outer(vf(details, 100, 1), sig, false))
		add("v1-name-repeated-same", outer(bf(details, 1, []byte(s.fields.name)), sig, false))
		add("v1-name-repeated-other", outer(bf(details, 1, []byte("other")), sig, false))
		add("v1-extra-group", outer(bf(details, 4, []byte("admin")), sig, false))
		add("v1-extra-ip-unpacked", outer(vf(vf(details, 2, 0x0a630001), 2, 0xffffff00), sig, false))
		add("v1-extra-subnet-packed", outer(bf(details, 3, protowire.AppendVarint(protowire.AppendVarint(nil, 0), 0)), sig, false))
		add("v1-notafter-repeated-later", outer(vf(details, 6, uint64(s.fields.na.Unix()+86400*3650)), sig, false))
		add("v1-issuer-repeated-empty", outer(bf(details, 9, nil), sig, false))
		add("v1-details-twice", append(outer(details, sig, false), protowire.AppendBytes(protowire.AppendTag(nil, 1, protowire.BytesType), details)...))
		add("v1-details-merged-with-name", append(outer(details, sig, false), protowire.AppendBytes(protowire.AppendTag(nil, 1, protowire.BytesType), bf(nil, 1, []byte("merged")))...))
		add("v1-signature-twice", append(outer(details, sig, false), protowire.AppendBytes(protowire.AppendTag(nil, 2, protowire.BytesType), sig)...))
		if form == c02HS {
			add("v1-public-key-inside-too", outer(bf(details, 7, s.pk), sig, false))
		}
		return
	}
	// v2: SEQUENCE { details, [curve], [publicKey], signature }
	in := cryptobyte.String(orig)
	var body cryptobyte.String
	if !in.ReadASN1(&body, cbasn1.SEQUENCE) {
		return
	}
	var rawDetails cryptobyte.String
	rest := body
	if !rest.ReadASN1Element(&rawDetails, TagCertDetails) {
		return
	}
	afterDetails := []byte(rest)
	seq := func(parts ...[]byte) []byte {
		var cb cryptobyte.Builder
		cb.AddASN1(cbasn1.SEQUENCE, func(c *cryptobyte.Builder) {
			for _, p := range parts {
				c.AddBytes(p)
			}
		})
		o, _ := cb.Bytes()
		return o
	}
	elt := func(tag cbasn1.Tag, v []byte) []byte {
		var cb cryptobyte.Builder
		cb.AddASN1(tag, func(c *cryptobyte.Builder) { c.AddBytes(v) })
		o, _ := cb.Bytes()
		return o
	}
	add("v2-extra-element-at-end", seq(body, elt(cbasn1.Tag(4).ContextSpecific(), []byte{1})))
	add("v2-extra-signature-at-end", seq(body, elt(TagCertSignature, s.sig)))
	add("v2-explicit-curve-same", seq(rawDetails, elt(TagCertCurve, []byte{byte(s.curve)}), bytes.TrimPrefix(afterDetails, elt(TagCertCurve, []byte{byte(s.curve)}))))
	add("v2-explicit-curve-other", seq(rawDetails, elt(TagCertCurve, []byte{byte(1 - s.curve)}), bytes.TrimPrefix(afterDetails, elt(TagCertCurve, []byte{byte(s.curve)}))))
	add("v2-curve-two-bytes", seq(rawDetails, elt(TagCertCurve, []byte{0, byte(s.curve)}), bytes.TrimPrefix(afterDetails, elt(TagCertCurve, []byte{byte(s.curve)}))))
	add("v2-outer-long-form-length", append([]byte{0x30, 0x82, byte(len(body) >> 8), byte(len(body))}, body...))
	add("v2-outer-indefinite-length", append(append([]byte{0x30, 0x80}, body...), 0, 0))
	if form == c02HS {
		add("v2-public-key-inside-too", seq(rawDetails, elt(TagCertPublicKey, s.pk), afterDetails))
	}
	// details with something appended inside (the details are signed as raw bytes, so all of these must fail)
	var dbody cryptobyte.String
	rd := rawDetails
	if rd.ReadASN1(&dbody, TagCertDetails) {
		withIn := func(extra []byte) []byte {
			return seq(elt(TagCertDetails, append(slices.Clone(dbody), extra...)), afterDetails)
		}
		add("v2-unknown-field-in-details", withIn(elt(cbasn1.Tag(8).ContextSpecific(), []byte{1})))
		add("v2-second-issuer-in-details", withIn(elt(TagDetailsIssuer, make([]byte, 32))))
		add("v2-details-long-form-length", seq(append([]byte{byte(TagCertDetails), 0x82, byte(len(dbody) >> 8), byte(len(dbody))}, dbody...), afterDetails))
	}
	return
}

// ---------------------------------------------------------------------------------------------------------------

func TestVerifC02Tamper(t *testing.T) {
	r := verifkit.NewReporter(t, "C02", "tamper",
		"seed certificates issued by the real SignWith (v1/v2 x Ed25519/P-256 x CA/host x plain/rich/high-S/long-name/empty-name), each in standard (PEM) and handshake (Recombine + detached key) form; per seed and form the complete single-edit neighbourhood (every bit flip, byte deletion, insertion of 00/01/7f/80/ff/duplicate at every offset, every truncation, extensions by 1..8 bytes), the same on the detached public key and every bit flip of the PEM text; every single-field change of the identity re-encoded with the original signature; pairwise splices of details / public key / signature between seeds; alternative signature encodings; protobuf / DER re-encodings; Recombine version and curve confusion; PRNG multi-edits (a mutant that is wholly another genuine seed certificate carrying that certificate own signature is counted, not judged); evaluations = altered encodings judged; distinct = distinct altered encodings that still decode (reach verification), classes = (version/curve/role, form, edit kind, outcome)")
	defer r.Done()
	m := &c02Mon{r: r}
	seeds := c02MakeSeeds(r)
	m.seeds = seeds
	if len(seeds) < 12 {
		r.Inconclusive(fmt.Sprintf("harness: only %d seed certificates", len(seeds)))
		return
	}
	r.Info("seed_certificates", func() []string {
		var l []string
		for _, s := range seeds {
			l = append(l, fmt.Sprintf("%s std=%dB handshake=%dB", s.desc, len(s.std), len(s.hs)))
		}
		return l
	}())
	job := 0
	mine := func() bool { job++; return verifkit.Mine(job - 1) }

	for _, s := range seeds {
		s := s
		r.Pre("C02 seed %s std=%x", s.desc, s.std)
		// 1. complete single-edit neighbourhood, standard form
		if mine() {
			rng := verifkit.SubRand("C02ext", s.idx)
			n := c02SingleEdits(s.std, rng, func(kind string, mut []byte) { m.tryStd(s, kind, mut) })
			r.Exhaustive(fmt.Sprintf("%s standard form: all %d single edits of its %d bytes", s.desc, n, len(s.std)))
		}
		// 2. the same on the handshake form
		if mine() {
			rng := verifkit.SubRand("C02ext-hs", s.idx)
			n := c02SingleEdits(s.hs, rng, func(kind string, mut []byte) { m.tryHS(s, kind, mut, s.pk) })
			r.Exhaustive(fmt.Sprintf("%s handshake form: all %d single edits of its %d bytes", s.desc, n, len(s.hs)))
		}
		// 3. ... and on the detached public key
		if mine() {
			rng := verifkit.SubRand("C02ext-pk", s.idx)
			n := c02SingleEdits(s.pk, rng, func(kind string, mut []byte) { m.tryHS(s, "pk-"+kind, s.hs, mut) })
			r.Exhaustive(fmt.Sprintf("%s detached public key: all %d single edits of its %d bytes", s.desc, n, len(s.pk)))
		}
		// 4. PEM text: every bit flip, banner swap
		if mine() {
			text := pem.EncodeToMemory(&pem.Block{Type: s.banner, Bytes: s.std})
			for i := range text {
				for bit := 0; bit < 8; bit++ {
					mt := slices.Clone(text)
					mt[i] ^= 1 << uint(bit)
					var d Certificate
					var err error
					if r.Guard("C02/panic", func() any { return map[string]any{"pem": string(mt)} }, func() { d, _, err = UnmarshalCertificateFromPEM(mt) }) {
						continue
					}
					blk, _ := pem.Decode(mt)
					if err != nil || d == nil || blk == nil {
						r.Eval(1)
						r.Count("pem_text.no-decode", 1)
						continue
					}
					r.Count("pem_text.decodes", 1)
					if blk.Type != s.banner {
						// decoded under the other banner: judge the certificate directly
						r.Eval(1)
						if s.verify(d) && c02Diff(s.cert, d) != "" {
							r.Violation("C02/accepted-changed-"+c02Diff(s.cert, d), s.desc+" PEM text flip changes the banner, still verifies with different identity", map[string]any{"pem": string(mt)})
						}
						continue
					}
					m.tryStd(s, "pem-text-bitflip", blk.Bytes)
				}
			}
			other := CertificateBanner
			if s.banner == CertificateBanner {
				other = CertificateV2Banner
			}
			r.Eval(1)
			r.Guard("C02/panic", func() any { return "banner swap " + s.desc }, func() {
				d, err := c02DecodeStd(other, s.std)
				if err == nil && s.verify(d) {
					r.Violation("C02/accepted-under-wrong-banner", s.desc+" decodes and verifies under the other version's banner", map[string]any{"seed": s.desc, "std": verifkit.Hex(s.std)})
				}
				r.Count("banner_swap", 1)
			})
		}
		// 5. single-field identity changes with the original signature; signature forms; re-encodings; version / curve confusion
		if mine() {
			rng := verifkit.SubRand("C02fields", s.idx)
			names, fs := c02FieldTampers(s, rng)
			for i, f := range fs {
				std, hs, err := c02Encode(f)
				if err != nil {
					r.Count("field_tamper.unencodable", 1)
					continue
				}
				r.Count("field_tamper.cases", 2)
				m.tryStd(s, "field:"+names[i], std)
				m.tryHS(s, "field:"+names[i], hs, f.pub)
			}
			snames, sigs := c02SigForms(s)
			for i, sg := range sigs {
				f := s.fields
				f.sig = sg
				std, hs, err := c02Encode(f)
				if err != nil {
					continue
				}
				o1 := m.tryStd(s, "sig:"+snames[i], std)
				o2 := m.tryHS(s, "sig:"+snames[i], hs, s.pk)
				if snames[i] == "twin" {
					r.Count("twin."+o1, 1)
					r.Count("twin."+o2, 1)
				}
			}
			for _, form := range []string{c02Std, c02HS} {
				rn, outs := c02Reencodings(s, form)
				for i, o := range outs {
					if form == c02Std {
						m.tryStd(s, "reencode:"+rn[i], o)
					} else {
						m.tryHS(s, "reencode:"+rn[i], o, s.pk)
					}
				}
			}
			for _, v := range []Version{VersionPre1, Version1, Version2, 3, 255} {
				for _, c := range []Curve{Curve_CURVE25519, Curve_P256, 2} {
					m.try(s, c02HS, fmt.Sprintf("recombine-as-v%d-%s", v, c), s.hs, s.pk, v, c)
				}
			}
			// twin and blocklist: blocklisting either fingerprint rejects both forms
			if !s.isCA {
				forms := map[string]Certificate{"original": s.cert}
				if s.twinSig != nil {
					f := s.fields
					f.sig = s.twinSig
					if std, _, err := c02Encode(f); err == nil {
						if d, err := c02DecodeStd(s.banner, std); err == nil {
							forms["twin"] = d
						}
					}
				}
				for _, fp := range []string{s.fp, s.twinFP} {
					if fp == "" {
						continue
					}
					for name, c := range forms {
						r.Eval(1)
						before := s.verify(c)
						s.pool.BlocklistFingerprint(fp)
						after := s.verify(c)
						var cachedAfter error
						s.pool.ResetCertBlocklist()
						if before {
							if cc, err := s.pool.VerifyCertificate(s.at, c); err == nil {
								s.pool.BlocklistFingerprint(fp)
								cachedAfter = s.pool.VerifyCachedCertificate(s.at, cc)
								s.pool.ResetCertBlocklist()
							}
						}
						which := map[bool]string{true: "original", false: "twin"}[fp == s.fp]
						r.DistinctClass(fmt.Sprintf("%s blocklist=%s-fingerprint presented=%s accepted-before=%v accepted-after=%v", s.desc, which, name, before, after))
						r.Count("twin_blocklist.checks", 1)
						if after || (before && cachedAfter == nil) {
							r.Violation("C02/twin-blocklist-bypass", fmt.Sprintf("%s: with the %s fingerprint blocklisted the %s form is still accepted (full=%v cached=%v)", s.desc, which, name, after, cachedAfter == nil),
								map[string]any{"seed": s.desc, "blocklisted": fp, "presented": name, "cert": c.String(), "ca_pem": string(s.caPEM)})
						}
					}
				}
			}
		}
		// 6. splices with every other seed of the same version: their details / key / signature on ours
		if mine() {
			for _, o := range seeds {
				if o == s || o.ver != s.ver {
					continue
				}
				type sp struct {
					name string
					f    c02Fields
				}
				var sps []sp
				f := s.fields
				f.sig = o.sig
				sps = append(sps, sp{"signature-of-" + o.desc, f})
				f = s.fields
				f.pub = o.pk
				sps = append(sps, sp{"public-key-of-" + o.desc, f})
				f = o.fields
				f.sig, f.pub, f.curve = s.sig, s.pk, s.curve
				sps = append(sps, sp{"details-of-" + o.desc, f})
				f = s.fields
				f.issuer = o.fields.issuer
				sps = append(sps, sp{"issuer-of-" + o.desc, f})
				for _, x := range sps {
					std, hs, err := c02Encode(x.f)
					if err != nil {
						continue
					}
					m.tryStd(s, "splice:"+x.name[:strings.Index(x.name, "-of-")], std)
					m.tryHS(s, "splice:"+x.name[:strings.Index(x.name, "-of-")], hs, x.f.pub)
				}
			}
		}
	}
	// 7. PRNG multi-edits and cross-certificate splices on the raw bytes
	chunks, per := 16, verifkit.Scale(1500, 40000)
	for c := 0; c < chunks; c++ {
		if !mine() {
			continue
		}
		rng := verifkit.SubRand("C02multi", c)
		for i := 0; i < per; i++ {
			s := seeds[rng.IntN(len(seeds))]
			donor := seeds[rng.IntN(len(seeds))]
			k := 2 + rng.IntN(3)
			if rng.IntN(2) == 0 {
				b := s.std
				for j := 0; j < k; j++ {
					b = c02RandomEdit(rng, b, donor.std)
				}
				m.tryStd(s, fmt.Sprintf("multi-%d", k), b)
			} else {
				b, pk := s.hs, s.pk
				for j := 0; j < k; j++ {
					if rng.IntN(5) == 0 {
						pk = c02RandomEdit(rng, pk, donor.pk)
					} else {
						b = c02RandomEdit(rng, b, donor.hs)
					}
				}
				m.tryHS(s, fmt.Sprintf("multi-%d", k), b, pk)
			}
		}
	}
	r.Info("jobs", job)
}
