package cert

// C03 — every issued certificate decodes back to itself.
//
// Oracle (written from the property statement):
//   (a) Sign/SignWith returned a certificate  =>  its standard (Marshal), PEM (MarshalPEM) and handshake
//       (MarshalForHandshakes + Recombine with the detached public key) encodings all decode, and the decoded
//       certificate has identical fields and fingerprint. Times are compared at the wire's one-second granularity;
//       requests with whole-second times are additionally compared exactly.
//   (b) a decoder accepted some bytes  =>  a TBS rebuilt from the decoded fields passes the signer's own validation
//       (fromTBSCertificate), and an independently written list of the structural rules holds      [fuzz file]
//   (c) no decoder panics on any input                                                            [fuzz file]
//
// A Sign-accepted certificate that a decoder rejects is attributed to a witness class by re-running the request with
// all but one suspicious feature neutralised, so every class gets its own stable key.

import (
	"bytes"
	"crypto/ecdsa"
	"crypto/ed25519"
	"crypto/elliptic"
	"crypto/rand"
	"encoding/hex"
	"fmt"
	mrand "math/rand/v2"
	"net/netip"
	"slices"
	"strings"
	"testing"
	"time"
	"unicode/utf8"

	"github.com/slackhq/nebula/verifkit"
	"golang.org/x/crypto/curve25519"
)

// ---------------------------------------------------------------------------------------------------------------
// keys and signing CAs

type c03KeySet struct {
	caPub, caPriv [2][]byte // index = Curve (0 ed25519, 1 ecdsa P-256 raw scalar / uncompressed point)
	hostPub       [2][]byte // x25519 / P-256 ECDH public keys
}

func c03NewKeys() *c03KeySet {
	k := &c03KeySet{}
	pub, priv, err := ed25519.GenerateKey(rand.Reader)
	if err != nil {
		panic(err)
	}
	k.caPub[0], k.caPriv[0] = pub, priv
	pk, err := ecdsa.GenerateKey(elliptic.P256(), rand.Reader)
	if err != nil {
		panic(err)
	}
	ek, err := pk.ECDH()
	if err != nil {
		panic(err)
	}
	k.caPub[1], k.caPriv[1] = ek.PublicKey().Bytes(), ek.Bytes()
	sc := make([]byte, 32)
	rand.Read(sc)
	hp, err := curve25519.X25519(sc, curve25519.Basepoint)
	if err != nil {
		panic(err)
	}
	k.hostPub[0] = hp
	hk, err := ecdsa.GenerateKey(elliptic.P256(), rand.Reader)
	if err != nil {
		panic(err)
	}
	hek, _ := hk.ECDH()
	k.hostPub[1] = hek.PublicKey().Bytes()
	return k
}

// widest window the generator ever asks for lies inside the permissive CAs' window
const c03CAHorizon = int64(1) << 38

// c03PermissiveCAs returns unconstrained CAs [curve][version-1] with a very wide validity window.
func c03PermissiveCAs(k *c03KeySet) (cas [2][2]Certificate, err error) {
	for cu := 0; cu < 2; cu++ {
		for v := 1; v <= 2; v++ {
			t := &TBSCertificate{Version: Version(v), Name: fmt.Sprintf("c03-ca-%d-%d", cu, v), IsCA: true,
				NotBefore: time.Unix(-c03CAHorizon, 0), NotAfter: time.Unix(c03CAHorizon, 0),
				PublicKey: k.caPub[cu], Curve: Curve(cu)}
			c, e := t.Sign(nil, Curve(cu), k.caPriv[cu])
			if e != nil {
				return cas, e
			}
			cas[cu][v-1] = c
		}
	}
	return cas, nil
}

// ---------------------------------------------------------------------------------------------------------------
// requests

type c03Req struct {
	Version   Version
	Curve     Curve
	IsCA      bool
	SignerVer int // version of the permissive CA used for host certificates (1|2), 0 = self-signed
	Name      string
	Groups    []string
	Networks  []netip.Prefix
	Unsafe    []netip.Prefix
	NB, NA    time.Time
	Pub       []byte
	Classes   string // generator classes, low cardinality
}

func (q *c03Req) tbs() *TBSCertificate {
	return &TBSCertificate{Version: q.Version, Name: q.Name, Networks: slices.Clone(q.Networks), UnsafeNetworks: slices.Clone(q.Unsafe),
		Groups: slices.Clone(q.Groups), IsCA: q.IsCA, NotBefore: q.NB, NotAfter: q.NA, PublicKey: slices.Clone(q.Pub), Curve: q.Curve}
}

func (q *c03Req) clone() *c03Req {
	n := *q
	n.Groups, n.Networks, n.Unsafe, n.Pub = slices.Clone(q.Groups), slices.Clone(q.Networks), slices.Clone(q.Unsafe), slices.Clone(q.Pub)
	return &n
}

func c03Short(s string) string {
	if len(s) <= 600 {
		return hex.EncodeToString([]byte(s))
	}
	return fmt.Sprintf("%s...(%d bytes in total, fnv64a=%x; regenerate from seed and case_index)", hex.EncodeToString([]byte(s[:16])), len(s), c03Hash(s))
}

func (q *c03Req) record() map[string]any {
	gs := make([]string, len(q.Groups))
	for i, g := range q.Groups {
		gs[i] = c03Short(g)
	}
	nets := func(ps []netip.Prefix) []string {
		o := make([]string, len(ps))
		for i, p := range ps {
			o[i] = p.String()
		}
		return o
	}
	return map[string]any{"version": int(q.Version), "curve": q.Curve.String(), "is_ca": q.IsCA, "signer_ca_version": q.SignerVer,
		"name_len": len(q.Name), "name_hex": c03Short(q.Name), "groups_hex": gs, "networks": nets(q.Networks), "unsafe_networks": nets(q.Unsafe),
		"not_before_unix": q.NB.Unix(), "not_before_nsec": q.NB.Nanosecond(), "not_after_unix": q.NA.Unix(), "not_after_nsec": q.NA.Nanosecond(),
		"public_key_len": len(q.Pub), "generator_classes": q.Classes}
}

func (q *c03Req) sig() string {
	var b strings.Builder
	fmt.Fprintf(&b, "%d|%d|%v|%d|%d:%x|", q.Version, q.Curve, q.IsCA, q.SignerVer, len(q.Name), c03Hash(q.Name))
	for _, g := range q.Groups {
		fmt.Fprintf(&b, "%d:%x,", len(g), c03Hash(g))
	}
	fmt.Fprintf(&b, "|%v|%v|%d.%d|%d.%d|%d", q.Networks, q.Unsafe, q.NB.Unix(), q.NB.Nanosecond(), q.NA.Unix(), q.NA.Nanosecond(), len(q.Pub))
	return b.String()
}

func c03Hash(s string) uint64 {
	h := uint64(1469598103934665603)
	for i := 0; i < len(s); i++ {
		h ^= uint64(s[i])
		h *= 1099511628211
	}
	return h
}

// c03Sign runs the real signer on the request.
func c03Sign(q *c03Req, k *c03KeySet, cas *[2][2]Certificate) (Certificate, error) {
	t := q.tbs()
	cu := int(q.Curve) & 1
	if q.SignerVer == 0 {
		return t.Sign(nil, q.Curve, k.caPriv[cu])
	}
	return t.Sign(cas[cu][q.SignerVer-1], q.Curve, k.caPriv[cu])
}

// --- generators ---------------------------------------------------------------------------------------------------

func c03Pick[T any](rng *mrand.Rand, xs ...T) T { return xs[rng.IntN(len(xs))] }

func c03Fill(rng *mrand.Rand, n int, kind string) string {
	b := make([]byte, n)
	switch kind {
	case "ascii":
		for i := range b {
			b[i] = "abcdefghijklmnopqrstuvwxyz0123456789-."[rng.IntN(38)]
		}
	case "utf8":
		var sb strings.Builder
		for sb.Len() < n {
			sb.WriteRune(c03Pick(rng, 'é', 'ß', '日', '本', '😀', 'a', 'Ω'))
		}
		s := sb.String()
		for len(s) > n { // trim to the exact byte length on a rune boundary, pad with ascii
			_, sz := utf8.DecodeLastRuneInString(s)
			s = s[:len(s)-sz]
		}
		return s + strings.Repeat("x", n-len(s))
	case "badutf8":
		for i := range b {
			b[i] = c03Pick(rng, byte(0xff), 0xfe, 0xc0, 0x80, 'a')
		}
		if n > 0 {
			b[rng.IntN(n)] = 0xff
		}
	case "nul":
		for i := range b {
			b[i] = 'n'
		}
		if n > 0 {
			b[rng.IntN(n)] = 0
		}
	case "ctrl":
		for i := range b {
			b[i] = c03Pick(rng, byte('\n'), '\r', '\t', ' ', ',', '"', 0x7f, 'a')
		}
	}
	return string(b)
}

func c03GenName(rng *mrand.Rand, edgy bool) (string, string) {
	if !edgy {
		return fmt.Sprintf("host-%d.example", rng.IntN(1000)), "name=plain"
	}
	n := c03Pick(rng, 0, 0, 1, 2, 63, 64, 127, 128, 200, 252, 253, 253, 254, 254, 255, 256, 300, 1000, 1000, 4096, 16384)
	kind := c03Pick(rng, "ascii", "ascii", "ascii", "utf8", "badutf8", "nul", "ctrl")
	return c03Fill(rng, n, kind), fmt.Sprintf("name=%d/%s", n, kind)
}

func c03GenGroups(rng *mrand.Rand, edgy bool) ([]string, string) {
	if !edgy {
		n := rng.IntN(4)
		var gs []string
		for i := 0; i < n; i++ {
			gs = append(gs, c03Pick(rng, "ops", "dev", "a", "group-1", "servers"))
		}
		return gs, fmt.Sprintf("groups=plain%d", n)
	}
	shape := c03Pick(rng, "empty-string", "empty-string-among", "dups", "long", "many", "badutf8", "utf8", "nul", "huge", "empty-list", "ctrl")
	var gs []string
	switch shape {
	case "empty-string":
		gs = []string{""}
	case "empty-string-among":
		gs = []string{"a", "", "b"}
		if rng.IntN(2) == 0 {
			gs = []string{"x", "y", ""}
		}
	case "dups":
		gs = []string{"dup", "dup", "other", "dup"}
	case "long":
		gs = []string{c03Fill(rng, c03Pick(rng, 127, 128, 255, 256, 1000, 5000), "ascii")}
	case "many":
		for i := 0; i < c03Pick(rng, 16, 40, 100); i++ {
			gs = append(gs, fmt.Sprintf("g%d", i))
		}
	case "badutf8":
		gs = []string{"ok", c03Fill(rng, 5, "badutf8")}
	case "utf8":
		gs = []string{c03Fill(rng, 12, "utf8"), "ü"}
	case "nul":
		gs = []string{c03Fill(rng, 4, "nul")}
	case "ctrl":
		gs = []string{c03Fill(rng, 6, "ctrl"), " lead", "trail "}
	case "huge":
		gs = []string{"pre", c03Fill(rng, c03Pick(rng, 30000, 66000, 70000), "ascii")}
	case "empty-list":
		gs = []string{}
	}
	return gs, "groups=" + shape
}

func c03RandV4(rng *mrand.Rand) netip.Addr {
	return netip.AddrFrom4([4]byte{byte(1 + rng.IntN(223)), byte(rng.IntN(256)), byte(rng.IntN(256)), byte(1 + rng.IntN(254))})
}

func c03RandV6(rng *mrand.Rand) netip.Addr {
	var a [16]byte
	for i := range a {
		a[i] = byte(rng.IntN(256))
	}
	a[0] = c03Pick(rng, byte(0x20), 0xfd, 0xfe, 0x26)
	if a[0] == 0xfe {
		a[1] = 0x80
	}
	return netip.AddrFrom16(a)
}

// c03ValidPrefix returns a structurally fine network (host bits usually set, any prefix length).
func c03ValidPrefix(rng *mrand.Rand, v6 bool) netip.Prefix {
	if v6 {
		return netip.PrefixFrom(c03RandV6(rng), c03Pick(rng, 0, 1, 48, 64, 64, 96, 127, 128, rng.IntN(129)))
	}
	return netip.PrefixFrom(c03RandV4(rng), c03Pick(rng, 0, 1, 8, 16, 24, 24, 31, 32, rng.IntN(33)))
}

// c03BadPrefix returns a network that the structural rules forbid (or a degenerate one); the class says which.
func c03BadPrefix(rng *mrand.Rand, have []netip.Prefix) (netip.Prefix, string) {
	switch rng.IntN(8) {
	case 0:
		return netip.PrefixFrom(netip.IPv4Unspecified(), c03Pick(rng, 0, 8, 32)), "zero4"
	case 1:
		return netip.PrefixFrom(netip.IPv6Unspecified(), c03Pick(rng, 0, 64, 128)), "zero6"
	case 2:
		a := c03RandV4(rng).As4()
		return netip.PrefixFrom(netip.AddrFrom16([16]byte{10: 0xff, 11: 0xff, 12: a[0], 13: a[1], 14: a[2], 15: a[3]}), c03Pick(rng, 96, 120, 128)), "4in6"
	case 3:
		return netip.Prefix{}, "zero-prefix"
	case 4:
		return netip.PrefixFrom(c03RandV4(rng), c03Pick(rng, 33, -1, 128)), "bad-bits4"
	case 5:
		return netip.PrefixFrom(c03RandV6(rng), c03Pick(rng, 129, -1, 255)), "bad-bits6"
	case 6:
		return netip.PrefixFrom(c03RandV6(rng).WithZone("eth0"), 64), "zoned"
	default:
		if len(have) > 0 {
			return have[rng.IntN(len(have))], "dup"
		}
		return netip.PrefixFrom(netip.IPv4Unspecified(), 0), "zero4"
	}
}

// c03GenNets: n structurally fine networks of the allowed families (unsorted), plus `bad` forbidden ones.
func c03GenNets(rng *mrand.Rand, n int, fam string, bad int) ([]netip.Prefix, string) {
	var ps []netip.Prefix
	for i := 0; i < n; i++ {
		v6 := fam == "6" || (fam == "46" && rng.IntN(2) == 0)
		ps = append(ps, c03ValidPrefix(rng, v6))
	}
	cls := ""
	for i := 0; i < bad; i++ {
		p, c := c03BadPrefix(rng, ps)
		at := rng.IntN(len(ps) + 1)
		ps = slices.Insert(ps, at, p)
		cls += "+" + c
	}
	return ps, cls
}

var c03Times = []int64{-(1 << 37), -62135596800, -86400, -1, 0, 1, 1<<31 - 1, 1 << 31, 1<<31 + 1, 1<<32 - 1, 1 << 32, 1<<32 + 1,
	253402300799, 253402300800, 1 << 37, 946684800, 1700000000}

func c03GenReq(rng *mrand.Rand, k *c03KeySet) *c03Req {
	q := &c03Req{}
	q.Version = Version(1 + rng.IntN(2))
	q.Curve = Curve(rng.IntN(2))
	q.IsCA = rng.IntN(4) == 0
	if !q.IsCA {
		q.SignerVer = 1 + rng.IntN(2)
	}
	focus := c03Pick(rng, "none", "name", "name", "groups", "groups", "nets", "nets", "unsafe", "times", "pub", "all")
	edgy := func(d string) bool { return focus == d || focus == "all" }
	var cls []string
	cls = append(cls, fmt.Sprintf("v%d/%s/ca=%v/focus=%s", q.Version, q.Curve, q.IsCA, focus))

	var c string
	q.Name, c = c03GenName(rng, edgy("name"))
	cls = append(cls, c)
	q.Groups, c = c03GenGroups(rng, edgy("groups"))
	cls = append(cls, c)

	fam := "4"
	if q.Version == Version2 {
		fam = c03Pick(rng, "4", "6", "46", "46")
	}
	if edgy("nets") {
		n := c03Pick(rng, 0, 1, 1, 2, 3, 8, 24, 40)
		bad := c03Pick(rng, 0, 0, 0, 0, 0, 0, 1, 1, 2)
		f := fam
		if q.Version == Version1 && rng.IntN(8) == 0 {
			f = "46" // v1 may not carry IPv6
		}
		q.Networks, c = c03GenNets(rng, n, f, bad)
		cls = append(cls, fmt.Sprintf("nets=%d/%s%s", n, f, c))
	} else {
		n := 1 + rng.IntN(2)
		if q.IsCA {
			n = rng.IntN(3)
		}
		q.Networks, _ = c03GenNets(rng, n, fam, 0)
		if fam == "46" && !q.IsCA { // make sure both families are assigned so unsafe networks of both kinds are legal
			q.Networks = append(q.Networks, c03ValidPrefix(rng, false), c03ValidPrefix(rng, true))
		}
		cls = append(cls, "nets=plain")
	}
	if edgy("unsafe") {
		n := c03Pick(rng, 0, 1, 2, 5, 24, 40)
		bad := c03Pick(rng, 0, 0, 0, 0, 1, 2)
		f := c03Pick(rng, fam, fam, fam, "46")
		q.Unsafe, c = c03GenNets(rng, n, f, bad)
		if rng.IntN(3) == 0 && n > 0 { // default routes are legal unsafe networks
			q.Unsafe = append(q.Unsafe, netip.PrefixFrom(netip.IPv4Unspecified(), 0))
			if f != "4" {
				q.Unsafe = append(q.Unsafe, netip.PrefixFrom(netip.IPv6Unspecified(), 0))
			}
			c += "+default-route"
		}
		cls = append(cls, fmt.Sprintf("unsafe=%d/%s%s", n, f, c))
	} else {
		q.Unsafe, _ = c03GenNets(rng, rng.IntN(2), fam, 0)
		cls = append(cls, "unsafe=plain")
	}
	if edgy("times") {
		nb, na := c03Pick(rng, c03Times...), c03Pick(rng, c03Times...)
		if rng.IntN(3) == 0 {
			nb, na = rng.Int64N(1<<37)-(1<<36), rng.Int64N(1<<37)-(1<<36)
		}
		var nbn, nan int64
		sub := rng.IntN(3) == 0
		if sub {
			nbn, nan = rng.Int64N(1_000_000_000), rng.Int64N(1_000_000_000)
		}
		q.NB, q.NA = time.Unix(nb, nbn), time.Unix(na, nan)
		cls = append(cls, fmt.Sprintf("times=edge/sub=%v/inverted=%v", sub, q.NA.Before(q.NB)))
	} else {
		nb := 1_500_000_000 + rng.Int64N(200_000_000)
		q.NB, q.NA = time.Unix(nb, 0), time.Unix(nb+1+rng.Int64N(400_000_000), 0)
		cls = append(cls, "times=plain")
	}
	cu := int(q.Curve)
	q.Pub = slices.Clone(k.hostPub[cu])
	if q.IsCA {
		q.Pub = slices.Clone(k.caPub[cu])
	}
	if edgy("pub") {
		n := c03Pick(rng, 0, 1, 31, 32, 33, 64, 65, 66, 200)
		p := make([]byte, n)
		for i := range p {
			p[i] = byte(rng.IntN(256))
		}
		if rng.IntN(4) == 0 && n == 0 {
			p = nil
		}
		q.Pub = p
		cls = append(cls, fmt.Sprintf("pub=%d", n))
	} else {
		cls = append(cls, "pub=plain")
	}
	if rng.IntN(60) == 0 {
		q.Version = c03Pick(rng, VersionPre1, Version(3), Version(255))
		cls = append(cls, "version=unknown")
	}
	q.Classes = strings.Join(cls, " ")
	return q
}

// ---------------------------------------------------------------------------------------------------------------
// comparison

func c03SameTime(a, b time.Time, exact bool) bool {
	if a.Unix() != b.Unix() {
		return false
	}
	return !exact || a.Equal(b)
}

// c03Diff lists the fields in which two certificates differ. exactTimes=false compares times at one-second granularity.
func c03Diff(a, b Certificate, exactTimes bool) []string {
	var d []string
	add := func(f string, x, y any) { d = append(d, fmt.Sprintf("%s: %v != %v", f, x, y)) }
	if a.Version() != b.Version() {
		add("version", a.Version(), b.Version())
	}
	if a.Name() != b.Name() {
		add("name", c03Short(a.Name()), c03Short(b.Name()))
	}
	if a.Curve() != b.Curve() {
		add("curve", a.Curve(), b.Curve())
	}
	if a.IsCA() != b.IsCA() {
		add("isCA", a.IsCA(), b.IsCA())
	}
	if a.Issuer() != b.Issuer() {
		add("issuer", a.Issuer(), b.Issuer())
	}
	if !bytes.Equal(a.PublicKey(), b.PublicKey()) {
		add("publicKey", hex.EncodeToString(a.PublicKey()), hex.EncodeToString(b.PublicKey()))
	}
	if !bytes.Equal(a.Signature(), b.Signature()) {
		add("signature", hex.EncodeToString(a.Signature()), hex.EncodeToString(b.Signature()))
	}
	if !slices.Equal(a.Groups(), b.Groups()) {
		add("groups", len(a.Groups()), len(b.Groups()))
	}
	if !slices.Equal(a.Networks(), b.Networks()) {
		add("networks", a.Networks(), b.Networks())
	}
	if !slices.Equal(a.UnsafeNetworks(), b.UnsafeNetworks()) {
		add("unsafeNetworks", a.UnsafeNetworks(), b.UnsafeNetworks())
	}
	if !c03SameTime(a.NotBefore(), b.NotBefore(), exactTimes) {
		add("notBefore", a.NotBefore().UnixNano(), b.NotBefore().UnixNano())
	}
	if !c03SameTime(a.NotAfter(), b.NotAfter(), exactTimes) {
		add("notAfter", a.NotAfter().UnixNano(), b.NotAfter().UnixNano())
	}
	return d
}

type c03Outcome struct {
	rejected []string // "<encoding>: <error>" — a decoder (or encoder) refused the issued certificate
	mismatch []string // "<encoding>: field ..." — decoded but different
	panicked bool
}

func (o *c03Outcome) ok() bool { return len(o.rejected) == 0 && len(o.mismatch) == 0 && !o.panicked }

// c03RoundTrip pushes an issued certificate through its three encodings and the real decoders.
func c03RoundTrip(r *verifkit.Reporter, c Certificate, exactTimes bool, rec func() any) (o c03Outcome) {
	fp0, err := c.Fingerprint()
	if err != nil {
		o.rejected = append(o.rejected, "fingerprint: "+err.Error())
		return
	}
	check := func(enc string, d Certificate, err error) {
		if err != nil {
			o.rejected = append(o.rejected, enc+": "+err.Error())
			return
		}
		if d == nil {
			o.rejected = append(o.rejected, enc+": nil certificate without error")
			return
		}
		for _, f := range c03Diff(c, d, exactTimes) {
			o.mismatch = append(o.mismatch, enc+": "+f)
		}
		fp, err := d.Fingerprint()
		if err != nil || fp != fp0 {
			o.mismatch = append(o.mismatch, fmt.Sprintf("%s: fingerprint %s != %s (err=%v)", enc, fp, fp0, err))
		}
	}
	guard := func(f func()) {
		if r.Guard("C03/roundtrip-panic", rec, f) {
			o.panicked = true
		}
	}
	guard(func() {
		b, err := c.Marshal()
		if err != nil {
			o.rejected = append(o.rejected, "marshal: "+err.Error())
			return
		}
		switch c.Version() {
		case Version1:
			d, err := unmarshalCertificateV1(b, nil)
			if d == nil {
				check("standard", nil, err)
			} else {
				check("standard", d, err)
			}
		case Version2:
			d, err := unmarshalCertificateV2(b, nil, Curve_CURVE25519)
			if d == nil {
				check("standard", nil, err)
			} else {
				check("standard", d, err)
			}
		}
	})
	guard(func() {
		p, err := c.MarshalPEM()
		if err != nil {
			o.rejected = append(o.rejected, "marshalPEM: "+err.Error())
			return
		}
		d, rest, err := UnmarshalCertificateFromPEM(p)
		check("pem", d, err)
		if err == nil && len(rest) != 0 {
			o.mismatch = append(o.mismatch, fmt.Sprintf("pem: %d bytes left over after the only block", len(rest)))
		}
	})
	guard(func() {
		hb, err := c.MarshalForHandshakes()
		if err != nil {
			o.rejected = append(o.rejected, "marshalForHandshakes: "+err.Error())
			return
		}
		d, err := Recombine(c.Version(), hb, c.PublicKey(), c.Curve())
		check("handshake", d, err)
		if c.Version() == Version1 {
			d, err := Recombine(VersionPre1, hb, c.PublicKey(), c.Curve())
			check("handshake(pre1)", d, err)
		}
	})
	if fp1, err := c.Fingerprint(); err != nil || fp1 != fp0 {
		o.mismatch = append(o.mismatch, fmt.Sprintf("fingerprint of the issued certificate changed while encoding it: %s -> %s (%v)", fp0, fp1, err))
	}
	return
}

// ---------------------------------------------------------------------------------------------------------------
// witness classes for "signer accepted, decoder refused"

type c03Cause struct {
	key     string
	present func(q *c03Req, encodedLen int) bool
	remove  func(q *c03Req)
}

var c03Causes = []c03Cause{
	{"C03/v2-sign-accepts-empty-name",
		func(q *c03Req, _ int) bool { return q.Version == Version2 && len(q.Name) == 0 },
		func(q *c03Req) { q.Name = "n" }},
	{"C03/v2-sign-accepts-name-longer-than-253",
		func(q *c03Req, _ int) bool { return q.Version == Version2 && len(q.Name) > 253 },
		func(q *c03Req) { q.Name = strings.Repeat("n", 253) }},
	{"C03/v2-sign-accepts-empty-group",
		func(q *c03Req, _ int) bool { return q.Version == Version2 && slices.Contains(q.Groups, "") },
		func(q *c03Req) {
			for i, g := range q.Groups {
				if g == "" {
					q.Groups[i] = "g"
				}
			}
		}},
	{"C03/v2-sign-accepts-certificate-over-65536-bytes",
		func(q *c03Req, n int) bool { return q.Version == Version2 && n > 65536 },
		func(q *c03Req) {
			for i, g := range q.Groups {
				if len(g) > 1000 {
					q.Groups[i] = g[:1000]
				}
			}
			if len(q.Name) > 1000 {
				q.Name = q.Name[:253]
			}
			if len(q.Groups) > 200 {
				q.Groups = q.Groups[:200]
			}
		}},
}

const c03KeyUnexplained = "C03/issued-certificate-rejected-by-decoder"

// c03Attribute decides under which witness class(es) a rejected round trip is reported.
func c03Attribute(r *verifkit.Reporter, q *c03Req, c Certificate, o c03Outcome, k *c03KeySet, cas *[2][2]Certificate, idx int) {
	encLen := 0
	if b, err := c.Marshal(); err == nil {
		encLen = len(b)
	}
	var present []int
	for i, cs := range c03Causes {
		if cs.present(q, encLen) {
			present = append(present, i)
		}
	}
	rec := func(qq *c03Req, oo c03Outcome, note string) map[string]any {
		return map[string]any{"case_index": idx, "request": qq.record(), "sign": "accepted", "encoded_len": encLen, "decoders_rejected": oo.rejected, "note": note}
	}
	try := func(qq *c03Req) (c03Outcome, bool) {
		cc, err := c03Sign(qq, k, cas)
		if err != nil {
			return c03Outcome{}, false
		}
		return c03RoundTrip(r, cc, false, func() any { return qq.record() }), true
	}
	if len(present) == 0 {
		r.Violation(c03KeyUnexplained, fmt.Sprintf("Sign accepted a v%d certificate that the decoder refuses: %s", q.Version, strings.Join(o.rejected, "; ")), rec(q, o, "no known witness class applies"))
		return
	}
	// all suspicious features neutralised: must round-trip, otherwise something else is wrong as well
	clean := q.clone()
	for _, i := range present {
		c03Causes[i].remove(clean)
	}
	if oc, signed := try(clean); signed && len(oc.rejected) > 0 {
		r.Violation(c03KeyUnexplained, fmt.Sprintf("Sign accepted a v%d certificate that the decoder refuses: %s", q.Version, strings.Join(oc.rejected, "; ")), rec(clean, oc, "request after neutralising the known witness classes"))
	}
	if len(present) == 1 {
		cs := c03Causes[present[0]]
		r.Violation(cs.key, fmt.Sprintf("Sign accepted, decoder refused (%s)", strings.Join(o.rejected, "; ")), rec(q, o, "single witness class present"))
		return
	}
	attributed := false
	for _, i := range present {
		only := q.clone()
		for _, j := range present {
			if j != i {
				c03Causes[j].remove(only)
			}
		}
		if oo, signed := try(only); signed && len(oo.rejected) > 0 {
			r.Violation(c03Causes[i].key, fmt.Sprintf("Sign accepted, decoder refused (%s)", strings.Join(oo.rejected, "; ")), rec(only, oo, "request reduced to this single witness class"))
			attributed = true
		}
	}
	if !attributed {
		r.Violation(c03KeyUnexplained, fmt.Sprintf("Sign accepted a v%d certificate that the decoder refuses only in combination: %s", q.Version, strings.Join(o.rejected, "; ")), rec(q, o, "no single witness class reproduces it"))
	}
}

// ---------------------------------------------------------------------------------------------------------------

func TestVerifC03SignRoundTrip(t *testing.T) {
	r := verifkit.NewReporter(t, "C03", "sign",
		"PRNG TBS requests biased to the edges (name length 0/1/252..256/1000+, invalid UTF-8, NUL; groups with empty strings, duplicates, long, many; 0..40 v4/v6 networks and unsafe networks incl. forbidden shapes; times negative / around 2^31, 2^32 / sub-second; odd public keys; both versions and curves; CA and host) pushed through the real Sign; every accepted certificate is decoded from Marshal, PEM and handshake+Recombine and compared field by field and by fingerprint. distinct = distinct accepted requests (hash of all fields); classes = generator class x outcome")
	defer r.Done()
	k := c03NewKeys()
	cas, err := c03PermissiveCAs(k)
	if err != nil {
		r.Inconclusive("cannot create the permissive signing CAs: " + err.Error())
		return
	}
	n := verifkit.Scale(30_000, 1_000_000)
	for i := 0; i < n; i++ {
		if !verifkit.Mine(i) {
			continue
		}
		rng := verifkit.SubRand("C03sign", i)
		q := c03GenReq(rng, k)
		r.Pre("C03 sign case %d (stream C03sign) classes=%s", i, q.Classes)
		var c Certificate
		var serr error
		if r.Guard("C03/sign-panic", func() any { return q.record() }, func() { c, serr = c03Sign(q, k, &cas) }) {
			continue
		}
		r.Eval(1)
		whole := q.NB.Nanosecond() == 0 && q.NA.Nanosecond() == 0
		if serr != nil || c == nil {
			r.Count("sign_refused", 1)
			r.DistinctClass("refused: " + c03ClassOf(q))
			continue
		}
		r.Count("sign_accepted", 1)
		r.Count(fmt.Sprintf("accepted_v%d", q.Version), 1)
		if !whole {
			r.Count("accepted_with_subsecond_times(compared at 1s granularity)", 1)
		}
		r.Distinct(q.sig())
		r.DistinctClass("accepted: " + c03ClassOf(q))
		if r.WantSample() && i%7 == 0 {
			r.Sample(map[string]any{"case_index": i, "request": q.record(), "sign": "accepted"})
		}
		// the issued certificate carries what was asked for (networks of a v2 certificate are sorted by the signer)
		if d := c03IssuedVsRequest(q, c); len(d) > 0 {
			r.Violation("C03/issued-differs-from-request", strings.Join(d, "; "), map[string]any{"case_index": i, "request": q.record(), "diff": d})
		}
		o := c03RoundTrip(r, c, whole, func() any { return q.record() })
		if o.ok() {
			r.Count("roundtrip_ok", 1)
			continue
		}
		if len(o.mismatch) > 0 {
			key := "C03/roundtrip-field-mismatch"
			if strings.Contains(strings.Join(o.mismatch, " "), "fingerprint") && !strings.Contains(strings.Join(o.mismatch, " "), ": name") {
				key = "C03/roundtrip-fingerprint-mismatch"
			}
			r.Violation(key, strings.Join(o.mismatch[:min(4, len(o.mismatch))], "; "), map[string]any{"case_index": i, "request": q.record(), "mismatch": o.mismatch})
		}
		if len(o.rejected) > 0 {
			r.Count("roundtrip_rejected", 1)
			c03Attribute(r, q, c, o, k, &cas, i)
		}
	}
	if r.Counter("sign_accepted") == 0 {
		r.Inconclusive("the signer accepted nothing")
	}
}

// c03ClassOf: version/curve/ca/focus plus the class of the focused dimension only (keeps the class list small).
func c03ClassOf(q *c03Req) string {
	f := strings.Fields(q.Classes)
	out := f[0]
	for _, x := range f[1:] {
		if !strings.HasSuffix(x, "=plain") && !strings.HasPrefix(x, "groups=plain") {
			x = strings.Map(func(r rune) rune {
				if r >= '0' && r <= '9' {
					return -1
				}
				return r
			}, x)
			out += " " + x
		}
	}
	return out
}

// c03IssuedVsRequest: sanity that the signer copied the request into the certificate.
func c03IssuedVsRequest(q *c03Req, c Certificate) []string {
	var d []string
	if c.Version() != q.Version || c.Name() != q.Name || c.Curve() != q.Curve || c.IsCA() != q.IsCA || !bytes.Equal(c.PublicKey(), q.Pub) {
		d = append(d, "scalar fields differ")
	}
	if !slices.Equal(c.Groups(), q.Groups) {
		d = append(d, "groups differ")
	}
	same := func(a, b []netip.Prefix) bool {
		a, b = slices.Clone(a), slices.Clone(b)
		slices.SortFunc(a, c03CmpPrefix)
		slices.SortFunc(b, c03CmpPrefix)
		return slices.Equal(a, b)
	}
	if !same(c.Networks(), q.Networks) {
		d = append(d, fmt.Sprintf("networks differ: %v vs %v", c.Networks(), q.Networks))
	}
	if !same(c.UnsafeNetworks(), q.Unsafe) {
		d = append(d, fmt.Sprintf("unsafe networks differ: %v vs %v", c.UnsafeNetworks(), q.Unsafe))
	}
	if c.NotBefore().Unix() != q.NB.Unix() || c.NotAfter().Unix() != q.NA.Unix() {
		d = append(d, "validity differs")
	}
	if (q.SignerVer == 0) != (c.Issuer() == "") {
		d = append(d, "issuer presence differs")
	}
	return d
}

func c03CmpPrefix(a, b netip.Prefix) int {
	if c := a.Addr().Compare(b.Addr()); c != 0 {
		return c
	}
	return a.Bits() - b.Bits()
}
