package cert

// C01 — certificate acceptance equals the documented trust rule (incl. cached re-check).
//
// Reference predicate (written from the property statement, not from ca_pool.go). A peer certificate L is
// accepted by pool P with blocklist BL at time t  <=>  all of
//   B  neither fingerprint(L) nor fingerprint(P-256 low/high-S twin of L) is in BL
//   I  L.issuer names a CA that is in P
//   C  that CA has the same curve as L
//   Vc the CA is valid at t            (NotBefore <= t <= NotAfter, both ends inclusive — named assumption)
//   Vl L is valid at t
//   S  L's signature was made by that CA's key over L's final content (generator ground truth)
//   W  CA.NotBefore <= L.NotBefore and L.NotAfter <= CA.NotAfter
//   K  groups(L) ⊆ groups(CA) unless the CA lists none; every network of L lies inside one network of the CA
//      unless the CA lists none; the same for unsafe networks
// "lies inside" is decided bit-wise on the raw address bytes (same address length, CA prefix not longer than
// the leaf prefix, first CA.bits bits equal) — netip.Prefix.Contains is not used by the reference.
// The twin signature is produced independently: encoding/asn1 + math/big re-encode of (r, n-s).
//
// VerifyCachedCertificate: for a CachedCertificate obtained from an accepted full check, after arbitrary
// trust-state edits (blocklist add / reset, pool swap) and time changes, cached verdict == full verdict == reference.

import (
	"bytes"
	"crypto"
	"crypto/ecdsa"
	"crypto/ed25519"
	"crypto/elliptic"
	"crypto/sha256"
	"encoding/asn1"
	"encoding/hex"
	"errors"
	"fmt"
	"math/big"
	"math/rand/v2"
	"net/netip"
	"slices"
	"sort"
	"strings"
	"testing"
	"time"

	"github.com/slackhq/nebula/verifkit"
)

// ---------------------------------------------------------------------------------------------------------------
// keys and signatures (independent of cert/sign.go and cert/p256)

type c01SignKey struct {
	curve Curve
	ed    ed25519.PrivateKey
	ec    *ecdsa.PrivateKey
	raw   []byte // what TBSCertificate.Sign expects
	pub   []byte
}

func c01Bytes(rng *rand.Rand, n int) []byte {
	b := make([]byte, n)
	for i := range b {
		b[i] = byte(rng.Uint32())
	}
	return b
}

func c01NewSignKey(rng *rand.Rand, curve Curve) *c01SignKey {
	if curve == Curve_CURVE25519 {
		k := ed25519.NewKeyFromSeed(c01Bytes(rng, 32))
		return &c01SignKey{curve: curve, ed: k, raw: []byte(k), pub: slices.Clone([]byte(k.Public().(ed25519.PublicKey)))}
	}
	for {
		raw := c01Bytes(rng, 32)
		k, err := ecdsa.ParseRawPrivateKey(elliptic.P256(), raw)
		if err != nil {
			continue
		}
		pub, err := k.PublicKey.Bytes()
		if err != nil {
			continue
		}
		return &c01SignKey{curve: curve, ec: k, raw: raw, pub: pub}
	}
}

func (k *c01SignKey) sign(msg []byte) []byte {
	if k.curve == Curve_CURVE25519 {
		return ed25519.Sign(k.ed, msg)
	}
	h := sha256.Sum256(msg)
	sig, err := k.ec.Sign(nil, h[:], crypto.SHA256) // nil rand: deterministic (RFC 6979) nonces, so runs are reproducible
	if err != nil {
		panic(err)
	}
	return sig
}

// c01DHPub returns a plausible key-agreement public key for a host certificate.
func c01DHPub(rng *rand.Rand, curve Curve) []byte {
	if curve == Curve_CURVE25519 {
		return c01Bytes(rng, 32)
	}
	return c01NewSignKey(rng, Curve_P256).pub
}

type c01RS struct{ R, S *big.Int }

// c01Twin re-encodes an ECDSA signature (r,s) as (r, n-s). ok=false when sig is not a DER (r,s) pair.
func c01Twin(sig []byte) (twin []byte, highS bool, ok bool) {
	var rs c01RS
	rest, err := asn1.Unmarshal(sig, &rs)
	if err != nil || len(rest) != 0 || rs.R == nil || rs.S == nil || rs.S.Sign() <= 0 {
		return nil, false, false
	}
	n := elliptic.P256().Params().N
	if rs.S.Cmp(n) >= 0 {
		return nil, false, false
	}
	half := new(big.Int).Rsh(n, 1)
	out, err := asn1.Marshal(c01RS{rs.R, new(big.Int).Sub(n, rs.S)})
	if err != nil {
		return nil, false, false
	}
	return out, rs.S.Cmp(half) > 0, true
}

func c01SetSig(c Certificate, sig []byte) {
	switch v := c.(type) {
	case *certificateV1:
		v.signature = sig
	case *certificateV2:
		v.signature = sig
	}
}

// c01Wire turns an in-memory certificate into what a reader of its PEM file gets.
func c01Wire(c Certificate) (Certificate, []byte, error) {
	p, err := c.MarshalPEM()
	if err != nil {
		return nil, nil, err
	}
	d, rest, err := UnmarshalCertificateFromPEM(p)
	if err != nil {
		return nil, p, err
	}
	if len(bytes.TrimSpace(rest)) != 0 {
		return nil, p, fmt.Errorf("trailing bytes after PEM")
	}
	return d, p, nil
}

// ---------------------------------------------------------------------------------------------------------------
// address helpers (reference side)

func c01Bit(b []byte, i int) byte { return (b[i/8] >> (7 - uint(i%8))) & 1 }

// c01Inside: does prefix p lie inside prefix q?
func c01Inside(p, q netip.Prefix) bool {
	pb, qb := p.Addr().AsSlice(), q.Addr().AsSlice()
	if len(pb) == 0 || len(pb) != len(qb) {
		return false
	}
	if q.Bits() < 0 || p.Bits() < q.Bits() {
		return false
	}
	for i := 0; i < q.Bits(); i++ {
		if c01Bit(pb, i) != c01Bit(qb, i) {
			return false
		}
	}
	return true
}

func c01AllInside(sub, allowed []netip.Prefix) bool {
	if len(allowed) == 0 {
		return true
	}
	for _, p := range sub {
		ok := false
		for _, q := range allowed {
			if c01Inside(p, q) {
				ok = true
				break
			}
		}
		if !ok {
			return false
		}
	}
	return true
}

func c01GroupsInside(sub, allowed []string) bool {
	if len(allowed) == 0 {
		return true
	}
	set := map[string]bool{}
	for _, g := range allowed {
		set[g] = true
	}
	for _, g := range sub {
		if !set[g] {
			return false
		}
	}
	return true
}

func c01ValidAt(nb, na, t time.Time) bool { return !t.Before(nb) && !t.After(na) }

// generator-side address arithmetic
func c01AddrFrom(b []byte) netip.Addr {
	a, _ := netip.AddrFromSlice(b)
	return a
}

func c01First(q netip.Prefix) []byte {
	b := q.Addr().AsSlice()
	for i := q.Bits(); i < len(b)*8; i++ {
		b[i/8] &^= 1 << (7 - uint(i%8))
	}
	return b
}

func c01LastAddr(q netip.Prefix) []byte {
	b := q.Addr().AsSlice()
	for i := q.Bits(); i < len(b)*8; i++ {
		b[i/8] |= 1 << (7 - uint(i%8))
	}
	return b
}

func c01Step(b []byte, up bool) ([]byte, bool) {
	o := slices.Clone(b)
	for i := len(o) - 1; i >= 0; i-- {
		if up {
			o[i]++
			if o[i] != 0 {
				return o, true
			}
		} else {
			o[i]--
			if o[i] != 0xff {
				return o, true
			}
		}
	}
	return o, false // wrapped
}

func c01RandInside(rng *rand.Rand, q netip.Prefix) netip.Prefix {
	b := c01First(q)
	max := len(b) * 8
	for i := q.Bits(); i < max; i++ {
		if rng.IntN(2) == 1 {
			b[i/8] |= 1 << (7 - uint(i%8))
		}
	}
	if q.Bits() < max {
		b[len(b)-1] |= 1 // never the all-zero host (and never the unspecified address)
	}
	bits := q.Bits() + rng.IntN(max-q.Bits()+1)
	return netip.PrefixFrom(c01AddrFrom(b), bits)
}

func c01RandNet4(rng *rand.Rand) netip.Prefix {
	b := []byte{byte(1 + rng.IntN(222)), byte(rng.Uint32()), byte(rng.Uint32()), byte(rng.Uint32())}
	return netip.PrefixFrom(c01AddrFrom(b), 8+rng.IntN(17)).Masked()
}

func c01RandNet6(rng *rand.Rand) netip.Prefix {
	b := c01Bytes(rng, 16)
	b[0] = 0xfd
	return netip.PrefixFrom(c01AddrFrom(b), 16+rng.IntN(49)).Masked()
}

// ---------------------------------------------------------------------------------------------------------------
// universe

type c01CA struct {
	idx          int
	desc         string
	ver          Version
	curve        Curve
	key          *c01SignKey
	nb, na       time.Time
	groups       []string
	nets, unsafe []netip.Prefix
	cert         Certificate
	pem          []byte
	fp           string
}

type c01Spec struct {
	ver          Version
	curve        Curve // claimed by the leaf
	name         string
	nets, unsafe []netip.Prefix
	groups       []string
	isCA         bool
	nb, na       time.Time
	pub          []byte
	issuer       string
	signer       *c01SignKey
	sForm        int    // P-256 signer: 0 as produced, 1 force low-S, 2 force high-S
	tamper       string // after signing: "", "name", "pub", "sigbit"
}

type c01Leaf struct {
	idx    int
	desc   string
	spec   c01Spec
	sigOK  bool // generator truth: signed by the key of the CA named in issuer, nothing altered afterwards
	forms  []Certificate
	fnames []string
	pem    []byte
	fp     string
	twinFP string
}

type c01Pool struct {
	key     string
	real    *CAPool
	members map[string]*c01CA
	pems    []string
}

type c01World struct {
	idx     int
	rng     *rand.Rand
	t0      time.Time
	cas     []*c01CA
	byFP    map[string]*c01CA
	leaves  []*c01Leaf
	pools   map[string]*c01Pool
	r       *verifkit.Reporter
	unrel   []string
	twinOf  map[*c01CA]*c01CA
	skipped map[string]int
}

var c01GroupWords = []string{"ops", "db", "web", "prod", "staging", "Ops", "op", "ops1", "ünï", "a b", "x,y", "laptop", "ssh"}

func (wd *c01World) addCA(desc string, ver Version, curve Curve, nb, na time.Time, groups []string, nets, unsafe []netip.Prefix, key *c01SignKey, highS bool) *c01CA {
	if key == nil {
		key = c01NewSignKey(wd.rng, curve)
	}
	tbs := &TBSCertificate{Version: ver, Name: fmt.Sprintf("ca%d-%s", len(wd.cas), desc), Networks: slices.Clone(nets), UnsafeNetworks: slices.Clone(unsafe),
		Groups: slices.Clone(groups), IsCA: true, NotBefore: nb, NotAfter: na, PublicKey: slices.Clone(key.pub), Curve: curve}
	c, err := tbs.SignWith(nil, curve, func(b []byte) ([]byte, error) { return key.sign(b), nil })
	if err != nil {
		wd.r.Inconclusive(fmt.Sprintf("harness: cannot create CA %s: %v", desc, err))
		return nil
	}
	if highS {
		tw, isHigh, ok := c01Twin(c.Signature())
		if !ok {
			wd.r.Inconclusive("harness: CA signature is not DER")
			return nil
		}
		if !isHigh {
			c = c.Copy()
			c01SetSig(c, tw)
		}
	}
	d, p, err := c01Wire(c)
	if err != nil {
		wd.r.Inconclusive(fmt.Sprintf("harness: CA %s does not decode: %v", desc, err))
		return nil
	}
	fp, err := d.Fingerprint()
	if err != nil {
		wd.r.Inconclusive(fmt.Sprintf("harness: CA %s fingerprint: %v", desc, err))
		return nil
	}
	ca := &c01CA{idx: len(wd.cas), desc: desc, ver: ver, curve: curve, key: key, nb: nb, na: na, groups: groups, nets: nets, unsafe: unsafe, cert: d, pem: p, fp: fp}
	wd.cas = append(wd.cas, ca)
	wd.byFP[fp] = ca
	return ca
}

// addTwinCA registers the same CA certificate with its self-signature in the other low/high-S form
// (identical content and key, different fingerprint).
func (wd *c01World) addTwinCA(ca *c01CA) *c01CA {
	tw, _, ok := c01Twin(ca.cert.Signature())
	if !ok {
		wd.r.Inconclusive("harness: CA signature is not DER")
		return nil
	}
	c := ca.cert.Copy()
	c01SetSig(c, tw)
	d, p, err := c01Wire(c)
	if err != nil {
		wd.r.Inconclusive(fmt.Sprintf("harness: twin CA does not decode: %v", err))
		return nil
	}
	fp, err := d.Fingerprint()
	if err != nil || fp == ca.fp {
		wd.r.Inconclusive(fmt.Sprintf("harness: twin CA fingerprint: %v", err))
		return nil
	}
	n := *ca
	n.idx, n.desc, n.cert, n.pem, n.fp = len(wd.cas), ca.desc+"-twin", d, p, fp
	wd.cas = append(wd.cas, &n)
	wd.byFP[fp] = &n
	return &n
}

func (wd *c01World) pool(idxs []int) *c01Pool {
	idxs = slices.Clone(idxs)
	sort.Ints(idxs)
	idxs = slices.Compact(idxs)
	key := fmt.Sprint(idxs)
	if p, ok := wd.pools[key]; ok {
		return p
	}
	p := &c01Pool{key: key, members: map[string]*c01CA{}}
	var all []byte
	for _, i := range idxs {
		ca := wd.cas[i]
		p.members[ca.fp] = ca
		p.pems = append(p.pems, string(ca.pem))
		all = append(all, ca.pem...)
	}
	if len(wd.pools)%2 == 0 {
		// the loader used for pki.ca
		real, err := NewCAPoolFromPEM(all)
		if real == nil || (err != nil && !errors.Is(err, ErrExpired)) {
			wd.r.Inconclusive(fmt.Sprintf("harness: NewCAPoolFromPEM failed for pool %s: %v", key, err))
			real = NewCAPool()
		}
		p.real = real
	} else {
		p.real = NewCAPool()
		for _, i := range idxs {
			// AddCA compares with the wall clock and reports ErrExpired after having added the CA; the oracle does not depend on it
			if err := p.real.AddCA(wd.cas[i].cert); err != nil && !errors.Is(err, ErrExpired) {
				wd.r.Inconclusive(fmt.Sprintf("harness: AddCA failed for %s: %v", wd.cas[i].desc, err))
			}
		}
	}
	if len(p.real.CAs) != len(p.members) {
		wd.r.Inconclusive(fmt.Sprintf("harness: pool %s holds %d CAs, expected %d", key, len(p.real.CAs), len(p.members)))
	}
	wd.pools[key] = p
	return p
}

func c01Tamper(c Certificate, what string, rng *rand.Rand) {
	switch v := c.(type) {
	case *certificateV1:
		switch what {
		case "name":
			v.details.name += "x"
		case "pub":
			v.details.publicKey = slices.Clone(v.details.publicKey)
			v.details.publicKey[rng.IntN(len(v.details.publicKey))] ^= 1 << uint(rng.IntN(8))
		case "sigbit":
			v.signature = slices.Clone(v.signature)
			v.signature[rng.IntN(len(v.signature))] ^= 1 << uint(rng.IntN(8))
		}
	case *certificateV2:
		switch what {
		case "name":
			v.details.name += "x"
			v.rawDetails, _ = v.details.Marshal()
		case "pub":
			v.publicKey = slices.Clone(v.publicKey)
			v.publicKey[rng.IntN(len(v.publicKey))] ^= 1 << uint(rng.IntN(8))
		case "sigbit":
			v.signature = slices.Clone(v.signature)
			v.signature[rng.IntN(len(v.signature))] ^= 1 << uint(rng.IntN(8))
		}
	}
}

// build creates a certificate around Sign (no constraint checks, any signer, any claimed curve).
func (wd *c01World) build(s *c01Spec) (Certificate, error) {
	tbs := &TBSCertificate{Version: s.ver, Name: s.name, Networks: slices.Clone(s.nets), UnsafeNetworks: slices.Clone(s.unsafe),
		Groups: slices.Clone(s.groups), IsCA: s.isCA, NotBefore: s.nb, NotAfter: s.na, PublicKey: slices.Clone(s.pub), Curve: s.curve, issuer: s.issuer}
	// leaves that a real CA would issue go through the real SignWith; everything else (and whatever SignWith refuses) is built around it
	if ca := wd.byFP[s.issuer]; ca != nil && ca.key == s.signer && ca.curve == s.curve && !s.isCA && s.sForm == 0 && s.tamper == "" {
		t2 := *tbs
		t2.Networks, t2.UnsafeNetworks, t2.Groups = slices.Clone(tbs.Networks), slices.Clone(tbs.UnsafeNetworks), slices.Clone(tbs.Groups)
		if crt, err := t2.SignWith(ca.cert, ca.curve, func(b []byte) ([]byte, error) { return ca.key.sign(b), nil }); err == nil {
			wd.skipped["built-through-SignWith"]++
			return crt, nil
		}
	}
	var c beingSignedCertificate
	switch s.ver {
	case Version1:
		c = &certificateV1{}
	case Version2:
		c = &certificateV2{}
	default:
		return nil, fmt.Errorf("bad version")
	}
	if err := c.fromTBSCertificate(tbs); err != nil {
		return nil, err
	}
	msg, err := c.marshalForSigning()
	if err != nil {
		return nil, err
	}
	sig := s.signer.sign(msg)
	if s.signer.curve == Curve_P256 && s.sForm != 0 {
		tw, isHigh, ok := c01Twin(sig)
		if !ok {
			return nil, fmt.Errorf("signature not DER")
		}
		if isHigh != (s.sForm == 2) {
			sig = tw
		}
	}
	if err := c.setSignature(sig); err != nil {
		return nil, err
	}
	crt := c.(Certificate)
	if s.tamper != "" {
		c01Tamper(crt, s.tamper, wd.rng)
	}
	return crt, nil
}

func c01SamePrefixSet(a, b []netip.Prefix) bool {
	if len(a) != len(b) {
		return false
	}
	x, y := slices.Clone(a), slices.Clone(b)
	cmp := func(p, q netip.Prefix) int { return strings.Compare(p.String(), q.String()) }
	slices.SortFunc(x, cmp)
	slices.SortFunc(y, cmp)
	return slices.Equal(x, y)
}

func (wd *c01World) addLeaf(desc string, s c01Spec) *c01Leaf {
	crt, err := wd.build(&s)
	if err != nil {
		wd.skipped["generator-refused"]++
		return nil
	}
	dec, p, err := c01Wire(crt)
	if err != nil {
		wd.skipped["not-decodable"]++
		return nil
	}
	if s.tamper == "" {
		// the reference works on what the generator put in; make sure that is what a reader of the wire form sees (C03 judges the codec itself)
		if dec.Name() != s.name || !slices.Equal(dec.Groups(), s.groups) || !c01SamePrefixSet(dec.Networks(), s.nets) || !c01SamePrefixSet(dec.UnsafeNetworks(), s.unsafe) ||
			!dec.NotBefore().Equal(s.nb) || !dec.NotAfter().Equal(s.na) || dec.Issuer() != s.issuer || dec.Curve() != s.curve || dec.IsCA() != s.isCA || dec.Version() != s.ver {
			wd.skipped["decoded-fields-differ"]++
			return nil
		}
	}
	l := &c01Leaf{idx: len(wd.leaves), desc: desc, spec: s, pem: p}
	if ca := wd.byFP[s.issuer]; ca != nil && ca.key == s.signer && s.tamper == "" {
		l.sigOK = true
	}
	l.forms = append(l.forms, dec)
	l.fnames = append(l.fnames, "pem")
	l.forms = append(l.forms, crt)
	l.fnames = append(l.fnames, "memory")
	if hb, err := crt.MarshalForHandshakes(); err == nil {
		if rc, err := Recombine(s.ver, hb, crt.PublicKey(), crt.Curve()); err == nil {
			l.forms = append(l.forms, rc)
			l.fnames = append(l.fnames, "handshake")
		} else {
			wd.skipped["handshake-form-refused"]++
		}
	}
	if l.fp, err = dec.Fingerprint(); err != nil {
		wd.skipped["no-fingerprint"]++
		return nil
	}
	if s.curve == Curve_P256 {
		if tw, _, ok := c01Twin(dec.Signature()); ok {
			tc := dec.Copy()
			c01SetSig(tc, tw)
			if td, _, err := c01Wire(tc); err == nil {
				l.twinFP, _ = td.Fingerprint()
			}
		}
	}
	wd.leaves = append(wd.leaves, l)
	return l
}

// ---------------------------------------------------------------------------------------------------------------
// reference predicate

type c01Vec struct {
	B, I, C, Vc, Vl, S, W, G, N, U bool
	haveCA                       bool
}

func (v c01Vec) K() bool { return v.G && v.N && v.U }

func (v c01Vec) accept() bool {
	return v.B && v.I && v.C && v.Vc && v.Vl && v.S && v.W && v.K()
}

func c01b(x bool) byte {
	if x {
		return '1'
	}
	return '0'
}

func (v c01Vec) String() string {
	if !v.haveCA {
		return fmt.Sprintf("B%c I%c C- Vc- Vl%c S- W- K-", c01b(v.B), c01b(v.I), c01b(v.Vl))
	}
	s := fmt.Sprintf("B%c I%c C%c Vc%c Vl%c S%c W%c K%c", c01b(v.B), c01b(v.I), c01b(v.C), c01b(v.Vc), c01b(v.Vl), c01b(v.S), c01b(v.W), c01b(v.K()))
	if !v.K() {
		s += fmt.Sprintf("(g%c n%c u%c)", c01b(v.G), c01b(v.N), c01b(v.U))
	}
	return s
}

// falseList names the false top-level conjuncts
func (v c01Vec) falseList() []string {
	var f []string
	add := func(ok bool, n string) {
		if !ok {
			f = append(f, n)
		}
	}
	add(v.B, "blocklisted")
	add(v.I, "issuer-not-trusted")
	if v.haveCA {
		add(v.C, "curve-mismatch")
		add(v.Vc, "ca-not-valid")
	}
	add(v.Vl, "cert-not-valid")
	if v.haveCA {
		add(v.S, "bad-signature")
		add(v.W, "outside-ca-window")
		add(v.K(), "outside-ca-constraints")
	}
	return f
}

func c01Reference(l *c01Leaf, members map[string]*c01CA, universe map[string]*c01CA, bl []string, t time.Time) c01Vec {
	s := &l.spec
	var v c01Vec
	v.B = true
	for _, f := range bl {
		if f == l.fp || (l.twinFP != "" && f == l.twinFP) {
			v.B = false
		}
	}
	ca := members[s.issuer]
	v.I = ca != nil && s.issuer != ""
	if ca == nil {
		ca = universe[s.issuer] // only to label the remaining conjuncts
	}
	v.Vl = c01ValidAt(s.nb, s.na, t)
	if ca == nil {
		return v
	}
	v.haveCA = true
	v.C = ca.curve == s.curve
	v.Vc = c01ValidAt(ca.nb, ca.na, t)
	v.S = l.sigOK
	v.W = !s.nb.Before(ca.nb) && !s.na.After(ca.na)
	v.G = c01GroupsInside(s.groups, ca.groups)
	v.N = c01AllInside(s.nets, ca.nets)
	v.U = c01AllInside(s.unsafe, ca.unsafe)
	return v
}

// ---------------------------------------------------------------------------------------------------------------
// world generation

type c01Ctx struct {
	wd             *c01World
	ca             *c01CA
	q4, q6, u4, u6 netip.Prefix // the ranges leaf variants are placed around (the CA's own when it is constrained)
}

func c01SubWindow(rng *rand.Rand, nb, na time.Time) (time.Time, time.Time) {
	span := na.Unix() - nb.Unix()
	if span < 8 {
		return nb, na
	}
	q := span / 4
	return time.Unix(nb.Unix()+1+rng.Int64N(q), 0), time.Unix(na.Unix()-1-rng.Int64N(q), 0)
}

func (cx *c01Ctx) base(ver Version) c01Spec {
	wd, ca, rng := cx.wd, cx.ca, cx.wd.rng
	s := c01Spec{ver: ver, curve: ca.curve, issuer: ca.fp, signer: ca.key}
	s.name = fmt.Sprintf("host-%d-%x", len(wd.leaves), rng.Uint32())
	if rng.IntN(8) == 0 {
		s.name = strings.Repeat("n", 1+rng.IntN(253))
	}
	s.pub = c01DHPub(rng, s.curve)
	s.nb, s.na = c01SubWindow(rng, ca.nb, ca.na)
	s.nets = []netip.Prefix{c01RandInside(rng, cx.q4)}
	if ver == Version2 {
		s.nets = append(s.nets, c01RandInside(rng, cx.q6))
	}
	if rng.IntN(2) == 0 {
		s.unsafe = []netip.Prefix{c01RandInside(rng, cx.u4)}
		if ver == Version2 && rng.IntN(2) == 0 {
			s.unsafe = append(s.unsafe, c01RandInside(rng, cx.u6))
		}
	}
	pool := ca.groups
	if len(pool) == 0 {
		pool = c01GroupWords
	}
	for _, g := range pool {
		if rng.IntN(2) == 0 {
			s.groups = append(s.groups, g)
		}
	}
	return s
}

type c01Mod struct {
	name string
	v2   bool // only meaningful for v2 leaves
	p256 bool // only for P-256 issuers
	f    func(cx *c01Ctx, s *c01Spec)
}

func c01Max(p netip.Prefix) int { return p.Addr().BitLen() }

func c01Mods() []c01Mod {
	sec := time.Second
	foreign := func(s *c01Spec) string { return "grp-" + hex.EncodeToString([]byte(s.name + "zzz"))[:6] }
	// replace the first prefix of the family of q in list (or append)
	put := func(list []netip.Prefix, q netip.Prefix, p netip.Prefix) []netip.Prefix {
		out := slices.Clone(list)
		for i := range out {
			if out[i].Addr().BitLen() == q.Addr().BitLen() {
				out[i] = p
				return out
			}
		}
		return append(out, p)
	}
	type shape struct {
		name string
		f    func(rng *rand.Rand, q netip.Prefix) (netip.Prefix, bool)
	}
	shapes := []shape{
		{"equal", func(rng *rand.Rand, q netip.Prefix) (netip.Prefix, bool) {
			return netip.PrefixFrom(c01AddrFrom(c01First(q)), q.Bits()), true
		}},
		{"equal-hostbits", func(rng *rand.Rand, q netip.Prefix) (netip.Prefix, bool) {
			return netip.PrefixFrom(c01RandInside(rng, q).Addr(), q.Bits()), true
		}},
		{"wider-by-one", func(rng *rand.Rand, q netip.Prefix) (netip.Prefix, bool) {
			if q.Bits() == 0 {
				return q, false
			}
			return netip.PrefixFrom(c01RandInside(rng, q).Addr(), q.Bits()-1), true
		}},
		{"narrower-by-one", func(rng *rand.Rand, q netip.Prefix) (netip.Prefix, bool) {
			if q.Bits() >= c01Max(q) {
				return q, false
			}
			return netip.PrefixFrom(c01RandInside(rng, q).Addr(), q.Bits()+1), true
		}},
		{"first-host", func(rng *rand.Rand, q netip.Prefix) (netip.Prefix, bool) {
			return netip.PrefixFrom(c01AddrFrom(c01First(q)), c01Max(q)), true
		}},
		{"last-host", func(rng *rand.Rand, q netip.Prefix) (netip.Prefix, bool) {
			return netip.PrefixFrom(c01AddrFrom(c01LastAddr(q)), c01Max(q)), true
		}},
		{"just-before", func(rng *rand.Rand, q netip.Prefix) (netip.Prefix, bool) {
			b, ok := c01Step(c01First(q), false)
			return netip.PrefixFrom(c01AddrFrom(b), c01Max(q)), ok
		}},
		{"just-after", func(rng *rand.Rand, q netip.Prefix) (netip.Prefix, bool) {
			b, ok := c01Step(c01LastAddr(q), true)
			return netip.PrefixFrom(c01AddrFrom(b), c01Max(q)), ok
		}},
		{"just-after-same-bits", func(rng *rand.Rand, q netip.Prefix) (netip.Prefix, bool) {
			b, ok := c01Step(c01LastAddr(q), true)
			b[len(b)-1] |= 1
			return netip.PrefixFrom(c01AddrFrom(b), q.Bits()), ok
		}},
		{"far", func(rng *rand.Rand, q netip.Prefix) (netip.Prefix, bool) {
			b := c01First(q)
			b[0] ^= 0x55
			b[len(b)-1] |= 1
			return netip.PrefixFrom(c01AddrFrom(b), c01Max(q)-rng.IntN(8)), true
		}},
	}
	mods := []c01Mod{
		{name: "base", f: func(cx *c01Ctx, s *c01Spec) {}},
		{name: "win-equal", f: func(cx *c01Ctx, s *c01Spec) { s.nb, s.na = cx.ca.nb, cx.ca.na }},
		{name: "win-nb-1s", f: func(cx *c01Ctx, s *c01Spec) { s.nb = cx.ca.nb.Add(-sec) }},
		{name: "win-na+1s", f: func(cx *c01Ctx, s *c01Spec) { s.na = cx.ca.na.Add(sec) }},
		{name: "win-both-out", f: func(cx *c01Ctx, s *c01Spec) { s.nb, s.na = cx.ca.nb.Add(-sec), cx.ca.na.Add(sec) }},
		{name: "win-nb-eq-na+1s", f: func(cx *c01Ctx, s *c01Spec) { s.nb, s.na = cx.ca.nb, cx.ca.na.Add(sec) }},
		{name: "win-instant", f: func(cx *c01Ctx, s *c01Spec) { s.na = s.nb }},
		{name: "win-inverted", f: func(cx *c01Ctx, s *c01Spec) { s.na = s.nb.Add(-sec) }},
		{name: "win-after-ca", f: func(cx *c01Ctx, s *c01Spec) { s.nb, s.na = cx.ca.na.Add(sec), cx.ca.na.Add(3600*sec) }},
		{name: "win-before-ca", f: func(cx *c01Ctx, s *c01Spec) { s.nb, s.na = cx.ca.nb.Add(-3600*sec), cx.ca.nb.Add(-sec) }},
		{name: "grp-none", f: func(cx *c01Ctx, s *c01Spec) { s.groups = nil }},
		{name: "grp-all", f: func(cx *c01Ctx, s *c01Spec) {
			if len(cx.ca.groups) > 0 {
				s.groups = slices.Clone(cx.ca.groups)
			}
		}},
		{name: "grp-foreign-added", f: func(cx *c01Ctx, s *c01Spec) { s.groups = append(slices.Clone(s.groups), foreign(s)) }},
		{name: "grp-foreign-only", f: func(cx *c01Ctx, s *c01Spec) { s.groups = []string{foreign(s)} }},
		{name: "grp-case", f: func(cx *c01Ctx, s *c01Spec) {
			g := "ops"
			if len(cx.ca.groups) > 0 {
				g = cx.ca.groups[0]
			}
			alt := strings.ToUpper(g)
			if alt == g {
				alt = strings.ToLower(g)
			}
			if alt == g {
				alt = g + "A"
			}
			s.groups = []string{alt}
		}},
		{name: "grp-prefix", f: func(cx *c01Ctx, s *c01Spec) {
			g := "ops"
			if len(cx.ca.groups) > 0 {
				g = cx.ca.groups[len(cx.ca.groups)-1]
			}
			s.groups = []string{g + "1"}
		}},
		{name: "grp-dup", f: func(cx *c01Ctx, s *c01Spec) {
			if len(s.groups) > 0 {
				s.groups = append(slices.Clone(s.groups), s.groups[0])
			}
		}},
		{name: "net-two-one-far", f: func(cx *c01Ctx, s *c01Spec) {
			b := c01First(cx.q4)
			b[0] ^= 0x55
			b[3] |= 1
			s.nets = append(slices.Clone(s.nets), netip.PrefixFrom(c01AddrFrom(b), 32))
		}},
		{name: "net-v6-only", v2: true, f: func(cx *c01Ctx, s *c01Spec) {
			s.nets = []netip.Prefix{c01RandInside(cx.wd.rng, cx.q6)}
			s.unsafe = nil
		}},
		{name: "net-v4-only", v2: true, f: func(cx *c01Ctx, s *c01Spec) {
			s.nets = []netip.Prefix{c01RandInside(cx.wd.rng, cx.q4)}
			s.unsafe = nil
		}},
		{name: "unsafe-none", f: func(cx *c01Ctx, s *c01Spec) { s.unsafe = nil }},
		{name: "unsafe-default-route", f: func(cx *c01Ctx, s *c01Spec) { s.unsafe = []netip.Prefix{netip.MustParsePrefix("0.0.0.0/0")} }},
		{name: "unsafe-default-route6", v2: true, f: func(cx *c01Ctx, s *c01Spec) { s.unsafe = []netip.Prefix{netip.MustParsePrefix("::/0")} }},
		{name: "unsafe-4in6", v2: true, f: func(cx *c01Ctx, s *c01Spec) {
			in := c01RandInside(cx.wd.rng, cx.u4).Addr().As4()
			b := append([]byte{0, 0, 0, 0, 0, 0, 0, 0, 0, 0, 0xff, 0xff}, in[:]...)
			s.unsafe = []netip.Prefix{netip.PrefixFrom(c01AddrFrom(b), 128)}
			// AddrFromSlice keeps the 16-byte (4in6) form
		}},
		{name: "unsafe-two-one-far", f: func(cx *c01Ctx, s *c01Spec) {
			b := c01First(cx.u4)
			b[0] ^= 0x55
			s.unsafe = []netip.Prefix{c01RandInside(cx.wd.rng, cx.u4), netip.PrefixFrom(c01AddrFrom(b), 24)}
		}},
		{name: "sig-wrong-key", f: func(cx *c01Ctx, s *c01Spec) { s.signer = c01NewSignKey(cx.wd.rng, cx.ca.curve) }},
		{name: "sig-other-ca-key", f: func(cx *c01Ctx, s *c01Spec) {
			for _, o := range cx.wd.cas {
				if o.curve == cx.ca.curve && o.key != cx.ca.key {
					s.signer = o.key
					return
				}
			}
			s.signer = c01NewSignKey(cx.wd.rng, cx.ca.curve)
		}},
		{name: "sig-tamper-name", f: func(cx *c01Ctx, s *c01Spec) { s.tamper = "name" }},
		{name: "sig-tamper-pub", f: func(cx *c01Ctx, s *c01Spec) { s.tamper = "pub" }},
		{name: "sig-tamper-sigbit", f: func(cx *c01Ctx, s *c01Spec) { s.tamper = "sigbit" }},
		{name: "curve-other", f: func(cx *c01Ctx, s *c01Spec) {
			if s.curve == Curve_P256 {
				s.curve = Curve_CURVE25519
			} else {
				s.curve = Curve_P256
			}
			s.pub = c01DHPub(cx.wd.rng, s.curve)
		}},
		{name: "sig-low-s", p256: true, f: func(cx *c01Ctx, s *c01Spec) { s.sForm = 1 }},
		{name: "sig-high-s", p256: true, f: func(cx *c01Ctx, s *c01Spec) { s.sForm = 2 }},
		{name: "issuer-unknown", f: func(cx *c01Ctx, s *c01Spec) { s.issuer = hex.EncodeToString(c01Bytes(cx.wd.rng, 32)) }},
		{name: "issuer-empty", f: func(cx *c01Ctx, s *c01Spec) { s.issuer = "" }},
		{name: "issuer-short", f: func(cx *c01Ctx, s *c01Spec) { if len(s.issuer) >= 62 {
				s.issuer = s.issuer[:62]
			} }},
		{name: "issuer-twin-ca", p256: true, f: func(cx *c01Ctx, s *c01Spec) {
			if tw := cx.wd.twinOf[cx.ca]; tw != nil {
				s.issuer = tw.fp
			}
		}},
		{name: "issuer-other-ca", f: func(cx *c01Ctx, s *c01Spec) {
			o := cx.wd.cas[(cx.ca.idx+1+cx.wd.rng.IntN(len(cx.wd.cas)-1))%len(cx.wd.cas)]
			s.issuer = o.fp
		}},
		{name: "is-ca", f: func(cx *c01Ctx, s *c01Spec) { s.isCA = true; s.pub = c01NewSignKey(cx.wd.rng, s.curve).pub }},
		{name: "name-empty-v1", f: func(cx *c01Ctx, s *c01Spec) {
			if s.ver == Version1 {
				s.name = ""
			}
		}},
		{name: "name-unicode", f: func(cx *c01Ctx, s *c01Spec) { s.name = "höst-名前-" + s.name }},
	}
	for _, sh := range shapes {
		sh := sh
		mods = append(mods,
			c01Mod{name: "net4-" + sh.name, f: func(cx *c01Ctx, s *c01Spec) {
				if p, ok := sh.f(cx.wd.rng, cx.q4); ok {
					s.nets = put(s.nets, cx.q4, p)
				}
			}},
			c01Mod{name: "net6-" + sh.name, v2: true, f: func(cx *c01Ctx, s *c01Spec) {
				if p, ok := sh.f(cx.wd.rng, cx.q6); ok {
					s.nets = put(s.nets, cx.q6, p)
				}
			}},
			c01Mod{name: "unsafe4-" + sh.name, f: func(cx *c01Ctx, s *c01Spec) {
				if p, ok := sh.f(cx.wd.rng, cx.u4); ok {
					s.unsafe = put(s.unsafe, cx.u4, p)
				}
			}},
			c01Mod{name: "unsafe6-" + sh.name, v2: true, f: func(cx *c01Ctx, s *c01Spec) {
				if p, ok := sh.f(cx.wd.rng, cx.u6); ok {
					s.unsafe = put(s.unsafe, cx.u6, p)
				}
			}},
		)
	}
	return mods
}

var c01Combos = []struct {
	ver   Version
	curve Curve
}{{Version1, Curve_CURVE25519}, {Version1, Curve_P256}, {Version2, Curve_CURVE25519}, {Version2, Curve_P256}}

func c01NewWorld(r *verifkit.Reporter, w int) *c01World {
	rng := verifkit.SubRand("C01world", w)
	wd := &c01World{idx: w, rng: rng, byFP: map[string]*c01CA{}, pools: map[string]*c01Pool{}, r: r, twinOf: map[*c01CA]*c01CA{}, skipped: map[string]int{}}
	wd.t0 = time.Unix(946684800+rng.Int64N(40*365*86400), 0)
	day := 24 * time.Hour
	at := func(d time.Duration) time.Time { return wd.t0.Add(d) }
	pickGroups := func() []string {
		p := rng.Perm(len(c01GroupWords))
		n := 1 + rng.IntN(4)
		var g []string
		for _, i := range p[:n] {
			g = append(g, c01GroupWords[i])
		}
		return g
	}
	nets := func(ver Version) []netip.Prefix {
		l := []netip.Prefix{c01RandNet4(rng)}
		if ver == Version2 {
			l = append(l, c01RandNet6(rng))
		}
		if rng.IntN(3) == 0 {
			l = append(l, c01RandNet4(rng))
		}
		return l
	}
	for _, cb := range c01Combos {
		wd.addCA("open", cb.ver, cb.curve, at(-1000*day), at(1000*day), nil, nil, nil, nil, false)
		nb := at(time.Duration(rng.IntN(50)) * day)
		na := nb.Add(time.Duration(20+rng.IntN(200)) * day)
		wd.addCA("tight", cb.ver, cb.curve, nb, na, pickGroups(), nets(cb.ver), nets(cb.ver), nil, false)
	}
	cb := func(i int) (Version, Curve) { c := c01Combos[(w+i)%4]; return c.ver, c.curve }
	v, c := cb(0)
	wd.addCA("only-groups", v, c, at(-300*day), at(300*day), pickGroups(), nil, nil, nil, false)
	v, c = cb(1)
	wd.addCA("only-nets", v, c, at(-300*day), at(300*day), nil, nets(v), nil, nil, false)
	v, c = cb(2)
	all := []netip.Prefix{netip.MustParsePrefix("0.0.0.0/0")}
	if v == Version2 {
		all = append(all, netip.MustParsePrefix("::/0"))
	}
	wd.addCA("only-unsafe-everything", v, c, at(-300*day), at(300*day), nil, nil, all, nil, false)
	v, c = cb(3)
	wd.addCA("instant-window", v, c, at(7*day), at(7*day), nil, nil, nil, nil, false)
	v, c = cb(w / 4)
	wd.addCA("long-expired", v, c, at(-3000*day), at(-2000*day), nil, nil, nil, nil, false)
	v, c = cb(w/4 + 2)
	wd.addCA("not-yet-valid", v, c, at(2000*day), at(3000*day), nil, nil, nil, nil, false)
	// a P-256 CA that also exists in its high-S form (same key, different fingerprint)
	for _, ca := range slices.Clone(wd.cas) {
		if ca != nil && ca.curve == Curve_P256 && ca.desc == "tight" && (ca.ver == Version1) == (w%2 == 0) {
			if tw := wd.addTwinCA(ca); tw != nil {
				wd.twinOf[ca] = tw
			}
		}
	}
	for i := 0; i < 6; i++ {
		wd.unrel = append(wd.unrel, hex.EncodeToString(c01Bytes(rng, 32)))
	}
	mods := c01Mods()
	for _, ca := range wd.cas {
		if ca == nil {
			continue
		}
		cx := &c01Ctx{wd: wd, ca: ca}
		pick4 := func(l []netip.Prefix) netip.Prefix {
			for _, p := range l {
				if p.Addr().Is4() {
					return p
				}
			}
			return c01RandNet4(rng)
		}
		pick6 := func(l []netip.Prefix) netip.Prefix {
			for _, p := range l {
				if p.Addr().Is6() {
					return p
				}
			}
			return c01RandNet6(rng)
		}
		cx.q4, cx.q6, cx.u4, cx.u6 = pick4(ca.nets), pick6(ca.nets), pick4(ca.unsafe), pick6(ca.unsafe)
		if cx.u4.Bits() == 0 {
			cx.u4 = c01RandNet4(rng)
		}
		if cx.u6.Bits() == 0 {
			cx.u6 = c01RandNet6(rng)
		}
		other := Version1
		if ca.ver == Version1 {
			other = Version2
		}
		for _, m := range mods {
			if m.p256 && ca.curve != Curve_P256 {
				continue
			}
			for _, ver := range []Version{ca.ver, other} {
				if m.v2 && ver != Version2 {
					continue
				}
				if ver == other && rng.IntN(4) != 0 && m.name != "base" {
					continue // cross-version leaves are sampled
				}
				s := cx.base(ver)
				m.f(cx, &s)
				wd.addLeaf(fmt.Sprintf("ca=%s/v%d/%s leaf=v%d %s", ca.desc, ca.ver, ca.curve, ver, m.name), s)
			}
		}
		// random crossings of two to four deviations
		for i := 0; i < 12; i++ {
			ver := ca.ver
			if rng.IntN(4) == 0 {
				ver = other
			}
			s := cx.base(ver)
			var names []string
			for k := 2 + rng.IntN(3); k > 0; k-- {
				m := mods[1+rng.IntN(len(mods)-1)]
				if (m.p256 && ca.curve != Curve_P256) || (m.v2 && ver != Version2) {
					continue
				}
				m.f(cx, &s)
				names = append(names, m.name)
			}
			wd.addLeaf(fmt.Sprintf("ca=%s/v%d/%s leaf=v%d %s", ca.desc, ca.ver, ca.curve, ver, strings.Join(names, "+")), s)
		}
	}
	return wd
}

// ---------------------------------------------------------------------------------------------------------------
// evaluation

func (wd *c01World) timesFor(l *c01Leaf) []time.Time {
	pts := []time.Time{l.spec.nb, l.spec.na}
	if ca := wd.byFP[l.spec.issuer]; ca != nil {
		pts = append(pts, ca.nb, ca.na)
	}
	var out []time.Time
	for _, p := range pts {
		for _, d := range []time.Duration{-time.Second, -time.Nanosecond, 0, time.Nanosecond, time.Second} {
			out = append(out, p.Add(d))
		}
	}
	out = append(out, wd.t0, time.Unix(0, 0), time.Unix(7258118400, 0), time.Time{})
	return out
}

func (wd *c01World) defaultTime(l *c01Leaf) time.Time {
	nb, na := l.spec.nb, l.spec.na
	if na.Before(nb) {
		return nb
	}
	return time.Unix(nb.Unix()+(na.Unix()-nb.Unix())/2, 0)
}

func (wd *c01World) blocklistsFor(l *c01Leaf) [][]string {
	rng := wd.rng
	other := wd.leaves[rng.IntN(len(wd.leaves))].fp
	bls := [][]string{
		nil,
		{l.fp},
		{wd.unrel[0]},
		{wd.unrel[1], other, wd.unrel[2]},
		{wd.unrel[3], l.fp, other},
		{strings.ToUpper(wd.unrel[4])},
	}
	if l.spec.issuer != "" {
		bls = append(bls, []string{l.spec.issuer})
	}
	if l.twinFP != "" {
		bls = append(bls, []string{l.twinFP}, []string{wd.unrel[5], l.twinFP})
	}
	return bls
}

func (wd *c01World) poolsFor(l *c01Leaf) []*c01Pool {
	rng := wd.rng
	n := len(wd.cas)
	ca := wd.byFP[l.spec.issuer]
	rnd := func() int { return rng.IntN(n) }
	var out []*c01Pool
	if ca != nil {
		out = append(out, wd.pool([]int{ca.idx}))
		o1, o2 := (ca.idx+1+rng.IntN(n-1))%n, (ca.idx+1+rng.IntN(n-1))%n
		out = append(out, wd.pool([]int{ca.idx, o1}), wd.pool([]int{ca.idx, o1, o2}), wd.pool([]int{o1}), wd.pool([]int{o1, o2}))
		if tw := wd.twinOf[ca]; tw != nil {
			out = append(out, wd.pool([]int{tw.idx}), wd.pool([]int{tw.idx, ca.idx}))
		}
		for o, tw := range wd.twinOf {
			if tw == ca {
				out = append(out, wd.pool([]int{o.idx}))
			}
		}
	} else {
		out = append(out, wd.pool([]int{rnd()}), wd.pool([]int{rnd(), rnd()}))
	}
	out = append(out, wd.pool(nil))
	allIdx := make([]int, n)
	for i := range allIdx {
		allIdx[i] = i
	}
	out = append(out, wd.pool(allIdx))
	return out
}

func c01SetBlocklist(p *CAPool, bl []string) {
	p.ResetCertBlocklist()
	for _, f := range bl {
		p.BlocklistFingerprint(f)
	}
}

func (wd *c01World) replay(l *c01Leaf, form int, p *c01Pool, bl []string, now time.Time, v c01Vec, got error) any {
	return map[string]any{"world": wd.idx, "leaf": l.desc, "leaf_pem": string(l.pem), "leaf_form": l.fnames[form], "pool_ca_pems": p.pems, "blocklist": bl,
		"time": now.UTC().Format(time.RFC3339Nano), "time_unix_nano": fmt.Sprint(now.Unix(), ".", now.Nanosecond()), "reference_vector": v.String(),
		"reference_accepts": v.accept(), "reference_false_conjuncts": v.falseList(), "real_error": fmt.Sprint(got),
		"leaf_fingerprint": l.fp, "leaf_twin_fingerprint": l.twinFP}
}

func c01ErrClass(err error) string {
	switch {
	case err == nil:
		return "accepted"
	case errors.Is(err, ErrBlockListed):
		return "ErrBlockListed"
	case errors.Is(err, ErrCaNotFound):
		return "ErrCaNotFound"
	case errors.Is(err, ErrCurveMismatch):
		return "ErrCurveMismatch"
	case errors.Is(err, ErrRootExpired):
		return "ErrRootExpired"
	case errors.Is(err, ErrExpired):
		return "ErrExpired"
	case errors.Is(err, ErrSignatureMismatch):
		return "ErrSignatureMismatch"
	case errors.Is(err, ErrFingerprintMismatch):
		return "ErrFingerprintMismatch"
	case strings.Contains(err.Error(), "no issuer"):
		return "no-issuer"
	case strings.Contains(err.Error(), "expires after signing"), strings.Contains(err.Error(), "valid before the signing"):
		return "ca-window"
	case strings.Contains(err.Error(), "group not present"):
		return "ca-groups"
	case strings.Contains(err.Error(), "unsafe network assignment outside"):
		return "ca-unsafe"
	case strings.Contains(err.Error(), "network assignment outside"):
		return "ca-networks"
	}
	return "other"
}

// judge compares one real verdict with the reference; returns false on disagreement.
func (wd *c01World) judge(r *verifkit.Reporter, what string, l *c01Leaf, form int, p *c01Pool, bl []string, now time.Time, v c01Vec, err error) bool {
	want := v.accept()
	if (err == nil) == want {
		return true
	}
	if err == nil {
		f := v.falseList()
		r.Violation("C01/accepted-despite-"+f[0], fmt.Sprintf("%s accepted %s although the rule rejects it (false: %v; vector %s)", what, l.desc, f, v), wd.replay(l, form, p, bl, now, v, err))
	} else {
		r.Violation("C01/rejected-acceptable-"+c01ErrClass(err), fmt.Sprintf("%s rejected %s (%v) although every conjunct of the rule holds", what, l.desc, err), wd.replay(l, form, p, bl, now, v, err))
	}
	return false
}

func (wd *c01World) eval(r, rc *verifkit.Reporter, l *c01Leaf, form int, p *c01Pool, bl []string, now time.Time, edits int, times []time.Time, pools []*c01Pool) {
	form %= len(l.forms)
	v := c01Reference(l, p.members, wd.byFP, bl, now)
	c01SetBlocklist(p.real, bl)
	var cc *CachedCertificate
	var err error
	if r.Guard("C01/panic", func() any { return wd.replay(l, form, p, bl, now, v, nil) }, func() { cc, err = p.real.VerifyCertificate(now, l.forms[form]) }) {
		return
	}
	r.Eval(1)
	r.DistinctClass(fmt.Sprintf("v%d/%s %s", l.spec.ver, l.spec.curve, v))
	r.Count("verdict."+c01ErrClass(err), 1)
	r.Count("form."+l.fnames[form], 1)
	if f := v.falseList(); len(f) == 1 {
		k := f[0]
		if k == "outside-ca-constraints" {
			sub := ""
			if !v.G {
				sub += "g"
			}
			if !v.N {
				sub += "n"
			}
			if !v.U {
				sub += "u"
			}
			if len(sub) == 1 {
				r.Count("single_false."+k+"-"+sub, 1)
			}
		} else {
			r.Count("single_false."+k, 1)
		}
	} else if len(f) == 0 {
		r.Count("all_true", 1)
		if now.Equal(l.spec.na) || now.Equal(l.spec.nb) {
			r.Count("all_true_at_exact_boundary_second", 1)
		}
	} else if len(f) == 2 && f[0] == "ca-not-valid" {
		r.Count("ca_not_valid_with."+f[1], 1)
	}
	if r.WantSample() && l.idx%97 == 3 {
		r.Sample(map[string]any{"leaf": l.desc, "form": l.fnames[form], "pool": p.key, "blocklist": bl, "time": now.UTC().Format(time.RFC3339Nano), "vector": v.String(), "real": c01ErrClass(err)})
	}
	if !wd.judge(r, "VerifyCertificate", l, form, p, bl, now, v, err) || err != nil {
		return
	}
	if cc == nil {
		r.Violation("C01/accepted-without-cached-certificate", "VerifyCertificate returned nil, nil", wd.replay(l, form, p, bl, now, v, err))
		return
	}
	// same trust state, same time
	var cerr error
	if rc.Guard("C01/panic-cached", func() any { return wd.replay(l, form, p, bl, now, v, nil) }, func() { cerr = p.real.VerifyCachedCertificate(now, cc) }) {
		return
	}
	rc.Eval(1)
	rc.DistinctClass(fmt.Sprintf("v%d/%s edit=none cached=%s", l.spec.ver, l.spec.curve, c01ErrClass(cerr)))
	if cerr != nil {
		rc.Violation("C01/cached-differs-same-state", fmt.Sprintf("cached re-check of a just accepted certificate fails: %v (%s)", cerr, l.desc), wd.replay(l, form, p, bl, now, v, cerr))
		return
	}
	if edits == 0 {
		return
	}
	// trust-state edits and time changes; cached == full == reference after each
	rng := wd.rng
	curP, curBL, curT := p, slices.Clone(bl), now
	var trail []string
	for e := 0; e < edits; e++ {
		var name string
		switch k := rng.IntN(10); k {
		case 0:
			name, curBL = "bl+own", append(curBL, l.fp)
		case 1:
			if l.twinFP != "" {
				name, curBL = "bl+twin", append(curBL, l.twinFP)
			} else {
				name, curBL = "bl+unrelated", append(curBL, wd.unrel[rng.IntN(len(wd.unrel))])
			}
		case 2:
			name, curBL = "bl+unrelated", append(curBL, wd.unrel[rng.IntN(len(wd.unrel))])
		case 3:
			name, curBL = "bl+issuer", append(curBL, l.spec.issuer)
		case 4, 5:
			name, curBL = "bl-reset", nil
		case 6, 7:
			name, curP = "pool-swap", pools[rng.IntN(len(pools))]
		default:
			name, curT = "time", times[rng.IntN(len(times))]
		}
		trail = append(trail, name)
		c01SetBlocklist(curP.real, curBL)
		rv := c01Reference(l, curP.members, wd.byFP, curBL, curT)
		var ce, fe error
		rep := func() any {
			m := wd.replay(l, form, curP, curBL, curT, rv, nil).(map[string]any)
			m["accepted_first_under"] = map[string]any{"pool": p.key, "blocklist": bl, "time": now.UTC().Format(time.RFC3339Nano)}
			m["edits"] = slices.Clone(trail)
			m["cached_error"], m["full_error"] = fmt.Sprint(ce), fmt.Sprint(fe)
			return m
		}
		if rc.Guard("C01/panic-cached", rep, func() {
			ce = curP.real.VerifyCachedCertificate(curT, cc)
			_, fe = curP.real.VerifyCertificate(curT, cc.Certificate)
		}) {
			return
		}
		rc.Eval(1)
		rc.DistinctClass(fmt.Sprintf("v%d/%s edit=%s cached=%s full=%s", l.spec.ver, l.spec.curve, name, c01ErrClass(ce), c01ErrClass(fe)))
		rc.Count("after."+name, 1)
		if (ce == nil) != (fe == nil) {
			rc.Violation("C01/cached-differs-from-full", fmt.Sprintf("after %v: cached says %v, full check says %v (%s)", trail, ce, fe, l.desc), rep())
			return
		}
		if (fe == nil) != rv.accept() {
			wd.judge(rc, "VerifyCertificate(after edits)", l, form, curP, curBL, curT, rv, fe)
			return
		}
	}
}

func (wd *c01World) run(r, rc *verifkit.Reporter) {
	rng := wd.rng
	cross := verifkit.Scale(16, 24)
	n := 0
	for _, l := range wd.leaves {
		r.Pre("C01 world %d leaf %d %s\n%s", wd.idx, l.idx, l.desc, l.pem)
		times, bls, pools := wd.timesFor(l), wd.blocklistsFor(l), wd.poolsFor(l)
		dt := wd.defaultTime(l)
		for _, t := range times { // time axis
			n++
			wd.eval(r, rc, l, n, pools[0], nil, t, 0, times, pools)
		}
		for _, bl := range bls { // blocklist axis, also on the last valid instant and one nanosecond later
			for _, t := range []time.Time{dt, l.spec.na, l.spec.na.Add(time.Nanosecond)} {
				n++
				wd.eval(r, rc, l, n, pools[0], bl, t, 0, times, pools)
			}
		}
		for _, p := range pools { // pool axis
			n++
			ed := 0
			if n%3 == 0 {
				ed = 4
			}
			wd.eval(r, rc, l, n, p, nil, dt, ed, times, pools)
		}
		for i := 0; i < cross; i++ { // crossings
			n++
			ed := 0
			if i%4 == 0 {
				ed = 5
			}
			wd.eval(r, rc, l, rng.IntN(3), pools[rng.IntN(len(pools))], bls[rng.IntN(len(bls))], times[rng.IntN(len(times))], ed, times, pools)
		}
	}
}

var c01Required = []string{"blocklisted", "issuer-not-trusted", "curve-mismatch", "cert-not-valid", "bad-signature", "outside-ca-window",
	"outside-ca-constraints-g", "outside-ca-constraints-n", "outside-ca-constraints-u"}

func TestVerifC01Rule(t *testing.T) {
	r := verifkit.NewReporter(t, "C01", "rule",
		"per world (function of seed and world index): 15 CAs (v1/v2 x Ed25519/P-256; unconstrained, fully constrained, constrained on one dimension, zero-length window, long expired, not yet valid, high-S twin CA) and ~1000 leaves, each a base leaf with one named deviation (window / group / network / unsafe-network boundary shapes, wrong key, altered after signing, other curve, low/high-S, unknown/empty/foreign issuer) or 2-4 crossed deviations, built around Sign with generator ground truth and presented in PEM-decoded, in-memory and handshake-recombined form; evaluated along a time axis (every NotBefore/NotAfter of leaf and CA -1s,-1ns,0,+1ns,+1s), a blocklist axis (own, twin, issuer, unrelated, mixed) and a pool axis (issuer alone / with others / absent / twin CA / empty / all), plus PRNG crossings; distinct = distinct (leaf version, curve, truth vector of the 8 conjuncts [+ which of groups/networks/unsafe failed]) classes")
	defer r.Done()
	rc := verifkit.NewReporter(t, "C01", "cached",
		"for accepted full checks: VerifyCachedCertificate on the same pool/blocklist/time, then sequences of trust-state edits (blocklist add own/twin/issuer/unrelated, blocklist reset, pool swap) and time changes with cached == full == reference after each edit; distinct = (version, curve, edit kind, cached verdict, full verdict) classes")
	defer rc.Done()
	worlds := verifkit.Scale(4, 64)
	skipped := map[string]int{}
	nLeaves, nCAs, nPools := 0, 0, 0
	for w := 0; w < worlds; w++ {
		if !verifkit.Mine(w) {
			continue
		}
		wd := c01NewWorld(r, w)
		if len(wd.leaves) == 0 || len(wd.cas) < 2 {
			r.Inconclusive("harness: empty world")
			continue
		}
		wd.run(r, rc)
		for k, v := range wd.skipped {
			skipped[k] += v
		}
		nLeaves += len(wd.leaves)
		nCAs += len(wd.cas)
		nPools += len(wd.pools)
		if r.NViolations()+rc.NViolations() > 12 {
			break
		}
	}
	// nil certificate must be refused without a panic
	r.Guard("C01/panic", func() any { return "VerifyCertificate(now, nil)" }, func() {
		if cc, err := NewCAPool().VerifyCertificate(time.Unix(1, 0), nil); err == nil || cc != nil {
			r.Violation("C01/accepted-nil", "nil certificate accepted", nil)
		}
		r.Eval(1)
	})
	r.Count("leaves", nLeaves)
	r.Count("cas", nCAs)
	r.Count("pools", nPools)
	for k, v := range skipped {
		r.Count("generator."+k, v)
	}
	var missing []string
	for _, k := range c01Required {
		if r.Counter("single_false."+k) == 0 {
			missing = append(missing, k)
		}
	}
	for _, k := range []string{"ca_not_valid_with.cert-not-valid", "ca_not_valid_with.outside-ca-window", "all_true", "all_true_at_exact_boundary_second"} {
		if r.Counter(k) == 0 {
			missing = append(missing, k)
		}
	}
	r.Info("single_conjunct_false_vectors_required", c01Required)
	r.Info("note_ca_not_valid", "'CA not valid at t' cannot be the only false conjunct (a leaf valid at t inside the CA window implies the CA is valid at t); it is required together with cert-not-valid and together with outside-ca-window")
	r.Info("validity_interval", "reference treats NotBefore <= t <= NotAfter as valid (both ends inclusive)")
	if len(missing) > 0 {
		r.Inconclusive(fmt.Sprintf("required truth vectors never observed: %v", missing))
	}
}
