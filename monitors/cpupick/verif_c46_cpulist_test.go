//go:build linux

package cpupick

// C46, second sentence — "CPU list parsing accepts exactly the kernel's cpulist syntax".
//
// Reference grammar = what sysfs emits for a CPU mask (lib/bitmap.c, "%*pbl" + newline):
//
//	cpulist := "" | item ("," item)*        followed by an optional single "\n"
//	item    := number | number "-" number    (range ascending: lo <= hi)
//	number  := "0" | [1-9][0-9]*             (decimal, ASCII digits)
//
// A string of the grammar must be accepted and denote exactly the CPUs it names. A string outside
// the grammar must be refused: signs ("+3"), empty range ends ("3-", "-3"), descending ranges,
// hex, other characters. NOT judged (recorded only): white space other than the final newline,
// the kernel's input-only forms (":used/group" suffix, "N", "all", empty items such as "1,,2"),
// numbers that do not fit a CPU id (more than 4 digits / above 8191 — resource limits). Leading
// zeros ("007") are judged only for the value when accepted.

import (
	"fmt"
	"math/rand/v2"
	"slices"
	"sort"
	"strconv"
	"strings"
	"testing"
	"unicode"

	"github.com/slackhq/nebula/verifkit"
)

const c46MaxCPU = 8191

// c46Number parses the strict number syntax.
func c46Number(s string) (int, bool) {
	if s == "" || len(s) > 4 {
		return 0, false
	}
	v := 0
	for i := 0; i < len(s); i++ {
		if s[i] < '0' || s[i] > '9' {
			return 0, false
		}
		v = v*10 + int(s[i]-'0')
	}
	if len(s) > 1 && s[0] == '0' {
		return 0, false
	}
	return v, v <= c46MaxCPU
}

func c46AllIn(s, set string) bool {
	for i := 0; i < len(s); i++ {
		if !strings.Contains(set, s[i:i+1]) {
			return false
		}
	}
	return true
}

// c46Classify returns the class of s and, for class "valid", the set of CPUs it denotes.
// Classes: valid | sign | malformed-range | descending | hex | garbage (all must be refused except
// valid) and the unjudged ones: whitespace, group-suffix, kernel-keyword, empty-item, oversize,
// leading-zero.
func c46Classify(s string) (string, []int) {
	s = strings.TrimSuffix(s, "\n")
	for _, r := range s {
		if unicode.IsSpace(r) {
			return "whitespace", nil
		}
	}
	if s == "" {
		return "valid", nil
	}
	items := strings.Split(s, ",")
	worst, rank := "valid", 0
	set := map[int]bool{}
	note := func(class string) {
		order := map[string]int{"valid": 0, "leading-zero": 1, "garbage": 2, "hex": 3, "descending": 4, "malformed-range": 5, "sign": 6,
			"oversize": 7, "kernel-keyword": 8, "group-suffix": 9, "empty-item": 10}
		if order[class] > rank {
			worst, rank = class, order[class]
		}
	}
	for _, it := range items {
		switch {
		case it == "":
			note("empty-item")
		case strings.ContainsAny(it, ":/"):
			// a-b:used/group with strict numbers
			head, tail, _ := strings.Cut(it, ":")
			used, group, ok := strings.Cut(tail, "/")
			lo, hi, isRange := strings.Cut(head, "-")
			_, ok1 := c46Number(lo)
			_, ok2 := c46Number(hi)
			_, ok3 := c46Number(used)
			_, ok4 := c46Number(group)
			if ok && isRange && ok1 && ok2 && ok3 && ok4 {
				note("group-suffix")
			} else {
				note("garbage")
			}
		case it == "all" || it == "N" || strings.HasSuffix(it, "-N") && c46AllIn(strings.TrimSuffix(it, "-N"), "0123456789"):
			note("kernel-keyword")
		case strings.Contains(it, "+"):
			note("sign")
		case !c46AllIn(it, "0123456789-"):
			if c46AllIn(it, "0123456789-abcdefABCDEFxXh") {
				note("hex")
			} else {
				note("garbage")
			}
		default: // digits and dashes only
			lo, hi, isRange := strings.Cut(it, "-")
			if isRange && lo != "" && len(hi) > 1 && hi[0] == '-' && !strings.Contains(hi[1:], "-") {
				note("sign") // "a--b": the upper end carries a minus sign
				continue
			}
			if isRange && (lo == "" || hi == "" || strings.Contains(hi, "-")) {
				note("malformed-range")
				continue
			}
			parts := []string{lo}
			if isRange {
				parts = append(parts, hi)
			}
			vals := make([]int, len(parts))
			bad := ""
			for i, p := range parts {
				v, ok := c46Number(p)
				if !ok {
					t := strings.TrimLeft(p, "0")
					if len(t) > 4 {
						bad = "oversize"
					} else if v2, err := strconv.Atoi(p); err == nil && v2 > c46MaxCPU {
						bad = "oversize"
					} else if bad == "" {
						bad = "leading-zero"
					}
					v, _ = strconv.Atoi(p)
				}
				vals[i] = v
			}
			if bad != "" {
				note(bad)
			}
			if isRange && vals[0] > vals[1] {
				if bad == "" {
					note("descending")
				}
				continue
			}
			if bad == "oversize" {
				continue
			}
			for v := vals[0]; v <= vals[len(vals)-1]; v++ {
				set[v] = true
			}
		}
	}
	if worst != "valid" && worst != "leading-zero" {
		return worst, nil
	}
	out := make([]int, 0, len(set))
	for v := range set {
		out = append(out, v)
	}
	sort.Ints(out)
	return worst, out
}

var c46RefuseKey = map[string]string{
	"sign":            "C46/cpulist-accepts-sign",
	"malformed-range": "C46/cpulist-accepts-malformed-range",
	"descending":      "C46/cpulist-accepts-descending-range",
	"hex":             "C46/cpulist-accepts-hex",
	"garbage":         "C46/cpulist-accepts-garbage",
}

// c46JudgeList runs the real parser on s and judges it. label is the generator's intent (evidence only).
func c46JudgeList(r *verifkit.Reporter, s, label string) {
	class, want := c46Classify(s)
	var got []int
	var err error
	r.Pre("cpulist %q", s)
	if r.Guard("C46/cpulist-panic", func() any { return map[string]any{"input": s} }, func() { got, err = parseCPUList(s) }) {
		return
	}
	r.Eval(1)
	accepted := err == nil
	r.Distinct("L" + s)
	r.DistinctClass(fmt.Sprintf("cpulist class=%s accepted=%v", class, accepted))
	gotSet := slices.Clone(got)
	sort.Ints(gotSet)
	gotSet = slices.Compact(gotSet)
	rec := map[string]any{"input": s, "class": class, "generator_label": label, "accepted": accepted, "result": got, "reference_set": want, "error": fmt.Sprint(err)}
	switch class {
	case "valid":
		r.Count("valid_strings", 1)
		if !accepted {
			r.Violation("C46/cpulist-refuses-valid", fmt.Sprintf("parseCPUList(%q) refused a list of the sysfs grammar: %v", s, err), rec)
		} else if !slices.Equal(gotSet, want) && !(len(gotSet) == 0 && len(want) == 0) {
			r.Violation("C46/cpulist-wrong-value", fmt.Sprintf("parseCPUList(%q) = %v, the list denotes %v", s, got, want), rec)
		}
	case "leading-zero":
		r.Count("unjudged_leading-zero_accepted="+strconv.FormatBool(accepted), 1)
		if accepted && !slices.Equal(gotSet, want) {
			r.Violation("C46/cpulist-wrong-value", fmt.Sprintf("parseCPUList(%q) = %v, read as decimal it denotes %v", s, got, want), rec)
		}
	case "sign", "malformed-range", "descending", "hex", "garbage":
		r.Count("must_refuse_"+class, 1)
		if accepted {
			r.Violation(c46RefuseKey[class], fmt.Sprintf("parseCPUList(%q) accepted a string outside the cpulist syntax (%s) as %v", s, class, got), rec)
		}
	default:
		r.Count("unjudged_"+class+"_accepted="+strconv.FormatBool(accepted), 1)
	}
	if r.WantSample() && len(s) > 3 {
		r.Sample(rec)
	}
}

func c46GenValidList(rng *rand.Rand) string {
	n := 1 + rng.IntN(5)
	items := make([]string, n)
	for i := range items {
		hiBound := []int{8, 64, 256, 1024, c46MaxCPU + 1}[rng.IntN(5)]
		a := rng.IntN(hiBound)
		if rng.IntN(2) == 0 {
			items[i] = strconv.Itoa(a)
		} else {
			b := min(c46MaxCPU, a+rng.IntN(40))
			if rng.IntN(10) == 0 {
				b = a
			}
			items[i] = fmt.Sprintf("%d-%d", a, b)
		}
	}
	return strings.Join(items, ",")
}

// c46Defect applies exactly one defect of the named kind to one item of a valid list.
func c46Defect(rng *rand.Rand, list, kind string) string {
	items := strings.Split(list, ",")
	i := rng.IntN(len(items))
	lo, hi, isRange := strings.Cut(items[i], "-")
	if !isRange {
		hi = strconv.Itoa(min(c46MaxCPU, 1+rng.IntN(300)))
		if v, _ := strconv.Atoi(lo); v > 0 && rng.IntN(2) == 0 {
			hi = strconv.Itoa(min(c46MaxCPU, v+1+rng.IntN(9)))
		}
	}
	a, _ := strconv.Atoi(lo)
	pickS := func(xs ...string) string { return xs[rng.IntN(len(xs))] }
	switch kind {
	case "sign-plus":
		items[i] = pickS("+"+lo, "+"+lo+"-"+hi, lo+"-+"+hi, "+"+lo+"-+"+hi, "+0")
	case "sign-minus":
		items[i] = pickS("-"+lo, lo+"--"+hi, "-"+lo+"-"+hi, "-"+lo+"--"+hi)
	case "empty-end":
		items[i] = pickS(lo+"-", "-"+hi, "-", lo+"-"+hi+"-", "--")
	case "descending":
		b := a + 1 + rng.IntN(50)
		items[i] = fmt.Sprintf("%d-%d", b, a)
	case "hex":
		items[i] = pickS("0x"+lo, lo+"f", "a", "0X1F", fmt.Sprintf("%x", 10+rng.IntN(245)), lo+"-0x"+hi, "ff-"+hi, lo+"h", "0b1", "a-f", fmt.Sprintf("%X", 0xA0+rng.IntN(90)))
	case "multi-dash":
		items[i] = lo + "-" + hi + "-" + strconv.Itoa(rng.IntN(100))
	case "garbage":
		items[i] = pickS(lo+";"+hi, lo+".."+hi, lo+"~"+hi, lo+"_"+hi, "1e3", lo+".0", "٣", "３", lo+"\x00", "cpu"+lo, lo+"..", "*", lo+"|"+hi, "0o7", "１２", lo+"–"+hi, "'"+lo+"'", "["+lo+"]", lo+"&"+hi)
	case "whitespace":
		items[i] = pickS(" "+items[i], items[i]+" ", "\t"+items[i], lo+" - "+hi, lo+" -"+hi, lo+" "+hi, items[i]+"\n", items[i]+"\r", "\n"+items[i], items[i]+" ")
	case "group":
		items[i] = fmt.Sprintf("%s-%s:%d/%d", lo, hi, 1+rng.IntN(4), 2+rng.IntN(8))
	case "keyword":
		items[i] = pickS("all", "N", lo+"-N")
	case "empty-item":
		items[i] = pickS(","+items[i], items[i]+",", "")
	case "leading-zero":
		items[i] = pickS("0"+lo, "00"+lo, lo+"-0"+hi, "0"+lo+"-0"+hi)
	case "oversize":
		items[i] = pickS("99999", "4294967296", "18446744073709551616", "0-100000", lo+"-99999", "9223372036854775807", "0-9223372036854775807", "8192", "0-8192", "2147483648")
	}
	return strings.Join(items, ",")
}

func TestVerifC46CPUList(t *testing.T) {
	t.Parallel() // independent units, each with its own reporter
	r := verifkit.NewReporter(t, "C46", "cpulist",
		"(a) every string of length <=5 over the alphabet {0,1,3,9,',','-','+','x','a',' ','\\n'}; (b) PRNG lists of the sysfs grammar (1-5 items, numbers up to 8191, ranges, optional final newline), each also with exactly one defect of a named kind (plus sign, minus sign, empty range end, descending range, hex, second dash, other characters) and, unjudged, white space / ':used/group' / N,all / empty items / leading zeros / oversize numbers; distinct = distinct strings plus (class, verdict) classes")
	defer r.Done()
	// named witnesses first, so that the replay file of a class holds the shortest one
	for _, s := range []string{"", "\n", "0", "0\n", "0-0", "8191", "0-8191", "0-3,8-11\n", "+3", "3-+5", "+0", "-3", "3-", "5-3", "0x10", "1f", "1-2-3", "0--0"} {
		c46JudgeList(r, s, "table")
	}
	// (a) exhaustive short strings
	alpha := "0139,-+xa \n"
	maxLen := verifkit.Scale(5, 6)
	buf := make([]byte, 0, maxLen)
	idx := 0
	var rec func()
	rec = func() {
		if verifkit.Mine(idx) {
			c46JudgeList(r, string(buf), "exhaustive")
		}
		idx++
		if len(buf) == maxLen {
			return
		}
		for i := 0; i < len(alpha); i++ {
			buf = append(buf, alpha[i])
			rec()
			buf = buf[:len(buf)-1]
		}
	}
	rec()
	r.Exhaustive(fmt.Sprintf("all %d strings of length <=%d over %q", idx, maxLen, alpha))
	// (b) structured PRNG strings
	kinds := []string{"sign-plus", "sign-minus", "empty-end", "descending", "hex", "multi-dash", "garbage", "whitespace", "group", "keyword", "empty-item", "leading-zero", "oversize"}
	n := verifkit.Scale(60_000, 6_000_000)
	for i := 0; i < n; i++ {
		if !verifkit.Mine(i) {
			continue
		}
		rng := verifkit.SubRand("C46cpulist", i)
		base := c46GenValidList(rng)
		nl := ""
		if rng.IntN(2) == 0 {
			nl = "\n"
		}
		c46JudgeList(r, base+nl, "valid")
		k1 := kinds[rng.IntN(len(kinds))]
		c46JudgeList(r, c46Defect(rng, base, k1)+nl, k1)
		k2 := kinds[rng.IntN(7)] // a judged defect every time
		c46JudgeList(r, c46Defect(rng, base, k2)+nl, k2)
		if r.NViolations() > 12 {
			break
		}
	}
}
