//go:build linux

package cpupick

// C46 — CPU pinning choices are valid and stable.
//
// Statement: the default pin list contains only allowed CPUs, has no duplicates, contains every
// candidate of the chosen NUMA node (or all candidates when none is large enough), lists CPU 0's
// physical core last with CPU 0 itself at the very end, and is the same for the same instance key
// and topology. CPU list parsing accepts exactly the kernel's cpulist syntax.
//
// The monitor generates a machine (ground truth: NUMA node, package and physical core of every
// logical CPU), an allowed set, a performance filter, a routine count and an instance key, runs
// the real pickCandidates/arrange (directly, and through the real sysfs readers on a generated
// sysfs tree) and judges the returned list against the ground truth only.
// "Candidates" = the performance-filtered set when it has at least one CPU per routine, else the
// allowed set (package documentation of Default).

import (
	"fmt"
	"hash/fnv"
	"math"
	"math/rand/v2"
	"os"
	"path/filepath"
	"slices"
	"sort"
	"strconv"
	"strings"
	"testing"

	"github.com/slackhq/nebula/util"
	"github.com/slackhq/nebula/verifkit"
)

// ---------------------------------------------------------------------------------------------
// machine generator (ground truth)

type c46Machine struct {
	ids   []int       // logical CPU ids, ascending, ids[0] == 0
	node  map[int]int // cpu -> NUMA node
	pkg   map[int]int // cpu -> physical_package_id
	cid   map[int]int // cpu -> core_id (unique only within a package)
	core  map[int]int // cpu -> global physical core number (ground truth)
	nodes int
	smt   int
	desc  string
}

func c46GenMachine(rng *rand.Rand) *c46Machine {
	m := &c46Machine{node: map[int]int{}, pkg: map[int]int{}, cid: map[int]int{}, core: map[int]int{}}
	m.nodes = 1 + rng.IntN(4)
	m.smt = 1 + rng.IntN(4)
	hetero := rng.IntN(5) == 0 // some cores without SMT siblings (hybrid parts)
	uniform := rng.IntN(10) < 7
	base := 1 + rng.IntN(6)
	pkgMode := rng.IntN(3) // 0: package per node, 1: two nodes per package, 2: one package
	type thread struct{ node, coreInNode, core, thr int }
	var threads []thread
	gcore := 0
	for n := 0; n < m.nodes; n++ {
		k := base
		if !uniform {
			k = 1 + rng.IntN(6)
		}
		for c := 0; c < k; c++ {
			s := m.smt
			if hetero && rng.IntN(2) == 0 {
				s = 1
			}
			for t := 0; t < s; t++ {
				threads = append(threads, thread{n, c, gcore, t})
			}
			gcore++
		}
	}
	scheme := rng.IntN(4)
	switch scheme {
	case 0: // siblings adjacent
		sort.SliceStable(threads, func(i, j int) bool {
			a, b := threads[i], threads[j]
			return a.node < b.node || a.node == b.node && (a.core < b.core || a.core == b.core && a.thr < b.thr)
		})
	case 1: // all first threads, then all second threads (sibling = cpu + ncores)
		sort.SliceStable(threads, func(i, j int) bool {
			a, b := threads[i], threads[j]
			return a.thr < b.thr || a.thr == b.thr && (a.node < b.node || a.node == b.node && a.core < b.core)
		})
	case 2: // nodes interleaved
		sort.SliceStable(threads, func(i, j int) bool {
			a, b := threads[i], threads[j]
			if a.thr != b.thr {
				return a.thr < b.thr
			}
			if a.coreInNode != b.coreInNode {
				return a.coreInNode < b.coreInNode
			}
			return a.node < b.node
		})
	default:
		rng.Shuffle(len(threads), func(i, j int) { threads[i], threads[j] = threads[j], threads[i] })
	}
	holes := rng.IntN(4) == 0 // offline CPUs leave gaps in the numbering
	id := 0
	coreIDInPkg := map[[2]int]int{} // (pkg, global core) -> core_id
	nextInPkg := map[int]int{}
	for i, th := range threads {
		if i > 0 {
			id++
			if holes && rng.IntN(4) == 0 {
				id += 1 + rng.IntN(3)
			}
		}
		p := th.node
		switch pkgMode {
		case 1:
			p = th.node / 2
		case 2:
			p = 0
		}
		k := [2]int{p, th.core}
		if _, ok := coreIDInPkg[k]; !ok {
			coreIDInPkg[k] = nextInPkg[p]
			nextInPkg[p]++
			if rng.IntN(8) == 0 {
				nextInPkg[p] += rng.IntN(3) // core ids need not be dense
			}
		}
		m.ids = append(m.ids, id)
		m.node[id], m.pkg[id], m.cid[id], m.core[id] = th.node, p, coreIDInPkg[k], th.core
	}
	m.desc = fmt.Sprintf("nodes=%d smt=%d hetero=%v scheme=%d pkgmode=%d holes=%v cpus=%d", m.nodes, m.smt, hetero, scheme, pkgMode, holes, len(m.ids))
	return m
}

func (m *c46Machine) zeroCoreCPUs() []int {
	var out []int
	for _, c := range m.ids {
		if m.core[c] == m.core[0] {
			out = append(out, c)
		}
	}
	return out
}

func c46GenAllowed(rng *rand.Rand, m *c46Machine) ([]int, string) {
	var out []int
	kind := ""
	switch k := rng.IntN(16); {
	case k < 4:
		kind = "all"
		out = slices.Clone(m.ids)
	case k < 7:
		kind = "random-subset"
		p := []int{3, 6, 9}[rng.IntN(3)]
		for _, c := range m.ids {
			if rng.IntN(10) < p {
				out = append(out, c)
			}
		}
	case k < 9:
		kind = "one-node"
		n := rng.IntN(m.nodes)
		for _, c := range m.ids {
			if m.node[c] == n {
				out = append(out, c)
			}
		}
	case k < 11:
		kind = "all-but-cpu0"
		out = slices.Clone(m.ids[1:])
	case k < 12:
		kind = "only-cpu0"
		out = []int{0}
	case k < 13:
		kind = "only-cpu0-core"
		out = m.zeroCoreCPUs()
	case k < 14:
		kind = "all-but-cpu0-core"
		for _, c := range m.ids {
			if m.core[c] != m.core[0] {
				out = append(out, c)
			}
		}
	case k < 15:
		kind = "one-thread-per-core"
		seen := map[int]bool{}
		for _, c := range m.ids {
			if !seen[m.core[c]] {
				seen[m.core[c]] = true
				out = append(out, c)
			}
		}
	default:
		kind = "cpu0-sibling-without-cpu0"
		for _, c := range m.ids {
			if c != 0 && (m.core[c] == m.core[0] || rng.IntN(2) == 0) {
				out = append(out, c)
			}
		}
	}
	if len(out) == 0 {
		kind = "fallback-all"
		out = slices.Clone(m.ids)
	}
	return out, kind
}

func c46GenPerf(rng *rand.Rand, m *c46Machine, allowed []int) ([]int, string) {
	switch k := rng.IntN(10); {
	case k < 3:
		return slices.Clone(allowed), "none"
	case k < 6:
		var out []int
		for _, c := range allowed {
			if rng.IntN(2) == 0 {
				out = append(out, c)
			}
		}
		if len(out) == 0 {
			out = []int{allowed[rng.IntN(len(allowed))]}
		}
		return out, "random-subset"
	case k < 8: // whole cores are "performance" cores
		fast := map[int]bool{}
		for _, c := range allowed {
			if _, ok := fast[m.core[c]]; !ok {
				fast[m.core[c]] = rng.IntN(2) == 0
			}
		}
		var out []int
		for _, c := range allowed {
			if fast[m.core[c]] {
				out = append(out, c)
			}
		}
		if len(out) == 0 {
			out = []int{allowed[0]}
		}
		return out, "whole-cores"
	case k < 9:
		return []int{allowed[rng.IntN(len(allowed))]}, "single"
	default: // everything except CPU 0's core is fast
		var out []int
		for _, c := range allowed {
			if m.core[c] != m.core[0] {
				out = append(out, c)
			}
		}
		if len(out) == 0 {
			out = slices.Clone(allowed)
		}
		return out, "not-cpu0-core"
	}
}

func c46GenRoutines(rng *rand.Rand, m *c46Machine, allowed []int) int {
	switch rng.IntN(8) {
	case 0:
		return 1
	case 1:
		return len(allowed)
	case 2:
		return len(allowed) + 1 + rng.IntN(3)
	case 3: // exactly the size of one node's share
		n := rng.IntN(m.nodes)
		k := 0
		for _, c := range allowed {
			if m.node[c] == n {
				k++
			}
		}
		return max(1, k+rng.IntN(3)-1)
	}
	return 1 + rng.IntN(max(1, len(allowed)))
}

func c46GenKey(rng *rand.Rand) uint64 {
	switch rng.IntN(6) {
	case 0:
		return uint64(4242 + rng.IntN(8))
	case 1:
		return uint64(rng.IntN(65536))
	case 2:
		return []uint64{0, 1, math.MaxUint64, math.MaxUint64 - 1, 1 << 32, 1<<32 - 1, 1 << 63}[rng.IntN(7)]
	}
	return rng.Uint64()
}

// c46GenHidden picks the CPUs whose core topology the code cannot read (CPU 0 in half of the draws).
func c46GenHidden(rng *rand.Rand, allowed []int) map[int]bool {
	h := map[int]bool{}
	if rng.IntN(2) == 0 {
		h[0] = true
	}
	p := []int{0, 2, 5}[rng.IntN(3)]
	for _, c := range allowed {
		if c != 0 && rng.IntN(10) < p {
			h[c] = true
		}
	}
	return h
}

// c46Topology builds the topology value handed to arrange from the ground truth, with core group
// labels chosen by labelSeed (labels are arbitrary: only equality is meaningful).
func c46Topology(m *c46Machine, cands []int, labelSeed uint64, hidden map[int]bool) topology {
	t := topology{nodeOf: map[int]int{}, coreOf: map[int]int{}, zeroCore: -1}
	lr := rand.New(rand.NewPCG(labelSeed, 46))
	labels := lr.Perm(2*len(m.ids) + 8)
	for i, c := range cands {
		t.nodeOf[c] = m.node[c]
		if hidden[c] { // what coreGroups does for a CPU whose topology files cannot be read: a group of its own
			t.coreOf[c] = labels[len(m.ids)+i]
			continue
		}
		t.coreOf[c] = labels[m.core[c]]
		if m.core[c] == m.core[0] && !hidden[0] {
			t.zeroCore = labels[m.core[0]]
		}
	}
	return t
}

// ---------------------------------------------------------------------------------------------
// oracle

type c46Case struct {
	m        *c46Machine
	flat     bool // topology unknown to the code: every CPU is its own core on node 0
	hidden   map[int]bool // CPUs whose core topology is unreadable: the code must treat each as a core of its own (CPU 0 included)
	allowed  []int
	perf     []int
	routines int
	key      uint64
	mode     string
	aKind    string
	pKind    string
}

func (c *c46Case) nodeOf(cpu int) int {
	if c.flat {
		return 0
	}
	return c.m.node[cpu]
}

func (c *c46Case) coreOf(cpu int) int {
	if c.flat {
		return cpu
	}
	if c.hidden[cpu] {
		return -1000 - cpu
	}
	return c.m.core[cpu]
}

func (c *c46Case) record(out []int) map[string]any {
	rec := map[string]any{"mode": c.mode, "machine": c.m.desc, "flat_topology": c.flat, "allowed": c.allowed, "perf": c.perf, "routines": c.routines, "key": c.key, "out": out,
		"allowed_kind": c.aKind, "perf_kind": c.pKind}
	nodes, cores := map[string]int{}, map[string]int{}
	for _, cpu := range c.allowed {
		nodes[strconv.Itoa(cpu)] = c.nodeOf(cpu)
		cores[strconv.Itoa(cpu)] = c.coreOf(cpu)
	}
	rec["node_of"], rec["core_of"], rec["cpu0_core"] = nodes, cores, c.coreOf(0)
	var hid []int
	for cpu := range c.hidden {
		hid = append(hid, cpu)
	}
	sort.Ints(hid)
	rec["topology_unreadable"] = hid
	return rec
}

func c46Set(xs []int) map[int]bool {
	s := make(map[int]bool, len(xs))
	for _, x := range xs {
		s[x] = true
	}
	return s
}

// c46Check judges one returned pin list against the statement.
func c46Check(r *verifkit.Reporter, c *c46Case, out []int) {
	r.Eval(1)
	viol := func(key, what string) {
		r.Violation(key, fmt.Sprintf("%s [%s; allowed=%v perf=%v routines=%d key=%d] out=%v", what, c.m.desc, c.allowed, c.perf, c.routines, c.key, out), c.record(out))
	}
	allowedSet := c46Set(c.allowed)
	cands := c.allowed
	perfUsed := len(c.perf) >= c.routines
	if perfUsed {
		cands = c.perf
	}
	candSet := c46Set(cands)
	outSet := map[int]bool{}
	for _, cpu := range out {
		if !allowedSet[cpu] {
			viol("C46/not-allowed", fmt.Sprintf("CPU %d is not in the allowed set", cpu))
			return
		}
		if !candSet[cpu] {
			viol("C46/not-candidate", fmt.Sprintf("CPU %d is allowed but not a candidate (performance filter kept %d >= %d routines)", cpu, len(c.perf), c.routines))
			return
		}
		if outSet[cpu] {
			viol("C46/duplicate", fmt.Sprintf("CPU %d listed twice", cpu))
			return
		}
		outSet[cpu] = true
	}
	// NUMA rule
	byNode := map[int][]int{}
	for _, cpu := range cands {
		byNode[c.nodeOf(cpu)] = append(byNode[c.nodeOf(cpu)], cpu)
	}
	var big []int
	for n, l := range byNode {
		if len(l) >= c.routines {
			big = append(big, n)
		}
	}
	sort.Ints(big)
	nodeRule := "span"
	if len(big) == 0 {
		for _, cpu := range cands {
			if !outSet[cpu] {
				viol("C46/candidates-missing", fmt.Sprintf("no NUMA node holds %d candidates, yet candidate CPU %d is missing", c.routines, cpu))
				return
			}
		}
	} else {
		nodeRule = "confined"
		chosen := -1
		for _, n := range big {
			all := true
			for _, cpu := range byNode[n] {
				if !outSet[cpu] {
					all = false
					break
				}
			}
			if all {
				chosen = n
				break
			}
		}
		if chosen < 0 {
			viol("C46/node-candidates-missing", fmt.Sprintf("NUMA nodes %v each hold >= %d candidates but the list contains all candidates of none of them", big, c.routines))
			return
		}
		for _, cpu := range out {
			if c.nodeOf(cpu) != chosen {
				viol("C46/not-confined-to-node", fmt.Sprintf("list holds all of node %d (large enough) but also CPU %d of node %d", chosen, cpu, c.nodeOf(cpu)))
				return
			}
		}
		if len(big) > 1 {
			r.Count("node_choice_available", 1)
		}
	}
	// CPU 0's physical core last, CPU 0 itself at the very end
	nz := 0
	for _, cpu := range out {
		if c.coreOf(cpu) == c.coreOf(0) {
			nz++
		}
	}
	for i, cpu := range out {
		inTail := i >= len(out)-nz
		if (c.coreOf(cpu) == c.coreOf(0)) != inTail {
			viol("C46/zero-core-not-last", fmt.Sprintf("CPU %d at position %d: CPU 0's physical core (%d CPUs in the list) must occupy exactly the last %d positions", cpu, i, nz, nz))
			return
		}
	}
	if outSet[0] && out[len(out)-1] != 0 {
		viol("C46/zero-not-at-end", "CPU 0 is in the list but not its last entry")
		return
	}
	zeroClass := "absent"
	switch {
	case outSet[0] && nz == len(out):
		zeroClass = "only-zero-core"
	case outSet[0] && nz > 1:
		zeroClass = "zero+siblings"
	case outSet[0]:
		zeroClass = "zero"
	case nz > 0:
		zeroClass = "siblings-only"
	}
	// not judged (not in the statement): one thread per physical core before any sibling
	pref := out[:len(out)-nz]
	cores := map[int]bool{}
	for _, cpu := range pref {
		cores[c.coreOf(cpu)] = true
	}
	spread := true
	seen := map[int]bool{}
	for i, cpu := range pref {
		if i < len(cores) {
			if seen[c.coreOf(cpu)] {
				spread = false
			}
			seen[c.coreOf(cpu)] = true
		}
	}
	if spread {
		r.Count("smt_spread_observed(not judged)", 1)
	} else {
		r.Count("smt_spread_not_observed(not judged)", 1)
	}
	perfClass := "perf-none"
	if len(c.perf) != len(c.allowed) {
		perfClass = "perf-discarded"
		if perfUsed {
			perfClass = "perf-used"
		}
	}
	rel := "r<=cands"
	if c.routines > len(cands) {
		rel = "r>cands"
	}
	hid := "topo-readable"
	switch {
	case c.hidden[0] && outSet[0]:
		hid = "cpu0-topology-unreadable"
		r.Count("lists_with_cpu0_of_unknown_core", 1)
	case len(c.hidden) > 0:
		hid = "some-topology-unreadable"
	}
	r.DistinctClass(fmt.Sprintf("%s nodes=%d smt=%d flat=%v %s %s zero=%s %s %s", c.mode, c.m.nodes, c.m.smt, c.flat, perfClass, nodeRule, zeroClass, rel, hid))
	h := fnv.New64a()
	fmt.Fprintf(h, "%s|%v|%v|%v|%d|%d|%v", c.m.desc, c.m.ids, c.allowed, c.perf, c.routines, c.key, c.flat)
	for _, cpu := range c.allowed {
		fmt.Fprintf(h, ",%d:%d", c.nodeOf(cpu), c.coreOf(cpu))
	}
	r.DistinctU64(h.Sum64())
	r.Count("lists_checked", 1)
	r.Count("zero_"+zeroClass, 1)
	r.Count("numa_"+nodeRule, 1)
	r.Count(perfClass, 1)
}

func TestVerifC46Arrange(t *testing.T) {
	t.Parallel() // independent units, each with its own reporter
	r := verifkit.NewReporter(t, "C46", "arrange",
		"generated machines (1-4 NUMA nodes, 1-6 cores per node, SMT 1-4 or mixed, four CPU numbering schemes, gaps, package = node / two nodes / whole machine) x allowed sets (all, subsets, one node, without CPU 0, only CPU 0, only/without CPU 0's core, siblings of CPU 0 without it) x performance filters x routine counts x instance keys; the real pickCandidates+arrange run on the ground-truth topology (or flatTopology) and the list is judged against the ground truth; repeated with relabelled core groups for determinism; distinct = distinct (machine, allowed, perf, routines, key) tuples plus coverage classes")
	defer r.Done()
	n := verifkit.Scale(100_000, 10_000_000)
	firsts := map[int]bool{}
	for i := 0; i < n; i++ {
		if !verifkit.Mine(i) {
			continue
		}
		rng := verifkit.SubRand("C46arrange", i/8) // 8 cases per machine
		m := c46GenMachine(rng)
		rng = verifkit.SubRand("C46arrange-case", i)
		c := &c46Case{m: m, mode: "direct"}
		c.allowed, c.aKind = c46GenAllowed(rng, m)
		if rng.IntN(16) == 0 {
			rng.Shuffle(len(c.allowed), func(a, b int) { c.allowed[a], c.allowed[b] = c.allowed[b], c.allowed[a] })
			c.aKind += "+shuffled"
		}
		c.perf, c.pKind = c46GenPerf(rng, m, c.allowed)
		c.routines = c46GenRoutines(rng, m, c.allowed)
		c.key = c46GenKey(rng)
		c.flat = rng.IntN(10) == 0
		if !c.flat && rng.IntN(6) == 0 {
			c.hidden = c46GenHidden(rng, c.allowed)
			c.aKind += "+hidden-topology"
		}
		var out, again []int
		r.Pre("arrange case %d %s allowed=%v perf=%v routines=%d key=%d flat=%v", i, m.desc, c.allowed, c.perf, c.routines, c.key, c.flat)
		if r.Guard("C46/panic", func() any { return c.record(nil) }, func() {
			cands := pickCandidates(slices.Clone(c.allowed), slices.Clone(c.perf), c.routines)
			cands2 := slices.Clone(cands)
			var t1, t2 topology
			if c.flat {
				t1, t2 = flatTopology(cands), flatTopology(cands2)
			} else {
				t1, t2 = c46Topology(m, cands, 1, c.hidden), c46Topology(m, cands2, uint64(i)+2, c.hidden)
			}
			out = arrange(cands, t1, c.routines, splitmix64(c.key))
			again = arrange(cands2, t2, c.routines, splitmix64(c.key))
		}) {
			continue
		}
		c46Check(r, c, out)
		if !slices.Equal(out, again) {
			rec := c.record(out)
			rec["second_run"] = again
			r.Violation("C46/not-deterministic", fmt.Sprintf("same key and topology gave %v then %v [%s]", out, again, m.desc), rec)
		}
		if len(out) > 0 {
			firsts[out[0]] = true
		}
		if r.WantSample() && i%11 == 0 {
			r.Sample(c.record(out))
		}
		if r.NViolations() > 8 {
			break
		}
	}
	r.Info("distinct_first_choices(not judged)", len(firsts))
}

// ---------------------------------------------------------------------------------------------
// sysfs mode

func c46FormatCPUList(cpus []int) string {
	s := slices.Clone(cpus)
	sort.Ints(s)
	var b strings.Builder
	for i := 0; i < len(s); {
		j := i
		for j+1 < len(s) && s[j+1] == s[j]+1 {
			j++
		}
		if b.Len() > 0 {
			b.WriteByte(',')
		}
		b.WriteString(strconv.Itoa(s[i]))
		if j > i {
			b.WriteByte('-')
			b.WriteString(strconv.Itoa(s[j]))
		}
		i = j + 1
	}
	b.WriteByte('\n')
	return b.String()
}

func c46WriteFile(t *testing.T, p, content string) {
	if err := os.MkdirAll(filepath.Dir(p), 0o755); err != nil {
		t.Fatal(err)
	}
	if err := os.WriteFile(p, []byte(content), 0o644); err != nil {
		t.Fatal(err)
	}
}

func TestVerifC46Sysfs(t *testing.T) {
	t.Parallel() // independent units, each with its own reporter
	r := verifkit.NewReporter(t, "C46", "sysfs",
		"the same machine generator written out as a sysfs tree (node*/cpulist, cpu*/topology/{physical_package_id,core_id}, optional cpu_capacity / cpufreq/cpuinfo_max_freq / Intel cpu_core mask, memory-only nodes, no node directory on single-node machines); the real perfCPUsFrom -> pickCandidates -> readTopologyFrom -> arrange chain (the composition Default uses) is run and judged against the ground truth; distinct as in unit arrange")
	defer r.Done()
	machines := verifkit.Scale(200, 20_000)
	perMachine := 24
	for mi := 0; mi < machines; mi++ {
		if !verifkit.Mine(mi) {
			continue
		}
		rng := verifkit.SubRand("C46sysfs", mi)
		m := c46GenMachine(rng)
		root, err := os.MkdirTemp("/dev/shm", "verif-c46-") // tmpfs when there is one: the tree is ~300 small files
		if err != nil {
			root = t.TempDir()
		}
		t.Cleanup(func() { os.RemoveAll(root) })
		nodeDir, cpuDir, mask := filepath.Join(root, "node"), filepath.Join(root, "cpu"), filepath.Join(root, "cpu_core_cpus")
		if !(m.nodes == 1 && rng.IntN(2) == 0) {
			byNode := map[int][]int{}
			for _, c := range m.ids {
				byNode[m.node[c]] = append(byNode[m.node[c]], c)
			}
			for n, l := range byNode {
				c46WriteFile(t, filepath.Join(nodeDir, fmt.Sprintf("node%d", n), "cpulist"), c46FormatCPUList(l))
			}
			if rng.IntN(3) == 0 { // memory-only node and the non-node entries the real directory has
				c46WriteFile(t, filepath.Join(nodeDir, fmt.Sprintf("node%d", m.nodes), "cpulist"), "\n")
			}
			c46WriteFile(t, filepath.Join(nodeDir, "has_cpu"), c46FormatCPUList([]int{0}))
			c46WriteFile(t, filepath.Join(nodeDir, "online"), "0\n")
		} else {
			os.MkdirAll(cpuDir, 0o755)
		}
		perfKind := []string{"none", "none", "capacity", "intel", "freq", "capacity-equal"}[rng.IntN(6)]
		fastCore := map[int]bool{}
		for _, c := range m.ids {
			if _, ok := fastCore[m.core[c]]; !ok {
				fastCore[m.core[c]] = rng.IntN(2) == 0
			}
		}
		var pcores []int
		var hidden map[int]bool
		if rng.IntN(4) == 0 { // masked / partial sysfs: some cpu*/topology files missing or unparsable
			hidden = c46GenHidden(rng, m.ids)
		}
		for _, c := range m.ids {
			d := filepath.Join(cpuDir, fmt.Sprintf("cpu%d", c))
			form := 0
			if hidden[c] {
				form = 1 + rng.IntN(4)
			}
			switch form {
			case 0:
				c46WriteFile(t, filepath.Join(d, "topology", "physical_package_id"), fmt.Sprintf("%d\n", m.pkg[c]))
				c46WriteFile(t, filepath.Join(d, "topology", "core_id"), fmt.Sprintf("%d\n", m.cid[c]))
			case 1: // no topology directory at all
				os.MkdirAll(d, 0o755)
			case 2: // only the package id
				c46WriteFile(t, filepath.Join(d, "topology", "physical_package_id"), fmt.Sprintf("%d\n", m.pkg[c]))
			case 3: // only the core id
				c46WriteFile(t, filepath.Join(d, "topology", "core_id"), fmt.Sprintf("%d\n", m.cid[c]))
			case 4: // unparsable core id
				c46WriteFile(t, filepath.Join(d, "topology", "physical_package_id"), fmt.Sprintf("%d\n", m.pkg[c]))
				c46WriteFile(t, filepath.Join(d, "topology", "core_id"), "\n")
			}
			fast := fastCore[m.core[c]]
			if fast {
				pcores = append(pcores, c)
			}
			switch perfKind {
			case "capacity":
				v := 1024
				if !fast {
					v = []int{250, 400, 511, 512}[rng.IntN(4)]
				}
				c46WriteFile(t, filepath.Join(d, "cpu_capacity"), fmt.Sprintf("%d\n", v))
			case "capacity-equal":
				c46WriteFile(t, filepath.Join(d, "cpu_capacity"), "1024\n")
			case "freq":
				v := 5000000
				if !fast {
					v = []int{3800000, 4249999, 4250000, 2000000}[rng.IntN(4)]
				}
				c46WriteFile(t, filepath.Join(d, "cpufreq", "cpuinfo_max_freq"), fmt.Sprintf("%d\n", v))
			}
		}
		if perfKind == "intel" && len(pcores) > 0 {
			c46WriteFile(t, mask, c46FormatCPUList(pcores))
		}
		for k := 0; k < perMachine; k++ {
			crng := verifkit.SubRand("C46sysfs-case", mi*perMachine+k)
			c := &c46Case{m: m, mode: "sysfs", hidden: hidden}
			c.allowed, c.aKind = c46GenAllowed(crng, m)
			c.routines = c46GenRoutines(crng, m, c.allowed)
			c.key = c46GenKey(crng)
			var out, again []int
			var signal string
			r.Pre("sysfs machine %d case %d %s allowed=%v routines=%d key=%d perf=%s", mi, k, m.desc, c.allowed, c.routines, c.key, perfKind)
			if r.Guard("C46/panic", func() any { return c.record(nil) }, func() {
				run := func() []int {
					allowed := slices.Clone(c.allowed)
					perf, sig := perfCPUsFrom(cpuDir, mask, allowed)
					c.perf, signal = slices.Clone(perf), sig
					cands := pickCandidates(allowed, perf, c.routines)
					return arrange(cands, readTopologyFrom(nodeDir, cpuDir, cands), c.routines, splitmix64(c.key))
				}
				out = run()
				again = out
				if k%4 == 0 {
					again = run()
					r.Count("repeated_runs", 1)
				}
			}) {
				continue
			}
			c.pKind = perfKind + "/" + signal
			// the filter is an input of the property, but it must at least be a non-empty sub-list of allowed
			as := c46Set(c.allowed)
			okPerf := len(c.perf) > 0
			for _, cpu := range c.perf {
				okPerf = okPerf && as[cpu]
			}
			if !okPerf {
				r.Violation("C46/perf-filter-not-subset", fmt.Sprintf("perfCPUsFrom(%v) = %v (signal %q)", c.allowed, c.perf, signal), c.record(out))
				continue
			}
			r.Count("perf_signal_"+signal, 1)
			c46Check(r, c, out)
			if !slices.Equal(out, again) {
				rec := c.record(out)
				rec["second_run"] = again
				r.Violation("C46/not-deterministic", fmt.Sprintf("same key and sysfs tree gave %v then %v [%s]", out, again, m.desc), rec)
			}
			if r.WantSample() && k == 7 {
				r.Sample(c.record(out))
			}
		}
		os.RemoveAll(root)
		if r.NViolations() > 8 {
			break
		}
	}
}

// TestVerifC46Host runs the real Default on this host's real sysfs and affinity mask.
func TestVerifC46Host(t *testing.T) {
	t.Parallel() // independent units, each with its own reporter
	r := verifkit.NewReporter(t, "C46", "host",
		"the real Default(routines, key) on the host's own affinity mask and /sys for routines 1..allowed+2 and a set of keys: only allowed CPUs, no duplicates, CPU 0 last when present, identical on repetition; distinct = distinct (routines, key) pairs")
	defer r.Done()
	allowed, err := util.AllowedCPUs()
	if err != nil || len(allowed) == 0 {
		r.Inconclusive(fmt.Sprintf("AllowedCPUs: %v %v", allowed, err))
		return
	}
	r.Info("host_allowed", allowed)
	as := c46Set(allowed)
	rng := verifkit.NewRand("C46host")
	keys := []uint64{0, 1, 4242, 4243, 5242, math.MaxUint64}
	for i := 0; i < 10; i++ {
		keys = append(keys, rng.Uint64())
	}
	idx := 0
	for routines := 1; routines <= len(allowed)+2; routines++ {
		for _, key := range keys {
			idx++
			if !verifkit.Mine(idx) {
				continue
			}
			out := Default(routines, key, nil)
			again := Default(routines, key, nil)
			r.Eval(1)
			r.Distinct(fmt.Sprintf("%d/%d", routines, key))
			rec := map[string]any{"routines": routines, "key": key, "allowed": allowed, "out": out, "second_run": again}
			if out == nil {
				r.Count("default_returned_nil", 1)
				continue
			}
			r.Count("default_lists", 1)
			seen := map[int]bool{}
			for i, cpu := range out {
				if !as[cpu] {
					r.Violation("C46/not-allowed", fmt.Sprintf("host Default(%d,%d) lists CPU %d outside the affinity mask %v", routines, key, cpu, allowed), rec)
				}
				if seen[cpu] {
					r.Violation("C46/duplicate", fmt.Sprintf("host Default(%d,%d) lists CPU %d twice: %v", routines, key, cpu, out), rec)
				}
				seen[cpu] = true
				if cpu == 0 && i != len(out)-1 {
					r.Violation("C46/zero-not-at-end", fmt.Sprintf("host Default(%d,%d) = %v", routines, key, out), rec)
				}
			}
			if !slices.Equal(out, again) {
				r.Violation("C46/not-deterministic", fmt.Sprintf("host Default(%d,%d) gave %v then %v", routines, key, out, again), rec)
			}
			r.Sample(rec)
		}
	}
}
