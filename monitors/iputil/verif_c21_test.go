package iputil

// C21 — reject replies are well formed and never answer errors or fragments.
//
// The real CreateRejectPacket is run on generated / enumerated original packets and output buffers of every
// capacity. The oracle is written from the property statement and the RFCs, not from the code:
//
//   never panics, never returns a slice outside the buffer it was given
//   reply != nil =>
//     - same IP version as the original, gopacket decodes it completely (no error layer, not truncated), the IP
//       length field equals the reply length, plain header (IPv4: IHL 5, no fragment bits), TTL / hop limit > 0
//     - IPv4 header checksum, TCP / ICMPv6 checksum with pseudo header and ICMPv4 checksum verify with an
//       independent RFC 1071 sum (c20Sum)
//     - source = original destination, destination = original source
//     - size <= documented maximum (IPv4: 20+8+60+8 = 96, IPv6: 40+8+1000 = 1048 = MaxRejectPacketSize)
//     - original upper-layer protocol TCP (found by the independent walker c20RefParse) => TCP segment without
//       payload and options, ports swapped, RST set, SYN/FIN clear, and (nf_reject_ipv4/6.c):
//       original had ACK => seq = original ack number, ACK clear, ack number 0
//       otherwise        => seq = 0, ACK set, ack = orig seq + SYN + FIN + (segment length - data offset*4) mod 2^32
//       (the segment length is judged only when the IP length field equals the buffer length)
//     - otherwise => ICMPv4 type 3 code 13 / ICMPv6 type 1 code 1, unused word zero, body = a prefix of the
//       original packet that contains the complete original IP header (and extension headers) and the first 8
//       bytes behind it as far as they exist
//   the original is a non-first fragment, or an ICMP error (ICMPv4 type 3,4,5,11,12 / ICMPv6 type 1..4) => nil
//   capacity < size of the reply => nil; the reply does not depend on the capacity otherwise
//
// nil is always allowed by the statement; "no reply for a complete, unfragmented, non-error packet with at most 6
// extension headers and a buffer of the documented maximum size" is reported under its own key (C21/no-reply-for-rejectable-packet): with rejection enabled the
// documented behaviour is that such a packet is answered.

import (
	"bytes"
	"encoding/binary"
	"fmt"
	"hash/fnv"
	"testing"

	"github.com/google/gopacket"
	"github.com/google/gopacket/layers"

	"github.com/slackhq/nebula/verifkit"
)

const (
	c21MaxV4 = 20 + 8 + 60 + 8
	c21MaxV6 = 40 + 8 + 1000
)

type c21Mon struct {
	r   *verifkit.Reporter
	buf []byte
}

func c21New(r *verifkit.Reporter) *c21Mon { return &c21Mon{r: r, buf: make([]byte, 4096)} }

func c21Hash(s string) uint64 {
	h := fnv.New64a()
	h.Write([]byte(s))
	return h.Sum64()
}

func c21Pseudo4(src, dst []byte, proto uint8, l int) uint32 {
	ph := make([]byte, 12)
	copy(ph[0:], src)
	copy(ph[4:], dst)
	ph[9] = proto
	binary.BigEndian.PutUint16(ph[10:], uint16(l))
	return uint32(c20Sum(ph, 0))
}

func c21Pseudo6(src, dst []byte, proto uint8, l int) uint32 {
	ph := make([]byte, 40)
	copy(ph[0:], src)
	copy(ph[16:], dst)
	binary.BigEndian.PutUint32(ph[32:], uint32(l))
	ph[39] = proto
	return uint32(c20Sum(ph, 0))
}

// call runs the real function with an output buffer of capacity capN (length 0) and returns the reply.
func (m *c21Mon) call(pkt []byte, capN int, class string) (out []byte, panicked bool) {
	for i := range m.buf {
		m.buf[i] = 0xa5
	}
	ob := m.buf[0:0:capN]
	panicked = m.r.Guard("C21/panic", func() any {
		return map[string]any{"packet_hex": verifkit.Hex(pkt), "cap": capN, "generator_class": class}
	}, func() { out = CreateRejectPacket(pkt, ob) })
	return
}

// one judges a single (packet, capacity) case and returns the reply.
func (m *c21Mon) one(pkt []byte, capN int, class string) []byte {
	r := m.r
	out, panicked := m.call(pkt, capN, class)
	if panicked {
		return nil
	}
	r.Eval(1)
	f := c20RefParse(pkt)
	m.judge(pkt, capN, class, out, &f)
	return out
}

func (m *c21Mon) judge(pkt []byte, capN int, class string, out []byte, f *c20Ref) {
	r := m.r
	replay := func() any {
		return map[string]any{"packet_hex": verifkit.Hex(pkt), "len": len(pkt), "cap": capN, "generator_class": class, "reply_hex": verifkit.Hex(out),
			"reference": map[string]any{"ip_ok": f.ipOK, "chain_ok": f.chainOK, "why_not": f.why, "proto": f.proto, "l4_offset": f.hdrLen,
				"non_first_fragment": f.nonFirst, "any_fragment": f.anyFrag, "icmp_type": f.icmpType, "ext_headers_entered": f.nSeen,
				"len_field": f.lenField}}
	}
	limit := f.v6 && (f.nSeen >= 9 || (f.nSeen == 8 && !f.chainOK))
	bad := func(key, what string) {
		if limit {
			// consequence of the C20 finding (walker gives up after 8 extension headers): keep it apart
			key = "C21/ext-chain-longer-than-walker-limit"
			what = fmt.Sprintf("(original has %d IPv6 extension headers) %s", f.nSeen, what)
		}
		r.Violation(key, what, replay())
	}
	ver := "x"
	if f.ipOK {
		ver = "v4"
		if f.v6 {
			ver = "v6"
		}
	}
	// classification of the original, from the reference only
	isTCP := f.ipOK && f.chainOK && !f.nonFirst && f.proto == 6
	icmpErr := false
	icmpInfo := false
	if f.ipOK && f.chainOK && !f.nonFirst && f.icmpType >= 0 {
		if !f.v6 && f.proto == 1 {
			switch f.icmpType {
			case 3, 4, 5, 11, 12:
				icmpErr = true
			case 0, 8, 13, 14, 15, 16, 17, 18:
				icmpInfo = true
			}
		}
		if f.v6 && f.proto == 58 {
			if f.icmpType >= 1 && f.icmpType <= 4 {
				icmpErr = true
			} else if f.icmpType >= 128 {
				icmpInfo = true
			}
		}
	}
	l4 := 0
	if f.ipOK && f.chainOK {
		l4 = len(pkt) - f.hdrLen
	}
	sig := fmt.Sprintf("%s|ok%v%v|p%d|nf%v|af%v|ext%d|icmp%d|l4%d|nil%v", ver, f.ipOK, f.chainOK, f.proto, f.nonFirst, f.anyFrag, f.nSeen, f.icmpType, min(l4, 21), out == nil)
	if isTCP && l4 >= 20 {
		tin := pkt[f.hdrLen:]
		sig += fmt.Sprintf("|fl%02x|doff%d|pl%d", tin[13], tin[12]>>4, min(l4-20, 3))
	}
	r.DistinctU64(c21Hash(sig))

	if out == nil {
		r.Count("nil_"+ver, 1)
		switch {
		case f.ipOK && f.nonFirst:
			r.Count("nil_non_first_fragment", 1)
		case !f.ipOK || !f.chainOK:
			r.Count("nil_unparseable_original", 1)
		case icmpErr:
			r.Count("nil_icmp_error", 1)
		default:
			if capN < MaxRejectPacketSize {
				// possibly too small for the reply (exact thresholds are judged by the caps unit)
				r.Count("nil_buffer_below_documented_maximum", 1)
				return
			}
			if f.nSeen > 6 {
				// long extension header chains may be refused by the classifier (C20: "a chain that cannot be
				// fully resolved is rejected"); such a packet never reaches the reject path, nil is fine
				r.Count("nil_long_extension_chain", 1)
				return
			}
			complete := !f.anyFrag && f.lenConsistent(pkt) && (!isTCP || l4 >= 20) && (isTCP || f.icmpType < 0 || icmpInfo)
			if complete {
				bad("C21/no-reply-for-rejectable-packet", fmt.Sprintf("no reply for a complete unfragmented %s packet (protocol %d, %d bytes behind the headers) with a %d byte buffer", ver, f.proto, l4, capN))
			} else {
				r.Count("nil_other", 1)
			}
		}
		return
	}

	// ---- a reply was produced
	r.Count("reply_"+ver, 1)
	if len(out) == 0 || len(out) > capN || &out[0] != &m.buf[0] {
		bad("C21/reply-outside-buffer", fmt.Sprintf("reply of %d bytes is not inside the %d byte buffer it was given", len(out), capN))
		return
	}
	for i := capN; i < capN+64 && i < len(m.buf); i++ {
		if m.buf[i] != 0xa5 {
			bad("C21/reply-outside-buffer", fmt.Sprintf("byte %d behind the %d byte buffer was overwritten", i, capN))
			return
		}
	}
	if len(pkt) == 0 {
		bad("C21/reply-to-garbage", "reply to an empty packet")
		return
	}
	v := pkt[0] >> 4
	if out[0]>>4 != v || (v != 4 && v != 6) {
		bad("C21/reply-malformed", fmt.Sprintf("reply IP version %d, original %d", out[0]>>4, v))
		return
	}
	if lim := map[uint8]int{4: c21MaxV4, 6: c21MaxV6}[v]; len(out) > lim || len(out) > MaxRejectPacketSize {
		bad("C21/reply-too-large", fmt.Sprintf("reply of %d bytes, documented maximum %d", len(out), lim))
	}

	// decode with gopacket
	first := layers.LayerTypeIPv4
	if v == 6 {
		first = layers.LayerTypeIPv6
	}
	gp := gopacket.NewPacket(out, first, gopacket.DecodeOptions{NoCopy: true})
	if el := gp.ErrorLayer(); el != nil {
		bad("C21/reply-malformed", "gopacket cannot decode the reply: "+el.Error().Error())
		return
	}
	if gp.Metadata().Truncated {
		bad("C21/reply-malformed", "gopacket reports the reply as truncated")
		return
	}
	var rsrc, rdst []byte
	var rproto uint8
	var l4off int
	if v == 4 {
		ip, _ := gp.NetworkLayer().(*layers.IPv4)
		if ip == nil {
			bad("C21/reply-malformed", "no IPv4 layer in the reply")
			return
		}
		if int(ip.Length) != len(out) || ip.IHL != 5 || ip.FragOffset != 0 || ip.Flags&layers.IPv4MoreFragments != 0 || ip.TTL == 0 {
			bad("C21/reply-malformed", fmt.Sprintf("IPv4 header of the reply: length field %d (reply %d bytes), IHL %d, flags %v, fragment offset %d, TTL %d", ip.Length, len(out), ip.IHL, ip.Flags, ip.FragOffset, ip.TTL))
			return
		}
		if c20Sum(out[:20], 0) != 0xffff {
			bad("C21/bad-ip-checksum", fmt.Sprintf("IPv4 header checksum of the reply does not verify (sum %04x)", c20Sum(out[:20], 0)))
		}
		rsrc, rdst, rproto, l4off = out[12:16], out[16:20], uint8(ip.Protocol), 20
	} else {
		ip, _ := gp.NetworkLayer().(*layers.IPv6)
		if ip == nil {
			bad("C21/reply-malformed", "no IPv6 layer in the reply")
			return
		}
		if int(ip.Length)+40 != len(out) || ip.HopLimit == 0 {
			bad("C21/reply-malformed", fmt.Sprintf("IPv6 header of the reply: payload length %d (reply %d bytes), hop limit %d", ip.Length, len(out), ip.HopLimit))
			return
		}
		rsrc, rdst, rproto, l4off = out[8:24], out[24:40], uint8(ip.NextHeader), 40
	}
	// addresses
	if f.ipOK {
		if !bytes.Equal(rsrc, f.dst.AsSlice()) || !bytes.Equal(rdst, f.src.AsSlice()) {
			bad("C21/addresses-not-swapped", fmt.Sprintf("reply %x > %x, original %v > %v", rsrc, rdst, f.src, f.dst))
		}
	}
	rl4 := out[l4off:]
	// L4 checksum (independent sum)
	var pseudo uint32
	if v == 4 {
		if rproto == 6 {
			pseudo = c21Pseudo4(rsrc, rdst, rproto, len(rl4))
		}
	} else {
		pseudo = c21Pseudo6(rsrc, rdst, rproto, len(rl4))
	}
	if s := c20Sum(rl4, pseudo); s != 0xffff {
		bad("C21/bad-l4-checksum", fmt.Sprintf("checksum of the protocol %d part of the reply does not verify (sum %04x)", rproto, s))
	}

	// must-not-answer classes
	if f.ipOK && f.nonFirst {
		bad("C21/reply-to-non-first-fragment", fmt.Sprintf("%d byte reply to a non-first fragment", len(out)))
		return
	}
	if icmpErr {
		bad("C21/reply-to-icmp-error", fmt.Sprintf("reply to an ICMP error message (%s type %d)", ver, f.icmpType))
		return
	}
	if f.v6 && f.ipOK && f.chainOK && f.proto == 58 && f.icmpType >= 0 && f.icmpType < 128 && !icmpErr {
		r.Count("reply_to_icmpv6_error_class_type_outside_1_4", 1) // RFC 4443 error class (type < 128), unassigned: not judged
	}
	if !f.ipOK || !f.chainOK {
		// not an IP packet the reference can resolve: only the self-consistency of the reply was judged
		r.Count("reply_to_unresolvable_original", 1)
		if f.v6 {
			bad("C21/reply-to-unresolvable-chain", fmt.Sprintf("reply although the extension header chain of the original cannot be resolved (%s)", f.why))
		}
		return
	}

	if isTCP {
		tcp, _ := gp.Layer(layers.LayerTypeTCP).(*layers.TCP)
		if rproto != 6 || tcp == nil {
			bad("C21/wrong-reply-kind", fmt.Sprintf("original is TCP, reply protocol is %d", rproto))
			return
		}
		r.Count("reply_rst", 1)
		if l4 < 20 {
			bad("C21/rst-for-truncated-tcp", fmt.Sprintf("RST although only %d bytes of the original TCP header exist", l4))
			return
		}
		tin := pkt[f.hdrLen:]
		if len(rl4) != 20 || tcp.DataOffset != 5 || len(tcp.Payload) != 0 {
			bad("C21/rst-shape", fmt.Sprintf("RST segment of %d bytes, data offset %d", len(rl4), tcp.DataOffset))
		}
		if uint16(tcp.SrcPort) != binary.BigEndian.Uint16(tin[2:]) || uint16(tcp.DstPort) != binary.BigEndian.Uint16(tin[0:]) {
			bad("C21/ports-not-swapped", fmt.Sprintf("reply ports %d > %d, original %d > %d", tcp.SrcPort, tcp.DstPort, binary.BigEndian.Uint16(tin[0:]), binary.BigEndian.Uint16(tin[2:])))
		}
		if !tcp.RST || tcp.SYN || tcp.FIN {
			bad("C21/rst-flags", fmt.Sprintf("reply flags RST=%v SYN=%v FIN=%v", tcp.RST, tcp.SYN, tcp.FIN))
		}
		inFlags := tin[13]
		inSeq := binary.BigEndian.Uint32(tin[4:])
		inAck := binary.BigEndian.Uint32(tin[8:])
		if inFlags&0x10 != 0 {
			r.Count("rst_for_ack_segment", 1)
			if tcp.Seq != inAck || tcp.ACK || tcp.Ack != 0 {
				bad("C21/rst-seq-ack-mismatch", fmt.Sprintf("original has ACK (ack number %d): reply seq=%d ACK=%v ack=%d, expected seq=%d, no ACK, ack 0", inAck, tcp.Seq, tcp.ACK, tcp.Ack, inAck))
			}
		} else {
			if tcp.Seq != 0 || !tcp.ACK {
				bad("C21/rst-seq-ack-mismatch", fmt.Sprintf("original has no ACK: reply seq=%d ACK=%v, expected seq 0 and ACK", tcp.Seq, tcp.ACK))
			} else if f.lenConsistent(pkt) {
				r.Count("rst_for_non_ack_segment_judged", 1)
				want := inSeq + uint32(inFlags>>1&1) + uint32(inFlags&1) + uint32(l4) - uint32(tin[12]>>4)*4
				if tcp.Ack != want {
					bad("C21/rst-seq-ack-mismatch", fmt.Sprintf("original seq=%d SYN=%d FIN=%d segment %d bytes, data offset %d: reply ack=%d, netfilter formula gives %d", inSeq, inFlags>>1&1, inFlags&1, l4, tin[12]>>4, tcp.Ack, want))
				}
			} else {
				r.Count("rst_ack_unjudged_length_field_inconsistent", 1)
			}
		}
		return
	}

	// ICMP error expected
	wantProto, wantType, wantCode := uint8(1), uint8(3), uint8(13)
	if v == 6 {
		wantProto, wantType, wantCode = 58, 1, 1
	}
	if rproto != wantProto || len(rl4) < 8 || rl4[0] != wantType || rl4[1] != wantCode {
		t, c := -1, -1
		if len(rl4) >= 2 {
			t, c = int(rl4[0]), int(rl4[1])
		}
		bad("C21/wrong-reply-kind", fmt.Sprintf("original protocol %d: reply protocol %d type %d code %d, expected administratively prohibited (protocol %d type %d code %d)", f.proto, rproto, t, c, wantProto, wantType, wantCode))
		return
	}
	r.Count("reply_icmp", 1)
	if v == 4 {
		if gp.Layer(layers.LayerTypeICMPv4) == nil {
			bad("C21/reply-malformed", "gopacket finds no ICMPv4 layer in the reply")
		}
	} else if gp.Layer(layers.LayerTypeICMPv6) == nil {
		bad("C21/reply-malformed", "gopacket finds no ICMPv6 layer in the reply")
	}
	if !bytes.Equal(rl4[4:8], []byte{0, 0, 0, 0}) {
		bad("C21/icmp-unused-not-zero", fmt.Sprintf("unused word of the ICMP error is %x", rl4[4:8]))
	}
	body := rl4[8:]
	if len(body) > len(pkt) || !bytes.Equal(body, pkt[:len(body)]) {
		bad("C21/icmp-body-not-original", "the ICMP error does not carry a prefix of the original packet")
		return
	}
	wantBody := min(len(pkt), f.hdrLen+8)
	if f.v6 {
		wantBody = min(wantBody, 1000)
	}
	if len(body) < wantBody {
		bad("C21/icmp-body-too-short", fmt.Sprintf("the ICMP error carries %d bytes of the original, the original headers plus 8 bytes are %d", len(body), wantBody))
	}
}

const c21Rule = "case = one (original packet, output buffer capacity) call of CreateRejectPacket; distinct = hashed (IP version, reference verdict on the original, upper protocol, fragment flags, number of extension headers, ICMP type, bytes behind the headers clipped at 21, TCP flags byte / data offset / payload class, reply or nil)"

func TestVerifC21Generated(t *testing.T) {
	r := verifkit.NewReporter(t, "C21", "generated",
		"the C20 generator (IPv4 with options and all fragment classes, IPv6 with 0..12 extension headers, mutations, random bytes) with TCP/UDP/ICMP emphasis; buffer capacity 2048 for 3 of 4 cases, else uniformly 0..1100; "+c21Rule)
	defer r.Done()
	m := c21New(r)
	if s, _ := verifkit.Shard(); s == 0 {
		// consequence of the C20 probe witness first, so that it is the recorded witness if it still fails:
		// nine destination-option headers, then a TCP SYN (must be answered with a RST, not an ICMP error)
		m.one(c20V6Chain([]uint8{60, 60, 60, 60, 60, 60, 60, 60, 60}, 6, c21TCPSeg(0x02, 1000, 0, 5, nil, nil)), 2048, "canonical/9x60/tcp-syn")
	}
	n := verifkit.Scale(200_000, 20_000_000)
	for i := 0; i < n; i++ {
		if i&1023 == 0 {
			r.Pre("stream C21generated, cases %d..%d of this shard (inputs are a function of VERIF_SEED and the case index)", i, i+1023)
		}
		if !verifkit.Mine(i) {
			continue
		}
		rng := verifkit.SubRand("C21generated", i)
		p := c20Gen(rng)
		capN := 2048
		if rng.IntN(4) == 0 {
			capN = rng.IntN(1101)
		}
		out := m.one(p.data, capN, p.class)
		if out != nil && p.clean && r.WantSample() {
			r.Sample(map[string]any{"packet_hex": verifkit.Hex(p.data), "class": p.class, "cap": capN, "reply_hex": verifkit.Hex(out)})
		}
	}
}

// c21TCP4 / c21TCP6 build a complete TCP packet.
func c21TCPSeg(flags byte, seq, ack uint32, doff int, opts, payload []byte) []byte {
	h := make([]byte, 20)
	binary.BigEndian.PutUint16(h[0:], 40000)
	binary.BigEndian.PutUint16(h[2:], 443)
	binary.BigEndian.PutUint32(h[4:], seq)
	binary.BigEndian.PutUint32(h[8:], ack)
	h[12] = byte(doff << 4)
	h[13] = flags
	h[14], h[15] = 0xff, 0xff
	h = append(h, opts...)
	return append(h, payload...)
}

func c21V4(proto uint8, ihl int, l4 []byte) []byte {
	h := make([]byte, 20)
	h[0] = 0x40 | byte(ihl)
	h[8], h[9] = 61, proto
	copy(h[12:], []byte{10, 1, 2, 3, 192, 168, 7, 9})
	for k := 5; k < ihl; k++ {
		h = append(h, 1, 1, 1, 1)
	}
	h = append(h, l4...)
	binary.BigEndian.PutUint16(h[2:], uint16(len(h)))
	binary.BigEndian.PutUint16(h[10:], ^c20Sum(h[:ihl*4], 0))
	return h
}

func TestVerifC21Flags(t *testing.T) {
	r := verifkit.NewReporter(t, "C21", "flags",
		"complete enumeration: IPv4 (IHL 5 and 7) and IPv6 (0 and 2 extension headers) TCP segments with all 256 flag bytes x sequence/ack numbers {0, 1, 2^31-1, 2^31, 2^32-2, 2^32-1} x (data offset, options, payload) in {(5,0,0),(5,0,1),(5,0,100),(8,12,0),(8,12,7),(15,40,3),(15,0,0) header longer than segment,(0,0,5),(3,0,0)}; "+c21Rule)
	defer r.Done()
	if s, _ := verifkit.Shard(); s != 0 {
		return
	}
	m := c21New(r)
	edges := []uint32{0, 1, 0x7fffffff, 0x80000000, 0xfffffffe, 0xffffffff}
	type shape struct {
		doff, opts, pay int
	}
	shapes := []shape{{5, 0, 0}, {5, 0, 1}, {5, 0, 100}, {8, 12, 0}, {8, 12, 7}, {15, 40, 3}, {15, 0, 0}, {0, 0, 5}, {3, 0, 0}}
	for fl := 0; fl < 256; fl++ {
		r.Pre("flags enumeration, TCP flag byte %#x", fl)
		for _, sq := range edges {
			for _, ak := range edges {
				for si, sh := range shapes {
					seg := c21TCPSeg(byte(fl), sq, ak, sh.doff, make([]byte, sh.opts), bytes.Repeat([]byte{'x'}, sh.pay))
					var pkt []byte
					switch (fl + si) % 4 {
					case 0:
						pkt = c21V4(6, 5, seg)
					case 1:
						pkt = c21V4(6, 7, seg)
					case 2:
						pkt = c20V6Chain(nil, 6, seg)
					default:
						pkt = c20V6Chain([]uint8{0, 60}, 6, seg)
					}
					m.one(pkt, 2048, fmt.Sprintf("flags/%02x/seq%d/ack%d/shape%v", fl, sq, ak, sh))
				}
			}
		}
	}
	r.Exhaustive("256 TCP flag bytes x 6 seq edges x 6 ack edges x 9 header/payload shapes, IP version and header shape rotating over 4 variants")
}

// TestVerifC21Caps: every buffer capacity 0..1100 for representative originals: the reply is nil below its size
// and identical to the large-buffer reply from its size on.
func TestVerifC21Caps(t *testing.T) {
	r := verifkit.NewReporter(t, "C21", "caps",
		"representative originals (TCP v4/v6, UDP v4 with and without options, UDP v6 of 60/999/1000/1001/1300 bytes, ICMP echo v4/v6, GRE, v6 with extension headers, first fragments) x every output capacity 0..1100: nil below the reply size, the same reply from the reply size on; "+c21Rule)
	defer r.Done()
	if s, _ := verifkit.Shard(); s != 0 {
		return
	}
	m := c21New(r)
	udp := func(n int) []byte {
		h := make([]byte, 8, 8+n)
		binary.BigEndian.PutUint16(h[0:], 5353)
		binary.BigEndian.PutUint16(h[2:], 53)
		binary.BigEndian.PutUint16(h[4:], uint16(8+n))
		return append(h, bytes.Repeat([]byte{0x5a}, n)...)
	}
	syn := c21TCPSeg(0x02, 1000, 0, 5, nil, nil)
	ack := c21TCPSeg(0x18, 77, 99, 8, make([]byte, 12), []byte("hello"))
	echo4 := []byte{8, 0, 0, 0, 0, 7, 0, 1, 'a', 'b', 'c', 'd'}
	echo6 := []byte{128, 0, 0, 0, 0, 7, 0, 1, 'a', 'b', 'c', 'd'}
	frag4 := c21V4(17, 5, udp(24))
	frag4[6] = 0x20 // first fragment
	binary.BigEndian.PutUint16(frag4[10:], 0)
	binary.BigEndian.PutUint16(frag4[10:], ^c20Sum(frag4[:20], 0))
	origs := []struct {
		name string
		pkt  []byte
	}{
		{"v4-syn", c21V4(6, 5, syn)}, {"v4-ack-opts", c21V4(6, 9, ack)}, {"v6-syn", c20V6Chain(nil, 6, syn)}, {"v6-ack-ext", c20V6Chain([]uint8{0, 43, 60}, 6, ack)},
		{"v4-udp", c21V4(17, 5, udp(30))}, {"v4-udp-ihl15", c21V4(17, 15, udp(30))}, {"v4-udp-short", c21V4(17, 5, udp(0)[:5])}, {"v4-gre", c21V4(47, 6, []byte{0, 0, 8, 0, 1, 2, 3, 4, 5, 6})},
		{"v4-echo", c21V4(1, 5, echo4)}, {"v4-first-frag", frag4},
		{"v6-udp-60", c20V6Chain(nil, 17, udp(12))}, {"v6-udp-999", c20V6Chain(nil, 17, udp(999-48))}, {"v6-udp-1000", c20V6Chain(nil, 17, udp(1000-48))},
		{"v6-udp-1001", c20V6Chain(nil, 17, udp(1001-48))}, {"v6-udp-1300", c20V6Chain(nil, 17, udp(1300-48))},
		{"v6-echo", c20V6Chain(nil, 58, echo6)}, {"v6-echo-ext", c20V6Chain([]uint8{0, 60, 51}, 58, echo6)}, {"v6-first-frag-udp", c20V6Chain([]uint8{44}, 17, udp(16))},
		{"v6-nonext-59", c20V6Chain([]uint8{60}, 59, nil)},
	}
	for _, o := range origs {
		r.Pre("caps enumeration, original %s %x", o.name, o.pkt)
		full := append([]byte(nil), m.one(o.pkt, 4000, "caps/"+o.name+"/4000")...)
		if full == nil {
			r.Violation("C21/no-reply-for-rejectable-packet", "no reply for representative original "+o.name+" with a 4000 byte buffer", map[string]any{"packet_hex": verifkit.Hex(o.pkt)})
			continue
		}
		r.Sample(map[string]any{"original": o.name, "packet_hex": verifkit.Hex(o.pkt), "reply_hex": verifkit.Hex(full)})
		for c := 0; c <= 1100; c++ {
			out := m.one(o.pkt, c, fmt.Sprintf("caps/%s/%d", o.name, c))
			switch {
			case c < len(full) && out != nil:
				r.Violation("C21/reply-in-too-small-buffer", fmt.Sprintf("%s: a %d byte reply came out of a %d byte buffer (the reply is %d bytes with a large buffer)", o.name, len(out), c, len(full)),
					map[string]any{"packet_hex": verifkit.Hex(o.pkt), "cap": c, "reply_hex": verifkit.Hex(out)})
			case c >= len(full) && !bytes.Equal(out, full):
				r.Violation("C21/reply-depends-on-capacity", fmt.Sprintf("%s: with capacity %d (>= reply size %d) the reply differs from the large-buffer reply (nil=%v)", o.name, c, len(full), out == nil),
					map[string]any{"packet_hex": verifkit.Hex(o.pkt), "cap": c, "reply_hex": verifkit.Hex(out), "large_buffer_reply_hex": verifkit.Hex(full)})
			}
		}
	}
	r.Exhaustive("19 representative originals x every output capacity 0..1100")
}

// TestVerifC21MustNot enumerates the must-not-answer classes completely for canonical packets.
func TestVerifC21MustNot(t *testing.T) {
	r := verifkit.NewReporter(t, "C21", "mustnot",
		"complete enumeration: every ICMPv4 / ICMPv6 type 0..255 (IPv4 IHL 5 and 8; IPv6 with 0..3 extension headers, message lengths 1, 4, 8, 60); IPv4 fragment field: every offset 1..8191 with and without MF for TCP/UDP/ICMP; IPv6 fragment headers with offsets {1, 2, 255, 256, 8191} at chain positions 0..7 before TCP/UDP/ICMPv6; "+c21Rule)
	defer r.Done()
	if s, _ := verifkit.Shard(); s != 0 {
		return
	}
	m := c21New(r)
	for typ := 0; typ < 256; typ++ {
		r.Pre("mustnot enumeration, ICMP type %d", typ)
		for _, n := range []int{1, 4, 8, 60} {
			msg := make([]byte, n)
			msg[0] = byte(typ)
			for i := 1; i < n; i++ {
				msg[i] = byte(i * 7)
			}
			m.one(c21V4(1, 5, msg), 2048, fmt.Sprintf("mustnot/icmp4/type%d/len%d", typ, n))
			m.one(c21V4(1, 8, msg), 2048, fmt.Sprintf("mustnot/icmp4-opts/type%d/len%d", typ, n))
			m.one(c20V6Chain(nil, 58, msg), 2048, fmt.Sprintf("mustnot/icmp6/type%d/len%d", typ, n))
			m.one(c20V6Chain([]uint8{0}, 58, msg), 2048, fmt.Sprintf("mustnot/icmp6-hbh/type%d/len%d", typ, n))
			m.one(c20V6Chain([]uint8{60, 43, 51}, 58, msg), 2048, fmt.Sprintf("mustnot/icmp6-3ext/type%d/len%d", typ, n))
			m.one(c20V6Chain([]uint8{44, 60}, 58, msg), 2048, fmt.Sprintf("mustnot/icmp6-firstfrag/type%d/len%d", typ, n))
		}
	}
	syn := c21TCPSeg(0x02, 5, 0, 5, nil, nil)
	udp := []byte{0x14, 0xe9, 0, 53, 0, 12, 0, 0, 1, 2, 3, 4}
	echo4 := []byte{8, 0, 0, 0, 0, 7, 0, 1}
	echo6 := []byte{128, 0, 0, 0, 0, 7, 0, 1}
	for off := 1; off < 8192; off++ {
		if off&255 == 1 {
			r.Pre("mustnot enumeration, IPv4 fragment offset %d..", off)
		}
		for _, mf := range []uint16{0, 0x2000} {
			for _, pr := range []struct {
				p  uint8
				l4 []byte
			}{{6, syn}, {17, udp}, {1, echo4}} {
				pkt := c21V4(pr.p, 5, pr.l4)
				binary.BigEndian.PutUint16(pkt[6:], mf|uint16(off))
				m.one(pkt, 2048, fmt.Sprintf("mustnot/frag4/off%d/mf%d/p%d", off, mf>>13, pr.p))
			}
		}
	}
	for pos := 0; pos <= 7; pos++ {
		for _, off := range []uint16{1, 2, 255, 256, 8191} {
			for _, pr := range []struct {
				p  uint8
				l4 []byte
			}{{6, syn}, {17, udp}, {58, echo6}} {
				chain := make([]uint8, pos+1)
				for i := range chain {
					chain[i] = 60
				}
				chain[pos] = 44
				pkt := c20V6Chain(chain, pr.p, pr.l4)
				fo := 40 + pos*8
				binary.BigEndian.PutUint16(pkt[fo+2:], off<<3|1)
				m.one(pkt, 2048, fmt.Sprintf("mustnot/frag6/pos%d/off%d/p%d", pos, off, pr.p))
			}
		}
	}
	r.Exhaustive("ICMP types 0..255 x 4 lengths x 6 header shapes; IPv4 fragment offsets 1..8191 x MF x 3 protocols; IPv6 non-first fragment header at chain position 0..7 x 5 offsets x 3 protocols")
}
