package iputil

// C20 (iputil part) — IPv6FindUpperProtocol against the independent extension header walker and gopacket
// (verif_c20_ref_test.go). Built with -race so that checkptr instruments the parser.
//
// Oracle, from the property statement: the call never panics; when it returns no error the protocol, offset and
// fragment flags are the ones the reference walk finds, the protocol is not an extension header number, and a
// chain the reference cannot resolve (truncated / overrunning extension header) is refused with an error.

import (
	"fmt"
	"hash/fnv"
	"testing"

	"github.com/slackhq/nebula/verifkit"
)

func c20wHash(s string) uint64 {
	h := fnv.New64a()
	h.Write([]byte(s))
	return h.Sum64()
}

func c20wOne(r *verifkit.Reporter, p c20Pkt, withGp bool) {
	data := p.data
	f := c20RefParse(data)
	if len(data) > 0 && data[0]>>4 != 6 {
		// the function is only called for version 6; the walk itself ignores the nibble, so does the reference
		d := append([]byte(nil), data...)
		d[0] = 0x60 | d[0]&0x0f
		f = c20RefParse(d)
	}
	if withGp && len(data) > 0 && data[0]>>4 == 6 {
		// gopacket is slow under the race detector: the iputil unit cross-checks a quarter of the PRNG cases and
		// all enumerated ones, the package nebula unit cross-checks every case
		g := c20GpParse(data)
		if d := c20CrossCheck(data, &f, &g); d != "" {
			r.Violation("C20/oracle-references-disagree", "reference parser and gopacket disagree (oracle defect, not a nebula finding): "+d,
				map[string]any{"packet_hex": verifkit.Hex(data), "generator_class": p.class, "gopacket": fmt.Sprintf("%+v", g), "reference": fmt.Sprintf("%+v", f)})
		}
		if g.ipOK && !g.trimmed && g.stepsEnd && len(g.steps) == len(f.steps) {
			r.Count("gopacket_chain_confirmed", 1)
		}
	}
	var (
		proto            uint8
		off              int
		isFrag, anyFrag  bool
		err              error
	)
	replay := func() any {
		return map[string]any{"packet_hex": verifkit.Hex(data), "len": len(data), "generator_class": p.class,
			"result": map[string]any{"proto": proto, "offset": off, "isFragment": isFrag, "anyFragment": anyFrag, "err": fmt.Sprint(err)},
			"reference": map[string]any{"chain_resolved": f.chainOK, "why_not": f.why, "proto": f.proto, "offset": f.hdrLen,
				"non_first_fragment": f.nonFirst, "any_fragment": f.anyFrag, "ext_headers_complete": f.nExt, "ext_headers_entered": f.nSeen}}
	}
	if r.Guard("C20/panic", replay, func() { proto, off, isFrag, anyFrag, err = IPv6FindUpperProtocol(data) }) {
		return
	}
	r.Eval(1)
	verdict := "rej"
	if err == nil {
		verdict = "acc"
	}
	r.DistinctU64(c20wHash(c20Sig(data, &f) + verdict))
	if err != nil {
		if f.ipOK && f.chainOK {
			r.Count("rejected_but_resolvable", 1)
		} else {
			r.Count("rejected_unresolvable", 1)
			r.DistinctClass("rejected:" + f.why)
		}
		return
	}
	r.Count("accepted", 1)
	if f.nExt > 0 {
		r.Count("accepted_with_ext_headers", 1)
	}
	if f.nSeen >= 8 {
		r.Count("accepted_with_8_or_more_ext_headers", 1)
	}
	// the real walker gives up after 8 extension headers: whatever goes wrong with a 9th header present, or with an
	// 8th one that cannot be resolved, is attributed to that root cause; a complete chain of exactly 8 is not
	limit := f.nSeen >= 9 || (f.nSeen == 8 && !f.chainOK)
	if c20IsExt(proto) && !isFrag {
		if limit {
			r.Violation("C20/ext-chain-longer-than-walker-limit", fmt.Sprintf("IPv6FindUpperProtocol returned protocol %d (an extension header number) at offset %d with a nil error for a packet with %d extension headers; reference: next header %d at offset %d (%s)",
				proto, off, f.nSeen, f.proto, f.hdrLen, f.why), replay())
		} else {
			r.Violation("C20/reports-ext-header-protocol", fmt.Sprintf("returned protocol %d (an extension header number) with nil error after %d extension headers", proto, f.nExt), replay())
		}
		return
	}
	if !f.ipOK || !f.chainOK {
		switch {
		case f.why == "v6-nonfirst-frag-next-is-ext":
			r.Violation("C20/nonfirst-fragment-protocol-is-ext-header", fmt.Sprintf("non-first fragment whose fragment header names next header %d: returned protocol %d with nil error, the upper-layer protocol is not in this packet", f.proto, proto), replay())
		case limit:
			r.Violation("C20/ext-chain-longer-than-walker-limit", fmt.Sprintf("nil error for a packet with %d extension headers although the chain cannot be resolved (%s); proto=%d offset=%d len=%d", f.nSeen, f.why, proto, off, len(data)), replay())
		default:
			r.Violation("C20/accepts-unresolvable/"+f.why, fmt.Sprintf("nil error although the reference cannot resolve the chain (%s); proto=%d offset=%d len=%d", f.why, proto, off, len(data)), replay())
		}
		return
	}
	key := func(k string) string {
		if limit {
			return "C20/ext-chain-longer-than-walker-limit"
		}
		return k
	}
	switch {
	case proto != f.proto:
		r.Violation(key("C20/protocol-mismatch"), fmt.Sprintf("protocol %d, reference %d", proto, f.proto), replay())
	case off != f.hdrLen:
		r.Violation(key("C20/header-length-mismatch"), fmt.Sprintf("offset %d, reference %d", off, f.hdrLen), replay())
	case isFrag != f.nonFirst || anyFrag != f.anyFrag:
		r.Violation(key("C20/fragment-status-mismatch"), fmt.Sprintf("isFragment=%v anyFragment=%v, reference %v %v", isFrag, anyFrag, f.nonFirst, f.anyFrag), replay())
	}
	if r.WantSample() && f.nExt > 1 {
		r.Sample(replay())
	}
}

func TestVerifC20Walker(t *testing.T) {
	r := verifkit.NewReporter(t, "C20", "walker",
		"IPv6FindUpperProtocol (-race/checkptr build) on PRNG-built IPv6 packets with 0..12 extension headers (mutated: truncated, overrunning lengths, flipped bytes), random bytes, and every truncation length of chains of 0..12 headers of each type; distinct = hashed (chain of (type,length), upper protocol, fragment flags, reference verdict class, bytes behind the chain clipped at 9, accept/reject)")
	defer r.Done()
	tcp := []byte{0x12, 0x34, 0x01, 0xbb, 0, 0, 0, 1, 0, 0, 0, 2, 0x50, 0x02, 0xff, 0xff, 0, 0, 0, 0}
	if s, _ := verifkit.Shard(); s == 0 {
		// the probe witness of the design round first, so that it is the recorded witness if it still fails
		c20wOne(r, c20Pkt{c20V6Chain([]uint8{60, 60, 60, 60, 60, 60, 60, 60, 60}, 6, tcp), "canonical/9x60/tcp", false}, true)
	}
	n := verifkit.Scale(150_000, 15_000_000)
	for i := 0; i < n; i++ {
		if i&1023 == 0 {
			r.Pre("stream C20walker, cases %d..%d of this shard (inputs are a function of VERIF_SEED and the case index)", i, i+1023)
		}
		if !verifkit.Mine(i) {
			continue
		}
		rng := verifkit.SubRand("C20walker", i)
		if i%5 == 4 {
			c20wOne(r, c20GenRandom(rng), i%4 == 0)
		} else {
			c20wOne(r, c20GenV6(rng), i%4 == 0)
		}
	}
	if s, _ := verifkit.Shard(); s != 0 {
		return
	}
	for _, t := range []uint8{0, 43, 44, 51, 60} {
		for n := 0; n <= 12; n++ {
			c := make([]uint8, n)
			for i := range c {
				c[i] = t
			}
			for _, up := range []uint8{6, 59, 135} {
				h := c20V6Chain(c, up, tcp)
				r.Pre("enumeration: %d x type %d, upper %d, every truncation of %x", n, t, up, h)
				for cut := 0; cut <= len(h); cut++ {
					c20wOne(r, c20Pkt{h[:cut:cut], fmt.Sprintf("enum/%dx%d/p%d/cut%d", n, t, up, cut), false}, true)
				}
			}
		}
	}
	r.Exhaustive("chains of 0..12 extension headers of one type (0,43,44,51,60) x upper {6,59,135} x every truncation length")
}
