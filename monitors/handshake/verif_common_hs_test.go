package handshake

// Shared fixture for the handshake monitors (C05, C06, C07): a small PKI per curve with
// ground truth about every identity, built without the repository's test helpers.
//
// Nothing here is an oracle; the oracles live in the per-property files.

import (
	"bytes"
	"crypto/ecdh"
	"fmt"
	"net/netip"
	"time"

	"github.com/flynn/noise"
	"github.com/slackhq/nebula/cert"
	ct "github.com/slackhq/nebula/cert_test"
	"github.com/slackhq/nebula/header"
	"github.com/slackhq/nebula/noiseutil"
	"golang.org/x/crypto/curve25519"
)

// vhsNow is the "now" every verifier in the handshake monitors uses (no wall clock in oracles).
var vhsNow = time.Date(2025, 6, 1, 0, 0, 0, 0, time.UTC)

type vhsCurve struct {
	name   string
	curve  cert.Curve
	dh     noise.DHFunc
	pubLen int
}

var vhsCurves = []vhsCurve{
	{"x25519", cert.Curve_CURVE25519, noise.DH25519, 32},
	{"p256", cert.Curve_P256, noiseutil.DHP256, 65},
}

type vhsCipher struct {
	name string
	fn   noise.CipherFunc
}

var vhsCiphers = []vhsCipher{
	{"chachapoly", noise.CipherChaChaPoly},
	{"aesgcm", noiseutil.CipherAESGCM},
}

// identity classes (generator ground truth)
const (
	vhsTrusted     = "trusted"
	vhsUntrustedCA = "untrusted-ca"
	vhsExpired     = "expired"
	vhsBlocklisted = "blocklisted"
	vhsKeyMismatch = "key-mismatch"
)

// vhsIdent is one participant: the Noise static key pair it really holds and the certificates it presents.
type vhsIdent struct {
	name  string
	class string
	curve vhsCurve
	priv  []byte // Noise static private key this participant holds
	pub   []byte // matching public key (what it proves possession of)
	// certificates presented, per version, and the key they were issued for
	certs       map[cert.Version]cert.Certificate
	hsBytes     map[cert.Version][]byte
	issuedFor   []byte
	defaultVers cert.Version
}

// vhsIssued is the ground-truth record of one certificate the generator issued.
type vhsIssued struct {
	owner      string // identity the CA issued it to
	version    cert.Version
	issuedFor  []byte // public key in the certificate
	acceptable bool   // trusted CA, valid at vhsNow, not blocklisted
	class      string
}

type vhsPKI struct {
	curve   vhsCurve
	ca      map[cert.Version]cert.Certificate
	caKey   map[cert.Version][]byte
	rogue   map[cert.Version]cert.Certificate
	rogueK  map[cert.Version][]byte
	pool    *cert.CAPool
	idents  map[string]*vhsIdent
	issued  map[string]*vhsIssued // key: full marshalled certificate bytes
	nextNet int
}

type vhsKeyOverrideCert struct {
	cert.Certificate
	pub []byte
}

func (k vhsKeyOverrideCert) PublicKey() []byte { return k.pub }

func vhsKeypair(c vhsCurve) (pub, priv []byte) {
	if c.curve == cert.Curve_P256 {
		return ct.P256Keypair()
	}
	return ct.X25519Keypair()
}

func vhsNewPKI(c vhsCurve) *vhsPKI {
	p := &vhsPKI{curve: c, ca: map[cert.Version]cert.Certificate{}, caKey: map[cert.Version][]byte{},
		rogue: map[cert.Version]cert.Certificate{}, rogueK: map[cert.Version][]byte{},
		idents: map[string]*vhsIdent{}, issued: map[string]*vhsIssued{}, pool: cert.NewCAPool()}
	// CA validity spans any plausible wall-clock date: CAPool.AddCA compares with time.Now(), the monitors do not.
	before, after := time.Date(2000, 1, 1, 0, 0, 0, 0, time.UTC), time.Date(2200, 1, 1, 0, 0, 0, 0, time.UTC)
	for _, v := range []cert.Version{cert.Version1, cert.Version2} {
		ca, _, key, _ := ct.NewTestCaCert(v, c.curve, before, after, nil, nil, nil)
		p.ca[v], p.caKey[v] = ca, key
		if err := p.pool.AddCA(ca); err != nil {
			panic(err)
		}
		rca, _, rkey, _ := ct.NewTestCaCert(v, c.curve, before, after, nil, nil, nil)
		p.rogue[v], p.rogueK[v] = rca, rkey
	}
	return p
}

func (p *vhsPKI) verifier() CertVerifier {
	return func(c cert.Certificate) (*cert.CachedCertificate, error) {
		return p.pool.VerifyCertificate(vhsNow, c)
	}
}

func (p *vhsPKI) sign(name string, v cert.Version, pub []byte, rogue, expired bool, net netip.Prefix) cert.Certificate {
	ca, key := p.ca[v], p.caKey[v]
	if rogue {
		ca, key = p.rogue[v], p.rogueK[v]
	}
	nb, na := vhsNow.Add(-100*24*time.Hour), vhsNow.Add(100*24*time.Hour)
	if expired {
		na = vhsNow.Add(-24 * time.Hour)
	}
	t := &cert.TBSCertificate{Version: v, Curve: p.curve.curve, Name: name, Networks: []netip.Prefix{net},
		NotBefore: time.Unix(nb.Unix(), 0), NotAfter: time.Unix(na.Unix(), 0), PublicKey: pub}
	c, err := t.Sign(ca, ca.Curve(), key)
	if err != nil {
		panic(fmt.Sprintf("sign %s v%d: %v", name, v, err))
	}
	return c
}

// add creates an identity of the given class holding certificates of the given versions.
func (p *vhsPKI) add(name, class string, versions ...cert.Version) *vhsIdent {
	pub, priv := vhsKeypair(p.curve)
	id := &vhsIdent{name: name, class: class, curve: p.curve, priv: priv, pub: pub, issuedFor: pub,
		certs: map[cert.Version]cert.Certificate{}, hsBytes: map[cert.Version][]byte{}, defaultVers: versions[0]}
	p.nextNet++
	net := netip.PrefixFrom(netip.AddrFrom4([4]byte{10, 77, byte(p.nextNet >> 8), byte(p.nextNet)}), 16)
	for _, v := range versions {
		c := p.sign(name, v, pub, class == vhsUntrustedCA, class == vhsExpired, net)
		p.register(id, v, c, class)
	}
	p.idents[name] = id
	return id
}

func (p *vhsPKI) register(id *vhsIdent, v cert.Version, c cert.Certificate, class string) {
	id.certs[v] = c
	hb, err := c.MarshalForHandshakes()
	if err != nil {
		panic(err)
	}
	id.hsBytes[v] = hb
	full, err := c.Marshal()
	if err != nil {
		panic(err)
	}
	if class == vhsBlocklisted {
		fp, _ := c.Fingerprint()
		p.pool.BlocklistFingerprint(fp)
	}
	p.issued[string(full)] = &vhsIssued{owner: id.name, version: v, issuedFor: bytes.Clone(c.PublicKey()),
		acceptable: class == vhsTrusted, class: class}
}

// addKeyMismatch creates an identity that holds its own key pair but presents the certificates that
// were issued to victim (for victim's key).
func (p *vhsPKI) addKeyMismatch(name string, victim *vhsIdent) *vhsIdent {
	pub, priv := vhsKeypair(p.curve)
	id := &vhsIdent{name: name, class: vhsKeyMismatch, curve: p.curve, priv: priv, pub: pub, issuedFor: victim.pub,
		certs: map[cert.Version]cert.Certificate{}, hsBytes: map[cert.Version][]byte{}, defaultVers: victim.defaultVers}
	for v, c := range victim.certs {
		id.certs[v] = vhsKeyOverrideCert{Certificate: c, pub: pub}
		id.hsBytes[v] = victim.hsBytes[v]
	}
	p.idents[name] = id
	return id
}

// creds returns the credential lookup of an identity restricted to the listed versions (all when empty).
func (id *vhsIdent) creds(cipher vhsCipher, versions ...cert.Version) GetCredentialFunc {
	m := map[cert.Version]*Credential{}
	suite := noise.NewCipherSuite(id.curve.dh, cipher.fn, noise.HashSHA256)
	for v, c := range id.certs {
		if len(versions) > 0 {
			ok := false
			for _, w := range versions {
				ok = ok || w == v
			}
			if !ok {
				continue
			}
		}
		m[v] = NewCredential(c, id.hsBytes[v], id.priv, suite)
	}
	return func(v cert.Version) *Credential { return m[v] }
}

func vhsAlloc(idx uint32) IndexAllocator { return func() (uint32, error) { return idx, nil } }

func vhsMachine(id *vhsIdent, cipher vhsCipher, first cert.Version, verifier CertVerifier, idx uint32, initiator bool, have ...cert.Version) (*Machine, error) {
	return NewMachine(first, id.creds(cipher, have...), verifier, vhsAlloc(idx), initiator, header.HandshakeIXPSK0)
}

// vhsValidDHPublic says whether b is a public key the DH function of the curve can be used with
// (decided with crypto/ecdh resp. x/crypto/curve25519 directly, used only to name input classes).
func vhsValidDHPublic(c vhsCurve, b []byte) bool {
	if c.curve == cert.Curve_P256 {
		_, err := ecdh.P256().NewPublicKey(b)
		return err == nil
	}
	if len(b) != 32 {
		return false
	}
	k := bytes.Repeat([]byte{0x42}, 32)
	_, err := curve25519.X25519(k, b)
	return err == nil
}

// vhsDataCheck: a packet sealed with ek must open with dk and give back the plaintext.
func vhsSealOpen(ek, dk noiseutil.CipherState, n uint64, ad, pt []byte) (opened bool, same bool) {
	nb := make([]byte, 12)
	c, err := ek.EncryptDanger(nil, ad, pt, n, nb)
	if err != nil {
		return false, false
	}
	out, err := dk.DecryptDanger(nil, ad, c, n, nb)
	if err != nil {
		return false, false
	}
	return true, bytes.Equal(out, pt)
}

// vhsAgreement checks the C06 pairing of two completed results; it returns "" or what is wrong.
func vhsAgreement(a, b *Result) string {
	if a == nil || b == nil {
		return "missing result"
	}
	if a.EKey == nil || a.DKey == nil || b.EKey == nil || b.DKey == nil {
		return "nil key in result"
	}
	ae, ad := noiseutil.NewCipherState(a.EKey, a.Cipher), noiseutil.NewCipherState(a.DKey, a.Cipher)
	be, bd := noiseutil.NewCipherState(b.EKey, b.Cipher), noiseutil.NewCipherState(b.DKey, b.Cipher)
	pt := []byte("verif handshake agreement probe")
	adata := []byte{1, 2, 3, 4, 5, 6, 7, 8, 9, 10, 11, 12, 13, 14, 15, 16}
	for _, n := range []uint64{0, 1, 3, 1 << 40} {
		if ok, same := vhsSealOpen(ae, bd, n, adata, pt); !ok || !same {
			return fmt.Sprintf("a.EKey -> b.DKey failed at nonce %d", n)
		}
		if ok, same := vhsSealOpen(be, ad, n, adata, pt); !ok || !same {
			return fmt.Sprintf("b.EKey -> a.DKey failed at nonce %d", n)
		}
		if ok, _ := vhsSealOpen(ae, ad, n, adata, pt); ok {
			return "a.EKey opens with a.DKey (both directions share a key)"
		}
		if ok, _ := vhsSealOpen(be, bd, n, adata, pt); ok {
			return "b.EKey opens with b.DKey (both directions share a key)"
		}
	}
	if a.RemoteIndex != b.LocalIndex || b.RemoteIndex != a.LocalIndex {
		return fmt.Sprintf("index mismatch a(local=%d remote=%d) b(local=%d remote=%d)", a.LocalIndex, a.RemoteIndex, b.LocalIndex, b.RemoteIndex)
	}
	if a.LocalIndex == 0 || b.LocalIndex == 0 {
		return "zero local index"
	}
	if a.MessageIndex != b.MessageIndex {
		return fmt.Sprintf("message index mismatch %d vs %d", a.MessageIndex, b.MessageIndex)
	}
	return ""
}

func vhsErrStr(err error) string {
	if err == nil {
		return ""
	}
	return err.Error()
}
