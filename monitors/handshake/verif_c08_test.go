package handshake

// C08 — handshake payload encoding is lossless and wire-compatible.
//
// The pinned tree no longer contains generated code for NebulaHandshake (the schema lives in
// handshake/handshake.proto as documentation only). "The protobuf schema other nebula versions use" is
// therefore instantiated twice, independently of payload.go:
//   - google.golang.org/protobuf: a descriptor for handshake.proto built at run time + dynamicpb;
//   - github.com/gogo/protobuf (what nebula's generated code was built on): reflection over structs that carry
//     exactly the field tags of the formerly generated types.
// plus a wire-format walker written from the protobuf encoding specification, which classifies every input:
//   malformed | known-field violation (wrong wire type / uint32 out of range) | ambiguous | well-formed(fields).
//
// Oracle:
//   * decode(encode(p)) == p (nil and empty Cert are the same field value), and both schema decoders read
//     encode(p) as the same five fields -- for every representation of the Cert slice (nil, non-nil empty,
//     window into a larger buffer, spare capacity) and of the destination buffer;
//   * encode(p) is self-delimiting: the Details length prefix covers exactly the bytes written, and when more
//     data (another payload, further outer fields) is appended into the same buffer the concatenation splits
//     exactly and reads as the protobuf merge of the parts; inputs and memory outside out are not written;
//   * every well-formed schema message (including Hmac, Cookie, unknown fields, repeated fields, split Details,
//     non-minimal varints) decodes through UnmarshalPayload to the five fields the walker and both schema
//     decoders extract;
//   * a known Details field with the wrong wire type or a uint32 field above 2^32-1 => error;
//   * malformed input that both schema decoders refuse => error;
//   * never a panic.
// An outer Details tag (field 1) with a non-bytes wire type is recorded, not judged (DESIGN §3 C08).

import (
	"bytes"
	"encoding/binary"
	"fmt"
	"math"
	mrand "math/rand/v2"
	"testing"

	gogoproto "github.com/gogo/protobuf/proto"
	"github.com/slackhq/nebula/verifkit"
	"google.golang.org/protobuf/proto"
	"google.golang.org/protobuf/reflect/protodesc"
	"google.golang.org/protobuf/reflect/protoreflect"
	"google.golang.org/protobuf/types/descriptorpb"
	"google.golang.org/protobuf/types/dynamicpb"
)

// ---- schema instance 1: descriptor + dynamicpb ------------------------------------------------------------

type c08Schema struct {
	hs, det                                   protoreflect.MessageDescriptor
	fDetails, fHmac                           protoreflect.FieldDescriptor
	fCert, fInit, fResp, fCookie, fTime, fVer protoreflect.FieldDescriptor
}

func c08BuildSchema() (*c08Schema, error) {
	opt := descriptorpb.FieldDescriptorProto_LABEL_OPTIONAL
	fld := func(name string, num int32, t descriptorpb.FieldDescriptorProto_Type, tn string) *descriptorpb.FieldDescriptorProto {
		f := &descriptorpb.FieldDescriptorProto{Name: proto.String(name), Number: proto.Int32(num), Type: t.Enum(), Label: opt.Enum(), JsonName: proto.String(name)}
		if tn != "" {
			f.TypeName = proto.String(tn)
		}
		return f
	}
	fd := &descriptorpb.FileDescriptorProto{
		Name: proto.String("handshake/handshake.proto"), Package: proto.String("nebula.handshake"), Syntax: proto.String("proto3"),
		MessageType: []*descriptorpb.DescriptorProto{
			{Name: proto.String("NebulaHandshake"), Field: []*descriptorpb.FieldDescriptorProto{
				fld("Details", 1, descriptorpb.FieldDescriptorProto_TYPE_MESSAGE, ".nebula.handshake.NebulaHandshakeDetails"),
				fld("Hmac", 2, descriptorpb.FieldDescriptorProto_TYPE_BYTES, ""),
			}},
			{Name: proto.String("NebulaHandshakeDetails"), Field: []*descriptorpb.FieldDescriptorProto{
				fld("Cert", 1, descriptorpb.FieldDescriptorProto_TYPE_BYTES, ""),
				fld("InitiatorIndex", 2, descriptorpb.FieldDescriptorProto_TYPE_UINT32, ""),
				fld("ResponderIndex", 3, descriptorpb.FieldDescriptorProto_TYPE_UINT32, ""),
				fld("Cookie", 4, descriptorpb.FieldDescriptorProto_TYPE_UINT64, ""),
				fld("Time", 5, descriptorpb.FieldDescriptorProto_TYPE_UINT64, ""),
				fld("CertVersion", 8, descriptorpb.FieldDescriptorProto_TYPE_UINT32, ""),
			}, ReservedRange: []*descriptorpb.DescriptorProto_ReservedRange{{Start: proto.Int32(6), End: proto.Int32(8)}}},
		},
	}
	file, err := protodesc.NewFile(fd, nil)
	if err != nil {
		return nil, err
	}
	s := &c08Schema{hs: file.Messages().ByName("NebulaHandshake"), det: file.Messages().ByName("NebulaHandshakeDetails")}
	s.fDetails, s.fHmac = s.hs.Fields().ByNumber(1), s.hs.Fields().ByNumber(2)
	df := s.det.Fields()
	s.fCert, s.fInit, s.fResp, s.fCookie, s.fTime, s.fVer = df.ByNumber(1), df.ByNumber(2), df.ByNumber(3), df.ByNumber(4), df.ByNumber(5), df.ByNumber(8)
	return s, nil
}

func (s *c08Schema) decode(b []byte) (Payload, error) {
	m := dynamicpb.NewMessage(s.hs)
	if err := proto.Unmarshal(b, m); err != nil {
		return Payload{}, err
	}
	var p Payload
	if !m.Has(s.fDetails) {
		return p, nil
	}
	d := m.Get(s.fDetails).Message()
	p.Cert = bytes.Clone(d.Get(s.fCert).Bytes())
	p.InitiatorIndex = uint32(d.Get(s.fInit).Uint())
	p.ResponderIndex = uint32(d.Get(s.fResp).Uint())
	p.Time = d.Get(s.fTime).Uint()
	p.CertVersion = uint32(d.Get(s.fVer).Uint())
	return p, nil
}

func (s *c08Schema) encode(p Payload, withDetails bool, hmac []byte, cookie uint64) ([]byte, error) {
	m := dynamicpb.NewMessage(s.hs)
	if withDetails {
		d := dynamicpb.NewMessage(s.det)
		if len(p.Cert) > 0 {
			d.Set(s.fCert, protoreflect.ValueOfBytes(p.Cert))
		}
		if p.InitiatorIndex != 0 {
			d.Set(s.fInit, protoreflect.ValueOfUint32(p.InitiatorIndex))
		}
		if p.ResponderIndex != 0 {
			d.Set(s.fResp, protoreflect.ValueOfUint32(p.ResponderIndex))
		}
		if cookie != 0 {
			d.Set(s.fCookie, protoreflect.ValueOfUint64(cookie))
		}
		if p.Time != 0 {
			d.Set(s.fTime, protoreflect.ValueOfUint64(p.Time))
		}
		if p.CertVersion != 0 {
			d.Set(s.fVer, protoreflect.ValueOfUint32(p.CertVersion))
		}
		m.Set(s.fDetails, protoreflect.ValueOfMessage(d))
	}
	if len(hmac) > 0 {
		m.Set(s.fHmac, protoreflect.ValueOfBytes(hmac))
	}
	return proto.MarshalOptions{Deterministic: true}.Marshal(m)
}

// ---- schema instance 2: gogo/protobuf reflection over the formerly generated struct shapes ------------------

type c08GogoDetails struct {
	Cert           []byte `protobuf:"bytes,1,opt,name=Cert,proto3" json:"Cert,omitempty"`
	InitiatorIndex uint32 `protobuf:"varint,2,opt,name=InitiatorIndex,proto3" json:"InitiatorIndex,omitempty"`
	ResponderIndex uint32 `protobuf:"varint,3,opt,name=ResponderIndex,proto3" json:"ResponderIndex,omitempty"`
	Cookie         uint64 `protobuf:"varint,4,opt,name=Cookie,proto3" json:"Cookie,omitempty"`
	Time           uint64 `protobuf:"varint,5,opt,name=Time,proto3" json:"Time,omitempty"`
	CertVersion    uint32 `protobuf:"varint,8,opt,name=CertVersion,proto3" json:"CertVersion,omitempty"`
}

func (m *c08GogoDetails) Reset()         { *m = c08GogoDetails{} }
func (m *c08GogoDetails) String() string { return fmt.Sprintf("%+v", *m) }
func (*c08GogoDetails) ProtoMessage()    {}

type c08GogoHandshake struct {
	Details *c08GogoDetails `protobuf:"bytes,1,opt,name=Details,proto3" json:"Details,omitempty"`
	Hmac    []byte          `protobuf:"bytes,2,opt,name=Hmac,proto3" json:"Hmac,omitempty"`
}

func (m *c08GogoHandshake) Reset()         { *m = c08GogoHandshake{} }
func (m *c08GogoHandshake) String() string { return fmt.Sprintf("%+v", *m) }
func (*c08GogoHandshake) ProtoMessage()    {}

func c08GogoDecode(b []byte) (p Payload, err error) {
	defer func() {
		if e := recover(); e != nil {
			err = fmt.Errorf("gogo panic: %v", e)
		}
	}()
	var m c08GogoHandshake
	if err := gogoproto.Unmarshal(b, &m); err != nil {
		return Payload{}, err
	}
	if m.Details == nil {
		return Payload{}, nil
	}
	d := m.Details
	return Payload{Cert: d.Cert, InitiatorIndex: d.InitiatorIndex, ResponderIndex: d.ResponderIndex, Time: d.Time, CertVersion: d.CertVersion}, nil
}

func c08GogoEncode(p Payload, withDetails bool, hmac []byte, cookie uint64) ([]byte, error) {
	m := &c08GogoHandshake{Hmac: hmac}
	if withDetails {
		m.Details = &c08GogoDetails{Cert: p.Cert, InitiatorIndex: p.InitiatorIndex, ResponderIndex: p.ResponderIndex, Cookie: cookie, Time: p.Time, CertVersion: p.CertVersion}
	}
	return gogoproto.Marshal(m)
}

// ---- the walker: protobuf wire format, written from the encoding specification ----------------------------

const (
	c08WellFormed = iota
	c08Malformed
	c08Violation // known Details field with wrong wire type or uint32 out of range
	c08Ambiguous // groups, >10-byte / overflowing varints, field numbers above 2^29-1: parsers legitimately differ
)

type c08Verdict struct {
	class          int
	why            string
	p              Payload
	outerWrongType bool // field 1 of the outer message with a non-bytes wire type
	features       uint32
}

const (
	c08FeatUnknownOuter = 1 << iota
	c08FeatUnknownInner
	c08FeatRepeatedDetails
	c08FeatRepeatedField
	c08FeatNonMinimalVarint
	c08FeatHmac
	c08FeatCookie
	c08FeatEmptyDetails
)

// c08Uvarint: n>0 bytes consumed; n==0 truncated; n<0 ambiguous (longer than 10 bytes or overflowing 64 bits)
func c08Uvarint(b []byte) (v uint64, n int, nonMinimal bool) {
	for i := 0; i < len(b); i++ {
		if i == 10 {
			return 0, -1, false
		}
		c := b[i]
		if i == 9 && c > 1 {
			return 0, -1, false
		}
		v |= uint64(c&0x7f) << (7 * uint(i))
		if c < 0x80 {
			return v, i + 1, i > 0 && c == 0
		}
	}
	return 0, 0, false
}

func c08Walk(b []byte) c08Verdict {
	var vd c08Verdict
	seenDetails := false
	for len(b) > 0 {
		tag, n, nm := c08Uvarint(b)
		if n == 0 {
			return c08Verdict{class: c08Malformed, why: "truncated tag"}
		}
		if n < 0 || tag>>3 > 1<<29-1 {
			return c08Verdict{class: c08Ambiguous, why: "over-long tag / field number above 2^29-1"}
		}
		if nm {
			vd.features |= c08FeatNonMinimalVarint
		}
		b = b[n:]
		num, wt := tag>>3, tag&7
		if num == 0 {
			return c08Verdict{class: c08Malformed, why: "field number 0"}
		}
		val, rest, cls, why, nm2 := c08Value(wt, b)
		if cls != c08WellFormed {
			return c08Verdict{class: cls, why: why}
		}
		if nm2 {
			vd.features |= c08FeatNonMinimalVarint
		}
		b = rest
		switch {
		case num == 1 && wt == 2:
			if seenDetails {
				vd.features |= c08FeatRepeatedDetails
			}
			seenDetails = true
			if len(val) == 0 {
				vd.features |= c08FeatEmptyDetails
			}
			if sub := c08WalkDetails(val, &vd); sub.class != c08WellFormed {
				return sub
			}
		case num == 1:
			vd.outerWrongType = true
		case num == 2 && wt == 2:
			vd.features |= c08FeatHmac
		default:
			vd.features |= c08FeatUnknownOuter
		}
	}
	return vd
}

// c08Value consumes the value of a field of wire type wt. For varints val holds the 8-byte little-endian value.
func c08Value(wt uint64, b []byte) (val, rest []byte, cls int, why string, nonMinimal bool) {
	switch wt {
	case 0:
		v, n, nm := c08Uvarint(b)
		if n == 0 {
			return nil, nil, c08Malformed, "truncated varint", false
		}
		if n < 0 {
			return nil, nil, c08Ambiguous, "varint longer than 10 bytes or overflowing 64 bits", false
		}
		return binary.LittleEndian.AppendUint64(nil, v), b[n:], c08WellFormed, "", nm
	case 1:
		if len(b) < 8 {
			return nil, nil, c08Malformed, "truncated fixed64", false
		}
		return b[:8], b[8:], c08WellFormed, "", false
	case 5:
		if len(b) < 4 {
			return nil, nil, c08Malformed, "truncated fixed32", false
		}
		return b[:4], b[4:], c08WellFormed, "", false
	case 2:
		l, n, nm := c08Uvarint(b)
		if n == 0 {
			return nil, nil, c08Malformed, "truncated length", false
		}
		if n < 0 {
			return nil, nil, c08Ambiguous, "over-long length varint", false
		}
		if l > uint64(len(b)-n) {
			return nil, nil, c08Malformed, "length exceeds input", false
		}
		return b[n : n+int(l)], b[n+int(l):], c08WellFormed, "", nm
	case 3, 4:
		return nil, nil, c08Ambiguous, "group wire type", false
	}
	return nil, nil, c08Malformed, "wire type 6/7", false
}

func c08WalkDetails(b []byte, vd *c08Verdict) c08Verdict {
	seen := map[uint64]bool{}
	for len(b) > 0 {
		tag, n, nm := c08Uvarint(b)
		if n == 0 {
			return c08Verdict{class: c08Malformed, why: "details: truncated tag"}
		}
		if n < 0 || tag>>3 > 1<<29-1 {
			return c08Verdict{class: c08Ambiguous, why: "details: over-long tag / field number above 2^29-1"}
		}
		if nm {
			vd.features |= c08FeatNonMinimalVarint
		}
		b = b[n:]
		num, wt := tag>>3, tag&7
		if num == 0 {
			return c08Verdict{class: c08Malformed, why: "details: field number 0"}
		}
		want, known := map[uint64]uint64{1: 2, 2: 0, 3: 0, 5: 0, 8: 0}[num]
		if known && wt != want {
			return c08Verdict{class: c08Violation, why: fmt.Sprintf("details field %d with wire type %d", num, wt)}
		}
		val, rest, cls, why, nm2 := c08Value(wt, b)
		if cls != c08WellFormed {
			return c08Verdict{class: cls, why: "details: " + why}
		}
		if nm2 {
			vd.features |= c08FeatNonMinimalVarint
		}
		b = rest
		if !known {
			if num == 4 && wt == 0 {
				vd.features |= c08FeatCookie
			} else {
				vd.features |= c08FeatUnknownInner
			}
			continue
		}
		if seen[num] {
			vd.features |= c08FeatRepeatedField
		}
		seen[num] = true
		var v uint64
		if wt == 0 {
			v = binary.LittleEndian.Uint64(val)
			if num != 5 && v > math.MaxUint32 {
				return c08Verdict{class: c08Violation, why: fmt.Sprintf("details field %d = %d exceeds uint32", num, v)}
			}
		}
		switch num {
		case 1:
			vd.p.Cert = bytes.Clone(val)
		case 2:
			vd.p.InitiatorIndex = uint32(v)
		case 3:
			vd.p.ResponderIndex = uint32(v)
		case 5:
			vd.p.Time = v
		case 8:
			vd.p.CertVersion = uint32(v)
		}
	}
	return c08Verdict{}
}

func c08Same(a, b Payload) bool {
	return bytes.Equal(a.Cert, b.Cert) && a.InitiatorIndex == b.InitiatorIndex && a.ResponderIndex == b.ResponderIndex && a.Time == b.Time && a.CertVersion == b.CertVersion
}

func c08Show(p Payload) string {
	c := verifkit.Hex(p.Cert)
	if len(c) > 40 {
		c = fmt.Sprintf("%s..(%d bytes)", c[:40], len(p.Cert))
	}
	return fmt.Sprintf("{Cert:%s I:%d R:%d T:%d V:%d}", c, p.InitiatorIndex, p.ResponderIndex, p.Time, p.CertVersion)
}

// ---- judges ------------------------------------------------------------------------------------------------

// ---- slice representations ---------------------------------------------------------------------------------
//
// A Go byte slice with the same *value* can be nil, non-nil and empty, or a window into a larger buffer with
// spare capacity. The codec must treat them alike: the property speaks about field values, not slice headers.

var c08CertReps = []string{"exact-or-nil", "non-nil-exact", "window-into-larger-buffer", "make-with-spare-cap"}

// c08CertAs returns a slice with the given content in representation rep, plus the backing array to check
// afterwards that the encoder wrote nothing into it.
func c08CertAs(content []byte, rep int) (crt, backing []byte) {
	n := len(content)
	switch rep {
	case 1:
		crt = make([]byte, n) // []byte{} when empty: non-nil, zero length
		copy(crt, content)
		return crt, crt
	case 2:
		backing = bytes.Repeat([]byte{0xee}, n+24)
		copy(backing[7:], content)
		return backing[7 : 7+n], backing // buf[k:k] when empty; spare capacity holds sentinels
	case 3:
		crt = make([]byte, n, n+16)
		copy(crt, content)
		return crt, crt[:cap(crt)]
	}
	if n == 0 {
		return nil, nil
	}
	crt = bytes.Clone(content)
	return crt[:n:n], crt
}

var c08OutReps = []string{"nil", "prefix-exact-cap", "prefix-with-spare-cap", "prefix-window-cap-clipped", "empty-non-nil-with-cap"}

// c08OutAs builds the destination buffer; guard is memory behind a capacity-clipped window that must stay intact.
func c08OutAs(prefix []byte, rep int) (out, guard []byte) {
	switch rep {
	case 1:
		out = bytes.Clone(prefix)
		return out[:len(out):len(out)], nil
	case 2:
		out = make([]byte, len(prefix), len(prefix)+64)
		copy(out, prefix)
		return out, nil
	case 3:
		buf := bytes.Repeat([]byte{0xdd}, len(prefix)+32)
		copy(buf, prefix)
		return buf[:len(prefix):len(prefix)], buf[len(prefix):]
	case 4:
		return make([]byte, 0, 48), nil
	}
	return nil, nil
}

type c08EncCase struct {
	p       Payload // field values (Cert content; representation chosen by certRep)
	certRep int
	outRep  int
	prefix  []byte
	next    *Payload // encoded right behind, into the same buffer
	tail    []byte   // further well-formed outer fields appended behind (e.g. an Hmac field)
}

func c08Merge(a, b Payload) Payload { // protobuf concatenation = merge, singular fields last-wins when present
	if len(b.Cert) > 0 {
		a.Cert = b.Cert
	}
	if b.InitiatorIndex != 0 {
		a.InitiatorIndex = b.InitiatorIndex
	}
	if b.ResponderIndex != 0 {
		a.ResponderIndex = b.ResponderIndex
	}
	if b.Time != 0 {
		a.Time = b.Time
	}
	if b.CertVersion != 0 {
		a.CertVersion = b.CertVersion
	}
	return a
}

// c08Frame checks, from the wire format alone, that b is exactly one outer field 1 (bytes) whose declared length
// covers precisely the bytes that follow. Returns "" or what is wrong.
func c08Frame(b []byte) string {
	if len(b) < 2 || b[0] != 0x0a {
		return fmt.Sprintf("does not start with the Details tag 0x0a (% x...)", b[:min(len(b), 4)])
	}
	l, n, _ := c08Uvarint(b[1:])
	if n <= 0 {
		return "length prefix is not a varint"
	}
	if written := len(b) - 1 - n; uint64(written) != l {
		return fmt.Sprintf("Details length prefix declares %d bytes, %d were written", l, written)
	}
	return ""
}

// c08JudgeEncode: p -> MarshalPayload -> everything reads the same five fields, whatever the slice
// representation of Cert and of the destination buffer, and whatever is appended behind.
func c08JudgeEncode(r *verifkit.Reporter, s *c08Schema, c c08EncCase) {
	p := c.p
	crt, backing := c08CertAs(p.Cert, c.certRep)
	backingBefore := bytes.Clone(backing)
	out, guard := c08OutAs(c.prefix, c.outRep)
	if c.outRep == 0 || c.outRep == 4 {
		c.prefix = nil
	}
	guardBefore := bytes.Clone(guard)
	rec := func() any {
		m := map[string]any{"payload": c08Show(p), "cert": verifkit.Hex(p.Cert), "cert_nil": crt == nil, "cert_len": len(crt), "cert_cap": cap(crt),
			"cert_representation": c08CertReps[c.certRep], "out_representation": c08OutReps[c.outRep], "prefix": verifkit.Hex(c.prefix), "tail": verifkit.Hex(c.tail)}
		if c.next != nil {
			m["next_payload"] = c08Show(*c.next)
		}
		return m
	}
	in := p
	in.Cert = crt
	var enc []byte
	if r.Guard("C08/panic", rec, func() { enc = MarshalPayload(out, in) }) {
		return
	}
	r.Eval(1)
	if !bytes.HasPrefix(enc, c.prefix) {
		r.Violation("C08/marshal-clobbers-prefix", "MarshalPayload(out, p) did not keep the bytes already in out", rec())
		return
	}
	if !bytes.Equal(backing, backingBefore) || !bytes.Equal(guard, guardBefore) {
		r.Violation("C08/marshal-writes-outside-out", "MarshalPayload modified the Cert's backing array or memory behind a capacity-clipped out", rec())
		return
	}
	b := enc[len(c.prefix):]
	if w := c08Frame(b); w != "" {
		r.Violation("C08/encoding-not-self-delimiting", fmt.Sprintf("encode(p) with Cert %s (nil=%v len=%d): %s; bytes %x", c08CertReps[c.certRep], crt == nil, len(crt), w, b[:min(len(b), 48)]), rec())
		return
	}
	var got Payload
	var err error
	if r.Guard("C08/panic", rec, func() { got, err = UnmarshalPayload(b) }) {
		return
	}
	if err != nil || !c08Same(got, p) {
		r.Violation("C08/roundtrip", fmt.Sprintf("decode(encode(p)) = %s, %v; p = %s", c08Show(got), err, c08Show(p)), rec())
		return
	}
	if vd := c08Walk(b); vd.class != c08WellFormed || !c08Same(vd.p, p) {
		r.Violation("C08/encoding-not-schema", fmt.Sprintf("wire walker reads encode(p) as class %d %s %s", vd.class, vd.why, c08Show(vd.p)), rec())
		return
	}
	if d, err := s.decode(b); err != nil || !c08Same(d, p) {
		r.Violation("C08/encoding-not-schema", fmt.Sprintf("protobuf-go schema decoder reads encode(p) as %s, %v; p = %s", c08Show(d), err, c08Show(p)), rec())
		return
	}
	if d, err := c08GogoDecode(b); err != nil || !c08Same(d, p) {
		r.Violation("C08/encoding-not-schema", fmt.Sprintf("gogo schema decoder reads encode(p) as %s, %v; p = %s", c08Show(d), err, c08Show(p)), rec())
		return
	}
	if ref, err := s.encode(p, true, nil, 0); err == nil && bytes.Equal(ref, b) {
		r.Count("encode.byte-identical-to-protobuf-go", 1)
	} else {
		r.Count("encode.differs-from-protobuf-go-bytes", 1)
		// the encoding of a value must not depend on how the slices are represented
		canon := p
		canon.Cert, _ = c08CertAs(p.Cert, 0)
		if plain := MarshalPayload(nil, canon); !bytes.Equal(plain, b) {
			r.Violation("C08/encoding-depends-on-slice-representation", fmt.Sprintf("same field values encode as %x (Cert %s, out %s) and as %x (plain)", b[:min(len(b), 48)], c08CertReps[c.certRep], c08OutReps[c.outRep], plain[:min(len(plain), 48)]), rec())
			return
		}
	}
	r.Count("encode.cert-"+c08CertReps[c.certRep], 1)
	if len(p.Cert) == 0 {
		r.Count("encode.empty-cert-as-"+c08CertReps[c.certRep], 1)
	}
	r.Count("encode.out-"+c08OutReps[c.outRep], 1)
	// decoding must not look past len(b) into the capacity
	if cap(enc) > len(enc) {
		spare := enc[len(enc):cap(enc)]
		for i := range spare {
			spare[i] = 0x0a
		}
		if g2, e2 := UnmarshalPayload(b); e2 != nil || !c08Same(g2, p) {
			r.Violation("C08/decode-reads-beyond-length", "UnmarshalPayload's result changed when the bytes behind len(b) (inside the capacity) changed", rec())
			return
		}
	}
	if c.next == nil && len(c.tail) == 0 {
		return
	}
	// self-delimiting framing: more data appended into the same buffer; the concatenation must split exactly
	// where the first encoding ended and read as the protobuf merge of the parts.
	stream, want := enc, p
	if c.next != nil {
		nx := *c.next
		nx.Cert, _ = c08CertAs(c.next.Cert, (c.certRep+1)%len(c08CertReps))
		if r.Guard("C08/panic", rec, func() { stream = MarshalPayload(stream, nx) }) {
			return
		}
		want = c08Merge(p, *c.next)
		if w := c08Frame(stream[len(enc):]); w != "" {
			r.Violation("C08/encoding-not-self-delimiting", "second payload appended behind the first: "+w, rec())
			return
		}
	}
	stream = append(stream, c.tail...)
	st := stream[len(c.prefix):]
	r.Eval(1)
	if !bytes.Equal(st[:len(b)], b) {
		r.Violation("C08/marshal-clobbers-prefix", "appending behind an encoded payload changed the encoded payload", rec())
		return
	}
	vd := c08Walk(st)
	if vd.class != c08WellFormed || !c08Same(vd.p, want) {
		r.Violation("C08/concatenation-does-not-split", fmt.Sprintf("wire walker reads encode(p)||more as class %d %s %s, want %s; stream %x", vd.class, vd.why, c08Show(vd.p), c08Show(want), st[:min(len(st), 64)]), rec())
		return
	}
	if r.Guard("C08/panic", rec, func() { got, err = UnmarshalPayload(st) }) {
		return
	}
	d1, e1 := s.decode(st)
	d2, e2 := c08GogoDecode(st)
	if err != nil || e1 != nil || e2 != nil || !c08Same(got, want) || !c08Same(d1, want) || !c08Same(d2, want) {
		r.Violation("C08/concatenation-does-not-split", fmt.Sprintf("encode(p)||more: UnmarshalPayload %s %v, protobuf-go %s %v, gogo %s %v, want %s", c08Show(got), err, c08Show(d1), e1, c08Show(d2), e2, c08Show(want)), rec())
		return
	}
	r.Count("encode.concatenations-split-exactly", 1)
}

// c08JudgeBytes: arbitrary input.
func c08JudgeBytes(r *verifkit.Reporter, s *c08Schema, b []byte, origin string) string {
	rec := func() any { return map[string]any{"input": verifkit.Hex(b), "origin": origin} }
	var got Payload
	var err error
	if r.Guard("C08/panic", rec, func() { got, err = UnmarshalPayload(b) }) {
		return "panic"
	}
	r.Eval(1)
	// the same bytes as a window into a larger buffer (spare capacity full of plausible tag bytes), and as
	// nil / non-nil when empty, must decode identically and the buffer must stay untouched
	big := bytes.Repeat([]byte{0x0a}, len(b)+21)
	copy(big[5:], b)
	bigBefore := bytes.Clone(big)
	var got2 Payload
	var err2 error
	if r.Guard("C08/panic", rec, func() { got2, err2 = UnmarshalPayload(big[5 : 5+len(b)]) }) {
		return "panic"
	}
	if (err == nil) != (err2 == nil) || (err == nil && !c08Same(got, got2)) || !bytes.Equal(big, bigBefore) {
		r.Violation("C08/decode-depends-on-slice-representation", fmt.Sprintf("exact slice: %s %v; window into larger buffer: %s %v; buffer modified=%v", c08Show(got), err, c08Show(got2), err2, !bytes.Equal(big, bigBefore)), rec())
	}
	if len(b) == 0 {
		for _, e := range [][]byte{nil, {}, big[3:3]} {
			if g3, e3 := UnmarshalPayload(e); e3 != nil || !c08Same(g3, Payload{}) {
				r.Violation("C08/decode-depends-on-slice-representation", fmt.Sprintf("empty input (nil=%v) decodes to %s, %v", e == nil, c08Show(g3), e3), rec())
			}
		}
		r.Count("bytes.empty-input-all-representations", 1)
	}
	vd := c08Walk(b)
	switch vd.class {
	case c08Ambiguous:
		r.Count("bytes.ambiguous-unjudged", 1)
		return "ambiguous"
	case c08Violation:
		if err == nil {
			key := "C08/accepts-wrong-wire-type"
			if bytes.Contains([]byte(vd.why), []byte("exceeds")) {
				key = "C08/accepts-out-of-range"
			}
			r.Violation(key, fmt.Sprintf("input has %s but UnmarshalPayload returned %s without error", vd.why, c08Show(got)), rec())
		}
		return "violation-rejected"
	case c08Malformed:
		_, e1 := s.decode(b)
		_, e2 := c08GogoDecode(b)
		if err == nil && e1 != nil && e2 != nil {
			r.Violation("C08/accepts-malformed", fmt.Sprintf("input is malformed (%s), both schema decoders refuse it, UnmarshalPayload returned %s", vd.why, c08Show(got)), rec())
		}
		if err == nil {
			r.Count("bytes.malformed-accepted-like-a-reference", 1)
		}
		return "malformed"
	}
	// well-formed
	if vd.outerWrongType {
		r.Count("bytes.outer-details-wrong-wire-type-unjudged", 1)
		if err == nil {
			r.Count("bytes.outer-details-wrong-wire-type-accepted", 1)
		}
		return "outer-wrong-type"
	}
	if err != nil {
		r.Violation("C08/rejects-well-formed", fmt.Sprintf("well-formed schema message refused: %v (walker reads %s)", err, c08Show(vd.p)), rec())
		return "wellformed"
	}
	if !c08Same(got, vd.p) {
		r.Violation("C08/decodes-differently", fmt.Sprintf("UnmarshalPayload = %s, wire walker = %s", c08Show(got), c08Show(vd.p)), rec())
		return "wellformed"
	}
	d1, e1 := s.decode(b)
	d2, e2 := c08GogoDecode(b)
	if e1 != nil || e2 != nil {
		r.Count("bytes.wellformed-but-a-reference-refuses", 1)
		if e1 != nil && e2 != nil {
			r.Violation("C08/walker-disagrees-with-references", fmt.Sprintf("walker says well-formed, protobuf-go: %v, gogo: %v", e1, e2), rec())
		}
		return "wellformed"
	}
	if !c08Same(d1, got) || !c08Same(d2, got) {
		r.Violation("C08/decodes-differently", fmt.Sprintf("UnmarshalPayload = %s, protobuf-go = %s, gogo = %s", c08Show(got), c08Show(d1), c08Show(d2)), rec())
	}
	return fmt.Sprintf("wellformed/f=%02x", vd.features)
}

// ---- generators --------------------------------------------------------------------------------------------

type c08Gen struct{ rng *mrand.Rand }

func (g c08Gen) varint(v uint64) []byte {
	var b []byte
	for v >= 0x80 {
		b = append(b, byte(v)|0x80)
		v >>= 7
	}
	b = append(b, byte(v))
	switch g.rng.IntN(14) {
	case 0: // padded, still at most 10 bytes
		for len(b) < 10 && g.rng.IntN(3) != 0 {
			b[len(b)-1] |= 0x80
			b = append(b, 0)
		}
	case 1: // padded to exactly 10
		for len(b) < 10 {
			b[len(b)-1] |= 0x80
			b = append(b, 0)
		}
	case 2:
		if g.rng.IntN(4) == 0 { // 11 bytes
			for len(b) < 11 {
				b[len(b)-1] |= 0x80
				b = append(b, 0)
			}
		}
	}
	return b
}

var c08U64s = []uint64{0, 1, 127, 128, 255, 16383, 16384, 1<<32 - 1, 1 << 32, 1<<32 + 1, 1 << 35, 1<<63 - 1, 1 << 63, math.MaxUint64}

func (g c08Gen) u64() uint64 {
	switch g.rng.IntN(4) {
	case 0:
		return c08U64s[g.rng.IntN(len(c08U64s))]
	case 1:
		return uint64(g.rng.Uint32())
	case 2:
		return g.rng.Uint64() >> g.rng.IntN(64)
	}
	return g.rng.Uint64()
}

func (g c08Gen) u32() uint32 {
	switch g.rng.IntN(3) {
	case 0:
		return []uint32{0, 1, 127, 128, 16383, 16384, 1<<31 - 1, 1 << 31, math.MaxUint32}[g.rng.IntN(9)]
	case 1:
		return g.rng.Uint32() >> g.rng.IntN(32)
	}
	return g.rng.Uint32()
}

func (g c08Gen) blob(max int) []byte {
	n := g.rng.IntN(max + 1)
	if g.rng.IntN(4) == 0 {
		n = []int{0, 1, 2, 127, 128, 129}[g.rng.IntN(6)]
		if n > max {
			n = max
		}
	}
	b := make([]byte, n)
	for i := range b {
		b[i] = byte(g.rng.Uint32())
	}
	return b
}

func (g c08Gen) field(num uint64, wt int) []byte {
	b := g.varint(num<<3 | uint64(wt))
	switch wt {
	case 0:
		b = append(b, g.varint(g.u64())...)
	case 1:
		b = binary.LittleEndian.AppendUint64(b, g.rng.Uint64())
	case 5:
		b = binary.LittleEndian.AppendUint32(b, g.rng.Uint32())
	case 2:
		v := g.blob(40)
		b = append(append(b, g.varint(uint64(len(v)))...), v...)
	case 3:
		b = append(b, g.varint(num<<3|4)...) // empty group
	}
	return b
}

func (g c08Gen) payload() Payload {
	var p Payload
	if g.rng.IntN(5) != 0 {
		p.Cert = g.blob(300)
	}
	if len(p.Cert) == 0 {
		p.Cert = nil
	}
	if g.rng.IntN(4) != 0 {
		p.InitiatorIndex = g.u32()
	}
	if g.rng.IntN(4) != 0 {
		p.ResponderIndex = g.u32()
	}
	if g.rng.IntN(4) != 0 {
		p.Time = g.u64()
	}
	if g.rng.IntN(3) != 0 {
		p.CertVersion = []uint32{1, 2, 0, 3, 255, math.MaxUint32}[g.rng.IntN(6)]
	}
	return p
}

func (g c08Gen) details() []byte {
	var d []byte
	for k := g.rng.IntN(8); k > 0; k-- {
		c := g.rng.IntN(100)
		known := []uint64{1, 2, 3, 5, 8}
		wts := map[uint64]int{1: 2, 2: 0, 3: 0, 5: 0, 8: 0}
		switch {
		case c < 62: // known field, right type
			n := known[g.rng.IntN(5)]
			if wts[n] == 0 {
				v := g.u64()
				if n != 5 && g.rng.IntN(12) != 0 {
					v = uint64(g.u32())
				}
				d = append(append(d, g.varint(n<<3)...), g.varint(v)...)
			} else {
				d = append(d, g.field(n, 2)...)
			}
		case c < 70: // known field, wrong type
			n := known[g.rng.IntN(5)]
			wt := []int{0, 1, 2, 5, 3}[g.rng.IntN(5)]
			d = append(d, g.field(n, wt)...)
		case c < 88: // unknown / reserved / deprecated field
			n := []uint64{4, 4, 6, 7, 9, 15, 16, 2047, 2048, 1<<29 - 1, 1 << 29}[g.rng.IntN(11)]
			d = append(d, g.field(n, []int{0, 1, 2, 5, 0, 2, 3, 6, 7}[g.rng.IntN(9)])...)
		case c < 92: // field number 0
			d = append(d, g.field(0, g.rng.IntN(6))...)
		default:
			d = append(d, g.blob(6)...)
		}
	}
	return d
}

func (g c08Gen) message() []byte {
	var m []byte
	for k := 1 + g.rng.IntN(3); k > 0; k-- {
		c := g.rng.IntN(100)
		switch {
		case c < 66:
			d := g.details()
			m = append(append(append(m, g.varint(1<<3|2)...), g.varint(uint64(len(d)))...), d...)
		case c < 76:
			m = append(m, g.field(2, 2)...)
		case c < 88:
			m = append(m, g.field([]uint64{3, 4, 15, 16, 1000, 1<<29 - 1}[g.rng.IntN(6)], []int{0, 1, 2, 5}[g.rng.IntN(4)])...)
		case c < 93:
			m = append(m, g.field(1, []int{0, 1, 5, 3}[g.rng.IntN(4)])...)
		case c < 96:
			m = append(m, g.field(2, []int{0, 1, 5}[g.rng.IntN(3)])...)
		default:
			m = append(m, g.blob(5)...)
		}
	}
	switch g.rng.IntN(12) {
	case 0:
		if len(m) > 0 {
			m = m[:g.rng.IntN(len(m))]
		}
	case 1:
		if len(m) > 0 {
			m[g.rng.IntN(len(m))] ^= 1 << g.rng.IntN(8)
		}
	}
	return m
}

// ---- tests ---------------------------------------------------------------------------------------------------

func TestVerifC08Boundary(t *testing.T) {
	r := verifkit.NewReporter(t, "C08", "boundary",
		"complete enumeration of payloads whose five fields take boundary values (uint32: 0,1,127,128,16383,16384,2^32-1; time: 0,1,2^32,2^63,2^64-1; cert length 0,1,127,128,300,16384,65535,65536; version 0,1,2,255,2^32-1); the empty Cert in all four slice representations (nil, []byte{}, buf[k:k] inside a larger buffer, make(0,n)), other lengths rotating through them; five destination-buffer shapes; every third case followed by a second payload and every fourth by an Hmac field appended into the same buffer; encode/decode/three schema readers/framing; distinct = distinct (payload, Cert representation, out representation)")
	defer r.Done()
	s, err := c08BuildSchema()
	if err != nil {
		r.Inconclusive("cannot build schema: " + err.Error())
		return
	}
	u32 := []uint32{0, 1, 127, 128, 16383, 16384, math.MaxUint32}
	times := []uint64{0, 1, 1 << 32, 1 << 63, math.MaxUint64}
	clens := []int{0, 1, 127, 128, 300, 16384, 65535, 65536}
	vers := []uint32{0, 1, 2, 255, math.MaxUint32}
	certs := map[int][]byte{}
	for _, l := range clens {
		c := make([]byte, l)
		for i := range c {
			c[i] = byte(i*131 + l)
		}
		if l == 0 {
			c = nil
		}
		certs[l] = c
	}
	n := 0
	for _, ii := range u32 {
		for _, ri := range u32 {
			for _, tm := range times {
				for _, cl := range clens {
					for _, v := range vers {
						n++
						if !verifkit.Mine(n) {
							continue
						}
						p := Payload{Cert: certs[cl], InitiatorIndex: ii, ResponderIndex: ri, Time: tm, CertVersion: v}
						// an empty Cert is tried in every representation (nil, []byte{}, buf[k:k], make(0,n)); other
						// lengths rotate through them
						reps := []int{n % len(c08CertReps)}
						if cl == 0 {
							reps = []int{0, 1, 2, 3}
						}
						for _, rep := range reps {
							c := c08EncCase{p: p, certRep: rep, outRep: (n + rep) % len(c08OutReps), prefix: []byte{0xde, 0xad, 0xbe, 0xef}}
							if n%3 == 0 {
								c.next = &Payload{InitiatorIndex: ri ^ 5, Time: tm, Cert: certs[clens[(n/3)%3]]}
							}
							if n%4 == 0 {
								c.tail = []byte{0x12, 0x03, 'm', 'a', 'c'} // Hmac field
							}
							r.Pre("boundary %d %s rep %d", n, c08Show(p), rep)
							c08JudgeEncode(r, s, c)
							r.Distinct(fmt.Sprintf("%d|%d|%d|%d|%d|%d|%d", ii, ri, tm, cl, v, rep, c.outRep))
						}
						if n%2500 == 1 {
							r.Sample(map[string]any{"payload": c08Show(p)})
						}
					}
				}
			}
		}
	}
	r.Exhaustive(fmt.Sprintf("all %d combinations of the listed boundary values of the five payload fields; every combination with an empty Cert in all 4 slice representations", n))
}

func TestVerifC08Codec(t *testing.T) {
	r := verifkit.NewReporter(t, "C08", "codec",
		"PRNG: (a) random payloads through MarshalPayload and all readers, with random Cert slice representation (nil / non-nil empty / window into larger buffer / spare capacity), random destination-buffer shape, and in half of the cases a second payload and/or further outer fields appended behind in the same buffer (concatenation must split exactly); (b) random in-range schema messages (with Hmac, Cookie, absent/empty Details) encoded by protobuf-go and by gogo, read by UnmarshalPayload; (c) grammar-aware byte strings: Details/Hmac/unknown fields of every wire type, repeated fields and repeated Details, wrong wire types and out-of-range values on known fields, non-minimal / over-long / truncated varints, field number 0, groups, random truncation and bit flips; (d) uniformly random byte strings. distinct = distinct inputs (hashed) plus distinct (walker class, feature set) classes")
	defer r.Done()
	s, err := c08BuildSchema()
	if err != nil {
		r.Inconclusive("cannot build schema: " + err.Error())
		return
	}
	n := verifkit.Scale(240_000, 24_000_000)
	for i := 0; i < n; i++ {
		if !verifkit.Mine(i) {
			continue
		}
		g := c08Gen{verifkit.SubRand("C08codec", i)}
		switch i % 8 {
		case 0: // (a)
			p := g.payload()
			r.Pre("codec %d payload %s", i, c08Show(p))
			c := c08EncCase{p: p, certRep: g.rng.IntN(len(c08CertReps)), outRep: g.rng.IntN(len(c08OutReps)), prefix: g.blob(12)}
			if g.rng.IntN(2) == 0 {
				nx := g.payload()
				c.next = &nx
			}
			if g.rng.IntN(3) == 0 {
				c.tail = g.field(2, 2)
				if g.rng.IntN(2) == 0 {
					c.tail = append(c.tail, g.field(15, []int{0, 1, 2, 5}[g.rng.IntN(4)])...)
				}
				if c08Walk(c.tail).class != c08WellFormed { // generator may emit over-long varints: keep the tail well-formed
					c.tail = nil
				}
			}
			c08JudgeEncode(r, s, c)
			r.Distinct(fmt.Sprintf("p%s|%d|%d|%v|%x", c08Show(p), c.certRep, c.outRep, c.next != nil, c.tail))
			emp := "non-empty"
			if len(p.Cert) == 0 {
				emp = "empty"
			}
			r.DistinctClass(fmt.Sprintf("payload encode/decode: %s Cert as %s, out %s, followed by payload=%v tail=%v", emp, c08CertReps[c.certRep], c08OutReps[c.outRep], c.next != nil, len(c.tail) > 0))
		case 1: // (b)
			p := g.payload()
			withDetails := g.rng.IntN(8) != 0
			var hmac []byte
			var cookie uint64
			if g.rng.IntN(3) == 0 {
				hmac = g.blob(32)
			}
			if g.rng.IntN(3) == 0 {
				cookie = g.u64()
			}
			want := p
			if !withDetails {
				want = Payload{}
			}
			for which, enc := range []func() ([]byte, error){
				func() ([]byte, error) { return s.encode(p, withDetails, hmac, cookie) },
				func() ([]byte, error) { return c08GogoEncode(p, withDetails, hmac, cookie) }} {
				b, err := enc()
				if err != nil {
					r.Count("schema-encode-error", 1)
					continue
				}
				rec := map[string]any{"encoder": []string{"protobuf-go", "gogo"}[which], "message": verifkit.Hex(b), "payload": c08Show(p), "details_present": withDetails}
				r.Pre("codec %d schema message %x", i, b)
				var got Payload
				var derr error
				if r.Guard("C08/panic", func() any { return rec }, func() { got, derr = UnmarshalPayload(b) }) {
					continue
				}
				r.Eval(1)
				if derr != nil || !c08Same(got, want) {
					r.Violation("C08/misreads-schema-message", fmt.Sprintf("schema message with fields %s read as %s, %v", c08Show(want), c08Show(got), derr), rec)
				}
				r.Distinct("m" + string(b))
				r.DistinctClass(fmt.Sprintf("schema message by %s details=%v hmac=%v cookie=%v", rec["encoder"], withDetails, len(hmac) > 0, cookie != 0))
			}
		case 7: // (d)
			b := g.blob(24)
			r.Pre("codec %d random %x", i, b)
			cls := c08JudgeBytes(r, s, b, "random bytes")
			r.Distinct("b" + string(b))
			r.DistinctClass("random bytes: " + cls)
		default: // (c)
			b := g.message()
			r.Pre("codec %d grammar %x", i, b)
			cls := c08JudgeBytes(r, s, b, "grammar-aware")
			r.Distinct("b" + string(b))
			r.DistinctClass("grammar: " + cls)
			r.Count("grammar."+cls[:min(len(cls), 10)], 1)
			if i < 40 && r.WantSample() {
				r.Sample(map[string]any{"input": verifkit.Hex(b), "class": cls})
			}
		}
	}
}
