package handshake

// C05 — a handshake completes only with an authenticated peer (Machine level).
//
// A hostile network runs several concurrent IX sessions between real Machines. Participants (generator
// ground truth, per curve): alice, bob, carol (trusted), mallory (trusted, but run by the adversary), xavier
// (certificate from a CA the pool does not trust), erin (expired certificate), larry (blocklisted certificate),
// kate (holds her own key pair but presents alice's certificates). The adversary owns every message: it
// delivers, drops, duplicates, reorders, truncates, flips bits, splices, rewrites headers, replays across
// sessions, and crafts messages with the Noise library directly (claiming somebody's static key and
// certificate without the private key, or its own key with somebody's certificate).
//
// Oracle, evaluated at every ProcessPacket that returns a Result (written from the statement):
//  1. Result.RemoteCert is byte-for-byte a certificate the trusted CA issued, valid at the verifier's instant
//     and not blocklisted (ground truth table, not the code's verdict);
//  2. RemoteCert's public key == hs.PeerStatic() == the key that certificate was issued for;
//  3. initiator: the Noise part of the input that completed it is byte-identical to a reply produced by a
//     Machine that holds the private key of the reported identity, produced in answer to exactly this
//     initiator's first message;
//  4. responder: if the input's Noise part is a genuine first message, its producer is the reported identity;
//     if it is adversary-built (IX lets a responder complete before the initiator proved possession), the
//     reported (certificate, key) pair must still be a genuine acceptable pair (1, 2) and the adversary must be
//     unable to use the session: its own Noise state cannot read the reply, and nothing sealed with a key the
//     adversary holds opens under the responder's DKey.
// After Failed(), every input returns ErrMachineFailed.

import (
	"bytes"
	"crypto/rand"
	"errors"
	"fmt"
	mrand "math/rand/v2"
	"testing"

	"github.com/flynn/noise"
	"github.com/slackhq/nebula/cert"
	"github.com/slackhq/nebula/header"
	"github.com/slackhq/nebula/noiseutil"
	"github.com/slackhq/nebula/verifkit"
)

type c05World struct {
	pki     *vhsPKI
	honest  []*vhsIdent
	bad     []*vhsIdent
	mallory *vhsIdent
	all     []*vhsIdent
}

func c05NewWorld(cv vhsCurve) *c05World {
	p := vhsNewPKI(cv)
	w := &c05World{pki: p}
	for _, n := range []string{"alice", "bob", "carol"} {
		w.honest = append(w.honest, p.add(n, vhsTrusted, cert.Version2, cert.Version1))
	}
	w.mallory = p.add("mallory", vhsTrusted, cert.Version2, cert.Version1)
	w.bad = append(w.bad,
		p.add("xavier", vhsUntrustedCA, cert.Version2, cert.Version1),
		p.add("erin", vhsExpired, cert.Version2, cert.Version1),
		p.add("larry", vhsBlocklisted, cert.Version2, cert.Version1),
		p.addKeyMismatch("kate", w.honest[0]))
	w.all = append(append(append([]*vhsIdent{}, w.honest...), w.mallory), w.bad...)
	return w
}

type c05Mach struct {
	id        int
	m         *Machine
	owner     *vhsIdent
	initiator bool
	msg1      []byte
	completed int
	inputs    int
}

type c05Forge struct {
	hs    *noise.HandshakeState
	claim string
	kind  string
}

type c05Msg struct {
	b        []byte
	origin   string // "genuine1", "genuine2", "forged1", "forged2", "mutated"
	producer *c05Mach
	forge    *c05Forge
}

type c05Reply struct {
	producer  *c05Mach
	inReplyTo string // Noise part of the input the producer answered
}

type c05Hist struct {
	w       *c05World
	cipher  vhsCipher
	rng     *mrand.Rand
	r       *verifkit.Reporter
	machs   []*c05Mach
	pool    []*c05Msg
	genuine map[string]*c05Mach  // Noise part of a genuine first message -> producer
	replies map[string]*c05Reply // Noise part of a genuine reply -> provenance
	forged  map[string]*c05Forge // Noise part of a forged first message -> forging state
	ring    []noiseutil.CipherState
	log     []map[string]any
	trace   []byte
	nextIdx uint32
}

func (h *c05Hist) replay() any {
	return map[string]any{"curve": h.w.pki.curve.name, "cipher": h.cipher.name, "actions": h.log,
		"note": "ephemeral keys are random: the record holds every delivered byte string and every machine's identity/role"}
}

func (h *c05Hist) newMach(owner *vhsIdent, initiator bool) *c05Mach {
	h.nextIdx++
	have := []cert.Version{cert.Version2, cert.Version1}
	first := cert.Version2
	switch h.rng.IntN(4) {
	case 0:
		have, first = []cert.Version{cert.Version1}, cert.Version1
	case 1:
		have = []cert.Version{cert.Version2}
	case 2:
		first = cert.Version1
	}
	m, err := vhsMachine(owner, h.cipher, first, h.w.pki.verifier(), 1000+h.nextIdx, initiator, have...)
	if err != nil {
		h.r.Inconclusive("NewMachine: " + err.Error())
		return nil
	}
	mc := &c05Mach{id: len(h.machs), m: m, owner: owner, initiator: initiator}
	h.machs = append(h.machs, mc)
	h.log = append(h.log, map[string]any{"new_machine": mc.id, "owner": owner.name, "class": owner.class, "initiator": initiator, "first_version": int(first), "have": fmt.Sprint(have)})
	if initiator {
		out, err := m.Initiate(nil)
		if err != nil {
			h.r.Inconclusive("Initiate: " + err.Error())
			return nil
		}
		mc.msg1 = out
		h.genuine[string(out[header.Len:])] = mc
		h.pool = append(h.pool, &c05Msg{b: out, origin: "genuine1", producer: mc})
	}
	return mc
}

func (h *c05Hist) suite() noise.CipherSuite {
	return noise.NewCipherSuite(h.w.pki.curve.dh, h.cipher.fn, noise.HashSHA256)
}

// forge1 crafts a first message with the Noise library: the adversary has no private key of the claimed identity.
func (h *c05Hist) forge1() *c05Msg {
	y := h.w.honest[h.rng.IntN(len(h.w.honest))]
	pub, priv := vhsKeypair(h.w.pki.curve)
	v := []cert.Version{cert.Version1, cert.Version2}[h.rng.IntN(2)]
	kind := []string{"claim-static-and-cert", "own-static-with-victims-cert", "claim-static-no-cert", "claim-static-mallory-cert", "claim-static-flipped-cert"}[h.rng.IntN(5)]
	static := noise.DHKey{Private: priv, Public: y.pub}
	pl := Payload{Cert: y.hsBytes[v], CertVersion: uint32(v), InitiatorIndex: 7000 + h.rng.Uint32N(1000), Time: 1}
	switch kind {
	case "own-static-with-victims-cert":
		static.Public = pub
	case "claim-static-no-cert":
		pl.Cert = nil
	case "claim-static-mallory-cert":
		pl.Cert = h.w.mallory.hsBytes[v]
	case "claim-static-flipped-cert":
		c := bytes.Clone(pl.Cert)
		c[h.rng.IntN(len(c))] ^= 1 << h.rng.IntN(8)
		pl.Cert = c
	}
	hs, err := noise.NewHandshakeState(noise.Config{CipherSuite: h.suite(), Random: rand.Reader, Pattern: noise.HandshakeIX,
		Initiator: true, StaticKeypair: static, PresharedKey: []byte{}})
	if err != nil {
		return nil
	}
	out := make([]byte, header.Len, 512)
	header.Encode(out, header.Version, header.Handshake, header.HandshakeIXPSK0, 0, 1)
	out, _, _, err = hs.WriteMessage(out, MarshalPayload(nil, pl))
	if err != nil {
		return nil
	}
	f := &c05Forge{hs: hs, claim: y.name, kind: kind}
	h.forged[string(out[header.Len:])] = f
	return &c05Msg{b: out, origin: "forged1:" + kind + ":" + y.name, forge: f}
}

// forge2 crafts a reply to a pending initiator's first message.
func (h *c05Hist) forge2(victim *c05Mach) *c05Msg {
	y := h.w.honest[h.rng.IntN(len(h.w.honest))]
	pub, priv := vhsKeypair(h.w.pki.curve)
	v := []cert.Version{cert.Version1, cert.Version2}[h.rng.IntN(2)]
	kind := []string{"own-static-with-victims-cert", "claim-static-and-cert", "own-static-no-cert", "own-static-mallory-cert"}[h.rng.IntN(4)]
	static := noise.DHKey{Private: priv, Public: pub}
	pl := Payload{Cert: y.hsBytes[v], CertVersion: uint32(v), ResponderIndex: 8000 + h.rng.Uint32N(1000), InitiatorIndex: 1, Time: 1}
	switch kind {
	case "claim-static-and-cert":
		static.Public = y.pub
	case "own-static-no-cert":
		pl.Cert = nil
	case "own-static-mallory-cert":
		pl.Cert = h.w.mallory.hsBytes[v]
	}
	hs, err := noise.NewHandshakeState(noise.Config{CipherSuite: h.suite(), Random: rand.Reader, Pattern: noise.HandshakeIX,
		Initiator: false, StaticKeypair: static, PresharedKey: []byte{}})
	if err != nil {
		return nil
	}
	if _, _, _, err := hs.ReadMessage(nil, victim.msg1[header.Len:]); err != nil {
		return nil
	}
	out := make([]byte, header.Len, 512)
	header.Encode(out, header.Version, header.Handshake, header.HandshakeIXPSK0, 1, 2)
	out, _, _, err = hs.WriteMessage(out, MarshalPayload(nil, pl))
	if err != nil {
		return nil
	}
	return &c05Msg{b: out, origin: "forged2:" + kind + ":" + y.name, forge: &c05Forge{hs: hs, claim: y.name, kind: kind}}
}

func (h *c05Hist) mutate(m *c05Msg) *c05Msg {
	b := bytes.Clone(m.b)
	dh := h.w.pki.curve.pubLen
	bounds := []int{0, 1, header.Len - 1, header.Len, header.Len + 1, header.Len + dh - 1, header.Len + dh, header.Len + dh + 1, header.Len + 2*dh, header.Len + 2*dh + 16, len(b) - 17, len(b) - 16, len(b) - 1}
	kind := []string{"truncate", "flip", "splice", "header", "extend", "flip-payload"}[h.rng.IntN(6)]
	if len(b) < header.Len+4 {
		kind = "extend" // nothing left to cut or flip in a stub
	}
	switch kind {
	case "truncate":
		l := h.rng.IntN(len(b))
		if h.rng.IntN(2) == 0 {
			l = bounds[h.rng.IntN(len(bounds))]
		}
		if l < 0 || l > len(b) {
			l = 0
		}
		b = b[:l]
	case "flip":
		for k := 0; k <= h.rng.IntN(3); k++ {
			b[h.rng.IntN(len(b))] ^= 1 << h.rng.IntN(8)
		}
	case "flip-payload":
		off := header.Len + 2*dh
		if off < len(b) {
			b[off+h.rng.IntN(len(b)-off)] ^= 1 << h.rng.IntN(8)
		}
	case "splice":
		o := h.pool[h.rng.IntN(len(h.pool))].b
		cut := bounds[h.rng.IntN(len(bounds))]
		if h.rng.IntN(3) == 0 {
			cut = h.rng.IntN(len(b))
		}
		if cut < 0 {
			cut = 0
		}
		if cut > len(b) {
			cut = len(b)
		}
		if cut < len(o) {
			b = append(b[:cut:cut], o[cut:]...)
		}
	case "header":
		i := []int{0, 2, 3, 4, 5, 6, 7, 8, 15}[h.rng.IntN(9)] // everything but the subtype byte
		b[i] ^= byte(1 + h.rng.IntN(255))
	case "extend":
		b = append(b, byte(h.rng.Uint32()), byte(h.rng.Uint32()))
	}
	return &c05Msg{b: b, origin: "mutated:" + kind + "(" + m.origin + ")"}
}

// deliver hands a message to a machine and judges what comes out.
func (h *c05Hist) deliver(msg *c05Msg, t *c05Mach) string {
	h.log = append(h.log, map[string]any{"deliver": verifkit.Hex(msg.b), "origin": msg.origin, "to_machine": t.id})
	wasFailed := t.m.Failed()
	var out []byte
	var res *Result
	var err error
	if h.r.Guard("C05/panic", h.replay, func() { out, res, err = t.m.ProcessPacket(nil, msg.b) }) {
		return "panic"
	}
	t.inputs++
	h.r.Eval(1)
	role := "responder"
	if t.initiator {
		role = "initiator"
	}
	if wasFailed {
		if !errors.Is(err, ErrMachineFailed) || out != nil || res != nil {
			h.r.Violation("C05/failed-machine-accepts-input", fmt.Sprintf("machine %d (%s %s) had failed, yet ProcessPacket returned err=%v result=%v", t.id, t.owner.name, role, err, res != nil), h.replay())
		}
		return "refused-after-failure"
	}
	if err != nil && (out != nil || res != nil) {
		h.r.Violation("C05/error-with-result", fmt.Sprintf("machine %d: error %v together with output", t.id, err), h.replay())
	}
	body := ""
	if len(msg.b) >= header.Len {
		body = string(msg.b[header.Len:])
	}
	if res != nil {
		t.completed++
		h.judge(t, role, msg, body, out, res)
	}
	if out != nil && !t.initiator {
		// a reply produced by a real Machine: record its provenance and hand it to the adversary
		mm := &c05Msg{b: out, origin: "genuine2", producer: t}
		h.replies[string(out[header.Len:])] = &c05Reply{producer: t, inReplyTo: body}
		h.pool = append(h.pool, mm)
	}
	switch {
	case res != nil:
		return "completed"
	case err == nil:
		return "accepted-no-result"
	case t.m.Failed():
		return "rejected-fatal"
	default:
		return "rejected-usable"
	}
}

func (h *c05Hist) judge(t *c05Mach, role string, msg *c05Msg, body string, out []byte, res *Result) {
	r := h.r
	r.Count("completed."+role, 1)
	bad := func(key, what string) {
		r.Violation("C05/"+role+"-"+key, fmt.Sprintf("machine %d (%s, %s) completed on input %q: %s", t.id, t.owner.name, role, msg.origin, what), h.replay())
	}
	if res.RemoteCert == nil || res.RemoteCert.Certificate == nil {
		bad("no-certificate", "Result.RemoteCert is nil")
		return
	}
	rc := res.RemoteCert.Certificate
	full, err := rc.Marshal()
	if err != nil {
		bad("no-certificate", "RemoteCert does not marshal: "+err.Error())
		return
	}
	iss := h.w.pki.issued[string(full)]
	if iss == nil {
		bad("unknown-certificate", fmt.Sprintf("RemoteCert (name %q) is not byte-identical to any certificate that was ever issued", rc.Name()))
		return
	}
	if !iss.acceptable {
		bad("unacceptable-certificate-"+iss.class, fmt.Sprintf("RemoteCert of %s is %s and must not be accepted", iss.owner, iss.class))
		return
	}
	ps := t.m.hs.PeerStatic()
	if !bytes.Equal(rc.PublicKey(), ps) || !bytes.Equal(ps, iss.issuedFor) {
		bad("static-key-mismatch", fmt.Sprintf("certificate of %s issued for %x, reported key %x, Noise static %x", iss.owner, iss.issuedFor, rc.PublicKey(), ps))
		return
	}
	r.Count("completed.with."+iss.owner, 1)
	if t.initiator {
		pv := h.replies[body]
		switch {
		case pv == nil:
			bad("completed-on-forged-reply", "the Noise part of the input was never produced by a Machine (reported identity "+iss.owner+")")
		case !bytes.Equal(pv.producer.owner.pub, iss.issuedFor) || pv.producer.owner.name != iss.owner:
			bad("reports-other-identity", fmt.Sprintf("reply was produced by %s (holding key %x) but the result reports %s", pv.producer.owner.name, pv.producer.owner.pub, iss.owner))
		case pv.inReplyTo != string(t.msg1[header.Len:]):
			bad("completed-on-reply-to-other-session", "the reply had been produced in answer to a different first message")
		default:
			r.Count("oracle3.initiator-provenance-ok", 1)
		}
		return
	}
	// responder
	if g := h.genuine[body]; g != nil {
		if !bytes.Equal(g.owner.pub, iss.issuedFor) || g.owner.name != iss.owner {
			bad("reports-other-identity", fmt.Sprintf("first message was produced by %s but the result reports %s", g.owner.name, iss.owner))
		} else {
			r.Count("oracle4.genuine-first-message", 1)
		}
		return
	}
	// adversary-built first message that a responder completed on: allowed by IX only with a genuine pair (checked
	// above); the adversary must not be able to use the session.
	r.Count("oracle4.adversary-built-first-message-completed", 1)
	if f := h.forged[body]; f != nil && out != nil {
		if _, _, _, err := f.hs.ReadMessage(nil, out[header.Len:]); err == nil {
			bad("forger-reads-reply", fmt.Sprintf("the adversary (%s, claiming %s without the private key) could read the reply", f.kind, f.claim))
		} else {
			r.Count("oracle4.forger-cannot-read-reply", 1)
		}
	}
	dk := noiseutil.NewCipherState(res.DKey, res.Cipher)
	nb := make([]byte, 12)
	for i, k := range h.ring {
		for _, n := range []uint64{0, 1, 3} {
			c, err := k.EncryptDanger(nil, []byte("0123456789abcdef"), []byte("x"), n, nb)
			if err != nil {
				continue
			}
			if _, err := dk.DecryptDanger(nil, []byte("0123456789abcdef"), c, n, nb); err == nil {
				bad("adversary-key-authenticates", fmt.Sprintf("a packet sealed with adversary key #%d opens under the responder's DKey", i))
			}
			r.Count("oracle4.adversary-key-probes", 1)
		}
	}
}

// run executes one history.
func (h *c05Hist) run(actions int) {
	w := h.w
	nsess := 2 + h.rng.IntN(5)
	for i := 0; i < nsess; i++ {
		h.newMach(w.all[h.rng.IntN(len(w.all))], true)
	}
	// the adversary's key ring: keys of sessions it legitimately owns (mallory <-> honest), plus random keys
	h.seedRing()
	pick := func() *c05Msg { return h.pool[h.rng.IntN(len(h.pool))] }
	target := func(forStage int) *c05Mach {
		// existing machine or (for first messages) a fresh responder
		if forStage == 1 && h.rng.IntN(5) != 0 {
			var owner *vhsIdent
			if h.rng.IntN(3) == 0 {
				owner = w.all[h.rng.IntN(len(w.all))]
			} else {
				owner = w.honest[h.rng.IntN(len(w.honest))]
			}
			return h.newMach(owner, false)
		}
		return h.machs[h.rng.IntN(len(h.machs))]
	}
	var last *c05Msg
	var lastT *c05Mach
	for a := 0; a < actions && len(h.pool) > 0; a++ {
		var msg *c05Msg
		var t *c05Mach
		act := h.rng.IntN(100)
		switch {
		case act < 34: // plain delivery of a genuine message to where it belongs (or a plausible place)
			msg = pick()
			switch {
			case msg.origin == "genuine1":
				t = target(1)
			case msg.origin == "genuine2":
				// find the initiator whose first message this answers
				if pv := h.replies[string(msg.b[header.Len:])]; pv != nil {
					if g := h.genuine[pv.inReplyTo]; g != nil && h.rng.IntN(6) != 0 {
						t = g
					}
				}
				if t == nil {
					t = target(2)
				}
			default:
				t = target(1 + h.rng.IntN(2))
			}
		case act < 46: // cross-session / wrong-place replay of anything
			msg, t = pick(), target(1+h.rng.IntN(2))
		case act < 70: // mutation
			msg = h.mutate(pick())
			h.pool = append(h.pool, msg)
			t = target(1 + h.rng.IntN(2))
		case act < 80:
			if msg = h.forge1(); msg != nil {
				h.pool = append(h.pool, msg)
				t = h.newMach(w.honest[h.rng.IntN(len(w.honest))], false)
			}
		case act < 88:
			var inits []*c05Mach
			for _, m := range h.machs {
				if m.initiator && m.completed == 0 && !m.m.Failed() {
					inits = append(inits, m)
				}
			}
			if len(inits) > 0 {
				t = inits[h.rng.IntN(len(inits))]
				if msg = h.forge2(t); msg != nil {
					h.pool = append(h.pool, msg)
				}
			}
		case act < 94: // duplicate the previous delivery
			msg, t = last, lastT
		default: // a new session starts
			h.newMach(w.all[h.rng.IntN(len(w.all))], true)
			continue
		}
		if msg == nil || t == nil {
			continue
		}
		oc := h.deliver(msg, t)
		last, lastT = msg, t
		role := "R"
		if t.initiator {
			role = "I"
		}
		o := msg.origin
		if i := bytes.IndexByte([]byte(o), '('); i > 0 {
			o = o[:i]
		}
		if i := bytes.LastIndexByte([]byte(o), ':'); i > 0 && (bytes.HasPrefix([]byte(o), []byte("forged"))) {
			o = o[:i] // drop the claimed name
		}
		tc := "acceptable"
		if t.owner.class != vhsTrusted {
			tc = "unacceptable"
		}
		cls := fmt.Sprintf("%s to %s(%s) -> %s", o, role, tc, oc)
		h.r.DistinctClass(cls)
		h.r.Count("outcome."+oc, 1)
		if oc == "rejected-fatal" || oc == "rejected-usable" {
			if msg.producer != nil && msg.producer.owner.class != vhsTrusted {
				h.r.Count("rejected.peer-"+msg.producer.owner.class, 1)
			}
			if msg.forge != nil {
				h.r.Count("rejected.forged", 1)
			}
		}
		h.trace = append(h.trace, []byte(cls+";")...)
	}
}

func (h *c05Hist) seedRing() {
	// mallory completes an honest session with a trusted peer: the adversary legitimately holds these keys
	w := h.w
	peer := w.honest[h.rng.IntN(len(w.honest))]
	mi, err1 := vhsMachine(w.mallory, h.cipher, cert.Version2, w.pki.verifier(), 31, true)
	mr, err2 := vhsMachine(peer, h.cipher, cert.Version2, w.pki.verifier(), 32, false)
	if err1 != nil || err2 != nil {
		return
	}
	m1, err := mi.Initiate(nil)
	if err != nil {
		return
	}
	m2, _, err := mr.ProcessPacket(nil, m1)
	if err != nil {
		return
	}
	_, ra, err := mi.ProcessPacket(nil, m2)
	if err != nil || ra == nil {
		return
	}
	h.ring = append(h.ring, noiseutil.NewCipherState(ra.EKey, ra.Cipher), noiseutil.NewCipherState(ra.DKey, ra.Cipher))
}

func TestVerifC05Hostile(t *testing.T) {
	r := verifkit.NewReporter(t, "C05", "hostile",
		"PRNG histories: 2..6 concurrent IX sessions among 8 identities (3 trusted, adversary-run trusted, untrusted CA, expired, blocklisted, key/cert mismatch) per curve and cipher, random certificate-version set-ups, up to 40 adversary actions (deliver, cross-session replay, truncate/flip/splice/header/extend mutations, Noise-level forgeries of both messages, duplicates, new sessions); every ProcessPacket is one evaluation; distinct = distinct histories (sequence of (message provenance, target role/class, outcome)) plus the distinct step classes")
	defer r.Done()
	n := verifkit.Scale(2400, 120000)
	worlds := map[string]*c05World{}
	for i := 0; i < n; i++ {
		if !verifkit.Mine(i) {
			continue
		}
		rng := verifkit.SubRand("C05hist", i)
		cv := vhsCurves[rng.IntN(len(vhsCurves))]
		w := worlds[cv.name]
		if w == nil {
			w = c05NewWorld(cv)
			worlds[cv.name] = w
		}
		h := &c05Hist{w: w, cipher: vhsCiphers[rng.IntN(len(vhsCiphers))], rng: rng, r: r,
			genuine: map[string]*c05Mach{}, replies: map[string]*c05Reply{}, forged: map[string]*c05Forge{}}
		r.Pre("history %d %s %s", i, cv.name, h.cipher.name)
		h.run(10 + rng.IntN(31))
		r.Distinct(fmt.Sprintf("%s|%s|%s", cv.name, h.cipher.name, h.trace))
		r.Count("histories", 1)
		if i < 2 {
			r.Sample(map[string]any{"history": i, "curve": cv.name, "cipher": h.cipher.name, "steps": string(h.trace)})
		}
	}
}

// TestVerifC05Matrix enumerates the plain scenarios completely: every identity class on either side of an
// otherwise honest session, per curve, cipher and certificate version. The same judge decides.
func TestVerifC05Matrix(t *testing.T) {
	r := verifkit.NewReporter(t, "C05", "matrix",
		"enumeration: curve x cipher x cert version x peer identity (8) x peer role; honest alice/bob on the other side; completions are judged by the same oracle, non-completions of unacceptable peers are counted; distinct = distinct (curve, cipher, version, peer, role, outcome)")
	defer r.Done()
	caseNo := 0
	for _, cv := range vhsCurves {
		w := c05NewWorld(cv)
		for _, ci := range vhsCiphers {
			for _, v := range []cert.Version{cert.Version1, cert.Version2} {
				for _, peer := range w.all {
					for _, peerInitiates := range []bool{true, false} {
						caseNo++
						if !verifkit.Mine(caseNo) {
							continue
						}
						h := &c05Hist{w: w, cipher: ci, rng: verifkit.SubRand("C05matrix", caseNo), r: r,
							genuine: map[string]*c05Mach{}, replies: map[string]*c05Reply{}, forged: map[string]*c05Forge{}}
						me := w.honest[1]
						if peer == me {
							me = w.honest[2]
						}
						mk := func(id *vhsIdent, init bool) *c05Mach {
							m, err := vhsMachine(id, ci, v, w.pki.verifier(), uint32(100+len(h.machs)), init, v)
							if err != nil {
								r.Inconclusive("NewMachine: " + err.Error())
								return nil
							}
							mc := &c05Mach{id: len(h.machs), m: m, owner: id, initiator: init}
							h.machs = append(h.machs, mc)
							h.log = append(h.log, map[string]any{"new_machine": mc.id, "owner": id.name, "class": id.class, "initiator": init, "version": int(v)})
							if init {
								mc.msg1, err = m.Initiate(nil)
								if err != nil {
									r.Inconclusive("Initiate: " + err.Error())
									return nil
								}
								h.genuine[string(mc.msg1[header.Len:])] = mc
							}
							return mc
						}
						ini, rsp := peer, me
						if !peerInitiates {
							ini, rsp = me, peer
						}
						mi, mr := mk(ini, true), mk(rsp, false)
						if mi == nil || mr == nil {
							continue
						}
						o1 := h.deliver(&c05Msg{b: mi.msg1, origin: "genuine1", producer: mi}, mr)
						o2 := "no-reply"
						if len(h.pool) > 0 {
							o2 = h.deliver(h.pool[len(h.pool)-1], mi)
						}
						honestCompleted := (peerInitiates && o1 == "completed") || (!peerInitiates && o2 == "completed")
						cls := fmt.Sprintf("%s/%s/v%d peer=%s(%s) peer-initiates=%v: responder %s, initiator %s", cv.name, ci.name, v, peer.name, peer.class, peerInitiates, o1, o2)
						r.DistinctClass(cls)
						r.Distinct(cls)
						if peer.class == vhsTrusted {
							if honestCompleted {
								r.Count("trusted-peer-completed", 1)
							} else {
								r.Count("trusted-peer-not-completed", 1)
								r.Inconclusive("honest session with trusted peer did not complete: " + cls)
							}
						} else if !honestCompleted {
							r.Count("unacceptable-peer-refused."+peer.class, 1)
						}
					}
				}
			}
		}
	}
	r.Exhaustive("curve x cipher x certificate version x 8 peer identities x peer role, one plain session each")
}
