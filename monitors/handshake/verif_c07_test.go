package handshake

// C07 — a rejected handshake message never wedges the handshake.
//
// Oracle (from the statement): a fresh honest pair (I, R) is created for every case. The victim (R for
// the first IX message, I for the second) is given a bad input one or several times before the genuine
// message.
//   - bad input rejected (error) and victim.Failed()==false  => delivering the genuine message must complete
//     the handshake exactly like the twin pair that never saw the bad input: both sides complete, report each
//     other's certificate, and keys / indexes / message count pair up (C06 agreement).
//   - victim.Failed()==true => every later call (genuine message, garbage, Initiate) returns ErrMachineFailed
//     and produces nothing.
//   - bad input accepted (no error) => not a rejection; outside this property (counted, C05 judges it).
// Witness classes (violation keys) are functions of the *input* (stage, mutation kind, region / length class,
// validity of the ephemeral as a DH public key), not of the code path that mishandles it.

import (
	"bytes"
	"crypto/rand"
	"errors"
	"fmt"
	"sort"
	"testing"

	"github.com/flynn/noise"
	"github.com/slackhq/nebula/cert"
	"github.com/slackhq/nebula/header"
	"github.com/slackhq/nebula/verifkit"
)

type c07Cfg struct {
	curve  vhsCurve
	cipher vhsCipher
	ver    cert.Version
	pki    *vhsPKI
	a, b   *vhsIdent // a initiates, b responds
	other  *vhsIdent // third trusted identity for cross-session material
}

func (c *c07Cfg) String() string {
	return fmt.Sprintf("%s/%s/v%d", c.curve.name, c.cipher.name, c.ver)
}

type c07Pair struct {
	i, r   *Machine
	msg1   []byte
	msg2   []byte
	resR   *Result
	idxI   uint32
	idxR   uint32
	failed string
}

// c07NewPair builds fresh machines and the genuine messages up to (and including) the stage asked for.
func c07NewPair(c *c07Cfg, init, resp *vhsIdent, stage int, idxI, idxR uint32) *c07Pair {
	p := &c07Pair{idxI: idxI, idxR: idxR}
	var err error
	if p.i, err = vhsMachine(init, c.cipher, c.ver, c.pki.verifier(), idxI, true, c.ver); err != nil {
		p.failed = "new initiator: " + err.Error()
		return p
	}
	if p.r, err = vhsMachine(resp, c.cipher, c.ver, c.pki.verifier(), idxR, false, c.ver); err != nil {
		p.failed = "new responder: " + err.Error()
		return p
	}
	if p.msg1, err = p.i.Initiate(nil); err != nil {
		p.failed = "initiate: " + err.Error()
		return p
	}
	if stage == 2 {
		if p.msg2, p.resR, err = p.r.ProcessPacket(nil, p.msg1); err != nil || p.resR == nil || len(p.msg2) == 0 {
			p.failed = "responder on genuine msg1: " + vhsErrStr(err)
		}
	}
	return p
}

// c07Finish delivers the genuine message(s) and returns "" when the pair completes like an undisturbed one.
func c07Finish(c *c07Cfg, p *c07Pair, stage int, init, resp *vhsIdent) string {
	if stage == 1 {
		reply, resR, err := p.r.ProcessPacket(nil, p.msg1)
		if err != nil {
			return "responder refused the genuine first message: " + err.Error()
		}
		if resR == nil || len(reply) == 0 {
			return "responder did not complete/reply on the genuine first message"
		}
		p.msg2, p.resR = reply, resR
	}
	out, resI, err := p.i.ProcessPacket(nil, p.msg2)
	if err != nil {
		return "initiator refused the genuine reply: " + err.Error()
	}
	if resI == nil {
		return "initiator did not complete on the genuine reply"
	}
	if out != nil {
		return "initiator produced output on the final message"
	}
	if w := vhsAgreement(resI, p.resR); w != "" {
		return "completed but " + w
	}
	if resI.RemoteCert == nil || p.resR.RemoteCert == nil {
		return "completed without a peer certificate"
	}
	if !bytes.Equal(resI.RemoteCert.Certificate.PublicKey(), resp.pub) || resI.RemoteCert.Certificate.Name() != resp.name {
		return "initiator reports a certificate that is not the responder's"
	}
	if !bytes.Equal(p.resR.RemoteCert.Certificate.PublicKey(), init.pub) || p.resR.RemoteCert.Certificate.Name() != init.name {
		return "responder reports a certificate that is not the initiator's"
	}
	if resI.LocalIndex != p.idxI || p.resR.LocalIndex != p.idxR {
		return "local indexes are not the allocated ones"
	}
	return ""
}

// a mutation turns the genuine message of the fresh pair into the bad input
type c07Mut struct {
	kind  string // class name used in keys and signatures
	param string // distinguishes cases inside the class
	f     func(c *c07Cfg, p *c07Pair, stage int, genuine []byte) []byte
}

type c07Case struct {
	cfg   *c07Cfg
	stage int
	muts  []c07Mut // delivered in order
	reps  int      // each bad input is delivered reps times
}

func c07Regions(c *c07Cfg, stage int, total int) (eOff, sOff, pOff int) {
	eOff = header.Len
	sOff = eOff + c.curve.pubLen
	pOff = sOff + c.curve.pubLen
	if stage == 2 {
		pOff += 16
	}
	return
}

func c07Clone(b []byte) []byte { return append([]byte(nil), b...) }

func c07Trunc(l int) c07Mut {
	return c07Mut{"trunc", fmt.Sprint(l), func(c *c07Cfg, p *c07Pair, stage int, g []byte) []byte {
		if l > len(g) {
			return nil
		}
		return c07Clone(g[:l])
	}}
}

func c07Flip(region string, bit int) c07Mut {
	return c07Mut{"flip-" + region, fmt.Sprint(bit), func(c *c07Cfg, p *c07Pair, stage int, g []byte) []byte {
		e, s, pl := c07Regions(c, stage, len(g))
		off := map[string]int{"eph": e, "static": s, "payload": pl}[region]
		i := off + bit/8
		if i >= len(g) {
			return nil
		}
		b := c07Clone(g)
		b[i] ^= 1 << (bit % 8)
		return b
	}}
}

func c07EphSub(name string, v []byte) c07Mut {
	return c07Mut{"ephsub", name, func(c *c07Cfg, p *c07Pair, stage int, g []byte) []byte {
		b := c07Clone(g)
		copy(b[header.Len:header.Len+c.curve.pubLen], v)
		return b
	}}
}

func c07Hex(s string) []byte {
	b := make([]byte, len(s)/2)
	for i := range b {
		fmt.Sscanf(s[2*i:2*i+2], "%02x", &b[i])
	}
	return b
}

// Known small-order / non-canonical X25519 inputs (public list, e.g. libsodium's blacklist) and edge values.
func c07X25519Points() map[string][]byte {
	return map[string][]byte{
		"zero":        make([]byte, 32),
		"one":         c07Hex("0100000000000000000000000000000000000000000000000000000000000000"),
		"order8-a":    c07Hex("e0eb7a7c3b41b8ae1656e3faf19fc46ada098deb9c32b1fd866205165f49b800"),
		"order8-b":    c07Hex("5f9c95bca3508c24b1d0b1559c83ef5b04445cc4581c8e86d8224eddd09f1157"),
		"p-1":         c07Hex("ecffffffffffffffffffffffffffffffffffffffffffffffffffffffffffff7f"),
		"p":           c07Hex("edffffffffffffffffffffffffffffffffffffffffffffffffffffffffffff7f"),
		"p+1":         c07Hex("eeffffffffffffffffffffffffffffffffffffffffffffffffffffffffffff7f"),
		"order8-a-hi": c07Hex("cdeb7a7c3b41b8ae1656e3faf19fc46ada098deb9c32b1fd866205165f49b880"),
		"order8-b-hi": c07Hex("4c9c95bca3508c24b1d0b1559c83ef5b04445cc4581c8e86d8224eddd09f11d7"),
		"2p-1":        c07Hex("d9ffffffffffffffffffffffffffffffffffffffffffffffffffffffffffffff"),
		"2p":          c07Hex("daffffffffffffffffffffffffffffffffffffffffffffffffffffffffffffff"),
		"2p+1":        c07Hex("dbffffffffffffffffffffffffffffffffffffffffffffffffffffffffffffff"),
		"all-ff":      bytes.Repeat([]byte{0xff}, 32),
		"two":         c07Hex("0200000000000000000000000000000000000000000000000000000000000000"),
		"basepoint":   c07Hex("0900000000000000000000000000000000000000000000000000000000000000"),
	}
}

func c07P256Points(valid []byte) map[string][]byte {
	m := map[string][]byte{
		"zero":   make([]byte, 65),
		"all-ff": bytes.Repeat([]byte{0xff}, 65),
	}
	inf := make([]byte, 65) // 0x00 prefix = point at infinity encoding, padded
	m["infinity-padded"] = inf
	off := c07Clone(valid)
	off[64] ^= 1
	m["off-curve-y"] = off
	offx := c07Clone(valid)
	offx[1] ^= 0x80
	m["off-curve-x"] = offx
	comp := c07Clone(valid)
	comp[0] = 0x02
	m["compressed-prefix"] = comp
	hyb := c07Clone(valid)
	hyb[0] = 0x06
	m["hybrid-prefix"] = hyb
	big := c07Clone(valid)
	for i := 1; i <= 32; i++ {
		big[i] = 0xff // x >= p
	}
	m["x-ge-p"] = big
	gx := c07Hex("046b17d1f2e12c4247f8bce6e563a440f277037d812deb33a0f4a13945d898c2964fe342e2fe1a7f9b8ee7eb4a7c0f9e162bce33576b315ececbb6406837bf51f5")
	m["generator"] = gx
	neg := c07Clone(valid) // x with y=0 is never on the curve (order is prime, no 2-torsion)
	for i := 33; i < 65; i++ {
		neg[i] = 0
	}
	m["y-zero"] = neg
	return m
}

func c07SortedKeys(m map[string][]byte) []string {
	ks := make([]string, 0, len(m))
	for k := range m {
		ks = append(ks, k)
	}
	sort.Strings(ks)
	return ks
}

func c07Subtype(v byte) c07Mut {
	return c07Mut{"subtype", fmt.Sprint(v), func(c *c07Cfg, p *c07Pair, stage int, g []byte) []byte {
		b := c07Clone(g)
		b[1] = v
		return b
	}}
}

func c07Extend(n int) c07Mut {
	return c07Mut{"extend", fmt.Sprint(n), func(c *c07Cfg, p *c07Pair, stage int, g []byte) []byte {
		return append(c07Clone(g), bytes.Repeat([]byte{0xa5}, n)...)
	}}
}

func c07Garbage(name string, fill func(i int) byte) c07Mut {
	return c07Mut{"garbage", name, func(c *c07Cfg, p *c07Pair, stage int, g []byte) []byte {
		b := c07Clone(g)
		for i := header.Len; i < len(b); i++ {
			b[i] = fill(i)
		}
		return b
	}}
}

// cross-session material: genuine messages of other honest sessions
func c07Cross(name string) c07Mut {
	return c07Mut{"cross-session", name, func(c *c07Cfg, p *c07Pair, stage int, g []byte) []byte {
		switch name {
		case "other-session-same-stage": // stage 2 only (for stage 1 another genuine msg1 is simply a valid handshake)
			q := c07NewPair(c, c.other, c.b, 2, 71, 72)
			if q.failed != "" {
				return nil
			}
			return q.msg2
		case "other-responder-to-me": // a different responder answers the victim's own first message
			r2, err := vhsMachine(c.other, c.cipher, c.ver, c.pki.verifier(), 73, false, c.ver)
			if err != nil {
				return nil
			}
			out, _, err := r2.ProcessPacket(nil, p.msg1)
			if err != nil {
				return nil
			}
			// make it "cross-session" in the sense of C07: it is a valid reply, so only usable as the bad
			// input when truncated by one byte; the untruncated one is judged by C05.
			return out[:len(out)-1]
		case "same-responder-other-initiator":
			q := c07NewPair(c, c.other, c.b, 2, 74, 75)
			if q.failed != "" {
				return nil
			}
			return q.msg2
		case "own-msg1-reflected":
			return c07Clone(p.msg1)
		case "other-stage": // a message of the other stage from another session
			q := c07NewPair(c, c.other, c.b, 2, 76, 77)
			if q.failed != "" {
				return nil
			}
			if stage == 1 {
				return q.msg2
			}
			return q.msg1
		case "previous-reply-to-same-initiator-identity":
			// an old session of the same two identities (replay of an earlier reply)
			q := c07NewPair(c, c.a, c.b, 2, 78, 79)
			if q.failed != "" {
				return nil
			}
			return q.msg2
		}
		return nil
	}}
}

// c07Craft builds a second IX message with the Noise library directly: an active attacker answering the
// victim's first message with a static key of its choosing and an arbitrary payload.
func c07Craft(name string) c07Mut {
	return c07Mut{"crafted-reply", name, func(c *c07Cfg, p *c07Pair, stage int, g []byte) []byte {
		if stage != 2 {
			return nil
		}
		pub, priv := vhsKeypair(c.curve)
		payload := MarshalPayload(nil, Payload{Cert: c.b.hsBytes[c.ver], CertVersion: uint32(c.ver), ResponderIndex: 4242, InitiatorIndex: p.idxI, Time: 1})
		switch name {
		case "invalid-static":
			if c.curve.curve == cert.Curve_P256 {
				pub = c07Clone(pub)
				pub[64] ^= 1
			} else {
				pub = c07X25519Points()["order8-a"]
			}
		case "zero-static":
			pub = make([]byte, c.curve.pubLen)
		case "valid-static-garbage-payload":
			payload = []byte{0xff, 0xff, 0xff, 0xff, 0x0f, 0x01}
		case "valid-static-foreign-cert":
			// payload already carries b's certificate while the static key is the attacker's
		case "valid-static-empty-payload":
			payload = nil
		}
		hs, err := noise.NewHandshakeState(noise.Config{
			CipherSuite: noise.NewCipherSuite(c.curve.dh, c.cipher.fn, noise.HashSHA256), Random: rand.Reader,
			Pattern: noise.HandshakeIX, Initiator: false, StaticKeypair: noise.DHKey{Private: priv, Public: pub}, PresharedKey: []byte{}})
		if err != nil {
			return nil
		}
		if _, _, _, err = hs.ReadMessage(nil, p.msg1[header.Len:]); err != nil {
			return nil
		}
		out := make([]byte, header.Len, 512)
		header.Encode(out, header.Version, header.Handshake, header.HandshakeIXPSK0, p.idxI, 2)
		out, _, _, err = hs.WriteMessage(out, payload)
		if err != nil {
			return nil
		}
		return out
	}}
}

// c07Key names the witness class of a wedge from the input that caused it.
func c07Key(c *c07Cfg, stage int, m c07Mut, bad []byte) string {
	body := len(bad) - header.Len
	dh := c.curve.pubLen
	slen := dh
	if stage == 2 {
		slen += 16
	}
	switch {
	case m.kind == "trunc" && body >= dh && body < dh+slen:
		return fmt.Sprintf("C07/stage%d-truncated-after-ephemeral", stage)
	case m.kind == "trunc" && body >= 0 && body < dh:
		return fmt.Sprintf("C07/stage%d-truncated-inside-ephemeral", stage)
	case m.kind == "trunc" && body < 0:
		return fmt.Sprintf("C07/stage%d-truncated-inside-header", stage)
	case m.kind == "trunc":
		return fmt.Sprintf("C07/stage%d-truncated-after-static", stage)
	case m.kind == "crafted-reply" && (m.param == "invalid-static" || m.param == "zero-static"):
		return "C07/stage2-invalid-static"
	}
	if body >= dh && (m.kind == "ephsub" || m.kind == "flip-eph" || m.kind == "garbage") && !vhsValidDHPublic(c.curve, bad[header.Len:header.Len+dh]) {
		return fmt.Sprintf("C07/stage%d-invalid-ephemeral", stage)
	}
	return fmt.Sprintf("C07/stage%d-wedged-by-%s", stage, m.kind)
}

// c07Run evaluates one case and returns the outcome class.
func c07Run(r *verifkit.Reporter, cs *c07Case) string {
	c := cs.cfg
	p := c07NewPair(c, c.a, c.b, cs.stage, 1001, 2002)
	if p.failed != "" {
		r.Violation("C07/honest-pair-fails", fmt.Sprintf("%s: honest pair could not be set up: %s", c, p.failed), map[string]any{"cfg": c.String()})
		return "setup-failed"
	}
	victim, genuine := p.r, p.msg1
	if cs.stage == 2 {
		victim, genuine = p.i, p.msg2
	}
	type step struct {
		Kind, Param, Input, Err string
		Failed                  bool
	}
	var trace []step
	replay := func() any {
		return map[string]any{"cfg": c.String(), "stage": cs.stage, "reps": cs.reps, "genuine": verifkit.Hex(genuine),
			"msg1": verifkit.Hex(p.msg1), "bad_inputs": trace,
			"how": "fresh honest pair; deliver bad_inputs to the victim (responder for stage 1, initiator for stage 2), then the genuine message"}
	}
	rejected, accepted := false, false
	var lastMut c07Mut
	var lastBad []byte
	for _, m := range cs.muts {
		bad := m.f(c, p, cs.stage, genuine)
		if bad == nil {
			return "not-applicable"
		}
		if bytes.Equal(bad, genuine) {
			return "identity-mutation"
		}
		for k := 0; k < cs.reps; k++ {
			var out []byte
			var res *Result
			var err error
			if r.Guard("C07/panic", replay, func() { out, res, err = victim.ProcessPacket(nil, bad) }) {
				return "panic"
			}
			trace = append(trace, step{m.kind, m.param, verifkit.Hex(bad), vhsErrStr(err), victim.Failed()})
			if err == nil {
				accepted = true
				_ = out
				_ = res
				break
			}
			if out != nil || res != nil {
				r.Violation("C07/error-with-output", fmt.Sprintf("%s stage %d %s/%s: error %q returned together with output/result", c, cs.stage, m.kind, m.param, err), replay())
			}
			rejected = true
			lastMut, lastBad = m, bad
			if victim.Failed() {
				break
			}
		}
		if accepted || victim.Failed() {
			break
		}
	}
	if accepted {
		// not a rejection. If the victim did not fail, remember what it was for the evidence.
		r.Count(fmt.Sprintf("accepted.stage%d.%s", cs.stage, trace[len(trace)-1].Kind), 1)
		return "accepted"
	}
	if !rejected {
		return "nothing-delivered"
	}
	if victim.Failed() {
		// once failed, everything is refused
		ok := true
		for _, in := range [][]byte{genuine, lastBad, nil, genuine[:header.Len]} {
			out, res, err := victim.ProcessPacket(nil, in)
			if !errors.Is(err, ErrMachineFailed) || out != nil || res != nil {
				ok = false
				r.Violation("C07/failed-machine-accepts-input", fmt.Sprintf("%s stage %d after %s/%s: Failed()==true but ProcessPacket returned err=%v result=%v", c, cs.stage, lastMut.kind, lastMut.param, err, res != nil), replay())
			}
		}
		if out, err := victim.Initiate(nil); !errors.Is(err, ErrMachineFailed) || out != nil {
			ok = false
			r.Violation("C07/failed-machine-accepts-input", fmt.Sprintf("%s stage %d after %s/%s: Failed()==true but Initiate returned err=%v", c, cs.stage, lastMut.kind, lastMut.param, err), replay())
		}
		if !victim.Failed() {
			ok = false
			r.Violation("C07/failed-not-sticky", fmt.Sprintf("%s stage %d: Failed() went back to false", c, cs.stage), replay())
		}
		if ok {
			return "rejected-failed-sticky"
		}
		return "rejected-failed-VIOLATION"
	}
	// rejected and still usable: the genuine message must complete as in the twin
	var w string
	if r.Guard("C07/panic", replay, func() { w = c07Finish(c, p, cs.stage, c.a, c.b) }) {
		return "panic"
	}
	if w != "" {
		key := c07Key(c, cs.stage, lastMut, lastBad)
		if len(cs.muts) > 1 {
			key = c07Blame(r, cs)
		}
		r.Violation(key, fmt.Sprintf("%s stage %d: input %s/%s (len %d) was rejected with %q and Failed()==false, but then %s",
			c, cs.stage, lastMut.kind, lastMut.param, len(lastBad), trace[len(trace)-1].Err, w), replay())
		return "rejected-usable-WEDGED"
	}
	return "rejected-usable-completes"
}

// c07Blame shrinks a wedging sequence: each bad input of the sequence is tried alone on a fresh pair; the
// witness class is that of the first input that wedges on its own, or "wedged-by-sequence" when none does.
func c07Blame(r *verifkit.Reporter, cs *c07Case) string {
	for _, m := range cs.muts {
		c := cs.cfg
		p := c07NewPair(c, c.a, c.b, cs.stage, 1001, 2002)
		if p.failed != "" {
			continue
		}
		victim, genuine := p.r, p.msg1
		if cs.stage == 2 {
			victim, genuine = p.i, p.msg2
		}
		bad := m.f(c, p, cs.stage, genuine)
		if bad == nil || bytes.Equal(bad, genuine) {
			continue
		}
		if _, _, err := victim.ProcessPacket(nil, bad); err == nil || victim.Failed() {
			continue
		}
		if w := c07Finish(c, p, cs.stage, c.a, c.b); w != "" {
			return c07Key(c, cs.stage, m, bad)
		}
	}
	return fmt.Sprintf("C07/stage%d-wedged-by-sequence", cs.stage)
}

func c07Cfgs() []*c07Cfg {
	var out []*c07Cfg
	for _, cv := range vhsCurves {
		pki := vhsNewPKI(cv)
		a := pki.add("alice", vhsTrusted, cert.Version2, cert.Version1)
		b := pki.add("bob", vhsTrusted, cert.Version2, cert.Version1)
		o := pki.add("carol", vhsTrusted, cert.Version2, cert.Version1)
		for _, ci := range vhsCiphers {
			for _, v := range []cert.Version{cert.Version2, cert.Version1} {
				out = append(out, &c07Cfg{curve: cv, cipher: ci, ver: v, pki: pki, a: a, b: b, other: o})
			}
		}
	}
	return out
}

// c07Cases enumerates the single-bad-input cases of one configuration and stage.
func c07Cases(c *c07Cfg, stage int, glen int, full bool, validEph []byte) []c07Case {
	var cases []c07Case
	add := func(reps int, m ...c07Mut) { cases = append(cases, c07Case{cfg: c, stage: stage, muts: m, reps: reps}) }
	rng := verifkit.NewRand(fmt.Sprintf("C07cases/%s/%d", c, stage))
	for l := 0; l < glen; l++ { // every truncation
		reps := 1
		if l%5 == 0 {
			reps = 3
		}
		add(reps, c07Trunc(l))
	}
	e, s, pl := c07Regions(c, stage, glen)
	for bit := 0; bit < (s-e)*8; bit++ {
		add(1+2*(bit%2), c07Flip("eph", bit))
	}
	for bit := 0; bit < (pl-s)*8; bit++ {
		add(1, c07Flip("static", bit))
	}
	for by := 0; by < glen-pl; by++ {
		if full {
			for bit := 0; bit < 8; bit++ {
				add(1, c07Flip("payload", by*8+bit))
			}
		} else {
			add(1, c07Flip("payload", by*8+rng.IntN(8)))
		}
	}
	if c.curve.curve == cert.Curve_P256 {
		pts := c07P256Points(validEph)
		for _, n := range c07SortedKeys(pts) {
			add(1, c07EphSub(n, pts[n]))
			add(2, c07EphSub(n, pts[n]))
		}
	} else {
		pts := c07X25519Points()
		for _, n := range c07SortedKeys(pts) {
			add(1, c07EphSub(n, pts[n]))
			add(2, c07EphSub(n, pts[n]))
		}
	}
	for _, v := range []byte{0, 1, 2, 0x7f, 0xff} {
		if header.MessageSubType(v) != header.HandshakeIXPSK0 {
			add(2, c07Subtype(v))
		}
	}
	for _, n := range []int{1, 15, 16, 17, 64} {
		add(1, c07Extend(n))
	}
	add(1, c07Garbage("zero", func(int) byte { return 0 }))
	add(1, c07Garbage("ff", func(int) byte { return 0xff }))
	add(1, c07Garbage("counter", func(i int) byte { return byte(i * 7) }))
	names := []string{"other-stage", "own-msg1-reflected"}
	if stage == 2 {
		names = append(names, "other-session-same-stage", "other-responder-to-me", "same-responder-other-initiator", "previous-reply-to-same-initiator-identity")
		for _, n := range []string{"invalid-static", "zero-static", "valid-static-garbage-payload", "valid-static-foreign-cert", "valid-static-empty-payload"} {
			add(1, c07Craft(n))
		}
	}
	for _, n := range names {
		add(1, c07Cross(n))
		add(3, c07Cross(n))
	}
	return cases
}

func c07Sig(cs *c07Case) string {
	s := fmt.Sprintf("%s|%d|%d", cs.cfg, cs.stage, cs.reps)
	for _, m := range cs.muts {
		s += "|" + m.kind + ":" + m.param
	}
	return s
}

func TestVerifC07Wedge(t *testing.T) {
	r := verifkit.NewReporter(t, "C07", "wedge",
		"fresh honest IX pair per case; bad input(s) derived from that pair's genuine message (every truncation length, every bit of the ephemeral and static regions, payload bits, low-order/invalid ephemeral substitutions, wrong subtypes, trailing bytes, garbage bodies, cross-session and attacker-crafted replies) delivered 1..3 times before the genuine message; distinct = distinct (curve, cipher, cert version, stage, mutation, repetitions) inputs whose outcome was judged")
	defer r.Done()
	full := verifkit.Thorough()
	idx := 0
	for _, c := range c07Cfgs() {
		if c.ver == cert.Version1 && !full && c.cipher.name != "aesgcm" {
			// quick tier: v1 certificates only with one cipher per curve (the Noise layer is identical)
			continue
		}
		for stage := 1; stage <= 2; stage++ {
			// twin: the undisturbed pair of this configuration
			tw := c07NewPair(c, c.a, c.b, stage, 1001, 2002)
			if tw.failed != "" {
				r.Violation("C07/honest-pair-fails", fmt.Sprintf("%s: %s", c, tw.failed), map[string]any{"cfg": c.String()})
				continue
			}
			if w := c07Finish(c, tw, stage, c.a, c.b); w != "" {
				r.Violation("C07/honest-pair-fails", fmt.Sprintf("%s: twin pair does not complete: %s", c, w), map[string]any{"cfg": c.String()})
				continue
			}
			r.Count("twin-completed", 1)
			glen := len(tw.msg1)
			if stage == 2 {
				glen = len(tw.msg2)
			}
			cases := c07Cases(c, stage, glen, full, tw.msg1[header.Len:header.Len+c.curve.pubLen])
			for i := range cases {
				cs := &cases[i]
				idx++
				if !verifkit.Mine(idx) {
					continue
				}
				r.Pre("case %d %s", idx, c07Sig(cs))
				out := c07Run(r, cs)
				if out == "not-applicable" || out == "identity-mutation" || out == "nothing-delivered" {
					r.Count("skipped."+out, 1)
					continue
				}
				r.Eval(1)
				r.Distinct(c07Sig(cs))
				r.DistinctClass(fmt.Sprintf("%s stage%d %s -> %s", c, stage, cs.muts[0].kind, out))
				r.Count("outcome."+out, 1)
				if r.WantSample() && i%97 == 0 {
					r.Sample(map[string]any{"case": c07Sig(cs), "outcome": out})
				}
			}
			r.Exhaustive(fmt.Sprintf("%s stage %d: all %d truncation lengths; all single-bit flips of the ephemeral and static-key regions", c, stage, glen))
		}
	}
}

// TestVerifC07Sequences delivers several different rejected inputs before the genuine one.
func TestVerifC07Sequences(t *testing.T) {
	r := verifkit.NewReporter(t, "C07", "sequences",
		"PRNG sequences of 2..4 different bad inputs (drawn from the single-input classes, recoverable ones preferred) delivered before the genuine message; distinct = distinct (configuration, stage, sequence) tuples judged")
	defer r.Done()
	n := verifkit.Scale(600, 300000)
	cfgs := c07Cfgs()
	type pool struct {
		cases []c07Case
	}
	pools := map[string]*pool{}
	for i := 0; i < n; i++ {
		rng := verifkit.SubRand("C07seq", i)
		if !verifkit.Mine(i) {
			continue
		}
		c := cfgs[rng.IntN(len(cfgs))]
		stage := 1 + rng.IntN(2)
		k := fmt.Sprintf("%s/%d", c, stage)
		pl := pools[k]
		if pl == nil {
			tw := c07NewPair(c, c.a, c.b, 2, 1001, 2002)
			if tw.failed != "" {
				r.Violation("C07/honest-pair-fails", fmt.Sprintf("%s: %s", c, tw.failed), map[string]any{"cfg": c.String()})
				continue
			}
			glen := len(tw.msg1)
			if stage == 2 {
				glen = len(tw.msg2)
			}
			pl = &pool{cases: c07Cases(c, stage, glen, false, tw.msg1[header.Len:header.Len+c.curve.pubLen])}
			pools[k] = pl
		}
		ln := 2 + rng.IntN(3)
		cs := c07Case{cfg: c, stage: stage, reps: 1 + rng.IntN(2)}
		for j := 0; j < ln; j++ {
			cs.muts = append(cs.muts, pl.cases[rng.IntN(len(pl.cases))].muts[0])
		}
		r.Pre("seq %d %s", i, c07Sig(&cs))
		out := c07Run(r, &cs)
		if out == "not-applicable" || out == "identity-mutation" || out == "nothing-delivered" {
			r.Count("skipped."+out, 1)
			continue
		}
		r.Eval(1)
		r.Distinct(c07Sig(&cs))
		r.DistinctClass(fmt.Sprintf("stage%d len=%d -> %s", stage, ln, out))
		r.Count("outcome."+out, 1)
		if i < 3 {
			r.Sample(map[string]any{"case": c07Sig(&cs), "outcome": out})
		}
	}
}
