package handshake

// C06 — completed handshakes agree on keys and indexes.
//
// Oracle (from the statement), judged on every honest IX session in which both sides complete:
//   * what a.EKey seals opens under b.DKey and gives the plaintext back, and vice versa (several nonces,
//     through the data-plane wrappers noiseutil.CipherState and through the raw noise.CipherState);
//   * it opens under nothing else: not under the sender's own DKey, not under the EKey of either side, not
//     under the keys of any other session of the same configuration;
//   * a.RemoteIndex == b.LocalIndex, b.RemoteIndex == a.LocalIndex, both non-zero (and equal to what the
//     allocator of that side returned);
//   * both report the same MessageIndex.
// The session matrix is 2 curves x 2 ciphers x {v1, v2, v1+v2 starting with v1, v1+v2 starting with v2} on
// each side x six index-allocator shapes (random, 1, 2^32-1, colliding, ...).

import (
	"bytes"
	"fmt"
	"testing"

	"github.com/slackhq/nebula/cert"
	"github.com/slackhq/nebula/noiseutil"
	"github.com/slackhq/nebula/verifkit"
)

type c06Side struct {
	name  string
	have  []cert.Version
	start cert.Version
}

var c06Sides = []c06Side{
	{"v1", []cert.Version{cert.Version1}, cert.Version1},
	{"v2", []cert.Version{cert.Version2}, cert.Version2},
	{"v1+v2/start1", []cert.Version{cert.Version1, cert.Version2}, cert.Version1},
	{"v1+v2/start2", []cert.Version{cert.Version1, cert.Version2}, cert.Version2},
}

var c06IdxModes = []string{"random", "one", "max", "collide", "collide-one", "max-vs-one"}

type c06Done struct {
	a, b *Result
	sig  string
}

func c06Indexes(mode string, rnd func() uint32) (uint32, uint32) {
	nz := func() uint32 {
		for {
			if v := rnd(); v != 0 {
				return v
			}
		}
	}
	switch mode {
	case "one":
		return 1, nz()
	case "max":
		return nz(), 0xffffffff
	case "collide":
		v := nz()
		return v, v
	case "collide-one":
		return 1, 1
	case "max-vs-one":
		return 0xffffffff, 1
	}
	return nz(), nz()
}

// c06Exclusive: a packet sealed with ek must not open under any of the listed keys.
func c06Exclusive(ek noiseutil.CipherState, others map[string]noiseutil.CipherState) string {
	nb := make([]byte, 12)
	ad := []byte("0123456789abcdef")
	for _, n := range []uint64{0, 3} {
		c, err := ek.EncryptDanger(nil, ad, []byte("exclusive"), n, nb)
		if err != nil {
			return "seal failed: " + err.Error()
		}
		for name, dk := range others {
			if _, err := dk.DecryptDanger(nil, ad, c, n, nb); err == nil {
				return "opens under " + name
			}
		}
	}
	return ""
}

func TestVerifC06Agreement(t *testing.T) {
	r := verifkit.NewReporter(t, "C06", "agree",
		"honest IX sessions between real Machines over the matrix curve x cipher x initiator versions x responder versions x index-allocator shape; distinct = distinct (configuration, negotiated certificate versions) classes plus distinct (configuration, initiator index, responder index) sessions")
	defer r.Done()
	per := verifkit.Scale(12, 2000)
	caseNo := 0
	for _, cv := range vhsCurves {
		pki := vhsNewPKI(cv)
		a := pki.add("alice", vhsTrusted, cert.Version1, cert.Version2)
		b := pki.add("bob", vhsTrusted, cert.Version1, cert.Version2)
		for _, ci := range vhsCiphers {
			var recent []c06Done // other sessions of the same curve/cipher for cross-session exclusivity
			for _, si := range c06Sides {
				for _, sr := range c06Sides {
					for _, mode := range c06IdxModes {
						for k := 0; k < per; k++ {
							caseNo++
							if !verifkit.Mine(caseNo) {
								continue
							}
							rng := verifkit.SubRand("C06", caseNo)
							idxI, idxR := c06Indexes(mode, rng.Uint32)
							cfg := fmt.Sprintf("%s/%s init=%s resp=%s idx=%s", cv.name, ci.name, si.name, sr.name, mode)
							rec := map[string]any{"cfg": cfg, "idxI": idxI, "idxR": idxR}
							r.Pre("case %d %s %d %d", caseNo, cfg, idxI, idxR)
							mi, err := vhsMachine(a, ci, si.start, pki.verifier(), idxI, true, si.have...)
							if err != nil {
								r.Inconclusive(cfg + ": NewMachine(initiator): " + err.Error())
								continue
							}
							mr, err := vhsMachine(b, ci, sr.start, pki.verifier(), idxR, false, sr.have...)
							if err != nil {
								r.Inconclusive(cfg + ": NewMachine(responder): " + err.Error())
								continue
							}
							var ra, rb *Result
							var m1, m2 []byte
							var stepErr string
							if r.Guard("C06/panic", func() any { return rec }, func() {
								var err error
								if m1, err = mi.Initiate(nil); err != nil {
									stepErr = "Initiate: " + err.Error()
									return
								}
								if m2, rb, err = mr.ProcessPacket(nil, m1); err != nil {
									stepErr = "responder: " + err.Error()
									return
								}
								if _, ra, err = mi.ProcessPacket(nil, m2); err != nil {
									stepErr = "initiator: " + err.Error()
								}
							}) {
								continue
							}
							r.Eval(1)
							if stepErr != "" || ra == nil || rb == nil {
								// honest sessions are expected to complete; if they do not, nothing can be judged
								r.Count("not-completed", 1)
								if r.Counter("not-completed") <= 3 { // the rest is only counted
									r.Inconclusive(fmt.Sprintf("%s: honest session did not complete (%s)", cfg, stepErr))
								}
								continue
							}
							r.Count("completed", 1)
							rec["msg1"], rec["msg2"] = verifkit.Hex(m1), verifkit.Hex(m2)
							// raw noise.CipherState interop (internal nonce counters, both start at 0). Must come first:
							// noise.CipherState.Cipher(), used by the data-plane wrappers, invalidates Encrypt/Decrypt.
							rawBad := false
							for i := 0; i < 3; i++ {
								c1, e1 := ra.EKey.Encrypt(nil, []byte("ad"), []byte("ping"))
								p1, e2 := rb.DKey.Decrypt(nil, []byte("ad"), c1)
								c2, e3 := rb.EKey.Encrypt(nil, []byte("ad"), []byte("pong"))
								p2, e4 := ra.DKey.Decrypt(nil, []byte("ad"), c2)
								if e1 != nil || e2 != nil || e3 != nil || e4 != nil || !bytes.Equal(p1, []byte("ping")) || !bytes.Equal(p2, []byte("pong")) {
									r.Violation("C06/key-mismatch", cfg+": raw noise CipherState round trip failed", rec)
									rawBad = true
									break
								}
							}
							if rawBad {
								continue
							}
							if w := vhsAgreement(ra, rb); w != "" {
								r.Violation("C06/"+c06Class(w), cfg+": "+w, rec)
								continue
							}
							if ra.LocalIndex != idxI || rb.LocalIndex != idxR {
								r.Violation("C06/local-index-not-allocated", fmt.Sprintf("%s: allocators returned %d/%d, results report %d/%d", cfg, idxI, idxR, ra.LocalIndex, rb.LocalIndex), rec)
							}
							if !ra.Initiator || rb.Initiator {
								r.Violation("C06/initiator-flag", cfg+": Initiator flags wrong", rec)
							}
							// exclusivity: own side, encrypt keys, other sessions
							ae, ad := noiseutil.NewCipherState(ra.EKey, ra.Cipher), noiseutil.NewCipherState(ra.DKey, ra.Cipher)
							be, bd := noiseutil.NewCipherState(rb.EKey, rb.Cipher), noiseutil.NewCipherState(rb.DKey, rb.Cipher)
							othersA := map[string]noiseutil.CipherState{"own DKey": ad, "peer EKey": be}
							othersB := map[string]noiseutil.CipherState{"own DKey": bd, "peer EKey": ae}
							for i, o := range recent {
								othersA[fmt.Sprintf("other session %d responder DKey", i)] = noiseutil.NewCipherState(o.b.DKey, o.b.Cipher)
								othersA[fmt.Sprintf("other session %d initiator DKey", i)] = noiseutil.NewCipherState(o.a.DKey, o.a.Cipher)
								othersB[fmt.Sprintf("other session %d responder DKey", i)] = noiseutil.NewCipherState(o.b.DKey, o.b.Cipher)
								othersB[fmt.Sprintf("other session %d initiator DKey", i)] = noiseutil.NewCipherState(o.a.DKey, o.a.Cipher)
							}
							if w := c06Exclusive(ae, othersA); w != "" {
								r.Violation("C06/key-not-exclusive", cfg+": initiator's sending key "+w, rec)
							}
							if w := c06Exclusive(be, othersB); w != "" {
								r.Violation("C06/key-not-exclusive", cfg+": responder's sending key "+w, rec)
							}
							r.Count("exclusivity-probes", 2*(len(othersA)+len(othersB)))
							// certificates reported are the peer's (any of its issued versions)
							if ra.RemoteCert == nil || rb.RemoteCert == nil || !bytes.Equal(ra.RemoteCert.Certificate.PublicKey(), b.pub) || !bytes.Equal(rb.RemoteCert.Certificate.PublicKey(), a.pub) {
								r.Violation("C06/wrong-peer-cert", cfg+": completed sides do not report each other's certificate", rec)
							} else {
								neg := fmt.Sprintf("I sent v%d, R sent v%d; I.MyCert v%d R.MyCert v%d", rb.RemoteCert.Certificate.Version(), ra.RemoteCert.Certificate.Version(), ra.MyCert.Version(), rb.MyCert.Version())
								r.DistinctClass(fmt.Sprintf("%s/%s init=%s resp=%s: %s", cv.name, ci.name, si.name, sr.name, neg))
								if ra.MyCert.Version() != rb.RemoteCert.Certificate.Version() || rb.MyCert.Version() != ra.RemoteCert.Certificate.Version() {
									r.Count("mycert-differs-from-what-peer-saw", 1)
								}
							}
							r.Distinct(fmt.Sprintf("%s|%d|%d", cfg, idxI, idxR))
							if k == 0 && mode == "random" {
								r.Sample(map[string]any{"cfg": cfg, "idxI": idxI, "idxR": idxR, "message_index": ra.MessageIndex})
							}
							recent = append(recent, c06Done{ra, rb, cfg})
							if len(recent) > 3 {
								recent = recent[1:]
							}
						}
					}
				}
			}
		}
	}
}

func c06Class(w string) string {
	switch {
	case bytes.Contains([]byte(w), []byte("message index")):
		return "message-count-mismatch"
	case bytes.Contains([]byte(w), []byte("EKey ->")):
		return "key-mismatch"
	case bytes.Contains([]byte(w), []byte("share a key")):
		return "key-not-exclusive"
	case bytes.Contains([]byte(w), []byte("index mismatch")):
		return "index-mismatch"
	case bytes.Contains([]byte(w), []byte("zero local index")):
		return "zero-local-index"
	}
	return "agreement"
}
