package handshake

// C06 — completed handshakes agree on keys and indexes.
//
// Oracle (from the statement), judged on every honest IX session in which both sides complete:
//   * what a.EKey seals opens under b.DKey and gives the plaintext back, and vice versa (several nonces,
//     through the data-plane wrappers noiseutil.CipherState and through the raw noise.CipherState);
//   * it opens under nothing else: not under the sender's own DKey, not under the EKey of either side, not
//     under the keys of any other session of the same configuration;
//   * a.RemoteIndex == b.LocalIndex, b.RemoteIndex == a.LocalIndex, both non-zero (and equal to what the
//     allocator of that side returned);
//   * both report the same MessageIndex.
// The session matrix is 2 curves x 2 ciphers x {v1, v2, v1+v2 starting with v1, v1+v2 starting with v2} on
// each side x six index-allocator shapes (random, 1, 2^32-1, colliding, ...).

import (
	"bytes"
	"encoding/binary"
	"fmt"
	"math"
	"testing"

	"github.com/slackhq/nebula/cert"
	"github.com/slackhq/nebula/noiseutil"
	"github.com/slackhq/nebula/verifkit"
)

type c06Side struct {
	name  string
	have  []cert.Version
	start cert.Version
}

var c06Sides = []c06Side{
	{"v1", []cert.Version{cert.Version1}, cert.Version1},
	{"v2", []cert.Version{cert.Version2}, cert.Version2},
	{"v1+v2/start1", []cert.Version{cert.Version1, cert.Version2}, cert.Version1},
	{"v1+v2/start2", []cert.Version{cert.Version1, cert.Version2}, cert.Version2},
}

var c06IdxModes = []string{"random", "one", "max", "collide", "collide-one", "max-vs-one"}

type c06Done struct {
	a, b *Result
	sig  string
}

func c06Indexes(mode string, rnd func() uint32) (uint32, uint32) {
	nz := func() uint32 {
		for {
			if v := rnd(); v != 0 {
				return v
			}
		}
	}
	switch mode {
	case "one":
		return 1, nz()
	case "max":
		return nz(), 0xffffffff
	case "collide":
		v := nz()
		return v, v
	case "collide-one":
		return 1, 1
	case "max-vs-one":
		return 0xffffffff, 1
	}
	return nz(), nz()
}

// c06Exclusive: a packet sealed with ek must not open under any of the listed keys.
func c06Exclusive(ek noiseutil.CipherState, others map[string]noiseutil.CipherState) string {
	nb := make([]byte, 12)
	ad := []byte("0123456789abcdef")
	for _, n := range []uint64{0, 3} {
		c, err := ek.EncryptDanger(nil, ad, []byte("exclusive"), n, nb)
		if err != nil {
			return "seal failed: " + err.Error()
		}
		for name, dk := range others {
			if _, err := dk.DecryptDanger(nil, ad, c, n, nb); err == nil {
				return "opens under " + name
			}
		}
	}
	return ""
}

// On-path rewrites of the parts of a handshake packet that Noise does not authenticate (the 16-byte nebula
// header). The Machine only looks at the subtype byte, so every one of these still reaches the Noise layer.
type c06Rewrite struct {
	name  string
	stage int // 1 = initiator's message on its way to the responder, 2 = the reply on its way back, 3 = both
	f     func(pkt []byte)
}

func c06SetCounter(v uint64) func([]byte) {
	return func(p []byte) { binary.BigEndian.PutUint64(p[8:16], v) }
}

func c06Rewrites() []c06Rewrite {
	var out []c06Rewrite
	for _, v := range []uint64{0, 1, 2, 3, 7, 100, 8191, 8192, 1 << 32, 1 << 40, math.MaxUint64} {
		for _, st := range []int{1, 2} {
			if (st == 1 && v == 1) || (st == 2 && v == 2) {
				continue // identity
			}
			out = append(out, c06Rewrite{fmt.Sprintf("stage%d-counter=%d", st, v), st, c06SetCounter(v)})
		}
	}
	out = append(out, c06Rewrite{"both-counters=100", 3, c06SetCounter(100)})
	for _, st := range []int{1, 2} {
		out = append(out,
			c06Rewrite{fmt.Sprintf("stage%d-reserved=ffff", st), st, func(p []byte) { p[2], p[3] = 0xff, 0xff }},
			c06Rewrite{fmt.Sprintf("stage%d-reserved=0001", st), st, func(p []byte) { p[2], p[3] = 0, 1 }},
			c06Rewrite{fmt.Sprintf("stage%d-remote-index=0", st), st, func(p []byte) { binary.BigEndian.PutUint32(p[4:8], 0) }},
			c06Rewrite{fmt.Sprintf("stage%d-remote-index=ffffffff", st), st, func(p []byte) { binary.BigEndian.PutUint32(p[4:8], math.MaxUint32) }},
			c06Rewrite{fmt.Sprintf("stage%d-remote-index^=5a5a5a5a", st), st, func(p []byte) { p[4] ^= 0x5a; p[5] ^= 0x5a; p[6] ^= 0x5a; p[7] ^= 0x5a }},
			c06Rewrite{fmt.Sprintf("stage%d-version-nibble", st), st, func(p []byte) { p[0] ^= 0x20 }},
			c06Rewrite{fmt.Sprintf("stage%d-type-nibble", st), st, func(p []byte) { p[0] ^= 0x05 }},
		)
	}
	return out
}

type c06Env struct {
	r        *verifkit.Reporter
	pki      *vhsPKI
	a, b     *vhsIdent
	ci       vhsCipher
	si, sr   c06Side
	cfg      string
	curve    string
	recent   []c06Done
	variants map[string]bool
}

// c06Session runs one IX session (optionally with on-path header rewrites) and, when both sides complete,
// applies the whole agreement oracle. It returns "completed", "rejected" or "skipped".
func (e *c06Env) session(idxI, idxR uint32, rw *c06Rewrite, keepRecent bool) string {
	r, cfg := e.r, e.cfg
	rec := map[string]any{"cfg": cfg, "idxI": idxI, "idxR": idxR}
	if rw != nil {
		cfg += " on-path rewrite " + rw.name
		rec["rewrite"] = rw.name
	}
	mi, err := vhsMachine(e.a, e.ci, e.si.start, e.pki.verifier(), idxI, true, e.si.have...)
	if err != nil {
		r.Inconclusive(cfg + ": NewMachine(initiator): " + err.Error())
		return "skipped"
	}
	mr, err := vhsMachine(e.b, e.ci, e.sr.start, e.pki.verifier(), idxR, false, e.sr.have...)
	if err != nil {
		r.Inconclusive(cfg + ": NewMachine(responder): " + err.Error())
		return "skipped"
	}
	var ra, rb *Result
	var m1, m2 []byte
	var stepErr string
	if r.Guard("C06/panic", func() any { return rec }, func() {
		var err error
		if m1, err = mi.Initiate(nil); err != nil {
			stepErr = "Initiate: " + err.Error()
			return
		}
		d1 := bytes.Clone(m1)
		if rw != nil && rw.stage&1 != 0 {
			rw.f(d1)
		}
		rec["msg1_delivered"] = verifkit.Hex(d1)
		if m2, rb, err = mr.ProcessPacket(nil, d1); err != nil {
			stepErr = "responder: " + err.Error()
			return
		}
		d2 := bytes.Clone(m2)
		if rw != nil && rw.stage&2 != 0 {
			rw.f(d2)
		}
		rec["msg2_delivered"] = verifkit.Hex(d2)
		if _, ra, err = mi.ProcessPacket(nil, d2); err != nil {
			stepErr = "initiator: " + err.Error()
		}
	}) {
		return "skipped"
	}
	r.Eval(1)
	if stepErr != "" || ra == nil || rb == nil {
		if rw != nil {
			// a rewritten packet may be refused; that is not this property's business
			r.Count("variant-rejected", 1)
			return "rejected"
		}
		// honest sessions are expected to complete; if they do not, nothing can be judged
		r.Count("not-completed", 1)
		if r.Counter("not-completed") <= 3 { // the rest is only counted
			r.Inconclusive(fmt.Sprintf("%s: honest session did not complete (%s)", cfg, stepErr))
		}
		return "rejected"
	}
	if rw != nil {
		r.Count("variant-completed", 1)
		e.variants[rw.name] = true
	} else {
		r.Count("completed", 1)
	}
	// raw noise.CipherState interop (internal nonce counters, both start at 0). Must come first:
	// noise.CipherState.Cipher(), used by the data-plane wrappers, invalidates Encrypt/Decrypt.
	for i := 0; i < 3; i++ {
		c1, e1 := ra.EKey.Encrypt(nil, []byte("ad"), []byte("ping"))
		p1, e2 := rb.DKey.Decrypt(nil, []byte("ad"), c1)
		c2, e3 := rb.EKey.Encrypt(nil, []byte("ad"), []byte("pong"))
		p2, e4 := ra.DKey.Decrypt(nil, []byte("ad"), c2)
		if e1 != nil || e2 != nil || e3 != nil || e4 != nil || !bytes.Equal(p1, []byte("ping")) || !bytes.Equal(p2, []byte("pong")) {
			r.Violation("C06/key-mismatch", cfg+": raw noise CipherState round trip failed", rec)
			return "completed"
		}
	}
	rec["initiator_message_index"], rec["responder_message_index"] = ra.MessageIndex, rb.MessageIndex
	if w := vhsAgreement(ra, rb); w != "" {
		r.Violation("C06/"+c06Class(w), cfg+": "+w, rec)
		return "completed"
	}
	if ra.LocalIndex != idxI || rb.LocalIndex != idxR {
		r.Violation("C06/local-index-not-allocated", fmt.Sprintf("%s: allocators returned %d/%d, results report %d/%d", cfg, idxI, idxR, ra.LocalIndex, rb.LocalIndex), rec)
	}
	if !ra.Initiator || rb.Initiator {
		r.Violation("C06/initiator-flag", cfg+": Initiator flags wrong", rec)
	}
	// exclusivity: own side, encrypt keys, other sessions
	ae, ad := noiseutil.NewCipherState(ra.EKey, ra.Cipher), noiseutil.NewCipherState(ra.DKey, ra.Cipher)
	be, bd := noiseutil.NewCipherState(rb.EKey, rb.Cipher), noiseutil.NewCipherState(rb.DKey, rb.Cipher)
	othersA := map[string]noiseutil.CipherState{"own DKey": ad, "peer EKey": be}
	othersB := map[string]noiseutil.CipherState{"own DKey": bd, "peer EKey": ae}
	for i, o := range e.recent {
		othersA[fmt.Sprintf("other session %d responder DKey", i)] = noiseutil.NewCipherState(o.b.DKey, o.b.Cipher)
		othersA[fmt.Sprintf("other session %d initiator DKey", i)] = noiseutil.NewCipherState(o.a.DKey, o.a.Cipher)
		othersB[fmt.Sprintf("other session %d responder DKey", i)] = noiseutil.NewCipherState(o.b.DKey, o.b.Cipher)
		othersB[fmt.Sprintf("other session %d initiator DKey", i)] = noiseutil.NewCipherState(o.a.DKey, o.a.Cipher)
	}
	if w := c06Exclusive(ae, othersA); w != "" {
		r.Violation("C06/key-not-exclusive", cfg+": initiator's sending key "+w, rec)
	}
	if w := c06Exclusive(be, othersB); w != "" {
		r.Violation("C06/key-not-exclusive", cfg+": responder's sending key "+w, rec)
	}
	r.Count("exclusivity-probes", 2*(len(othersA)+len(othersB)))
	// certificates reported are the peer's (any of its issued versions)
	if ra.RemoteCert == nil || rb.RemoteCert == nil || !bytes.Equal(ra.RemoteCert.Certificate.PublicKey(), e.b.pub) || !bytes.Equal(rb.RemoteCert.Certificate.PublicKey(), e.a.pub) {
		r.Violation("C06/wrong-peer-cert", cfg+": completed sides do not report each other's certificate", rec)
	} else if rw == nil {
		neg := fmt.Sprintf("I sent v%d, R sent v%d; I.MyCert v%d R.MyCert v%d", rb.RemoteCert.Certificate.Version(), ra.RemoteCert.Certificate.Version(), ra.MyCert.Version(), rb.MyCert.Version())
		r.DistinctClass(fmt.Sprintf("%s/%s init=%s resp=%s: %s", e.curve, e.ci.name, e.si.name, e.sr.name, neg))
		if ra.MyCert.Version() != rb.RemoteCert.Certificate.Version() || rb.MyCert.Version() != ra.RemoteCert.Certificate.Version() {
			r.Count("mycert-differs-from-what-peer-saw", 1)
		}
	}
	if rw != nil {
		r.Distinct(fmt.Sprintf("%s|%d|%d|%s", e.cfg, idxI, idxR, rw.name))
		r.Count("variant-agreed", 1)
	} else {
		r.Distinct(fmt.Sprintf("%s|%d|%d", e.cfg, idxI, idxR))
	}
	if keepRecent {
		e.recent = append(e.recent, c06Done{ra, rb, cfg})
		if len(e.recent) > 3 {
			e.recent = e.recent[1:]
		}
	}
	return "completed"
}

func TestVerifC06Agreement(t *testing.T) {
	r := verifkit.NewReporter(t, "C06", "agree",
		"honest IX sessions between real Machines over the matrix curve x cipher x initiator versions x responder versions x index-allocator shape; every session is followed by three more sessions of the same configuration whose delivered packets had unauthenticated header fields rewritten on path (counter of either message set to 0,1,2,3,7,100,8191,8192,2^32,2^40,2^64-1, reserved bits, remote index, version/type nibbles; 35 rewrites, rotating so that every configuration sees all of them); whenever both sides complete the full agreement oracle applies; distinct = distinct (configuration, negotiated certificate versions) classes plus distinct (configuration, indexes[, rewrite]) sessions")
	defer r.Done()
	per := verifkit.Scale(12, 2000)
	rws := c06Rewrites()
	seenVariants := map[string]bool{}
	caseNo := 0
	for _, cv := range vhsCurves {
		pki := vhsNewPKI(cv)
		a := pki.add("alice", vhsTrusted, cert.Version1, cert.Version2)
		b := pki.add("bob", vhsTrusted, cert.Version1, cert.Version2)
		for _, ci := range vhsCiphers {
			var recent []c06Done // other sessions of the same curve/cipher for cross-session exclusivity
			for _, si := range c06Sides {
				for _, sr := range c06Sides {
					vno := 0 // rotates through the rewrites inside one (curve, cipher, versions) configuration
					for _, mode := range c06IdxModes {
						for k := 0; k < per; k++ {
							caseNo++
							vno += 3
							if !verifkit.Mine(caseNo) {
								continue
							}
							rng := verifkit.SubRand("C06", caseNo)
							idxI, idxR := c06Indexes(mode, rng.Uint32)
							e := &c06Env{r: r, pki: pki, a: a, b: b, ci: ci, si: si, sr: sr, curve: cv.name, recent: recent, variants: seenVariants,
								cfg: fmt.Sprintf("%s/%s init=%s resp=%s idx=%s", cv.name, ci.name, si.name, sr.name, mode)}
							r.Pre("case %d %s %d %d", caseNo, e.cfg, idxI, idxR)
							if e.session(idxI, idxR, nil, true) == "completed" && k == 0 && mode == "random" {
								r.Sample(map[string]any{"cfg": e.cfg, "idxI": idxI, "idxR": idxR})
							}
							for j := 0; j < 3; j++ {
								rw := rws[(vno+j)%len(rws)]
								r.Pre("case %d %s %d %d rewrite %s", caseNo, e.cfg, idxI, idxR, rw.name)
								e.session(idxI, idxR, &rw, false)
							}
							recent = e.recent
						}
					}
				}
			}
		}
	}
	r.Info("rewrites-after-which-both-sides-completed", len(seenVariants))
	r.Info("rewrites-defined", len(rws))
}

func c06Class(w string) string {
	switch {
	case bytes.Contains([]byte(w), []byte("message index")):
		return "message-count-mismatch"
	case bytes.Contains([]byte(w), []byte("EKey ->")):
		return "key-mismatch"
	case bytes.Contains([]byte(w), []byte("share a key")):
		return "key-not-exclusive"
	case bytes.Contains([]byte(w), []byte("index mismatch")):
		return "index-mismatch"
	case bytes.Contains([]byte(w), []byte("zero local index")):
		return "zero-local-index"
	}
	return "agreement"
}
