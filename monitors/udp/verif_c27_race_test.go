//go:build linux && !android && !e2e_testing && race

package udp

// -race implies -d=checkptr: unsafe pointer conversions are checked for alignment and for staying inside one heap object.
const c27Variant = "-race"
const c27StrictAlign = true
const c27ListenDiv = 2
