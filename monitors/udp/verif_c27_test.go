//go:build linux && !android && !e2e_testing

package udp

// C27 — received offload super-datagrams split back exactly; parsing ancillary data never reads outside it.
//
// deliverSegments oracle (from the statement): for payload P and reported size g
//   g <= 0 or g >= len(P)  -> exactly one piece, equal to P (the datagram whole; also for the empty datagram)
//   otherwise              -> pieces P[0:g], P[g:2g], ... , last possibly shorter and never empty;
//   in every case the pieces, in order, concatenate to exactly P and the sender address is passed through.
// parseRecvCmsg oracle: no access outside Control[0:Controllen] (guard pages before/after, exact-size heap
// objects under checkptr and ASan), and the result equals a bounds-checked reference walk of the cmsg chain
// (cmsg(3): header = {u64 len, i32 level, i32 type}, data at +16, next header at align8(len)); UDP_GRO carries a C int.
// Where the buffer is not something a kernel can produce (truncated / overlong / undersized headers, several
// UDP_GRO entries) the statement does not define the value; there the result must be one of the defensible ones
// (0, or the value of a UDP_GRO entry in the parsable prefix).

import (
	"bytes"
	"encoding/binary"
	"fmt"
	"math"
	"net/netip"
	"runtime/debug"
	"slices"
	"testing"
	"unsafe"

	"github.com/slackhq/nebula/verifkit"
	"golang.org/x/sys/unix"
)

// c27Guard is an anonymous mapping [PROT_NONE page][data pages][PROT_NONE page].
type c27Guard struct {
	region []byte
	data   []byte
}

func c27NewGuard(t testing.TB, dataPages int) *c27Guard {
	ps := unix.Getpagesize()
	region, err := unix.Mmap(-1, 0, (dataPages+2)*ps, unix.PROT_READ|unix.PROT_WRITE, unix.MAP_ANON|unix.MAP_PRIVATE)
	if err != nil {
		t.Fatalf("mmap: %v", err)
	}
	if err := unix.Mprotect(region[:ps], unix.PROT_NONE); err != nil {
		t.Fatalf("mprotect: %v", err)
	}
	if err := unix.Mprotect(region[(dataPages+1)*ps:], unix.PROT_NONE); err != nil {
		t.Fatalf("mprotect: %v", err)
	}
	return &c27Guard{region: region, data: region[ps : (dataPages+1)*ps : (dataPages+1)*ps]}
}

func (g *c27Guard) free() { unix.Munmap(g.region) }

// tail returns n bytes whose last byte is the last byte before the trailing guard page (len == cap).
func (g *c27Guard) tail(n int) []byte { return g.data[len(g.data)-n:] }

// head returns n bytes whose first byte is the first byte after the leading guard page (len == cap).
func (g *c27Guard) head(n int) []byte { return g.data[:n:n] }

// c27SelfTest proves in a recoverable way that the guard pages really fault.
func c27SelfTest(g *c27Guard) (ok bool) {
	old := debug.SetPanicOnFault(true)
	defer debug.SetPanicOnFault(old)
	defer func() {
		if recover() != nil {
			ok = true
		}
	}()
	b := g.tail(1)
	p := (*byte)(unsafe.Add(unsafe.Pointer(&b[0]), 1))
	c27Sink += int(*p)
	return false
}

var c27Sink int

type c27Piece struct {
	ptr  *byte
	n, c int
}

var c27PieceBuf = make([]c27Piece, 0, 1<<16+8)

func c27RefPieces(n, seg int) []int {
	if seg <= 0 || seg >= n {
		return []int{n}
	}
	var out []int
	for rem := n; rem > 0; rem -= seg {
		out = append(out, min(seg, rem))
	}
	return out
}

// c27Deliver runs the real deliverSegments on payload (already placed) and judges the callbacks.
func c27Deliver(r *verifkit.Reporter, payload []byte, seg int, from netip.AddrPort, place string) {
	orig := bytes.Clone(payload)
	rec := func() any {
		m := map[string]any{"payload_len": len(orig), "seg_size": seg, "placement": place, "from": from.String()}
		if len(orig) <= 64 {
			m["payload"] = verifkit.Hex(orig)
		}
		return m
	}
	got := c27PieceBuf[:0]
	catOff := 0      // bytes of orig matched so far by the concatenation of the pieces
	catOK := true    // every piece so far equals the next bytes of orig
	fromBad := -1
	panicked := r.Guard("C27/deliver-panic", rec, func() {
		deliverSegments(func(a netip.AddrPort, seg []byte) {
			if a != from && fromBad < 0 {
				fromBad = len(got)
			}
			if catOK && (catOff+len(seg) > len(orig) || !bytes.Equal(seg, orig[catOff:catOff+len(seg)])) {
				catOK = false
			}
			catOff += len(seg)
			got = append(got, c27Piece{ptr: unsafe.SliceData(seg), n: len(seg), c: cap(seg)})
			if len(got) > len(orig)+2 {
				panic("more callbacks than payload bytes")
			}
		}, from, payload, seg)
	})
	r.Eval(1)
	if panicked {
		return
	}
	want := c27RefPieces(len(orig), seg)
	whole := seg <= 0 || seg >= len(orig)
	key := "C27/split-mismatch"
	if whole {
		key = "C27/nonsensical-size-not-delivered-whole"
		if len(orig) == 0 {
			key = "C27/empty-datagram-delivery"
		}
	}
	lens := make([]int, len(got))
	for i, p := range got {
		lens[i] = p.n
	}
	short := func(l []int) string {
		if len(l) > 12 {
			return fmt.Sprintf("%v...(%d pieces)", l[:12], len(l))
		}
		return fmt.Sprint(l)
	}
	if fromBad >= 0 {
		r.Violation("C27/sender-address-changed", fmt.Sprintf("piece %d delivered with a different sender address, want %v", fromBad, from), rec())
	}
	if !catOK || catOff != len(orig) {
		r.Violation("C27/pieces-do-not-concatenate-to-payload", fmt.Sprintf("pieces %s (total %d bytes) do not concatenate to the %d received bytes", short(lens), catOff, len(orig)), rec())
	}
	if !slices.Equal(lens, want) {
		r.Violation(key, fmt.Sprintf("piece sizes %s, want %s", short(lens), short(want)), rec())
	}
	if !bytes.Equal(payload, orig) {
		r.Violation("C27/payload-modified", "deliverSegments changed the received bytes", rec())
	}
	// Beyond the statement (EncReader contract in the package): a piece's capacity must not reach into the next piece.
	off := 0
	for i, p := range got {
		if p.n > 0 && len(orig) > 0 && off < len(orig) && p.ptr == &payload[off] && p.c > len(orig)-off {
			r.Violation("C27/piece-capacity-beyond-datagram", fmt.Sprintf("piece %d cap %d reaches past the end of the datagram", i, p.c), rec())
		}
		if p.c != p.n && i < len(got)-1 {
			r.Violation("C27/piece-capacity-reaches-next-piece", fmt.Sprintf("piece %d len %d cap %d", i, p.n, p.c), rec())
		}
		off += p.n
	}
}

var c27Froms = []netip.AddrPort{
	netip.MustParseAddrPort("192.0.2.1:4242"), netip.MustParseAddrPort("[2001:db8::1]:65535"), netip.MustParseAddrPort("0.0.0.0:0"), {},
}

func c27Fill(b []byte, salt int) {
	for i := range b {
		b[i] = byte(i*7 + salt*13 + i>>8)
	}
}

func TestVerifC27Deliver(t *testing.T) {
	r := verifkit.NewReporter(t, "C27", "deliver"+c27Variant,
		"deliverSegments on every payload length 0..300 x every segment size -3..303 with the payload flush against a PROT_NONE page at its end and at its start, plus large payloads (up to 65535) x boundary segment sizes (1, len-1, len, len+1, 2^31, MaxInt, MinInt, ...); oracle = piece sizes and concatenation; distinct = distinct (length, segment size, placement)")
	defer r.Done()
	g := c27NewGuard(t, 17)
	defer g.free()
	if !c27SelfTest(g) {
		r.Inconclusive("guard page did not fault in the self test")
		return
	}
	r.Count("guard_selftest_faults", 1)
	old := debug.SetPanicOnFault(true)
	defer debug.SetPanicOnFault(old)
	for n := 0; n <= 300; n++ {
		// faults are turned into recorded panics (SetPanicOnFault); Pre is only the backup for a process-fatal error
		r.Pre("deliver len=%d seg=-3..303 (both placements)", n)
		for seg := -3; seg <= 303; seg++ {
			for pi, place := range []string{"end-guard", "start-guard"} {
				var p []byte
				if pi == 0 {
					p = g.tail(n)
				} else {
					p = g.head(n)
				}
				c27Fill(p, n+seg)
				r.DistinctU64(uint64(n)<<32 | uint64(uint16(seg))<<8 | uint64(pi))
				if seg <= 0 || seg >= n {
					r.Count("whole_cases", 1)
				} else {
					r.Count("split_cases", 1)
				}
				c27Deliver(r, p, seg, c27Froms[(n+seg+3)%len(c27Froms)], place)
			}
		}
	}
	r.Exhaustive("payload length 0..300 x segment size -3..303 x {flush to trailing guard page, flush to leading guard page}")
	r.Sample(map[string]any{"payload_len": 300, "seg_size": 7, "pieces": c27RefPieces(300, 7)})
	// large
	rng := verifkit.NewRand("C27deliver")
	lens := []int{1399, 1400, 1401, 2800, 2801, 4095, 4096, 4097, 8191, 9001, 65500, 65507, 65534, 65535}
	nrand := verifkit.Scale(40, 2000)
	for i := 0; i < nrand; i++ {
		lens = append(lens, 1+rng.IntN(65535))
	}
	for li, n := range lens {
		segs := []int{1372, 1400, n - 1, n, n + 1, n / 2, n/2 + 1, (n + 2) / 3, 65535, 65536, math.MaxInt32, math.MaxInt32 + 1, 1 << 32, 1 << 62, math.MaxInt, math.MinInt, math.MinInt32, -1, 0,
			1 + rng.IntN(n), 1 + rng.IntN(n), 1 + rng.IntN(2000)}
		if li%6 == 0 {
			segs = append(segs, 1, 2, 3)
		}
		for si, seg := range segs {
			p := g.tail(n)
			place := "end-guard"
			if (li+si)%3 == 0 {
				p = g.head(n)
				place = "start-guard"
			}
			c27Fill(p, n^seg)
			r.Pre("deliver len=%d seg=%d place=%s", n, seg, place)
			r.DistinctU64(uint64(n)<<32 ^ uint64(seg)*0x9e3779b97f4a7c15 ^ 1)
			r.Count("large_cases", 1)
			c27Deliver(r, p, seg, c27Froms[si%len(c27Froms)], place)
		}
	}
}

// ---- parseRecvCmsg ----

const c27Hdr = 16 // sizeof(struct cmsghdr) on 64-bit Linux

func c27Align(n uint64) uint64 { return (n + 7) &^ 7 }

type c27RefResult struct {
	wellFormed bool
	accept     []int // acceptable results
	shape      string
}

// c27RefParse is the bounds-checked reference walk.
func c27RefParse(b []byte) c27RefResult {
	n := uint64(len(b))
	off := uint64(0)
	res := c27RefResult{wellFormed: true}
	var strict, lenient []int
	count := 0
	for n-off >= c27Hdr {
		l := binary.NativeEndian.Uint64(b[off : off+8])
		level := int32(binary.NativeEndian.Uint32(b[off+8 : off+12]))
		typ := int32(binary.NativeEndian.Uint32(b[off+12 : off+16]))
		if l < c27Hdr {
			res.wellFormed = false
			res.shape += "S" // undersized header length
			break
		}
		if l > n-off {
			res.wellFormed = false
			res.shape += "O" // overlong
			break
		}
		count++
		if level == unix.SOL_UDP && typ == unix.UDP_GRO {
			if l >= c27Hdr+4 {
				strict = append(strict, int(int32(binary.NativeEndian.Uint32(b[off+16:off+20]))))
				res.shape += "G"
			} else {
				// UDP_GRO without room for its int: no kernel emits this; both ignoring it and reading the bytes that
				// follow inside the buffer are defensible
				res.wellFormed = false
				res.shape += "g"
				if n-off >= c27Hdr+4 {
					lenient = append(lenient, int(int32(binary.NativeEndian.Uint32(b[off+16:off+20]))))
				}
			}
		} else {
			res.shape += "x"
		}
		adv := c27Align(l)
		if adv > n-off {
			off = n
		} else {
			off += adv
		}
		if count > 64 {
			break
		}
	}
	if res.wellFormed && len(strict) <= 1 {
		if len(strict) == 1 {
			res.accept = []int{strict[0]}
		} else {
			res.accept = []int{0}
		}
		return res
	}
	if len(strict) > 1 {
		res.wellFormed = false
	}
	res.accept = append(res.accept, strict...)
	res.accept = append(res.accept, lenient...)
	if len(strict) == 0 || !res.wellFormed {
		res.accept = append(res.accept, 0)
	}
	return res
}

type c27Alloc struct {
	name string
	get  func(n int) []byte // n bytes, len==cap, contents undefined
}

// c27ParseOne places ctrl into a buffer from every allocator and runs the real parser on it.
func c27ParseOne(r *verifkit.Reporter, allocs []c27Alloc, ctrl []byte, class string) {
	ref := c27RefParse(ctrl)
	for _, a := range allocs {
		n := len(ctrl)
		var hdr msghdr
		var buf []byte
		if n > 0 {
			buf = a.get(n)
			if buf == nil {
				continue // this allocator cannot serve the length (alignment under checkptr)
			}
			copy(buf, ctrl)
			hdr.Control = &buf[0]
		}
		setMsgControllen(&hdr, n)
		rec := func() any {
			return map[string]any{"control": verifkit.Hex(ctrl), "controllen": n, "allocator": a.name, "reference_accepts": ref.accept, "shape": ref.shape}
		}
		r.Pre("cmsg alloc=%s control=%x", a.name, ctrl)
		var got int
		panicked := r.Guard("C27/cmsg-read-outside-buffer", rec, func() { got = parseRecvCmsg(&hdr) })
		r.Eval(1)
		r.Count("alloc_"+a.name, 1)
		if panicked {
			continue
		}
		if n > 0 && !bytes.Equal(buf, ctrl) {
			r.Violation("C27/cmsg-buffer-modified", "parseRecvCmsg wrote into the control buffer", rec())
		}
		if int(hdr.Controllen) != n {
			r.Violation("C27/cmsg-header-modified", "parseRecvCmsg changed Controllen", rec())
		}
		if !slices.Contains(ref.accept, got) {
			k := "C27/cmsg-result-mismatch"
			if !ref.wellFormed {
				k = "C27/cmsg-result-not-defensible"
			}
			r.Violation(k, fmt.Sprintf("parseRecvCmsg=%d, reference accepts %v (chain shape %q, well-formed=%v)", got, ref.accept, ref.shape, ref.wellFormed), rec())
		}
	}
	wf := "malformed"
	if ref.wellFormed {
		wf = "wellformed"
		r.Count("wellformed_buffers", 1)
		if len(ref.accept) == 1 && ref.accept[0] != 0 {
			r.Count("wellformed_with_nonzero_gro", 1)
		}
	} else {
		r.Count("malformed_buffers", 1)
	}
	sh := ref.shape
	if len(sh) > 4 {
		sh = sh[:4] + "+"
	}
	r.DistinctClass(fmt.Sprintf("%s %s shape=%s len%%8=%d", class, wf, sh, len(ctrl)%8))
	h := uint64(len(ctrl)) * 0x9e3779b97f4a7c15
	for _, x := range ctrl {
		h = (h ^ uint64(x)) * 1099511628211
	}
	r.DistinctU64(h)
}

func c27PutHdr(b []byte, off int, l uint64, level, typ int32) {
	// writes as much of the header as fits
	var h [16]byte
	binary.NativeEndian.PutUint64(h[0:8], l)
	binary.NativeEndian.PutUint32(h[8:12], uint32(level))
	binary.NativeEndian.PutUint32(h[12:16], uint32(typ))
	if off < len(b) {
		copy(b[off:], h[:])
	}
}

var c27GroValues = []int32{0, 1, 2, 1372, 1400, 65535, 65536, -1, math.MaxInt32, math.MinInt32, 0x01020304}

func TestVerifC27Cmsg(t *testing.T) {
	r := verifkit.NewReporter(t, "C27", "cmsg"+c27Variant,
		"parseRecvCmsg on control buffers of every length 0..64: (a) single header with every length-field value 0..len+9 and 2^31/2^32/2^63/2^64-1, as UDP_GRO and as a foreign cmsg; (b) UDP_GRO at every 8-aligned position after foreign cmsgs with aligned/unaligned lengths; (c) grammar-generated chains truncated to every length; (d) random bytes. Each buffer is placed flush against a trailing PROT_NONE page, flush after a leading one, and in an exact-size Go heap object (checkptr/ASan builds); distinct = distinct control buffers, classes = (generator, well-formedness, chain shape, len mod 8)")
	defer r.Done()
	g := c27NewGuard(t, 1)
	defer g.free()
	if !c27SelfTest(g) {
		r.Inconclusive("guard page did not fault in the self test")
		return
	}
	old := debug.SetPanicOnFault(true)
	defer debug.SetPanicOnFault(old)
	r.Info("build_variant", c27Variant)
	r.Info("checkptr_alignment_enforced", c27StrictAlign)
	allocs := []c27Alloc{
		{"guard_end", func(n int) []byte {
			b := g.tail(n)
			if c27StrictAlign && uintptr(unsafe.Pointer(&b[0]))%8 != 0 {
				// the production buffer is 8-aligned (a slab of CmsgSpace(4)-sized slots); a misaligned base would only
				// trip checkptr's alignment rule, which is a harness artifact. Those lengths are covered by the plain build.
				return nil
			}
			return b
		}},
		{"guard_start", func(n int) []byte { return g.head(n) }},
		{"heap_exact", func(n int) []byte {
			if n%8 != 0 && c27StrictAlign {
				// tiny odd-sized heap objects may be packed unaligned by the tiny allocator
				b := make([]byte, n)
				if uintptr(unsafe.Pointer(&b[0]))%8 != 0 {
					return nil
				}
				return b
			}
			return make([]byte, n)
		}},
	}
	rng := verifkit.NewRand("C27cmsg")
	maxLen := 64

	// (a) one header, every length-field value
	for n := 0; n <= maxLen; n++ {
		lvals := []uint64{1 << 31, 1<<31 - 1, 1 << 32, 1<<32 + 20, 1 << 63, 1<<63 - 1, math.MaxUint64, math.MaxUint64 - 7, 1<<63 + 20}
		for l := 0; l <= n+9; l++ {
			lvals = append(lvals, uint64(l))
		}
		for _, l := range lvals {
			for kind := 0; kind < 2; kind++ {
				b := make([]byte, n)
				for i := range b {
					b[i] = byte(rng.UintN(256))
				}
				if kind == 0 {
					c27PutHdr(b, 0, l, unix.SOL_UDP, unix.UDP_GRO)
					if n >= 20 {
						binary.NativeEndian.PutUint32(b[16:20], uint32(c27GroValues[int(l%uint64(len(c27GroValues)))]))
					}
				} else {
					c27PutHdr(b, 0, l, unix.IPPROTO_IP, unix.IP_TOS)
				}
				// whatever follows the first cmsg must not look like a header by accident in the well-formed case: leave random
				c27ParseOne(r, allocs, b, "single")
			}
		}
	}
	r.Exhaustive("single leading cmsg header: buffer length 0..64 x length field 0..len+9 and 9 huge values x {UDP_GRO, foreign}")

	// (b) kernel-shaped chains: k foreign cmsgs then UDP_GRO then optional foreign, cut to every length
	foreignLens := []uint64{16, 17, 20, 24, 28, 32}
	for pre := 0; pre <= 2; pre++ {
		for _, fl := range foreignLens {
			for post := 0; post <= 1; post++ {
				for vi, v := range c27GroValues {
					var full []byte
					add := func(l uint64, level, typ int32, val uint32) {
						off := len(full)
						full = append(full, make([]byte, c27Align(l))...)
						c27PutHdr(full, off, l, level, typ)
						if l >= 20 {
							binary.NativeEndian.PutUint32(full[off+16:off+20], val)
						}
					}
					for i := 0; i < pre; i++ {
						add(fl, unix.IPPROTO_IP, unix.IP_TOS, 0xdeadbeef)
					}
					add(20, unix.SOL_UDP, unix.UDP_GRO, uint32(v))
					if post == 1 {
						add(fl, unix.SOL_SOCKET, unix.SO_TIMESTAMP, 0x11111111)
					}
					if len(full) > maxLen+8 {
						continue
					}
					if pre == 0 && post == 0 && vi == 3 {
						r.Sample(map[string]any{"control": verifkit.Hex(full), "note": "what the kernel produces for a coalesced datagram: one UDP_GRO cmsg"})
					}
					// the kernel reports the unpadded end for the last cmsg too
					for cut := 0; cut <= len(full); cut++ {
						if cut > maxLen {
							break
						}
						c27ParseOne(r, allocs, full[:cut:cut], "chain")
					}
				}
			}
		}
	}
	r.Exhaustive("UDP_GRO(len 20) after 0..2 foreign cmsgs of length {16,17,20,24,28,32} and before 0..1, x 11 gso values, cut at every length 0..64")

	// (c) grammar chains with hostile headers anywhere
	cases := verifkit.Scale(60_000, 3_000_000)
	for i := 0; i < cases; i++ {
		sub := rng
		n := int(sub.UintN(uint(maxLen + 1)))
		b := make([]byte, n)
		fill := sub.UintN(4)
		for j := range b {
			switch fill {
			case 0:
				b[j] = 0
			case 1:
				b[j] = 0xff
			default:
				b[j] = byte(sub.UintN(256))
			}
		}
		off := 0
		for off < n {
			rem := uint64(n - off)
			var l uint64
			switch sub.UintN(14) {
			case 0:
				l = 0
			case 1:
				l = uint64(sub.UintN(16))
			case 2:
				l = 16
			case 3:
				l = 17 + uint64(sub.UintN(7))
			case 4:
				l = rem
			case 5:
				l = rem + 1
			case 6:
				l = rem + uint64(sub.UintN(64))
			case 7:
				l = []uint64{1 << 31, 1 << 32, 1 << 63, math.MaxUint64, math.MaxUint64 - 15, 1<<63 + 24}[sub.UintN(6)]
			case 8:
				l = sub.Uint64()
			case 9, 10:
				l = 20
			case 11:
				l = 24
			default:
				l = 16 + uint64(sub.UintN(20))
			}
			level, typ := int32(unix.SOL_UDP), int32(unix.UDP_GRO)
			switch sub.UintN(6) {
			case 0:
				level, typ = unix.IPPROTO_IP, unix.IP_TOS
			case 1:
				level, typ = unix.SOL_UDP, unix.UDP_SEGMENT
			case 2:
				level, typ = unix.SOL_SOCKET, unix.UDP_GRO
			case 3:
				level, typ = int32(sub.Uint32()), int32(sub.Uint32())
			}
			c27PutHdr(b, off, l, level, typ)
			if off+20 <= n && sub.UintN(2) == 0 {
				binary.NativeEndian.PutUint32(b[off+16:off+20], uint32(c27GroValues[sub.UintN(uint(len(c27GroValues)))]))
			}
			adv := c27Align(l)
			if adv < 8 || adv > uint64(n) {
				adv = 8 * (1 + uint64(sub.UintN(4)))
			}
			off += int(adv)
		}
		c27ParseOne(r, allocs, b, "grammar")
	}

	// (d) plain random bytes and a nil control pointer with a non-zero length
	nr := verifkit.Scale(20_000, 1_000_000)
	for i := 0; i < nr; i++ {
		n := int(rng.UintN(uint(maxLen + 1)))
		b := make([]byte, n)
		for j := range b {
			b[j] = byte(rng.UintN(256))
		}
		if n >= 8 && rng.UintN(2) == 0 {
			binary.NativeEndian.PutUint64(b[0:8], uint64(rng.UintN(uint(n+4))))
		}
		c27ParseOne(r, allocs, b, "random")
	}
	for _, cl := range []int{0, 1, 15, 16, 24, 1 << 20} {
		var hdr msghdr
		setMsgControllen(&hdr, cl)
		var got int
		if !r.Guard("C27/cmsg-nil-control-panic", func() any { return map[string]any{"controllen": cl, "control": nil} }, func() { got = parseRecvCmsg(&hdr) }) && got != 0 {
			r.Violation("C27/cmsg-nil-control-result", fmt.Sprintf("nil control buffer of claimed length %d parsed to %d", cl, got), nil)
		}
		r.Eval(1)
	}
}
