//go:build linux && !android && !e2e_testing

package udp

// C27 (receive loop) — the REAL StdConn.ListenOut on loopback sockets.
//
// A sender (real StdConn, real WriteBatch with UDP_SEGMENT, real sendto) emits PRNG sequences of offloaded bursts
// (the receiver, with UDP_GRO on, gets them as super-datagrams with a kernel coalescing size) interleaved with plain
// datagrams that are shorter than, equal to and longer than the previous coalescing size. Every datagram carries
// {id, length} and a body that is a function of the id.
// Oracle (statement: a datagram with a coalescing size is split back into exactly the datagrams it was made of; one
// without is delivered whole): every delivered piece is byte-for-byte exactly one sent datagram, no datagram is
// delivered twice, the pieces of one super-datagram are consecutive datagrams of one burst in their order, the sender
// address is the sender's, and a datagram never arrives before one whose delivery had already been awaited.
// Loss is not judged (UDP): missing datagrams are counted and only make the run inconclusive below 95 % delivery.
// Waits are bounded polls used for pacing only; no verdict depends on time.

import (
	"bytes"
	"encoding/binary"
	"errors"
	"fmt"
	"log/slog"
	"net"
	"net/netip"
	"sync"
	"sync/atomic"
	"testing"
	"time"
	"unsafe"

	"github.com/slackhq/nebula/verifkit"
)

type c27LSent struct {
	id     uint32
	data   []byte
	sender int
	epoch  int // all datagrams of earlier epochs had been delivered before this one was sent
	call   int // send syscall number
	burst  bool
	got    int
}

type c27LPiece struct {
	from netip.AddrPort
	data []byte
	ptr  uintptr
}

func c27LMake(id uint32, n int) []byte {
	b := make([]byte, n)
	binary.BigEndian.PutUint32(b[0:4], id)
	binary.BigEndian.PutUint32(b[4:8], uint32(n))
	for i := 8; i < n; i++ {
		b[i] = byte(int(id)*31 + i*7 + i>>8)
	}
	return b
}

func TestVerifC27ListenOut(t *testing.T) {
	r := verifkit.NewReporter(t, "C27", "listenout"+c27Variant,
		"real StdConn.ListenOut (UDP_GRO, recvmmsg batches of 4 and 64) on loopback fed by real StdConn senders: PRNG sequences of UDP_SEGMENT bursts (segment sizes 200..1400 and a few up to 8000, 2..20 segments, shorter tails) interleaved with plain datagrams of 8..9000 bytes chosen around the previous coalescing size (shorter, equal, +1, longer), paced in lock step and in free-running groups; every delivered piece must be exactly one sent datagram; distinct = distinct (kind, size, relation to previous coalescing size, recvmmsg batch) step shapes and distinct datagrams")
	defer r.Done()
	l := slog.New(slog.DiscardHandler)
	var totalSuper, totalSent, totalMissing int64
	groSeen, groSupported := false, true
	for _, batchSize := range []int{4, 64} {
		rxc, err := NewListener(l, Settings{Listen: netip.MustParseAddrPort("127.0.0.1:0"), Batch: batchSize, Offloads: true})
		if err != nil {
			r.Inconclusive(fmt.Sprintf("cannot open loopback listener: %v", err))
			return
		}
		rx := rxc.(*StdConn)
		_ = rx.SetRecvBuffer(4 << 20)
		dst, err := rx.LocalAddr()
		if err != nil {
			r.Inconclusive(fmt.Sprintf("LocalAddr: %v", err))
			return
		}
		var senders [2]*StdConn
		var senderAddr [2]netip.AddrPort
		for i := range senders {
			c, err := NewListener(l, Settings{Listen: netip.MustParseAddrPort("127.0.0.1:0"), Batch: 8, Offloads: true})
			if err != nil {
				r.Inconclusive(fmt.Sprintf("cannot open loopback sender: %v", err))
				return
			}
			senders[i] = c.(*StdConn)
			senderAddr[i], _ = senders[i].LocalAddr()
			_ = senders[i].SetSendBuffer(4 << 20)
		}
		gso := senders[0].bw.gsoSupported && senders[1].bw.gsoSupported
		if !rx.groSupported || !gso {
			groSupported = false
			r.Info("gro_unavailable", map[string]any{"rx_gro": rx.groSupported, "tx_gso": gso})
			r.Count("listenout_skipped_no_gro", 1)
		}
		// count UDP_SEGMENT entries that really went to the kernel
		var gsoEntries atomic.Int64
		for _, s := range senders {
			s := s
			realSend := s.bw.sendFn
			s.bw.sendFn = func(start, n int) (int, error) {
				for e := start; e < start+n; e++ {
					if s.bw.msgs[e].Hdr.Control != nil {
						gsoEntries.Add(1)
					}
				}
				return realSend(start, n)
			}
		}

		var mu sync.Mutex
		var pieces []c27LPiece
		var npieces atomic.Int64
		var flushes atomic.Int64
		done := make(chan error, 1)
		go func() {
			done <- rx.ListenOut(func(from netip.AddrPort, p []byte) {
				cp := c27LPiece{from: from, data: bytes.Clone(p)}
				if len(p) > 0 {
					cp.ptr = uintptr(unsafe.Pointer(&p[0]))
				}
				mu.Lock()
				pieces = append(pieces, cp)
				mu.Unlock()
				npieces.Add(1)
			}, func() { flushes.Add(1) })
		}()

		var sent []*c27LSent
		nextID := uint32(batchSize) << 24
		epoch, call := 0, 0
		waitFor := func(n int64, limit time.Duration) bool {
			for i := 0; ; i++ {
				if npieces.Load() >= n {
					return true
				}
				if time.Duration(i)*200*time.Microsecond > limit {
					return false
				}
				time.Sleep(200 * time.Microsecond)
			}
		}
		steps := verifkit.Scale(700, 20000) / c27ListenDiv
		rng := verifkit.NewRand(fmt.Sprintf("C27listenout-%d", batchSize))
		lastG := 1000
		group := 0 // free-running steps left before the next wait
		for st := 0; st < steps; st++ {
			si := rng.IntN(2)
			s := senders[si]
			var shape string
			if rng.IntN(2) == 0 {
				// offloaded burst(s)
				nruns := 1 + rng.IntN(2)
				var bufs [][]byte
				var addrs []netip.AddrPort
				for ri := 0; ri < nruns; ri++ {
					g := 200 + rng.IntN(1201)
					switch rng.IntN(8) {
					case 0:
						g = []int{200, 500, 1000, 1372, 1400}[rng.IntN(5)]
					case 1:
						g = 1401 + rng.IntN(6600)
					case 2:
						g = 8 + rng.IntN(192)
					}
					n := 2 + rng.IntN(19)
					if n*g > 60000 {
						n = max(2, 60000/g)
					}
					for j := 0; j < n; j++ {
						sz := g
						if j == n-1 && rng.IntN(3) == 0 {
							sz = 8 + rng.IntN(g-7)
						}
						d := &c27LSent{id: nextID, data: c27LMake(nextID, sz), sender: si, epoch: epoch, call: call, burst: true}
						nextID++
						sent = append(sent, d)
						bufs = append(bufs, d.data)
						addrs = append(addrs, dst)
					}
					lastG = g
					shape = fmt.Sprintf("burst g=%d-%d n=%d runs=%d batch=%d", g/200*200, g/200*200+199, n/5*5, nruns, batchSize)
				}
				w, err := s.WriteBatch(bufs, addrs)
				if err != nil || w != len(bufs) {
					r.Count("send_short_or_error", 1)
				}
				r.Count("burst_steps", 1)
			} else {
				// plain datagrams around the previous coalescing size
				k := 1 + rng.IntN(3)
				for j := 0; j < k; j++ {
					var sz int
					rel := ""
					switch rng.IntN(7) {
					case 0:
						sz, rel = lastG, "equal"
					case 1:
						sz, rel = lastG+1, "plus1"
					case 2:
						sz, rel = max(8, lastG-1), "minus1"
					case 3:
						sz, rel = 8+rng.IntN(max(1, lastG-8)), "shorter"
					case 4:
						sz, rel = lastG+1+rng.IntN(9000-min(lastG, 8990)), "longer"
					case 5:
						sz, rel = 2*lastG+rng.IntN(3)-1, "double"
					default:
						sz, rel = 8+rng.IntN(8993), "any"
					}
					sz = max(8, min(sz, 9000))
					if sz > lastG {
						r.Count("plain_longer_than_previous_gso", 1)
					}
					d := &c27LSent{id: nextID, data: c27LMake(nextID, sz), sender: si, epoch: epoch, call: call}
					nextID++
					sent = append(sent, d)
					if err := s.WriteTo(d.data, dst); err != nil {
						r.Count("send_short_or_error", 1)
					}
					call++
					shape = fmt.Sprintf("plain %s k=%d batch=%d", rel, k, batchSize)
				}
				r.Count("plain_steps", 1)
			}
			call++
			r.DistinctClass(shape)
			// pacing
			if group > 0 {
				group--
				if group > 0 {
					continue
				}
			} else if rng.IntN(4) == 0 {
				group = 2 + rng.IntN(4)
				continue
			}
			if waitFor(int64(len(sent)), 2*time.Second) {
				epoch++
			} else {
				r.Count("pacing_wait_expired", 1)
			}
		}
		// quiet period after the last send: until everything arrived, or nothing new for a while (bounded)
		if !waitFor(int64(len(sent)), 3*time.Second) {
			last := npieces.Load()
			for i := 0; i < 10; i++ {
				time.Sleep(200 * time.Millisecond)
				if now := npieces.Load(); now == last {
					break
				} else {
					last = now
				}
			}
		}
		_ = rx.Close()
		select {
		case err := <-done:
			if err != nil && !errors.Is(err, net.ErrClosed) {
				r.Violation("C27/listenout-error", fmt.Sprintf("ListenOut returned %v", err), nil)
			}
		case <-time.After(10 * time.Second):
			r.Inconclusive("ListenOut did not return after Close")
			return
		}
		for _, s := range senders {
			_ = s.Close()
		}

		// ---- oracle ----
		byID := make(map[uint32]*c27LSent, len(sent))
		for _, d := range sent {
			byID[d.id] = d
		}
		mu.Lock()
		got := pieces
		mu.Unlock()
		describe := func(p c27LPiece) string {
			if len(p.data) >= 8 {
				id, ln := binary.BigEndian.Uint32(p.data[0:4]), binary.BigEndian.Uint32(p.data[4:8])
				if d, ok := byID[id]; ok && int(ln) == len(d.data) && len(p.data) < len(d.data) && bytes.Equal(p.data, d.data[:len(p.data)]) {
					return fmt.Sprintf("it is the first %d bytes of the %d-byte datagram id=%#x (offloaded burst=%v): the datagram was cut", len(p.data), len(d.data), id, d.burst)
				}
				if d, ok := byID[id]; ok && len(p.data) > len(d.data) && bytes.Equal(p.data[:len(d.data)], d.data) {
					return fmt.Sprintf("it starts with the whole %d-byte datagram id=%#x followed by %d more bytes: datagrams were merged", len(d.data), id, len(p.data)-len(d.data))
				}
			}
			for _, d := range sent {
				if len(p.data) < len(d.data) && bytes.Equal(p.data, d.data[len(d.data)-len(p.data):]) {
					return fmt.Sprintf("it is the last %d bytes of the %d-byte datagram id=%#x (offloaded burst=%v)", len(p.data), len(d.data), d.id, d.burst)
				}
			}
			return "it matches no sent datagram, prefix or suffix"
		}
		maxEpoch := -1
		var prev *c27LSent
		var prevPiece c27LPiece
		groupLen := 0
		supers := 0
		for i, p := range got {
			r.Eval(1)
			var d *c27LSent
			if len(p.data) >= 8 {
				d = byID[binary.BigEndian.Uint32(p.data[0:4])]
			}
			if d == nil || !bytes.Equal(d.data, p.data) {
				ctx := []int{}
				for j := max(0, i-3); j < min(len(got), i+3); j++ {
					ctx = append(ctx, len(got[j].data))
				}
				r.Violation("C27/listenout-piece-not-a-sent-datagram",
					fmt.Sprintf("ListenOut delivered a %d-byte piece that is not one of the sent datagrams; %s", len(p.data), describe(p)),
					map[string]any{"recvmmsg_batch": batchSize, "piece_index": i, "piece_len": len(p.data), "piece_head": verifkit.Hex(p.data[:min(len(p.data), 24)]),
						"neighbouring_piece_lengths": ctx, "explanation": describe(p)})
				prev, groupLen = nil, 0
				continue
			}
			d.got++
			if d.got == 2 {
				r.Violation("C27/listenout-datagram-delivered-twice", fmt.Sprintf("datagram id=%#x (%d bytes) delivered more than once", d.id, len(d.data)), map[string]any{"id": d.id, "len": len(d.data), "recvmmsg_batch": batchSize})
			}
			if p.from != senderAddr[d.sender] {
				r.Violation("C27/listenout-wrong-sender", fmt.Sprintf("datagram id=%#x sent from %v delivered as from %v", d.id, senderAddr[d.sender], p.from), nil)
			}
			if d.epoch < maxEpoch {
				r.Violation("C27/listenout-order", fmt.Sprintf("datagram id=%#x was delivered after datagrams that were sent only after its predecessors had all arrived (epoch %d after %d)", d.id, d.epoch, maxEpoch), nil)
			}
			maxEpoch = max(maxEpoch, d.epoch)
			// pieces of one super-datagram are adjacent in the receive buffer
			contiguous := prev != nil && p.ptr != 0 && prevPiece.ptr+uintptr(len(prevPiece.data)) == p.ptr
			if contiguous {
				groupLen++
				if groupLen == 1 {
					supers++
				}
				if d.id != prev.id+1 || d.call != prev.call || !d.burst {
					r.Violation("C27/listenout-superdatagram-pieces", fmt.Sprintf("adjacent pieces of one received buffer are datagrams id=%#x and id=%#x (send calls %d, %d): not consecutive datagrams of one burst", prev.id, d.id, prev.call, d.call), nil)
				}
				if len(prevPiece.data) < len(p.data) {
					r.Violation("C27/listenout-superdatagram-pieces", fmt.Sprintf("a %d-byte piece is followed by a longer %d-byte piece inside one super-datagram", len(prevPiece.data), len(p.data)), nil)
				}
			} else {
				groupLen = 0
				if prev != nil && prev.call == d.call && d.id < prev.id {
					r.Violation("C27/listenout-order", fmt.Sprintf("datagrams of one send call delivered out of order: id=%#x after id=%#x", d.id, prev.id), nil)
				} else if prev != nil && prev.sender == d.sender && d.id < prev.id {
					r.Count("reordered_across_send_calls", 1)
				}
			}
			prev, prevPiece = d, p
			r.DistinctU64(uint64(d.id)<<20 ^ uint64(len(d.data)))
		}
		missing := 0
		for _, d := range sent {
			if d.got == 0 {
				missing++
			}
		}
		totalSuper += int64(supers)
		totalSent += int64(len(sent))
		totalMissing += int64(missing)
		if supers > 0 {
			groSeen = true
		}
		r.Count("datagrams_sent", len(sent))
		r.Count("datagrams_missing", missing)
		r.Count("pieces_delivered", len(got))
		r.Count("superdatagrams_observed", supers)
		r.Count("udp_segment_entries_sent", int(gsoEntries.Load()))
		r.Count("recvmmsg_batches", int(flushes.Load()))
		r.Sample(map[string]any{"recvmmsg_batch": batchSize, "datagrams_sent": len(sent), "pieces_delivered": len(got), "missing": missing,
			"superdatagrams_observed": supers, "udp_segment_entries_sent": gsoEntries.Load(), "recvmmsg_returns": flushes.Load()})
	}
	if totalSent > 0 && totalMissing*20 > totalSent && r.NViolations() == 0 { // cut/merged datagrams are violations, not loss
		r.Inconclusive(fmt.Sprintf("only %d of %d datagrams were delivered (loopback loss); not judged", totalSent-totalMissing, totalSent))
	}
	switch {
	case groSeen:
		r.Count("gro_engaged_or_unsupported", 1)
	case !groSupported:
		r.Count("gro_engaged_or_unsupported", 1)
		r.Info("listenout_gro", "skipped: kernel/socket does not offer UDP_GRO+UDP_SEGMENT here; only plain datagrams were exercised")
	default:
		r.Inconclusive("UDP_GRO and UDP_SEGMENT are available but no coalesced super-datagram reached ListenOut")
	}
	_ = totalSuper
}
