//go:build linux && !android && !e2e_testing && !race && !asan

package udp

const c27Variant = ""
const c27StrictAlign = false
const c27ListenDiv = 1
