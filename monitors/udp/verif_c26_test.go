//go:build linux && !android && !e2e_testing

package udp

// C26 — batched underlay sends survive kernel faults without duplication.
//
// The sendFn injection point of the real batchWriter is replaced by a scripted fake kernel. The fake kernel is a
// model of sendmmsg(2) + UDP_SEGMENT written from the man pages, not from the writer:
//   - it is shown n mmsghdr entries; for each it decodes msg_name (sockaddr_in / sockaddr_in6), walks msg_iov and, if
//     msg_control carries a UDP_SEGMENT cmsg with size g, cuts the concatenated payload into g-byte datagrams (last may
//     be shorter); without the cmsg the concatenation is one datagram;
//   - every iovec must be exactly one of the caller's buffers (pointer and length), every sockaddr must be the
//     wire form of the destination the caller gave for those packets;
//   - the script decides the outcome: accept all, accept the first k, or accept nothing with EIO / EINVAL / ENOBUFS /
//     no error at all.
// Oracle (from the statement), evaluated on the fake kernel's own log:
//   each submitted datagram accepted at most once; WriteBatch's count == datagrams accepted; for every wire
//   destination the accepted datagrams are a subsequence of what was submitted for it; every UDP_SEGMENT entry has
//   equal-sized segments except a shorter non-empty last one, at most maxGSOSegments segments and at most maxGSOBytes
//   bytes, and (like every entry) one destination that is the destination of all its packets.
// Extras beyond the statement (own keys): every routable packet is offered to the kernel at least once unless the call
// aborted; error returned iff the kernel made no progress without an error; WriteBatch terminates.

import (
	"encoding/binary"
	"fmt"
	"log/slog"
	"math/rand/v2"
	"net"
	"net/netip"
	"strings"
	"testing"
	"unsafe"

	"github.com/slackhq/nebula/overlay/batch"
	"github.com/slackhq/nebula/verifkit"
	"golang.org/x/sys/unix"
)

type c26Mode struct {
	name     string
	isV4     bool
	gso      bool // gsoSupported when WriteBatch is entered
	maxSeg   int
	prepared bool // scratch prepared with offloads (cmsg slab present)
}

var c26Modes = []c26Mode{
	{"v4-gso-off", true, false, 0, false},
	{"v4-gso-63", true, true, 63, true},
	{"v4-gso-3", true, true, 3, true},
	{"v4-gso-2", true, true, 2, true},
	{"v6-gso-63", false, true, 63, true},
	{"v4-gso-disabled-at-runtime", true, false, 63, true},
}

func c26NewWriter(m c26Mode) *batchWriter {
	w := &batchWriter{fd: -1, isV4: m.isV4, l: slog.New(slog.DiscardHandler)}
	w.gsoSupported = m.prepared
	w.maxGSOSegments = m.maxSeg
	w.prepareWriteMessages(MaxWriteBatch, m.prepared)
	w.gsoSupported = m.gso
	return w
}

const (
	c26OutAll = iota
	c26OutPartial
	c26OutEIO
	c26OutEINVAL
	c26OutENOBUFS
	c26OutZeroNil
)

var c26OutNames = []string{"all", "first-k", "0+EIO", "0+EINVAL", "0+ENOBUFS", "0+nil"}

type c26Abort struct{ why string }

type c26Dgram struct {
	dest netip.AddrPort // wire destination (unmapped)
	idx  int            // submitted packet index, -1 = empty datagram, -2 = bytes that were never submitted as one datagram
}

type c26Call struct {
	Start, N int
	Entries  []string
	Outcome  string
}

// c26Kernel is the fake kernel plus the observation log of one WriteBatch call.
type c26Kernel struct {
	w      *batchWriter
	mode   c26Mode
	bufs   [][]byte
	addrs  []netip.AddrPort
	byPtr  map[*byte]int
	lookup func(p *byte) (int, bool)

	// outcome source: script prefix then default 0 ("all"), or rng
	script    []int
	taken     []int
	branch    []int
	maxFaults int
	faults    int
	rng       *rand.Rand
	faultPct  uint
	salt      int
	sticky    *c26Sticky

	ncalls     int
	maxCalls   int
	accepted   []c26Dgram
	acceptedN  []uint8 // per packet
	offered    []bool
	zeroNil    bool
	gsoEntries int
	gsoAfterEIO int
	sawGsoEIO  bool
	kinds      []uint8
	calls      []c26Call
	keepCalls  bool
	viol       []c26Viol
	// statistics accumulated over runs, flushed by the test
	statKinds  [6]int64
	statGso    int64
	statGsoEIO int64
	// scratch
	dg   []c26Dgram
	pk   []int
	ents []c26Entry
}

type c26Viol struct{ key, what string }

type c26Entry struct {
	dgFrom, dgTo int // range in k.dg
	pkFrom, pkTo int // range in k.pk
	gso          bool
	dest         netip.AddrPort
}

// c26Sticky is a persistent fault profile: the kernel's answer depends only on what it is shown, the way a real kernel
// keeps rejecting an unreachable destination or a route that cannot carry UDP_SEGMENT.
type c26Sticky struct {
	poison  map[netip.AddrPort]int // wire destination -> outcome kind (c26OutEIO / c26OutEINVAL / c26OutENOBUFS)
	gsoEIO  int                    // 0 never, 1 every UDP_SEGMENT entry, 2 UDP_SEGMENT entries to gsoDest only
	gsoDest netip.AddrPort
}

func (s *c26Sticky) String() string {
	var sb strings.Builder
	for d, kd := range s.poison {
		fmt.Fprintf(&sb, "%v always %s; ", d, c26OutNames[kd])
	}
	switch s.gsoEIO {
	case 1:
		sb.WriteString("every UDP_SEGMENT entry always EIO")
	case 2:
		fmt.Fprintf(&sb, "UDP_SEGMENT entries to %v always EIO", s.gsoDest)
	}
	return sb.String()
}

func (k *c26Kernel) bad(key, format string, a ...any) {
	if len(k.viol) < 16 {
		k.viol = append(k.viol, c26Viol{key, fmt.Sprintf(format, a...)})
	}
}

// c26WireDest is what the kernel must be told to reach a: v4 sockets speak sockaddr_in, v6 sockets sockaddr_in6 with
// v4 peers as ::ffff:a.b.c.d. ok=false: not expressible on this socket (unroutable).
func c26WireDest(a netip.AddrPort, isV4 bool) (netip.AddrPort, bool) {
	u := netip.AddrPortFrom(a.Addr().Unmap().WithZone(""), a.Port())
	if isV4 && !u.Addr().Is4() {
		return u, false
	}
	return u, true
}

func (k *c26Kernel) decodeName(e int, hdr *msghdr) (netip.AddrPort, bool) {
	if hdr.Name == nil {
		k.bad("C26/bad-sockaddr", "entry %d has no msg_name", e)
		return netip.AddrPort{}, false
	}
	if k.mode.isV4 {
		if hdr.Namelen != unix.SizeofSockaddrInet4 {
			k.bad("C26/bad-sockaddr", "entry %d msg_namelen=%d on an AF_INET socket", e, hdr.Namelen)
			return netip.AddrPort{}, false
		}
		b := unsafe.Slice(hdr.Name, unix.SizeofSockaddrInet4)
		if binary.NativeEndian.Uint16(b[0:2]) != unix.AF_INET {
			k.bad("C26/bad-sockaddr", "entry %d sa_family=%d, want AF_INET", e, binary.NativeEndian.Uint16(b[0:2]))
			return netip.AddrPort{}, false
		}
		for _, z := range b[8:16] {
			if z != 0 {
				k.bad("C26/bad-sockaddr", "entry %d sin_zero not zero", e)
				break
			}
		}
		return netip.AddrPortFrom(netip.AddrFrom4([4]byte(b[4:8])), uint16(b[2])<<8|uint16(b[3])), true
	}
	if hdr.Namelen != unix.SizeofSockaddrInet6 {
		k.bad("C26/bad-sockaddr", "entry %d msg_namelen=%d on an AF_INET6 socket", e, hdr.Namelen)
		return netip.AddrPort{}, false
	}
	b := unsafe.Slice(hdr.Name, unix.SizeofSockaddrInet6)
	if binary.NativeEndian.Uint16(b[0:2]) != unix.AF_INET6 {
		k.bad("C26/bad-sockaddr", "entry %d sa_family=%d, want AF_INET6", e, binary.NativeEndian.Uint16(b[0:2]))
		return netip.AddrPort{}, false
	}
	if binary.NativeEndian.Uint32(b[4:8]) != 0 || binary.NativeEndian.Uint32(b[24:28]) != 0 {
		k.bad("C26/bad-sockaddr", "entry %d flowinfo/scope_id not zero", e)
	}
	return netip.AddrPortFrom(netip.AddrFrom16([16]byte(b[8:24])).Unmap(), uint16(b[2])<<8|uint16(b[3])), true
}

// decodeEntry validates entry e as the kernel sees it and appends its datagrams / packets to the scratch lists.
func (k *c26Kernel) decodeEntry(e int) (ent c26Entry, desc string) {
	hdr := &k.w.msgs[e].Hdr
	ent.dgFrom, ent.pkFrom = len(k.dg), len(k.pk)
	dest, destOK := k.decodeName(e, hdr)
	ent.dest = dest
	if hdr.Iov == nil || hdr.Iovlen == 0 || hdr.Iovlen > 1024 {
		k.bad("C26/bad-iovec", "entry %d has iov=%v iovlen=%d", e, hdr.Iov != nil, hdr.Iovlen)
		ent.dgTo, ent.pkTo = len(k.dg), len(k.pk)
		return ent, "bad-iov"
	}
	iovs := unsafe.Slice(hdr.Iov, int(hdr.Iovlen))
	// the iovec array itself must be the writer's scratch (anything else would be garbage to the real kernel too)
	first, last := uintptr(unsafe.Pointer(&k.w.iovs[0])), uintptr(unsafe.Pointer(&k.w.iovs[len(k.w.iovs)-1]))
	if p := uintptr(unsafe.Pointer(hdr.Iov)); p < first || uintptr(unsafe.Pointer(&iovs[len(iovs)-1])) > last {
		k.bad("C26/bad-iovec", "entry %d iovec array [%d entries] not inside the writer's iovec scratch", e, len(iovs))
		ent.dgTo, ent.pkTo = len(k.dg), len(k.pk)
		return ent, "bad-iov"
	}
	g := 0
	if hdr.Control != nil || hdr.Controllen != 0 {
		ent.gso = true
		if hdr.Control == nil || hdr.Controllen < uint64(unix.CmsgLen(2)) {
			k.bad("C26/bad-cmsg", "entry %d control=%v controllen=%d", e, hdr.Control != nil, hdr.Controllen)
		} else {
			c := unsafe.Slice(hdr.Control, int(hdr.Controllen))
			clen := binary.NativeEndian.Uint64(c[0:8])
			level := int32(binary.NativeEndian.Uint32(c[8:12]))
			typ := int32(binary.NativeEndian.Uint32(c[12:16]))
			if clen != uint64(unix.CmsgLen(2)) || level != unix.SOL_UDP || typ != unix.UDP_SEGMENT {
				k.bad("C26/bad-cmsg", "entry %d cmsg len=%d level=%d type=%d, want a UDP_SEGMENT cmsg with a uint16", e, clen, level, typ)
			} else {
				g = int(binary.NativeEndian.Uint16(c[16:18]))
				if g == 0 {
					k.bad("C26/bad-cmsg", "entry %d UDP_SEGMENT size 0", e)
				}
			}
		}
		k.gsoEntries++
		if k.sawGsoEIO {
			k.gsoAfterEIO++
		}
		if !k.mode.gso {
			k.bad("C26/gso-entry-while-gso-off", "entry %d carries UDP_SEGMENT although GSO is off for this socket", e)
		}
	}
	// walk the iovecs
	total := 0
	pieceFill := 0       // bytes in the datagram being assembled
	pieceIdx := -3       // -3 nothing yet, >=0 exactly that whole packet so far, -2 mixed
	emit := func() {
		switch {
		case pieceIdx == -3:
			k.dg = append(k.dg, c26Dgram{dest, -1})
		default:
			k.dg = append(k.dg, c26Dgram{dest, pieceIdx})
		}
		pieceFill, pieceIdx = 0, -3
	}
	for i := range iovs {
		iov := &iovs[i]
		L := int(iov.Len)
		idx := -1
		if iov.Base == nil {
			if L != 0 {
				k.bad("C26/bad-iovec", "entry %d iovec %d has nil base and length %d", e, i, L)
				L = 0
			}
		} else {
			var ok bool
			idx, ok = k.lookup(iov.Base)
			if !ok || L != len(k.bufs[idx]) {
				k.bad("C26/iovec-not-a-caller-buffer", "entry %d iovec %d (len %d) is not exactly one of the caller's packets", e, i, L)
				ent.dgTo, ent.pkTo = len(k.dg), len(k.pk)
				return ent, "bad-iov"
			}
		}
		if idx < 0 && L == 0 {
			// an empty packet: identify it by position only for the offered/destination checks
			k.pk = append(k.pk, -1)
		} else {
			k.pk = append(k.pk, idx)
		}
		if ent.gso && g > 0 {
			if i < len(iovs)-1 && L != g {
				k.bad("C26/gso-unequal-segments", "entry %d: segment %d of %d has %d bytes, UDP_SEGMENT size is %d", e, i, len(iovs), L, g)
			}
			if i == len(iovs)-1 && (L == 0 || L > g) {
				k.bad("C26/gso-unequal-segments", "entry %d: last segment has %d bytes, UDP_SEGMENT size is %d", e, L, g)
			}
		}
		total += L
		// kernel segmentation of the concatenated payload
		rem := L
		off := 0
		for rem > 0 {
			room := rem
			if ent.gso && g > 0 && g-pieceFill < room {
				room = g - pieceFill
			}
			if pieceIdx == -3 && off == 0 && room == L {
				pieceIdx = idx // so far exactly this whole packet
			} else {
				pieceIdx = -2
			}
			pieceFill += room
			off += room
			rem -= room
			if ent.gso && g > 0 && pieceFill == g {
				emit()
			}
		}
	}
	if pieceFill > 0 || len(k.dg) == ent.dgFrom {
		emit()
	}
	if ent.gso {
		if len(iovs) > k.mode.maxSeg {
			k.bad("C26/gso-too-many-segments", "entry %d has %d segments, limit %d", e, len(iovs), k.mode.maxSeg)
		}
		if total > maxGSOBytes {
			k.bad("C26/gso-too-many-bytes", "entry %d carries %d bytes, limit %d", e, total, maxGSOBytes)
		}
	}
	ent.dgTo, ent.pkTo = len(k.dg), len(k.pk)
	// destination of every packet in the entry
	if destOK {
		for _, idx := range k.pk[ent.pkFrom:ent.pkTo] {
			if idx < 0 {
				continue
			}
			want, routable := c26WireDest(k.addrs[idx], k.mode.isV4)
			if !routable || want != dest {
				k.bad("C26/wrong-destination", "entry %d is addressed to %v but carries packet %d submitted for %v", e, dest, idx, k.addrs[idx])
			}
			k.offered[idx] = true
		}
	}
	for _, d := range k.dg[ent.dgFrom:ent.dgTo] {
		if d.idx == -2 {
			k.bad("C26/kernel-would-send-unsubmitted-datagram", "entry %d makes the kernel emit a datagram that is not one of the submitted packets (segment boundaries do not match packet boundaries)", e)
			break
		}
	}
	if k.keepCalls {
		var sb strings.Builder
		fmt.Fprintf(&sb, "to=%v pkts=%v", dest, k.pk[ent.pkFrom:ent.pkTo])
		if ent.gso {
			fmt.Fprintf(&sb, " UDP_SEGMENT=%d", g)
		}
		desc = sb.String()
	}
	return ent, desc
}

func (k *c26Kernel) decide(n int) (kind int, accept int) {
	// options: 0 all | 1..n-1 first k | n EIO | n+1 EINVAL | n+2 ENOBUFS | n+3 zero/nil
	nopt := n + 4
	var o int
	if k.sticky != nil {
		for i := 0; i < n; i++ {
			ent := k.ents[i]
			kd := 0
			if ent.gso && (k.sticky.gsoEIO == 1 || (k.sticky.gsoEIO == 2 && ent.dest == k.sticky.gsoDest)) {
				kd = c26OutEIO
			} else if p, ok := k.sticky.poison[ent.dest]; ok {
				kd = p
			}
			if kd != 0 {
				if i > 0 {
					return c26OutPartial, i
				}
				return kd, 0
			}
		}
		return c26OutAll, n
	}
	if k.rng != nil {
		if k.rng.UintN(100) < k.faultPct {
			o = 1 + int(k.rng.UintN(uint(nopt-1)))
		}
	} else {
		if k.faults >= k.maxFaults {
			nopt = 1
		}
		pos := len(k.taken)
		if pos < len(k.script) {
			o = k.script[pos]
			if o >= nopt {
				o = 0
			}
		}
		k.taken = append(k.taken, o)
		k.branch = append(k.branch, nopt)
	}
	switch {
	case o == 0:
		return c26OutAll, n
	case o < n:
		k.faults++
		return c26OutPartial, o
	default:
		k.faults++
		return c26OutEIO + (o - n), 0
	}
}

func (k *c26Kernel) sendFn(start, n int) (int, error) {
	k.ncalls++
	if k.ncalls > k.maxCalls {
		panic(c26Abort{"sendFn called more often than there are packets and faults"})
	}
	if n < 1 || start < 0 || start+n > len(k.w.msgs) {
		k.bad("C26/bad-sendmmsg-range", "sendFn(start=%d, n=%d) outside the prepared %d entries", start, n, len(k.w.msgs))
		panic(c26Abort{"bad range"})
	}
	k.dg, k.pk, k.ents = k.dg[:0], k.pk[:0], k.ents[:0]
	var call c26Call
	if k.keepCalls {
		call = c26Call{Start: start, N: n}
	}
	for e := start; e < start+n; e++ {
		ent, desc := k.decodeEntry(e)
		k.ents = append(k.ents, ent)
		if k.keepCalls {
			call.Entries = append(call.Entries, desc)
		}
	}
	kind, acc := k.decide(n)
	k.kinds = append(k.kinds, uint8(kind))
	for i := 0; i < acc; i++ {
		ent := k.ents[i]
		for _, d := range k.dg[ent.dgFrom:ent.dgTo] {
			k.accepted = append(k.accepted, d)
			if d.idx >= 0 {
				k.acceptedN[d.idx]++
			}
		}
	}
	if k.keepCalls {
		call.Outcome = c26OutNames[kind]
		if kind == c26OutPartial {
			call.Outcome = fmt.Sprintf("first %d of %d", acc, n)
		}
		k.calls = append(k.calls, call)
	}
	failRet := 0
	if (k.salt+k.ncalls)%2 == 0 {
		failRet = -1 // what the raw syscall wrapper returns on error
	}
	switch kind {
	case c26OutAll, c26OutPartial:
		return acc, nil
	case c26OutEIO:
		if k.ents[0].gso {
			k.sawGsoEIO = true
		}
		return failRet, &net.OpError{Op: "sendmmsg", Err: unix.EIO}
	case c26OutEINVAL:
		return failRet, &net.OpError{Op: "sendmmsg", Err: unix.EINVAL}
	case c26OutENOBUFS:
		return failRet, &net.OpError{Op: "sendmmsg", Err: unix.ENOBUFS}
	default:
		k.zeroNil = true
		return 0, nil
	}
}

type c26Result struct {
	written  int
	err      error
	panicked any
	aborted  *c26Abort
}

// c26Run executes the real WriteBatch against the fake kernel and applies the oracle. It returns the violations.
func c26Run(k *c26Kernel, write func() (int, error)) (res c26Result) {
	n := len(k.bufs)
	k.taken, k.branch, k.faults, k.ncalls = k.taken[:0], k.branch[:0], 0, 0
	k.accepted, k.kinds, k.viol, k.calls = k.accepted[:0], k.kinds[:0], k.viol[:0], k.calls[:0]
	k.zeroNil, k.gsoEntries, k.gsoAfterEIO, k.sawGsoEIO = false, 0, 0, false
	if cap(k.acceptedN) < n {
		k.acceptedN = make([]uint8, n)
		k.offered = make([]bool, n)
	}
	k.acceptedN, k.offered = k.acceptedN[:n], k.offered[:n]
	clear(k.acceptedN)
	clear(k.offered)
	k.maxCalls = 4*n + 16
	k.w.sendFn = k.sendFn
	k.w.gsoSupported = k.mode.gso
	k.w.maxGSOSegments = k.mode.maxSeg
	func() {
		defer func() {
			if e := recover(); e != nil {
				if a, ok := e.(c26Abort); ok {
					res.aborted = &a
				} else {
					res.panicked = e
				}
			}
		}()
		res.written, res.err = write()
	}()
	if res.panicked != nil {
		k.bad("C26/panic", "WriteBatch panicked: %v", res.panicked)
		return
	}
	if res.aborted != nil {
		if res.aborted.why != "bad range" {
			k.bad("C26/no-termination", "WriteBatch kept calling sendmmsg (%d calls for %d packets): %s", k.ncalls, n, res.aborted.why)
		}
		return
	}
	// at most once
	for i, c := range k.acceptedN {
		if c > 1 {
			k.bad("C26/datagram-accepted-twice", "packet %d was accepted by the kernel %d times", i, c)
			break
		}
	}
	// reported count
	if res.written != len(k.accepted) {
		k.bad("C26/return-count-mismatch", "WriteBatch returned %d, the kernel accepted %d datagrams", res.written, len(k.accepted))
	}
	// per-destination order: accepted sequence is a subsequence of the submitted sequence for that wire destination.
	// one pass per accepted datagram with a cursor per destination (destinations are few).
	type cur struct {
		d   netip.AddrPort
		pos int
	}
	var curs [8]cur
	ncur := 0
	for _, a := range k.accepted {
		if a.idx == -2 {
			continue
		}
		ci := -1
		for j := 0; j < ncur; j++ {
			if curs[j].d == a.dest {
				ci = j
				break
			}
		}
		if ci < 0 {
			if ncur == len(curs) {
				continue
			}
			curs[ncur] = cur{a.dest, 0}
			ci = ncur
			ncur++
		}
		p := curs[ci].pos
		found := false
		for ; p < n; p++ {
			wd, ok := c26WireDest(k.addrs[p], k.mode.isV4)
			if !ok || wd != a.dest {
				continue
			}
			if (a.idx >= 0 && p == a.idx) || (a.idx == -1 && len(k.bufs[p]) == 0) {
				found = true
				p++
				break
			}
		}
		if !found {
			if a.idx >= 0 {
				k.bad("C26/order-violated", "datagram for packet %d reached the kernel after a later packet to the same destination %v (or twice)", a.idx, a.dest)
			} else {
				k.bad("C26/order-violated", "an empty datagram to %v was accepted that has no remaining submitted counterpart in order", a.dest)
			}
			break
		}
		curs[ci].pos = p
	}
	// extras
	if (res.err != nil) != k.zeroNil {
		k.bad("C26/error-contract", "WriteBatch error=%v, kernel made zero progress without error=%v", res.err, k.zeroNil)
	}
	if !k.zeroNil {
		for i := range k.bufs {
			if _, routable := c26WireDest(k.addrs[i], k.mode.isV4); routable && len(k.bufs[i]) > 0 && !k.offered[i] {
				k.bad("C26/packet-never-offered", "routable packet %d (%d bytes to %v) was never shown to the kernel", i, len(k.bufs[i]), k.addrs[i])
				break
			}
		}
		// empty packets cannot be identified by pointer: count them
		wantEmpty, gotEmpty := 0, 0
		for i := range k.bufs {
			if _, routable := c26WireDest(k.addrs[i], k.mode.isV4); routable && len(k.bufs[i]) == 0 {
				wantEmpty++
			}
		}
		for _, a := range k.accepted {
			if a.idx == -1 {
				gotEmpty++
			}
		}
		if gotEmpty > wantEmpty {
			k.bad("C26/datagram-accepted-twice", "%d empty datagrams accepted, only %d submitted", gotEmpty, wantEmpty)
		}
		if k.sticky != nil {
			wantHealthy, gotHealthy := 0, 0
			for i := range k.bufs {
				if wd, ok := c26WireDest(k.addrs[i], k.mode.isV4); ok {
					if _, poisoned := k.sticky.poison[wd]; !poisoned {
						wantHealthy++
					}
				}
			}
			for _, a := range k.accepted {
				if _, poisoned := k.sticky.poison[a.dest]; poisoned {
					k.bad("C26/fake-kernel-bug", "accepted a datagram to a poisoned destination")
				} else {
					gotHealthy++
				}
			}
			if gotHealthy != wantHealthy {
				k.bad("C26/healthy-destination-lost", "%d packets were submitted for destinations the kernel never rejects, %d reached it (profile: %s)", wantHealthy, gotHealthy, k.sticky)
			}
		}
		allAll := true
		for _, kd := range k.kinds {
			if kd != c26OutAll {
				allAll = false
			}
		}
		if allAll {
			routable := 0
			for i := range k.bufs {
				if _, ok := c26WireDest(k.addrs[i], k.mode.isV4); ok {
					routable++
				}
			}
			if len(k.accepted) != routable {
				k.bad("C26/lost-without-fault", "kernel accepted everything it was shown, yet %d of %d routable packets reached it", len(k.accepted), routable)
			}
		}
	}
	return
}

func (k *c26Kernel) record(res c26Result) map[string]any {
	sizes := make([]int, len(k.bufs))
	dests := make([]string, len(k.bufs))
	for i := range k.bufs {
		sizes[i] = len(k.bufs[i])
		dests[i] = k.addrs[i].String()
	}
	if len(sizes) > 64 {
		// long PRNG batches: run-length form
		var sb strings.Builder
		for i := 0; i < len(sizes); {
			j := i
			for j < len(sizes) && sizes[j] == sizes[i] && dests[j] == dests[i] {
				j++
			}
			fmt.Fprintf(&sb, "%dx(%dB->%s) ", j-i, sizes[i], dests[i])
			i = j
		}
		return map[string]any{"mode": k.mode.name, "batch_rle": sb.String(), "calls": k.calls, "returned": res.written, "error": fmt.Sprint(res.err), "kernel_accepted": len(k.accepted)}
	}
	acc := make([]int, len(k.accepted))
	for i, a := range k.accepted {
		acc[i] = a.idx
	}
	return map[string]any{"mode": k.mode.name, "socket_v4": k.mode.isV4, "gso": k.mode.gso, "max_gso_segments": k.mode.maxSeg,
		"packet_sizes": sizes, "packet_dests": dests, "calls": k.calls, "returned": res.written, "error": fmt.Sprint(res.err),
		"kernel_accepted_packet_indices": acc, "note": "-1 = empty datagram, -2 = bytes never submitted as one datagram", "persistent_fault_profile": fmt.Sprint(k.sticky)}
}

// c26Report turns the violations of a run into reporter violations; the run is repeated with call logging and on a
// fresh writer to make the witness self-contained.
func c26Report(r *verifkit.Reporter, k *c26Kernel, rerun func(k2 *c26Kernel) c26Result) {
	if len(k.viol) == 0 {
		return
	}
	first := append([]c26Viol(nil), k.viol...)
	script := append([]int(nil), k.taken...)
	k2 := *k
	k2.w = c26NewWriter(k.mode)
	k2.keepCalls = true
	k2.script = script
	k2.taken, k2.branch, k2.accepted, k2.kinds, k2.viol, k2.calls = nil, nil, nil, nil, nil, nil
	k2.acceptedN, k2.offered, k2.dg, k2.pk, k2.ents = nil, nil, nil, nil, nil
	var rec map[string]any
	if k.rng == nil || k.sticky != nil {
		res2 := rerun(&k2)
		rec = k2.record(res2)
		rec["reproduces_on_fresh_writer"] = len(k2.viol) > 0
		rec["script_options"] = script
	} else {
		rec = k.record(c26Result{})
		rec["note2"] = "PRNG outcome stream; replay by re-running the unit with this seed"
	}
	for _, v := range first {
		r.Violation(v.key, v.what, rec)
	}
}

// ---- enumerated batches ----

const c26S = 21667 // 3*S = 65001 > maxGSOBytes, S+S+(S-1) = 65000 = maxGSOBytes

var c26Sizes = []int{0, 7, c26S, c26S - 1, maxGSOBytes + 1}
var c26SizeNames = []string{"0", "s", "S", "S-1", ">maxGSOBytes"}

var c26DestA = netip.MustParseAddrPort("192.0.2.1:4242")
var c26DestB = netip.MustParseAddrPort("192.0.2.2:4242")
var c26DestU = netip.MustParseAddrPort("[2001:db8::1]:4242") // unroutable on an AF_INET socket

type c26Pool struct {
	bufs  [][]([]byte) // [pos][class]
	byPtr map[*byte]int
}

func c26NewPool(positions int) *c26Pool {
	p := &c26Pool{byPtr: map[*byte]int{}}
	for pos := 0; pos < positions; pos++ {
		row := make([][]byte, len(c26Sizes))
		for c, sz := range c26Sizes {
			row[c] = make([]byte, sz)
			for i := range row[c] {
				row[c][i] = byte(pos*16 + c + 1)
			}
			if sz > 0 {
				p.byPtr[&row[c][0]] = pos
			}
		}
		p.bufs = append(p.bufs, row)
	}
	return p
}

// c26Enumerate runs every outcome script with at most maxFaults faults for one (batch, mode).
func c26Enumerate(r *verifkit.Reporter, k *c26Kernel, maxFaults int, sig uint64, distinctScripts bool) int {
	runs := 0
	k.maxFaults = maxFaults
	k.script = k.script[:0]
	write := func() (int, error) { return k.w.WriteBatch(k.bufs, k.addrs) }
	for {
		res := c26Run(k, write)
		runs++
		if len(k.viol) > 0 {
			c26Report(r, k, func(k2 *c26Kernel) c26Result {
				return c26Run(k2, func() (int, error) { return k2.w.WriteBatch(k2.bufs, k2.addrs) })
			})
		}
		_ = res
		for _, kd := range k.kinds {
			k.statKinds[kd]++
		}
		if k.gsoEntries > 0 {
			k.statGso++
		}
		if k.sawGsoEIO {
			k.statGsoEIO++
		}
		if distinctScripts {
			h := sig
			for _, o := range k.taken {
				h = (h ^ uint64(o+1)) * 1099511628211
			}
			r.DistinctU64(h)
		}
		// next script in DFS order
		p := len(k.taken) - 1
		for p >= 0 && k.taken[p]+1 >= k.branch[p] {
			p--
		}
		if p < 0 {
			break
		}
		k.script = append(k.script[:0], k.taken[:p+1]...)
		k.script[p]++
	}
	r.Eval(runs)
	return runs
}

func (k *c26Kernel) flushStats(r *verifkit.Reporter) {
	for kd, n := range k.statKinds {
		if kd != c26OutAll && n > 0 {
			r.Count("outcome_"+c26OutNames[kd], int(n))
		}
	}
	r.Count("sendmmsg_calls_all_accepted", int(k.statKinds[c26OutAll]))
	r.Count("runs_with_gso_entries", int(k.statGso))
	r.Count("runs_with_eio_on_gso_entry", int(k.statGsoEIO))
}

func c26SetBatch(k *c26Kernel, pool *c26Pool, code []int) {
	n := len(code)
	k.bufs = k.bufs[:0]
	k.addrs = k.addrs[:0]
	for pos := 0; pos < n; pos++ {
		class, dest := code[pos]%len(c26Sizes), code[pos]/len(c26Sizes)
		k.bufs = append(k.bufs, pool.bufs[pos][class])
		switch dest {
		case 0:
			k.addrs = append(k.addrs, c26DestA)
		case 1:
			k.addrs = append(k.addrs, c26DestB)
		default:
			k.addrs = append(k.addrs, c26DestU)
		}
	}
	k.byPtr = pool.byPtr
	k.lookup = func(p *byte) (int, bool) {
		pos, ok := pool.byPtr[p]
		if !ok || pos >= len(k.bufs) || len(k.bufs[pos]) == 0 || &k.bufs[pos][0] != p {
			return 0, false
		}
		return pos, true
	}
}

func c26BatchString(code []int) string {
	var sb strings.Builder
	for _, c := range code {
		fmt.Fprintf(&sb, "%s>%c ", c26SizeNames[c%len(c26Sizes)], "ABU"[c/len(c26Sizes)])
	}
	return sb.String()
}

func TestVerifC26Enumerate(t *testing.T) {
	r := verifkit.NewReporter(t, "C26", "enum"+c26Variant,
		"batches of 1..6 packets over size classes {0, s=7, S=21667, S-1, 65001} x destinations {A, B, other-family} x socket/GSO modes {v4 no GSO, v4 GSO 63/3/2 segments, v6 GSO, v4 GSO disabled at run time} x every sendmmsg outcome script {all, first k, 0+EIO, 0+EINVAL, 0+ENOBUFS, 0+nil} with a bounded number of faults (DFS over the calls actually made); distinct = distinct (batch, mode, script)")
	defer r.Done()
	pool := c26NewPool(6)
	writers := make([]*batchWriter, len(c26Modes))
	for i, m := range c26Modes {
		writers[i] = c26NewWriter(m)
	}
	rng := verifkit.NewRand("C26enum")
	perPacket := len(c26Sizes) * 3
	type plan struct {
		n         int
		full      bool
		samplePct int // when full: percentage of (batch, mode) pairs taken; else number of sampled batches
		samples   int
		faults    int
	}
	var plans []plan
	if verifkit.Thorough() {
		plans = []plan{{1, true, 100, 0, 4}, {2, true, 100, 0, 4}, {3, true, 100, 0, 3}, {4, true, 100, 0, 2}, {5, true, 100, 0, 1}, {5, false, 0, 60000, 2}, {6, false, 0, 40000, 2}, {6, false, 0, 4000, 3}}
	} else {
		plans = []plan{{1, true, 100, 0, 3}, {2, true, 100, 0, 3}, {3, true, 100, 0, 2}, {4, true, 100, 0, 1}, {4, true, 5, 0, 2}, {5, false, 0, 1500 / c26Div, 2}, {6, false, 0, 1000 / c26Div, 2}}
	}
	if c26Div > 1 {
		// sanitizer build: same generators, smaller budgets
		for i := range plans {
			if plans[i].full && plans[i].n >= 3 {
				plans[i].samplePct = max(1, plans[i].samplePct/(c26Div*2))
			}
		}
	}
	caseNo := 0
	k := &c26Kernel{}
	totalRuns := 0
	for _, pl := range plans {
		code := make([]int, pl.n)
		space := 1
		for i := 0; i < pl.n; i++ {
			space *= perPacket
		}
		count := space
		if !pl.full {
			count = pl.samples
		}
		for bi := 0; bi < count; bi++ {
			v := bi
			if !pl.full {
				v = int(rng.Uint64N(uint64(space)))
			}
			for i := pl.n - 1; i >= 0; i-- {
				code[i] = v % perPacket
				v /= perPacket
			}
			for mi, m := range c26Modes {
				take := true
				if pl.full && pl.samplePct < 100 {
					take = rng.UintN(100) < uint(pl.samplePct)
				}
				caseNo++
				if !take || !verifkit.Mine(caseNo) {
					continue
				}
				k.w, k.mode, k.rng = writers[mi], m, nil
				k.salt = caseNo
				c26SetBatch(k, pool, code)
				sig := uint64(pl.n)<<56 ^ uint64(mi)<<48 ^ uint64(pl.faults)<<44
				for _, c := range code {
					sig = sig*31 + uint64(c) + 1
				}
				sig *= 0x9e3779b97f4a7c15
				r.Pre("C26 enum batch=[%s] mode=%s faults<=%d", c26BatchString(code), m.name, pl.faults)
				distinctScripts := !verifkit.Thorough() || pl.n <= 3
				if !distinctScripts {
					r.DistinctU64(sig)
				}
				runs := c26Enumerate(r, k, pl.faults, sig, distinctScripts)
				totalRuns += runs
				r.Count(fmt.Sprintf("batches_n%d", pl.n), 1)
				r.Count("mode_"+m.name, 1)
				if pl.n == 3 && bi%997 == 5 && mi == 1 {
					r.Sample(map[string]any{"batch": c26BatchString(code), "mode": m.name, "max_faults": pl.faults, "scripts_enumerated": runs})
				}
			}
		}
		if pl.full && pl.samplePct == 100 {
			r.Exhaustive(fmt.Sprintf("all %d batches of %d packets x %d modes x all outcome scripts with <= %d faults", space, pl.n, len(c26Modes), pl.faults))
		}
	}
	r.Info("scenario_runs", totalRuns)
	k.flushStats(r)
}

func TestVerifC26Persistent(t *testing.T) {
	r := verifkit.NewReporter(t, "C26", "persistent"+c26Variant,
		"same batches and modes as enum, but against persistent kernel behaviour: destination A and/or B always rejected (EINVAL or EIO), UDP_SEGMENT entries always rejected with EIO (all, or only those to A) - all 26 combinations; the kernel accepts entries up to the first one it rejects; additionally requires termination and that no packet for a never-rejected destination is lost; distinct = distinct (batch, mode, profile)")
	defer r.Done()
	pool := c26NewPool(6)
	writers := make([]*batchWriter, len(c26Modes))
	for i, m := range c26Modes {
		writers[i] = c26NewWriter(m)
	}
	var profiles []*c26Sticky
	pk := []int{0, c26OutEINVAL, c26OutEIO}
	for _, pa := range pk {
		for _, pb := range pk {
			for g := 0; g < 3; g++ {
				if pa == 0 && pb == 0 && g == 0 {
					continue
				}
				st := &c26Sticky{poison: map[netip.AddrPort]int{}, gsoEIO: g, gsoDest: c26DestA}
				if pa != 0 {
					st.poison[c26DestA] = pa
				}
				if pb != 0 {
					st.poison[c26DestB] = pb
				}
				profiles = append(profiles, st)
			}
		}
	}
	rng := verifkit.NewRand("C26persistent")
	perPacket := len(c26Sizes) * 3
	type plan struct {
		n, pct, samples int
	}
	plans := []plan{{1, 100, 0}, {2, 100, 0}, {3, 100, 0}, {4, 10, 0}, {5, 0, 3000 / c26Div}, {6, 0, 3000 / c26Div}}
	if verifkit.Thorough() {
		plans = []plan{{1, 100, 0}, {2, 100, 0}, {3, 100, 0}, {4, 100, 0}, {5, 20, 0}, {6, 0, 200000}}
	}
	if c26Div > 1 {
		plans[2].pct = 10
		plans[3].pct = 1
	}
	k := &c26Kernel{}
	caseNo, runs := 0, 0
	for _, pl := range plans {
		code := make([]int, pl.n)
		space := 1
		for i := 0; i < pl.n; i++ {
			space *= perPacket
		}
		count := space
		if pl.pct == 0 {
			count = pl.samples
		}
		for bi := 0; bi < count; bi++ {
			v := bi
			if pl.pct == 0 {
				v = int(rng.Uint64N(uint64(space)))
			}
			for i := pl.n - 1; i >= 0; i-- {
				code[i] = v % perPacket
				v /= perPacket
			}
			for mi, m := range c26Modes {
				take := pl.pct == 0 || pl.pct == 100 || rng.UintN(100) < uint(pl.pct)
				caseNo++
				if !take || !verifkit.Mine(caseNo) {
					continue
				}
				k.w, k.mode, k.rng = writers[mi], m, nil
				k.salt = caseNo
				c26SetBatch(k, pool, code)
				sig := uint64(pl.n)<<56 ^ uint64(mi)<<48
				for _, c := range code {
					sig = sig*31 + uint64(c) + 1
				}
				r.Pre("C26 persistent batch=[%s] mode=%s", c26BatchString(code), m.name)
				for pi, st := range profiles {
					k.sticky = st
					k.script = k.script[:0]
					c26Run(k, func() (int, error) { return k.w.WriteBatch(k.bufs, k.addrs) })
					runs++
					if len(k.viol) > 0 {
						c26Report(r, k, func(k2 *c26Kernel) c26Result {
							return c26Run(k2, func() (int, error) { return k2.w.WriteBatch(k2.bufs, k2.addrs) })
						})
					}
					for _, kd := range k.kinds {
						k.statKinds[kd]++
					}
					if k.gsoEntries > 0 {
						k.statGso++
					}
					if k.sawGsoEIO {
						k.statGsoEIO++
					}
					r.DistinctU64((sig*0x9e3779b97f4a7c15 ^ uint64(pi+1)) * 1099511628211)
				}
				k.sticky = nil
				r.Count(fmt.Sprintf("batches_n%d", pl.n), 1)
			}
		}
		if pl.pct == 100 {
			r.Exhaustive(fmt.Sprintf("all %d batches of %d packets x %d modes x %d persistent fault profiles", space, pl.n, len(c26Modes), len(profiles)))
		}
	}
	r.Eval(runs)
	r.Sample(map[string]any{"profiles": len(profiles), "example_profile": profiles[len(profiles)-1].String()})
	k.flushStats(r)
}

// ---- PRNG batches, also through the SendBatch front end ----

func c26RandBatch(rng *rand.Rand, maxN int, v4 bool) ([]int, []netip.AddrPort) {
	n := 1 + rng.IntN(maxN)
	sizes := make([]int, 0, n)
	addrs := make([]netip.AddrPort, 0, n)
	dests := []netip.AddrPort{c26DestA, c26DestB, netip.MustParseAddrPort("192.0.2.1:4243"), netip.MustParseAddrPort("[::ffff:192.0.2.1]:4242"), c26DestU, netip.MustParseAddrPort("[2001:db8::2]:1")}
	for len(sizes) < n {
		d := dests[rng.IntN(len(dests))]
		var sz int
		switch rng.IntN(10) {
		case 0:
			sz = 0
		case 1:
			sz = 1 + rng.IntN(64)
		case 2, 3, 4:
			sz = 1200
		case 5:
			sz = 1400
		case 6:
			sz = c26S
		case 7:
			sz = 500 + rng.IntN(3)
		case 8:
			sz = 9000
		default:
			sz = 1 + rng.IntN(1500)
		}
		run := 1
		switch rng.IntN(6) {
		case 0:
			run = 1 + rng.IntN(4)
		case 1:
			run = 60 + rng.IntN(10)
		case 2:
			run = 120 + rng.IntN(20)
		case 3:
			run = 1 + rng.IntN(200)
		}
		if sz > 4000 {
			run = min(run, 5)
		}
		for j := 0; j < run && len(sizes) < n; j++ {
			s := sz
			if j == run-1 && rng.IntN(3) == 0 && sz > 1 {
				s = 1 + rng.IntN(sz) // shorter tail
			}
			if rng.IntN(40) == 0 {
				s = max(0, sz+rng.IntN(3)-1) // perturbation inside a run
			}
			sizes = append(sizes, s)
			addrs = append(addrs, d)
		}
	}
	return sizes, addrs
}

type c26CountingWriter struct {
	inner func(bufs [][]byte, addrs []netip.AddrPort) (int, error)
}

func (c c26CountingWriter) WriteBatch(bufs [][]byte, addrs []netip.AddrPort) (int, error) {
	return c.inner(bufs, addrs)
}

func TestVerifC26Random(t *testing.T) {
	r := verifkit.NewReporter(t, "C26", "random"+c26Variant,
		"PRNG batches of 1..400 packets built from runs (same destination, equal sizes, shorter tails, perturbations; run lengths around 63, 127 and the 128-entry chunk) with PRNG outcome streams (fault probability 0..40% per sendmmsg call), half of them submitted through the real SendBatch front end (Reserve/Commit/Flush); distinct = distinct (batch shape, mode, outcome stream) hashes")
	defer r.Done()
	modes := []c26Mode{
		{"v4-gso-63", true, true, 63, true},
		{"v4-gso-127", true, true, 127, true},
		{"v6-gso-63", false, true, 63, true},
		{"v6-gso-127", false, true, 127, true},
		{"v4-gso-off", true, false, 0, false},
		{"v4-gso-5", true, true, 5, true},
	}
	writers := make([]*batchWriter, len(modes))
	for i, m := range modes {
		writers[i] = c26NewWriter(m)
	}
	cases := verifkit.Scale(6000, 400_000) / c26Div
	for ci := 0; ci < cases; ci++ {
		if !verifkit.Mine(ci) {
			continue
		}
		rng := verifkit.SubRand("C26random", ci)
		mi := rng.IntN(len(modes))
		m := modes[mi]
		sizes, addrs := c26RandBatch(rng, []int{8, 40, 200, 400}[rng.IntN(4)], m.isV4)
		k := &c26Kernel{w: writers[mi], mode: m, rng: rng, faultPct: []uint{0, 5, 15, 40}[rng.IntN(4)], salt: ci}
		k.keepCalls = false
		viaSendBatch := rng.IntN(2) == 0
		var sticky *c26Sticky
		if rng.IntN(3) == 0 {
			// persistent kernel behaviour instead of an outcome stream
			sticky = &c26Sticky{poison: map[netip.AddrPort]int{}, gsoEIO: rng.IntN(3), gsoDest: c26DestA}
			for _, d := range []netip.AddrPort{c26DestA, c26DestB, netip.MustParseAddrPort("192.0.2.1:4243"), netip.MustParseAddrPort("[2001:db8::2]:1")} {
				if rng.IntN(3) == 0 {
					sticky.poison[d] = []int{c26OutEINVAL, c26OutEIO, c26OutENOBUFS}[rng.IntN(3)]
				}
			}
			k.sticky = sticky
			r.Count("persistent_profiles", 1)
		}
		var flushed, flushRet int
		var flushErr error
		var sbLenAfter int
		build := func(kk *c26Kernel) func() (int, error) {
			// (re)materialise the packets; returns the write function
			total := 0
			for _, s := range sizes {
				total += s
			}
			kk.bufs = make([][]byte, len(sizes))
			kk.addrs = addrs
			byPtr := make(map[*byte]int, len(sizes))
			kk.lookup = func(p *byte) (int, bool) { i, ok := byPtr[p]; return i, ok }
			if !viaSendBatch {
				slab := make([]byte, total)
				off := 0
				for i, s := range sizes {
					kk.bufs[i] = slab[off : off+s : off+s]
					off += s
					if s > 0 {
						byPtr[&kk.bufs[i][0]] = i
					}
				}
				return func() (int, error) { return kk.w.WriteBatch(kk.bufs, kk.addrs) }
			}
			arena := []int{0, 1 << 10, total + 16, 1 << 20}[ci%4] // also exercises arena growth while slots are live
			sb := batch.NewSendBatch(c26CountingWriter{func(b [][]byte, a []netip.AddrPort) (int, error) {
				flushed++
				if len(b) != len(sizes) || len(a) != len(sizes) {
					kk.bad("C26/sendbatch-lost-packets", "Flush handed %d packets / %d addresses to WriteBatch, %d were committed", len(b), len(a), len(sizes))
				}
				return kk.w.WriteBatch(b, a)
			}}, batch.SendBatchCap, arena)
			for i, s := range sizes {
				b := sb.Reserve(s)
				if len(b) != s {
					kk.bad("C26/sendbatch-reserve", "Reserve(%d) returned %d bytes", s, len(b))
				}
				for j := range b {
					b[j] = byte(i)
				}
				kk.bufs[i] = b
				if s > 0 {
					if prev, dup := byPtr[&b[0]]; dup {
						kk.bad("C26/sendbatch-reserve", "Reserve handed out the same memory for packets %d and %d", prev, i)
					}
					byPtr[&b[0]] = i
				}
				sb.Commit(b, addrs[i])
			}
			if sb.Len() != len(sizes) {
				kk.bad("C26/sendbatch-lost-packets", "Len()=%d after %d commits", sb.Len(), len(sizes))
			}
			return func() (int, error) {
				flushRet, flushErr = sb.Flush()
				sbLenAfter = sb.Len()
				return flushRet, flushErr
			}
		}
		r.Pre("C26 random case=%d mode=%s packets=%d via_sendbatch=%v", ci, m.name, len(sizes), viaSendBatch)
		write := build(k)
		pre := append([]c26Viol(nil), k.viol...)
		res := c26Run(k, write)
		k.viol = append(pre, k.viol...)
		if viaSendBatch {
			if flushed != 1 && len(sizes) > 0 {
				k.bad("C26/sendbatch-flush-count", "Flush called WriteBatch %d times", flushed)
			}
			if sbLenAfter != 0 {
				k.bad("C26/sendbatch-not-drained", "Len()=%d after Flush", sbLenAfter)
			}
			// content must have survived until the kernel saw it
			for i, b := range k.bufs {
				if len(b) > 0 && (b[0] != byte(i) || b[len(b)-1] != byte(i)) {
					k.bad("C26/sendbatch-slot-overwritten", "packet %d was overwritten before/while flushing (arena reuse)", i)
					break
				}
			}
			r.Count("via_sendbatch", 1)
		}
		r.Eval(1)
		h := uint64(ci)*0x9e3779b97f4a7c15 ^ uint64(mi)
		for i, s := range sizes {
			h = (h ^ uint64(s) ^ uint64(addrs[i].Port())<<20 ^ uint64(addrs[i].Addr().As16()[15])<<40) * 1099511628211
		}
		for _, kd := range k.kinds {
			h = (h ^ uint64(kd)) * 1099511628211
			if kd != c26OutAll {
				r.Count("outcome_"+c26OutNames[kd], 1)
			}
		}
		r.DistinctU64(h)
		if k.ncalls > 1 && k.kinds[0] == c26OutAll {
			r.Count("multi_chunk_batches", 1)
		}
		if k.gsoEntries > 0 {
			r.Count("runs_with_gso_entries", 1)
		}
		if k.sawGsoEIO {
			r.Count("runs_with_eio_on_gso_entry", 1)
		}
		if len(k.viol) > 0 {
			// witness: repeat with call logging on the same outcome stream
			k2 := &c26Kernel{w: c26NewWriter(m), mode: m, rng: verifkit.SubRand("C26random", ci), faultPct: k.faultPct, salt: ci, keepCalls: true}
			// consume the same amount of randomness as the generation did
			k2.rng.IntN(len(modes))
			c26RandBatch(k2.rng, []int{8, 40, 200, 400}[k2.rng.IntN(4)], m.isV4)
			_ = []uint{0, 5, 15, 40}[k2.rng.IntN(4)]
			k2.rng.IntN(2)
			k2.rng.IntN(3) // the persistent-profile roll
			k2.sticky = sticky
			flushed = 0
			res2 := c26Run(k2, build(k2))
			rec := k2.record(res2)
			rec["via_sendbatch"] = viaSendBatch
			rec["case"] = ci
			rec["reproduces_on_fresh_writer"] = len(k2.viol) > 0
			for _, v := range k.viol {
				r.Violation(v.key, v.what, rec)
			}
		}
		if ci < 3 {
			r.Sample(map[string]any{"mode": m.name, "packets": len(sizes), "via_sendbatch": viaSendBatch, "sendmmsg_calls": k.ncalls, "returned": res.written, "kernel_accepted": len(k.accepted)})
		}
	}
}
