//go:build linux && !android && !e2e_testing && !race

package udp

const c26Variant = ""
const c26Div = 1
