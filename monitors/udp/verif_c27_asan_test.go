//go:build linux && !android && !e2e_testing && asan && !race

package udp

// -asan: every load/store is checked against the shadow of exact-size heap objects; it also implies -d=checkptr.
const c27Variant = "-asan"
const c27StrictAlign = true
const c27ListenDiv = 2
