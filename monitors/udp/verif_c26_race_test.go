//go:build linux && !android && !e2e_testing && race

package udp

// -race implies -d=checkptr: the pointer arithmetic of the writer and of the fake kernel's decoding is checked.
const c26Variant = "-race"
const c26Div = 8
