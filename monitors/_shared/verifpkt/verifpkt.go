// Package verifpkt holds the packet tooling shared by the C23 and C24 monitors (receive coalescing and
// superpacket segmentation): an RFC 1071 checksum, a packet builder, an independent decoder built on
// gopacket, a per-segment judge for TSO/USO segmentation, a reference segmenter written from the
// virtio-net / Linux GSO rules, and the normalisation used to compare what reaches the tun with what
// was received. It is injected into the build through the go overlay and uses nothing from the
// packages under test (in particular not overlay/checksum).
package verifpkt

import (
	"bytes"
	"encoding/binary"
	"fmt"

	"github.com/google/gopacket"
	"github.com/google/gopacket/layers"
)

// ---------------------------------------------------------------------------------------------
// checksum

// Acc adds b, read as big-endian 16-bit words (odd tail padded with a zero byte), to acc.
func Acc(b []byte, acc uint64) uint64 {
	i := 0
	for ; i+1 < len(b); i += 2 {
		acc += uint64(b[i])<<8 | uint64(b[i+1])
	}
	if i < len(b) {
		acc += uint64(b[i]) << 8
	}
	return acc
}

// Fold folds an accumulator to 16 bits with end-around carry (not complemented).
func Fold(acc uint64) uint16 {
	for acc>>16 != 0 {
		acc = acc&0xffff + acc>>16
	}
	return uint16(acc)
}

// Sum16 is the RFC 1071 one's-complement sum of b seeded with initial (not complemented).
func Sum16(b []byte, initial uint16) uint16 { return Fold(Acc(b, uint64(initial))) }

// PseudoAcc is the accumulator of the TCP/UDP pseudo header of the packet whose IP header starts at ip.
func PseudoAcc(ip []byte, proto uint8, l4len int) uint64 {
	var acc uint64
	if ip[0]>>4 == 4 {
		acc = Acc(ip[12:20], 0)
	} else {
		acc = Acc(ip[8:40], 0)
	}
	return acc + uint64(proto) + uint64(l4len>>16) + uint64(l4len&0xffff)
}

// ---------------------------------------------------------------------------------------------
// builder

const (
	ProtoTCP = 6
	ProtoUDP = 17
)

// TCP flag bits.
const (
	FIN = 0x01
	SYN = 0x02
	RST = 0x04
	PSH = 0x08
	ACK = 0x10
	URG = 0x20
	ECE = 0x40
	CWR = 0x80
)

// Ext is one IPv6 extension header: Type is its own protocol number (0, 43, 60, 44), Body the bytes after
// the two leading octets (next header, length) — len(Body)+2 must be a multiple of 8 (44: exactly 6).
type Ext struct {
	Type uint8
	Body []byte
}

// Spec describes one IP packet. Bytes() renders it with correct lengths and checksums unless an
// override says otherwise.
type Spec struct {
	V6       bool
	Src, Dst [16]byte // IPv4 uses the first four bytes
	TOS      uint8    // DSCP|ECN (traffic class for IPv6)
	TTL      uint8
	Proto    uint8

	// IPv4
	ID        uint16
	DF, MF    bool
	Evil      bool
	FragOff   uint16 // in 8-byte units
	IPOptions []byte // multiple of 4, at most 40

	// IPv6
	FlowLabel uint32
	Exts      []Ext

	// TCP / UDP
	SPort, DPort uint16
	Seq, AckNo   uint32
	Flags        uint8
	NS           bool
	Window       uint16
	Urgent       uint16
	TCPOptions   []byte // multiple of 4, at most 40

	Payload []byte // transport payload (for other protocols: the whole IP payload)

	// deviations
	TotalLenDelta int    // added to the IPv4 total length / IPv6 payload length field
	UDPLenDelta   int    // added to the UDP length field
	DataOffDelta  int    // added to the TCP data offset nibble
	L4Csum        int    // 0 correct, 1 zero, 2 wrong (correct ^ 0x5555), 3 pseudo-header partial (virtio NEEDS_CSUM)
	BadIPCsum     bool   // IPv4 header checksum wrong
	Trailing      []byte // bytes appended after the packet (beyond what the IP length says)
	Truncate      int    // bytes cut from the end after rendering
}

// Built is a rendered packet with the offsets the monitors need.
type Built struct {
	Pkt    []byte
	L4Off  int // offset of the transport header (IPv4 IHL*4, IPv6 40 + extension headers)
	HdrLen int // L4Off + transport header length (TCP data offset, UDP 8); L4Off for other protocols
}

func (s *Spec) l4HeaderLen() int {
	switch s.Proto {
	case ProtoTCP:
		return 20 + len(s.TCPOptions)
	case ProtoUDP:
		return 8
	}
	return 0
}

// Bytes renders the packet.
func (s *Spec) Bytes() Built {
	var ipLen int
	if s.V6 {
		ipLen = 40
		for _, e := range s.Exts {
			ipLen += 2 + len(e.Body)
		}
	} else {
		ipLen = 20 + len(s.IPOptions)
	}
	l4h := s.l4HeaderLen()
	total := ipLen + l4h + len(s.Payload)
	b := make([]byte, total, total+len(s.Trailing))
	if s.V6 {
		b[0] = 0x60 | s.TOS>>4
		b[1] = s.TOS<<4 | byte(s.FlowLabel>>16)&0x0f
		b[2] = byte(s.FlowLabel >> 8)
		b[3] = byte(s.FlowLabel)
		binary.BigEndian.PutUint16(b[4:6], uint16(total-40+s.TotalLenDelta))
		b[7] = s.TTL
		copy(b[8:24], s.Src[:])
		copy(b[24:40], s.Dst[:])
		next := &b[6]
		off := 40
		for _, e := range s.Exts {
			*next = e.Type
			next = &b[off]
			if e.Type != 44 {
				b[off+1] = byte((2+len(e.Body))/8 - 1)
			}
			copy(b[off+2:], e.Body)
			off += 2 + len(e.Body)
		}
		*next = s.Proto
	} else {
		b[0] = 0x40 | byte(ipLen/4)
		b[1] = s.TOS
		binary.BigEndian.PutUint16(b[2:4], uint16(total+s.TotalLenDelta))
		binary.BigEndian.PutUint16(b[4:6], s.ID)
		ff := s.FragOff & 0x1fff
		if s.Evil {
			ff |= 0x8000
		}
		if s.DF {
			ff |= 0x4000
		}
		if s.MF {
			ff |= 0x2000
		}
		binary.BigEndian.PutUint16(b[6:8], ff)
		b[8] = s.TTL
		b[9] = s.Proto
		copy(b[12:16], s.Src[:4])
		copy(b[16:20], s.Dst[:4])
		copy(b[20:], s.IPOptions)
		cs := ^Sum16(b[:ipLen], 0)
		if s.BadIPCsum {
			cs ^= 0x0101
		}
		binary.BigEndian.PutUint16(b[10:12], cs)
	}
	l4 := b[ipLen:]
	csOff := -1
	switch s.Proto {
	case ProtoTCP:
		binary.BigEndian.PutUint16(l4[0:2], s.SPort)
		binary.BigEndian.PutUint16(l4[2:4], s.DPort)
		binary.BigEndian.PutUint32(l4[4:8], s.Seq)
		binary.BigEndian.PutUint32(l4[8:12], s.AckNo)
		l4[12] = byte((l4h/4+s.DataOffDelta)&0x0f) << 4
		if s.NS {
			l4[12] |= 1
		}
		l4[13] = s.Flags
		binary.BigEndian.PutUint16(l4[14:16], s.Window)
		binary.BigEndian.PutUint16(l4[18:20], s.Urgent)
		copy(l4[20:], s.TCPOptions)
		csOff = 16
	case ProtoUDP:
		binary.BigEndian.PutUint16(l4[0:2], s.SPort)
		binary.BigEndian.PutUint16(l4[2:4], s.DPort)
		binary.BigEndian.PutUint16(l4[4:6], uint16(8+len(s.Payload)+s.UDPLenDelta))
		csOff = 6
	}
	copy(l4[l4h:], s.Payload)
	if csOff >= 0 {
		pseudo := PseudoAcc(b, s.Proto, len(l4))
		var cs uint16
		switch s.L4Csum {
		case 0, 2:
			cs = ^Fold(Acc(l4, pseudo))
			if cs == 0 && s.Proto == ProtoUDP {
				cs = 0xffff
			}
			if s.L4Csum == 2 {
				cs ^= 0x5555
			}
		case 1:
			cs = 0
		case 3:
			cs = Fold(pseudo)
		}
		binary.BigEndian.PutUint16(l4[csOff:csOff+2], cs)
	}
	b = append(b, s.Trailing...)
	if s.Truncate > 0 && s.Truncate < len(b) {
		b = b[:len(b)-s.Truncate]
	}
	return Built{Pkt: b, L4Off: ipLen, HdrLen: ipLen + l4h}
}

// ---------------------------------------------------------------------------------------------
// independent decode (gopacket)

type truncFeedback struct{ truncated bool }

func (t *truncFeedback) SetTruncated() { t.truncated = true }

// Decoded is what gopacket made of a packet.
type Decoded struct {
	V6        bool
	IP4       layers.IPv4
	IP6       layers.IPv6
	ExtBytes  []byte // raw IPv6 extension headers between the fixed header and the transport header
	L4Off     int
	Proto     uint8
	IsTCP     bool
	IsUDP     bool
	TCP       layers.TCP
	UDP       layers.UDP
	TCPFlags  uint8  // byte 13 as found on the wire
	TCPHdr    []byte // the whole TCP header including options
	Payload   []byte // transport payload as bounded by IP (and UDP) lengths
	Truncated bool   // a length field promised more bytes than present
}

// Decode parses one IP packet (IPv4 with options, IPv6 with hop-by-hop / routing / destination headers)
// down to TCP or UDP.
func Decode(pkt []byte) (*Decoded, error) {
	d := &Decoded{}
	if err := d.decode(pkt); err != nil {
		return nil, err
	}
	return d, nil
}

func (d *Decoded) decode(pkt []byte) error {
	if len(pkt) < 1 {
		return fmt.Errorf("empty packet")
	}
	fb := &truncFeedback{}
	var l4 []byte
	switch pkt[0] >> 4 {
	case 4:
		if err := d.IP4.DecodeFromBytes(pkt, fb); err != nil {
			return err
		}
		if d.IP4.Version != 4 {
			return fmt.Errorf("version %d", d.IP4.Version)
		}
		d.L4Off = int(d.IP4.IHL) * 4
		d.Proto = uint8(d.IP4.Protocol)
		l4 = d.IP4.Payload
		if d.IP4.FragOffset != 0 || d.IP4.Flags&layers.IPv4MoreFragments != 0 {
			d.Payload = l4
			d.Truncated = fb.truncated
			return nil
		}
	case 6:
		d.V6 = true
		if err := d.IP6.DecodeFromBytes(pkt, fb); err != nil {
			return err
		}
		next := d.IP6.NextHeader
		l4 = d.IP6.Payload
		off := 40
		if d.IP6.HopByHop != nil {
			next = d.IP6.HopByHop.NextHeader
			off += d.IP6.HopByHop.ActualLength
		}
		for n := 0; (next == layers.IPProtocolIPv6Routing || next == layers.IPProtocolIPv6Destination) && n < 8; n++ {
			var sk layers.IPv6ExtensionSkipper
			if err := sk.DecodeFromBytes(l4, fb); err != nil {
				return err
			}
			off += len(sk.Contents)
			l4 = sk.Payload
			next = sk.NextHeader
		}
		d.ExtBytes = pkt[40:off]
		d.L4Off = off
		d.Proto = uint8(next)
	default:
		return fmt.Errorf("IP version %d", pkt[0]>>4)
	}
	switch d.Proto {
	case ProtoTCP:
		if err := d.TCP.DecodeFromBytes(l4, fb); err != nil {
			return err
		}
		d.IsTCP = true
		d.TCPFlags = l4[13]
		d.TCPHdr = l4[:int(d.TCP.DataOffset)*4]
		d.Payload = d.TCP.Payload
	case ProtoUDP:
		if err := d.UDP.DecodeFromBytes(l4, fb); err != nil {
			return err
		}
		d.IsUDP = true
		d.Payload = d.UDP.Payload
	default:
		d.Payload = l4
	}
	d.Truncated = fb.truncated
	return nil
}

// ChecksumProblems verifies the IPv4 header checksum and the TCP/UDP checksum of a complete packet with
// plain RFC 1071 arithmetic. It returns nil when both verify.
func ChecksumProblems(pkt []byte, d *Decoded) []string {
	var out []string
	if !d.V6 {
		if s := Sum16(pkt[:d.L4Off], 0); s != 0xffff {
			out = append(out, fmt.Sprintf("IPv4 header checksum does not verify (header sums to %#04x)", s))
		}
	}
	if d.IsTCP || d.IsUDP {
		var end int
		if d.V6 {
			end = 40 + int(d.IP6.Length)
		} else {
			end = int(d.IP4.Length)
		}
		if end > len(pkt) || end < d.L4Off {
			out = append(out, "IP length does not fit the packet")
			return out
		}
		l4 := pkt[d.L4Off:end]
		if d.IsUDP && d.UDP.Checksum == 0 {
			// zero means "no checksum was computed" (and is illegal over IPv6); a computed checksum of zero is sent as 0xffff
			out = append(out, "UDP checksum field is zero (no checksum)")
			return out
		}
		if s := Fold(Acc(l4, PseudoAcc(pkt, d.Proto, len(l4)))); s != 0xffff {
			out = append(out, fmt.Sprintf("transport checksum does not verify (sums to %#04x)", s))
		}
	}
	return out
}

// ---------------------------------------------------------------------------------------------
// C24: judging the segments of one superpacket

// Problem is one property violation found in a segment.
type Problem struct {
	Key  string // short witness class, e.g. "tcp-seq"
	What string
}

// SegJudge checks the segments yielded for one superpacket against the statement of C24.
type SegJudge struct {
	orig    []byte // pristine copy of the superpacket
	od      *Decoded
	hdrLen  int
	gso     int
	payload []byte
	got     int // payload bytes seen so far
	idx     int
	lastFl  uint8
	lastLen int
	Probs   []Problem
	Segs    int
}

// NewSegJudge starts judging. orig must be a private copy of the superpacket (the segmenter destroys its
// input); hdrLen is the L3+L4 header length, gso the segment size.
func NewSegJudge(orig []byte, hdrLen, gso int) (*SegJudge, error) {
	if hdrLen > len(orig) || hdrLen < 28 {
		return nil, fmt.Errorf("header length %d does not fit the %d byte superpacket", hdrLen, len(orig))
	}
	// The length fields of the superpacket header describe the superpacket (or whatever the kernel left
	// there); decode a copy of the header whose lengths describe the header alone.
	h := append([]byte(nil), orig[:hdrLen]...)
	if h[0]>>4 == 6 {
		binary.BigEndian.PutUint16(h[4:6], uint16(hdrLen-40))
	} else {
		binary.BigEndian.PutUint16(h[2:4], uint16(hdrLen))
	}
	d, err := Decode(h)
	if err != nil || d.IsUDP {
		// UDP: the length field sits 4 bytes before the end of the header; whatever the input carries
		// there (the kernel leaves the superpacket's length, a hostile input anything) is replaced by 8
		binary.BigEndian.PutUint16(h[hdrLen-4:hdrLen-2], 8)
		d2, err2 := Decode(h)
		if err2 == nil && d2.IsUDP {
			d, err = d2, nil
		} else if err == nil {
			err = err2
		}
	}
	if err != nil {
		return nil, err
	}
	return &SegJudge{orig: orig, od: d, hdrLen: hdrLen, gso: gso, payload: orig[hdrLen:]}, nil
}

func (j *SegJudge) bad(key, format string, a ...any) {
	if len(j.Probs) < 16 {
		j.Probs = append(j.Probs, Problem{Key: key, What: fmt.Sprintf("segment %d: ", j.idx) + fmt.Sprintf(format, a...)})
	}
}

// Segment judges the next segment. seg is only read.
func (j *SegJudge) Segment(seg []byte) {
	defer func() { j.idx++; j.Segs++ }()
	i := j.idx
	o := j.od
	d, err := Decode(seg)
	if err != nil {
		j.bad("decode", "does not decode: %v", err)
		return
	}
	// (gopacket compares the IPv6 payload length with what is left after the hop-by-hop header and so
	// always reports such packets as truncated; the explicit length checks below cover them)
	if d.Truncated && !(d.V6 && d.IP6.HopByHop != nil) {
		j.bad("length", "a length field promises more bytes than the segment has")
	}
	if d.V6 != o.V6 || d.Proto != o.Proto || d.L4Off != o.L4Off {
		j.bad("header-changed", "IP version / protocol / transport offset differ from the superpacket")
		return
	}
	// lengths
	if d.V6 {
		if 40+int(d.IP6.Length) != len(seg) {
			j.bad("length", "IPv6 payload length %d but segment has %d bytes after the fixed header", d.IP6.Length, len(seg)-40)
		}
		if d.IP6.TrafficClass != o.IP6.TrafficClass || d.IP6.FlowLabel != o.IP6.FlowLabel || d.IP6.HopLimit != o.IP6.HopLimit ||
			d.IP6.NextHeader != o.IP6.NextHeader || !bytes.Equal(d.IP6.SrcIP, o.IP6.SrcIP) || !bytes.Equal(d.IP6.DstIP, o.IP6.DstIP) ||
			!bytes.Equal(d.ExtBytes, o.ExtBytes) {
			j.bad("header-changed", "an IPv6 header field other than the payload length differs from the superpacket")
		}
	} else {
		if int(d.IP4.Length) != len(seg) {
			j.bad("length", "IPv4 total length %d but segment is %d bytes", d.IP4.Length, len(seg))
		}
		if want := o.IP4.Id + uint16(i); d.IP4.Id != want {
			j.bad("ipv4-id", "IPv4 ID %#04x, want %#04x (first ID %#04x + %d)", d.IP4.Id, want, o.IP4.Id, i)
		}
		if d.IP4.IHL != o.IP4.IHL || d.IP4.TOS != o.IP4.TOS || d.IP4.Flags != o.IP4.Flags || d.IP4.FragOffset != o.IP4.FragOffset ||
			d.IP4.TTL != o.IP4.TTL || d.IP4.Protocol != o.IP4.Protocol || !bytes.Equal(d.IP4.SrcIP, o.IP4.SrcIP) || !bytes.Equal(d.IP4.DstIP, o.IP4.DstIP) ||
			!bytes.Equal(seg[20:d.L4Off], j.orig[20:o.L4Off]) {
			j.bad("header-changed", "an IPv4 header field other than length/ID/checksum differs from the superpacket")
		}
	}
	for _, p := range ChecksumProblems(seg, d) {
		key := "l4-checksum"
		if p[:4] == "IPv4" {
			key = "ip-checksum"
		}
		j.bad(key, "%s", p)
	}
	// payload
	pay := d.Payload
	if len(pay) > j.gso {
		j.bad("segment-too-large", "payload %d bytes exceeds segment size %d", len(pay), j.gso)
	}
	if len(pay) == 0 && len(j.payload) > 0 {
		j.bad("empty-segment", "segment without payload although the superpacket carries %d bytes", len(j.payload))
	}
	if j.got+len(pay) > len(j.payload) || !bytes.Equal(pay, j.payload[j.got:j.got+len(pay)]) {
		j.bad("payload", "payload is not the next %d bytes of the superpacket payload (offset %d of %d)", len(pay), j.got, len(j.payload))
	}
	switch {
	case d.IsTCP:
		if d.L4Off+int(d.TCP.DataOffset)*4 != j.hdrLen {
			j.bad("header-changed", "TCP data offset %d differs from the superpacket", d.TCP.DataOffset)
			break
		}
		if want := o.TCP.Seq + uint32(j.got); d.TCP.Seq != want {
			j.bad("tcp-seq", "sequence number %d, want %d (first %d + %d payload bytes before this segment)", d.TCP.Seq, want, o.TCP.Seq, j.got)
		}
		const moving = CWR | FIN | PSH
		if d.TCPFlags&^moving != o.TCPFlags&^moving {
			j.bad("tcp-flags", "flags %#02x differ from the superpacket's %#02x outside CWR/FIN/PSH", d.TCPFlags, o.TCPFlags)
		}
		if d.TCPFlags&CWR != 0 && (i != 0 || o.TCPFlags&CWR == 0) {
			j.bad("tcp-cwr", "CWR set on segment %d (superpacket flags %#02x)", i, o.TCPFlags)
		}
		if i == 0 && o.TCPFlags&CWR != 0 && d.TCPFlags&CWR == 0 {
			j.bad("tcp-cwr", "CWR of the superpacket missing on the first segment")
		}
		if d.TCPFlags&(FIN|PSH)&^o.TCPFlags != 0 {
			j.bad("tcp-fin-psh", "FIN/PSH %#02x set but absent from the superpacket", d.TCPFlags&(FIN|PSH))
		}
		// "only on the last": a FIN/PSH on this segment is fine only if no later segment follows — checked when the next one arrives
		if i > 0 && j.lastFl&(FIN|PSH) != 0 {
			j.bad("tcp-fin-psh", "FIN/PSH %#02x was set on segment %d which is not the last", j.lastFl&(FIN|PSH), i-1)
		}
		j.lastFl = d.TCPFlags
		if !bytes.Equal(d.TCPHdr[0:4], o.TCPHdr[0:4]) || !bytes.Equal(d.TCPHdr[8:13], o.TCPHdr[8:13]) ||
			!bytes.Equal(d.TCPHdr[14:16], o.TCPHdr[14:16]) || !bytes.Equal(d.TCPHdr[18:], o.TCPHdr[18:]) {
			j.bad("header-changed", "a TCP header field other than seq/flags/checksum differs from the superpacket")
		}
	case d.IsUDP:
		if int(d.UDP.Length) != 8+len(pay) || d.L4Off+int(d.UDP.Length) != len(seg) {
			j.bad("length", "UDP length %d but %d bytes follow the IP header", d.UDP.Length, len(seg)-d.L4Off)
		}
		if d.UDP.SrcPort != o.UDP.SrcPort || d.UDP.DstPort != o.UDP.DstPort {
			j.bad("header-changed", "UDP ports differ from the superpacket")
		}
	default:
		j.bad("decode", "segment is neither TCP nor UDP (protocol %d)", d.Proto)
	}
	j.got += len(pay)
	j.lastLen = len(pay)
}

// End finishes the superpacket: everything must have been delivered and the last segment must carry
// the superpacket's FIN/PSH.
func (j *SegJudge) End() []Problem {
	if j.got != len(j.payload) {
		j.bad("payload", "segments carry %d of %d payload bytes", j.got, len(j.payload))
	}
	if j.Segs == 0 {
		j.bad("payload", "no segment was yielded")
	} else if j.od.IsTCP {
		if want := j.od.TCPFlags & (FIN | PSH); j.lastFl&(FIN|PSH) != want {
			j.bad("tcp-fin-psh", "last segment has FIN/PSH %#02x, superpacket has %#02x", j.lastFl&(FIN|PSH), want)
		}
	}
	return j.Probs
}

// ---------------------------------------------------------------------------------------------
// C23: reference segmenter (what the kernel does with a virtio-net GSO write) and normalisation

// RefSegment expands one offloaded write the way Linux GSO does: ipHdr and l4Hdr are the header
// prefix, payload the concatenated fragments, gso the segment size (0: not GSO — the packet is only
// checksum-completed). Every segment gets its own total/payload length, UDP length, IPv4 ID (first + i),
// TCP sequence number (first + bytes before), CWR only on the first, FIN/PSH only on the last, and fresh
// checksums. The L4 checksum field of the input is ignored except in the non-GSO case where, as with
// VIRTIO_NET_HDR_F_NEEDS_CSUM, it is taken as the seed the kernel adds the transport bytes to.
func RefSegment(ipHdr, l4Hdr, payload []byte, gso int, proto uint8) [][]byte {
	v6 := ipHdr[0]>>4 == 6
	hl := len(ipHdr) + len(l4Hdr)
	isGSO := gso > 0
	mk := func(i, off, n, nseg int) []byte {
		seg := make([]byte, hl+n)
		copy(seg, ipHdr)
		copy(seg[len(ipHdr):], l4Hdr)
		copy(seg[hl:], payload[off:off+n])
		l4 := seg[len(ipHdr):]
		if isGSO {
			if v6 {
				binary.BigEndian.PutUint16(seg[4:6], uint16(len(seg)-40))
			} else {
				binary.BigEndian.PutUint16(seg[2:4], uint16(len(seg)))
				binary.BigEndian.PutUint16(seg[4:6], binary.BigEndian.Uint16(ipHdr[4:6])+uint16(i))
				seg[10], seg[11] = 0, 0
				binary.BigEndian.PutUint16(seg[10:12], ^Sum16(seg[:len(ipHdr)], 0))
			}
		}
		switch proto {
		case ProtoTCP:
			if isGSO {
				binary.BigEndian.PutUint32(l4[4:8], binary.BigEndian.Uint32(l4Hdr[4:8])+uint32(off))
				if i != 0 {
					l4[13] &^= CWR
				}
				if i != nseg-1 {
					l4[13] &^= FIN | PSH
				}
				l4[16], l4[17] = 0, 0
				binary.BigEndian.PutUint16(l4[16:18], ^Fold(Acc(l4, PseudoAcc(seg, proto, len(l4)))))
			} else {
				seed := binary.BigEndian.Uint16(l4[16:18])
				l4[16], l4[17] = 0, 0
				binary.BigEndian.PutUint16(l4[16:18], ^Fold(Acc(l4, uint64(seed))))
			}
		case ProtoUDP:
			var cs uint16
			if isGSO {
				binary.BigEndian.PutUint16(l4[4:6], uint16(len(l4)))
				l4[6], l4[7] = 0, 0
				cs = ^Fold(Acc(l4, PseudoAcc(seg, proto, len(l4))))
			} else {
				seed := binary.BigEndian.Uint16(l4[6:8])
				l4[6], l4[7] = 0, 0
				cs = ^Fold(Acc(l4, uint64(seed)))
			}
			if cs == 0 {
				cs = 0xffff
			}
			binary.BigEndian.PutUint16(l4[6:8], cs)
		}
		return seg
	}
	if !isGSO {
		return [][]byte{mk(0, 0, len(payload), 1)}
	}
	nseg := max(1, (len(payload)+gso-1)/gso)
	out := make([][]byte, 0, nseg)
	for i := 0; i < nseg; i++ {
		off := i * gso
		out = append(out, mk(i, off, min(gso, len(payload)-off), nseg))
	}
	return out
}

// NormKind says how a packet was normalised.
type NormKind uint8

const (
	NormOpaque NormKind = iota // not a well-formed unfragmented TCP/UDP packet: compared byte for byte
	NormTCP
	NormUDP
)

// Norm is the part of a packet the receiving host's stack processes.
type Norm struct {
	Kind NormKind
	Key  string // comparable normal form
	// flow identity and facts used by the order oracle
	Flow    string
	PureACK bool
	PayLen  int
}

// Normalise reduces a packet to what must survive the trip through the coalescer and the kernel's
// segmentation: the IP header without total/payload length, header checksum and — for IPv4 with DF set
// and no fragmentation, where the ID carries no meaning (RFC 6864) — ID; the transport header without
// checksum (and, for UDP, length); the transport payload as bounded by the IP and transport lengths.
// Anything that is not a well-formed, unfragmented TCP or UDP packet is opaque: its normal form is the
// packet itself.
func Normalise(pkt []byte) Norm {
	opaque := func() Norm {
		n := Norm{Kind: NormOpaque, Key: "O" + string(pkt), PayLen: -1}
		n.Flow = opaqueFlow(pkt)
		return n
	}
	if len(pkt) < 20 {
		return opaque()
	}
	var hdr []byte // normalised IP header (+ext)
	var l4 []byte
	var proto uint8
	switch pkt[0] >> 4 {
	case 4:
		ihl := int(pkt[0]&0x0f) * 4
		tot := int(binary.BigEndian.Uint16(pkt[2:4]))
		if ihl < 20 || ihl > len(pkt) || tot < ihl || tot > len(pkt) {
			return opaque()
		}
		ff := binary.BigEndian.Uint16(pkt[6:8])
		if ff&0x3fff != 0 {
			return opaque()
		}
		hdr = append([]byte(nil), pkt[:ihl]...)
		hdr[2], hdr[3], hdr[10], hdr[11] = 0, 0, 0, 0
		if ff&0x4000 != 0 {
			hdr[4], hdr[5] = 0, 0
		}
		proto = pkt[9]
		l4 = pkt[ihl:tot]
	case 6:
		if len(pkt) < 40 {
			return opaque()
		}
		pl := int(binary.BigEndian.Uint16(pkt[4:6]))
		if 40+pl > len(pkt) {
			return opaque()
		}
		// walk hop-by-hop / routing / destination headers; a fragment header makes the packet opaque
		next := pkt[6]
		off := 40
		for n := 0; n < 8 && (next == 0 || next == 43 || next == 60); n++ {
			if off+2 > 40+pl {
				return opaque()
			}
			next, off = pkt[off], off+(int(pkt[off+1])+1)*8
		}
		if off > 40+pl || next == 0 || next == 43 || next == 60 || next == 44 || next == 51 {
			return opaque()
		}
		hdr = append([]byte(nil), pkt[:off]...)
		hdr[4], hdr[5] = 0, 0
		proto = next
		l4 = pkt[off : 40+pl]
	default:
		return opaque()
	}
	switch proto {
	case ProtoTCP:
		if len(l4) < 20 {
			return opaque()
		}
		doff := int(l4[12]>>4) * 4
		if doff < 20 || doff > len(l4) {
			return opaque()
		}
		th := append([]byte(nil), l4[:doff]...)
		th[16], th[17] = 0, 0
		pay := l4[doff:]
		fl := l4[13]
		n := Norm{Kind: NormTCP, PayLen: len(pay)}
		n.Key = "T" + string(hdr) + string(th) + string(pay)
		n.Flow = flowOf(pkt, hdr, proto, l4[0:4])
		n.PureACK = len(pay) == 0 && fl&ACK != 0 && fl&(SYN|FIN|RST) == 0
		return n
	case ProtoUDP:
		if len(l4) < 8 {
			return opaque()
		}
		ul := int(binary.BigEndian.Uint16(l4[4:6]))
		if ul < 8 || ul > len(l4) {
			return opaque()
		}
		uh := []byte{l4[0], l4[1], l4[2], l4[3]}
		pay := l4[8:ul]
		n := Norm{Kind: NormUDP, PayLen: len(pay)}
		n.Key = "U" + string(hdr) + string(uh) + string(pay)
		n.Flow = flowOf(pkt, hdr, proto, l4[0:4])
		return n
	}
	return opaque()
}

func flowOf(pkt, hdr []byte, proto uint8, ports []byte) string {
	if pkt[0]>>4 == 4 {
		return fmt.Sprintf("4/%d/%x/%x", proto, pkt[12:20], ports)
	}
	return fmt.Sprintf("6/%d/%x/%x", proto, pkt[8:40], ports)
}

// opaqueFlow groups packets without readable ports (fragments, other protocols, malformed packets) by
// addresses and upper-layer protocol. For IPv6 the extension chain is walked through hop-by-hop, routing,
// destination, fragment and AH headers; when the upper-layer protocol cannot be determined the packet
// belongs to no identifiable flow and gets a flow of its own (no ordering obligation).
func opaqueFlow(pkt []byte) string {
	if len(pkt) >= 20 && pkt[0]>>4 == 4 {
		return fmt.Sprintf("4/%d/%x/-", pkt[9], pkt[12:20])
	}
	if len(pkt) >= 40 && pkt[0]>>4 == 6 {
		next, off := pkt[6], 40
		for n := 0; n < 16; n++ {
			switch next {
			case 0, 43, 60:
				if off+2 > len(pkt) {
					return fmt.Sprintf("?/%p", &pkt[0])
				}
				next, off = pkt[off], off+(int(pkt[off+1])+1)*8
			case 44:
				if off+8 > len(pkt) {
					return fmt.Sprintf("?/%p", &pkt[0])
				}
				next, off = pkt[off], off+8
			case 51:
				if off+2 > len(pkt) {
					return fmt.Sprintf("?/%p", &pkt[0])
				}
				next, off = pkt[off], off+(int(pkt[off+1])+2)*4
			default:
				return fmt.Sprintf("6/%d/%x/-", next, pkt[8:40])
			}
		}
	}
	if len(pkt) == 0 {
		return "?/empty"
	}
	return fmt.Sprintf("?/%p", &pkt[0])
}

var _ = gopacket.NilDecodeFeedback
