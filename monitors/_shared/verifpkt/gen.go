package verifpkt

import (
	"math/rand/v2"
)

// SuperCase is one TSO/USO superpacket as the tun would hand it over, plus the virtio_net_hdr fields.
type SuperCase struct {
	Spec  Spec
	Built Built
	GSO   int
	// virtio_net_hdr as the kernel would fill it
	GSOType    uint8  // VIRTIO_NET_HDR_GSO_TCPV4=1, TCPV6=4, UDP_L4=5, | 0x80 when ECN
	VHdrLen    uint16 // hdr_len as supplied (not trusted by the reader)
	CsumStart  uint16
	CsumOffset uint16
	// NonKernel marks inputs whose own length/checksum fields are not what the kernel would write
	// (the segmenter must not depend on them, but a disagreement there is reported under its own key).
	NonKernel bool
	Class     string // low-cardinality description of the geometry
}

// FillPayload fills b with one of a few content classes.
func FillPayload(b []byte, rng *rand.Rand) string {
	switch rng.IntN(8) {
	case 0:
		clear(b)
		return "zero"
	case 1:
		for i := range b {
			b[i] = 0xff
		}
		return "ff"
	default:
		// 8 bytes per PRNG call
		i := 0
		for ; i+8 <= len(b); i += 8 {
			v := rng.Uint64()
			b[i], b[i+1], b[i+2], b[i+3], b[i+4], b[i+5], b[i+6], b[i+7] = byte(v), byte(v>>8), byte(v>>16), byte(v>>24), byte(v>>32), byte(v>>40), byte(v>>48), byte(v>>56)
		}
		for ; i < len(b); i++ {
			b[i] = byte(rng.Uint32())
		}
		return "random"
	}
}

// IPv4Options returns n (multiple of 4) bytes of well-formed IPv4 options.
func IPv4Options(n int, rng *rand.Rand) []byte {
	o := make([]byte, 0, n)
	for len(o) < n {
		rem := n - len(o)
		switch k := rng.IntN(4); {
		case k == 0 && rem >= 4:
			o = append(o, 0x94, 4, byte(rng.Uint32()), byte(rng.Uint32())) // router alert
		case k == 1 && rem >= 8:
			o = append(o, 68, 8, 5, 0, byte(rng.Uint32()), byte(rng.Uint32()), byte(rng.Uint32()), byte(rng.Uint32())) // timestamp
		default:
			o = append(o, 1) // NOP
		}
	}
	return o
}

// TCPOptions returns n (multiple of 4) bytes of well-formed TCP options.
func TCPOptions(n int, rng *rand.Rand) []byte {
	o := make([]byte, 0, n)
	if n >= 12 && rng.IntN(2) == 0 {
		o = append(o, 1, 1, 8, 10)
		for i := 0; i < 8; i++ {
			o = append(o, byte(rng.Uint32()))
		}
	}
	for len(o) < n {
		rem := n - len(o)
		switch k := rng.IntN(6); {
		case k == 0 && rem >= 4:
			o = append(o, 2, 4, byte(rng.Uint32()), byte(rng.Uint32()))
		case k == 1 && rem >= 3:
			o = append(o, 3, 3, byte(rng.IntN(15)))
		case k == 2 && rem >= 2:
			o = append(o, 4, 2)
		case k == 3 && rem >= 10:
			o = append(o, 5, 10)
			for i := 0; i < 8; i++ {
				o = append(o, byte(rng.Uint32()))
			}
		case k == 4 && rem <= 3:
			for len(o) < n {
				o = append(o, 0) // end of list + padding
			}
		default:
			o = append(o, 1)
		}
	}
	return o
}

// IPv6Exts returns well-formed extension headers using at most budget bytes (multiples of 8).
func IPv6Exts(budget int, rng *rand.Rand) []Ext {
	var out []Ext
	types := []uint8{0, 60, 43}
	ti := rng.IntN(3)
	if ti != 0 && rng.IntN(2) == 0 {
		ti = 0
	}
	for budget >= 8 && ti < len(types) && len(out) < 3 {
		sz := 8 * (1 + rng.IntN(min(3, budget/8)))
		body := make([]byte, sz-2)
		switch types[ti] {
		case 0, 60:
			// one PadN option covering the body
			body[0] = 1
			body[1] = byte(sz - 4)
		case 43:
			body[0] = 253 // experimental routing type
			body[1] = 0   // segments left
		}
		out = append(out, Ext{Type: types[ti], Body: body})
		budget -= sz
		ti += 1 + rng.IntN(2)
	}
	return out
}

// RandAddrs fills src/dst.
func RandAddrs(s *Spec, rng *rand.Rand) {
	for i := range s.Src {
		s.Src[i] = byte(rng.Uint32())
		s.Dst[i] = byte(rng.Uint32())
	}
	if rng.IntN(6) == 0 { // carry-heavy addresses
		for i := range s.Src {
			s.Src[i] = 0xff
			s.Dst[i] = 0xff
		}
	}
}

var gsoTable = []int{1, 2, 3, 7, 8, 15, 16, 19, 20, 21, 39, 40, 41, 59, 60, 61, 100, 119, 120, 121, 255, 256, 536, 1200, 1400, 1448, 4096, 8948, 8960, 9000}

func pickU16(rng *rand.Rand) uint16 {
	switch rng.IntN(6) {
	case 0:
		return 0
	case 1:
		return 0xffff
	case 2:
		return 0xfffe - uint16(rng.IntN(4))
	case 3:
		return uint16(rng.IntN(4))
	}
	return uint16(rng.Uint32())
}

func pickU32(rng *rand.Rand, near int) uint32 {
	switch rng.IntN(7) {
	case 0:
		return 0
	case 1:
		return 0xffffffff
	case 2:
		return uint32(0) - uint32(rng.IntN(near+2)) // wraps inside the superpacket
	case 3:
		return 1<<31 - uint32(rng.IntN(near+2))
	case 4:
		return 0xffff0000 + uint32(rng.IntN(0x10000))
	}
	return rng.Uint32()
}

// GenSuper draws one superpacket. maxSegs bounds the number of segments (cost control); maxTotal the
// total length (65535 for what the tun delivers).
func GenSuper(rng *rand.Rand, maxSegs int) *SuperCase {
	c := &SuperCase{}
	s := &c.Spec
	s.V6 = rng.IntN(2) == 0
	if rng.IntN(100) < 65 {
		s.Proto = ProtoTCP
	} else {
		s.Proto = ProtoUDP
	}
	RandAddrs(s, rng)
	s.TOS = byte(rng.Uint32())
	s.TTL = byte(1 + rng.IntN(255))
	s.SPort, s.DPort = pickU16(rng), pickU16(rng)
	cls := ""
	l4h := 8
	if s.Proto == ProtoTCP {
		switch k := rng.IntN(10); {
		case k < 4:
		case k < 7:
			s.TCPOptions = TCPOptions(12, rng)
		case k == 7:
			s.TCPOptions = TCPOptions(40, rng)
		default:
			s.TCPOptions = TCPOptions(4*(1+rng.IntN(10)), rng)
		}
		l4h = 20 + len(s.TCPOptions)
	}
	if s.V6 {
		s.FlowLabel = rng.Uint32() & 0xfffff
		if rng.IntN(4) == 0 {
			s.Exts = IPv6Exts(120-40-l4h, rng)
		}
		cls = "v6"
		if len(s.Exts) > 0 {
			cls = "v6ext"
		}
	} else {
		s.ID = pickU16(rng)
		s.DF = rng.IntN(3) != 0
		s.Evil = rng.IntN(40) == 0
		switch k := rng.IntN(10); {
		case k < 7:
		case k == 7:
			s.IPOptions = IPv4Options(40, rng)
		default:
			s.IPOptions = IPv4Options(4*(1+rng.IntN(10)), rng)
		}
		cls = "v4"
		if len(s.IPOptions) > 0 {
			cls = "v4opt"
		}
	}
	ipLen := 20 + len(s.IPOptions)
	if s.V6 {
		ipLen = 40
		for _, e := range s.Exts {
			ipLen += 2 + len(e.Body)
		}
	}
	hdr := ipLen + l4h
	// segment size
	var gso int
	switch k := rng.IntN(10); {
	case k < 6:
		gso = gsoTable[rng.IntN(len(gsoTable))]
	case k < 9:
		gso = 1 + rng.IntN(9000)
	default:
		gso = 1 + rng.IntN(65535)
	}
	// header-relative sizes are interesting: the stamped headers overlap when gso < header length
	if rng.IntN(8) == 0 {
		gso = max(1, hdr+rng.IntN(5)-2)
	}
	maxPay := 65535 - hdr
	if s.V6 {
		maxPay = 65535 - (hdr - 40) // the payload length field counts everything after the fixed header
	}
	if s.Proto == ProtoUDP {
		maxPay = min(maxPay, 65535-8)
	}
	var pay int
	switch k := rng.IntN(16); {
	case k == 0:
		pay = 0
	case k == 1:
		pay = 1
	case k == 2:
		pay = gso
	case k == 3:
		pay = gso + 1
	case k == 4:
		pay = max(0, gso-1)
	case k == 5:
		pay = 2 * gso
	case k == 6:
		pay = 2*gso + 1
	case k == 7:
		pay = maxPay
	case k == 8:
		pay = maxPay - rng.IntN(3)
	case k < 12:
		pay = gso*(1+rng.IntN(64)) + rng.IntN(gso)
	default:
		pay = gso*(1+rng.IntN(8)) - rng.IntN(min(gso, 3))
	}
	pay = min(pay, maxPay)
	if pay > gso*maxSegs {
		pay = gso*maxSegs - rng.IntN(min(gso, 2))
	}
	c.GSO = gso
	s.Payload = make([]byte, pay)
	content := FillPayload(s.Payload, rng)
	if s.Proto == ProtoTCP {
		s.Seq = pickU32(rng, pay)
		s.AckNo = pickU32(rng, 0)
		s.Window = pickU16(rng)
		s.Urgent = pickU16(rng) & uint16(-rng.IntN(2))
		s.NS = rng.IntN(16) == 0
		switch rng.IntN(12) {
		case 0:
			s.Flags = ACK
		case 1:
			s.Flags = ACK | PSH
		case 2:
			s.Flags = ACK | FIN
		case 3:
			s.Flags = ACK | FIN | PSH
		case 4:
			s.Flags = ACK | CWR
		case 5:
			s.Flags = ACK | CWR | ECE | PSH | FIN
		case 6:
			s.Flags = 0xff
		case 7:
			s.Flags = 0
		default:
			s.Flags = byte(rng.Uint32())
		}
	}
	// what the kernel leaves in the fields the segmenter has to rewrite
	switch k := rng.IntN(20); {
	case k < 14:
		s.L4Csum = 3 // pseudo-header partial sum (NEEDS_CSUM)
	case k < 16:
		s.L4Csum = 0
	case k < 18:
		s.L4Csum = 1
	default:
		s.L4Csum = 2
	}
	if rng.IntN(10) == 0 {
		c.NonKernel = true
		s.TotalLenDelta = rng.IntN(1<<16) - 1<<15
		s.BadIPCsum = rng.IntN(2) == 0
		if s.Proto == ProtoUDP {
			s.UDPLenDelta = rng.IntN(1<<16) - 1<<15
		}
	}
	c.Built = s.Bytes()
	c.CsumStart = uint16(c.Built.L4Off)
	switch {
	case s.Proto == ProtoUDP:
		c.GSOType, c.CsumOffset = 5, 6
	case s.V6:
		c.GSOType, c.CsumOffset = 4, 16
	default:
		c.GSOType, c.CsumOffset = 1, 16
	}
	if s.Proto == ProtoTCP && s.Flags&CWR != 0 {
		c.GSOType |= 0x80
	}
	switch rng.IntN(8) {
	case 0:
		c.VHdrLen = uint16(min(len(c.Built.Pkt), c.Built.HdrLen+gso)) // FORWARD path: length of the whole first packet
	case 1:
		c.VHdrLen = 0
	case 2:
		c.VHdrLen = uint16(rng.Uint32())
	default:
		c.VHdrLen = uint16(c.Built.HdrLen)
	}
	nseg := 1
	if pay > 0 {
		nseg = (pay + gso - 1) / gso
	}
	segc := "1"
	switch {
	case pay == 0:
		segc = "hdr-only"
	case nseg == 1:
		segc = "1"
	case nseg == 2:
		segc = "2"
	case nseg <= 64:
		segc = "3-64"
	default:
		segc = ">64"
	}
	tail := "full"
	if pay%gso != 0 {
		tail = "short"
		if (pay%gso)%2 == 1 {
			tail = "odd"
		}
	}
	ov := ""
	if gso < hdr {
		ov = " gso<hdr"
	}
	p := "udp"
	if s.Proto == ProtoTCP {
		p = "tcp"
		if len(s.TCPOptions) > 0 {
			p = "tcpopt"
		}
	}
	c.Class = cls + " " + p + " segs=" + segc + " tail=" + tail + ov + " " + content
	return c
}
