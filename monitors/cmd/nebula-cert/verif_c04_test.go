package main

// C04 (CLI half) — issuance through `nebula-cert ca` / `nebula-cert sign` never exceeds the signing CA.
//
// The command functions ca(...) and signCert(...) are run in-process on a temporary directory. A small universe of CAs
// is created with `ca` (both versions and curves, constrained and unconstrained, some with an encrypted key), then
// `sign` is run with flag sets generated over the constraint lattice (groups / networks / unsafe networks inside,
// on the boundary, outside; duration default / half / equal / double the CA's; -in-pub of the right or wrong curve;
// -version 0/1/2; right / wrong passphrase for encrypted CA keys).
//
// Reference (from the property statement): sign succeeds <=> duration within the CA's remaining life and groups,
// networks, unsafe networks inside the CA's constraints and the public key's curve equals the CA's curve (and the CA
// key could be opened). After success the issued certificate is read back from disk and must not be a CA, must name
// the CA as issuer, satisfy the predicate on wire values, verify against a pool holding the CA at the start, middle
// and end of its validity, and carry a low-S signature when P-256. After refusal no certificate file may exist.
// The oracle never reads the clock: validity is judged from the times read back from the certificates, the predicted
// outcome of the duration flag from its ratio to the CA's duration (half / equal / double, CA life >= 20 min).

import (
	"bytes"
	"crypto/elliptic"
	"encoding/asn1"
	"errors"
	"fmt"
	"math/big"
	mrand "math/rand/v2"
	"net/netip"
	"os"
	"path/filepath"
	"slices"
	"strings"
	"testing"
	"time"

	"github.com/slackhq/nebula/cert"
	"github.com/slackhq/nebula/verifkit"
)

type c04PR struct {
	password []byte
	err      error
	calls    int
}

func (p *c04PR) ReadPassword() ([]byte, error) { p.calls++; return p.password, p.err }

// the command function under test (locals named ca shadow it below)
var c04RunCA = ca

func c04Pick[T any](rng *mrand.Rand, xs ...T) T { return xs[rng.IntN(len(xs))] }

func c04Range(p netip.Prefix) (lo, hi []byte) {
	a := p.Addr().AsSlice()
	lo, hi = slices.Clone(a), slices.Clone(a)
	for i := range a {
		for b := 0; b < 8; b++ {
			if i*8+b >= p.Bits() {
				lo[i] &^= 0x80 >> b
				hi[i] |= 0x80 >> b
			}
		}
	}
	return
}

func c04Inside(p netip.Prefix, qs []netip.Prefix) bool {
	plo, phi := c04Range(p)
	for _, q := range qs {
		qlo, qhi := c04Range(q)
		if len(qlo) == len(plo) && bytes.Compare(qlo, plo) <= 0 && bytes.Compare(phi, qhi) <= 0 {
			return true
		}
	}
	return false
}

var c04HalfN = new(big.Int).Rsh(elliptic.P256().Params().N, 1)

func c04LowS(sig []byte) (bool, error) {
	var rs struct{ R, S *big.Int }
	rest, err := asn1.Unmarshal(sig, &rs)
	if err != nil {
		return false, err
	}
	if len(rest) != 0 || rs.S == nil || rs.S.Sign() <= 0 {
		return false, fmt.Errorf("malformed ECDSA signature")
	}
	return rs.S.Cmp(c04HalfN) <= 0, nil
}

func c04JoinPrefixes(ps []netip.Prefix, rng *mrand.Rand) string {
	ss := make([]string, len(ps))
	for i, p := range ps {
		ss[i] = p.String()
	}
	return strings.Join(ss, c04Pick(rng, ",", ", ", " ,"))
}

type c04CLICA struct {
	dir, crt, key string
	version       int
	curve         string // flag value
	duration      time.Duration
	groups        []string
	nets, unsafe  []netip.Prefix
	passphrase    []byte // nil = plaintext key
	cert          cert.Certificate
	desc          string
}

var c04Vocab = []string{"ops", "dev", "admin", "Admin", "web", "db"}

func c04CLICAPrefix(rng *mrand.Rand, v6 bool) netip.Prefix {
	if v6 {
		return netip.PrefixFrom(netip.AddrFrom16([16]byte{0xfd, byte(rng.IntN(3)), 0, byte(rng.IntN(2))}), c04Pick(rng, 16, 32, 48, 64))
	}
	switch rng.IntN(3) {
	case 0:
		return netip.PrefixFrom(netip.AddrFrom4([4]byte{10, byte(rng.IntN(3)), 0, 0}), c04Pick(rng, 8, 16, 17))
	case 1:
		return netip.PrefixFrom(netip.AddrFrom4([4]byte{192, 168, byte(rng.IntN(3)), 1}), c04Pick(rng, 24, 25))
	default:
		return netip.PrefixFrom(netip.AddrFrom4([4]byte{172, 16, 0, 0}), 12)
	}
}

func c04Dedup(ps []netip.Prefix) []netip.Prefix {
	var out []netip.Prefix
	for _, p := range ps {
		if !slices.Contains(out, p) {
			out = append(out, p)
		}
	}
	return out
}

func c04RandIn(rng *mrand.Rand, q netip.Prefix) netip.Addr {
	lo, _ := c04Range(q)
	a := slices.Clone(lo)
	for i := range a {
		for b := 0; b < 8; b++ {
			if i*8+b >= q.Bits() && rng.IntN(2) == 0 {
				a[i] |= 0x80 >> b
			}
		}
	}
	ad, _ := netip.AddrFromSlice(a)
	if ad.IsUnspecified() {
		a[len(a)-1] = 1
		ad, _ = netip.AddrFromSlice(a)
	}
	return ad
}

// c04MakeCA runs `nebula-cert ca` and judges what it wrote.
func c04MakeCA(r *verifkit.Reporter, root string, i int) *c04CLICA {
	rng := verifkit.SubRand("C04clica", i)
	ca := &c04CLICA{dir: filepath.Join(root, fmt.Sprintf("ca%d", i))}
	os.MkdirAll(ca.dir, 0o700)
	ca.crt, ca.key = filepath.Join(ca.dir, "ca.crt"), filepath.Join(ca.dir, "ca.key")
	ca.version = 1 + rng.IntN(2)
	ca.curve = c04Pick(rng, "25519", "P256")
	ca.duration = c04Pick(rng, 20*time.Minute, time.Hour, 24*time.Hour, 8760*time.Hour)
	var d []string
	if rng.IntN(5) >= 2 {
		for n := 1 + rng.IntN(3); n > 0; n-- {
			g := c04Pick(rng, c04Vocab...)
			if !slices.Contains(ca.groups, g) {
				ca.groups = append(ca.groups, g)
			}
		}
		d = append(d, "groups")
	}
	fam := func() string {
		if ca.version == 2 {
			return c04Pick(rng, "4", "6", "46")
		}
		return "4"
	}
	if rng.IntN(5) >= 2 {
		f := fam()
		for n := 1 + rng.IntN(3); n > 0; n-- {
			ca.nets = append(ca.nets, c04CLICAPrefix(rng, f == "6" || (f == "46" && rng.IntN(2) == 0)))
		}
		ca.nets = c04Dedup(ca.nets)
		d = append(d, "networks"+f)
	}
	if rng.IntN(5) >= 2 {
		f := fam()
		for n := 1 + rng.IntN(3); n > 0; n-- {
			ca.unsafe = append(ca.unsafe, c04CLICAPrefix(rng, f == "6" || (f == "46" && rng.IntN(2) == 0)))
		}
		if rng.IntN(6) == 0 {
			ca.unsafe = append(ca.unsafe, netip.PrefixFrom(netip.IPv4Unspecified(), 0))
		}
		ca.unsafe = c04Dedup(ca.unsafe)
		d = append(d, "unsafe"+f)
	}
	if len(d) == 0 {
		d = append(d, "unconstrained")
	}
	args := []string{"-version", fmt.Sprint(ca.version), "-name", fmt.Sprintf("c04 cli ca %d", i), "-curve", ca.curve, "-duration", ca.duration.String(),
		"-out-crt", ca.crt, "-out-key", ca.key}
	if len(ca.groups) > 0 {
		args = append(args, "-groups", strings.Join(ca.groups, c04Pick(rng, ",", ", ")))
	}
	if len(ca.nets) > 0 {
		args = append(args, "-networks", c04JoinPrefixes(ca.nets, rng))
	}
	if len(ca.unsafe) > 0 {
		args = append(args, "-unsafe-networks", c04JoinPrefixes(ca.unsafe, rng))
	}
	pr := &c04PR{}
	if rng.IntN(5) == 0 {
		ca.passphrase = []byte(c04Pick(rng, "p", "correct horse", "pässwörd ✓"))
		pr.password = ca.passphrase
		args = append(args, "-encrypt", "-argon-memory", fmt.Sprint(c04Pick(rng, 8, 16, 64)), "-argon-parallelism", fmt.Sprint(1+rng.IntN(2)), "-argon-iterations", fmt.Sprint(1+rng.IntN(2)))
		d = append(d, "encrypted-key")
	}
	ca.desc = fmt.Sprintf("v%d/%s/%s/%s", ca.version, ca.curve, ca.duration, strings.Join(d, "+"))
	rec := func(extra map[string]any) map[string]any {
		extra["ca_index"] = i
		extra["ca_args"] = args
		return extra
	}
	var err error
	ob, eb := &bytes.Buffer{}, &bytes.Buffer{}
	if r.Guard("C04/cli-ca-panic", func() any { return rec(map[string]any{}) }, func() { err = c04RunCA(args, ob, eb, pr) }) {
		return nil
	}
	r.Eval(1)
	r.Count("ca_runs", 1)
	if err != nil {
		r.Violation("C04/cli-ca-refuses-valid-flags", err.Error(), rec(map[string]any{"error": err.Error()}))
		return nil
	}
	raw, err := os.ReadFile(ca.crt)
	if err != nil {
		r.Violation("C04/cli-ca-wrote-no-certificate", err.Error(), rec(map[string]any{}))
		return nil
	}
	c, rest, err := cert.UnmarshalCertificateFromPEM(raw)
	if err != nil || len(bytes.TrimSpace(rest)) != 0 {
		r.Violation("C04/cli-ca-certificate-does-not-decode", fmt.Sprint(err), rec(map[string]any{"pem": string(raw)}))
		return nil
	}
	ca.cert = c
	rec2 := func(extra map[string]any) map[string]any { extra["ca_pem"] = string(raw); return rec(extra) }
	// self-signing happens only for CA certificates; a pool admits it (IsCA + self-signature)
	if !c.IsCA() || c.Issuer() != "" {
		r.Violation("C04/issued-self-signed-non-ca", "`ca` wrote a certificate that is not a self-signed CA", rec2(map[string]any{}))
	}
	pool := cert.NewCAPool()
	if err := pool.AddCA(c); err != nil && !errors.Is(err, cert.ErrExpired) {
		r.Violation("C04/self-signed-ca-not-admitted-by-pool", err.Error(), rec2(map[string]any{}))
	}
	wantCurve := cert.Curve_CURVE25519
	if ca.curve == "P256" {
		wantCurve = cert.Curve_P256
		r.Count("p256_signatures_checked", 1)
		if low, err := c04LowS(c.Signature()); err != nil || !low {
			r.Violation("C04/p256-signature-high-s", fmt.Sprintf("CA signature low-S=%v err=%v", low, err), rec2(map[string]any{"signature_hex": verifkit.Hex(c.Signature())}))
		}
	}
	if c.Curve() != wantCurve || int(c.Version()) != ca.version || !slices.Equal(c.Groups(), ca.groups) || !c04SameSet(c.Networks(), ca.nets) || !c04SameSet(c.UnsafeNetworks(), ca.unsafe) ||
		(c.NotAfter().Sub(c.NotBefore()) != ca.duration && c.NotAfter().Sub(c.NotBefore()) != ca.duration+time.Second) { // `ca` reads the clock twice
		r.Violation("C04/cli-ca-certificate-differs-from-flags", "the CA certificate does not carry what the flags asked for", rec2(map[string]any{}))
	}
	r.DistinctClass("ca " + strings.Join(d, "+") + fmt.Sprintf(" v%d %s", ca.version, ca.curve))
	return ca
}

func c04SameSet(a, b []netip.Prefix) bool {
	if len(a) != len(b) {
		return false
	}
	for _, x := range a {
		if !slices.Contains(b, x) {
			return false
		}
	}
	return true
}

// c04CLINets generates -networks / -unsafe-networks values relative to the CA's list.
func c04CLINets(rng *mrand.Rand, caNets []netip.Prefix, fams string, n int, class string, isUnsafe bool) []netip.Prefix {
	var usable []netip.Prefix
	for _, q := range caNets {
		if (q.Addr().Is4() && strings.Contains(fams, "4")) || (q.Addr().Is6() && strings.Contains(fams, "6")) {
			usable = append(usable, q)
		}
	}
	free := func() netip.Prefix {
		for try := 0; ; try++ {
			var p netip.Prefix
			if fams == "6" || (fams == "46" && rng.IntN(2) == 0) {
				p = netip.PrefixFrom(netip.AddrFrom16([16]byte{0x20, 0x01, 0x0d, 0xb8, byte(rng.IntN(256)), 15: byte(1 + rng.IntN(255))}), c04Pick(rng, 48, 64, 128))
			} else {
				p = netip.PrefixFrom(netip.AddrFrom4([4]byte{byte(11 + rng.IntN(80)), byte(rng.IntN(256)), byte(rng.IntN(256)), byte(1 + rng.IntN(254))}), c04Pick(rng, 8, 24, 32))
			}
			if len(caNets) == 0 || !c04Inside(p, caNets) || try > 50 {
				return p
			}
		}
	}
	var out []netip.Prefix
	for i := 0; i < n; i++ {
		switch {
		case len(caNets) == 0 || len(usable) == 0:
			out = append(out, free())
		case class == "outside" && (i == 0 || rng.IntN(2) == 0):
			q := usable[rng.IntN(len(usable))]
			if q.Bits() > 0 && rng.IntN(2) == 0 {
				if p := netip.PrefixFrom(c04RandIn(rng, q), q.Bits()-1); !c04Inside(p, caNets) {
					out = append(out, p)
					continue
				}
			}
			out = append(out, free())
		case class == "boundary":
			q := usable[rng.IntN(len(usable))]
			if rng.IntN(2) == 0 {
				_, hi := c04Range(q)
				a, _ := netip.AddrFromSlice(hi)
				out = append(out, netip.PrefixFrom(a, a.BitLen()))
			} else if isUnsafe && rng.IntN(2) == 0 {
				out = append(out, q)
			} else {
				out = append(out, netip.PrefixFrom(c04RandIn(rng, q), q.Bits()))
			}
		default:
			q := usable[rng.IntN(len(usable))]
			out = append(out, netip.PrefixFrom(c04RandIn(rng, q), q.Bits()+rng.IntN(q.Addr().BitLen()-q.Bits()+1)))
		}
	}
	return c04Dedup(out)
}

func TestVerifC04CLI(t *testing.T) {
	r := verifkit.NewReporter(t, "C04", "cli",
		"nebula-cert ca / sign run in-process on temporary directories: a universe of CAs made by `ca` (v1/v2, Ed25519/P-256, constrained/unconstrained, plaintext/encrypted key) and PRNG `sign` flag sets over the constraint lattice (groups, networks, unsafe networks inside/boundary/outside; duration default/half/equal/double; -in-pub right/wrong curve; -version 0/1/2; right/wrong passphrase). distinct = distinct (truth vector, effective version, CA class, outcome) classes plus distinct flag sets")
	defer r.Done()
	os.Unsetenv("NEBULA_CA_PASSPHRASE")
	root := t.TempDir()
	var cas []*c04CLICA
	for i := 0; i < verifkit.Scale(24, 64); i++ {
		if ca := c04MakeCA(r, root, i); ca != nil {
			cas = append(cas, ca)
		}
	}
	if len(cas) < 4 {
		r.Inconclusive("could not create CAs through the CLI")
		return
	}
	cls := func(rng *mrand.Rand) string {
		switch x := rng.IntN(100); {
		case x < 14:
			return "outside"
		case x < 40:
			return "boundary"
		default:
			return "inside"
		}
	}
	n := verifkit.Scale(1500, 20000)
	for i := 0; i < n; i++ {
		if !verifkit.Mine(i) {
			continue
		}
		rng := verifkit.SubRand("C04clisign", i)
		ca := cas[rng.IntN(len(cas))]
		dir := filepath.Join(root, fmt.Sprintf("s%d", i))
		os.MkdirAll(dir, 0o700)
		crt, key := filepath.Join(dir, "host.crt"), filepath.Join(dir, "host.key")
		args := []string{"-ca-crt", ca.crt, "-ca-key", ca.key, "-name", fmt.Sprintf("c04-cli-host-%d", i), "-out-crt", crt}
		var cl []string
		// version
		vflag := c04Pick(rng, 0, 0, 1, 2)
		if vflag != 0 {
			args = append(args, "-version", fmt.Sprint(vflag))
		}
		eff := vflag
		if eff == 0 {
			eff = ca.version
		}
		cl = append(cl, fmt.Sprintf("v=%d(flag %d)", eff, vflag))
		// duration
		durOK := true
		switch x := rng.IntN(10); {
		case x < 3:
			cl = append(cl, "duration=default")
		case x < 6:
			args = append(args, "-duration", (ca.duration / 2).String())
			cl = append(cl, "duration=half")
		case x < 7:
			args = append(args, "-duration", "1s")
			cl = append(cl, "duration=1s")
		case x < 8:
			args = append(args, "-duration", ca.duration.String())
			durOK = false
			cl = append(cl, "duration=equal(ends after the CA)")
		default:
			args = append(args, "-duration", (2 * ca.duration).String())
			durOK = false
			cl = append(cl, "duration=double")
		}
		// groups
		var groups []string
		gc := cls(rng)
		switch {
		case len(ca.groups) == 0:
			for k := rng.IntN(3); k > 0; k-- {
				if g := c04Pick(rng, c04Vocab...); !slices.Contains(groups, g) {
					groups = append(groups, g)
				}
			}
			gc = "unconstrained"
		case gc == "boundary":
			groups = slices.Clone(ca.groups)
		case gc == "outside":
			groups = slices.Clone(ca.groups[:rng.IntN(len(ca.groups)+1)])
			g := ca.groups[rng.IntN(len(ca.groups))]
			for _, cand := range []string{c04Pick(rng, "root", strings.ToUpper(g), g+"x", g[:len(g)-1]), "root", "zz"} {
				if cand != "" && !slices.Contains(ca.groups, cand) {
					groups = append(groups, cand)
					break
				}
			}
		default:
			for _, g := range ca.groups {
				if rng.IntN(2) == 0 {
					groups = append(groups, g)
				}
			}
		}
		if len(groups) > 0 {
			args = append(args, "-groups", strings.Join(groups, c04Pick(rng, ",", ", ", ",,")))
		}
		cl = append(cl, "groups="+gc)
		// networks
		fams := "4"
		nn := 1
		if eff == 2 {
			fams = c04Pick(rng, "4", "6", "46")
			nn = 1 + rng.IntN(2)
		}
		nc := cls(rng)
		if len(ca.nets) == 0 {
			nc = "unconstrained"
		}
		nets := c04CLINets(rng, ca.nets, fams, nn, nc, false)
		args = append(args, "-networks", c04JoinPrefixes(nets, rng))
		cl = append(cl, "nets="+nc)
		ufams := ""
		for _, p := range nets {
			if p.Addr().Is4() && !strings.Contains(ufams, "4") {
				ufams = "4" + ufams
			}
			if p.Addr().Is6() && !strings.Contains(ufams, "6") {
				ufams += "6"
			}
		}
		var unsafe []netip.Prefix
		uc := cls(rng)
		if len(ca.unsafe) == 0 {
			uc = "unconstrained"
		}
		if un := rng.IntN(3); un > 0 {
			unsafe = c04CLINets(rng, ca.unsafe, ufams, un, uc, true)
			args = append(args, "-unsafe-networks", c04JoinPrefixes(unsafe, rng))
		} else {
			uc = "none"
		}
		cl = append(cl, "unsafe="+uc)
		// key: generated by sign, or supplied with -in-pub (possibly of the other curve)
		curveOK := true
		inPub := false
		if x := rng.IntN(10); x < 3 {
			inPub = true
			cu := cert.Curve_CURVE25519
			if ca.curve == "P256" {
				cu = cert.Curve_P256
			}
			if x == 0 {
				cu = 1 - cu
				curveOK = false
			}
			pub, _ := newKeypair(cu)
			pp := filepath.Join(dir, "in.pub")
			os.WriteFile(pp, cert.MarshalPublicKeyToPEM(cu, pub), 0o600)
			args = append(args, "-in-pub", pp)
			cl = append(cl, fmt.Sprintf("in-pub(curve ok=%v)", curveOK))
		} else {
			args = append(args, "-out-key", key)
			cl = append(cl, "keygen")
		}
		// passphrase
		pr := &c04PR{}
		keyOK := true
		if ca.passphrase != nil {
			pr.password = ca.passphrase
			if rng.IntN(5) == 0 {
				pr.password = append(slices.Clone(ca.passphrase), 'x')
				keyOK = false
			}
			cl = append(cl, fmt.Sprintf("encrypted-ca-key(passphrase ok=%v)", keyOK))
		}
		// reference
		gOK, nOK, uOK := true, true, true
		if len(ca.groups) > 0 {
			for _, g := range groups {
				gOK = gOK && slices.Contains(ca.groups, g)
			}
		}
		if len(ca.nets) > 0 {
			for _, p := range nets {
				nOK = nOK && c04Inside(p, ca.nets)
			}
		}
		if len(ca.unsafe) > 0 {
			for _, p := range unsafe {
				uOK = uOK && c04Inside(p, ca.unsafe)
			}
		}
		want := curveOK && durOK && gOK && nOK && uOK && keyOK
		vec := fmt.Sprintf("key=%v curve=%v duration=%v groups=%v nets=%v unsafe=%v", keyOK, curveOK, durOK, gOK, nOK, uOK)
		rec := func(extra map[string]any) map[string]any {
			caPEM, _ := os.ReadFile(ca.crt)
			extra["case_index"], extra["sign_args"], extra["ca"], extra["ca_pem"], extra["reference"], extra["generator_classes"] = i, args, ca.desc, string(caPEM), vec, strings.Join(cl, " ")
			return extra
		}
		r.Pre("C04 cli sign %d args=%q", i, args)
		var err error
		ob, eb := &bytes.Buffer{}, &bytes.Buffer{}
		if r.Guard("C04/cli-sign-panic", func() any { return rec(map[string]any{}) }, func() { err = signCert(args, ob, eb, pr) }) {
			continue
		}
		r.Eval(1)
		ok := err == nil
		r.DistinctClass(fmt.Sprintf("%s | v%d | ca %s | accepted=%v", vec, eff, ca.desc, ok))
		r.Distinct(strings.Join(args[4:], "\x00"))
		if r.WantSample() && i%13 == 0 {
			r.Sample(rec(map[string]any{"accepted": ok, "error": fmt.Sprint(err)}))
		}
		raw, rerr := os.ReadFile(crt)
		switch {
		case ok && !want:
			r.Count("sign_accepted", 1)
			r.Violation("C04/cli-sign-exceeds-ca", "nebula-cert sign succeeded although the request exceeds the CA: "+vec, rec(map[string]any{"issued_pem": string(raw)}))
		case !ok && want:
			r.Count("sign_refused", 1)
			r.Violation("C04/cli-sign-refuses-conforming-request", fmt.Sprintf("nebula-cert sign refused a conforming request: %v", err), rec(map[string]any{"error": err.Error()}))
		case ok:
			r.Count("sign_accepted", 1)
		default:
			r.Count("sign_refused", 1)
		}
		if !ok {
			if rerr == nil {
				r.Violation("C04/cli-sign-failed-but-wrote-certificate", fmt.Sprintf("sign returned %q yet a certificate file exists", err), rec(map[string]any{"issued_pem": string(raw)}))
			}
			continue
		}
		if rerr != nil {
			r.Violation("C04/cli-sign-wrote-no-certificate", rerr.Error(), rec(map[string]any{}))
			continue
		}
		c, rest, derr := cert.UnmarshalCertificateFromPEM(raw)
		if derr != nil || len(bytes.TrimSpace(rest)) != 0 {
			r.Violation("C04/issued-certificate-does-not-decode", fmt.Sprint(derr), rec(map[string]any{"issued_pem": string(raw)}))
			continue
		}
		rec2 := func(extra map[string]any) map[string]any { extra["issued_pem"] = string(raw); return rec(extra) }
		s := ca.cert
		if c.IsCA() {
			r.Violation("C04/issued-ca-issued-by-ca", "sign issued a CA certificate", rec2(map[string]any{}))
		}
		if c.Curve() != s.Curve() {
			r.Violation("C04/issued-curve-differs-from-ca", "curve of the issued certificate differs from the CA", rec2(map[string]any{}))
		}
		if fp, _ := s.Fingerprint(); c.Issuer() != fp {
			r.Violation("C04/issuer-is-not-the-signer", "issuer is not the CA's fingerprint", rec2(map[string]any{}))
		}
		if c.NotBefore().Before(s.NotBefore()) {
			r.Violation("C04/issued-valid-before-ca", "issued certificate valid before its CA", rec2(map[string]any{}))
		}
		if c.NotAfter().After(s.NotAfter()) {
			r.Violation("C04/issued-valid-after-ca", "issued certificate valid after its CA", rec2(map[string]any{}))
		}
		if len(s.Groups()) > 0 {
			for _, g := range c.Groups() {
				if !slices.Contains(s.Groups(), g) {
					r.Violation("C04/issued-group-not-in-ca", "issued group "+g+" not in CA", rec2(map[string]any{}))
				}
			}
		}
		if len(s.Networks()) > 0 {
			for _, p := range c.Networks() {
				if !c04Inside(p, s.Networks()) {
					r.Violation("C04/issued-network-outside-ca", "issued network "+p.String()+" outside CA", rec2(map[string]any{}))
				}
			}
		}
		if len(s.UnsafeNetworks()) > 0 {
			for _, p := range c.UnsafeNetworks() {
				if !c04Inside(p, s.UnsafeNetworks()) {
					r.Violation("C04/issued-unsafe-network-outside-ca", "issued unsafe network "+p.String()+" outside CA", rec2(map[string]any{}))
				}
			}
		}
		if int(c.Version()) != eff || !slices.Equal(c.Groups(), groups) || !c04SameSet(c.Networks(), nets) || !c04SameSet(c.UnsafeNetworks(), unsafe) {
			r.Violation("C04/cli-sign-certificate-differs-from-flags", "the issued certificate does not carry what the flags asked for", rec2(map[string]any{}))
		}
		if c.Curve() == cert.Curve_P256 {
			r.Count("p256_signatures_checked", 1)
			if low, err := c04LowS(c.Signature()); err != nil || !low {
				r.Violation("C04/p256-signature-high-s", fmt.Sprintf("issued signature low-S=%v err=%v", low, err), rec2(map[string]any{"signature_hex": verifkit.Hex(c.Signature())}))
			}
		}
		pool := cert.NewCAPool()
		if err := pool.AddCA(s); err != nil && !errors.Is(err, cert.ErrExpired) {
			r.Violation("C04/signer-not-admitted-by-pool", err.Error(), rec2(map[string]any{}))
			continue
		}
		nb, na := c.NotBefore(), c.NotAfter()
		for _, at := range []time.Time{nb, nb.Add(na.Sub(nb) / 2), na} {
			r.Count("pool_verifications", 1)
			if _, err := pool.VerifyCertificate(at, c); err != nil {
				r.Violation("C04/issued-certificate-fails-verification", fmt.Sprintf("pool{CA}.VerifyCertificate at %d: %v", at.Unix(), err), rec2(map[string]any{"verify_at_unix": at.Unix()}))
				break
			}
		}
		if !inPub {
			kraw, kerr := os.ReadFile(key)
			if kerr != nil {
				r.Violation("C04/cli-sign-wrote-no-key", kerr.Error(), rec2(map[string]any{}))
				continue
			}
			kb, _, kc, kerr := cert.UnmarshalPrivateKeyFromPEM(kraw)
			if kerr != nil || c.VerifyPrivateKey(kc, kb) != nil {
				r.Violation("C04/cli-sign-key-does-not-match-certificate", fmt.Sprint(kerr), rec2(map[string]any{}))
			}
		}
	}
}
