package nebula

// C18 — tracked flows are per-tuple and expire when idle.
//
// Oracle (written from the property statement, not from firewall.go). For every packet handed to
// the real Firewall.Drop in a timed history (virtual clock, testing/synctest):
//
//   ruleAllowed(p, dir, peer)   decided by a tiny reference over the history's own rule list
//   flow(p) = the tuple (local addr, remote addr, local port, remote port, protocol, fragment)
//
//   - a rule-allowed packet must pass; it (re)establishes its flow: lastSeen = now
//   - a packet no rule allows
//       may pass   only if its flow was established and now-lastSeen <= T(protocol)
//                  (+ the routine cache's documented slack: the same flow passed earlier in the
//                  current cache tick — nothing more)
//       must pass  if established and now-lastSeen < T(protocol) - cacheTick   (liveness half, own key)
//       passing legitimately refreshes lastSeen; an illegitimate pass refreshes nothing, so an
//       expired flow stays expired until a rule allows a new packet for it.
//
// Stale passes are classified by history facts only (was a brand-new flow opened after the
// deadline, i.e. did anything make the timer wheel move) so that the probe-confirmed defect
// (no Expires comparison in the lookup) has its own key.

import (
	"context"
	"fmt"
	"log/slog"
	"net/netip"
	"strings"
	"testing"
	"testing/synctest"
	"time"

	"github.com/gaissmai/bart"
	"github.com/slackhq/nebula/cert"
	"github.com/slackhq/nebula/cert_test"
	"github.com/slackhq/nebula/config"
	"github.com/slackhq/nebula/firewall"
	"github.com/slackhq/nebula/verifkit"
)

// ---------- fixtures (real signed certificates, built once, outside any bubble) ----------

type c18Peer struct {
	name   string
	addr   netip.Addr
	groups []string
	h      *HostInfo
}

type c18Fixture struct {
	l        *slog.Logger
	caPool   *cert.CAPool
	nodeCert cert.Certificate
	nodeAddr netip.Addr
	peers    []*c18Peer
}

func c18NewFixture() *c18Fixture {
	before := time.Date(1990, 1, 1, 0, 0, 0, 0, time.UTC)
	after := time.Date(2100, 1, 1, 0, 0, 0, 0, time.UTC)
	at := time.Date(2000, 1, 1, 0, 0, 0, 0, time.UTC)
	ca, _, caKey, _ := cert_test.NewTestCaCert(cert.Version2, cert.Curve_CURVE25519, before, after, nil, nil, nil)
	pool := cert.NewCAPool()
	if err := pool.AddCA(ca); err != nil {
		panic(err)
	}
	fx := &c18Fixture{l: slog.New(slog.DiscardHandler), caPool: pool, nodeAddr: netip.MustParseAddr("10.0.0.1")}
	fx.nodeCert, _, _, _ = cert_test.NewTestCert(cert.Version2, cert.Curve_CURVE25519, ca, caKey, "node", before, after,
		[]netip.Prefix{netip.MustParsePrefix("10.0.0.1/24")}, nil, nil)
	myNets := new(bart.Lite)
	myNets.Insert(netip.MustParsePrefix("10.0.0.0/24"))
	for _, p := range []*c18Peer{
		{name: "peerA", addr: netip.MustParseAddr("10.0.0.2"), groups: []string{"g1"}},
		{name: "peerB", addr: netip.MustParseAddr("10.0.0.3"), groups: []string{"g2"}},
	} {
		c, _, _, _ := cert_test.NewTestCert(cert.Version2, cert.Curve_CURVE25519, ca, caKey, p.name, before, after,
			[]netip.Prefix{netip.PrefixFrom(p.addr, 24)}, nil, p.groups)
		cc, err := pool.VerifyCertificate(at, c)
		if err != nil {
			panic(err)
		}
		p.h = &HostInfo{ConnectionState: &ConnectionState{peerCert: cc}, vpnAddrs: []netip.Addr{p.addr}}
		p.h.buildNetworks(myNets, c)
		fx.peers = append(fx.peers, p)
	}
	return fx
}

// ---------- tiny rule reference (enough for the rule lists this monitor generates) ----------

type c18Rule struct {
	in    bool
	proto uint8  // firewall.ProtoTCP / UDP / ICMP
	port  uint16 // service port (ignored for icmp)
	host  string // "any" or a certificate name; "" when group is used
	group string
}

func (r c18Rule) yaml() string {
	proto := map[uint8]string{firewall.ProtoTCP: "tcp", firewall.ProtoUDP: "udp", firewall.ProtoICMP: "icmp"}[r.proto]
	port := fmt.Sprint(r.port)
	if r.proto == firewall.ProtoICMP {
		port = "any"
	}
	who := "host: " + r.host
	if r.group != "" {
		who = "group: " + r.group
	}
	return fmt.Sprintf("    - {port: %s, proto: %s, %s}\n", port, proto, who)
}

func (r c18Rule) matchesPeer(p *c18Peer) bool {
	if r.group != "" {
		for _, g := range p.groups {
			if g == r.group {
				return true
			}
		}
		return false
	}
	return r.host == "any" || r.host == p.name
}

func c18RuleAllowed(rules []c18Rule, p firewall.Packet, incoming bool, peer *c18Peer) bool {
	for _, r := range rules {
		if r.in != incoming || r.proto != p.Protocol || !r.matchesPeer(peer) {
			continue
		}
		if p.Protocol == firewall.ProtoICMP {
			return true // a port specification is ignored for icmp
		}
		if p.Fragment {
			continue // only `port: fragment` rules match later fragments; none are generated
		}
		port := p.RemotePort
		if incoming {
			port = p.LocalPort
		}
		if port == r.port {
			return true
		}
	}
	return false
}

var c18RuleSets = [][]c18Rule{
	{
		{false, firewall.ProtoTCP, 80, "any", ""}, {false, firewall.ProtoUDP, 53, "any", ""}, {false, firewall.ProtoICMP, 0, "peerA", ""},
		{true, firewall.ProtoTCP, 22, "any", ""}, {true, firewall.ProtoUDP, 514, "any", ""}, {true, firewall.ProtoICMP, 0, "peerB", ""},
	},
	{
		{false, firewall.ProtoTCP, 443, "", "g1"}, {false, firewall.ProtoUDP, 123, "any", ""}, {false, firewall.ProtoICMP, 0, "peerB", ""},
		{true, firewall.ProtoTCP, 8080, "", "g2"}, {true, firewall.ProtoUDP, 161, "any", ""}, {true, firewall.ProtoICMP, 0, "peerA", ""},
	},
	{
		{false, firewall.ProtoTCP, 80, "any", ""}, {false, firewall.ProtoUDP, 53, "peerB", ""}, {false, firewall.ProtoICMP, 0, "", "g1"},
	},
}

type c18Timeouts struct{ tcp, udp, def time.Duration }

var c18TimeoutSets = []c18Timeouts{
	{5 * time.Second, 3 * time.Second, 2 * time.Second},
	{2 * time.Second, 3 * time.Second, 5 * time.Second},
	{3 * time.Second, 3 * time.Second, 3 * time.Second},
	{12 * time.Second, 3 * time.Second, 10 * time.Second}, // production ratio 12m/3m/10m
	{1 * time.Second, 20 * time.Second, 7 * time.Second},
	{4 * time.Second, 1 * time.Second, 12 * time.Second},
	{1500 * time.Millisecond, 2500 * time.Millisecond, 1 * time.Second},
}

func (t c18Timeouts) of(proto uint8) time.Duration {
	switch proto {
	case firewall.ProtoTCP:
		return t.tcp
	case firewall.ProtoUDP:
		return t.udp
	}
	return t.def
}

func (t c18Timeouts) min() time.Duration { return min(t.tcp, t.udp, t.def) }
func (t c18Timeouts) max() time.Duration { return max(t.tcp, t.udp, t.def) }

// ---------- model ----------

type c18Flow struct {
	lastSeen time.Time
	t        time.Duration
	sticky   string // witness class of the first illegitimate pass since the last rule-allowed packet
}

type c18Insert struct {
	at       time.Time
	dropCall int // number of Drop calls (not answered by a routine cache) up to and including the inserting one
	before   int // upper bound on the number of conntrack insertions before it (the wheel population)
}

type c18Hist struct {
	r    *verifkit.Reporter
	fx   *c18Fixture
	ifc  *Interface // the packets go to ifc.firewall, reloads through conf -> ifc.reloadFirewall
	conf *config.C
	cfg  struct {
		to      c18Timeouts
		cacheD  time.Duration
		ruleSet int
		yaml    string
		action  string // firewall.inbound_action: changing it changes the section, not the rules
		extra   bool   // two more rules that allow none of the history's packets
	}
	base      []c18Rule
	rules     []c18Rule // base (+ the extra rules when installed)
	reloads   []time.Time
	t0        time.Time
	cIn, cOut *firewall.ConntrackCacheTicker
	flows     map[firewall.Packet]*c18Flow
	inserts   []c18Insert
	dropCalls int
	insertsUB int // brand-new tuples + rule-allowed packets that found their flow expired
	steps     []string
	ctx       string // generator context for the class signature (gap class / churn mode)
	bad       bool
}

func (h *c18Hist) off() time.Duration { return time.Since(h.t0) }

func (h *c18Hist) epoch(t time.Time) int64 {
	return int64(t.Sub(h.t0) / h.cfg.cacheD)
}

func c18Tuple(p firewall.Packet) string {
	f := ""
	if p.Fragment {
		f = " frag"
	}
	return fmt.Sprintf("%v:%d<->%v:%d proto=%d%s", p.LocalAddr, p.LocalPort, p.RemoteAddr, p.RemotePort, p.Protocol, f)
}

func (h *c18Hist) replay(what string) any {
	return map[string]any{
		"note":            "times are offsets from the start of the synctest bubble; every packet is one Firewall.Drop call",
		"firewall_config": h.cfg.yaml,
		"routine_cache":   h.cfg.cacheD.String(),
		"timeouts":        map[string]string{"tcp": h.cfg.to.tcp.String(), "udp": h.cfg.to.udp.String(), "default": h.cfg.to.def.String()},
		"history":         append([]string(nil), h.steps...),
		"judgement":       what,
	}
}

// c18ExtraRules are added/removed by the "direction-preserving" reload: the rule set changes, but no packet of
// any history uses port 9999, so every flow's original direction stays exactly as allowed as it was.
var c18ExtraRules = []c18Rule{{true, firewall.ProtoTCP, 9999, "any", ""}, {false, firewall.ProtoUDP, 9999, "any", ""}}

func (h *c18Hist) render() string {
	h.rules = append([]c18Rule(nil), h.base...)
	if h.cfg.extra {
		h.rules = append(h.rules, c18ExtraRules...)
	}
	var sb strings.Builder
	fmt.Fprintf(&sb, "firewall:\n  inbound_action: %s\n  conntrack:\n    tcp_timeout: %v\n    udp_timeout: %v\n    default_timeout: %v\n", h.cfg.action, h.cfg.to.tcp, h.cfg.to.udp, h.cfg.to.def)
	for _, in := range []bool{false, true} {
		name, n := "outbound", 0
		if in {
			name = "inbound"
		}
		var body strings.Builder
		for _, ru := range h.rules {
			if ru.in == in {
				body.WriteString(ru.yaml())
				n++
			}
		}
		if n == 0 {
			fmt.Fprintf(&sb, "  %s: []\n", name)
		} else {
			fmt.Fprintf(&sb, "  %s:\n%s", name, body.String())
		}
	}
	h.cfg.yaml = sb.String()
	return h.cfg.yaml
}

// reload installs a new firewall through the real config reload path. Both kinds keep every flow's original
// direction allowed and keep the timeouts: by the statement nothing about any flow's expiry may change.
func (h *c18Hist) reload(kind string) {
	switch kind {
	case "rule-preserving":
		h.cfg.action = map[string]string{"drop": "reject", "reject": "drop"}[h.cfg.action]
	case "direction-preserving":
		h.cfg.extra = !h.cfg.extra
	}
	old := h.ifc.firewall
	text := h.render()
	var err error
	if h.r.Guard("C18/panic", func() any { return h.replay("reload " + kind) }, func() { err = h.conf.ReloadConfigString(text) }) {
		h.bad = true
		return
	}
	if err != nil || h.ifc.firewall == old {
		h.r.Inconclusive(fmt.Sprintf("C18 reload %s was not applied (err=%v)", kind, err))
		h.bad = true
		return
	}
	h.reloads = append(h.reloads, time.Now())
	h.steps = append(h.steps, fmt.Sprintf("t=%v reload[%s] inbound_action=%s extra-rules=%v -> rulesVersion %d", h.off(), kind, h.cfg.action, h.cfg.extra, h.ifc.firewall.rulesVersion))
	h.r.Count("reloads", 1)
}

// classifyStale names the witness class of an illegitimate pass of an expired flow.
func (h *c18Hist) classifyStale(fl *c18Flow, now time.Time, viaCache bool) string {
	if viaCache {
		return "C18/stale-flow-honoured-via-routine-cache-beyond-one-tick"
	}
	deadline := fl.lastSeen.Add(fl.t)
	for _, at := range h.reloads {
		if at.After(fl.lastSeen) { // the first lookup of the flow since a reload
			return "C18/expired-flow-revived-by-reload"
		}
	}
	gran := deadline.Add(2 * h.cfg.to.min())
	anyAfter := false
	for _, in := range h.inserts {
		if !in.at.After(deadline) {
			continue
		}
		anyAfter = true
		if in.at.Before(gran) {
			continue
		}
		// the wheel was certainly moved past the flow's slot; were there enough lookups since to drain it?
		if h.dropCalls-in.dropCall <= in.before+1 {
			return "C18/idle-flow-honoured-purge-backlog"
		}
		return "C18/idle-flow-honoured-after-wheel-advance"
	}
	if anyAfter {
		return "C18/idle-flow-honoured-within-wheel-granularity"
	}
	return "C18/idle-flow-honoured-without-wheel-advance"
}

// send hands one packet to the real firewall and judges the verdict.
func (h *c18Hist) send(p firewall.Packet, incoming bool, peer *c18Peer, why string) {
	r := h.r
	var cache firewall.ConntrackCache
	if h.cfg.cacheD > 0 {
		if incoming {
			cache = h.cIn.Get()
		} else {
			cache = h.cOut.Get()
		}
	}
	_, inCache := cache[p]
	dir := "out"
	if incoming {
		dir = "in"
	}
	now := time.Now()
	var err error
	if !inCache {
		h.dropCalls++ // lookups answered by the routine cache never reach the conntrack table
	}
	step := fmt.Sprintf("t=%v %s %s %s", h.off(), why, dir, c18Tuple(p))
	if r.Guard("C18/panic", func() any { return h.replay(step) }, func() {
		err = h.ifc.firewall.Drop(p, incoming, peer.h, h.fx.caPool, cache)
	}) {
		h.bad = true
		return
	}
	passed := err == nil
	r.Eval(1)
	if err != nil && err != ErrNoMatchingRule {
		h.steps = append(h.steps, step+" -> "+err.Error())
		r.Violation("C18/unexpected-drop-reason", fmt.Sprintf("Drop returned %v for a packet with valid addresses", err), h.replay(step))
		h.bad = true
		return
	}

	allowed := c18RuleAllowed(h.rules, p, incoming, peer)
	fl := h.flows[p]
	t := h.cfg.to.of(p.Protocol)
	verdict := ""
	sig := ""
	switch {
	case allowed:
		state := "new"
		if fl != nil {
			state = "fresh"
			if now.Sub(fl.lastSeen) > fl.t {
				state = "expired"
			}
		}
		if fl == nil {
			fl = &c18Flow{t: t}
			h.flows[p] = fl
			h.inserts = append(h.inserts, c18Insert{at: now, dropCall: h.dropCalls, before: h.insertsUB})
		}
		if state != "fresh" {
			h.insertsUB++
		}
		fl.lastSeen, fl.sticky = now, ""
		verdict = "rule-allowed"
		sig = "allowed/" + state
		if !passed {
			verdict = "VIOLATION rule-allowed packet dropped"
			h.steps = append(h.steps, step+" -> dropped: "+verdict)
			r.Violation("C18/rule-allowed-packet-dropped", "a packet its direction's rules allow was dropped: "+step, h.replay(verdict))
			h.bad = true
			return
		}
	case fl == nil:
		verdict = "never-established"
		sig = "untracked/" + h.ctx
		if passed {
			verdict = "VIOLATION untracked tuple honoured"
			h.steps = append(h.steps, step+" -> passed: "+verdict)
			r.Violation("C18/untracked-tuple-honoured", "no rule allows the packet and no allowed packet of this exact tuple was ever seen, yet it passed: "+step, h.replay(verdict))
			h.bad = true
			return
		}
		r.Count("untracked_dropped", 1)
	default:
		idle := now.Sub(fl.lastSeen)
		slack := h.cfg.cacheD > 0 && h.epoch(fl.lastSeen) == h.epoch(now)
		legit := idle <= fl.t || slack
		must := idle < fl.t-h.cfg.cacheD
		zone := "stale"
		switch {
		case must:
			zone = "fresh"
		case idle <= fl.t:
			zone = "T-boundary-or-cache-margin"
		case slack:
			zone = "cache-slack"
		}
		verdict = fmt.Sprintf("%s idle=%v T=%v", zone, idle, fl.t)
		sig = fmt.Sprintf("tracked/%s/%s/pass=%v/cachehit=%v", zone, h.ctx, passed, inCache)
		switch {
		case passed && !legit:
			key := fl.sticky
			if key == "" {
				key = h.classifyStale(fl, now, inCache)
				fl.sticky = key
			}
			verdict = "VIOLATION " + key + ": " + verdict
			h.steps = append(h.steps, step+" -> passed: "+verdict)
			r.Count("stale_honoured", 1)
			r.Violation(key, fmt.Sprintf("no rule allows the packet and its flow has been idle %v > timeout %v (protocol %d), yet it passed: %s", idle, fl.t, p.Protocol, step), h.replay(verdict))
			return
		case passed:
			fl.lastSeen = now
			r.Count("honoured_"+strings.SplitN(zone, "-", 2)[0], 1)
			if inCache {
				r.Count("honoured_by_routine_cache", 1)
			}
		case must:
			verdict = "VIOLATION fresh flow dropped: " + verdict
			h.steps = append(h.steps, step+" -> dropped: "+verdict)
			r.Violation("C18/fresh-flow-dropped", fmt.Sprintf("an established flow idle only %v (timeout %v, cache tick %v) was not honoured: %s", idle, fl.t, h.cfg.cacheD, step), h.replay(verdict))
			h.bad = true
			return
		default:
			if zone == "stale" {
				r.Count("stale_dropped", 1)
				for _, at := range h.reloads {
					if at.After(fl.lastSeen) {
						r.Count("stale_dropped_after_reload", 1)
						break
					}
				}
				// did the drop need the wheel? (expiry that works on the unfixed tree)
				if c := h.classifyStale(fl, now, false); c != "C18/idle-flow-honoured-without-wheel-advance" {
					r.Count("stale_dropped_after_churn", 1)
				} else {
					r.Count("stale_dropped_without_churn", 1)
				}
			} else {
				r.Count("dropped_in_margin", 1)
			}
		}
	}
	res := "dropped"
	if passed {
		res = "passed"
	}
	h.steps = append(h.steps, fmt.Sprintf("%s -> %s (%s)", step, res, verdict))
	cm := "nocache"
	if h.cfg.cacheD > 0 {
		cm = "cache"
		if h.cfg.cacheD > t {
			cm = "cache>T"
		}
	}
	r.DistinctClass(fmt.Sprintf("proto=%d %s %s %s", p.Protocol, dir, cm, sig))
}

func (h *c18Hist) sleep(d time.Duration) {
	if d > 0 {
		time.Sleep(d)
		h.steps = append(h.steps, fmt.Sprintf("sleep %v", d))
	}
	// let the cache tickers consume a tick that fell due exactly now
	synctest.Wait()
}

// ---------- generator ----------

type c18Opened struct {
	p       firewall.Packet
	peer    *c18Peer
	firstIn bool // direction of the rule-allowed packet
	churn   bool
}

func c18FlowFor(fx *c18Fixture, rule c18Rule, peer *c18Peer, eph uint16) firewall.Packet {
	p := firewall.Packet{LocalAddr: fx.nodeAddr, RemoteAddr: peer.addr, Protocol: rule.proto}
	switch {
	case rule.proto == firewall.ProtoICMP:
		p.RemotePort = eph // the echo identifier
	case rule.in:
		p.LocalPort, p.RemotePort = rule.port, eph
	default:
		p.LocalPort, p.RemotePort = eph, rule.port
	}
	return p
}

var c18GapNames = []string{"0", "T/2", "T-eps", "T", "T+eps", "3T", "100T"}

func c18Gap(class int, t time.Duration, eps time.Duration) time.Duration {
	switch class {
	case 0:
		return 0
	case 1:
		return t / 2
	case 2:
		return t - eps
	case 3:
		return t
	case 4:
		return t + eps
	case 5:
		return 3 * t
	}
	return 100 * t
}

// c18RunHistory runs one generated history inside the current synctest bubble.
func c18RunHistory(r *verifkit.Reporter, fx *c18Fixture, idx int, forced *c18Forced) {
	rng := verifkit.SubRand("C18hist", idx)
	h := &c18Hist{r: r, fx: fx, flows: map[firewall.Packet]*c18Flow{}, t0: time.Now()}
	h.cfg.to = c18TimeoutSets[rng.IntN(len(c18TimeoutSets))]
	h.cfg.ruleSet = rng.IntN(len(c18RuleSets))
	if rng.IntN(2) == 1 {
		tmin, tmax := h.cfg.to.min(), h.cfg.to.max()
		h.cfg.cacheD = []time.Duration{tmin / 2, tmin, time.Second, 700 * time.Millisecond, 2 * tmin, tmax + tmax/2}[rng.IntN(6)]
	}
	if forced != nil {
		h.cfg.to, h.cfg.ruleSet, h.cfg.cacheD = forced.to, 0, 0
	}
	h.base = c18RuleSets[h.cfg.ruleSet]
	h.cfg.action = "drop"
	h.conf = config.NewC(fx.l)
	if err := h.conf.LoadString(h.render()); err != nil {
		r.Inconclusive("C18 config did not parse: " + err.Error())
		return
	}
	pki := &PKI{l: fx.l}
	pki.cs.Store(&CertState{v2Cert: fx.nodeCert})
	pki.caPool.Store(fx.caPool)
	fw, err := NewFirewallFromConfig(fx.l, pki.getCertState(), h.conf)
	if err != nil {
		r.Inconclusive("C18 firewall config refused: " + err.Error())
		return
	}
	h.ifc = &Interface{l: fx.l, pki: pki, firewall: fw}
	h.conf.RegisterReloadCallback(h.ifc.reloadFirewall)
	r.Pre("C18 history #%d (regenerate with this VERIF_SEED)\nconfig:\n%s\nroutine cache tick: %v", idx, h.cfg.yaml, h.cfg.cacheD)
	if fw.TCPTimeout != h.cfg.to.tcp || fw.UDPTimeout != h.cfg.to.udp || fw.DefaultTimeout != h.cfg.to.def {
		r.Violation("C18/configured-timeouts-not-applied", "firewall.conntrack.* timeouts differ from the configured values", h.replay(fmt.Sprint(fw.TCPTimeout, fw.UDPTimeout, fw.DefaultTimeout)))
		return
	}
	ctx, cancel := context.WithCancel(context.Background())
	defer func() { cancel(); synctest.Wait() }()
	if h.cfg.cacheD > 0 {
		h.cIn = firewall.NewConntrackCacheTicker(ctx, fx.l, h.cfg.cacheD)
		h.cOut = firewall.NewConntrackCacheTicker(ctx, fx.l, h.cfg.cacheD)
	}

	if forced != nil {
		c18RunForced(h, forced)
		return
	}

	var opened []*c18Opened
	nflows := 1 + rng.IntN(8)
	ephNext, churnNext, fillNext := uint16(30000), uint16(40000), uint16(50000)
	open := func(churn bool) *c18Opened {
		var ru c18Rule
		var peer *c18Peer
		for {
			ru = h.base[rng.IntN(len(h.base))]
			peer = fx.peers[rng.IntN(len(fx.peers))]
			if ru.matchesPeer(peer) && !(churn && ru.proto == firewall.ProtoTCP && rng.IntN(2) == 0) {
				break
			}
		}
		var eph uint16
		if churn {
			eph = churnNext
			churnNext++
		} else {
			eph = ephNext
			ephNext++
		}
		o := &c18Opened{p: c18FlowFor(fx, ru, peer, eph), peer: peer, firstIn: ru.in, churn: churn}
		opened = append(opened, o)
		h.send(o.p, o.firstIn, peer, "open")
		return o
	}
	pickMain := func() *c18Opened {
		for tries := 0; tries < 8; tries++ {
			if o := opened[rng.IntN(len(opened))]; !o.churn {
				return o
			}
		}
		return opened[0]
	}
	nearMiss := func(o *c18Opened) (firewall.Packet, *c18Peer) {
		p, peer := o.p, o.peer
		switch rng.IntN(7) {
		case 0:
			p.LocalPort++
		case 1:
			p.RemotePort++
		case 2:
			p.RemotePort--
		case 3:
			for _, q := range fx.peers {
				if q != o.peer {
					peer, p.RemoteAddr = q, q.addr
				}
			}
		case 4:
			switch p.Protocol {
			case firewall.ProtoTCP:
				p.Protocol = firewall.ProtoUDP
			case firewall.ProtoUDP:
				p.Protocol = firewall.ProtoTCP
			default:
				p.Protocol = firewall.ProtoUDP
			}
		case 5:
			p.LocalPort, p.RemotePort = p.RemotePort, p.LocalPort
		case 6:
			p.Fragment = true
		}
		return p, peer
	}

	h.ctx = "open"
	open(false)
	nsteps := 6 + rng.IntN(30)
	for s := 0; s < nsteps && !h.bad; s++ {
		mains := 0
		for _, o := range opened {
			if !o.churn {
				mains++
			}
		}
		k := rng.IntN(10)
		switch {
		case k == 0 && mains < nflows || mains < nflows && rng.IntN(3) == 0:
			h.ctx = "open"
			h.sleep(time.Duration(rng.Int64N(int64(h.cfg.to.min()))) / 2)
			open(false)
		case k <= 6:
			// probe: bring one flow to a chosen idle time, optionally move the wheel, then send the reply
			o := pickMain()
			fl := h.flows[o.p]
			gc := rng.IntN(len(c18GapNames))
			eps := []time.Duration{time.Nanosecond, time.Millisecond}[rng.IntN(2)]
			target := fl.lastSeen.Add(c18Gap(gc, fl.t, eps))
			h.sleep(time.Until(target))
			churn := []int{0, 0, 0, 1, 1, 2, 2, 3}[rng.IntN(8)] // 0 none, 1 opens only, 2 opens + a few lookups, 3 opens + drain
			h.ctx = fmt.Sprintf("gap=%s churn=%d", c18GapNames[gc], churn)
			if churn > 0 {
				save := h.ctx
				h.ctx = "churn"
				for i, n := 0, 1+rng.IntN(3); i < n; i++ {
					open(true)
				}
				fill := 0
				switch churn {
				case 2:
					fill = 1 + rng.IntN(3)
				case 3:
					fill = h.insertsUB + 3
				}
				for i := 0; i < fill && !h.bad; i++ {
					// unrelated lookups that no routine cache can answer: closed-port probes from a peer
					peer := fx.peers[i%2]
					h.send(firewall.Packet{LocalAddr: fx.nodeAddr, RemoteAddr: peer.addr, LocalPort: 9, RemotePort: fillNext, Protocol: firewall.ProtoUDP}, true, peer, "unrelated-lookup")
					fillNext++
				}
				h.ctx = save
			}
			if rl := rng.IntN(6); rl < 2 && !h.bad {
				// a reload that keeps every flow's original direction allowed, as the last thing before the packet
				kind := []string{"rule-preserving", "direction-preserving"}[rl]
				h.reload(kind)
				h.ctx += " reload=" + kind
			}
			if h.bad {
				break
			}
			switch rng.IntN(10) {
			case 0:
				h.send(o.p, o.firstIn, o.peer, "again-in-original-direction")
			case 1:
				p, peer := nearMiss(o)
				h.send(p, !o.firstIn, peer, "near-miss")
			default:
				h.send(o.p, !o.firstIn, o.peer, "reply")
				if rng.IntN(3) == 0 && !h.bad {
					h.send(o.p, !o.firstIn, o.peer, "reply-again")
				}
			}
		case k == 7:
			// keep-alive traffic at a short gap, either direction
			o := pickMain()
			h.ctx = "keepalive"
			h.sleep(time.Duration(rng.Int64N(int64(h.flows[o.p].t)/2 + 1)))
			h.send(o.p, rng.IntN(2) == 0, o.peer, "keepalive")
		case k == 8:
			o := pickMain()
			h.ctx = "nearmiss"
			h.sleep(time.Duration(rng.Int64N(int64(h.cfg.to.min()))))
			p, peer := nearMiss(o)
			dirIn := !o.firstIn
			if rng.IntN(4) == 0 {
				dirIn = o.firstIn
			}
			h.send(p, dirIn, peer, "near-miss")
		default:
			// a burst on one flow inside one cache tick, then silence until just after a tick boundary
			o := pickMain()
			h.ctx = "burst"
			for i, n := 0, 2+rng.IntN(3); i < n && !h.bad; i++ {
				h.send(o.p, !o.firstIn, o.peer, "burst")
				h.sleep(time.Duration(rng.Int64N(int64(200 * time.Millisecond))))
			}
			if h.cfg.cacheD > 0 && !h.bad {
				next := h.t0.Add(time.Duration(h.epoch(time.Now())+1) * h.cfg.cacheD)
				h.sleep(time.Until(next) + []time.Duration{-time.Nanosecond, 0, time.Nanosecond}[rng.IntN(3)])
				h.ctx = "burst-tick-boundary"
				h.send(o.p, !o.firstIn, o.peer, "reply-at-cache-tick-boundary")
			}
		}
	}
	if r.WantSample() {
		r.Sample(map[string]any{"config": h.cfg.yaml, "routine_cache": h.cfg.cacheD.String(), "history": h.steps})
	}
	r.Count("histories", 1)
	if h.cfg.cacheD > 0 {
		r.Count("histories_with_routine_cache", 1)
	}
}

// ---------- scripted witnesses (the probe's history, and its counterpart with churn) ----------

type c18Forced struct {
	name   string
	to     c18Timeouts
	idle   time.Duration
	churn  bool
	reload string // "" or a reload kind done after the silence, right before the reply
}

func c18RunForced(h *c18Hist, f *c18Forced) {
	fx := h.fx
	peer := fx.peers[0]
	flow := firewall.Packet{LocalAddr: fx.nodeAddr, RemoteAddr: peer.addr, LocalPort: 30000, RemotePort: 53, Protocol: firewall.ProtoUDP}
	h.ctx = "scripted " + f.name
	h.send(flow, false, peer, "open") // node -> peerA udp/53, allowed by the outbound rule
	h.send(flow, true, peer, "reply") // immediate reply, honoured because of the flow
	h.sleep(f.idle)
	if f.churn {
		// three unrelated new flows and enough lookups to drain the expired list
		var cf []firewall.Packet
		for i := 0; i < 3; i++ {
			p := firewall.Packet{LocalAddr: fx.nodeAddr, RemoteAddr: fx.peers[1].addr, LocalPort: uint16(40000 + i), RemotePort: 53, Protocol: firewall.ProtoUDP}
			cf = append(cf, p)
			h.send(p, false, fx.peers[1], "open")
		}
		for i := 0; i < 8; i++ {
			h.send(cf[i%3], false, fx.peers[1], "unrelated-lookup")
		}
	}
	if f.reload != "" {
		h.reload(f.reload)
	}
	h.send(flow, true, peer, "reply")
	h.send(flow, true, peer, "reply-again")
	h.r.Count("scripted_histories", 1)
}

// ---------- tests ----------

func TestVerifC18Scripted(t *testing.T) {
	r := verifkit.NewReporter(t, "C18", "scripted",
		"fixed witnesses: one UDP flow (3 s timeout), reply after 1 s / 4 s / 60 s of silence, with and without unrelated new flows in between, with and without a reload (rule-preserving / direction-preserving, through the real reloadFirewall) right before the reply; distinct = (history, packet class) pairs")
	defer r.Done()
	fx := c18NewFixture()
	to := c18Timeouts{12 * time.Second, 3 * time.Second, 10 * time.Second}
	for i, f := range []*c18Forced{
		{"idle-1s-no-churn", to, time.Second, false, ""},
		{"idle-60s-no-churn", to, 60 * time.Second, false, ""},
		{"idle-60s-churn", to, 60 * time.Second, true, ""},
		{"idle-1s-churn", to, time.Second, true, ""},
		{"idle-60s-then-rule-preserving-reload", to, 60 * time.Second, false, "rule-preserving"},
		{"idle-60s-then-direction-preserving-reload", to, 60 * time.Second, false, "direction-preserving"},
		{"idle-4s-then-rule-preserving-reload", to, 4 * time.Second, false, "rule-preserving"},
		{"idle-1s-then-rule-preserving-reload", to, time.Second, false, "rule-preserving"},
		{"idle-1s-then-direction-preserving-reload", to, time.Second, true, "direction-preserving"},
	} {
		synctest.Test(t, func(t *testing.T) { c18RunHistory(r, fx, i, f) })
	}
}

func TestVerifC18Histories(t *testing.T) {
	r := verifkit.NewReporter(t, "C18", "hist",
		"PRNG histories in a synctest bubble: 1-8 flows x 2 peers (tcp/udp/icmp, outbound-first and inbound-first) against the real Firewall built from a generated config with small conntrack timeouts; idle gaps {0,T/2,T-eps,T,T+eps,3T,100T} per flow, with/without unrelated new flows and lookups (what moves the timer wheel), with/without per-direction routine caches (real ConntrackCacheTicker, tick boundaries hit exactly), with/without a rule-preserving or direction-preserving reload through the real reloadFirewall right before the probed packet, near-miss tuples; distinct = (protocol, direction, cache mode, model zone, gap class, churn mode, verdict, cache hit) classes")
	defer r.Done()
	fx := c18NewFixture()
	n := verifkit.Scale(5000, 500000)
	for i := 0; i < n; i++ {
		if !verifkit.Mine(i) {
			continue
		}
		synctest.Test(t, func(t *testing.T) { c18RunHistory(r, fx, i, nil) })
	}
}
