//go:build e2e_testing

package nebula

// C34 (lighthouse cache) — component-level stress of one node's real LightHouse address cache under the race detector and
// the lock-order monitor: peers certified for several addresses that are known under one of their addresses only are
// looked up under their full address set (what a completing handshake does), forgotten and learned again, while other
// routines read the cache the way the packet path, the handshake manager and the lighthouse handler do.
// The deciding observations are race reports, fatal errors ("concurrent map read and map write") and lock-order cycles.

import (
	"fmt"
	"net/netip"
	"sync"
	"sync/atomic"
	"testing"

	"github.com/slackhq/nebula/cert"
	"github.com/slackhq/nebula/verifkit"
)

func TestVerifC34LighthouseCache(t *testing.T) {
	r := verifkit.NewReporter(t, "C34", "lhcache",
		"one wired node; W writer goroutines cycle (forget peer, learn it under its 2nd/3rd address only, look it up under the full address set) over a pool of multi-address peers while R reader goroutines call Query / QueryCache / queryAndPrepMessage / CopyCache on the same pool; distinct = (operation, found) classes")
	defer r.Done()
	if i, _ := verifkit.Shard(); i != 0 {
		return
	}
	ca := vnNewCA(cert.Version2, cert.Curve_CURVE25519)
	nw := vnNewNet(t)
	n := nw.AddNode(ca.issue([]cert.Version{cert.Version2}, "n", "10.34.0.1/16,fd34::1/64", "", nil), []*vnCA{ca}, "192.0.2.1:4242", nil)
	defer n.C.Stop()
	lh := n.F.lightHouse
	type peer struct{ addrs []netip.Addr }
	var peers []peer
	for i := 0; i < 12; i++ {
		peers = append(peers, peer{[]netip.Addr{
			netip.AddrFrom4([4]byte{10, 34, 1, byte(2 + i)}),
			netip.AddrFrom4([4]byte{10, 34, 2, byte(2 + i)}),
			netip.MustParseAddr(fmt.Sprintf("fd34::%x", 0x100+i)),
		}})
	}
	iters := verifkit.Scale(4000, 200000)
	var wg sync.WaitGroup
	var ops, found atomic.Int64
	for w := 0; w < 4; w++ {
		wg.Add(1)
		go func(w int) {
			defer wg.Done()
			rng := verifkit.SubRand("C34lhW", w)
			for i := 0; i < iters; i++ {
				p := peers[rng.IntN(len(peers))]
				switch rng.IntN(4) {
				case 0:
					lh.DeleteVpnAddrs(p.addrs)
				case 1:
					// learned under a secondary address only (a lighthouse answered a query for that address)
					n.C.InjectLightHouseAddr(p.addrs[1+rng.IntN(2)], netip.AddrPortFrom(netip.AddrFrom4([4]byte{198, 51, 100, byte(rng.IntN(250))}), 4242))
				default:
					// what a completing handshake does: the full certified address set
					if lh.QueryCache(p.addrs) != nil {
						found.Add(1)
					}
				}
				ops.Add(1)
			}
		}(w)
	}
	for rd := 0; rd < 4; rd++ {
		wg.Add(1)
		go func(rd int) {
			defer wg.Done()
			rng := verifkit.SubRand("C34lhR", rd)
			for i := 0; i < iters; i++ {
				p := peers[rng.IntN(len(peers))]
				a := p.addrs[rng.IntN(len(p.addrs))]
				switch rng.IntN(4) {
				case 0:
					if lh.Query(a) != nil {
						found.Add(1)
					}
				case 1:
					if rl := lh.QueryCache([]netip.Addr{a}); rl != nil {
						rl.CopyAddrs(nil)
					}
				case 2:
					lh.queryAndPrepMessage(a, func(c *cache) (int, error) { return 0, nil })
				default:
					n.C.QueryLighthouse(a)
				}
				ops.Add(1)
			}
		}(rd)
	}
	wg.Wait()
	r.Eval(int(ops.Load()))
	r.Count("lighthouse_cache_operations", int(ops.Load()))
	r.Count("lookups_that_found_an_entry", int(found.Load()))
	r.DistinctClass("writers: forget / learn-under-secondary / lookup-full-set")
	r.DistinctClass("readers: Query / QueryCache / queryAndPrepMessage / Control.QueryLighthouse")
	r.Distinct(fmt.Sprintf("ops %d", ops.Load()))
	c34LockOrder(r)
}

// C34 (hostmap) — component-level stress of one node's real HostMap under the race detector and the lock-order monitor:
// peers that hold several tunnels (as after re-handshakes) whose primary has no established relay, relay lookups the way the
// relayed send path and the forwarding path do them, while tunnels are added, promoted, given relays and deleted.
func TestVerifC34HostMap(t *testing.T) {
	r := verifkit.NewReporter(t, "C34", "hmstress",
		"one wired node's HostMap; W writer goroutines add tunnels for a small pool of peers, attach established relays to random tunnels, promote and delete tunnels while R reader goroutines call QueryVpnAddrsRelayFor / QueryVpnAddr / QueryIndex / QueryRelayIndex / the control API listing; distinct = (operation) classes")
	defer r.Done()
	if i, _ := verifkit.Shard(); i != 0 {
		return
	}
	ca := vnNewCA(cert.Version2, cert.Curve_CURVE25519)
	nw := vnNewNet(t)
	n := nw.AddNode(ca.issue([]cert.Version{cert.Version2}, "n", "10.34.0.1/16", "", nil), []*vnCA{ca}, "192.0.2.1:4242", nil)
	defer n.C.Stop()
	hm := n.F.hostMap
	l := vnLogger()
	var peers []netip.Addr
	certOf := map[netip.Addr]*cert.CachedCertificate{}
	for i := 0; i < 5; i++ {
		a := netip.AddrFrom4([4]byte{10, 34, 3, byte(2 + i)})
		peers = append(peers, a)
		id := ca.issue([]cert.Version{cert.Version2}, fmt.Sprintf("hm-peer-%d", i), a.String()+"/16", "", nil)
		certOf[a] = &cert.CachedCertificate{Certificate: id.Certs[cert.Version2]}
	}
	var idx atomic.Uint32
	idx.Store(0x34000000)
	var mu sync.Mutex
	live := map[netip.Addr][]*HostInfo{}
	add := func(p netip.Addr) {
		i := idx.Add(1)
		h := &HostInfo{
			ConnectionState: &ConnectionState{peerCert: certOf[p]},
			localIndexId:    i, remoteIndexId: i + 0x100000,
			vpnAddrs:        []netip.Addr{p},
			HandshakePacket: map[uint8][]byte{0: {byte(i)}},
			relayState:      RelayState{relayForByAddr: map[netip.Addr]*Relay{}, relayForByIdx: map[uint32]*Relay{}},
		}
		hm.Lock()
		hm.unlockedAddHostInfo(h, n.F)
		hm.Unlock()
		mu.Lock()
		live[p] = append(live[p], h)
		mu.Unlock()
	}
	pick := func(rng interface{ IntN(int) int }, p netip.Addr, remove bool) *HostInfo {
		mu.Lock()
		defer mu.Unlock()
		hs := live[p]
		if len(hs) == 0 {
			return nil
		}
		i := rng.IntN(len(hs))
		h := hs[i]
		if remove {
			live[p] = append(hs[:i:i], hs[i+1:]...)
		}
		return h
	}
	for _, p := range peers {
		add(p)
	}
	iters := verifkit.Scale(6000, 300000)
	var wg sync.WaitGroup
	var ops, relayFound atomic.Int64
	for w := 0; w < 3; w++ {
		wg.Add(1)
		go func(w int) {
			defer wg.Done()
			rng := verifkit.SubRand("C34hmW", w)
			for i := 0; i < iters; i++ {
				p := peers[rng.IntN(len(peers))]
				switch rng.IntN(8) {
				case 0, 1:
					add(p) // a re-handshake: the new tunnel becomes primary and has no relays yet
				case 2, 3:
					if h := pick(rng, p, false); h != nil {
						AddRelay(l, h, hm, peers[rng.IntN(len(peers))], nil, ForwardingType, Established)
					}
				case 4:
					if h := pick(rng, p, false); h != nil {
						hm.MakePrimary(h)
					}
				default:
					if h := pick(rng, p, true); h != nil {
						hm.DeleteHostInfo(h)
					}
				}
				ops.Add(1)
			}
		}(w)
	}
	for rd := 0; rd < 5; rd++ {
		wg.Add(1)
		go func(rd int) {
			defer wg.Done()
			rng := verifkit.SubRand("C34hmR", rd)
			for i := 0; i < iters; i++ {
				p, q := peers[rng.IntN(len(peers))], peers[rng.IntN(len(peers))]
				switch rng.IntN(6) {
				case 0, 1, 2:
					if _, _, err := hm.QueryVpnAddrsRelayFor([]netip.Addr{q}, p); err == nil {
						relayFound.Add(1)
					}
				case 3:
					hm.QueryVpnAddr(p)
				case 4:
					hm.QueryIndex(0x34000000 + uint32(rng.IntN(int(idx.Load()-0x34000000)+1)))
				default:
					n.C.ListHostmapIndexes(false)
				}
				ops.Add(1)
			}
		}(rd)
	}
	wg.Wait()
	r.Eval(int(ops.Load()))
	r.Count("hostmap_operations", int(ops.Load()))
	r.Count("relay_lookups_that_found_an_established_relay", int(relayFound.Load()))
	r.DistinctClass("writers: add tunnel / add relay / promote / delete")
	r.DistinctClass("readers: QueryVpnAddrsRelayFor / QueryVpnAddr / QueryIndex / ListHostmapIndexes")
	r.Distinct(fmt.Sprintf("ops %d", ops.Load()))
	c34LockOrder(r)
}
