package nebula

// C44 — the DNS responder answers only from authenticated data.
//
// The real dnsServer (dns_server.go) is built with newDnsServerFromConfig and queried through its request
// handler (handleDnsRequest) with a fake dns.ResponseWriter whose RemoteAddr the monitor controls. Requests go
// through dns.Msg Pack/Unpack first, so the handler sees names exactly as the wire delivers them. Names and
// addresses are registered only through the entry points the handshake path uses:
// HandshakeManager.CheckAndComplete (responder) and HandshakeManager.Complete (initiator), both of which end in
// HostMap.unlockedAddHostInfo -> dnsServer.Add; the node's own record comes from the real PKI via seedSelf.
//
// Oracle, written from the statement (labels compared byte-wise, ASCII case-insensitively):
//   known(name)    = some certificate whose handshake completed since the responder was (re-)enabled, or the
//                    node's own certificate, has that name
//   A/AAAA answer  => owner name is a question name, the name is known, the address is a network address of a
//                     certificate with that name (of the node itself for its own name) and of the asked family
//   NXDOMAIN       => no question name is known (whatever the question types) and the answer section is empty
//   known name lacking the asked family => NOERROR with no answer for it
//   known name having the asked family  => answered (only judged when no refused TXT question is in the message)
//   TXT answer     => client is loopback or one of the node's own overlay addresses, and the text is the
//                     certificate of a registered peer that owns the asked address (or the node's own certificate)
//   nothing in the authority / additional sections, rcode is NOERROR or NXDOMAIN, no panic

import (
	"context"
	"fmt"
	"log/slog"
	"net"
	"net/netip"
	"strings"
	"testing"
	"time"

	"github.com/miekg/dns"
	"github.com/slackhq/nebula/cert"
	"github.com/slackhq/nebula/cert_test"
	"github.com/slackhq/nebula/config"
	"github.com/slackhq/nebula/udp"
	"github.com/slackhq/nebula/verifkit"
	"go.yaml.in/yaml/v3"
)

// ---------------------------------------------------------------------------------------------------------------
// fake response writer

type c44Addr struct{ s string }

func (a c44Addr) Network() string { return "udp" }
func (a c44Addr) String() string  { return a.s }

type c44Writer struct {
	remote net.Addr
	msg    *dns.Msg
	writes int
}

func (w *c44Writer) LocalAddr() net.Addr         { return &net.UDPAddr{IP: net.IPv4(127, 0, 0, 1), Port: 53} }
func (w *c44Writer) RemoteAddr() net.Addr        { return w.remote }
func (w *c44Writer) WriteMsg(m *dns.Msg) error   { w.msg = m; w.writes++; return nil }
func (w *c44Writer) Write(b []byte) (int, error) { w.writes++; return len(b), nil }
func (w *c44Writer) Close() error                { return nil }
func (w *c44Writer) TsigStatus() error           { return nil }
func (w *c44Writer) TsigTimersOnly(bool)         {}
func (w *c44Writer) Hijack()                     {}

// ---------------------------------------------------------------------------------------------------------------
// names

// c44Labels is a domain name as the list of its raw labels.
type c44Labels []string

func c44Lower(s string) string {
	b := []byte(s)
	for i, c := range b {
		if c >= 'A' && c <= 'Z' {
			b[i] = c + 32
		}
	}
	return string(b)
}

// key: ASCII-lowercased, length-prefixed labels (labels may hold any byte)
func (l c44Labels) key() string {
	var sb strings.Builder
	for _, x := range l {
		fmt.Fprintf(&sb, "%d:%s|", len(x), c44Lower(x))
	}
	return sb.String()
}

// c44CertNameLabels: a certificate name is a dotted host name; "" is the root.
func c44CertNameLabels(name string) c44Labels {
	if name == "" {
		return c44Labels{}
	}
	return c44Labels(strings.Split(name, "."))
}

func c44Plain(b byte) bool {
	return b >= 'a' && b <= 'z' || b >= 'A' && b <= 'Z' || b >= '0' && b <= '9' || b == '-' || b == '_'
}

func (l c44Labels) plain() bool {
	for _, x := range l {
		for i := 0; i < len(x); i++ {
			if !c44Plain(x[i]) && x[i] != ':' {
				return false
			}
		}
	}
	return true
}

// presentation format for Pack: everything that is not a plain host name byte as \DDD
func (l c44Labels) presentation() string {
	if len(l) == 0 {
		return "."
	}
	var sb strings.Builder
	for _, x := range l {
		for i := 0; i < len(x); i++ {
			if c44Plain(x[i]) || x[i] == ':' {
				sb.WriteByte(x[i])
			} else {
				fmt.Fprintf(&sb, "\\%03d", x[i])
			}
		}
		sb.WriteByte('.')
	}
	return sb.String()
}

// c44ParsePresentation decodes a presentation-format name (as miekg/dns produces it) into raw labels.
func c44ParsePresentation(s string) (c44Labels, bool) {
	if s == "." {
		return c44Labels{}, true
	}
	var out c44Labels
	var cur []byte
	for i := 0; i < len(s); i++ {
		c := s[i]
		switch {
		case c == '\\':
			if i+3 < len(s) && s[i+1] >= '0' && s[i+1] <= '9' && s[i+2] >= '0' && s[i+2] <= '9' && s[i+3] >= '0' && s[i+3] <= '9' {
				v := int(s[i+1]-'0')*100 + int(s[i+2]-'0')*10 + int(s[i+3]-'0')
				if v > 255 {
					return nil, false
				}
				cur = append(cur, byte(v))
				i += 3
			} else if i+1 < len(s) {
				cur = append(cur, s[i+1])
				i++
			} else {
				return nil, false
			}
		case c == '.':
			out = append(out, string(cur))
			cur = cur[:0]
		default:
			cur = append(cur, c)
		}
	}
	if len(cur) > 0 {
		return nil, false // not fully qualified
	}
	return out, true
}

func c44FlipCase(rng interface{ IntN(int) int }, l c44Labels, mode int) c44Labels {
	out := make(c44Labels, len(l))
	for i, x := range l {
		b := []byte(x)
		for j, c := range b {
			isL, isU := c >= 'a' && c <= 'z', c >= 'A' && c <= 'Z'
			switch mode {
			case 1: // lower
				if isU {
					b[j] = c + 32
				}
			case 2: // upper
				if isL {
					b[j] = c - 32
				}
			case 3: // random
				if (isL || isU) && rng.IntN(2) == 0 {
					b[j] = c ^ 32
				}
			}
		}
		out[i] = string(b)
	}
	return out
}

var c44PlainNames = []string{
	"host1", "host10", "Host2", "LightHouse", "db.Example.COM", "a", "web-01", "UPPER", "MiXeD.Case.Net", "node_7",
	"x.y.z", "example.com", "laptop", "Laptop-Ann", "srv.prod.internal", "SRV.dev.internal", "0", "10-1-0-9", "b.a", "a.b",
}

// names outside the host name alphabet: the wire form needs escaping, or Unicode case folding could matter
var c44ExoticNames = []string{
	"my host", "café", "CAFÉ", "K", "k", "semi;colon", "quote\"d", "back\\slash", "at@sign", "paren(s)", "tab\there",
	"", "dot.", "a..b", "*", "İstanbul", "i̇stanbul", "$ORIGIN", "$include", "host1 A 6.6.6.6", strings.Repeat("l", 64), "ff02::1",
}

var c44OwnNames = []string{"lighthouse", "LH.Example.com", "Beacon", "host1"}

// ---------------------------------------------------------------------------------------------------------------
// model

type c44Rec struct {
	v4, v6 map[netip.Addr]bool
}

type c44Model struct {
	names   map[string]*c44Rec      // key of the name's labels -> addresses of every certificate with that name
	certsAt map[netip.Addr][]string // overlay address -> fingerprints of registered certificates that own it
	ownKey  string
	ownAddr map[netip.Addr]bool
	ownFP   string
	regs    []c44Reg        // every registration since the last reset, in order
	ownEver map[string]bool // names that are or were the node's own in this history
}

type c44Reg struct {
	name  string
	addrs []netip.Addr
	own   bool
}

func (m *c44Model) add(name string, addrs []netip.Addr, own bool) {
	k := c44CertNameLabels(name).key()
	m.regs = append(m.regs, c44Reg{name, addrs, own})
	rec := m.names[k]
	if rec == nil {
		rec = &c44Rec{v4: map[netip.Addr]bool{}, v6: map[netip.Addr]bool{}}
		m.names[k] = rec
	}
	for _, a := range addrs {
		if a.Is4() {
			rec.v4[a] = true
		} else {
			rec.v6[a] = true
		}
	}
}

func (m *c44Model) reset() {
	m.names = map[string]*c44Rec{}
	m.regs = nil
}

// sharedWithPeer: a handshaked peer carries the same name as the node.
func (m *c44Model) sharedWithPeer(k string) bool {
	for _, rg := range m.regs {
		if !rg.own && c44CertNameLabels(rg.name).key() == k {
			return true
		}
	}
	return false
}

// foldedOwner names a registered certificate that owns addr and whose name equals the asked name only under Unicode
// case folding (strings.ToLower), not under DNS (ASCII) case-insensitivity. Used to give that witness class its own key.
func (m *c44Model) foldedOwner(asked c44Labels, addr netip.Addr) string {
	a := strings.ToLower(strings.Join(asked, "."))
	for _, rg := range m.regs {
		if strings.ToLower(rg.name) == a && c44CertNameLabels(rg.name).key() != asked.key() {
			for _, x := range rg.addrs {
				if x == addr {
					return rg.name
				}
			}
		}
	}
	return ""
}

// ---------------------------------------------------------------------------------------------------------------
// material

type c44Peer struct {
	name   string
	nets   []netip.Prefix
	addrs  []netip.Addr
	crt    cert.Certificate
	cached *cert.CachedCertificate
	fp     string
	done   bool // handshake completed
	hi     *HostInfo
}

type c44Mat struct {
	t      testing.TB
	ca     cert.Certificate
	caPriv []byte
	caPEM  string
	pool   *cert.CAPool
	ownPub []byte
	ownKey string // PEM
	ownCrt map[string]string
	pub    []byte
}

func c44Time(y int) time.Time { return time.Date(y, 1, 1, 0, 0, 0, 0, time.UTC) }

func c44NewMat(t testing.TB) *c44Mat {
	m := &c44Mat{t: t, ownCrt: map[string]string{}}
	ca, _, priv, pem := cert_test.NewTestCaCert(cert.Version2, cert.Curve_CURVE25519, c44Time(1990), c44Time(2200), nil, nil, nil)
	m.ca, m.caPriv, m.caPEM = ca, priv, string(pem)
	m.pool = cert.NewCAPool()
	if err := m.pool.AddCA(ca); err != nil {
		t.Fatal(err)
	}
	var ownPriv []byte
	m.ownPub, ownPriv = cert_test.X25519Keypair()
	m.ownKey = string(cert.MarshalPrivateKeyToPEM(cert.Curve_CURVE25519, ownPriv))
	m.pub, _ = cert_test.X25519Keypair()
	return m
}

func (m *c44Mat) trySign(ver cert.Version, name string, nets []netip.Prefix, pub []byte) (cert.Certificate, error) {
	tbs := &cert.TBSCertificate{Version: ver, Curve: cert.Curve_CURVE25519, Name: name, Networks: nets,
		NotBefore: c44Time(1991), NotAfter: c44Time(2199), PublicKey: pub}
	return tbs.Sign(m.ca, cert.Curve_CURVE25519, m.caPriv)
}

func (m *c44Mat) sign(ver cert.Version, name string, nets []netip.Prefix, pub []byte) cert.Certificate {
	c, err := m.trySign(ver, name, nets, pub)
	if err != nil {
		m.t.Fatalf("C44: sign %q %v: %v", name, nets, err)
	}
	return c
}

func (m *c44Mat) ownPEM(name string, withV6 bool) string {
	k := fmt.Sprintf("%s/%v", name, withV6)
	if p, ok := m.ownCrt[k]; ok {
		return p
	}
	nets := []netip.Prefix{netip.MustParsePrefix("10.77.0.1/16")}
	if withV6 {
		nets = append(nets, netip.MustParsePrefix("fd77::1/64"))
	}
	b, err := m.sign(cert.Version2, name, nets, m.ownPub).MarshalPEM()
	if err != nil {
		m.t.Fatal(err)
	}
	m.ownCrt[k] = string(b)
	return string(b)
}

func (m *c44Mat) pkiYAML(name string, withV6 bool) string {
	b, err := yaml.Marshal(map[string]any{"pki": map[string]any{"ca": m.caPEM, "key": m.ownKey, "cert": m.ownPEM(name, withV6)}})
	if err != nil {
		m.t.Fatal(err)
	}
	return string(b)
}

func (m *c44Mat) newPeer(rng interface{ IntN(int) int }, serial int) *c44Peer {
	p := &c44Peer{}
	switch x := rng.IntN(10); {
	case x < 7:
		p.name = c44PlainNames[rng.IntN(len(c44PlainNames))]
	case x < 9:
		p.name = c44ExoticNames[rng.IntN(len(c44ExoticNames))]
	default:
		p.name = fmt.Sprintf("gen-%d", rng.IntN(40))
	}
	v4 := func() netip.Prefix {
		return netip.PrefixFrom(netip.AddrFrom4([4]byte{10, 77, byte(1 + rng.IntN(3)), byte(2 + rng.IntN(12))}), 16)
	}
	v6 := func() netip.Prefix {
		a := netip.MustParseAddr("fd77::").As16()
		a[15] = byte(2 + rng.IntN(12))
		a[14] = byte(rng.IntN(2))
		return netip.PrefixFrom(netip.AddrFrom16(a), 64)
	}
	ver := cert.Version2
	switch rng.IntN(8) {
	case 0, 1, 2:
		p.nets = []netip.Prefix{v4()}
		if rng.IntN(2) == 0 {
			ver = cert.Version1
		}
	case 3:
		p.nets = []netip.Prefix{v6()}
	case 4, 5:
		p.nets = []netip.Prefix{v4(), v6()}
	case 6:
		p.nets = []netip.Prefix{v6(), v4(), v4()}
	case 7:
		p.nets = []netip.Prefix{v4(), v4(), v6(), v6()}
	}
	// duplicates are refused by Sign
	seen := map[netip.Prefix]bool{}
	var nets []netip.Prefix
	for _, n := range p.nets {
		if !seen[n] {
			seen[n] = true
			nets = append(nets, n)
		}
	}
	// The certificate authority code may refuse a name (e.g. empty or over-long names in one certificate version):
	// such a certificate cannot exist, so fall back to the other version if the networks allow it, else to a plain name.
	var serr error
	if p.crt, serr = m.trySign(ver, p.name, nets, m.pub); serr != nil {
		allV4 := true
		for _, n := range nets {
			allV4 = allV4 && n.Addr().Is4()
		}
		if ver == cert.Version2 && allV4 {
			p.crt, serr = m.trySign(cert.Version1, p.name, nets, m.pub)
		} else if ver == cert.Version1 {
			p.crt, serr = m.trySign(cert.Version2, p.name, nets, m.pub)
		}
		if serr != nil {
			p.name = fmt.Sprintf("renamed-%d", serial%7)
			p.crt = m.sign(ver, p.name, nets, m.pub)
		}
	}
	p.nets = p.crt.Networks()
	for _, n := range p.nets {
		p.addrs = append(p.addrs, n.Addr())
	}
	cc, err := m.pool.VerifyCertificate(c44Time(2030), p.crt)
	if err != nil {
		m.t.Fatalf("C44: verify: %v", err)
	}
	p.cached = cc
	p.fp = cc.Fingerprint
	return p
}

// ---------------------------------------------------------------------------------------------------------------
// the monitor

type c44Q struct {
	labels c44Labels
	qtype  uint16
}

type c44Client struct {
	addr       net.Addr
	class      string
	privileged bool // truth according to the statement
	judged     bool // false for shapes the statement does not talk about (zones, malformed address strings)
}

func c44QtypeClass(t uint16) string {
	switch t {
	case dns.TypeA:
		return "A"
	case dns.TypeAAAA:
		return "AAAA"
	case dns.TypeTXT:
		return "TXT"
	}
	return "other"
}

func TestVerifC44Responder(t *testing.T) {
	r := verifkit.NewReporter(t, "C44", "responder",
		"history = a lighthouse's real dnsServer + HostMap + HandshakeManager; ~48 operations per history: completed handshakes (responder path CheckAndComplete / initiator path Complete) of generated peer certificates (plain and exotic names, name collisions, v1/v2, 1-4 networks), hostinfo deletions, own certificate renames (PKI reload + seedSelf), serve_dns off/on, and queries (A/AAAA/TXT/other types, 1-3 questions, registered names in exact/lower/upper/random case, near-miss and never-handshaked names, address-form names) from loopback / own-overlay / neighbour / peer / public / malformed client addresses, packed and unpacked like on the wire; distinct = distinct (question shapes, client class, response shape) signatures")
	defer r.Done()
	l := slog.New(slog.DiscardHandler)
	m := c44NewMat(t)
	histories := verifkit.Scale(1700, 110000)
	const ops = 48

	// Witness hygiene: for the name-class keys the first witness written out should be an A/AAAA question (so that it shows
	// that class alone and not also the non-address-qtype class). Witnesses with other qtypes are held back until a clean one
	// exists or the test ends; none is dropped.
	type heldRec struct {
		what   string
		replay any
		n      int
	}
	held := map[string]*heldRec{}
	clean := map[string]bool{}
	classed := func(key string, mixed bool, what string, rp func() any) {
		if !mixed {
			clean[key] = true
		}
		if clean[key] {
			if hr := held[key]; hr != nil {
				delete(held, key)
				r.Violation(key, what, rp())
				for ; hr.n > 0; hr.n-- {
					r.Violation(key, hr.what, hr.replay)
				}
				return
			}
			r.Violation(key, what, rp())
			return
		}
		if hr := held[key]; hr != nil {
			hr.n++
		} else {
			held[key] = &heldRec{what, rp(), 1}
		}
	}
	defer func() {
		for key, hr := range held {
			for ; hr.n > 0; hr.n-- {
				r.Violation(key, hr.what, hr.replay)
			}
		}
	}()

	for h := 0; h < histories; h++ {
		if !verifkit.Mine(h) {
			continue
		}
		rng := verifkit.SubRand("C44hist", h)
		var log []string
		note := func(f string, a ...any) {
			log = append(log, fmt.Sprintf(f, a...))
			if len(log) > 80 {
				log = log[len(log)-80:]
			}
		}
		replay := func(extra map[string]any) any {
			rec := map[string]any{"history": h, "operations": append([]string(nil), log...)}
			for k, v := range extra {
				rec[k] = v
			}
			return rec
		}

		ownName := c44OwnNames[rng.IntN(len(c44OwnNames))]
		ownV6 := rng.IntN(3) != 0
		pkiConf := config.NewC(l)
		if err := pkiConf.LoadString(m.pkiYAML(ownName, ownV6)); err != nil {
			t.Fatal(err)
		}
		pki, err := NewPKIFromConfig(l, pkiConf)
		if err != nil {
			t.Fatalf("C44: own PKI: %v", err)
		}
		hostMap := newHostMap(l)
		pr := []netip.Prefix{}
		hostMap.preferredRanges.Store(&pr)
		dnsConf := config.NewC(l)
		dnsOn := "lighthouse:\n  am_lighthouse: true\n  serve_dns: true\n  dns:\n    host: 127.0.0.1\n    port: 0\n"
		dnsOff := "lighthouse:\n  am_lighthouse: true\n  serve_dns: false\n  dns:\n    host: 127.0.0.1\n    port: 0\n"
		if err := dnsConf.LoadString(dnsOn); err != nil {
			t.Fatal(err)
		}
		ctx, cancel := context.WithCancel(context.Background())
		ds, err := newDnsServerFromConfig(ctx, l, pki, hostMap, dnsConf)
		if err != nil {
			t.Fatalf("C44: dns server: %v", err)
		}
		hsm := NewHandshakeManager(l, hostMap, nil, &udp.NoopConn{}, defaultHandshakeConfig)
		ifce := &Interface{hostMap: hostMap, l: l, pki: pki, dnsServer: ds, handshakeManager: hsm}
		note("own name=%q v6=%v", ownName, ownV6)

		model := &c44Model{certsAt: map[netip.Addr][]string{}, ownEver: map[string]bool{}}
		model.reset()
		setOwn := func() {
			cs := pki.getCertState()
			c := cs.GetDefaultCertificate()
			model.ownKey = c44CertNameLabels(c.Name()).key()
			model.ownEver[model.ownKey] = true
			model.ownAddr = map[netip.Addr]bool{}
			var as []netip.Addr
			for _, n := range c.Networks() {
				model.ownAddr[n.Addr()] = true
				as = append(as, n.Addr())
			}
			model.ownFP, _ = c.Fingerprint()
			model.add(c.Name(), as, true)
		}
		setOwn()
		enabled := true

		var peers []*c44Peer // every generated certificate
		var live []*c44Peer  // handshaked and still in the hostmap
		nextIdx := uint32(1000)
		hsTime := uint64(1)

		clients := func() c44Client {
			udpA := func(ip string) net.Addr { return &net.UDPAddr{IP: net.ParseIP(ip), Port: 1024 + rng.IntN(60000)} }
			pick := func(as []netip.Addr) (netip.Addr, bool) {
				if len(as) == 0 {
					return netip.Addr{}, false
				}
				return as[rng.IntN(len(as))], true
			}
			switch rng.IntN(16) {
			case 0:
				return c44Client{udpA("127.0.0.1"), "loopback4", true, true}
			case 1:
				return c44Client{udpA(fmt.Sprintf("127.%d.%d.%d", rng.IntN(256), rng.IntN(256), 1+rng.IntN(254))), "loopback4-other", true, true}
			case 2:
				return c44Client{&net.TCPAddr{IP: net.ParseIP("::1"), Port: 5353}, "loopback6-tcp", true, true}
			case 3:
				return c44Client{udpA("10.77.0.1"), "own4", true, true}
			case 4:
				return c44Client{udpA("fd77::1"), "own6-if-in-cert", ownV6, true}
			case 5:
				return c44Client{c44Addr{"[::ffff:127.0.0.1]:4000"}, "loopback-4in6", true, true}
			case 6:
				return c44Client{udpA(fmt.Sprintf("10.77.0.%d", 2+rng.IntN(250))), "neighbour4", false, true}
			case 7:
				return c44Client{udpA("fd77::2"), "neighbour6", false, true}
			case 8:
				if len(live) > 0 {
					if a, ok := pick(live[rng.IntN(len(live))].addrs); ok {
						return c44Client{udpA(a.String()), "handshaked-peer", false, true}
					}
				}
				return c44Client{udpA("10.77.3.200"), "neighbour4", false, true}
			case 9:
				return c44Client{udpA([]string{"8.8.8.8", "192.168.1.10", "2001:db8::1", "0.0.0.0", "::", "10.77.255.255", "128.0.0.1", "126.255.255.255"}[rng.IntN(8)]), "outside", false, true}
			case 10:
				return c44Client{&net.UDPAddr{IP: net.ParseIP("fe80::1"), Port: 53, Zone: "eth0"}, "linklocal-zone", false, true}
			case 11:
				return c44Client{c44Addr{[]string{"", "garbage", "[bad:53", "127.0.0.1.evil.example:53", ":53", "1.2.3.4:"}[rng.IntN(6)]}, "malformed", false, true}
			case 12:
				return c44Client{c44Addr{[]string{"[::1%lo]:53", "[fd77::1%eth0]:53", "127.0.0.1", "localhost:53", "[::ffff:10.77.0.1]:53"}[rng.IntN(5)]}, "unjudged-shape", false, false}
			case 13:
				return c44Client{udpA("10.77.0.1"), "own4", true, true}
			default:
				return c44Client{udpA("127.0.0.1"), "loopback4", true, true}
			}
		}

		knownLabels := func() (c44Labels, bool) {
			var done []*c44Peer
			for _, p := range peers {
				if p.done {
					done = append(done, p)
				}
			}
			if len(done) == 0 || rng.IntN(6) == 0 {
				return c44CertNameLabels(pki.getCertState().GetDefaultCertificate().Name()), true
			}
			return c44CertNameLabels(done[rng.IntN(len(done))].name), true
		}

		genQuestion := func() c44Q {
			qt := []uint16{dns.TypeA, dns.TypeA, dns.TypeA, dns.TypeAAAA, dns.TypeAAAA, dns.TypeAAAA, dns.TypeTXT, dns.TypeTXT,
				dns.TypeMX, dns.TypeANY, dns.TypeCNAME, dns.TypeHTTPS, dns.TypeSRV, dns.TypeNS, dns.TypeSOA, dns.TypePTR}[rng.IntN(16)]
			var lab c44Labels
			addrForm := qt == dns.TypeTXT && rng.IntN(10) < 8 || qt != dns.TypeTXT && rng.IntN(25) == 0
			if addrForm {
				var a string
				switch rng.IntN(6) {
				case 0, 1, 2:
					if len(peers) > 0 {
						p := peers[rng.IntN(len(peers))]
						a = p.addrs[rng.IntN(len(p.addrs))].String()
					} else {
						a = "10.77.1.2"
					}
				case 3:
					a = []string{"10.77.0.1", "fd77::1"}[rng.IntN(2)]
				case 4:
					a = []string{"10.77.9.9", "fd77::999", "127.0.0.1", "0.0.0.0"}[rng.IntN(4)]
				default:
					a = []string{"10.77.1", "10.77.1.2.3", "fd77::1%eth0", "::ffff:10.77.0.1", "10.77.1.02"}[rng.IntN(5)]
				}
				if strings.Contains(a, ":") {
					lab = c44Labels{a}
				} else {
					lab = c44Labels(strings.Split(a, "."))
				}
				return c44Q{lab, qt}
			}
			switch x := rng.IntN(20); {
			case x < 11: // a known name, in some case variant
				lab, _ = knownLabels()
				lab = c44FlipCase(rng, lab, rng.IntN(4))
			case x < 14: // near miss of a known name
				lab, _ = knownLabels()
				lab = append(c44Labels(nil), lab...)
				switch rng.IntN(5) {
				case 0:
					lab = append(c44Labels{"sub"}, lab...)
				case 1:
					if len(lab) > 1 {
						lab = lab[1:]
					} else {
						lab = append(lab, "lan")
					}
				case 2:
					if len(lab) > 0 {
						lab[0] += "0"
					}
				case 3:
					if len(lab) > 0 && len(lab[0]) > 1 {
						lab[0] = lab[0][:len(lab[0])-1]
					}
				case 4:
					lab = append(lab, "")
				}
			case x < 17: // a certificate that exists but never completed a handshake, or any pool name
				var pending []*c44Peer
				for _, p := range peers {
					if !p.done {
						pending = append(pending, p)
					}
				}
				if len(pending) > 0 && rng.IntN(2) == 0 {
					lab = c44CertNameLabels(pending[rng.IntN(len(pending))].name)
				} else if rng.IntN(3) == 0 {
					lab = c44CertNameLabels(c44ExoticNames[rng.IntN(len(c44ExoticNames))])
				} else {
					lab = c44CertNameLabels(c44PlainNames[rng.IntN(len(c44PlainNames))])
				}
				lab = c44FlipCase(rng, lab, rng.IntN(4))
			default:
				lab = c44CertNameLabels([]string{"nosuchhost", "unknown.example.org", "", "_dns.resolver.arpa", "wpad", "local", "1.0.77.10.in-addr.arpa"}[rng.IntN(7)])
			}
			return c44Q{lab, qt}
		}

		for op := 0; op < ops; op++ {
			x := rng.IntN(100)
			switch {
			case x < 22 || op < 3: // ---- a handshake completes
				var p *c44Peer
				if len(peers) > 0 && rng.IntN(4) == 0 {
					p = peers[rng.IntN(len(peers))] // an existing certificate handshakes (again)
				} else {
					p = m.newPeer(rng, len(peers))
					peers = append(peers, p)
					if rng.IntN(6) == 0 {
						note("certificate %q %v generated, no handshake", p.name, p.nets)
						continue
					}
				}
				selfClash := false
				for _, a := range p.addrs {
					if model.ownAddr[a] {
						selfClash = true // the handshake code refuses its own addresses before completing
					}
				}
				if selfClash {
					continue
				}
				nextIdx++
				hsTime++
				hi := &HostInfo{
					ConnectionState:   &ConnectionState{peerCert: p.cached, myCert: pki.getCertState().GetDefaultCertificate(), initiator: rng.IntN(2) == 0},
					localIndexId:      nextIdx,
					remoteIndexId:     nextIdx + 500000,
					vpnAddrs:          append([]netip.Addr(nil), p.addrs...),
					HandshakePacket:   map[uint8][]byte{0: []byte(fmt.Sprintf("hs-%d-%d", h, nextIdx))},
					lastHandshakeTime: hsTime,
					relayState:        RelayState{relayForByAddr: map[netip.Addr]*Relay{}, relayForByIdx: map[uint32]*Relay{}},
				}
				// a quarter of the handshakes are ones the node must refuse: the drawn local index is already taken by a live
				// tunnel, or the handshake is older than the tunnel already held for that address, or it is a replay of the
				// very packet that made a live tunnel. A refused handshake is not a completed handshake.
				forcedPath := -1
				if len(live) > 0 && rng.IntN(3) == 0 {
					o := live[rng.IntN(len(live))]
					var same []*c44Peer // live tunnels filed under this certificate's first address
					for _, x := range live {
						if x.hi.vpnAddrs[0] == p.addrs[0] {
							same = append(same, x)
						}
					}
					switch k := rng.IntN(3); {
					case k == 1 && len(same) > 0:
						hi.lastHandshakeTime = 0
					case k == 2 && len(same) > 0:
						hi.HandshakePacket = map[uint8][]byte{0: same[rng.IntN(len(same))].hi.HandshakePacket[0]}
					default:
						hi.localIndexId = o.hi.localIndexId
					}
					forcedPath = 0
					r.Count("handshakes_built_to_be_refused", 1)
				}
				completed := false
				path := "responder"
				r.Pre("history %d ops %v + handshake %q", h, log, p.name)
				if r.Guard("C44/panic", func() any { return replay(nil) }, func() {
					if forcedPath == 0 || rng.IntN(2) == 0 {
						_, err := hsm.CheckAndComplete(hi, 0, ifce)
						completed = err == nil
					} else {
						path = "initiator"
						hsm.Complete(hi, ifce)
						completed = true
					}
				}) {
					break
				}
				note("handshake %s name=%q nets=%v completed=%v dns_enabled=%v", path, p.name, p.nets, completed, enabled)
				if completed {
					r.Count("handshakes_completed", 1)
					p.hi = hi
					live = append(live, p)
					for _, a := range p.addrs {
						model.certsAt[a] = append(model.certsAt[a], p.fp)
					}
					if enabled {
						p.done = true
						model.add(p.name, p.addrs, false)
					}
				} else {
					r.Count("handshakes_not_completed", 1)
				}
				continue
			case x < 26 && len(live) > 0: // ---- a tunnel goes away (DNS data is kept; the statement only limits where data comes from)
				i := rng.IntN(len(live))
				hostMap.DeleteHostInfo(live[i].hi)
				note("delete hostinfo of %q", live[i].name)
				live = append(live[:i], live[i+1:]...)
				r.Count("hostinfo_deleted", 1)
				continue
			case x < 28: // ---- own certificate renamed through a real PKI reload, then the responder's self refresh
				ownName = c44OwnNames[rng.IntN(len(c44OwnNames))]
				if err := pkiConf.ReloadConfigString(m.pkiYAML(ownName, ownV6)); err != nil {
					t.Fatal(err)
				}
				old := model.ownKey
				ds.seedSelf()
				if enabled {
					// the node's former name is no longer one of its names; names of handshaked peers stay known
					if k := c44CertNameLabels(pki.getCertState().GetDefaultCertificate().Name()).key(); k != old {
						ownerIsPeer := false
						for _, p := range peers {
							if p.done && c44CertNameLabels(p.name).key() == old {
								ownerIsPeer = true
							}
						}
						if !ownerIsPeer {
							delete(model.names, old)
						} else {
							for a := range model.ownAddr {
								delete(model.names[old].v4, a)
								delete(model.names[old].v6, a)
							}
							// the peer's own addresses stay
							for _, p := range peers {
								if p.done && c44CertNameLabels(p.name).key() == old {
									model.add(p.name, p.addrs, false)
								}
							}
						}
					}
					setOwn()
				}
				note("own certificate renamed to %q", ownName)
				r.Count("own_renames", 1)
				continue
			case x < 30 && h%8 == 0: // ---- serve_dns toggled by a real reload (only in some histories: enabling binds a UDP socket)
				if enabled {
					if err := dnsConf.ReloadConfigString(dnsOff); err != nil {
						t.Fatal(err)
					}
					enabled = false
					model.reset()
					for _, p := range peers {
						p.done = false
					}
					note("serve_dns off")
				} else {
					if err := dnsConf.ReloadConfigString(dnsOn); err != nil {
						t.Fatal(err)
					}
					enabled = true
					setOwn()
					note("serve_dns on")
				}
				r.Count("dns_toggles", 1)
				continue
			}
			if !enabled {
				continue // the responder is not serving; nothing to observe
			}

			// ---- a query
			nq := 1
			if rng.IntN(7) == 0 {
				nq = 2 + rng.IntN(2)
			}
			qs := make([]c44Q, nq)
			req := new(dns.Msg)
			req.Id = uint16(rng.IntN(65536))
			req.RecursionDesired = rng.IntN(2) == 0
			for i := range qs {
				qs[i] = genQuestion()
				req.Question = append(req.Question, dns.Question{Name: qs[i].labels.presentation(), Qtype: qs[i].qtype, Qclass: dns.ClassINET})
			}
			cl := clients()
			wire, perr := req.Pack()
			if perr != nil {
				r.Count("unpackable_query_skipped", 1)
				continue
			}
			onWire := new(dns.Msg)
			if err := onWire.Unpack(wire); err != nil {
				r.Count("unpackable_query_skipped", 1)
				continue
			}
			desc := fmt.Sprintf("query from %s(%q):", cl.class, cl.addr.String())
			for _, q := range onWire.Question {
				desc += fmt.Sprintf(" %s %q;", dns.TypeToString[q.Qtype], q.Name)
			}
			note("%s", desc)
			r.Pre("history %d ops %v", h, log)
			w := &c44Writer{remote: cl.addr}
			if r.Guard("C44/panic", func() any { return replay(nil) }, func() { ds.handleDnsRequest(w, onWire) }) {
				break
			}
			r.Eval(1)
			resp := w.msg
			rp := func() any {
				s := "<none>"
				if resp != nil {
					s = resp.String()
				}
				return replay(map[string]any{"query": desc, "response": s})
			}
			if resp == nil || w.writes != 1 {
				r.Violation("C44/no-single-response", fmt.Sprintf("%d responses written", w.writes), rp())
				continue
			}

			// what the model knows about every question
			type qinfo struct {
				key     string
				known   bool
				rec     *c44Rec
				plain   bool
				qtype   uint16
				hasType bool
				cls     string
			}
			// The reply says which questions it speaks about (its question section). miekg's SetReply echoes only the
			// first question, so a multi-question query is answered for its first question alone; the verdict of the
			// reply (NXDOMAIN / NODATA / answers) is judged against the questions it echoes, which must be a prefix
			// of what was asked.
			judgedQ := resp.Question
			if len(judgedQ) > len(onWire.Question) {
				r.Violation("C44/reply-invents-question", "reply carries more questions than the query", rp())
				continue
			}
			okPrefix := true
			for i := range judgedQ {
				if judgedQ[i] != onWire.Question[i] {
					okPrefix = false
				}
			}
			if !okPrefix || len(judgedQ) == 0 {
				r.Violation("C44/reply-question-mismatch", "reply's question section is not a prefix of the query's", rp())
				continue
			}
			if d := len(onWire.Question) - len(judgedQ); d > 0 {
				r.Count("questions_not_echoed_nor_answered", d)
			}
			qi := make([]qinfo, len(judgedQ))
			refusedTXT := false
			for i, q := range judgedQ {
				lab, ok := c44ParsePresentation(q.Name)
				if !ok {
					t.Fatalf("C44: cannot parse %q", q.Name)
				}
				k := lab.key()
				rec := model.names[k]
				qi[i] = qinfo{key: k, known: rec != nil, rec: rec, plain: lab.plain(), qtype: q.Qtype}
				// witness class of a "known name treated as unknown / unanswered" observation (input predicates)
				switch {
				case model.ownEver[k] && k != model.ownKey || model.ownEver[k] && model.sharedWithPeer(k):
					qi[i].cls = "-name-shared-by-node-and-peer"
				case !lab.plain():
					qi[i].cls = "-name-needing-escape"
				}
				if rec != nil {
					qi[i].hasType = q.Qtype == dns.TypeA && len(rec.v4) > 0 || q.Qtype == dns.TypeAAAA && len(rec.v6) > 0
				}
				if q.Qtype == dns.TypeTXT && !cl.privileged {
					refusedTXT = true
				}
			}

			if resp.Rcode != dns.RcodeSuccess && resp.Rcode != dns.RcodeNameError {
				r.Violation("C44/unexpected-rcode", fmt.Sprintf("rcode %d", resp.Rcode), rp())
			}
			if len(resp.Ns) != 0 || len(resp.Extra) != 0 {
				r.Violation("C44/unexpected-section", "authority/additional section not empty", rp())
			}
			if !resp.Response || resp.Id != onWire.Id {
				r.Violation("C44/not-a-reply", "response bit or id wrong", rp())
			}

			answered := make([]bool, len(qi))
			txtAnswers := 0
			for _, rr := range resp.Answer {
				hd := rr.Header()
				lab, ok := c44ParsePresentation(hd.Name)
				match := -1
				if ok {
					for i := range qi {
						if qi[i].key == lab.key() && qi[i].qtype == hd.Rrtype {
							match = i
						}
					}
				}
				if match < 0 {
					r.Violation("C44/answer-for-no-question", fmt.Sprintf("answer %q %s matches no question", hd.Name, dns.TypeToString[hd.Rrtype]), rp())
					continue
				}
				answered[match] = true
				q := qi[match]
				switch v := rr.(type) {
				case *dns.A, *dns.AAAA:
					var a netip.Addr
					if x, ok := v.(*dns.A); ok {
						a, _ = netip.AddrFromSlice(x.A.To4())
					} else {
						a, _ = netip.AddrFromSlice(v.(*dns.AAAA).AAAA)
					}
					a = a.Unmap()
					if hd.Rrtype == dns.TypeAAAA && a.Is4() {
						a = netip.AddrFrom16(a.As16())
					}
					cls := q.cls
					if fo := model.foldedOwner(lab, a); fo != "" && (!q.known || !(q.rec.v4[a] || q.rec.v6[a])) {
						r.Violation("C44/unicode-case-folding-merges-names", fmt.Sprintf("%q answered with %v, an address of the certificate named %q (% x): the two names differ by more than ASCII case", hd.Name, a, fo, fo), rp())
					} else if !q.known {
						if !q.plain {
							cls = "-name-needing-escape"
						}
						r.Violation("C44/address-answer-for-unknown-name"+cls, fmt.Sprintf("%q answered with %v but no completed handshake (nor the node) carries that name", hd.Name, a), rp())
					} else if !(q.rec.v4[a] || q.rec.v6[a]) {
						r.Violation("C44/address-not-from-certificate"+cls, fmt.Sprintf("%q answered with %v which is in no certificate of that name", hd.Name, a), rp())
					} else {
						r.Count("address_answers_ok", 1)
					}
				case *dns.TXT:
					txtAnswers++
					if cl.judged && !cl.privileged {
						r.Violation("C44/certificate-details-to-unprivileged-client", fmt.Sprintf("TXT answered to %s %q", cl.class, cl.addr.String()), rp())
					} else if cl.judged {
						r.Count("txt_answers_to_privileged", 1)
					} else {
						r.Count("txt_answers_unjudged_client_shape:"+cl.addr.String(), 1)
					}
					txt := strings.Join(v.Txt, "")
					okFP := false
					if len(lab) > 0 {
						var as string
						if len(lab) == 1 {
							as = lab[0]
						} else {
							as = strings.Join(lab, ".")
						}
						if a, err := netip.ParseAddr(as); err == nil {
							a = a.Unmap()
							if model.ownAddr[a] && strings.Contains(txt, model.ownFP) {
								okFP = true
							}
							for _, fp := range model.certsAt[a] {
								if strings.Contains(txt, fp) {
									okFP = true
								}
							}
						}
					}
					if !okFP {
						r.Violation("C44/certificate-details-of-wrong-certificate", fmt.Sprintf("TXT for %q does not carry a certificate registered for that address", hd.Name), rp())
					}
				default:
					r.Violation("C44/unexpected-answer-type", fmt.Sprintf("answer type %d", hd.Rrtype), rp())
				}
			}

			if resp.Rcode == dns.RcodeNameError {
				if len(resp.Answer) > 0 {
					r.Violation("C44/nxdomain-with-answer", "NXDOMAIN together with answers", rp())
				}
				for i, q := range qi {
					if q.known {
						key := "C44/nxdomain-for-known-name" // A / AAAA question, plain name: the core of the property
						switch {
						case q.cls != "":
							key = "C44/known" + q.cls + "-treated-as-unknown"
						case q.qtype != dns.TypeA && q.qtype != dns.TypeAAAA:
							key = "C44/nxdomain-for-known-name-non-address-qtype"
						}
						classed(key, q.cls != "" && q.qtype != dns.TypeA && q.qtype != dns.TypeAAAA,
							fmt.Sprintf("NXDOMAIN for %s %q although that is the name of a handshaked certificate (or the node's own)", dns.TypeToString[q.qtype], judgedQ[i].Name), rp)
					}
				}
				r.Count("nxdomain", 1)
			}
			for i, q := range qi {
				if !(q.qtype == dns.TypeA || q.qtype == dns.TypeAAAA) {
					continue
				}
				switch {
				case q.known && !q.hasType:
					r.Count("nodata_cases", 1)
					if resp.Rcode != dns.RcodeSuccess && len(qi) == 1 {
						// (also reported above as nxdomain-for-known-name)
						r.Count("nodata_wrong_rcode", 1)
					}
				case q.known && q.hasType && !answered[i]:
					if refusedTXT {
						r.Count("address_question_unanswered_next_to_refused_txt", 1)
					} else {
						key := "C44/known-record-not-answered"
						if q.cls != "" {
							key = "C44/known" + q.cls + "-treated-as-unknown"
						}
						classed(key, false, fmt.Sprintf("%q %s is known with that record type but got no answer", judgedQ[i].Name, dns.TypeToString[q.qtype]), rp)
					}
				case q.known && q.hasType:
					r.Count("known_record_answered", 1)
				}
			}
			if txtAnswers == 0 {
				for i, q := range qi {
					if q.qtype == dns.TypeTXT && cl.privileged && cl.judged {
						if lab, _ := c44ParsePresentation(judgedQ[i].Name); len(lab) > 0 {
							if a, err := netip.ParseAddr(strings.Join(lab, ".")); err == nil && hostMap.QueryVpnAddr(a) != nil {
								r.Count("txt_unanswered_to_privileged_for_live_peer", 1)
							}
						}
					}
				}
			}

			// evidence signature
			var sig strings.Builder
			for _, q := range qi {
				fmt.Fprintf(&sig, "%s/known=%v/has=%v/plain=%v;", c44QtypeClass(q.qtype), q.known, q.hasType, q.plain)
			}
			fmt.Fprintf(&sig, " client=%s -> rcode=%d answers=%d txt=%d", cl.class, resp.Rcode, len(resp.Answer), txtAnswers)
			r.DistinctClass(sig.String())
			r.Distinct(desc + sig.String())
			if r.WantSample() && len(resp.Answer) > 0 {
				r.Sample(map[string]any{"query": desc, "response": resp.String()})
			}
			if r.NViolations() > 14 {
				cancel()
				ds.Stop()
				return
			}
		}
		cancel()
		ds.Stop()
	}
}
