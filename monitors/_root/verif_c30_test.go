package nebula

// C30 — tunnel teardown decisions follow the liveness policy.
//
// A connectionManager is built by hand the way the repository's own tests do (real HostMap,
// HandshakeManager, LightHouse shell, PKI with a real CA pool and real signed certificates, Punchy,
// config.C with reload callbacks), plus a recording udp.Conn and a stub AEAD so that the packets a
// check emits (CloseTunnel notification, Test probe) are observable. Nothing is started: every
// periodic check is driven explicitly with doTrafficCheck(index, now) or makeTrafficDecision(index,
// now) and an explicit simulated `now`.
//
// Model = the decision table of the property statement, evaluated on the harness' own record of
// what happened since the tunnel's previous check:
//
//	peer cert blocklisted                               -> closed (removed, peer notified)
//	peer cert not valid at now, disconnect_invalid on   -> closed
//	message counter exhausted (>= RejectAfterMessages)  -> dropped (removed, no notification)
//	inbound traffic since the last check                -> kept; primary: re-handshake started iff the local
//	                                                      certificate changed or the counter passed the rekey threshold
//	no inbound since a probe was sent / grace started   -> dropped
//	primary, nothing in or out                          -> closed iff drop_inactive and idle >= inactivity_timeout, else kept (no probe)
//	primary, outbound only                              -> kept, Test probe sent, now pending
//	non-primary, no inbound                             -> kept, now pending (the statement is silent on this cell; no probe is demanded)
//
// Separate safety oracle: a tunnel for which inbound traffic was delivered since its last check and whose
// certificate/counter do not condemn it is still in the hostmap after the check.

import (
	"crypto/ed25519"
	"errors"
	"fmt"
	"log/slog"
	"math"
	"math/rand/v2"
	"net/netip"
	"testing"
	"time"

	"github.com/slackhq/nebula/cert"
	"github.com/slackhq/nebula/config"
	"github.com/slackhq/nebula/header"
	"github.com/slackhq/nebula/noiseutil"
	"github.com/slackhq/nebula/udp"
	"github.com/slackhq/nebula/verifkit"
)

type c30Conn struct {
	udp.NoopConn
	pkts []header.H
}

func (c *c30Conn) WriteTo(b []byte, _ netip.AddrPort) error {
	var h header.H
	if h.Parse(b) == nil {
		c.pkts = append(c.pkts, h)
	}
	return nil
}

// c30Cipher stands in for the data-plane AEAD: same refusal at the nonce ceiling, no real encryption.
type c30Cipher struct{}

func (c30Cipher) EncryptDanger(out, ad, plaintext []byte, n uint64, nb []byte) ([]byte, error) {
	if n >= noiseutil.RejectAfterMessages {
		return nil, noiseutil.ErrMessageCounterExhausted
	}
	out = append(out, plaintext...)
	return append(out, make([]byte, 16)...), nil
}
func (c30Cipher) DecryptDanger(out, ad, ciphertext []byte, n uint64, nb []byte) ([]byte, error) {
	return out, nil
}
func (c30Cipher) Overhead() int { return 16 }

type c30Tunnel struct {
	h         *HostInfo
	name      string
	peer      int
	fp        string
	notBefore time.Time
	notAfter  time.Time
	myCert    int // which of my certificates the tunnel was established with

	live    bool
	pending bool // a probe was sent (or the grace period started) at the previous check and nothing came in since
	inFlag  bool // inbound traffic delivered since the last check
	outFlag bool // outbound traffic since the last check
	used    bool
	last    time.Time // time of the last check that saw traffic
}

type c30Env struct {
	r      *verifkit.Reporter
	rng    *rand.Rand
	l      *slog.Logger
	hm     *HostMap
	cm     *connectionManager
	f      *Interface
	conf   *config.C
	lh     *LightHouse
	conn   *c30Conn
	caCert cert.Certificate
	caKey  ed25519.PrivateKey
	caEnd  time.Time
	keyRd  *rand.ChaCha8

	poolHasCA bool
	blocked   map[string]bool
	myCerts   []cert.Certificate
	curMy     int // -1: my certificate was removed from the cert state

	disconnectInvalid bool
	dropInactive      bool
	timeout           time.Duration

	now      time.Time
	wheelNow time.Time
	tunnels  []*c30Tunnel
	peers    []netip.Addr
	nextIdx  uint32
	ops      []string
	hist     int
	stop     bool
}

func (e *c30Env) logf(format string, a ...any) {
	e.ops = append(e.ops, fmt.Sprintf("t=%s ", e.now.Sub(c30Base).String())+fmt.Sprintf(format, a...))
}

func (e *c30Env) replay(extra map[string]any) any {
	rec := map[string]any{"history": e.hist, "ops": append([]string(nil), e.ops...),
		"config": fmt.Sprintf("disconnect_invalid=%v drop_inactive=%v inactivity_timeout=%s", e.disconnectInvalid, e.dropInactive, e.timeout),
		"note":   "t = simulated time since the start of the history; replay by re-running the history with this seed"}
	for k, v := range extra {
		rec[k] = v
	}
	return rec
}

func (e *c30Env) bad(key, what string, extra map[string]any) {
	e.r.Violation(key, what, e.replay(extra))
	e.stop = true
}

var c30Base = time.Date(2030, 1, 1, 0, 0, 0, 0, time.UTC)

func (e *c30Env) sign(name string, networks []netip.Prefix, notBefore, notAfter time.Time) cert.Certificate {
	return e.signV(cert.Version1, name, networks, notBefore, notAfter)
}

func (e *c30Env) signV(v cert.Version, name string, networks []netip.Prefix, notBefore, notAfter time.Time) cert.Certificate {
	pub := make([]byte, 32)
	e.keyRd.Read(pub)
	tbs := &cert.TBSCertificate{Version: v, Name: name, Networks: networks, NotBefore: notBefore, NotAfter: notAfter, PublicKey: pub}
	c, err := tbs.Sign(e.caCert, cert.Curve_CURVE25519, e.caKey)
	if err != nil {
		panic(err)
	}
	return c
}

func (e *c30Env) newPool(hasCA bool, blocked map[string]bool) {
	p := cert.NewCAPool()
	if hasCA {
		// AddCA compares the CA's validity with the wall clock after adding it; that verdict is not used here
		if err := p.AddCA(e.caCert); err != nil && !errors.Is(err, cert.ErrExpired) {
			panic(err)
		}
	}
	for fp := range blocked {
		p.BlocklistFingerprint(fp)
	}
	e.f.pki.caPool.Store(p)
	e.poolHasCA = hasCA
	e.blocked = blocked
}

func (e *c30Env) setCertState(which int) {
	cs := &CertState{initiatingVersion: cert.Version1, privateKey: []byte{}}
	if which >= 0 {
		cs.v1Cert = e.myCerts[which]
	}
	e.f.pki.cs.Store(cs)
	e.curMy = which
}

func (e *c30Env) reloadTunnelsConfig() {
	raw := fmt.Sprintf("tunnels:\n  drop_inactive: %v\n  inactivity_timeout: %s\n", e.dropInactive, e.timeout)
	if err := e.conf.ReloadConfigString(raw); err != nil {
		panic(err)
	}
}

func newC30Env(r *verifkit.Reporter, rng *rand.Rand, hist int) *c30Env {
	l := slog.New(slog.DiscardHandler)
	e := &c30Env{r: r, rng: rng, l: l, hist: hist, now: c30Base, wheelNow: c30Base, nextIdx: 100}
	var seed [32]byte
	for i := range seed {
		seed[i] = byte(rng.Uint32())
	}
	e.keyRd = rand.NewChaCha8(seed)
	pub, priv, err := ed25519.GenerateKey(e.keyRd)
	if err != nil {
		panic(err)
	}
	e.caKey = priv
	e.caEnd = c30Base.Add(36 * time.Hour)
	caTbs := &cert.TBSCertificate{Version: cert.Version1, Name: "ca", IsCA: true, NotBefore: time.Date(2000, 1, 1, 0, 0, 0, 0, time.UTC), NotAfter: e.caEnd, PublicKey: pub}
	e.caCert, err = caTbs.Sign(nil, cert.Curve_CURVE25519, priv)
	if err != nil {
		panic(err)
	}

	e.disconnectInvalid = rng.IntN(2) == 0
	e.dropInactive = rng.IntN(2) == 0
	e.timeout = []time.Duration{20 * time.Second, 90 * time.Second, 10 * time.Minute}[rng.IntN(3)]

	e.hm = newHostMap(l)
	pr := []netip.Prefix{netip.MustParsePrefix("10.1.1.0/24")}
	e.hm.preferredRanges.Store(&pr)
	e.lh = &LightHouse{l: l, addrMap: map[netip.Addr]*RemoteList{}, queryChan: make(chan netip.Addr, 256)}
	lighthouses := []netip.Addr{}
	staticList := map[netip.Addr]struct{}{}
	e.lh.localAddrsFn = func(*LocalAllowList) []netip.Addr { return nil }
	e.lh.lighthouses.Store(&lighthouses)
	e.lh.staticList.Store(&staticList)
	e.conn = &c30Conn{}
	myAddr := netip.MustParseAddr("172.1.1.1")
	if rng.IntN(3) == 0 {
		myAddr = netip.MustParseAddr("172.1.1.200") // above the peers: the other side of the swap-primary tie-break
	}
	e.f = &Interface{
		hostMap:          e.hm,
		outside:          e.conn,
		firewall:         &Firewall{},
		lightHouse:       e.lh,
		pki:              &PKI{l: l},
		myVpnAddrs:       []netip.Addr{myAddr},
		handshakeManager: NewHandshakeManager(l, e.hm, e.lh, e.conn, defaultHandshakeConfig),
		writers:          []udp.Conn{e.conn},
		l:                l,
	}
	e.f.disconnectInvalid.Store(e.disconnectInvalid)
	e.newPool(true, map[string]bool{})
	e.myCerts = []cert.Certificate{
		e.sign("me", []netip.Prefix{netip.PrefixFrom(myAddr, 24)}, c30Base.Add(-time.Hour), e.caEnd.Add(-time.Hour)),
		e.sign("me", []netip.Prefix{netip.PrefixFrom(myAddr, 24)}, c30Base.Add(-time.Hour), e.caEnd),
	}
	e.setCertState(0)

	e.conf = config.NewC(l)
	if err := e.conf.LoadString(fmt.Sprintf("tunnels:\n  drop_inactive: %v\n  inactivity_timeout: %s\n", e.dropInactive, e.timeout)); err != nil {
		panic(err)
	}
	punchy := NewPunchyFromConfig(l, e.conf, e.conn)
	e.cm = newConnectionManagerFromConfig(l, e.conf, e.hm, punchy)
	e.cm.intf = e.f
	e.f.connectionManager = e.cm
	if e.cm.dropInactive.Load() != e.dropInactive || e.cm.getInactivityTimeout() != e.timeout {
		panic("config not applied")
	}
	n := 1 + rng.IntN(3)
	for i := 0; i < n; i++ {
		e.peers = append(e.peers, netip.AddrFrom4([4]byte{172, 1, 1, byte(2 + 40*i)}))
	}
	return e
}

func (e *c30Env) addTunnel(peer int) *c30Tunnel {
	// certificate lifetimes: most outlive the history, some run out during it
	life := []time.Duration{100 * time.Hour, 100 * time.Hour, 40 * time.Second, 3 * time.Minute, 15 * time.Minute, 2 * time.Hour}[e.rng.IntN(6)]
	nb := e.now.Add(-time.Minute)
	na := e.now.Add(life)
	if na.After(e.caEnd) {
		na = e.caEnd // a certificate cannot outlive its CA
	}
	if !na.After(e.now) {
		return nil // the CA has run out: no new handshake could complete any more
	}
	// a third of the peers present a v2 certificate to this v1-only node (a network in the middle of a migration): the
	// policy is the same, there is no matching local certificate version to "correct" the tunnel to
	pv := cert.Version1
	if e.rng.IntN(3) == 0 {
		pv = cert.Version2
		e.r.Count("tunnels_with_v2_peer_certificate", 1)
	}
	crt := e.signV(pv, fmt.Sprintf("peer%d", peer), []netip.Prefix{netip.PrefixFrom(e.peers[peer], 24)}, nb, na)
	fp, _ := crt.Fingerprint()
	// a CachedCertificate the way a completed handshake leaves it (verified against a pool that has the CA)
	vp := cert.NewCAPool()
	vp.AddCA(e.caCert)
	cc, err := vp.VerifyCertificate(e.now, crt)
	if err != nil {
		// the CA itself has run out: no new handshake could complete any more
		return nil
	}
	e.nextIdx++
	t := &c30Tunnel{name: fmt.Sprintf("T%d", len(e.tunnels)), peer: peer, fp: fp, notBefore: nb, notAfter: na, myCert: max(e.curMy, 0), live: true, outFlag: true}
	remote := netip.AddrPortFrom(netip.AddrFrom4([4]byte{10, 1, 1, byte(10 + peer)}), 4242)
	t.h = &HostInfo{
		vpnAddrs:      []netip.Addr{e.peers[peer]},
		localIndexId:  e.nextIdx,
		remoteIndexId: 50000 + e.nextIdx,
		ConnectionState: &ConnectionState{
			eKey: c30Cipher{}, dKey: c30Cipher{}, myCert: e.myCerts[t.myCert], peerCert: cc, window: NewBits(ReplayWindow),
		},
		HandshakePacket: map[uint8][]byte{},
		relayState:      RelayState{relayForByAddr: map[netip.Addr]*Relay{}, relayForByIdx: map[uint32]*Relay{}},
	}
	t.h.remote.Store(&remote)
	e.hm.Lock()
	e.hm.unlockedAddHostInfo(t.h, e.f) // marks outbound, becomes primary for the peer
	e.hm.Unlock()
	e.tunnels = append(e.tunnels, t)
	// the hostmap keeps at most five tunnels per address and retires the oldest (C28's business): follow it
	for _, o := range e.tunnels {
		if o.live && e.hm.Indexes[o.h.localIndexId] != o.h {
			o.live = false
			e.logf("%s retired by the hostmap (more than %d tunnels to peer%d)", o.name, MaxHostInfosPerVpnIp, o.peer)
		}
	}
	e.logf("%s = new tunnel to peer%d (index %d), peer cert valid until t=%s, established with my cert #%d", t.name, peer, t.h.localIndexId, na.Sub(c30Base), t.myCert)
	return t
}

// flushTimer empties the traffic timer and returns how often each index was scheduled.
func (e *c30Env) flushTimer() map[uint32]int {
	e.wheelNow = e.wheelNow.Add(time.Hour)
	e.cm.trafficTimer.Advance(e.wheelNow)
	got := map[uint32]int{}
	for {
		idx, ok := e.cm.trafficTimer.Purge()
		if !ok {
			return got
		}
		got[idx]++
	}
}

type c30Outcome struct {
	kind, reason string
}

const (
	c30Closed  = "closed"
	c30Dropped = "dropped"
	c30Alive   = "alive"
	c30Probe   = "probe"
	c30Idle    = "idle-kept"
	c30Grace   = "nonprimary-grace"
	c30Unknown = "unknown-index"
)

// expect evaluates the statement's decision table.
func (e *c30Env) expect(t *c30Tunnel, primary bool, counter uint64) c30Outcome {
	if !t.live {
		return c30Outcome{c30Unknown, ""}
	}
	if e.blocked[t.fp] {
		return c30Outcome{c30Closed, "blocklisted"}
	}
	valid := e.poolHasCA && !e.now.After(e.caEnd) && !e.now.Before(t.notBefore) && !e.now.After(t.notAfter)
	if !valid && e.disconnectInvalid {
		return c30Outcome{c30Closed, "invalid-cert"}
	}
	if counter >= RejectAfterMessages {
		return c30Outcome{c30Dropped, "counter-exhausted"}
	}
	if t.inFlag {
		return c30Outcome{c30Alive, ""}
	}
	if t.pending {
		return c30Outcome{c30Dropped, "no-reply"}
	}
	if !primary {
		return c30Outcome{c30Grace, ""}
	}
	if t.outFlag {
		return c30Outcome{c30Probe, ""}
	}
	last := t.last
	if e.dropInactive && e.now.Sub(last) >= e.timeout {
		return c30Outcome{c30Closed, "inactive"}
	}
	return c30Outcome{c30Idle, ""}
}

func c30CounterClass(c uint64) string {
	switch {
	case c >= RejectAfterMessages:
		return ">=ceiling"
	case c == RejectAfterMessages-1:
		return "ceiling-1"
	case c > RehandshakeAfterMessages:
		return ">rekey"
	case c == RehandshakeAfterMessages:
		return "=rekey"
	case c+2 >= RehandshakeAfterMessages:
		return "rekey-2..-1"
	}
	return "low"
}

// check drives one periodic check of tunnel t and judges everything observable.
func (e *c30Env) check(t *c30Tunnel, decisionMode bool) {
	r := e.r
	h := t.h
	idx := h.localIndexId
	e.flushTimer()
	e.conn.pkts = e.conn.pkts[:0]
	primary := e.hm.Hosts[h.vpnAddrs[0]] == h
	counter := h.ConnectionState.messageCounter.Load()
	if t.live && (t.inFlag || t.outFlag) {
		t.last, t.used = e.now, true
	}
	want := e.expect(t, primary, counter)
	certChanged := e.curMy < 0 || e.curMy != t.myCert
	condemned := e.blocked[t.fp] || want.reason == "invalid-cert" || counter >= RejectAfterMessages
	idle := "n/a"
	if t.used {
		switch d := e.now.Sub(t.last); {
		case d < e.timeout:
			idle = "<timeout"
		case d == e.timeout:
			idle = "=timeout"
		default:
			idle = ">timeout"
		}
	}
	sig := fmt.Sprintf("want=%s/%s primary=%v in=%v out=%v pending=%v di=%v drop_inactive=%v idle=%s counter=%s cert_changed=%v mode=%v",
		want.kind, want.reason, primary, t.inFlag, t.outFlag, t.pending, e.disconnectInvalid, e.dropInactive, idle, c30CounterClass(counter), certChanged, decisionMode)
	e.logf("check %s (index %d) primary=%v in=%v out=%v pending=%v counter=%d -> model expects %s %s", t.name, idx, primary, t.inFlag, t.outFlag, t.pending, counter, want.kind, want.reason)
	r.Pre("C30 history %d check %s", e.hist, sig)

	p, nb, out := []byte(""), make([]byte, 12), make([]byte, mtu)
	var decision trafficDecision = -1
	if decisionMode {
		d, hi, prim := e.cm.makeTrafficDecision(idx, e.now)
		decision = d
		// carry the decision out with the same real methods doTrafficCheck uses
		switch d {
		case deleteTunnel:
			if e.hm.DeleteHostInfo(hi) {
				e.lh.DeleteVpnAddrs(hi.vpnAddrs)
			}
		case closeTunnel:
			e.f.sendCloseTunnel(hi)
			e.f.closeTunnel(hi)
		case swapPrimary:
			e.cm.swapPrimary(hi, prim)
		case migrateRelays:
			e.cm.migrateRelayUsed(hi, prim)
		case tryRehandshake:
			e.cm.tryRehandshake(hi)
		case sendTestPacket:
			e.f.SendMessageToHostInfo(header.Test, header.TestRequest, hi, p, nb, out)
		}
		e.cm.resetRelayTrafficCheck(hi)
	} else {
		e.cm.doTrafficCheck(idx, p, nb, out, e.now)
	}
	r.Eval(1)

	// observations
	removed := e.hm.Indexes[idx] != h
	notified, probed := false, false
	for _, pk := range e.conn.pkts {
		if pk.RemoteIndex != h.remoteIndexId {
			e.bad("C30/packet-for-other-tunnel", fmt.Sprintf("check of %s emitted a %s packet for remote index %d", t.name, pk.TypeName(), pk.RemoteIndex), nil)
			return
		}
		switch pk.Type {
		case header.CloseTunnel:
			notified = true
		case header.Test:
			probed = true
		}
	}
	hsStarted := false
	if pend := e.f.handshakeManager.QueryVpnAddr(h.vpnAddrs[0]); pend != nil {
		hsStarted = true
		e.f.handshakeManager.DeleteHostInfo(pend)
	}
	for len(e.lh.queryChan) > 0 {
		<-e.lh.queryChan
	}
	rearmed := e.flushTimer()[idx]
	obs := "kept"
	switch {
	case !t.live:
		obs = "n/a"
	case removed && notified:
		obs = "closed"
	case removed:
		obs = "dropped"
	case probed:
		obs = "kept+probe"
	}
	e.logf("   observed: %s decision=%d handshake_started=%v rearmed=%d", obs, decision, hsStarted, rearmed)
	r.DistinctClass(fmt.Sprintf("want=%s/%s primary=%v observed=%s hs=%v", want.kind, want.reason, primary, obs, hsStarted))
	r.Distinct(sig)
	r.Count("want_"+want.kind, 1)
	if want.kind == c30Idle || want.reason == "inactive" {
		r.DistinctClass(fmt.Sprintf("idle-cell: want=%s/%s drop_inactive=%v idle=%s", want.kind, want.reason, e.dropInactive, idle))
	}
	if want.kind == c30Alive && primary {
		r.DistinctClass(fmt.Sprintf("rekey-cell: counter=%s cert_changed=%v handshake_started=%v", c30CounterClass(counter), certChanged, hsStarted))
	}
	if want.kind == c30Closed || want.kind == c30Dropped {
		r.DistinctClass(fmt.Sprintf("teardown-cell: want=%s/%s di=%v in=%v counter=%s observed=%s", want.kind, want.reason, e.disconnectInvalid, t.inFlag, c30CounterClass(counter), obs))
	}

	fail := func(key, what string) {
		e.bad(key, fmt.Sprintf("%s: %s [%s]", t.name, what, sig), map[string]any{"tunnel": t.name, "observed": obs, "decision": int(decision)})
	}
	canSend := counter < RejectAfterMessages-1

	// safety oracle, independent of the table
	if t.live && t.inFlag && !condemned && removed {
		fail("C30/removed-despite-inbound", "inbound traffic was delivered since the last check, certificate and counter are fine, yet the tunnel was removed")
		return
	}
	if !t.live {
		if len(e.conn.pkts) > 0 || hsStarted || (decisionMode && decision != doNothing) {
			fail("C30/unknown-index-acted-on", "a check for an index that is not in the hostmap had effects")
		}
		return
	}
	if !removed && notified {
		fail("C30/close-notified-but-kept", "a CloseTunnel was sent but the tunnel is still in the hostmap")
		return
	}
	wantDecision := map[string][]trafficDecision{
		c30Closed: {closeTunnel}, c30Dropped: {deleteTunnel}, c30Probe: {sendTestPacket}, c30Idle: {doNothing}, c30Grace: {doNothing},
	}[want.kind]
	if want.kind == c30Alive {
		if primary {
			wantDecision = []trafficDecision{tryRehandshake}
		} else {
			wantDecision = []trafficDecision{swapPrimary, migrateRelays}
		}
	}
	if decisionMode {
		ok := false
		for _, d := range wantDecision {
			ok = ok || d == decision
		}
		if !ok {
			fail(fmt.Sprintf("C30/decision-%s-%s", want.kind, want.reason), fmt.Sprintf("makeTrafficDecision returned %d, the table says %v", decision, wantDecision))
			return
		}
	}
	switch want.kind {
	case c30Closed:
		if !removed {
			fail("C30/not-closed-"+want.reason, "the tunnel must be closed ("+want.reason+") but is still in the hostmap")
			return
		}
		if canSend && !notified {
			fail("C30/closed-without-notification-"+want.reason, "the tunnel was removed without a CloseTunnel to the peer")
			return
		}
	case c30Dropped:
		if !removed {
			fail("C30/not-dropped-"+want.reason, "the tunnel must be dropped ("+want.reason+") but is still in the hostmap")
			return
		}
		if notified {
			fail("C30/dropped-with-notification-"+want.reason, "the tunnel was to be dropped locally but a CloseTunnel was sent")
			return
		}
	default:
		if removed {
			key := "C30/removed-" + want.kind
			if want.kind == c30Idle {
				key = "C30/idle-primary-closed-early"
			}
			fail(key, "the tunnel was removed although the table keeps it")
			return
		}
		if rearmed < 1 {
			fail("C30/check-not-rearmed", "the tunnel was kept but no further check was scheduled for it")
			return
		}
		switch want.kind {
		case c30Probe:
			if canSend && !probed {
				fail("C30/no-probe-sent", "outbound-only primary tunnel: no Test probe was sent")
				return
			}
		case c30Idle:
			if probed {
				fail("C30/idle-tunnel-probed", "an unused primary tunnel was probed")
				return
			}
		case c30Alive:
			if probed {
				fail("C30/alive-tunnel-probed", "a tunnel with inbound traffic was probed")
				return
			}
			if h.pendingDeletion.Load() {
				fail("C30/alive-still-pending", "inbound traffic arrived but the tunnel is still marked for deletion")
				return
			}
			if primary {
				must := certChanged || counter > RehandshakeAfterMessages
				mustNot := !certChanged && counter < RehandshakeAfterMessages
				if must && !hsStarted {
					fail("C30/no-rehandshake", fmt.Sprintf("local certificate changed=%v, counter=%d (rekey threshold %d): no re-handshake was started", certChanged, counter, RehandshakeAfterMessages))
					return
				}
				if mustNot && hsStarted {
					fail("C30/spurious-rehandshake", fmt.Sprintf("local certificate unchanged, counter=%d below the rekey threshold %d: a re-handshake was started", counter, RehandshakeAfterMessages))
					return
				}
				if must {
					r.Count("rehandshakes", 1)
				}
			}
		}
		if want.kind != c30Alive && hsStarted {
			fail("C30/rehandshake-without-inbound", "a re-handshake was started for a tunnel that is not known to be alive")
			return
		}
	}

	// model state after the check
	switch want.kind {
	case c30Closed, c30Dropped:
		t.live = false
	case c30Alive:
		t.pending = false
	case c30Probe, c30Grace:
		t.pending = true
	}
	t.inFlag = false
	t.outFlag = probed // our own probe is outbound traffic on the tunnel
}

func TestVerifC30Policy(t *testing.T) {
	r := verifkit.NewReporter(t, "C30", "policy",
		"PRNG histories on a hand-built connectionManager (real hostmap, pki with real signed certs and CA pool, handshake manager, config reload): per step one of {deliver inbound, send outbound, advance the clock (also to inactivity_timeout-1ns/=/+1ns after the last use and around certificate expiry), blocklist a peer cert, reload the CA pool with/without the CA, reload my certificate (same / new / removed), toggle disconnect_invalid (direct) and drop_inactive / inactivity_timeout (through config reload), set the message counter around the rekey threshold and the ceiling, add a newer tunnel to the same peer (old one becomes non-primary), check a tunnel via doTrafficCheck or makeTrafficDecision, check a removed index}; one evaluation per check; distinct = (expected table cell, primary, in, out, pending, toggles, idle class, counter class, cert changed, mode) vectors")
	defer r.Done()
	histories := verifkit.Scale(4000, 400000)
	for hi := 0; hi < histories; hi++ {
		if !verifkit.Mine(hi) {
			continue
		}
		rng := verifkit.SubRand("C30policy", hi)
		e := newC30Env(r, rng, hi)
		decisionMode := hi%2 == 1
		for p := range e.peers {
			e.addTunnel(p)
			if rng.IntN(3) == 0 {
				e.addTunnel(p)
			}
		}
		steps := 30 + rng.IntN(90)
		pick := func() *c30Tunnel { return e.tunnels[rng.IntN(len(e.tunnels))] }
		liveList := func() []*c30Tunnel {
			var l []*c30Tunnel
			for _, t := range e.tunnels {
				if t.live {
					l = append(l, t)
				}
			}
			return l
		}
		pickLive := func() *c30Tunnel {
			l := liveList()
			if len(l) == 0 {
				return nil
			}
			return l[rng.IntN(len(l))]
		}
		for s := 0; s < steps && !e.stop; s++ {
			x := rng.IntN(100)
			switch {
			case x < 30: // a periodic check
				t := pickLive()
				if t == nil || rng.IntN(12) == 0 {
					t = pick() // possibly an index that is no longer in the hostmap
				}
				e.check(t, decisionMode)
			case x < 42:
				if t := pickLive(); t != nil {
					e.cm.In(t.h)
					t.inFlag = true
					e.logf("inbound on %s", t.name)
				}
			case x < 52:
				if t := pickLive(); t != nil {
					e.cm.Out(t.h)
					t.outFlag = true
					e.logf("outbound on %s", t.name)
				}
			case x < 70: // clock
				var d time.Duration
				switch rng.IntN(8) {
				case 0:
					d = 0
				case 1:
					d = time.Second
				case 2:
					d = 5 * time.Second
				case 3:
					d = 10 * time.Second
				case 4:
					d = time.Duration(rng.Int64N(int64(2 * e.timeout)))
				case 5, 6: // land exactly around the inactivity boundary of some tunnel
					if t := pickLive(); t != nil && t.used {
						target := t.last.Add(e.timeout + time.Duration(rng.IntN(3)-1))
						if target.After(e.now) {
							d = target.Sub(e.now)
						}
					}
				default: // around a certificate's end of validity
					if t := pickLive(); t != nil {
						target := t.notAfter.Add(time.Duration(rng.IntN(3)-1) * time.Second)
						if target.After(e.now) && target.Sub(e.now) < 30*time.Minute {
							d = target.Sub(e.now)
						}
					}
					if d == 0 && rng.IntN(40) == 0 {
						d = 40 * time.Hour // beyond the CA's own validity
					}
				}
				e.now = e.now.Add(d)
				e.logf("clock +%s", d)
			case x < 74:
				if t := pickLive(); t != nil {
					pool := e.f.pki.GetCAPool()
					pool.BlocklistFingerprint(t.fp)
					e.blocked[t.fp] = true
					e.logf("blocklist cert of %s", t.name)
				}
			case x < 78: // CA pool reload
				hasCA := rng.IntN(4) != 0
				bl := map[string]bool{}
				for fp := range e.blocked {
					if rng.IntN(3) != 0 {
						bl[fp] = true
					}
				}
				e.newPool(hasCA, bl)
				e.logf("CA pool reloaded: has_ca=%v blocklist=%d", hasCA, len(bl))
			case x < 83: // my certificate
				which := []int{0, 1, 1, -1, 0}[rng.IntN(5)]
				e.setCertState(which)
				e.logf("my certificate reloaded: #%d", which)
			case x < 89: // toggles
				switch rng.IntN(3) {
				case 0:
					e.disconnectInvalid = !e.disconnectInvalid
					e.f.disconnectInvalid.Store(e.disconnectInvalid)
					e.logf("disconnect_invalid=%v", e.disconnectInvalid)
				case 1:
					e.dropInactive = !e.dropInactive
					e.reloadTunnelsConfig()
					e.logf("drop_inactive=%v", e.dropInactive)
				default:
					e.timeout = []time.Duration{20 * time.Second, 90 * time.Second, 10 * time.Minute, 7 * time.Second}[rng.IntN(4)]
					e.reloadTunnelsConfig()
					e.logf("inactivity_timeout=%s", e.timeout)
				}
				if e.cm.dropInactive.Load() != e.dropInactive || e.cm.getInactivityTimeout() != e.timeout {
					e.bad("C30/config-reload-not-applied", fmt.Sprintf("after reload: drop_inactive=%v inactivity_timeout=%s, configured %v %s", e.cm.dropInactive.Load(), e.cm.getInactivityTimeout(), e.dropInactive, e.timeout), nil)
				}
			case x < 95: // message counter
				if t := pickLive(); t != nil {
					v := []uint64{5, RehandshakeAfterMessages - 2, RehandshakeAfterMessages - 1, RehandshakeAfterMessages, RehandshakeAfterMessages + 1, RehandshakeAfterMessages + 1 + rng.Uint64N(1<<40),
						RejectAfterMessages - 2, RejectAfterMessages - 1, RejectAfterMessages, RejectAfterMessages + 1, math.MaxUint64, rng.Uint64N(RehandshakeAfterMessages)}[rng.IntN(12)]
					t.h.ConnectionState.messageCounter.Store(v)
					e.logf("counter of %s = %d", t.name, v)
				}
			default: // a newer tunnel to the same peer
				if len(liveList()) < 8 {
					e.addTunnel(rng.IntN(len(e.peers)))
				}
			}
			if len(liveList()) == 0 {
				e.addTunnel(rng.IntN(len(e.peers)))
			}
		}
		r.Count("histories", 1)
		if r.WantSample() {
			r.Sample(map[string]any{"history": hi, "decision_mode": decisionMode, "first_ops": e.ops[:min(len(e.ops), 14)]})
		}
		if r.NViolations() > 8 {
			break
		}
	}
}
