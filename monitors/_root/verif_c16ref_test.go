package nebula

// Shared by C16, C17 and C22: an executable reference for the firewall rule semantics, written from the
// property statements and the rule grammar comment in examples/config.yml (NOT from firewall.go), plus a
// small "world" of real CAs / certificates / HostInfos to run the real Firewall against.
//
// Normative text (examples/config.yml):
//   "The firewall is default deny. There is no way to write a deny rule."
//   "Logical evaluation is roughly: port AND proto AND (ca_sha OR ca_name) AND (host OR group OR groups OR cidr) AND (local cidr)"
//   port: `0` or `any` as any, a single number, a range `200-901`, or `fragment` to match second and further fragments
//   proto: any, tcp, udp, icmp - "a port specification is ignored if proto is icmp"
//   host: `any` or a literal hostname;  group: `any` or a literal group name
//   groups: "Multiple values are AND'd together and a certificate would have to contain all groups to pass"
//   cidr / local_cidr: `0.0.0.0/0` is any ipv4, `::/0` is any ipv6, `any` means any ip family and address
//   local_cidr default: "only the VPN (overlay) networks assigned via the certificate networks field unless
//   `default_local_cidr_any` is set to true"
//
// Cells the text leaves open, fixed here as DESIGN.md §3 C16 says (and listed in the evidence):
//   1. an ICMP packet against a `proto: any` rule matches only when that rule's port is `any`
//   2. a non-first fragment matches `fragment` and `any` port rules only
// The address gate in front of the rules is the C17 statement.

import (
	"crypto/ed25519"
	"crypto/sha256"
	"fmt"
	"log/slog"
	"math/rand/v2"
	"net/netip"
	"runtime/debug"
	"slices"
	"sort"
	"strings"
	"time"

	"github.com/gaissmai/bart"
	"github.com/slackhq/nebula/cert"
	"github.com/slackhq/nebula/firewall"
	"github.com/slackhq/nebula/verifkit"
)

const (
	c16PortAny = iota
	c16PortSingle
	c16PortRange
	c16PortFragment
)

// c16Rule is one rule record in the terms of the documentation.
type c16Rule struct {
	Incoming  bool     `json:"incoming"`
	Proto     string   `json:"proto"` // any tcp udp icmp
	PortKind  int      `json:"port_kind"`
	Lo        int      `json:"lo"`
	Hi        int      `json:"hi"`
	Groups    []string `json:"groups,omitempty"`
	Host      string   `json:"host,omitempty"`
	Cidr      string   `json:"cidr,omitempty"`
	LocalCidr string   `json:"local_cidr,omitempty"`
	CAName    string   `json:"ca_name,omitempty"`
	CASha     string   `json:"ca_sha,omitempty"`
}

func (r c16Rule) String() string {
	port := "any"
	switch r.PortKind {
	case c16PortSingle:
		port = fmt.Sprint(r.Lo)
	case c16PortRange:
		port = fmt.Sprintf("%d-%d", r.Lo, r.Hi)
	case c16PortFragment:
		port = "fragment"
	}
	dir := "out"
	if r.Incoming {
		dir = "in"
	}
	sha := r.CASha
	if len(sha) > 8 {
		sha = sha[:8]
	}
	return fmt.Sprintf("{%s %s/%s groups=%v host=%q cidr=%q local=%q ca_name=%q ca_sha=%q}", dir, r.Proto, port, r.Groups, r.Host, r.Cidr, r.LocalCidr, r.CAName, sha)
}

// c16Node is the node the firewall runs on, in plain terms.
type c16Node struct {
	Label           string
	Networks        []netip.Prefix // certified overlay addresses with their network size
	Unsafe          []netip.Prefix
	DefaultLocalAny bool

	crt   cert.Certificate
	table *bart.Lite // what pki.go builds as myVpnNetworksTable
}

// c16Peer is a remote host, in plain terms (the reference only reads the exported fields).
type c16Peer struct {
	Name   string
	Groups []string
	Addrs  []netip.Prefix
	Unsafe []netip.Prefix
	CAName string // name of the issuing CA
	CASha  string // fingerprint of the issuing CA

	cc *cert.CachedCertificate
}

func (p *c16Peer) describe() map[string]any {
	return map[string]any{"name": p.Name, "groups": p.Groups, "addrs": c16Strs(p.Addrs), "unsafe": c16Strs(p.Unsafe), "ca_name": p.CAName, "ca_sha": p.CASha}
}

func (n *c16Node) describe() map[string]any {
	return map[string]any{"label": n.Label, "networks": c16Strs(n.Networks), "unsafe": c16Strs(n.Unsafe), "default_local_cidr_any": n.DefaultLocalAny}
}

func c16Strs[T fmt.Stringer](in []T) []string {
	out := make([]string, len(in))
	for i, v := range in {
		out[i] = v.String()
	}
	return out
}

func c16PktMap(p firewall.Packet, incoming bool) map[string]any {
	return map[string]any{"local": p.LocalAddr.String(), "remote": p.RemoteAddr.String(), "local_port": p.LocalPort,
		"remote_port": p.RemotePort, "protocol": p.Protocol, "fragment": p.Fragment, "incoming": incoming}
}

// ---------------------------------------------------------------------------------------------------
// reference

var c16PrefixCache = map[string]netip.Prefix{}

// c16InCIDR: does the textual CIDR contain the address. `any` is both families, a v4 prefix never
// contains a v6 address and vice versa (netip semantics: no 4in6 folding).
func c16InCIDR(text string, a netip.Addr) bool {
	if text == "any" {
		return true
	}
	p, ok := c16PrefixCache[text]
	if !ok {
		var err error
		p, err = netip.ParsePrefix(text)
		if err != nil {
			p = netip.Prefix{}
		}
		c16PrefixCache[text] = p
	}
	if !p.IsValid() {
		return false
	}
	return c16Contains(p, a)
}

// c16Contains is an independent bit-compare (host bits in the prefix are ignored).
func c16Contains(p netip.Prefix, a netip.Addr) bool {
	pa := p.Addr()
	if pa.Is4() != a.Is4() || a.Zone() != "" {
		return false
	}
	x, y := pa.AsSlice(), a.AsSlice()
	if len(x) != len(y) {
		return false
	}
	bits := p.Bits()
	for i := 0; i < len(x) && bits > 0; i++ {
		n := min(bits, 8)
		mask := byte(0xff) << (8 - n)
		if x[i]&mask != y[i]&mask {
			return false
		}
		bits -= n
	}
	return true
}

// c16Guard runs f; a panic becomes a violation under key. (Own recover instead of Reporter.Guard so that the
// witness text does not contain the runtime's "panic:" marker, which the driver would report a second time as a crash.)
func c16Guard(r *verifkit.Reporter, key string, rec func() any, f func()) (panicked bool) {
	defer func() {
		if e := recover(); e != nil {
			panicked = true
			r.Violation(key, fmt.Sprintf("the call panicked with: %v", e), map[string]any{"input": rec(), "panicked_with": fmt.Sprint(e), "stack": string(debug.Stack())})
		}
	}()
	f()
	return false
}

func c16IsICMP(proto uint8) bool { return proto == 1 || proto == 58 }

// conjunct indexes
const (
	c16CDir = iota
	c16CProto
	c16CPort
	c16CCA
	c16CSel
	c16CLocal
	c16NConj
)

// c16RuleConj evaluates the conjuncts of one rule. anyOverrides=false is the documented reading
// (`any` inside a groups list is just a wildcard element of the AND); anyOverrides=true is the alternative
// reading "a list containing `any` is a wildcard as a whole" (only used to classify a disagreement).
func c16RuleConj(r *c16Rule, node *c16Node, peer *c16Peer, p firewall.Packet, incoming bool, anyOverrides bool) (v [c16NConj]bool) {
	v[c16CDir] = r.Incoming == incoming

	switch r.Proto {
	case "any":
		v[c16CProto] = true
	case "tcp":
		v[c16CProto] = p.Protocol == 6
	case "udp":
		v[c16CProto] = p.Protocol == 17
	case "icmp":
		v[c16CProto] = c16IsICMP(p.Protocol)
	}

	// the port a rule filters on is the destination port: ours for incoming traffic, the peer's for outgoing
	dst := int(p.RemotePort)
	if incoming {
		dst = int(p.LocalPort)
	}
	switch {
	case r.Proto == "icmp":
		v[c16CPort] = true // "a port specification is ignored if proto is icmp"
	case c16IsICMP(p.Protocol):
		v[c16CPort] = r.PortKind == c16PortAny // open cell 1
	case p.Fragment:
		v[c16CPort] = r.PortKind == c16PortAny || r.PortKind == c16PortFragment // open cell 2
	default:
		switch r.PortKind {
		case c16PortAny:
			v[c16CPort] = true
		case c16PortSingle:
			v[c16CPort] = dst == r.Lo
		case c16PortRange:
			v[c16CPort] = r.Lo <= dst && dst <= r.Hi
		case c16PortFragment:
			v[c16CPort] = false
		}
	}

	// (ca_sha OR ca_name), only if given
	if r.CAName == "" && r.CASha == "" {
		v[c16CCA] = true
	} else {
		v[c16CCA] = (r.CASha != "" && r.CASha == peer.CASha) || (r.CAName != "" && r.CAName == peer.CAName)
	}

	// (host OR group OR groups OR cidr); a rule without any of them does not restrict the peer
	if len(r.Groups) == 0 && r.Host == "" && r.Cidr == "" {
		v[c16CSel] = true
	} else {
		// all listed groups must be held by the peer; `any` is a wildcard element
		groupsOK := len(r.Groups) > 0
		for _, g := range r.Groups {
			if g != "any" && !slices.Contains(peer.Groups, g) {
				groupsOK = false
			}
		}
		if anyOverrides && slices.Contains(r.Groups, "any") {
			groupsOK = true
		}
		hostOK := r.Host != "" && (r.Host == "any" || r.Host == peer.Name)
		cidrOK := r.Cidr != "" && c16InCIDR(r.Cidr, p.RemoteAddr)
		v[c16CSel] = groupsOK || hostOK || cidrOK
	}

	switch r.LocalCidr {
	case "any":
		v[c16CLocal] = true
	case "":
		if node.DefaultLocalAny {
			v[c16CLocal] = true
		} else {
			for _, n := range node.Networks {
				if c16Contains(n, p.LocalAddr) {
					v[c16CLocal] = true
				}
			}
		}
	default:
		v[c16CLocal] = c16InCIDR(r.LocalCidr, p.LocalAddr)
	}
	return v
}

func c16All(v [c16NConj]bool) bool {
	for _, b := range v {
		if !b {
			return false
		}
	}
	return true
}

// c16Gate is the C17 statement: which (remote, local) pairs are authentic for this peer on this node.
// open reports the one cell where the statement's two clauses pull apart (the remote address is one of the
// peer's certified addresses OUTSIDE the node's networks and at the same time inside one of the peer's own
// unsafe networks): C17 permits delivery there but nothing demands it.
func c16Gate(node *c16Node, peer *c16Peer, p firewall.Packet) (remoteOK, localOK, open bool) {
	outsideOwn := false
	for _, a := range peer.Addrs {
		if a.Addr() != p.RemoteAddr {
			continue
		}
		inNode := false
		for _, n := range node.Networks {
			if c16Contains(n, a.Addr()) {
				inNode = true
			}
		}
		if inNode {
			remoteOK = true
		} else {
			outsideOwn = true
		}
	}
	inUnsafe := false
	for _, u := range peer.Unsafe {
		if c16Contains(u, p.RemoteAddr) {
			inUnsafe = true
		}
	}
	if inUnsafe {
		if outsideOwn && !remoteOK {
			open = true
		}
		remoteOK = true
	}
	for _, n := range node.Networks {
		if n.Addr() == p.LocalAddr {
			localOK = true
		}
	}
	for _, u := range node.Unsafe {
		if c16Contains(u, p.LocalAddr) {
			localOK = true
		}
	}
	return
}

type c16Verdict struct {
	RemoteOK, LocalOK, GateOpen bool
	Matched                     []int // indexes of rules that match (documented reading)
	Allow                       bool  // documented reading
	AllowAnyOverrides           bool  // alternative reading of `any` inside a groups list
	Vecs                        [][c16NConj]bool
}

func c16Ref(node *c16Node, peer *c16Peer, rules []c16Rule, p firewall.Packet, incoming bool) c16Verdict {
	var out c16Verdict
	out.RemoteOK, out.LocalOK, out.GateOpen = c16Gate(node, peer, p)
	alt := false
	for i := range rules {
		v := c16RuleConj(&rules[i], node, peer, p, incoming, false)
		out.Vecs = append(out.Vecs, v)
		if c16All(v) {
			out.Matched = append(out.Matched, i)
		}
		if c16All(c16RuleConj(&rules[i], node, peer, p, incoming, true)) {
			alt = true
		}
	}
	gate := out.RemoteOK && out.LocalOK
	out.Allow = gate && len(out.Matched) > 0
	out.AllowAnyOverrides = gate && alt
	return out
}

// c16Sig is the non-triviality signature of one evaluation: the multiset of conjunct truth vectors of the
// rules, the gate outcome and the packet class.
func c16Sig(v c16Verdict, p firewall.Packet, incoming bool) string {
	vs := make([]string, 0, len(v.Vecs))
	for _, x := range v.Vecs {
		b := make([]byte, c16NConj)
		for i, t := range x {
			b[i] = '0'
			if t {
				b[i] = '1'
			}
		}
		vs = append(vs, string(b))
	}
	sort.Strings(vs)
	return fmt.Sprintf("%s|%v%v%v|%s|%v", strings.Join(vs, ","), v.RemoteOK, v.LocalOK, v.GateOpen, c16PktClass(p), incoming)
}

func c16PktClass(p firewall.Packet) string {
	c := "other"
	switch p.Protocol {
	case 6:
		c = "tcp"
	case 17:
		c = "udp"
	case 1:
		c = "icmp"
	case 58:
		c = "icmp6"
	}
	if p.Fragment {
		c += "-frag"
	}
	return c
}

// ---------------------------------------------------------------------------------------------------
// world: real CAs, real signed v2 certificates, real HostInfo / Firewall construction

type c16CA struct {
	Name string
	Sha  string
	crt  cert.Certificate
	key  ed25519.PrivateKey
}

type c16World struct {
	CAs  []*c16CA
	pool *cert.CAPool
	l    *slog.Logger
	now  time.Time
	nkey int
}

func c16Seed32(tag string, i int) []byte {
	s := sha256.Sum256([]byte(fmt.Sprintf("verif-c16-%s-%d", tag, i)))
	return s[:]
}

// c16NewWorld creates three CAs: "ca-a", "ca-b" and a second, different CA that is also called "ca-a"
// (so that ca_name and ca_sha are distinguishable). Keys are derived from fixed strings: the world is
// identical in every process.
func c16NewWorld() *c16World {
	w := &c16World{pool: cert.NewCAPool(), l: slog.New(slog.DiscardHandler), now: time.Date(2020, 1, 1, 0, 0, 0, 0, time.UTC)}
	for i, name := range []string{"ca-a", "ca-b", "ca-a"} {
		key := ed25519.NewKeyFromSeed(c16Seed32("ca", i))
		t := &cert.TBSCertificate{Version: cert.Version2, Curve: cert.Curve_CURVE25519, Name: name, IsCA: true,
			NotBefore: time.Unix(631152000, 0), NotAfter: time.Unix(4102444800, 0), PublicKey: key.Public().(ed25519.PublicKey)}
		c, err := t.Sign(nil, cert.Curve_CURVE25519, key)
		if err != nil {
			panic(err)
		}
		if err := w.pool.AddCA(c); err != nil {
			panic(err)
		}
		fp, err := c.Fingerprint()
		if err != nil {
			panic(err)
		}
		w.CAs = append(w.CAs, &c16CA{Name: name, Sha: fp, crt: c, key: key})
	}
	return w
}

func (w *c16World) sign(ca int, name string, groups []string, networks, unsafe []netip.Prefix) (cert.Certificate, error) {
	w.nkey++
	t := &cert.TBSCertificate{Version: cert.Version2, Curve: cert.Curve_CURVE25519, Name: name, Groups: slices.Clone(groups),
		Networks: slices.Clone(networks), UnsafeNetworks: slices.Clone(unsafe),
		NotBefore: time.Unix(631152000+1, 0), NotAfter: time.Unix(4102444800-1, 0), PublicKey: c16Seed32("host", w.nkey)}
	return t.Sign(w.CAs[ca].crt, cert.Curve_CURVE25519, w.CAs[ca].key)
}

func (w *c16World) newNode(label string, networks, unsafe []netip.Prefix, defaultLocalAny bool) *c16Node {
	c, err := w.sign(0, "node", nil, networks, unsafe)
	if err != nil {
		panic(fmt.Sprintf("node cert %s: %v", label, err))
	}
	n := &c16Node{Label: label, Networks: c.Networks(), Unsafe: c.UnsafeNetworks(), DefaultLocalAny: defaultLocalAny, crt: c, table: new(bart.Lite)}
	for _, nw := range c.Networks() { // as pki.go does for CertState.myVpnNetworksTable
		n.table.Insert(nw)
	}
	return n
}

// newPeer signs a real host certificate and verifies it through the real CA pool (which is where the
// cached group index used by the firewall comes from). Returns nil when the cert package refuses the shape.
func (w *c16World) newPeer(name string, groups []string, addrs, unsafe []netip.Prefix, ca int) *c16Peer {
	c, err := w.sign(ca, name, groups, addrs, unsafe)
	if err != nil {
		return nil
	}
	cc, err := w.pool.VerifyCertificate(w.now, c)
	if err != nil {
		panic(fmt.Sprintf("peer cert %s does not verify: %v", name, err))
	}
	return &c16Peer{Name: name, Groups: slices.Clone(groups), Addrs: c.Networks(), Unsafe: c.UnsafeNetworks(),
		CAName: w.CAs[ca].Name, CASha: w.CAs[ca].Sha, cc: cc}
}

// hostInfo builds the HostInfo the way the handshake manager does: vpnAddrs = the certificate's addresses in
// certificate order, then buildNetworks against the node's own networks table.
func (p *c16Peer) hostInfo(n *c16Node) *HostInfo {
	h := &HostInfo{ConnectionState: &ConnectionState{peerCert: p.cc}}
	for _, a := range p.cc.Certificate.Networks() {
		h.vpnAddrs = append(h.vpnAddrs, a.Addr())
	}
	h.buildNetworks(n.table, p.cc.Certificate)
	return h
}

func c16ProtoNum(s string, v6icmp bool) uint8 {
	switch s {
	case "tcp":
		return firewall.ProtoTCP
	case "udp":
		return firewall.ProtoUDP
	case "icmp":
		if v6icmp {
			return firewall.ProtoICMPv6
		}
		return firewall.ProtoICMP
	}
	return firewall.ProtoAny
}

func c16Ports(r *c16Rule) (int32, int32) {
	switch r.PortKind {
	case c16PortSingle:
		return int32(r.Lo), int32(r.Lo)
	case c16PortRange:
		return int32(r.Lo), int32(r.Hi)
	case c16PortFragment:
		return firewall.PortFragment, firewall.PortFragment
	}
	return firewall.PortAny, firewall.PortAny
}

const c16Timeout = time.Minute

// buildFirewall creates a fresh real firewall for the node and adds the rules through the public AddRule.
func (w *c16World) buildFirewall(n *c16Node, rules []c16Rule) (*Firewall, error) {
	fw := NewFirewall(w.l, c16Timeout, c16Timeout, c16Timeout, n.crt)
	fw.defaultLocalCIDRAny = n.DefaultLocalAny
	for i := range rules {
		r := &rules[i]
		lo, hi := c16Ports(r)
		if err := fw.AddRule(r.Incoming, c16ProtoNum(r.Proto, i%2 == 1), lo, hi, slices.Clone(r.Groups), r.Host, r.Cidr, r.LocalCidr, r.CAName, r.CASha); err != nil {
			return nil, fmt.Errorf("rule %d %v: %w", i, r, err)
		}
	}
	return fw, nil
}

func c16FreshConntrack(fw *Firewall) {
	fw.Conntrack = &FirewallConntrack{Conns: make(map[firewall.Packet]*conn), TimerWheel: NewTimerWheel[firewall.Packet](c16Timeout, c16Timeout)}
}

// ---------------------------------------------------------------------------------------------------
// generators over a small alphabet (so that rules share nested-table nodes and shadow each other)

func c16P(s string) netip.Prefix { return netip.MustParsePrefix(s) }
func c16A(s string) netip.Addr   { return netip.MustParseAddr(s) }

func c16Pick[T any](rng *rand.Rand, xs []T) T { return xs[rng.IntN(len(xs))] }

var (
	c16GroupLists = [][]string{nil, nil, nil, {"g1"}, {"g2"}, {"g3"}, {"g1", "g2"}, {"g2", "g3"}, {"g1", "g2", "g3"}, {"g1", "g1"}, {"nope"}, {"g1", "nope"}, {"any"}, {"g1", "any"}, {"any", "nope"}}
	c16Hosts      = []string{"", "", "", "host-a", "host-b", "nope", "any"}
	c16Cidrs      = []string{"", "", "", "10.0.0.0/16", "10.0.1.0/24", "10.0.1.7/32", "10.0.1.9/24", "0.0.0.0/0", "::/0", "fd00::/64", "192.168.50.0/24", "any"}
	c16LocalCidrs = []string{"", "", "", "any", "10.0.0.1/32", "10.0.0.0/16", "10.0.0.77/16", "192.168.0.0/24", "192.168.0.64/26", "0.0.0.0/0", "::/0", "fd99::/64"}
	c16Protos     = []string{"any", "tcp", "tcp", "udp", "icmp"}
)

type c16PortSpec struct{ kind, lo, hi int }

var c16PortSpecs = []c16PortSpec{{c16PortAny, 0, 0}, {c16PortAny, 0, 0}, {c16PortFragment, 0, 0}, {c16PortSingle, 1, 1}, {c16PortSingle, 80, 80}, {c16PortSingle, 80, 80},
	{c16PortSingle, 81, 81}, {c16PortSingle, 443, 443}, {c16PortSingle, 65535, 65535}, {c16PortRange, 80, 81}, {c16PortRange, 400, 443}, {c16PortRange, 65534, 65535}, {c16PortRange, 80, 80}}

func c16GenRule(rng *rand.Rand, w *c16World) c16Rule {
	r := c16Rule{Incoming: rng.IntN(3) > 0, Proto: c16Pick(rng, c16Protos)}
	ps := c16Pick(rng, c16PortSpecs)
	if rng.IntN(400) == 0 {
		ps = c16PortSpec{c16PortRange, 1 + rng.IntN(2), []int{1024, 4096, verifkit.Scale(4097, 65535)}[rng.IntN(3)]}
	}
	if rng.IntN(3000) == 0 {
		// the whole port space and one short of it at either end (must stay different from `any`: port 0 and non-first
		// fragments are outside every range)
		ps = c16Pick(rng, []c16PortSpec{{c16PortRange, 1, 65535}, {c16PortRange, 2, 65535}, {c16PortRange, 1, 65534}})
	}
	r.PortKind, r.Lo, r.Hi = ps.kind, ps.lo, ps.hi
	r.Groups = slices.Clone(c16Pick(rng, c16GroupLists))
	r.Host = c16Pick(rng, c16Hosts)
	r.Cidr = c16Pick(rng, c16Cidrs)
	r.LocalCidr = c16Pick(rng, c16LocalCidrs)
	switch rng.IntN(8) {
	case 0:
		r.CAName = "ca-a"
	case 1:
		r.CAName = "ca-b"
	case 2:
		r.CASha = w.CAs[rng.IntN(3)].Sha
	case 3:
		r.CAName = c16Pick(rng, []string{"ca-a", "ca-b", "ca-nope"})
		r.CASha = w.CAs[rng.IntN(3)].Sha
	case 4:
		r.CASha = "00" + w.CAs[0].Sha[2:]
	}
	return r
}

func c16GenRules(rng *rand.Rand, w *c16World, maxRules int) []c16Rule {
	n := 1 + rng.IntN(maxRules)
	rs := make([]c16Rule, n)
	for i := range rs {
		rs[i] = c16GenRule(rng, w)
		// near-copies of an earlier rule share every nested node but one
		if i > 0 && rng.IntN(3) == 0 {
			rs[i] = rs[rng.IntN(i)]
			rs[i].Groups = slices.Clone(rs[i].Groups)
			switch rng.IntN(6) {
			case 0:
				rs[i].LocalCidr = c16Pick(rng, c16LocalCidrs)
			case 1:
				rs[i].Cidr = c16Pick(rng, c16Cidrs)
			case 2:
				rs[i].Host = c16Pick(rng, c16Hosts)
			case 3:
				rs[i].Groups = slices.Clone(c16Pick(rng, c16GroupLists))
			case 4:
				ps := c16Pick(rng, c16PortSpecs)
				rs[i].PortKind, rs[i].Lo, rs[i].Hi = ps.kind, ps.lo, ps.hi
			case 5:
				rs[i].Proto = c16Pick(rng, c16Protos)
			}
		}
	}
	return rs
}

// c16Nodes are the node variants: with and without unsafe networks, default_local_cidr_any on and off,
// one or two overlay networks, v4 and v6.
func (w *c16World) nodes() []*c16Node {
	n4 := []netip.Prefix{c16P("10.0.0.1/16")}
	n46 := []netip.Prefix{c16P("10.0.0.1/16"), c16P("fd00::1/64")}
	u4 := []netip.Prefix{c16P("192.168.0.0/24")}
	u46 := []netip.Prefix{c16P("192.168.0.0/24"), c16P("fd99::/64")}
	return []*c16Node{
		w.newNode("v4", n4, nil, false),
		w.newNode("v4+unsafe", n4, u4, false),
		w.newNode("v4+unsafe+default_local_cidr_any", n4, u4, true),
		w.newNode("v4v6+unsafe", n46, u46, false),
		w.newNode("v4v6+default_local_cidr_any", n46, nil, true),
		w.newNode("two-v4-networks+unsafe", []netip.Prefix{c16P("10.0.0.1/24"), c16P("10.0.5.1/24")}, u4, false),
	}
}

var (
	c16PeerAddrs  = []string{"10.0.1.5/16", "10.0.1.7/16", "10.0.2.5/16", "10.0.0.9/24", "10.0.5.9/24", "fd00::5/64", "172.16.0.5/24", "fd77::5/64"}
	c16PeerUnsafe = []string{"192.168.50.0/24", "172.16.0.0/16", "10.0.1.0/24", "fd50::/64", "192.168.0.0/25"}
	c16PeerNames  = []string{"host-a", "host-b", "host-c", "any"}
	c16AllGroups  = []string{"g1", "g2", "g3", "other"}
)

// c16GenPeer draws a peer with 1..3 certified addresses (inside and outside the node networks) and 0..2 unsafe
// networks. Never uses a node address (the handshake refuses such peers).
func c16GenPeer(rng *rand.Rand, w *c16World) *c16Peer {
	for {
		var addrs, unsafe []netip.Prefix
		na := 1
		if rng.IntN(3) == 0 {
			na = 2 + rng.IntN(2)
		}
		for len(addrs) < na {
			a := c16P(c16Pick(rng, c16PeerAddrs))
			if !slices.ContainsFunc(addrs, func(x netip.Prefix) bool { return x.Addr() == a.Addr() }) {
				addrs = append(addrs, a)
			}
		}
		if rng.IntN(2) == 0 {
			for k := 1 + rng.IntN(2); k > 0; k-- {
				u := c16P(c16Pick(rng, c16PeerUnsafe))
				if !slices.Contains(unsafe, u) {
					unsafe = append(unsafe, u)
				}
			}
		}
		var groups []string
		for _, g := range c16AllGroups {
			if rng.IntN(2) == 0 {
				groups = append(groups, g)
			}
		}
		if p := w.newPeer(c16Pick(rng, c16PeerNames), groups, addrs, unsafe, rng.IntN(3)); p != nil {
			return p
		}
	}
}

var (
	c16DstPorts    = []uint16{0, 1, 2, 79, 80, 81, 82, 399, 400, 442, 443, 444, 1024, 1025, 65534, 65535}
	c16StrayRemote = []string{"10.0.1.6", "10.0.1.8", "10.0.9.9", "10.0.0.1", "10.0.1.77", "192.168.50.9", "172.16.0.9", "172.16.0.5", "fd00::6", "fd50::9", "8.8.8.8", "192.168.0.9"}
	c16StrayLocal  = []string{"10.0.0.2", "10.0.0.0", "192.168.1.1", "192.168.0.9", "192.168.0.70", "192.168.0.200", "fd99::9", "fd00::2", "10.0.5.1", "10.0.1.5"}
)

// c16GenPacket draws a packet shaped like the parser's output: ports only for tcp/udp first fragments,
// ICMP carries its identifier in RemotePort, everything else has zero ports.
func c16GenPacket(rng *rand.Rand, node *c16Node, peer *c16Peer, hostile bool) (firewall.Packet, bool) {
	var p firewall.Packet
	incoming := rng.IntN(3) > 0
	// remote address: mostly one the peer may really use on this node
	var good []netip.Addr
	for _, a := range peer.Addrs {
		for _, n := range node.Networks {
			if c16Contains(n, a.Addr()) {
				good = append(good, a.Addr())
				break
			}
		}
	}
	k := rng.IntN(20)
	if hostile {
		k = rng.IntN(34)
	}
	switch {
	case k < 12 && len(good) > 0:
		p.RemoteAddr = c16Pick(rng, good)
	case k < 16 && len(peer.Unsafe) > 0:
		u := c16Pick(rng, peer.Unsafe)
		b := u.Addr().AsSlice()
		b[len(b)-1] |= byte(1 + rng.IntN(100))
		p.RemoteAddr, _ = netip.AddrFromSlice(b)
	case k < 18:
		p.RemoteAddr = c16Pick(rng, peer.Addrs).Addr()
	case k < 19 || k >= 28:
		p.RemoteAddr = c16Pick(rng, peer.Addrs).Addr().Next()
	default:
		p.RemoteAddr = c16A(c16Pick(rng, c16StrayRemote))
	}
	k = rng.IntN(20)
	if hostile {
		k = rng.IntN(30)
	}
	switch {
	case k < 12 || (k < 18 && len(node.Unsafe) == 0):
		p.LocalAddr = c16Pick(rng, node.Networks).Addr()
	case k < 18:
		u := c16Pick(rng, node.Unsafe)
		b := u.Addr().AsSlice()
		b[len(b)-1] |= byte(1 + rng.IntN(120))
		p.LocalAddr, _ = netip.AddrFromSlice(b)
	default:
		p.LocalAddr = c16A(c16Pick(rng, c16StrayLocal))
	}
	switch rng.IntN(12) {
	case 0, 1, 2, 3, 4:
		p.Protocol = 6
	case 5, 6, 7:
		p.Protocol = 17
	case 8:
		p.Protocol = 1
	case 9:
		p.Protocol = 58
	case 10:
		p.Protocol = 47
	default:
		p.Protocol = c16Pick(rng, []uint8{0, 2, 50, 132, 255})
	}
	frag := false
	dst := c16Pick(rng, c16DstPorts)
	switch {
	case (p.Protocol == 6 || p.Protocol == 17) && rng.IntN(6) == 0, p.Protocol != 6 && p.Protocol != 17 && rng.IntN(8) == 0:
		frag = true
	}
	c16Shape(rng, &p, incoming, dst, frag)
	return p, incoming
}

// c16Shape fills ports/fragment the way the packet parser would for the protocol already set in p.
func c16Shape(rng *rand.Rand, p *firewall.Packet, incoming bool, dst uint16, frag bool) {
	p.LocalPort, p.RemotePort, p.Fragment = 0, 0, false
	switch {
	case frag:
		p.Fragment = true
	case p.Protocol == 6 || p.Protocol == 17:
		src := uint16(1024 + rng.IntN(60000))
		if rng.IntN(8) == 0 {
			src = c16Pick(rng, c16DstPorts) // the source port sits in the rule alphabet too: it must never be what is filtered
		}
		if incoming {
			p.LocalPort, p.RemotePort = dst, src
		} else {
			p.LocalPort, p.RemotePort = src, dst
		}
	case c16IsICMP(p.Protocol):
		p.RemotePort = c16Pick(rng, []uint16{0, 80, 443, 7})
	}
}

// c16AimPacket re-shapes a generated packet towards one rule of the set (direction, protocol and port taken
// from the rule text or its neighbours) so that complete matches and near misses are frequent. This steers
// generation only; the verdict is always the reference's.
func c16AimPacket(rng *rand.Rand, p firewall.Packet, rule *c16Rule) (firewall.Packet, bool) {
	incoming := rule.Incoming
	if rng.IntN(10) == 0 {
		incoming = !incoming
	}
	switch rule.Proto {
	case "tcp":
		p.Protocol = 6
	case "udp":
		p.Protocol = 17
	case "icmp":
		p.Protocol = c16Pick(rng, []uint8{1, 58})
	}
	if rng.IntN(10) == 0 {
		p.Protocol = c16Pick(rng, []uint8{6, 17, 1, 58, 47})
	}
	dst := c16Pick(rng, c16DstPorts)
	frag := false
	switch rule.PortKind {
	case c16PortSingle, c16PortRange:
		c := []int{rule.Lo, rule.Hi, (rule.Lo + rule.Hi) / 2, rule.Lo - 1, rule.Hi + 1, rule.Lo, rule.Hi}
		d := c[rng.IntN(len(c))]
		if d >= 0 && d <= 65535 {
			dst = uint16(d)
		}
		frag = rng.IntN(12) == 0
	case c16PortFragment:
		frag = rng.IntN(5) > 0
	default:
		frag = rng.IntN(6) == 0
	}
	c16Shape(rng, &p, incoming, dst, frag)
	return p, incoming
}
