package nebula

// C19 — tracked flows are revalidated after a rule reload.
//
// The real Interface.reloadFirewall is driven through config.C.ReloadConfigString with generated
// firewall sections (and certificate swaps that change the unsafe networks); between reloads packets
// are handed to the installed Firewall.Drop. Oracle, written from the statement:
//
//   flow(p)   = the tuple; its original direction = direction of the rule-allowed packet that created it
//   A packet that the current rules do not allow in its own direction
//     may pass   only if its flow is tracked, has not been forgotten, and the flow's ORIGINAL direction is
//                allowed by the rules installed now                      (else: stale-flow-honoured)
//     otherwise it must be dropped and the flow is forgotten: it is not honoured again until a rule
//                allows a new packet for it                              (else: forgotten-flow-honoured-again)
//     must pass  if the original direction was allowed by every rule set installed since the flow was
//                last seen passing (in particular: reloads that change nothing about the rules never cut it)
//   A packet the current rules allow must pass and (re)creates the flow.
//   Routine caches (when used) add at most one tick of slack: a tuple that passed earlier in the same cache
//   tick may still pass.
//
// "allowed by the current rules" is decided by a 40-line reference over the generated rule list
// (proto, port/range, one of host/group/groups/cidr, local_cidr with its documented default).

import (
	"context"
	"fmt"
	"log/slog"
	"math/rand/v2"
	"net/netip"
	"slices"
	"sort"
	"strings"
	"testing"
	"testing/synctest"
	"time"

	"github.com/gaissmai/bart"
	"github.com/slackhq/nebula/cert"
	"github.com/slackhq/nebula/cert_test"
	"github.com/slackhq/nebula/config"
	"github.com/slackhq/nebula/firewall"
	"github.com/slackhq/nebula/verifkit"
)

// ---------- fixture ----------

type c19Peer struct {
	name   string
	addr   netip.Addr
	unsafe []netip.Prefix
	groups []string
	h      *HostInfo
}

type c19Fixture struct {
	l         *slog.Logger
	caPool    *cert.CAPool
	nodeAddr  netip.Addr
	vpnNet    netip.Prefix
	nodeCerts []cert.Certificate // index = certificate state: 0 no unsafe networks, 1 {U1}, 2 {U1,U2}
	unsafe    [][]netip.Prefix
	peers     []*c19Peer
}

func c19NewFixture() *c19Fixture {
	before := time.Date(1990, 1, 1, 0, 0, 0, 0, time.UTC)
	after := time.Date(2100, 1, 1, 0, 0, 0, 0, time.UTC)
	at := time.Date(2000, 1, 1, 0, 0, 0, 0, time.UTC)
	ca, _, caKey, _ := cert_test.NewTestCaCert(cert.Version2, cert.Curve_CURVE25519, before, after, nil, nil, nil)
	pool := cert.NewCAPool()
	if err := pool.AddCA(ca); err != nil {
		panic(err)
	}
	u1, u2 := netip.MustParsePrefix("192.168.7.0/24"), netip.MustParsePrefix("192.168.9.0/24")
	fx := &c19Fixture{l: slog.New(slog.DiscardHandler), caPool: pool, nodeAddr: netip.MustParseAddr("10.0.0.1"),
		vpnNet: netip.MustParsePrefix("10.0.0.0/24"), unsafe: [][]netip.Prefix{nil, {u1}, {u1, u2}}}
	for _, un := range fx.unsafe {
		c, _, _, _ := cert_test.NewTestCert(cert.Version2, cert.Curve_CURVE25519, ca, caKey, "node", before, after,
			[]netip.Prefix{netip.MustParsePrefix("10.0.0.1/24")}, un, nil)
		fx.nodeCerts = append(fx.nodeCerts, c)
	}
	myNets := new(bart.Lite)
	myNets.Insert(fx.vpnNet)
	for _, p := range []*c19Peer{
		{name: "peerA", addr: netip.MustParseAddr("10.0.0.2"), groups: []string{"g1", "g2"}},
		{name: "peerB", addr: netip.MustParseAddr("10.0.0.3"), groups: []string{"g2"}},
		{name: "peerC", addr: netip.MustParseAddr("10.0.0.4"), groups: []string{"g3"}, unsafe: []netip.Prefix{netip.MustParsePrefix("172.16.5.0/24")}},
	} {
		c, _, _, _ := cert_test.NewTestCert(cert.Version2, cert.Curve_CURVE25519, ca, caKey, p.name, before, after,
			[]netip.Prefix{netip.PrefixFrom(p.addr, 24)}, p.unsafe, p.groups)
		cc, err := pool.VerifyCertificate(at, c)
		if err != nil {
			panic(err)
		}
		p.h = &HostInfo{ConnectionState: &ConnectionState{peerCert: cc}, vpnAddrs: []netip.Addr{p.addr}}
		p.h.buildNetworks(myNets, c)
		fx.peers = append(fx.peers, p)
	}
	return fx
}

// ---------- generated configuration + reference ----------

type c19Rule struct {
	in       bool
	proto    string // any tcp udp icmp
	lo, hi   int    // 0,0 = any
	whoKind  string // host group groups cidr
	who      string // for groups: comma separated
	localCID string // "" = not given
}

func (r c19Rule) String() string {
	return fmt.Sprintf("in=%v %s %d-%d %s=%s local=%s", r.in, r.proto, r.lo, r.hi, r.whoKind, r.who, r.localCID)
}

func (r c19Rule) yaml() string {
	port := "any"
	if r.lo != 0 {
		port = fmt.Sprint(r.lo)
		if r.hi != r.lo {
			port = fmt.Sprintf("%d-%d", r.lo, r.hi)
		}
	}
	who := fmt.Sprintf("%s: %s", r.whoKind, r.who)
	if r.whoKind == "groups" {
		who = "groups: [" + r.who + "]"
	}
	s := fmt.Sprintf("    - {port: %s, proto: %s, %s", port, r.proto, who)
	if r.localCID != "" {
		s += ", local_cidr: " + r.localCID
	}
	return s + "}\n"
}

type c19Cfg struct {
	rules       []c19Rule
	localAny    bool   // firewall.default_local_cidr_any
	defTimeout  int    // minutes, >= 10 (changing it changes the firewall section but not the rules)
	timed       [3]int // tcp, udp, default conntrack timeouts in seconds; zero = the 12m/3m/defTimeout of an untimed history
	inAction    string
	broken      bool // an unparsable rule: the reload must be refused and the old rules stay
	description string
}

func (c *c19Cfg) yaml() string {
	var sb strings.Builder
	if c.timed[0] > 0 {
		fmt.Fprintf(&sb, "firewall:\n  inbound_action: %s\n  default_local_cidr_any: %v\n  conntrack:\n    tcp_timeout: %ds\n    udp_timeout: %ds\n    default_timeout: %ds\n", c.inAction, c.localAny, c.timed[0], c.timed[1], c.timed[2])
	} else {
		fmt.Fprintf(&sb, "firewall:\n  inbound_action: %s\n  default_local_cidr_any: %v\n  conntrack:\n    tcp_timeout: 12m\n    udp_timeout: 3m\n    default_timeout: %dm\n", c.inAction, c.localAny, c.defTimeout)
	}
	for _, in := range []bool{false, true} {
		var body strings.Builder
		for _, r := range c.rules {
			if r.in == in {
				body.WriteString(r.yaml())
			}
		}
		if c.broken && in {
			body.WriteString("    - {port: 1, proto: bogus, host: any}\n")
		}
		name := "outbound"
		if in {
			name = "inbound"
		}
		if body.Len() == 0 {
			fmt.Fprintf(&sb, "  %s: []\n", name)
		} else {
			fmt.Fprintf(&sb, "  %s:\n%s", name, body.String())
		}
	}
	return sb.String()
}

// canon identifies "the rules" (as a set) for the question "did this reload change anything about the rules".
func (c *c19Cfg) canon(certState int) string {
	var rs []string
	for _, r := range c.rules {
		rs = append(rs, r.String())
	}
	sort.Strings(rs)
	rs = slices.Compact(rs)
	return fmt.Sprintf("%v|localAny=%v|cert=%d", rs, c.localAny, certState)
}

func c19ProtoName(p uint8) string {
	switch p {
	case firewall.ProtoTCP:
		return "tcp"
	case firewall.ProtoUDP:
		return "udp"
	case firewall.ProtoICMP:
		return "icmp"
	}
	return "other"
}

func c19CIDRHas(spec string, a netip.Addr) bool {
	if spec == "any" {
		return true
	}
	return netip.MustParsePrefix(spec).Contains(a)
}

// c19Allowed: do the rules of cfg allow packet p travelling in direction `in` to/from peer?
func c19Allowed(fx *c19Fixture, cfg *c19Cfg, p firewall.Packet, in bool, peer *c19Peer) bool {
	for _, r := range cfg.rules {
		if r.in != in {
			continue
		}
		if r.proto != "any" && r.proto != c19ProtoName(p.Protocol) {
			continue
		}
		if p.Protocol != firewall.ProtoICMP && r.lo != 0 { // "a port specification is ignored if proto is icmp"
			port := int(p.RemotePort)
			if in {
				port = int(p.LocalPort)
			}
			if port < r.lo || port > r.hi {
				continue
			}
		}
		ok := false
		switch r.whoKind {
		case "host":
			ok = r.who == "any" || r.who == peer.name
		case "group":
			ok = r.who == "any" || slices.Contains(peer.groups, r.who)
		case "groups":
			ok = true
			for _, g := range strings.Split(r.who, ", ") {
				ok = ok && slices.Contains(peer.groups, g)
			}
		case "cidr":
			ok = c19CIDRHas(r.who, p.RemoteAddr)
		}
		if !ok {
			continue
		}
		if r.localCID == "" {
			// default: only the VPN networks of the certificate, unless default_local_cidr_any
			if !cfg.localAny && !fx.vpnNet.Contains(p.LocalAddr) {
				continue
			}
		} else if !c19CIDRHas(r.localCID, p.LocalAddr) {
			continue
		}
		return true
	}
	return false
}

func (fx *c19Fixture) addrOK(certState int, p firewall.Packet, peer *c19Peer) bool {
	lok := p.LocalAddr == fx.nodeAddr
	for _, u := range fx.unsafe[certState] {
		lok = lok || u.Contains(p.LocalAddr)
	}
	rok := p.RemoteAddr == peer.addr
	for _, u := range peer.unsafe {
		rok = rok || u.Contains(p.RemoteAddr)
	}
	return lok && rok
}

var c19Whos = [][2]string{
	{"host", "any"}, {"host", "peerA"}, {"host", "peerB"}, {"host", "peerC"},
	{"group", "g1"}, {"group", "g2"}, {"group", "g3"}, {"group", "any"}, {"groups", "g1, g2"},
	{"cidr", "10.0.0.2/32"}, {"cidr", "10.0.0.0/24"}, {"cidr", "172.16.5.0/24"}, {"cidr", "any"}, {"cidr", "0.0.0.0/0"},
}
var c19Locals = []string{"", "", "", "", "192.168.7.0/24", "10.0.0.0/24", "any", "0.0.0.0/0", "192.168.9.0/24"}
var c19Ports = [][2]int{{0, 0}, {80, 80}, {53, 53}, {22, 22}, {443, 443}, {1000, 1010}, {8000, 8040}}

func c19RandRule(rng *rand.Rand) c19Rule {
	r := c19Rule{in: rng.IntN(2) == 0, proto: []string{"tcp", "udp", "icmp", "any", "tcp", "udp"}[rng.IntN(6)]}
	if r.proto == "tcp" || r.proto == "udp" {
		pr := c19Ports[rng.IntN(len(c19Ports))]
		r.lo, r.hi = pr[0], pr[1]
	}
	w := c19Whos[rng.IntN(len(c19Whos))]
	r.whoKind, r.who = w[0], w[1]
	r.localCID = c19Locals[rng.IntN(len(c19Locals))]
	return r
}

// ---------- model + driver ----------

type c19Flow struct {
	// possible original directions. Normally exactly one; both when a rule-allowed packet in the other
	// direction arrived while the implementation was free to have forgotten the flow already (lazy
	// revalidation vs. eager forgetting), so that either direction may be the recorded one.
	origIn, origOut bool
	peer            *c19Peer
	lazy            bool // some state installed since the flow last passed did not allow its original direction
	changed         bool // some reload since then changed something about the rules
	wraps           int  // version-counter wraps observed when the flow last passed
	version         uint16
	lastSeen        time.Time     // last time a packet of the flow passed
	t               time.Duration // the protocol's configured idle timeout (practically infinite in untimed histories)
}

type c19Hist struct {
	r         *verifkit.Reporter
	fx        *c19Fixture
	ifc       *Interface
	c         *config.C
	cur       *c19Cfg // rules installed now (model)
	curText   string
	certState int
	cacheD    time.Duration
	cIn, cOut *firewall.ConntrackCacheTicker
	t0        time.Time
	flows     map[firewall.Packet]*c19Flow
	forgotten map[firewall.Packet]bool
	expired   map[firewall.Packet]bool // forgotten because it idled past its timeout
	timed     [3]int                   // conntrack timeouts of this history in seconds (zero: untimed)
	reloadAt  []time.Time              // effective reloads
	passEpoch map[firewall.Packet]int64
	wraps     int
	reloads   int // effective reloads (a new Firewall was installed)
	steps     []string
	keepSteps int
	lastKind  string
	bad       bool
}

func (h *c19Hist) logf(format string, a ...any) {
	if h.keepSteps > 0 && len(h.steps) >= 2*h.keepSteps {
		h.steps = append(h.steps[:0], h.steps[len(h.steps)-h.keepSteps:]...)
	}
	h.steps = append(h.steps, fmt.Sprintf(format, a...))
}

func (h *c19Hist) replay(what string) any {
	note := "every line is one step: a reload through config.C.ReloadConfigString -> Interface.reloadFirewall, or one Firewall.Drop call"
	if h.keepSteps > 0 {
		note += fmt.Sprintf("; only the last <=%d steps are kept (the run is regenerated from the seed)", 2*h.keepSteps)
	}
	return map[string]any{"note": note, "installed_firewall_config": h.curText, "cert_unsafe_networks": fmt.Sprint(h.fx.unsafe[h.certState]),
		"routine_cache": h.cacheD.String(), "history": append([]string(nil), h.steps...), "judgement": what,
		"effective_reloads": h.reloads, "rulesVersion": h.ifc.firewall.rulesVersion}
}

func c19Start(r *verifkit.Reporter, fx *c19Fixture, cfg *c19Cfg, certState int, startVersion uint16, cacheD time.Duration, ctx context.Context) *c19Hist {
	h := &c19Hist{r: r, fx: fx, cur: cfg, certState: certState, cacheD: cacheD, t0: time.Now(),
		flows: map[firewall.Packet]*c19Flow{}, forgotten: map[firewall.Packet]bool{}, expired: map[firewall.Packet]bool{},
		passEpoch: map[firewall.Packet]int64{}, timed: cfg.timed}
	h.c = config.NewC(fx.l)
	h.curText = cfg.yaml()
	if err := h.c.LoadString(h.curText); err != nil {
		r.Inconclusive("C19 initial config did not parse: " + err.Error())
		return nil
	}
	pki := &PKI{l: fx.l}
	pki.cs.Store(&CertState{v2Cert: fx.nodeCerts[certState]})
	pki.caPool.Store(fx.caPool)
	fw, err := NewFirewallFromConfig(fx.l, pki.getCertState(), h.c)
	if err != nil {
		r.Inconclusive("C19 initial firewall refused: " + err.Error() + "\n" + h.curText)
		return nil
	}
	fw.rulesVersion = startVersion
	h.ifc = &Interface{l: fx.l, pki: pki, firewall: fw}
	h.c.RegisterReloadCallback(h.ifc.reloadFirewall)
	if cacheD > 0 {
		h.cIn = firewall.NewConntrackCacheTicker(ctx, fx.l, cacheD)
		h.cOut = firewall.NewConntrackCacheTicker(ctx, fx.l, cacheD)
	}
	h.logf("start: rulesVersion=%d cert unsafe=%v config:\n%s", startVersion, fx.unsafe[certState], h.curText)
	return h
}

// reload installs cfg (and certificate state) through the real reload path and updates the model.
func (h *c19Hist) reload(cfg *c19Cfg, certState int, kind string) {
	r := h.r
	text := cfg.yaml()
	oldFw, oldV := h.ifc.firewall, h.ifc.firewall.rulesVersion
	if certState != h.certState {
		h.ifc.pki.cs.Store(&CertState{v2Cert: h.fx.nodeCerts[certState]})
	}
	var err error
	if r.Guard("C19/panic", func() any { return h.replay("reload " + kind) }, func() { err = h.c.ReloadConfigString(text) }) {
		h.bad = true
		return
	}
	if err != nil {
		r.Inconclusive("C19 generated config did not parse: " + err.Error())
		h.bad = true
		return
	}
	installed := h.ifc.firewall != oldFw
	expectInstall := !cfg.broken && (text != h.curText || !slices.Equal(h.fx.unsafe[certState], h.fx.unsafe[h.certState]))
	h.lastKind = kind
	if cfg.broken {
		// refused: the previous rules stay current; the certificate state was still swapped
		h.logf("reload[%s] refused config (installed=%v)", kind, installed)
		if installed {
			r.Violation("C19/broken-config-installed", "a firewall section with an unparsable rule replaced the running firewall", h.replay(text))
			h.bad = true
		}
		r.Count("reload_refused", 1)
		// NOTE the config object now holds the refused text; the next reload is compared with it.
		h.curTextAfterRefusal(text, certState)
		return
	}
	if installed != expectInstall {
		h.logf("reload[%s] installed=%v expected=%v", kind, installed, expectInstall)
		r.Violation("C19/reload-not-applied", fmt.Sprintf("reload %s: new firewall installed=%v but the firewall section/unsafe networks changed=%v", kind, installed, expectInstall), h.replay(text))
		h.bad = true
		return
	}
	prevCanon := h.cur.canon(h.certState)
	h.curText = text
	if !installed {
		h.logf("reload[%s] nothing changed, rulesVersion stays %d", kind, oldV)
		r.Count("reload_noop", 1)
		return
	}
	h.reloads++
	h.reloadAt = append(h.reloadAt, time.Now())
	newV := h.ifc.firewall.rulesVersion
	// the version counter is only observed to name witness classes and to prove that the wrap was crossed;
	// how an implementation numbers rule sets is not part of the property
	if newV <= oldV {
		h.wraps++
		r.Count("version_wraps", 1)
	}
	h.cur, h.certState = cfg, certState
	rulesChanged := h.cur.canon(h.certState) != prevCanon
	if rulesChanged {
		r.Count("reload_rules_changed", 1)
	} else {
		r.Count("reload_rules_preserved", 1)
	}
	for p, fl := range h.flows {
		if rulesChanged {
			fl.changed = true
		}
		if _, all := h.origAllowed(p, fl); !all {
			fl.lazy = true
		}
	}
	h.logf("reload[%s] -> rulesVersion=%d rulesChanged=%v cert unsafe=%v %s", kind, newV, rulesChanged, h.fx.unsafe[certState], cfg.description)
}

// after a refused reload config.C compares the next text with the refused one; remember that for expectInstall.
func (h *c19Hist) curTextAfterRefusal(text string, certState int) {
	h.curText = text
	if certState != h.certState {
		// the certificate swap itself was not applied to the firewall either (NewFirewallFromConfig failed)
		h.ifc.pki.cs.Store(&CertState{v2Cert: h.fx.nodeCerts[h.certState]})
	}
}

// origAllowed: is any / is every possible original direction of the flow allowed by the installed state?
func (h *c19Hist) origAllowed(p firewall.Packet, fl *c19Flow) (some, all bool) {
	if !h.fx.addrOK(h.certState, p, fl.peer) {
		return false, false
	}
	all = true
	if fl.origIn {
		ok := c19Allowed(h.fx, h.cur, p, true, fl.peer)
		some, all = some || ok, all && ok
	}
	if fl.origOut {
		ok := c19Allowed(h.fx, h.cur, p, false, fl.peer)
		some, all = some || ok, all && ok
	}
	return some, all
}

func (f *c19Flow) orig() string {
	switch {
	case f.origIn && f.origOut:
		return "in-or-out"
	case f.origIn:
		return "in"
	}
	return "out"
}

// timeoutOf is the configured idle timeout of a protocol in this history.
func (h *c19Hist) timeoutOf(proto uint8) time.Duration {
	if h.timed[0] == 0 {
		return 1000 * time.Hour // untimed histories stay far below 3 minutes of virtual time
	}
	switch proto {
	case firewall.ProtoTCP:
		return time.Duration(h.timed[0]) * time.Second
	case firewall.ProtoUDP:
		return time.Duration(h.timed[1]) * time.Second
	}
	return time.Duration(h.timed[2]) * time.Second
}

func (h *c19Hist) reloadedSince(t time.Time) bool {
	for _, at := range h.reloadAt {
		if !at.Before(t) {
			return true
		}
	}
	return false
}

func (h *c19Hist) epoch(t time.Time) int64 { return int64(t.Sub(h.t0) / h.cacheD) }

func c19Tuple(p firewall.Packet) string {
	return fmt.Sprintf("%v:%d<->%v:%d %s", p.LocalAddr, p.LocalPort, p.RemoteAddr, p.RemotePort, c19ProtoName(p.Protocol))
}

func (h *c19Hist) send(p firewall.Packet, in bool, peer *c19Peer, why string) (passed bool) {
	r := h.r
	var cache firewall.ConntrackCache
	if h.cacheD > 0 {
		if in {
			cache = h.cIn.Get()
		} else {
			cache = h.cOut.Get()
		}
	}
	_, inCache := cache[p]
	dir := "out"
	if in {
		dir = "in"
	}
	fw := h.ifc.firewall
	step := fmt.Sprintf("v=%d %s %s %s via %s", fw.rulesVersion, why, dir, c19Tuple(p), peer.name)
	var err error
	if r.Guard("C19/panic", func() any { return h.replay(step) }, func() { err = fw.Drop(p, in, peer.h, h.fx.caPool, cache) }) {
		h.bad = true
		return false
	}
	passed = err == nil
	r.Eval(1)
	now := time.Now()
	slack := false
	if h.cacheD > 0 {
		if e, ok := h.passEpoch[p]; ok && e == h.epoch(now) {
			slack = true
		}
	}
	fl := h.flows[p]
	addrOK := h.fx.addrOK(h.certState, p, peer)
	allowedNow := addrOK && c19Allowed(h.fx, h.cur, p, in, peer)
	stale, origAll, idleOut := false, false, false
	var idle time.Duration
	if fl != nil {
		var origAny bool
		origAny, origAll = h.origAllowed(p, fl)
		stale = !origAny
		idle = now.Sub(fl.lastSeen)
		idleOut = idle > fl.t // idle longer than its protocol's timeout: expired, whatever was reloaded meanwhile
	}
	verdict, sig := "", ""
	viol := func(key, what string) {
		verdict = "VIOLATION " + key
		res := fmt.Sprintf("dropped [%v]", err)
		if passed {
			res = "passed"
		}
		h.logf("%s -> %s: %s", step, res, verdict)
		r.Violation(key, what+": "+step, h.replay(verdict))
	}
	notePass := func() {
		if fl != nil {
			fl.lastSeen = now
		}
		if fl != nil && !slack {
			// the table was consulted for this packet (no routine cache could have answered it): the flow is
			// known to be held under the installed rule set
			fl.lazy, fl.changed, fl.wraps, fl.version = false, false, h.wraps, fw.rulesVersion
		}
		if h.cacheD > 0 {
			h.passEpoch[p] = h.epoch(now)
		}
	}
	switch {
	case !addrOK:
		sig = "invalid-address"
		verdict = "address not routable/authentic now"
		if passed {
			viol("C19/invalid-address-passed", "a packet whose local address is no longer one of the node's (unsafe) networks passed")
			return
		}
	case allowedNow:
		state := "new"
		switch {
		case fl != nil && (stale || idleOut) && slack:
			// a routine cache may answer this packet without the conntrack table being consulted: the old
			// entry may survive until the cache tick ends, or may be replaced by this packet
			state = "replaces-stale-flow-or-answered-by-cache"
			fl.origIn, fl.origOut = true, true
		case fl != nil && stale:
			state = "replaces-stale-flow"
			fl = nil
		case fl != nil && idleOut:
			state = "replaces-expired-flow"
			fl = nil
		case fl != nil:
			state = "existing-flow"
			if (fl.lazy || h.wraps > fl.wraps || !origAll || idle >= fl.t-h.cacheD) && !(in && fl.origIn) && !(!in && fl.origOut) {
				// the implementation may have forgotten the flow already (lazy revalidation, or idle exactly at
				// the timeout / within the cache margin of it); then this packet re-creates it
				state = "existing-or-recreated-flow"
				fl.origIn, fl.origOut = true, true
			}
		case h.forgotten[p]:
			state = "re-creates-forgotten"
		}
		sig = "rule-allowed/" + state
		verdict = "rule-allowed (" + state + ")"
		if !passed {
			viol("C19/rule-allowed-packet-dropped", fmt.Sprintf("the installed rules allow this packet but Drop returned %v", err))
			h.bad = true
			return
		}
		if fl == nil {
			fl = &c19Flow{origIn: in, origOut: !in, peer: peer, wraps: h.wraps, version: fw.rulesVersion, t: h.timeoutOf(p.Protocol)}
			h.flows[p] = fl
			delete(h.forgotten, p)
			delete(h.expired, p)
		}
		notePass()
		if slack {
			fl.lazy = true // answered by a routine cache or by the rules: whether the table now holds the flow is open
		}
	case fl == nil:
		sig = fmt.Sprintf("untracked/forgotten=%v/slack=%v/pass=%v", h.forgotten[p], slack, passed)
		verdict = "no flow"
		if passed && !slack {
			if h.expired[p] {
				viol("C19/expired-flow-honoured", "the flow idled past its timeout earlier and no rule has allowed a new packet for it, yet it passed")
			} else if h.forgotten[p] {
				viol("C19/forgotten-flow-honoured-again", "the flow was dropped by revalidation earlier and no rule has allowed a new packet for it, yet it passed")
			} else {
				viol("C19/untracked-tuple-honoured", "no rule allows the packet and no flow exists for the tuple, yet it passed")
			}
			return
		}
		if passed {
			r.Count("passed_by_cache_slack", 1)
		}
	case stale:
		sig = fmt.Sprintf("stale/orig=%s/after=%s/slack=%v/pass=%v/wrapped=%v", fl.orig(), h.lastKind, slack, passed, h.wraps > fl.wraps)
		verdict = "flow's original direction is not allowed by the installed rules"
		switch {
		case passed && !slack:
			key := "C19/stale-flow-honoured"
			if h.wraps > fl.wraps && fl.version == fw.rulesVersion {
				key = "C19/stale-flow-honoured-version-alias"
			}
			viol(key, fmt.Sprintf("flow created in direction %s under older rules (last validated at rulesVersion %d); the installed rules (version %d) do not allow that direction, yet the packet passed", fl.orig(), fl.version, fw.rulesVersion))
			return
		case passed:
			r.Count("passed_by_cache_slack", 1)
			h.passEpoch[p] = h.epoch(now)
		default:
			delete(h.flows, p)
			h.forgotten[p] = true
			r.Count("stale_flow_dropped", 1)
		}
	case idleOut:
		sig = fmt.Sprintf("expired/orig=%s/after=%s/reloaded-since=%v/slack=%v/pass=%v", fl.orig(), h.lastKind, h.reloadedSince(fl.lastSeen), slack, passed)
		verdict = fmt.Sprintf("flow idle %v > timeout %v: expired, reloads never revive it", idle, fl.t)
		switch {
		case passed && !slack:
			key, what := "C19/expired-flow-honoured", "no reload since it last passed"
			if h.reloadedSince(fl.lastSeen) {
				key, what = "C19/expired-flow-revived-by-reload", "a reload that still allows its original direction was installed since it last passed"
			}
			viol(key, fmt.Sprintf("no rule allows the packet and its flow has been idle %v > its protocol's timeout %v (%s), yet it passed", idle, fl.t, what))
			return
		case passed:
			r.Count("passed_by_cache_slack", 1)
			h.passEpoch[p] = h.epoch(now)
			fl.lastSeen = now
		default:
			delete(h.flows, p)
			h.forgotten[p], h.expired[p] = true, true
			r.Count("expired_flow_dropped", 1)
			if h.reloadedSince(fl.lastSeen) {
				r.Count("expired_flow_dropped_after_reload", 1)
			}
		}
	default:
		must := !fl.lazy && origAll && idle < fl.t-h.cacheD
		sig = fmt.Sprintf("tracked/orig=%s/must=%v/changed=%v/after=%s/pass=%v/cachehit=%v/wrapped=%v", fl.orig(), must, fl.changed, h.lastKind, passed, inCache, h.wraps > fl.wraps)
		verdict = fmt.Sprintf("tracked, original direction allowed now (must-pass=%v)", must)
		switch {
		case passed:
			r.Count("tracked_flow_honoured", 1)
			if h.timed[0] > 0 && h.reloadedSince(fl.lastSeen) {
				r.Count("fresh_flow_honoured_after_reload_timed", 1)
			}
			if fl.version != fw.rulesVersion {
				r.Count("honoured_after_reload", 1)
			}
			notePass()
		case must:
			key := "C19/still-allowed-flow-cut"
			what := "rules changed, but every rule set installed since the flow last passed allowed its original direction"
			if h.wraps > fl.wraps && !fl.changed {
				key, what = "C19/rule-preserving-reload-cuts-flow-at-version-wrap", "no reload since the flow last passed changed anything about the rules; one of them wrapped rulesVersion to 0"
			} else if h.wraps > fl.wraps {
				key, what = "C19/established-flow-cut-at-version-wrap", "every rule set installed since the flow last passed allowed its original direction; one of the reloads wrapped rulesVersion to 0"
			} else if !fl.changed {
				key, what = "C19/established-flow-cut-by-rule-preserving-reload", "no reload since the flow last passed changed anything about the rules"
			}
			delete(h.flows, p)
			viol(key, "an established flow was not honoured although "+what)
			return
		default:
			delete(h.flows, p)
			h.forgotten[p] = true
			r.Count("lazy_flow_dropped", 1)
		}
	}
	res := fmt.Sprintf("dropped [%v]", err)
	if passed {
		res = "passed"
	}
	h.logf("%s -> %s (%s)", step, res, verdict)
	cm := "nocache"
	if h.cacheD > 0 {
		cm = "cache"
	}
	r.DistinctClass(fmt.Sprintf("%s %s %s %s", c19ProtoName(p.Protocol), dir, cm, sig))
	return passed
}

func (h *c19Hist) sleep(d time.Duration) {
	if d > 0 {
		time.Sleep(d)
		h.logf("sleep %v", d)
	}
	synctest.Wait()
}

// ---------- PRNG histories ----------

type c19Tup struct {
	p    firewall.Packet
	peer *c19Peer
	in   bool // direction a rule was found for (the likely original direction)
}

func c19ProtoNum(rng *rand.Rand, s string) uint8 {
	switch s {
	case "tcp":
		return firewall.ProtoTCP
	case "udp":
		return firewall.ProtoUDP
	case "icmp":
		return firewall.ProtoICMP
	}
	return []uint8{firewall.ProtoTCP, firewall.ProtoUDP, firewall.ProtoICMP}[rng.IntN(3)]
}

// c19TupleFor builds a tuple that rule r would allow for some peer (when possible).
func c19TupleFor(fx *c19Fixture, rng *rand.Rand, r c19Rule, eph uint16) c19Tup {
	var peer *c19Peer
	for tries := 0; tries < 6; tries++ {
		peer = fx.peers[rng.IntN(len(fx.peers))]
		probe := firewall.Packet{LocalAddr: fx.nodeAddr, RemoteAddr: peer.addr, Protocol: firewall.ProtoICMP}
		if c19Allowed(fx, &c19Cfg{rules: []c19Rule{{in: r.in, proto: "any", whoKind: r.whoKind, who: r.who, localCID: "any"}}}, probe, r.in, peer) {
			break
		}
	}
	p := firewall.Packet{LocalAddr: fx.nodeAddr, RemoteAddr: peer.addr, Protocol: c19ProtoNum(rng, r.proto)}
	if r.whoKind == "cidr" && r.who == "172.16.5.0/24" || len(peer.unsafe) > 0 && rng.IntN(3) == 0 {
		peer = fx.peers[2]
		p.RemoteAddr = netip.MustParseAddr("172.16.5.9")
	}
	switch r.localCID {
	case "192.168.7.0/24":
		p.LocalAddr = netip.MustParseAddr("192.168.7.9")
	case "192.168.9.0/24":
		p.LocalAddr = netip.MustParseAddr("192.168.9.9")
	case "any", "0.0.0.0/0", "":
		if rng.IntN(4) == 0 {
			p.LocalAddr = netip.MustParseAddr([]string{"192.168.7.9", "192.168.9.9"}[rng.IntN(2)])
		}
	}
	svc := uint16(r.lo)
	if r.lo == 0 {
		svc = []uint16{80, 53, 22, 443, 1005, 8020, 7}[rng.IntN(7)]
	} else if r.hi > r.lo {
		svc = uint16(r.lo + rng.IntN(r.hi-r.lo+1))
	}
	switch {
	case p.Protocol == firewall.ProtoICMP:
		p.RemotePort = eph
	case r.in:
		p.LocalPort, p.RemotePort = svc, eph
	default:
		p.LocalPort, p.RemotePort = eph, svc
	}
	return c19Tup{p: p, peer: peer, in: r.in}
}

func c19MutateCfg(rng *rand.Rand, base *c19Cfg) *c19Cfg {
	n := &c19Cfg{rules: slices.Clone(base.rules), localAny: base.localAny, defTimeout: base.defTimeout, inAction: base.inAction, timed: base.timed}
	switch k := rng.IntN(8); {
	case k == 0 && len(n.rules) > 0:
		i := rng.IntN(len(n.rules))
		n.rules = slices.Delete(n.rules, i, i+1)
		n.description = "(rule removed)"
	case k == 1:
		n.rules = append(n.rules, c19RandRule(rng))
		n.description = "(rule added)"
	case k == 2 && len(n.rules) > 0:
		i := rng.IntN(len(n.rules))
		w := c19Whos[rng.IntN(len(c19Whos))]
		n.rules[i].whoKind, n.rules[i].who = w[0], w[1]
		n.description = "(host/group/cidr of a rule changed)"
	case k == 3 && len(n.rules) > 0:
		i := rng.IntN(len(n.rules))
		if n.rules[i].proto == "tcp" || n.rules[i].proto == "udp" {
			pr := c19Ports[rng.IntN(len(c19Ports))]
			n.rules[i].lo, n.rules[i].hi = pr[0], pr[1]
		} else {
			n.rules[i].in = !n.rules[i].in
		}
		n.description = "(port or direction of a rule changed)"
	case k == 4 && len(n.rules) > 0:
		i := rng.IntN(len(n.rules))
		n.rules[i].localCID = c19Locals[rng.IntN(len(c19Locals))]
		n.description = "(local_cidr of a rule changed)"
	case k == 5:
		n.localAny = !n.localAny
		n.description = "(default_local_cidr_any toggled)"
	case k == 6 && len(n.rules) > 0:
		i := rng.IntN(len(n.rules))
		n.rules[i].in = !n.rules[i].in
		n.description = "(rule moved to the other table)"
	default:
		n.rules = nil
		for i, m := 0, rng.IntN(4); i < m; i++ {
			n.rules = append(n.rules, c19RandRule(rng))
		}
		n.description = "(different rule list)"
	}
	return n
}

func c19RunHistory(r *verifkit.Reporter, fx *c19Fixture, idx int) {
	rng := verifkit.SubRand("C19hist", idx)
	base := &c19Cfg{defTimeout: 10, inAction: "drop", description: "(base)"}
	if rng.IntN(2) == 0 {
		// timed history: small conntrack timeouts, idle gaps around them between traffic and reloads
		base.timed = [][3]int{{6, 3, 4}, {2, 5, 3}, {4, 4, 4}, {8, 2, 5}}[rng.IntN(4)]
	}
	for i, n := 0, 1+rng.IntN(5); i < n; i++ {
		base.rules = append(base.rules, c19RandRule(rng))
	}
	base.localAny = rng.IntN(5) == 0
	palette := []*c19Cfg{base}
	for i, n := 0, 1+rng.IntN(3); i < n; i++ {
		palette = append(palette, c19MutateCfg(rng, palette[rng.IntN(len(palette))]))
	}
	var cacheD time.Duration
	if rng.IntN(10) < 3 {
		cacheD = time.Second
	}
	startV := uint16(0)
	switch rng.IntN(4) {
	case 0:
		startV = uint16(65536 - 1 - rng.IntN(6))
	case 1:
		startV = uint16(rng.IntN(65536))
	}
	certState := []int{0, 0, 1, 2}[rng.IntN(4)]
	ctx, cancel := context.WithCancel(context.Background())
	defer func() { cancel(); synctest.Wait() }()
	r.Pre("C19 history #%d (regenerate with this VERIF_SEED)", idx)
	h := c19Start(r, fx, base, certState, startV, cacheD, ctx)
	if h == nil {
		return
	}
	// tuples: mostly derived from rules of the palette so that they are allowed by some of the rule sets
	var tups []c19Tup
	eph := uint16(33000)
	for i, n := 0, 3+rng.IntN(6); i < n; i++ {
		c := palette[rng.IntN(len(palette))]
		var ru c19Rule
		if len(c.rules) > 0 && rng.IntN(6) != 0 {
			ru = c.rules[rng.IntN(len(c.rules))]
		} else {
			ru = c19RandRule(rng)
		}
		tups = append(tups, c19TupleFor(fx, rng, ru, eph))
		eph++
	}
	curIdx := 0
	nsteps := 12 + rng.IntN(50)
	for s := 0; s < nsteps && !h.bad; s++ {
		if cacheD > 0 && time.Since(h.t0) < 100*time.Second {
			h.sleep([]time.Duration{0, 0, 0, 300 * time.Millisecond, time.Second, 1200 * time.Millisecond}[rng.IntN(6)])
		}
		switch k := rng.IntN(20); {
		case k < 11 && base.timed[0] > 0 && len(h.flows) > 0 && rng.IntN(3) == 0:
			// idle probe: let one tracked flow idle for a gap chosen relative to its protocol's timeout, optionally
			// reload (the flow's original direction may or may not stay allowed), then send the packet of the
			// other direction as the first lookup
			var cand []c19Tup
			for _, t := range tups {
				if h.flows[t.p] != nil {
					cand = append(cand, t)
				}
			}
			if len(cand) == 0 {
				break
			}
			t := cand[rng.IntN(len(cand))]
			fl := h.flows[t.p]
			eps := []time.Duration{time.Nanosecond, time.Millisecond}[rng.IntN(2)]
			gap := []time.Duration{fl.t / 2, fl.t - eps, fl.t + eps, 3 * fl.t}[rng.IntN(4)]
			h.sleep(time.Until(fl.lastSeen.Add(gap)))
			switch rng.IntN(6) {
			case 0:
				curIdx = rng.IntN(len(palette))
				h.reload(palette[curIdx], h.certState, "switch-rule-set")
			case 1, 2:
				c := *palette[curIdx]
				c.inAction = map[string]string{"drop": "reject", "reject": "drop"}[c.inAction]
				c.description = "(inbound_action changed)"
				palette[curIdx] = &c
				h.reload(&c, h.certState, "rule-preserving-change")
			case 3:
				h.reload(palette[curIdx], h.certState, "identical-config")
			}
			h.send(t.p, !fl.origIn, t.peer, "packet-after-idle-gap")
		case k < 11:
			t := tups[rng.IntN(len(tups))]
			in := t.in
			why := "packet-in-rule-direction"
			if rng.IntN(2) == 0 {
				in, why = !in, "packet-in-reverse-direction"
			}
			h.send(t.p, in, t.peer, why)
		case k < 14:
			curIdx = rng.IntN(len(palette))
			h.reload(palette[curIdx], h.certState, "switch-rule-set")
		case k == 14:
			h.reload(palette[curIdx], h.certState, "identical-config")
		case k == 15:
			// same rules, different order / timeout / action: the firewall section changes, the rules do not
			c := *palette[curIdx]
			c.rules = slices.Clone(c.rules)
			kind := rng.IntN(3)
			if kind == 1 && c.timed[0] > 0 {
				kind = 2 // the timeouts of a timed history stay fixed: the model's T must not change under a flow
			}
			switch kind {
			case 0:
				rng.Shuffle(len(c.rules), func(i, j int) { c.rules[i], c.rules[j] = c.rules[j], c.rules[i] })
				c.description = "(rules reordered)"
			case 1:
				c.defTimeout = 10 + rng.IntN(5)
				c.description = "(conntrack default_timeout changed)"
			default:
				c.inAction = []string{"drop", "reject"}[rng.IntN(2)]
				c.description = "(inbound_action changed)"
			}
			palette[curIdx] = &c
			h.reload(&c, h.certState, "rule-preserving-change")
		case k == 16 || k == 17:
			h.reload(palette[curIdx], rng.IntN(3), "unsafe-networks-change")
		case k == 18:
			c := *palette[curIdx]
			c.broken = true
			h.reload(&c, h.certState, "broken-config")
		default:
			palette = append(palette, c19MutateCfg(rng, palette[curIdx]))
			curIdx = len(palette) - 1
			h.reload(palette[curIdx], h.certState, "edit-rule-set")
		}
	}
	if r.WantSample() {
		r.Sample(map[string]any{"history": h.steps})
	}
	r.Count("histories", 1)
	if base.timed[0] > 0 {
		r.Count("histories_timed", 1)
	}
	r.Count("effective_reloads", h.reloads)
}

func TestVerifC19Histories(t *testing.T) {
	r := verifkit.NewReporter(t, "C19", "hist",
		"PRNG histories: a palette of 2-5 generated rule sets (proto/port/range, host/group/groups/cidr, local_cidr, default_local_cidr_any) installed through the real reloadFirewall in random order (reverts, identical reloads, rule-preserving changes, refused configs, certificate unsafe-network changes, starts just below the uint16 version wrap), interleaved with packets of 3-8 tuples in both directions, with and without per-direction routine caches; half of the histories are timed (conntrack timeouts of 2-8 s, idle gaps T/2, T-eps, T+eps, 3T on a tracked flow followed by an optional reload and the opposite-direction packet as first lookup: an expired flow is never revived); distinct = (protocol, direction, cache, model case, original direction, last reload kind, verdict) classes")
	defer r.Done()
	fx := c19NewFixture()
	n := verifkit.Scale(2000, 200000)
	for i := 0; i < n; i++ {
		if !verifkit.Mine(i) {
			continue
		}
		synctest.Test(t, func(t *testing.T) { c19RunHistory(r, fx, i) })
	}
}

// ---------- the uint16 wrap, crossed by 65,537+ consecutive real reloads ----------

func c19RunWrap(r *verifkit.Reporter, fx *c19Fixture, run int) {
	rng := verifkit.SubRand("C19wrap", run)
	ctx, cancel := context.WithCancel(context.Background())
	defer func() { cancel(); synctest.Wait() }()
	mk := func(desc string, timeout int, rules ...c19Rule) *c19Cfg {
		return &c19Cfg{rules: rules, defTimeout: timeout, inAction: "drop", description: desc}
	}
	web := c19Rule{proto: "tcp", lo: 80, hi: 80, whoKind: "host", who: "any"}
	dns := c19Rule{proto: "udp", lo: 53, hi: 53, whoKind: "group", who: "g2"}
	ssh := c19Rule{in: true, proto: "tcp", lo: 22, hi: 22, whoKind: "cidr", who: "10.0.0.0/24"}
	// A allows web+dns out and ssh in; B withdraws web; C withdraws ssh. The ' variants differ only in a timeout.
	A := [2]*c19Cfg{mk("A", 10, web, dns, ssh), mk("A'", 11, web, dns, ssh)}
	B := [2]*c19Cfg{mk("B (tcp/80 out withdrawn)", 10, dns, ssh), mk("B'", 11, dns, ssh)}
	C := [2]*c19Cfg{mk("C (tcp/22 in withdrawn)", 10, web, dns), mk("C'", 11, web, dns)}
	h := c19Start(r, fx, A[0], 0, 0, 0, ctx)
	if h == nil {
		return
	}
	h.keepSteps = 60
	pa, pb := fx.peers[0], fx.peers[1]
	tcp := func(peer *c19Peer, eph uint16) firewall.Packet {
		return firewall.Packet{LocalAddr: fx.nodeAddr, RemoteAddr: peer.addr, LocalPort: eph, RemotePort: 80, Protocol: firewall.ProtoTCP}
	}
	sshIn := func(peer *c19Peer, eph uint16) firewall.Packet {
		return firewall.Packet{LocalAddr: fx.nodeAddr, RemoteAddr: peer.addr, LocalPort: 22, RemotePort: eph, Protocol: firewall.ProtoTCP}
	}
	keeper := firewall.Packet{LocalAddr: fx.nodeAddr, RemoteAddr: pb.addr, LocalPort: 34000, RemotePort: 53, Protocol: firewall.ProtoUDP}
	// D keeps only udp/53: from reload 65,533 on D/D' alternate, so every tcp sleeper's original direction is
	// withdrawn during the whole window in which version numbers come around again, the dns flows stay allowed,
	// and the reload that wraps the counter changes nothing about the rules.
	D := [2]*c19Cfg{mk("D (only udp/53 out left)", 10, dns), mk("D'", 11, dns)}
	// sleepers: created at (observed) version v, never touched until the installed version equals v again after
	// the counter wrapped, or until the end of the run. No assumption is made about how versions are numbered.
	type sleeper struct {
		p       firewall.Packet
		peer    *c19Peer
		in      bool
		version uint16
		probed  bool
	}
	var sleepers []*sleeper
	addSleeper := func(p firewall.Packet, peer *c19Peer, in bool) {
		h.send(p, in, peer, "create-sleeper")
		sleepers = append(sleepers, &sleeper{p: p, peer: peer, in: in, version: h.ifc.firewall.rulesVersion})
	}
	probe := func(s *sleeper, why string) {
		s.probed = true
		h.send(s.p, !s.in, s.peer, why)
		h.send(s.p, !s.in, s.peer, why+"-again")
		r.Count("sleepers_probed", 1)
	}
	const windowStart = 65533
	total := 65536 + 8 + rng.IntN(8)
	victimN := uint16(36000)
	addSleeper(tcp(pa, 35000), pa, false) // created before any reload
	h.send(keeper, false, pb, "create-keeper")
	parity := 0
	for h.reloads < total && !h.bad {
		n := h.reloads + 1 // the count this reload will produce
		parity ^= 1
		fam := A
		if n >= windowStart {
			fam = D
		}
		excursion := fam == A && n%4099 == 7 && n < 65000
		if excursion {
			fam = [][2]*c19Cfg{B, C}[rng.IntN(2)]
		}
		h.reload(fam[parity], 0, "wrap-run")
		if h.reloads != n {
			r.Inconclusive(fmt.Sprintf("C19 wrap run: reload %d was not effective", n))
			return
		}
		switch n {
		case 1:
			addSleeper(sshIn(pb, 35001), pb, true)
		case 2:
			addSleeper(tcp(pb, 35002), pb, false)
		case 3:
			// udp/53 to a g2 host is allowed by every rule set of this run: must still be honoured when its version comes around
			addSleeper(firewall.Packet{LocalAddr: fx.nodeAddr, RemoteAddr: pb.addr, LocalPort: 35003, RemotePort: 53, Protocol: firewall.ProtoUDP}, pb, false)
		case 5:
			addSleeper(tcp(pa, 35005), pa, false)
		case windowStart - 1:
			addSleeper(tcp(pa, 35532), pa, false) // created just before the window, under A
		}
		if n >= windowStart && h.wraps > 0 {
			v := h.ifc.firewall.rulesVersion
			for _, s := range sleepers {
				if !s.probed && s.version == v {
					probe(s, "probe-sleeper-reply-at-its-version")
				}
			}
		}
		switch {
		case excursion:
			// a victim flow created under A earlier must be forgotten during the excursion and stay forgotten after it
			h.send(tcp(pa, victimN), true, pa, "victim-reply")
			h.send(sshIn(pa, victimN), false, pa, "victim-reply")
			h.send(keeper, true, pb, "keeper-reply")
		case n%4099 == 6 && n < 65000:
			victimN++
			h.send(tcp(pa, victimN), false, pa, "create-victim")
			h.send(sshIn(pa, victimN), true, pa, "create-victim")
		case n%4099 == 9 && n < 65000:
			h.send(tcp(pa, victimN), true, pa, "victim-reply-after-revert")
			h.send(sshIn(pa, victimN), false, pa, "victim-reply-after-revert")
		case n >= windowStart:
			// the keeper is seen under every rule set of the window, so each reload in it (including the one that
			// wraps the counter) changes nothing about the rules since the keeper last passed
			h.send(keeper, true, pb, "keeper-reply")
			if n%2 == 0 {
				h.send(keeper, false, pb, "keeper")
			}
		case n%997 == 0:
			h.send(keeper, rng.IntN(2) == 0, pb, "keeper")
		}
	}
	if h.wraps == 0 {
		r.Inconclusive("C19 wrap run: the version counter was never observed to wrap")
	}
	for _, s := range sleepers {
		if !s.probed && !h.bad {
			probe(s, "probe-sleeper-reply-at-end")
		}
	}
	r.Count("wrap_runs", 1)
	r.Count("wrap_run_reloads", h.reloads)
	r.Info("wrap_run_final_rulesVersion", h.ifc.firewall.rulesVersion)
	r.Sample(map[string]any{"wrap_run": run, "effective_reloads": h.reloads, "last_steps": h.steps[max(0, len(h.steps)-12):]})
}

func TestVerifC19Wrap(t *testing.T) {
	r := verifkit.NewReporter(t, "C19", "wrap",
		"one run (thorough: 10) of 65,544+ consecutive effective reloads through the real reloadFirewall from rulesVersion 0, alternating rule-preserving variants of four rule sets, with sleeper flows created at the first few versions and just before the wrap and probed exactly when the installed version equals their creation version again (under rules that withdraw / keep their original direction), a keeper flow touched every 997 reloads and around the wrap, and victim flows around rule-set excursions; distinct = model case classes")
	defer r.Done()
	fx := c19NewFixture()
	runs := verifkit.Scale(1, 10)
	for i := 0; i < runs; i++ {
		if !verifkit.Mine(i) {
			continue
		}
		synctest.Test(t, func(t *testing.T) { c19RunWrap(r, fx, i) })
	}
}
