//go:build e2e_testing

package nebula

// C39 — relays forward only for the pair they were set up for.
//
// One started node R (relay.am_relay on or off, toggled by reload) in a synctest bubble and three or four puppet peers
// (S, T, U, ...) holding genuine tunnels to it. The puppets are hostile but authenticated: they send relay control
// messages with arbitrary claimed from/to addresses, stale / foreign / random relay indexes, duplicates, v1 and v2
// encodings, unsolicited responses; they answer (or do not answer) the relay requests R forwards to them; they send
// relay-wrapped data on every index they know of; tunnels are torn down and re-made in between.
// Everything is serialized: one injected packet, then quiescence, then R's emissions are decrypted with the receiving
// puppet's tunnel keys.
// Ground truth kept by the harness: which puppet confirmed (CreateRelayResponse it really sent) which (from,to) pair on
// which of its own relay indexes.
// Oracle on every relay-wrapped packet R emits after a relay-wrapped packet from puppet P was injected ("a forward"):
//   - R is configured as a relay at that moment;
//   - it goes to another puppet X (never back to P, never to R itself), carries P's inner bytes unchanged, and its header
//     index j is an index on which X itself confirmed a pair (f -> X) with f among P's certified addresses
//     (only between the two peers that negotiated the relay, only once the onward leg is established);
// and at every quiescent point: every relay index R holds points at a live tunnel that lists it, and no relay index
// survives the tunnel that owned it.

import (
	"fmt"
	"net/netip"
	"slices"
	"testing"
	"time"

	"github.com/slackhq/nebula/cert"
	"github.com/slackhq/nebula/header"
	"github.com/slackhq/nebula/verifkit"
)

type c39Confirm struct {
	from netip.Addr // the relay-from address the puppet confirmed
	to   netip.Addr
}

type c39Puppet struct {
	p         *vnPuppet
	tun       *vnTunnel
	name      string
	nextIdx   uint32
	confirmed map[uint32]c39Confirm // my relay index -> pair I confirmed to R
	requested map[uint32]netip.Addr // relay index I chose in a request of mine -> the target address I asked for (latest)
	// A hostile peer may use one of its own index values for several requests / confirmations; every pair it ever attached
	// to an index is a pair it negotiated on that index.
	requestedAll map[uint32][]netip.Addr
	confirmedAll map[uint32][]c39Confirm
	legByRIdx    map[uint32]netip.Addr // index R gave me for a leg I requested (ResponderRelayIndex of its response) -> the target of that leg
	askedByR     map[uint32]c39Confirm // InitiatorRelayIndex of a request R sent me -> the pair R named in it
	pendingRq    []*NebulaControl      // CreateRelayRequests R sent me that I have not answered
	fromR        []uint32              // relay indexes R told me about (ResponderRelayIndex of responses / InitiatorRelayIndex of requests)
}

func c39Ctl(v cert.Version, typ NebulaControl_MessageType, ini, resp uint32, from, to netip.Addr) []byte {
	m := &NebulaControl{Type: typ, InitiatorRelayIndex: ini, ResponderRelayIndex: resp}
	if v == cert.Version1 && from.Is4() && to.Is4() {
		b := from.As4()
		m.OldRelayFromAddr = uint32(b[0])<<24 | uint32(b[1])<<16 | uint32(b[2])<<8 | uint32(b[3])
		b = to.As4()
		m.OldRelayToAddr = uint32(b[0])<<24 | uint32(b[1])<<16 | uint32(b[2])<<8 | uint32(b[3])
	} else {
		if from.IsValid() {
			m.RelayFromAddr = netAddrToProtoAddr(from)
		}
		if to.IsValid() {
			m.RelayToAddr = netAddrToProtoAddr(to)
		}
	}
	b, err := m.Marshal()
	if err != nil {
		panic(err)
	}
	return b
}

func c39MsgAddrs(m *NebulaControl) (from, to netip.Addr) {
	if m.OldRelayFromAddr != 0 || m.OldRelayToAddr != 0 {
		f := m.OldRelayFromAddr
		t := m.OldRelayToAddr
		return netip.AddrFrom4([4]byte{byte(f >> 24), byte(f >> 16), byte(f >> 8), byte(f)}), netip.AddrFrom4([4]byte{byte(t >> 24), byte(t >> 16), byte(t >> 8), byte(t)})
	}
	if m.RelayFromAddr != nil {
		from = protoAddrToNetAddr(m.RelayFromAddr)
	}
	if m.RelayToAddr != nil {
		to = protoAddrToNetAddr(m.RelayToAddr)
	}
	return
}

func TestVerifC39(t *testing.T) {
	r := verifkit.NewReporter(t, "C39", "relay",
		"one started relay node + 3..4 authenticated hostile puppet peers; PRNG histories of relay control messages (arbitrary from/to, stale/foreign/random indexes, duplicates, v1/v2), answers to forwarded requests, relay-wrapped data on every known index, tunnel churn and am_relay reloads; distinct = (op, am_relay, outcome) classes plus one signature per injected relay-wrapped packet")
	defer r.Done()
	scen := verifkit.Scale(10, 500)
	for sc := 0; sc < scen; sc++ {
		if !verifkit.Mine(sc) {
			continue
		}
		rng := verifkit.SubRand("C39", sc)
		vnRunBubble(t, func(t *testing.T) {
			ver := []cert.Version{cert.Version2, cert.Version1}[sc%2]
			ca := vnNewCA(ver, cert.Curve_CURVE25519)
			nw := vnNewNet(t)
			vs := []cert.Version{ver}
			amRelay := sc%5 != 4
			rn := nw.AddNode(ca.issue(vs, "relay", "10.1.0.128/16", "", nil), []*vnCA{ca}, "192.0.2.128:4242",
				m{"relay": m{"am_relay": amRelay}, "listen": m{"accept_recv_error": "never"}, "timers": m{"connection_alive_interval": 3600, "pending_deletion_interval": 3600}})
			rn.Start()
			nw.Settle()
			defer nw.StopAll()
			np := 3 + rng.IntN(2)
			var pups []*c39Puppet
			for i := 0; i < np; i++ {
				nets := fmt.Sprintf("10.1.0.%d/16", i+1)
				if ver == cert.Version2 && i == 0 {
					nets += fmt.Sprintf(",10.1.1.%d/16", i+1) // a multi-address peer
				}
				id := ca.issue(vs, fmt.Sprintf("p%d", i+1), nets, "", nil)
				pp := nw.AddPuppet(id, []*vnCA{ca}, fmt.Sprintf("192.0.2.%d:4242", i+1), ver)
				cp := &c39Puppet{p: pp, name: id.Name, nextIdx: uint32(0x7000 + 0x100*i), confirmed: map[uint32]c39Confirm{}, requested: map[uint32]netip.Addr{}, requestedAll: map[uint32][]netip.Addr{}, confirmedAll: map[uint32][]c39Confirm{}, askedByR: map[uint32]c39Confirm{}, legByRIdx: map[uint32]netip.Addr{}}
				cp.tun = pp.Handshake(rn)
				if cp.tun == nil {
					r.Inconclusive(fmt.Sprintf("scenario %d: puppet %s could not handshake with the relay", sc, id.Name))
					return
				}
				pups = append(pups, cp)
			}
			rAddr := rn.Ident.Addr()
			addrPool := func() netip.Addr {
				k := rng.IntN(np + 3)
				switch {
				case k < np:
					as := pups[k].p.Ident.Addrs()
					return as[rng.IntN(len(as))]
				case k == np:
					return rAddr
				case k == np+1:
					return netip.MustParseAddr("10.1.0.250") // nobody
				}
				return netip.Addr{}
			}
			ownerOf := func(a netip.AddrPort) *c39Puppet {
				for _, c := range pups {
					if c.p.Addr == a {
						return c
					}
				}
				return nil
			}

			var oplog []string
			logf := func(f string, a ...any) { oplog = append(oplog, fmt.Sprintf(f, a...)) }

			audit := func(when string) {
				hm := rn.F.hostMap
				hm.RLock()
				defer hm.RUnlock()
				for idx, h := range hm.Relays {
					r.Eval(1)
					if hm.Indexes[h.localIndexId] != h {
						r.Violation("C39/relay-index-outlives-its-tunnel", fmt.Sprintf("scenario %d (%s): relay index %d points at a tunnel (local index %d, %v) that is no longer held", sc, when, idx, h.localIndexId, h.vpnAddrs),
							map[string]any{"scenario": sc, "when": when, "relay_index": idx, "tunnel": vnHostinfoLine(h)})
						continue
					}
					if _, ok := h.relayState.QueryRelayForByIdx(idx); !ok {
						r.Violation("C39/relay-index-not-listed-by-its-tunnel", fmt.Sprintf("scenario %d (%s): relay index %d points at tunnel %d which has no relay entry for it", sc, when, idx, h.localIndexId),
							map[string]any{"scenario": sc, "when": when, "relay_index": idx, "tunnel": vnHostinfoLine(h)})
					}
				}
				for _, h := range hm.Indexes {
					for _, idx := range h.relayState.CopyRelayForIdxs() {
						if hm.Relays[idx] != h {
							r.Violation("C39/tunnel-relay-entry-without-index", fmt.Sprintf("scenario %d (%s): tunnel %d lists relay index %d which the hostmap does not map to it", sc, when, h.localIndexId, idx),
								map[string]any{"scenario": sc, "when": when, "relay_index": idx, "tunnel": vnHostinfoLine(h)})
						}
					}
				}
			}

			// collect what R emitted after one injection; returns relay-wrapped emissions (forwards)
			type emitted struct {
				to    *c39Puppet
				h     header.H
				plain []byte
			}
			collect := func() []emitted {
				var out []emitted
				for _, p := range nw.Inflight {
					c := ownerOf(p.To)
					if c == nil || c.tun == nil || !p.HOK {
						continue
					}
					h, plain, err := c.tun.Open(p.Data)
					if err != nil {
						continue
					}
					out = append(out, emitted{c, h, plain})
					if h.Type == header.Control {
						msg := &NebulaControl{}
						if msg.Unmarshal(plain) == nil {
							switch msg.Type {
							case NebulaControl_CreateRelayRequest:
								ff, tt := c39MsgAddrs(msg)
								logf("   R->%s REQUEST ini=%d from=%s to=%s", c.name, msg.InitiatorRelayIndex, ff, tt)
								c.pendingRq = append(c.pendingRq, msg)
								c.askedByR[msg.InitiatorRelayIndex] = c39Confirm{from: ff, to: tt}
								c.fromR = append(c.fromR, msg.InitiatorRelayIndex)
								r.Count("relay_requests_forwarded_to_target", 1)
							case NebulaControl_CreateRelayResponse:
								ff, tt := c39MsgAddrs(msg)
								logf("   R->%s RESPONSE ini=%d resp=%d from=%s to=%s", c.name, msg.InitiatorRelayIndex, msg.ResponderRelayIndex, ff, tt)
								c.fromR = append(c.fromR, msg.ResponderRelayIndex)
								if tgt, ok := c.requested[msg.InitiatorRelayIndex]; ok {
									// a peer may have used one index value for requests to several targets: the relay's answer names the
									// pair it is about
									if tt.IsValid() && slices.Contains(c.requestedAll[msg.InitiatorRelayIndex], tt) {
										tgt = tt
									}
									c.legByRIdx[msg.ResponderRelayIndex] = tgt
								}
								r.Count("relay_responses_returned_to_initiator", 1)
							}
						}
					}
				}
				nw.Inflight = nil
				return out
			}
			send := func(c *c39Puppet, typ header.MessageType, st header.MessageSubType, payload []byte) []emitted {
				nw.Inject(rn, c.p.Addr, c.tun.Seal(typ, st, payload))
				nw.Settle()
				return collect()
			}

			steps := verifkit.Scale(120, 300)
			honestUntil := 0
			if amRelay {
				honestUntil = 6 // scripted honest prologue: one relay negotiated properly and used in both directions
			}
			for i := 0; i < steps; i++ {
				if i < honestUntil {
					s0, t0 := pups[0], pups[1]
					switch i {
					case 0:
						s0.nextIdx++
						s0.requested[s0.nextIdx] = t0.p.Ident.Addr()
						s0.requestedAll[s0.nextIdx] = append(s0.requestedAll[s0.nextIdx], t0.p.Ident.Addr())
						logf("%d: %s REQUEST (honest prologue) idx=%d to=%s", i, s0.name, s0.nextIdx, t0.p.Ident.Addr())
						send(s0, header.Control, 0, c39Ctl(ver, NebulaControl_CreateRelayRequest, s0.nextIdx, 0, s0.p.Ident.Addr(), t0.p.Ident.Addr()))
					case 1:
						if len(t0.pendingRq) > 0 {
							rq := t0.pendingRq[0]
							t0.pendingRq = t0.pendingRq[1:]
							f, to := c39MsgAddrs(rq)
							t0.nextIdx++
							t0.confirmed[t0.nextIdx] = t0.askedByR[rq.InitiatorRelayIndex]
							t0.confirmedAll[t0.nextIdx] = append(t0.confirmedAll[t0.nextIdx], t0.askedByR[rq.InitiatorRelayIndex])
							logf("%d: %s RESPONSE (honest prologue) ini=%d my=%d", i, t0.name, rq.InitiatorRelayIndex, t0.nextIdx)
							send(t0, header.Control, 0, c39Ctl(ver, NebulaControl_CreateRelayResponse, rq.InitiatorRelayIndex, t0.nextIdx, f, to))
							r.Count("onward_legs_confirmed_by_target", 1)
						}
					}
					if i < 2 {
						audit("prologue")
						continue
					}
				}
				forceData := i >= 2 && i < honestUntil
				c := pups[rng.IntN(np)]
				if c.tun == nil {
					c.tun = c.p.Handshake(rn)
					collect()
					if c.tun == nil {
						continue
					}
				}
				op := rng.IntN(20)
				if forceData {
					c = pups[i%2]
					op = 12
				}
				cls := ""
				switch {
				case op < 5: // relay request, honest or lying
					from := c.p.Ident.Addr()
					if rng.IntN(3) == 0 {
						from = addrPool()
					}
					to := addrPool()
					if rng.IntN(2) == 0 {
						o := pups[rng.IntN(np)]
						to = o.p.Ident.Addr()
					}
					c.nextIdx++
					idx := c.nextIdx
					if rng.IntN(6) == 0 && len(c.fromR) > 0 {
						idx = c.fromR[rng.IntN(len(c.fromR))]
					}
					k := 1 + rng.IntN(2)*rng.IntN(2)
					logf("%d: %s REQUEST x%d idx=%d from=%s to=%s", i, c.name, k, idx, from, to)
					c.requested[idx] = to
					c.requestedAll[idx] = append(c.requestedAll[idx], to)
					if from.IsValid() {
						// the requester itself attached this relay-from address to its index (a request naming R as the target is
						// how a relay hands over someone else's traffic): packets of that address arriving on the index are what
						// the requester asked for
						c.requestedAll[idx] = append(c.requestedAll[idx], from)
					}
					for j := 0; j < k; j++ {
						send(c, header.Control, 0, c39Ctl(ver, NebulaControl_CreateRelayRequest, idx, 0, from, to))
					}
					cls = fmt.Sprintf("request from-authentic=%v", slices.Contains(c.p.Ident.Addrs(), from))
				case op < 9: // answer a request R forwarded to me
					if len(c.pendingRq) == 0 {
						continue
					}
					k := rng.IntN(len(c.pendingRq))
					rq := c.pendingRq[k]
					c.pendingRq = append(c.pendingRq[:k], c.pendingRq[k+1:]...)
					f, to := c39MsgAddrs(rq)
					c.nextIdx++
					my := c.nextIdx
					honest := rng.IntN(4) != 0
					if honest {
						c.confirmed[my] = c.askedByR[rq.InitiatorRelayIndex]
						c.confirmedAll[my] = append(c.confirmedAll[my], c.askedByR[rq.InitiatorRelayIndex])
						logf("%d: %s RESPONSE honest ini=%d my=%d from=%s to=%s", i, c.name, rq.InitiatorRelayIndex, my, f, to)
						send(c, header.Control, 0, c39Ctl(ver, NebulaControl_CreateRelayResponse, rq.InitiatorRelayIndex, my, f, to))
						r.Count("onward_legs_confirmed_by_target", 1)
						cls = "honest response"
					} else {
						// a lying answer: wrong initiator index or swapped addresses. It still is a confirmation by this puppet
						// of whatever pair it names, on index `my`.
						ii := rq.InitiatorRelayIndex
						if rng.IntN(2) == 0 {
							ii += uint32(1 + rng.IntN(3))
						} else {
							f, to = to, f
						}
						// whatever addresses it writes, a response confirms the request of R that carries its initiator index (or nothing)
						c.confirmed[my] = c.askedByR[ii]
						c.confirmedAll[my] = append(c.confirmedAll[my], c.askedByR[ii])
						if tgt, ok := c.legByRIdx[ii]; ok {
							c.requested[my] = tgt
							c.requestedAll[my] = append(c.requestedAll[my], tgt)
						}
						logf("%d: %s RESPONSE lying ini=%d (asked %d) my=%d from=%s to=%s", i, c.name, ii, rq.InitiatorRelayIndex, my, f, to)
						send(c, header.Control, 0, c39Ctl(ver, NebulaControl_CreateRelayResponse, ii, my, f, to))
						cls = "lying response"
					}
				case op < 11: // unsolicited response
					ii := uint32(rng.IntN(1 << 16))
					if len(c.fromR) > 0 && rng.IntN(2) == 0 {
						ii = c.fromR[rng.IntN(len(c.fromR))]
					}
					c.nextIdx++
					my := c.nextIdx
					f, to := addrPool(), addrPool()
					if o := pups[rng.IntN(np)]; o != c && len(o.pendingRq) > 0 && rng.IntN(2) == 0 {
						// a third peer answers in place of the target: it names the pair and carries the initiator index of a
						// request R sent to ANOTHER peer and that peer has not answered (an index it observed or guessed)
						rq := o.pendingRq[rng.IntN(len(o.pendingRq))]
						ii = rq.InitiatorRelayIndex
						f, to = c39MsgAddrs(rq)
						r.Count("responses_by_a_third_peer_for_a_pending_onward_leg", 1)
					}
					c.confirmed[my] = c.askedByR[ii]
					c.confirmedAll[my] = append(c.confirmedAll[my], c.askedByR[ii])
					if tgt, ok := c.legByRIdx[ii]; ok {
						// answering on the index R gave me for my own leg re-negotiates my end of that leg onto index `my`
						c.requested[my] = tgt
						c.requestedAll[my] = append(c.requestedAll[my], tgt)
					}
					logf("%d: %s RESPONSE unsolicited ini=%d my=%d from=%s to=%s", i, c.name, ii, my, f, to)
					send(c, header.Control, 0, c39Ctl(ver, NebulaControl_CreateRelayResponse, ii, my, f, to))
					cls = "unsolicited response"
				case op < 17: // relay-wrapped data on some index
					var idx uint32
					k := rng.IntN(6)
					if forceData {
						k = 0
					}
					switch {
					case k < 3 && len(c.fromR) > 0:
						idx = c.fromR[rng.IntN(len(c.fromR))]
					case k == 3:
						o := pups[rng.IntN(np)]
						if len(o.fromR) > 0 {
							idx = o.fromR[rng.IntN(len(o.fromR))]
						}
					case k == 4:
						// an index R holds for one of the sender's own legs, whatever its state (a peer could learn or guess it
						// before the onward leg is confirmed), else any relay index R currently holds
						rn.F.hostMap.RLock()
						for x, h := range rn.F.hostMap.Relays {
							idx = x
							if len(h.vpnAddrs) > 0 && slices.Contains(c.p.Ident.Addrs(), h.vpnAddrs[0]) {
								if rl, ok := h.relayState.QueryRelayForByIdx(x); ok && rl.State != Established {
									break
								}
							}
						}
						rn.F.hostMap.RUnlock()
					default:
						idx = uint32(rng.Uint32())
					}
					inner := make([]byte, 40+rng.IntN(40))
					copy(inner, fmt.Sprintf("INNER-%d-%d-%s-", sc, i, c.name))
					header.Encode(inner[:0], header.Version, header.Message, 0, rng.Uint32(), uint64(3+i))
					copy(inner[16:], fmt.Sprintf("PAYLOAD-%06d-%s", i, c.name))
					logf("%d: %s DATA on idx=%d", i, c.name, idx)
					r.Pre("sc=%d step=%d relay data from %s idx=%d", sc, i, c.name, idx)
					nw.Inject(rn, c.p.Addr, c.tun.SealRelay(idx, inner))
					nw.Settle()
					outs := collect()
					relayOn := rn.F.relayManager.GetAmRelay()
					fwd := 0
					for _, e := range outs {
						if !(e.h.Type == header.Message && e.h.Subtype == header.MessageRelay) {
							continue
						}
						fwd++
						rec := map[string]any{"scenario": sc, "step": i, "sender": c.name, "sender_addrs": fmt.Sprint(c.p.Ident.Addrs()), "sent_on_relay_index": idx, "forwarded_to": e.to.name, "forwarded_relay_index": e.h.RemoteIndex, "am_relay": relayOn, "relay_hostmap": vnSnapshot(rn, false), "history": slices.Clone(oplog)}
						if !relayOn {
							r.Violation("C39/forwarded-while-not-a-relay", fmt.Sprintf("scenario %d: relay.am_relay is off but a relay-wrapped packet from %s was forwarded to %s", sc, c.name, e.to.name), rec)
						}
						if e.to == c {
							// a peer that negotiated a relay with itself gets its own packets back; not forbidden by the statement
							r.Count("forwards_back_to_a_sender_that_negotiated_with_itself(not judged)", 1)
							if string(e.plain) != string(inner) {
								r.Violation("C39/forwarded-bytes-altered", fmt.Sprintf("scenario %d: forwarded inner packet differs from what %s sent", sc, c.name), rec)
							}
							continue
						}
						if string(e.plain) != string(inner) {
							r.Violation("C39/forwarded-bytes-altered", fmt.Sprintf("scenario %d: forwarded inner packet differs from what %s sent", sc, c.name), rec)
						}
						// The receiving peer X negotiated index j either by confirming (CreateRelayResponse it sent: relay-from f) or by
						// choosing it in its own CreateRelayRequest (for target t). The sender must be that f / t.
						cf, okC := e.to.confirmed[e.h.RemoteIndex]
						tg, okR := e.to.requested[e.h.RemoteIndex]
						everConfirmed := slices.ContainsFunc(e.to.confirmedAll[e.h.RemoteIndex], func(x c39Confirm) bool {
							return x.from.IsValid() && slices.Contains(c.p.Ident.Addrs(), x.from)
						})
						everRequested := slices.ContainsFunc(e.to.requestedAll[e.h.RemoteIndex], func(t netip.Addr) bool { return slices.Contains(c.p.Ident.Addrs(), t) })
						switch {
						case okC && cf.from.IsValid() && slices.Contains(c.p.Ident.Addrs(), cf.from):
							r.Count("legitimate_forwards", 1)
						case okR && slices.Contains(c.p.Ident.Addrs(), tg):
							r.Count("legitimate_forwards", 1)
							r.Count("legitimate_forwards_on_return_leg", 1)
						case everConfirmed || everRequested:
							// the receiver itself attached several pairs to this index value of its own; this is one of them
							r.Count("legitimate_forwards", 1)
							r.Count("legitimate_forwards_on_an_index_the_receiver_reused", 1)
						case (!okC || !cf.from.IsValid()) && !okR && e.h.RemoteIndex == 0:
							// witness class of its own: the receiver never gave the relay ANY index for this leg, the relay uses 0
							r.Violation("C39/forwarded-with-relay-index-zero", fmt.Sprintf("scenario %d: packet from %s forwarded to %s with relay index 0: the relay marked the leg established without ever learning an index from %s", sc, c.name, e.to.name, e.to.name), rec)
						case (!okC || !cf.from.IsValid()) && !okR:
							r.Violation("C39/forwarded-on-unconfirmed-onward-leg", fmt.Sprintf("scenario %d: packet from %s forwarded to %s on index %d which %s never negotiated", sc, c.name, e.to.name, e.h.RemoteIndex, e.to.name), rec)
						default:
							rec["negotiated_as"] = fmt.Sprintf("confirmed-from=%v requested-target=%v", cf.from, tg)
							r.Violation("C39/forwarded-for-a-different-pair", fmt.Sprintf("scenario %d: packet from %s %v forwarded to %s on index %d, which %s negotiated with relay-from %v / target %v", sc, c.name, c.p.Ident.Addrs(), e.to.name, e.h.RemoteIndex, e.to.name, cf.from, tg), rec)
						}
					}
					cls = fmt.Sprintf("relay-data forwarded=%d", fwd)
					r.Distinct(fmt.Sprintf("sc%d step%d", sc, i))
				case op == 17: // tunnel churn
					switch rng.IntN(3) {
					case 0:
						logf("%d: %s closes tunnel", i, c.name)
						send(c, header.CloseTunnel, 0, nil)
						c.tun = nil
						cls = "puppet closes tunnel"
					case 1:
						logf("%d: relay closes tunnel to %s", i, c.name)
						rn.C.CloseTunnel(c.p.Ident.Addr(), true)
						nw.Settle()
						collect()
						c.tun = nil
						cls = "relay closes tunnel locally"
					default:
						logf("%d: %s re-handshakes", i, c.name)
						c.tun = c.p.Handshake(rn)
						collect()
						cls = "puppet re-handshakes"
					}
					if c.tun == nil {
						// indexes R handed out on the old tunnel are history; my confirmations stay (they are facts about what I sent)
						c.pendingRq = nil
					}
				case op == 18:
					amRelay = !amRelay
					logf("%d: reload am_relay=%v", i, amRelay)
					rn.Reload(m{"relay": m{"am_relay": amRelay}})
					nw.Settle()
					collect()
					cls = "reload am_relay"
				default:
					nw.Advance(time.Duration(100+rng.IntN(900)) * time.Millisecond)
					collect()
					cls = "time passes"
				}
				r.Eval(1)
				r.DistinctClass(fmt.Sprintf("op=%s am_relay=%v", cls, rn.F.relayManager.GetAmRelay()))
				audit("after " + cls)
			}
			if sc < 2 {
				r.Sample(map[string]any{"scenario": sc, "puppets": np, "cert_version": int(ver), "relay_state": vnSnapshot(rn, false)})
			}
		})
	}
}
