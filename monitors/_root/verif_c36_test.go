package nebula

// C36 — unusable underlay addresses are never used (unit level).
//
// Everything that can feed a RemoteList is driven on real LightHouse objects built from generated
// config (own overlay networks, lighthouse.remote_allow_list, lighthouse.remote_allow_ranges,
// static_host_map, lighthouse.calculated_remotes):
//   query replies and host updates through LightHouseHandler.HandleRequest, the static map (initial
//   load and reload), DNS result sets (stubbed result set stored the way the resolver goroutine does),
//   calculated remotes through HandshakeManager.StartHandshake, learned addresses through
//   HandshakeManager.validatePeerCert + HostInfo.SetRemote and through Interface.handleHostRoaming,
//   BlockRemote / RefreshFromHandshake (ResetBlockedRemotes has no caller in the node and is not driven), DeleteVpnAddrs; punch requests through
//   HandleRequest with a real Punchy on the virtual clock.
//
// Oracle (from the statement): after every operation, for every RemoteList the node holds, no address
// exposed for use by CopyAddrs / ForEach (what the handshake manager and punchy iterate), and no punch
// destination,
//   - lies inside one of the node's own overlay networks,
//   - is denied by the remote allow list: globally, or by the rule set of a remote_allow_ranges entry
//     that contains one of the peer's overlay addresses (reference longest-prefix matcher below),
//   - was marked bad (BlockRemote, not relayed) since the last reset / completed handshake;
// every information source holds at most MaxRemotes (10) addresses per peer per address family;
// a statically configured host keeps every configured usable address across DeleteVpnAddrs, lighthouse
// replies, host updates and anything else in the history.

import (
	"context"
	"encoding/binary"
	"fmt"
	"log/slog"
	"math/rand/v2"
	"net/netip"
	"slices"
	"sort"
	"strings"
	"sync"
	"testing"
	"testing/synctest"
	"time"

	"github.com/gaissmai/bart"
	"github.com/slackhq/nebula/cert"
	"github.com/slackhq/nebula/cert_test"
	"github.com/slackhq/nebula/config"
	"github.com/slackhq/nebula/header"
	"github.com/slackhq/nebula/udp"
	"github.com/slackhq/nebula/verifkit"
	"go.yaml.in/yaml/v3"
)

// c36Cap is the statement's "at most ten addresses" (deliberately not the code's MaxRemotes constant).
const c36Cap = 10

// ---------------------------------------------------------------------------------------------
// reference allow list (independent of allow_list.go / bart)

type c36Rule struct {
	p     netip.Prefix
	allow bool
}

type c36AL struct{ rules []c36Rule }

// allow: most specific rule of the address family wins; without a matching rule the default is the
// inverse of the (uniform) rules of that family; a family without rules is allowed.
func (al *c36AL) allow(a netip.Addr) bool {
	if al == nil {
		return true
	}
	best, res, any := -1, true, false
	uniform := true
	for _, r := range al.rules {
		if r.p.Addr().Is4() != a.Is4() {
			continue
		}
		any = true
		uniform = r.allow
		if r.p.Contains(a) && r.p.Bits() > best {
			best, res = r.p.Bits(), r.allow
		}
	}
	if !any {
		return true
	}
	if best >= 0 {
		return res
	}
	return !uniform
}

type c36Range struct {
	inside netip.Prefix
	al     *c36AL
}

type c36World struct {
	ownNets  []netip.Prefix
	global   *c36AL
	ranges   []c36Range
	amLH     bool
	lhAddrs  []netip.Addr
	settings map[string]any
}

func (w *c36World) inOwn(a netip.Addr) bool {
	for _, p := range w.ownNets {
		if p.Masked().Contains(a) {
			return true
		}
	}
	return false
}

func (w *c36World) rangeFor(vpn netip.Addr) *c36AL {
	best := -1
	var al *c36AL
	for _, r := range w.ranges {
		if r.inside.Contains(vpn) && r.inside.Bits() > best {
			best, al = r.inside.Bits(), r.al
		}
	}
	return al
}

// denied reports whether x is denied globally, and which of the peer's overlay addresses have a
// range rule set that denies it.
func (w *c36World) denied(peer []netip.Addr, x netip.Addr) (bool, []netip.Addr) {
	var by []netip.Addr
	for _, p := range peer {
		if al := w.rangeFor(p); al != nil && !al.allow(x) {
			by = append(by, p)
		}
	}
	return !w.global.allow(x), by
}

var c36V4Rules = []string{"0.0.0.0/0", "10.0.0.0/8", "100.64.0.0/10", "100.64.1.0/24", "192.0.2.0/24", "192.0.2.128/25", "198.51.100.0/24", "198.51.100.4/30", "203.0.113.0/24", "172.16.0.0/12", "192.0.2.3/32"}
var c36V6Rules = []string{"::/0", "2001:db8::/32", "2001:db8:1::/48", "2001:db8:1:1::/64", "2001:db8:2::/48", "fd00::/8", "2001:db8:2::5/128"}

// c36GenAL generates one allow list (nil = not configured) that the parser accepts: per family either
// no rules, rules of one value, or mixed values with an explicit default.
func c36GenAL(rng *rand.Rand, presence int) (*c36AL, map[string]any) {
	if rng.IntN(presence) == 0 {
		return nil, nil
	}
	al := &c36AL{}
	cfg := map[string]any{}
	fam := func(cands []string) {
		mode := rng.IntN(4) // 0 none, 1 uniform, 2..3 mixed
		if mode == 0 {
			return
		}
		n := 1 + rng.IntN(3)
		perm := rng.Perm(len(cands) - 1)
		uni := rng.IntN(2) == 0
		if mode >= 2 {
			v := rng.IntN(2) == 0
			al.rules = append(al.rules, c36Rule{netip.MustParsePrefix(cands[0]), v})
			cfg[cands[0]] = v
		} else if rng.IntN(4) == 0 {
			al.rules = append(al.rules, c36Rule{netip.MustParsePrefix(cands[0]), uni})
			cfg[cands[0]] = uni
		}
		for i := 0; i < n; i++ {
			c := cands[1+perm[i]]
			v := uni
			if mode >= 2 {
				v = rng.IntN(2) == 0
			}
			al.rules = append(al.rules, c36Rule{netip.MustParsePrefix(c), v})
			cfg[c] = v
		}
	}
	fam(c36V4Rules)
	fam(c36V6Rules)
	if len(al.rules) == 0 {
		return nil, nil
	}
	return al, cfg
}

// ---------------------------------------------------------------------------------------------
// identities, underlay addresses

type c36Ident struct {
	name  string
	addrs []netip.Addr
}

func c36Idents() []c36Ident {
	a := netip.MustParseAddr
	return []c36Ident{
		{"lhA", []netip.Addr{a("10.128.0.2")}},
		{"lhB", []netip.Addr{a("10.128.1.3"), a("fd00:128::3")}},
		{"p1", []netip.Addr{a("10.128.0.10")}},
		{"p2", []netip.Addr{a("10.128.1.11")}},
		{"p6", []netip.Addr{a("fd00:128::12")}},
		{"m1", []netip.Addr{a("10.128.0.20"), a("fd00:128::20")}},
		{"m2", []netip.Addr{a("fd00:128::21"), a("10.128.1.21")}},
		{"m3", []netip.Addr{a("10.128.1.30"), a("10.128.0.30")}},
	}
}

var c36V4Pool = []string{"192.0.2.0", "192.0.2.128", "198.51.100.0", "198.51.100.4", "203.0.113.0", "100.64.0.0", "100.64.1.0", "172.16.0.0", "10.0.0.0", "8.8.8.0",
	"10.128.0.0", "10.128.77.0", "10.130.0.0", "10.131.0.0"}
var c36V6Pool = []string{"2001:db8:1::", "2001:db8:1:1::", "2001:db8:2::", "2001:db8:3::", "2606:4700::", "fd00:128::", "fd00:129::", "fd00:128:0:0:1::"}

func c36Underlay(rng *rand.Rand, v6 bool) netip.AddrPort {
	port := []uint16{4242, 4242, 4243, 1, 65535}[rng.IntN(5)]
	host := byte(1 + rng.IntN(7))
	if v6 {
		if rng.IntN(12) == 0 { // IPv4-mapped address carried in the IPv6 list
			b := netip.MustParseAddr(c36V4Pool[rng.IntN(len(c36V4Pool))]).As4()
			b[3] |= host
			return netip.AddrPortFrom(netip.AddrFrom16(netip.AddrFrom4(b).As16()), port)
		}
		b := netip.MustParseAddr(c36V6Pool[rng.IntN(len(c36V6Pool))]).As16()
		b[15] = host
		return netip.AddrPortFrom(netip.AddrFrom16(b), port)
	}
	b := netip.MustParseAddr(c36V4Pool[rng.IntN(len(c36V4Pool))]).As4()
	b[3] |= host
	return netip.AddrPortFrom(netip.AddrFrom4(b), port)
}

func c36U32(a netip.Addr) uint32 {
	b := a.As4()
	return binary.BigEndian.Uint32(b[:])
}

// ---------------------------------------------------------------------------------------------
// recording collaborators

type c36Enc struct {
	mu   sync.Mutex
	cs   *CertState
	sent int
	test []netip.Addr
}

func (e *c36Enc) SendVia(via *HostInfo, relay *Relay, ad, nb, out []byte, nocopy bool, q int) {}
func (e *c36Enc) SendMessageToVpnAddr(t header.MessageType, st header.MessageSubType, vpnAddr netip.Addr, p, nb, out []byte) {
	e.mu.Lock()
	e.sent++
	if t == header.Test {
		e.test = append(e.test, vpnAddr)
	}
	e.mu.Unlock()
}
func (e *c36Enc) SendMessageToHostInfo(t header.MessageType, st header.MessageSubType, hostinfo *HostInfo, p, nb, out []byte) {
}
func (e *c36Enc) Handshake(vpnAddr netip.Addr)           {}
func (e *c36Enc) GetHostInfo(vpnAddr netip.Addr) *HostInfo { return nil }
func (e *c36Enc) GetCertState() *CertState                { return e.cs }

type c36Conn struct {
	udp.NoopConn
	mu     sync.Mutex
	writes []netip.AddrPort
}

func (c *c36Conn) WriteTo(b []byte, addr netip.AddrPort) error {
	c.mu.Lock()
	c.writes = append(c.writes, addr)
	c.mu.Unlock()
	return nil
}

func (c *c36Conn) LocalAddr() (netip.AddrPort, error) {
	return netip.MustParseAddrPort("192.0.2.250:4242"), nil
}

func (c *c36Conn) take() []netip.AddrPort {
	c.mu.Lock()
	defer c.mu.Unlock()
	w := c.writes
	c.writes = nil
	return w
}

// ---------------------------------------------------------------------------------------------
// node under test

type c36Node struct {
	w      *c36World
	c      *config.C
	lh     *LightHouse
	lhh    *LightHouseHandler
	punchy *Punchy
	enc    *c36Enc
	conn   *c36Conn
	ifce   *Interface
	hm     *HandshakeManager
	l      *slog.Logger
	self   netip.Addr
	// static hosts: configured address set (model)
	static map[netip.Addr]map[netip.AddrPort]bool
	calc   map[string]any
}

func c36Yaml(v any) string {
	b, err := yaml.Marshal(v)
	if err != nil {
		panic(err)
	}
	return string(b)
}

func c36StaticCfg(static map[netip.Addr]map[netip.AddrPort]bool, order map[netip.Addr][]netip.AddrPort) map[string]any {
	out := map[string]any{}
	for k := range static {
		var l []any
		for _, ap := range order[k] {
			l = append(l, ap.String())
		}
		out[k.String()] = l
	}
	return out
}

func c36GenStaticAddrs(rng *rand.Rand) []netip.AddrPort {
	n := []int{1, 1, 2, 3, 5, 10, 11, 13}[rng.IntN(8)]
	var out []netip.AddrPort
	for i := 0; i < n; i++ {
		ap := c36Underlay(rng, rng.IntN(3) == 0)
		if ap.Addr().Is4In6() {
			ap = netip.AddrPortFrom(ap.Addr().Unmap(), ap.Port())
		}
		if !slices.Contains(out, ap) {
			out = append(out, ap)
		}
	}
	return out
}

func c36BuildNode(ctx context.Context, rng *rand.Rand, idents []c36Ident) (*c36Node, error) {
	l := slog.New(slog.DiscardHandler)
	w := &c36World{}
	n := &c36Node{w: w, l: l, static: map[netip.Addr]map[netip.AddrPort]bool{}}
	w.ownNets = []netip.Prefix{netip.MustParsePrefix("10.128.0.1/16")}
	switch rng.IntN(3) {
	case 1:
		w.ownNets = append(w.ownNets, netip.MustParsePrefix("fd00:128::1/64"))
	case 2:
		w.ownNets = append(w.ownNets, netip.MustParsePrefix("fd00:128::1/64"), netip.MustParsePrefix("10.130.0.1/24"))
	}
	n.self = w.ownNets[0].Addr()
	w.amLH = rng.IntN(3) == 0
	lhSet := map[string]any{"am_lighthouse": w.amLH}
	order := map[netip.Addr][]netip.AddrPort{}
	addStatic := func(a netip.Addr) {
		aps := c36GenStaticAddrs(rng)
		order[a] = aps
		n.static[a] = map[netip.AddrPort]bool{}
		for _, ap := range aps {
			n.static[a][ap] = true
		}
	}
	if !w.amLH {
		w.lhAddrs = []netip.Addr{idents[0].addrs[0], idents[1].addrs[rng.IntN(2)]}
		hosts := []any{}
		for _, a := range w.lhAddrs {
			hosts = append(hosts, a.String())
			addStatic(a)
		}
		lhSet["hosts"] = hosts
	}
	for _, a := range []netip.Addr{idents[3].addrs[0], idents[5].addrs[0], idents[6].addrs[1]} {
		if rng.IntN(3) == 0 {
			addStatic(a)
		}
	}
	var cfg map[string]any
	w.global, cfg = c36GenAL(rng, 4)
	if cfg != nil {
		lhSet["remote_allow_list"] = cfg
	}
	ranges := map[string]any{}
	for _, in := range []string{"10.128.0.0/24", "10.128.1.0/24", "fd00:128::/64", "10.128.0.20/32", "10.128.0.0/16"} {
		if rng.IntN(3) != 0 {
			continue
		}
		al, c := c36GenAL(rng, 6)
		if al == nil {
			continue
		}
		w.ranges = append(w.ranges, c36Range{netip.MustParsePrefix(in), al})
		ranges[in] = c
	}
	if len(ranges) > 0 {
		lhSet["remote_allow_ranges"] = ranges
	}
	// calculated remotes
	if rng.IntN(2) == 0 {
		calc := map[string]any{}
		masks4 := []string{"192.0.2.0/24", "100.64.0.0/16", "10.128.0.0/16", "198.51.100.0/24", "10.0.0.0/8", "203.0.113.0/28"}
		masks6 := []string{"2001:db8:1::/64", "fd00:128::/64", "2001:db8:2::/96"}
		for _, in := range []string{"10.128.0.0/24", "10.128.0.0/16", "10.128.1.0/24", "fd00:128::/64"} {
			if rng.IntN(2) == 0 {
				continue
			}
			ms := masks4
			if strings.Contains(in, ":") {
				ms = masks6
			}
			var list []any
			for i := 0; i < []int{1, 2, 3, 12}[rng.IntN(4)]; i++ {
				list = append(list, map[string]any{"mask": ms[rng.IntN(len(ms))], "port": 4000 + rng.IntN(4)})
			}
			calc[in] = list
		}
		if len(calc) > 0 {
			lhSet["calculated_remotes"] = calc
			n.calc = calc
		}
	}
	pun := map[string]any{"punch": true, "respond": rng.IntN(2) == 0, "delay": "1s", "respond_delay": "2s"}
	w.settings = map[string]any{
		"lighthouse":      lhSet,
		"listen":          map[string]any{"port": 4242},
		"static_host_map": c36StaticCfg(n.static, order),
		"punchy":          pun,
	}
	c := config.NewC(l)
	if err := c.LoadString(c36Yaml(w.settings)); err != nil {
		return nil, fmt.Errorf("config: %w", err)
	}
	n.c = c

	nt, at := new(bart.Lite), new(bart.Lite)
	for _, p := range w.ownNets {
		nt.Insert(p.Masked())
		at.Insert(netip.PrefixFrom(p.Addr(), p.Addr().BitLen()))
	}
	cs := &CertState{myVpnNetworks: w.ownNets, myVpnNetworksTable: nt, myVpnAddrsTable: at, initiatingVersion: cert.Version2}
	n.conn = &c36Conn{}
	n.enc = &c36Enc{cs: cs}
	n.punchy = NewPunchyFromConfig(l, c, n.conn)
	lh, err := NewLightHouseFromConfig(ctx, l, c, cs, n.conn, n.punchy)
	if err != nil {
		return nil, fmt.Errorf("lighthouse: %w", err)
	}
	lh.ifce = n.enc
	n.punchy.Start(ctx, n.enc, nil, lh)
	n.lh = lh
	n.lhh = lh.NewRequestHandler()
	n.ifce = &Interface{lightHouse: lh, l: l, myVpnNetworksTable: nt, myVpnAddrsTable: at, myVpnNetworks: w.ownNets}
	n.hm = NewHandshakeManager(l, nil, lh, n.conn, defaultHandshakeConfig)
	n.hm.f = n.ifce
	return n, nil
}

// ---------------------------------------------------------------------------------------------
// model

type c36ListModel struct {
	blocked map[netip.AddrPort]bool
	sources map[string]bool       // reporting sources that fed this list (reply:<lh>, update:<peer>, calculated, static)
	learned map[netip.Addr]bool   // owners with a learned address
	mapped  map[string]int        // owner -> IPv4-mapped addresses in its last IPv6 list
	hrCount int                   // addresses the static / DNS result set holds
	// every overlay address this list has ever been associated with (keys of the address map, vpnAddrs)
	everPeer map[netip.Addr]bool
	// addresses that were marked bad at some point (the mark may have been cleared since)
	everBlocked map[netip.AddrPort]bool
}

type c36Op struct {
	Op     string   `json:"op"`
	Who    string   `json:"who,omitempty"`
	Target string   `json:"target,omitempty"`
	Addrs  []string `json:"addrs,omitempty"`
	Extra  string   `json:"extra,omitempty"`
}

type c36Hist struct {
	r      *verifkit.Reporter
	n      *c36Node
	h      int
	ops    []c36Op
	lists  map[*RemoteList]*c36ListModel
	his    map[string]*HostInfo // identity name -> hostinfo of the established tunnel
	idents []c36Ident
}

func (hs *c36Hist) model(rl *RemoteList) *c36ListModel {
	m := hs.lists[rl]
	if m == nil {
		m = &c36ListModel{blocked: map[netip.AddrPort]bool{}, sources: map[string]bool{}, learned: map[netip.Addr]bool{}, mapped: map[string]int{}, everPeer: map[netip.Addr]bool{}, everBlocked: map[netip.AddrPort]bool{}}
		hs.lists[rl] = m
	}
	return m
}

func (hs *c36Hist) replay() any {
	return map[string]any{"history": hs.h, "settings": hs.n.w.settings, "own_networks": c36Strs(hs.n.w.ownNets), "ops": slices.Clone(hs.ops)}
}

func c36Strs[T fmt.Stringer](in []T) []string {
	out := make([]string, len(in))
	for i, v := range in {
		out[i] = v.String()
	}
	return out
}

// c36PeerSet is every overlay address the node associates with list rl.
func (hs *c36Hist) peerSet(rl *RemoteList) []netip.Addr {
	var out []netip.Addr
	rl.RLock()
	out = append(out, rl.vpnAddrs...)
	rl.RUnlock()
	hs.n.lh.RLock()
	for k, v := range hs.n.lh.addrMap {
		if v == rl && !slices.Contains(out, k) {
			out = append(out, k)
		}
	}
	hs.n.lh.RUnlock()
	slices.SortFunc(out, func(a, b netip.Addr) int { return a.Compare(b) })
	return out
}

// judgeDest decides one address the node would use as a destination for the peer.
func (hs *c36Hist) judgeDest(how string, peer []netip.Addr, ap netip.AddrPort, blocked map[netip.AddrPort]bool, ever map[netip.Addr]bool, selfReported bool) {
	w, r := hs.n.w, hs.r
	x := ap.Addr()
	cls := "usable"
	if w.inOwn(x) {
		cls = "own-network"
		r.Violation("C36/"+how+"-inside-own-overlay-network", fmt.Sprintf("%s: %s for peer %v lies inside the node's own overlay networks %v", how, ap, peer, w.ownNets), hs.replay())
	}
	g, by := w.denied(peer, x)
	if g {
		cls = "denied-global"
		r.Violation("C36/"+how+"-denied-by-remote-allow-list", fmt.Sprintf("%s: %s for peer %v is denied by lighthouse.remote_allow_list", how, ap, peer), hs.replay())
	} else if len(by) > 0 {
		cls = "denied-range"
		// does the rule set of every overlay address this list was ever associated with deny it?
		all := len(by) == len(peer)
		for e := range ever {
			if al := w.rangeFor(e); al == nil || al.allow(x) {
				all = false
			}
		}
		if all {
			r.Violation("C36/"+how+"-denied-by-remote-allow-range", fmt.Sprintf("%s: %s for peer %v is denied by the remote_allow_ranges rules for %v", how, ap, peer, by), hs.replay())
		} else if selfReported && w.amLH {
			// the peer reported it itself in a host update to this lighthouse
			r.Violation("C36/"+how+"-from-host-update-denied-by-range-of-secondary-overlay-address", fmt.Sprintf("%s: %s, reported by multi-address peer %v in a host update, is denied by the remote_allow_ranges rules that apply to its overlay address(es) %v", how, ap, peer, by), hs.replay())
		} else {
			// Open cell, counted but not judged: the statement speaks of "the peer's overlay range" (singular). For a peer
			// with several overlay addresses in ranges with conflicting rules it does not say which range governs data
			// that was given for one address (a reply / static entry / punch request about B) once the list is shared
			// with the peer's other address A. The code applies the range of the address the data was given for. A
			// filter that is dropped altogether still lands under the judged keys above (denied for all addresses).
			r.Count(how+"_denied_only_by_range_of_another_overlay_address_of_the_peer(not judged)", 1)
		}
	}
	if blocked != nil && blocked[ap] {
		cls = "blocked"
		r.Violation("C36/"+how+"-marked-bad", fmt.Sprintf("%s: %s for peer %v was marked bad and not reset since", how, ap, peer), hs.replay())
	}
	_ = cls
}

var c36Pref = [][]netip.Prefix{nil, {netip.MustParsePrefix("192.0.2.0/24")}, {netip.MustParsePrefix("10.0.0.0/8"), netip.MustParsePrefix("2001:db8:1::/48")}}

// checkAll walks every list the node holds and judges what it exposes.
func (hs *c36Hist) checkAll(rng *rand.Rand) {
	n, r := hs.n, hs.r
	held := map[*RemoteList]bool{}
	n.lh.RLock()
	for _, rl := range n.lh.addrMap {
		if rl != nil {
			held[rl] = true
		}
	}
	n.lh.RUnlock()
	for _, hi := range hs.his {
		if hi.remotes != nil {
			held[hi.remotes] = true
		}
	}
	pref := c36Pref[rng.IntN(len(c36Pref))]
	for rl := range held {
		m := hs.model(rl)
		peer := hs.peerSet(rl)
		for _, p := range peer {
			m.everPeer[p] = true
		}
		cp := rl.CopyAddrs(pref)
		var fe []netip.AddrPort
		rl.ForEach(pref, func(a netip.AddrPort, _ bool) { fe = append(fe, a) })
		if !slices.Equal(cp, fe) {
			r.Violation("C36/copyaddrs-foreach-disagree", fmt.Sprintf("CopyAddrs %v vs ForEach %v for %v", cp, fe, peer), hs.replay())
		}
		n4, n6 := 0, 0
		cache := *rl.CopyCache()
		selfRep := map[netip.AddrPort]bool{}
		for owner, c := range cache {
			if oa, err := netip.ParseAddr(owner); err == nil && m.everPeer[oa] {
				for _, ap := range c.Reported {
					selfRep[ap] = true
				}
			}
		}
		for _, ap := range cp {
			hs.judgeDest("exposed-address", peer, ap, m.blocked, m.everPeer, selfRep[ap])
			if ap.Addr().Is4() {
				n4++
			} else {
				n6++
			}
			r.Count("exposed_addresses_judged", 1)
		}
		// per source cap, as held (CopyCache is the public view of what each source contributed)
		mapped := 0
		for owner, c := range cache {
			c4, c6 := 0, 0
			for _, ap := range c.Reported {
				if ap.Addr().Is4() {
					c4++
				} else {
					c6++
				}
			}
			mp := m.mapped[owner]
			mapped += mp
			if c6 > c36Cap || c4 > c36Cap+mp || c4+c6 > 2*c36Cap {
				r.Violation("C36/source-holds-more-than-ten-per-family", fmt.Sprintf("source %s holds %d IPv4 + %d IPv6 reported addresses for %v (IPv4-mapped in its IPv6 list: %d)", owner, c4, c6, peer, mp), hs.replay())
			} else if c4 > c36Cap {
				// more than ten IPv4 addresses from one source, possible only because IPv4-mapped entries of
				// the IPv6 list are stored next to the ten of the IPv4 list
				r.Violation("C36/source-holds-more-than-ten-ipv4-via-mapped-entries-in-ipv6-list", fmt.Sprintf("source %s holds %d IPv4 reported addresses for %v: %d of them arrived as IPv4-mapped entries of its IPv6 list", owner, c4, peer, mp), hs.replay())
			}
			if len(c.Relay) > c36Cap {
				r.Violation("C36/source-holds-more-than-ten-relays", fmt.Sprintf("source %s holds %d relays for %v", owner, len(c.Relay), peer), hs.replay())
			}
		}
		// end to end: what is exposed cannot exceed what the sources that fed this list may contribute
		bound4 := c36Cap*len(m.sources) + len(m.learned) + m.hrCount + mapped
		bound6 := c36Cap*len(m.sources) + len(m.learned) + m.hrCount
		if n4 > bound4 || n6 > bound6 {
			r.Violation("C36/exposed-more-than-sources-may-contribute", fmt.Sprintf("list for %v exposes %d IPv4 + %d IPv6 addresses, fed by %d reporting sources, %d learned, %d static/DNS results", peer, n4, n6, len(m.sources), len(m.learned), m.hrCount), hs.replay())
		}
		if len(m.sources) == 1 && len(m.learned) == 0 && m.hrCount == 0 {
			r.Count("single_source_lists_judged", 1)
			if n4 > c36Cap || n6 > c36Cap {
				r.Count("single_source_list_over_ten_ipv4_via_mapped_entries", 1)
			} else if n4 == c36Cap || n6 == c36Cap {
				r.Count("single_source_list_at_cap", 1)
			}
		}
	}
	// static hosts keep what is configured and usable
	for s, cfg := range n.static {
		n.lh.RLock()
		rl := n.lh.addrMap[s]
		n.lh.RUnlock()
		if rl == nil {
			r.Violation("C36/static-host-lost", fmt.Sprintf("static host %s has no entry in the address map any more", s), hs.replay())
			continue
		}
		peer := hs.peerSet(rl)
		m := hs.model(rl)
		have := rl.CopyAddrs(nil)
		for ap := range cfg {
			g, by := n.w.denied(peer, ap.Addr())
			if n.w.inOwn(ap.Addr()) || g || len(by) > 0 || m.blocked[ap] {
				continue
			}
			r.Count("static_addresses_expected", 1)
			if !slices.Contains(have, ap) {
				if m.everBlocked[ap] {
					r.Violation("C36/static-address-not-restored-after-bad-mark-cleared", fmt.Sprintf("static host %s: configured usable address %s was marked bad, the mark was cleared by a completed handshake, but the address is still not exposed (have %v)", s, ap, have), hs.replay())
				} else {
					r.Violation("C36/static-host-lost-configured-address", fmt.Sprintf("static host %s: configured usable address %s is no longer exposed (have %v)", s, ap, have), hs.replay())
				}
			}
		}
		if len(cfg) > c36Cap {
			r.Count("static_hosts_with_more_than_ten_configured", 1)
		}
	}
}

// ---------------------------------------------------------------------------------------------
// operations

func (hs *c36Hist) genLists(rng *rand.Rand) (v4 []*V4AddrPort, v6 []*V6AddrPort, all []netip.AddrPort, mapped int) {
	n4 := []int{0, 1, 2, 3, 5, 9, 10, 11, 14}[rng.IntN(9)]
	n6 := []int{0, 0, 1, 2, 4, 10, 11, 13}[rng.IntN(8)]
	for i := 0; i < n4; i++ {
		ap := c36Underlay(rng, false)
		v4 = append(v4, &V4AddrPort{Addr: c36U32(ap.Addr()), Port: uint32(ap.Port())})
		all = append(all, ap)
	}
	for i := 0; i < n6; i++ {
		ap := c36Underlay(rng, true)
		v6 = append(v6, netAddrToProtoV6AddrPort(ap.Addr(), ap.Port()))
		if ap.Addr().Is4In6() && i < c36Cap {
			mapped++
		}
		all = append(all, netip.AddrPortFrom(ap.Addr().Unmap(), ap.Port()))
	}
	return
}

func (hs *c36Hist) lookup(a netip.Addr) *RemoteList {
	hs.n.lh.RLock()
	defer hs.n.lh.RUnlock()
	return hs.n.lh.addrMap[a]
}

func (hs *c36Hist) pickPeerAddr(rng *rand.Rand) (netip.Addr, string) {
	switch rng.IntN(8) {
	case 0: // a host nobody has talked about yet
		return netip.AddrFrom4([4]byte{10, 128, byte(2 + rng.IntN(3)), byte(1 + rng.IntN(250))}), "fresh"
	case 1:
		var keys []netip.Addr
		for s := range hs.n.static {
			keys = append(keys, s)
		}
		if len(keys) > 0 {
			slices.SortFunc(keys, func(a, b netip.Addr) int { return a.Compare(b) })
			return keys[rng.IntN(len(keys))], "static"
		}
	}
	id := hs.idents[rng.IntN(len(hs.idents))]
	return id.addrs[rng.IntN(len(id.addrs))], id.name
}

func (hs *c36Hist) opMessage(rng *rand.Rand, typ NebulaMeta_MessageType) {
	n := hs.n
	var sender c36Ident
	var about netip.Addr
	var who string
	switch typ {
	case NebulaMeta_HostUpdateNotification:
		sender = hs.idents[rng.IntN(len(hs.idents))]
		about = sender.addrs[rng.IntN(len(sender.addrs))]
		who = sender.name
	default: // reply, punch: from a lighthouse (now and then from somebody else)
		sender = hs.idents[rng.IntN(2)]
		if rng.IntN(10) == 0 {
			sender = hs.idents[2+rng.IntN(len(hs.idents)-2)]
		}
		about, who = hs.pickPeerAddr(rng)
	}
	v4, v6, all, mapped := hs.genLists(rng)
	d := &NebulaMetaDetails{V4AddrPorts: v4, V6AddrPorts: v6}
	if about.Is4() && rng.IntN(2) == 0 {
		d.OldVpnAddr = c36U32(about)
	} else if typ != NebulaMeta_HostUpdateNotification || rng.IntN(3) != 0 {
		d.VpnAddr = netAddrToProtoAddr(about)
	}
	for i := 0; i < []int{0, 0, 1, 3, 12}[rng.IntN(5)]; i++ {
		id := hs.idents[rng.IntN(len(hs.idents))]
		d.RelayVpnAddrs = append(d.RelayVpnAddrs, netAddrToProtoAddr(id.addrs[0]))
	}
	b, err := (&NebulaMeta{Type: typ, Details: d}).Marshal()
	if err != nil {
		panic(err)
	}
	name := map[NebulaMeta_MessageType]string{NebulaMeta_HostUpdateNotification: "update", NebulaMeta_HostQueryReply: "reply", NebulaMeta_HostPunchNotification: "punch"}[typ]
	hs.ops = append(hs.ops, c36Op{Op: name, Who: sender.name, Target: about.String() + " (" + who + ")", Addrs: c36Strs(all), Extra: verifkit.Hex(b)})
	hs.r.Pre("C36 history=%d op=%d %s from %s about %s bytes=%x", hs.h, len(hs.ops), name, sender.name, about, b)
	n.conn.take()
	n.lhh.HandleRequest(netip.MustParseAddrPort("192.0.2.77:4242"), slices.Clone(sender.addrs), b, n.enc)
	isLH := false
	for _, a := range sender.addrs {
		if slices.Contains(n.w.lhAddrs, a) {
			isLH = true
		}
	}
	switch typ {
	case NebulaMeta_HostUpdateNotification:
		if n.w.amLH {
			if rl := hs.lookup(sender.addrs[0]); rl != nil {
				m := hs.model(rl)
				m.sources["update:"+sender.addrs[0].String()] = true
				m.mapped[sender.addrs[0].String()] = mapped
				hs.r.Count("host_updates_fed", 1)
			}
		}
	case NebulaMeta_HostQueryReply:
		if isLH {
			if rl := hs.lookup(about); rl != nil {
				m := hs.model(rl)
				m.sources["reply:"+sender.addrs[0].String()] = true
				m.mapped[sender.addrs[0].String()] = mapped
				hs.r.Count("query_replies_fed", 1)
			}
		}
	case NebulaMeta_HostPunchNotification:
		time.Sleep(5 * time.Second) // virtual: punches and the test packet are due by now
		synctest.Wait()
		writes := n.conn.take()
		peer := []netip.Addr{about}
		var blocked map[netip.AddrPort]bool
		var ever map[netip.Addr]bool
		if rl := hs.lookup(about); rl != nil {
			peer = hs.peerSet(rl)
			if !slices.Contains(peer, about) {
				peer = append(peer, about)
			}
			blocked, ever = hs.model(rl).blocked, hs.model(rl).everPeer
		}
		for _, wr := range writes {
			hs.r.Count("punch_destinations_judged", 1)
			hs.judgeDest("punch-destination", peer, wr, blocked, ever, false)
		}
		if len(writes) > 0 {
			hs.r.Count("punch_requests_acted_on", 1)
		}
	}
}

func (hs *c36Hist) opCalculated(rng *rand.Rand) {
	n := hs.n
	a, who := hs.pickPeerAddr(rng)
	hs.ops = append(hs.ops, c36Op{Op: "start-handshake (calculated remotes)", Target: a.String() + " (" + who + ")"})
	hm := NewHandshakeManager(n.l, nil, n.lh, n.conn, defaultHandshakeConfig)
	hm.f = n.ifce
	hi := hm.StartHandshake(a, nil)
	if hi.remotes == nil {
		hi.remotes = n.lh.QueryCache([]netip.Addr{a}) // what handleOutbound does first
	}
	m := hs.model(hi.remotes)
	if _, isStatic := n.static[a]; !isStatic && n.calc != nil {
		m.sources["calculated"] = true
		hs.r.Count("calculated_remotes_fed", 1)
	}
}

func (hs *c36Hist) ingressDrops(via netip.AddrPort) bool {
	// readOutsidePackets refuses packets whose source lies inside the node's own networks before any
	// of the learning paths run; that gate is outside this unit (node level), so such sources are not
	// delivered here.
	return hs.n.w.inOwn(via.Addr())
}

func (hs *c36Hist) opHandshakeLearn(rng *rand.Rand) {
	n := hs.n
	id := hs.idents[rng.IntN(len(hs.idents))]
	via := ViaSender{UdpAddr: c36Underlay(rng, rng.IntN(3) == 0), IsRelayed: rng.IntN(10) == 0}
	via.UdpAddr = netip.AddrPortFrom(via.UdpAddr.Addr().Unmap(), via.UdpAddr.Port())
	hs.ops = append(hs.ops, c36Op{Op: "handshake completed", Who: id.name, Addrs: []string{via.String()}})
	if hs.ingressDrops(via.UdpAddr) && !via.IsRelayed {
		hs.r.Count("learn_source_dropped_at_ingress", 1)
		hs.ops[len(hs.ops)-1].Extra = "dropped at ingress (own network)"
		return
	}
	nets := make([]netip.Prefix, len(id.addrs))
	for i, a := range id.addrs {
		nets[i] = netip.PrefixFrom(a, 16)
		if a.Is6() {
			nets[i] = netip.PrefixFrom(a, 64)
		}
	}
	cc := &cert.CachedCertificate{Certificate: &cert_test.DummyCert{Version_: cert.Version2, Networks_: nets, Name_: id.name}}
	vpnAddrs, _, ok := n.hm.validatePeerCert(via, cc)
	if !ok {
		hs.r.Count("handshake_refused_by_allow_list", 1)
		hs.ops[len(hs.ops)-1].Extra = "refused"
		return
	}
	// the lines that follow a validated handshake in beginHandshake / continueHandshake
	hi := &HostInfo{vpnAddrs: vpnAddrs, ConnectionState: &ConnectionState{peerCert: cc}}
	hi.remotes = n.lh.QueryCache(vpnAddrs)
	if !via.IsRelayed {
		hi.SetRemote(via.UdpAddr)
		hs.model(hi.remotes).learned[vpnAddrs[0]] = true
		hs.r.Count("learned_from_handshake", 1)
	}
	hi.remotes.RefreshFromHandshake(vpnAddrs)
	hs.model(hi.remotes).blocked = map[netip.AddrPort]bool{}
	hs.his[id.name] = hi
}

func (hs *c36Hist) opRoam(rng *rand.Rand) {
	n := hs.n
	var names []string
	for k := range hs.his {
		names = append(names, k)
	}
	if len(names) == 0 {
		hs.opHandshakeLearn(rng)
		return
	}
	sort.Strings(names)
	hi := hs.his[names[rng.IntN(len(names))]]
	via := ViaSender{UdpAddr: c36Underlay(rng, rng.IntN(3) == 0), IsRelayed: rng.IntN(10) == 0}
	via.UdpAddr = netip.AddrPortFrom(via.UdpAddr.Addr().Unmap(), via.UdpAddr.Port())
	hs.ops = append(hs.ops, c36Op{Op: "authenticated packet from new source (roam)", Who: fmt.Sprint(hi.vpnAddrs), Addrs: []string{via.String()}})
	if hs.ingressDrops(via.UdpAddr) && !via.IsRelayed {
		hs.r.Count("learn_source_dropped_at_ingress", 1)
		hs.ops[len(hs.ops)-1].Extra = "dropped at ingress (own network)"
		return
	}
	before := hi.GetRemote()
	n.ifce.handleHostRoaming(hi, via)
	if hi.GetRemote() != before {
		hs.model(hi.remotes).learned[hi.vpnAddrs[0]] = true
		hs.r.Count("learned_from_roaming", 1)
	} else {
		hs.r.Count("roam_not_taken", 1)
	}
}

func (hs *c36Hist) anyList(rng *rand.Rand) *RemoteList {
	var all []*RemoteList
	seen := map[*RemoteList]bool{}
	var keys []netip.Addr
	hs.n.lh.RLock()
	for k := range hs.n.lh.addrMap {
		keys = append(keys, k)
	}
	hs.n.lh.RUnlock()
	slices.SortFunc(keys, func(a, b netip.Addr) int { return a.Compare(b) })
	for _, k := range keys {
		if rl := hs.lookup(k); rl != nil && !seen[rl] {
			seen[rl] = true
			all = append(all, rl)
		}
	}
	if len(all) == 0 {
		return nil
	}
	return all[rng.IntN(len(all))]
}

func (hs *c36Hist) opBlock(rng *rand.Rand) {
	rl := hs.anyList(rng)
	if rl == nil {
		return
	}
	cur := rl.CopyAddrs(nil)
	var bad netip.AddrPort
	if len(cur) > 0 && rng.IntN(5) != 0 {
		bad = cur[rng.IntN(len(cur))]
	} else {
		bad = c36Underlay(rng, rng.IntN(3) == 0)
		bad = netip.AddrPortFrom(bad.Addr().Unmap(), bad.Port())
	}
	via := ViaSender{UdpAddr: bad, IsRelayed: rng.IntN(8) == 0}
	hs.ops = append(hs.ops, c36Op{Op: "wrong host answered (BlockRemote)", Target: fmt.Sprint(hs.peerSet(rl)), Addrs: []string{via.String()}})
	rl.BlockRemote(via)
	if !via.IsRelayed {
		hs.model(rl).blocked[bad] = true
		hs.model(rl).everBlocked[bad] = true
		hs.r.Count("addresses_marked_bad", 1)
	}
}

func (hs *c36Hist) opDelete(rng *rand.Rand) {
	var addrs []netip.Addr
	who := ""
	if rng.IntN(3) == 0 {
		a, w := hs.pickPeerAddr(rng)
		addrs, who = []netip.Addr{a}, w
	} else {
		id := hs.idents[rng.IntN(len(hs.idents))]
		addrs, who = slices.Clone(id.addrs), id.name
		delete(hs.his, id.name) // the tunnel and its hostinfo are gone
		if rng.IntN(3) == 0 {
			slices.Reverse(addrs)
		}
	}
	hs.ops = append(hs.ops, c36Op{Op: "tunnel closed (DeleteVpnAddrs)", Who: who, Target: fmt.Sprint(addrs)})
	hs.n.lh.DeleteVpnAddrs(addrs)
	hs.r.Count("delete_vpn_addrs", 1)
}

func (hs *c36Hist) opDNS(rng *rand.Rand) {
	n := hs.n
	var keys []netip.Addr
	for s := range n.static {
		keys = append(keys, s)
	}
	if len(keys) == 0 {
		return
	}
	slices.SortFunc(keys, func(a, b netip.Addr) int { return a.Compare(b) })
	s := keys[rng.IntN(len(keys))]
	rl := hs.lookup(s)
	if rl == nil || rl.hr == nil {
		return
	}
	set := map[netip.AddrPort]struct{}{}
	model := map[netip.AddrPort]bool{}
	aps := c36GenStaticAddrs(rng)
	for _, ap := range aps {
		set[ap] = struct{}{}
		model[ap] = true
	}
	hs.ops = append(hs.ops, c36Op{Op: "DNS result set changed (stub)", Target: s.String(), Addrs: c36Strs(aps)})
	// what the resolver goroutine of NewHostnameResults does when the result set differs
	rl.hr.ips.Store(&set)
	rl.Lock()
	rl.shouldRebuild = true
	rl.Unlock()
	n.static[s] = model
	hs.model(rl).hrCount = len(set)
	hs.r.Count("dns_result_sets_fed", 1)
}

func (hs *c36Hist) opReloadStatic(rng *rand.Rand) {
	n := hs.n
	order := map[netip.Addr][]netip.AddrPort{}
	newStatic := map[netip.Addr]map[netip.AddrPort]bool{}
	add := func(a netip.Addr) {
		aps := c36GenStaticAddrs(rng)
		order[a] = aps
		newStatic[a] = map[netip.AddrPort]bool{}
		for _, ap := range aps {
			newStatic[a][ap] = true
		}
	}
	for _, a := range n.w.lhAddrs {
		add(a)
	}
	for _, a := range []netip.Addr{hs.idents[3].addrs[0], hs.idents[5].addrs[0], hs.idents[6].addrs[1], hs.idents[2].addrs[0]} {
		if rng.IntN(3) == 0 {
			add(a)
		}
	}
	n.w.settings["static_host_map"] = c36StaticCfg(newStatic, order)
	hs.ops = append(hs.ops, c36Op{Op: "reload static_host_map", Extra: fmt.Sprint(n.w.settings["static_host_map"])})
	if err := n.c.ReloadConfigString(c36Yaml(n.w.settings)); err != nil {
		hs.r.Inconclusive("reload failed: " + err.Error())
		return
	}
	for s := range n.static {
		if _, still := newStatic[s]; !still {
			if rl := hs.lookup(s); rl != nil {
				hs.model(rl).hrCount = 0
			}
		}
	}
	n.static = newStatic
	for s, cfg := range newStatic {
		if rl := hs.lookup(s); rl != nil {
			m := hs.model(rl)
			m.hrCount = len(cfg)
			m.sources["static"] = true
		}
	}
	hs.r.Count("static_map_reloads", 1)
}

// ---------------------------------------------------------------------------------------------

func TestVerifC36Sources(t *testing.T) {
	r := verifkit.NewReporter(t, "C36", "sources",
		"case = one operation in a history on one real LightHouse (client or lighthouse; 1-3 own overlay networks; generated remote_allow_list / remote_allow_ranges / static_host_map / calculated_remotes): query reply, host update, punch request, static reload, DNS result set, StartHandshake (calculated remotes), completed handshake (direct and relayed), roam, BlockRemote, DeleteVpnAddrs; after every operation every address exposed by every RemoteList and every punch destination is judged; distinct = distinct (operation, peer kind, classes of addresses exposed afterwards) classes plus distinct (operation, exposed set) hashes")
	defer r.Done()
	r.Info("cap_reading", "each information source (one lighthouse's replies, one host's updates, calculated remotes, the static entry) holds at most MaxRemotes=10 addresses per peer PER ADDRESS FAMILY (10 IPv4 + 10 IPv6), which is the reading the code implements; IPv4-mapped addresses carried in the IPv6 list are stored by the code next to the ten of the IPv4 list, which lets one source hold up to 20 IPv4 addresses - judged as a violation of the per-family cap under its own key; the static/DNS result set of a static host is exposed in full (second clause of the statement: static hosts keep their configured addresses) and is reported in counters, not judged against the cap")
	idents := c36Idents()
	histories := verifkit.Scale(1500, 150_000)
	steps := 36
	for h := 0; h < histories; h++ {
		if !verifkit.Mine(h) {
			continue
		}
		rng := verifkit.SubRand("C36hist", h)
		synctest.Test(t, func(t *testing.T) {
			c36History(t, r, rng, idents, h, steps)
		})
		if r.NViolations() > 12 {
			break
		}
	}
	r.Info("histories", histories)
	r.Info("steps_per_history", steps)
}

func c36History(t *testing.T, r *verifkit.Reporter, rng *rand.Rand, idents []c36Ident, h, steps int) {
	ctx, cancel := context.WithCancel(context.Background())
	defer func() {
		cancel()
		synctest.Wait()
	}()
	n, err := c36BuildNode(ctx, rng, idents)
	if err != nil {
		r.Inconclusive(fmt.Sprintf("history %d: %v", h, err))
		return
	}
	hs := &c36Hist{r: r, n: n, h: h, lists: map[*RemoteList]*c36ListModel{}, his: map[string]*HostInfo{}, idents: idents}
	if h < 2 {
		r.Sample(map[string]any{"history": h, "settings": n.w.settings, "own_networks": c36Strs(n.w.ownNets)})
	}
	for s, cfg := range n.static {
		if rl := hs.lookup(s); rl != nil {
			m := hs.model(rl)
			m.hrCount = len(cfg)
			m.sources["static"] = true
		}
	}
	hs.ops = append(hs.ops, c36Op{Op: "initial load"})
	crashed := r.Guard("C36/panic", hs.replay, func() { hs.checkAll(rng) })
	for s := 0; s < steps && !crashed; s++ {
		opName := ""
		crashed = r.Guard("C36/panic", hs.replay, func() {
			switch k := rng.IntN(40); {
			case k < 10:
				if n.w.amLH {
					hs.opMessage(rng, NebulaMeta_HostUpdateNotification)
				} else {
					hs.opMessage(rng, NebulaMeta_HostQueryReply)
				}
			case k < 14:
				hs.opMessage(rng, NebulaMeta_HostPunchNotification)
			case k < 18:
				hs.opCalculated(rng)
			case k < 22:
				hs.opHandshakeLearn(rng)
			case k < 26:
				hs.opRoam(rng)
			case k < 32:
				hs.opBlock(rng)
			case k < 36:
				hs.opDelete(rng)
			case k < 39:
				hs.opDNS(rng)
			default:
				hs.opReloadStatic(rng)
			}
			opName = hs.ops[len(hs.ops)-1].Op
			hs.checkAll(rng)
		})
		r.Eval(1)
		// evidence: what kinds of addresses the fed data contained vs what is exposed
		last := hs.ops[len(hs.ops)-1]
		kinds := map[string]bool{}
		for _, a := range last.Addrs {
			ap, err := netip.ParseAddrPort(strings.TrimSuffix(a, " (relayed)"))
			if err != nil {
				continue
			}
			g, _ := n.w.denied(nil, ap.Addr())
			switch {
			case n.w.inOwn(ap.Addr()):
				kinds["own"] = true
			case g:
				kinds["denied"] = true
			default:
				kinds["ok"] = true
			}
		}
		var ks []string
		for k := range kinds {
			ks = append(ks, k)
		}
		sort.Strings(ks)
		role := "client"
		if n.w.amLH {
			role = "lighthouse"
		}
		r.DistinctClass(fmt.Sprintf("%s|%s|fed=%s|nets=%d|global=%v|ranges=%d", role, opName, strings.Join(ks, "+"), len(n.w.ownNets), n.w.global != nil, len(n.w.ranges)))
		r.Distinct(fmt.Sprintf("%s|%v|%s", opName, last.Addrs, last.Target))
		if r.NViolations() > 12 {
			return
		}
	}
}
